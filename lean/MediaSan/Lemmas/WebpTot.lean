/-
  C06, completeness of the WebP container grammar: the operations of the chunk-reader stack RETURN when the stream
  holds what they are about to read (total-correctness triples, Lemmas/Tot.lean); what they leave behind is known from
  the partial-correctness side (Lemmas/WebpRel.lean) through `Tot.and_tri`.
-/
import MediaSan.Lemmas.Tot
import MediaSan.Lemmas.WebpRel
namespace MediaSan.Webp
open MediaSan MediaSan.Spec.WebpGrammar

/-! ### the fixed-size records: what the recogniser checks is what the codec accepts -/

open Generated in
theorem alph_parse_ok (b0 : UInt8) (h : b0.toNat &&& 29 = b0.toNat) :
    ∃ vs rest, schemaAlphChunk.parse [b0] = .ok (vs, rest) := by
  have hl : leToNat [b0] = b0.toNat := by simp [leToNat]
  simp only [Schema.parse, schemaAlphChunk, Schema.tys, List.map, parseFields, parseField, List.length_cons, List.length_nil,
    List.take, List.drop, toNatE, hl]
  simp [h, hl]

open Generated in
theorem anmf_parse_ok (b0 b1 b2 b3 b4 b5 b6 b7 b8 b9 b10 b11 b12 b13 b14 b15 : UInt8) (h : b15.toNat &&& 3 = b15.toNat) :
    ∃ vs rest, schemaAnmfChunk.parse [b0, b1, b2, b3, b4, b5, b6, b7, b8, b9, b10, b11, b12, b13, b14, b15] = .ok (vs, rest) := by
  have hl : leToNat [b15] = b15.toNat := by simp [leToNat]
  simp only [Schema.parse, schemaAnmfChunk, Schema.tys, List.map, parseFields, parseField, List.length_cons, List.length_nil,
    List.take, List.drop, toNatE, hl]
  simp [h, hl]

open Generated in
theorem anim_parse_ok (b0 b1 b2 b3 b4 b5 : UInt8) :
    ∃ vs rest, schemaAnimChunk.parse [b0, b1, b2, b3, b4, b5] = .ok (vs, rest) := by
  simp only [Schema.parse, schemaAnimChunk, Schema.tys, List.map, parseFields, parseField, List.length_cons, List.length_nil,
    List.take, List.drop, toNatE]
  simp

open Generated in
theorem vp8x_parse_ok (b0 b4 b5 b6 b7 b8 b9 : UInt8) (h : b0.toNat &&& 62 = b0.toNat)
    (hp : (1 + leToNat [b4, b5, b6]) * (1 + leToNat [b7, b8, b9]) ≤ 4294967295) :
    ∃ rest, schemaVp8xChunk.parse [b0, 0, 0, 0, b4, b5, b6, b7, b8, b9] =
      .ok ([b0.toNat, 0, 1 + leToNat [b4, b5, b6], 1 + leToNat [b7, b8, b9]], rest) := by
  have hl : leToNat [b0] = b0.toNat := by simp [leToNat]
  simp only [Schema.parse, schemaVp8xChunk, Schema.tys, List.map, parseFields, parseField, List.length_cons, List.length_nil,
    List.take, List.drop, toNatE, hl]
  simp only [h, if_true]
  have hpr : parseReserved 3 [0, 0, 0, b4, b5, b6, b7, b8, b9] = .ok [b4, b5, b6, b7, b8, b9] := by
    simp [parseReserved]
  have hm1 := min_le3 b4 b5 b6
  have hm2 := min_le3 b7 b8 b9
  have hp' : (1 + leToNat [b7, b8, b9]) * (1 + leToNat [b4, b5, b6]) ≤ u32Max := by
    rw [Nat.mul_comm]; exact hp
  simp [hpr, hm1, hm2, hp']

section
variable (s : Stream) (kind : SkipKind)

/-- the run returns (nothing more is claimed; the partial-correctness lemmas say what it returns) -/
abbrev Ret {α} (p : WP α) (pos : Nat) : Prop := Tot (idealOps s kind) p pos (fun _ _ => True)

theorem Ret.with {α} {p : WP α} {pos : Nat} {R : α → Nat → Prop} (h : Ret s kind p pos)
    (ht : Tri (idealOps s kind) p pos R) : Tot (idealOps s kind) p pos R :=
  Tot.mono (Tot.and_tri h ht) (fun _ _ hq => hq.2)

/-- sequencing: the first part returns, the triple says where it leaves things, the second part returns from there -/
theorem Ret.bind {α β} {p : WP α} {f : α → WP β} {pos : Nat} {R : α → Nat → Prop} {Q : β → Nat → Prop}
    (h : Ret s kind p pos) (ht : Tri (idealOps s kind) p pos R)
    (hf : ∀ a pos', R a pos' → Tot (idealOps s kind) (f a) pos' Q) : Tot (idealOps s kind) (p.bind f) pos Q :=
  Tot.bind (Tot.mono (Ret.with s kind h ht) (fun a p' hr => hf a p' hr))

theorem tri_any {α} {p : WP α} {pos : Nat} : Tri (idealOps s kind) p pos (fun _ _ => True) := by
  unfold Tri; split <;> trivial

theorem tri_and {α} {p : WP α} {pos : Nat} {Q R : α → Nat → Prop} (h1 : Tri (idealOps s kind) p pos Q)
    (h2 : Tri (idealOps s kind) p pos R) : Tri (idealOps s kind) p pos (fun a p' => Q a p' ∧ R a p') := by
  unfold Tri at *
  split <;> simp_all

theorem Tot.readUpTo {E α : Type} {n : Nat} {k : Bytes → Prog E α} {pos : Nat} {Q : α → Nat → Prop}
    (h : Tot (idealOps s kind) (k (s.read pos (min n (s.len - pos)))) (pos + min n (s.len - pos)) Q) :
    Tot (idealOps s kind) (.readUpTo n k) pos Q := by
  unfold Tot at *
  simpa only [Prog.runF, idealOps] using h

/-! ### the raw operations -/

theorem rawRead_ret (r : RS) (k n pos : Nat) (hb : ∀ m, r.bound k = some m → n ≤ m) (hl : pos + n ≤ s.len) :
    Ret s kind (rawRead r k n) pos := by
  unfold rawRead
  split
  · exact Tot.done trivial
  · have hw : within (r.bound k) n = true := by
      unfold within
      cases hq : r.bound k with
      | none => rfl
      | some m => simpa using hb m hq
    rw [if_pos hw]
    exact Tot.readExact s kind hl (Tot.done trivial)

theorem rawSkip_ret (r : RS) (k n pos : Nat) (hb : ∀ m, r.bound k = some m → n ≤ m) (hl : pos + n ≤ s.len)
    (hs : s.len < u64Lim) : Ret s kind (rawSkip r k n) pos := by
  unfold rawSkip
  have hw : within (r.bound k) n = true := by
    unfold within
    cases hq : r.bound k with
    | none => rfl
    | some m => simpa using hb m hq
  rw [if_pos hw]
  split
  · exact Tot.done trivial
  · exact Tot.skip s kind hs hl (Tot.done trivial)

theorem rawIsEmpty_ret (r : RS) (k pos : Nat) : Ret s kind (rawIsEmpty r k) pos := by
  unfold rawIsEmpty
  split
  · exact Tot.done trivial
  · exact Tot.isEof s kind (Tot.done trivial)

/-- the limit of reads and skips of level `k` at `pos` is the absolute offset `L`: the end of the enclosing chunk(s) for
    the child readers, the end of the input for the file reader -/
def LimIs (r : RS) (k pos L : Nat) : Prop := (1 ≤ k → limOf r k pos = L) ∧ (k = 0 → L = s.len)

theorem limIs_of (r : RS) (k pos L : Nat) (h1k : 1 ≤ k) (hL : limOf r k pos = L) : LimIs s r k pos L :=
  ⟨fun _ => hL, fun h => by omega⟩

theorem LimIs.keep {r r' : RS} {k pos pos' L : Nat} (h : LimIs s r k pos L) (hk : Keeps k r pos r' pos') :
    LimIs s r' k pos' L :=
  ⟨fun h1 => by rw [hk.lim h1]; exact h.1 h1, h.2⟩

theorem bound_le (r : RS) (k pos n L : Nat) (hL : LimIs s r k pos L) (h : pos + n ≤ L) :
    ∀ m, r.bound k = some m → n ≤ m := by
  intro m hm
  by_cases h1k : 1 ≤ k
  · rw [bound_lim r k pos h1k, hL.1 h1k] at hm
    simp only [Option.some.injEq] at hm
    omega
  · have : k = 0 := by omega
    subst this
    cases hm

/-! ### the chunk reader -/

/-- `read_padding` returns when the pad byte (if one is pending) is there and is zero -/
theorem readPadding_ret (r : RS) (k pos L : Nat) (hL : LimIs s r k pos L) (hLs : L ≤ s.len)
    (hp : ∀ n len, r.get k = .padding n len → len % 2 = 1 → pos + 1 ≤ L ∧ s.get pos = 0) :
    Ret s kind (readPadding r k) pos := by
  unfold readPadding
  cases hc : r.get k with
  | padding name len =>
    dsimp only
    split
    · rename_i hodd
      obtain ⟨h1, h2⟩ := hp name len hc hodd
      apply Ret.bind s kind (rawRead_ret s kind r k 1 pos (bound_le s r k pos 1 L hL h1) (by omega))
        (rawRead_rel s kind r k 1 pos)
      intro x p1 ⟨e1, _, _, _, _⟩
      obtain ⟨b, r1⟩ := x
      dsimp only at e1 ⊢
      rw [e1, read_one, h2]
      exact Tot.done trivial
    · exact Tot.done trivial
  | idle => exact Tot.done trivial
  | peeking a b => exact Tot.done trivial
  | body a b c => exact Tot.done trivial

theorem hasRemaining_ret (r : RS) (k pos L : Nat) (hk : k ≤ 2) (hL : LimIs s r k pos L) (hLs : L ≤ s.len)
    (hp : ∀ n len, r.get k = .padding n len → len % 2 = 1 → pos + 1 ≤ L ∧ s.get pos = 0) :
    Ret s kind (hasRemaining r k) pos := by
  unfold hasRemaining
  apply Ret.bind s kind (readPadding_ret s kind r k pos L hL hLs hp) (readPadding_rel s kind r k pos hk)
  intro r1 p1 _
  split
  · exact Ret.bind s kind (rawIsEmpty_ret s kind r1 k p1) (tri_any s kind) (fun _ _ _ => Tot.done trivial)
  · exact Tot.done trivial

/-- between chunks, with the next header inside the region: `read_any_header` returns -/
theorem readAnyHeader_ret (r : RS) (k pos L : Nat) (hk : k ≤ 2) (hL : LimIs s r k pos L) (hLs : L ≤ s.len)
    (hst : r.get k = .idle ∨ ∃ n l, r.get k = .padding n l)
    (hp : ∀ n len, r.get k = .padding n len → len % 2 = 1 → pos + 1 ≤ L ∧ s.get pos = 0)
    (hfit : bdry (r.get k) pos + 8 ≤ L) :
    Ret s kind (readAnyHeader r k) pos := by
  unfold readAnyHeader
  apply Ret.bind s kind (readPadding_ret s kind r k pos L hL hLs hp) (readPadding_rel s kind r k pos hk)
  intro r1 p1 ⟨hkeep, hst1⟩
  have hidle : r1.get k = .idle ∧ p1 = bdry (r.get k) pos := by
    rcases hst with h | ⟨n, l, h⟩
    · rw [h] at hst1 ⊢; exact ⟨hst1.1, hst1.2⟩
    · rw [h] at hst1 ⊢; exact ⟨hst1.1, hst1.2.1⟩
  obtain ⟨hi, hp1⟩ := hidle
  have hL1 : LimIs s r1 k p1 L := hL.keep s hkeep
  dsimp only
  rw [hi]
  dsimp only
  apply Ret.bind s kind (hasRemaining_ret s kind r1 k p1 L hk hL1 hLs (by intro n len h; rw [hi] at h; cases h))
    (hasRemaining_rel s kind r1 k p1 hk)
  intro x p2 ⟨hk2, hp2, _, hrest⟩
  obtain ⟨more, r2⟩ := x
  rw [hi] at hrest hp2
  have hp2' : p2 = p1 := hp2
  have hmore : more = true := by
    cases more with
    | true => rfl
    | false =>
      exfalso
      rcases hrest.2.mp rfl with ⟨h1k', a⟩ | a
      · rw [hL1.1 h1k'] at a; omega
      · omega
  subst hmore
  dsimp only
  have hL2 : LimIs s r2 k p2 L := hL1.keep s hk2
  apply Ret.bind s kind (rawRead_ret s kind r2 k 8 p2 (bound_le s r2 k p2 8 L hL2 (by omega)) (by omega))
    (rawRead_rel s kind r2 k 8 p2)
  intro y p3 ⟨_, _, e3, _, _⟩
  apply Tot.position
  rw [if_neg (by omega)]
  exact Tot.done trivial

/-- the same for `peek_header` -/
theorem peekHeader_ret (r : RS) (k pos L : Nat) (hk : k ≤ 2) (hL : LimIs s r k pos L) (hLs : L ≤ s.len)
    (hst : r.get k = .idle ∨ ∃ n l, r.get k = .padding n l)
    (hp : ∀ n len, r.get k = .padding n len → len % 2 = 1 → pos + 1 ≤ L ∧ s.get pos = 0)
    (hfit : bdry (r.get k) pos + 8 ≤ L ∨ L ≤ bdry (r.get k) pos) :
    Ret s kind (peekHeader r k) pos := by
  unfold peekHeader
  apply Ret.bind s kind (readPadding_ret s kind r k pos L hL hLs hp) (readPadding_rel s kind r k pos hk)
  intro r1 p1 ⟨hkeep, hst1⟩
  have hidle : r1.get k = .idle ∧ p1 = bdry (r.get k) pos := by
    rcases hst with h | ⟨n, l, h⟩
    · rw [h] at hst1 ⊢; exact ⟨hst1.1, hst1.2⟩
    · rw [h] at hst1 ⊢; exact ⟨hst1.1, hst1.2.1⟩
  obtain ⟨hi, hp1⟩ := hidle
  have hL1 : LimIs s r1 k p1 L := hL.keep s hkeep
  rw [hi]
  dsimp only
  apply Ret.bind s kind (hasRemaining_ret s kind r1 k p1 L hk hL1 hLs (by intro n len h; rw [hi] at h; cases h))
    (hasRemaining_rel s kind r1 k p1 hk)
  intro x p2 ⟨hk2, hp2, _, hrest⟩
  obtain ⟨more, r2⟩ := x
  rw [hi] at hrest hp2
  have hp2' : p2 = p1 := hp2
  dsimp only
  cases more with
  | false => exact Tot.done trivial
  | true =>
    have hL2 : LimIs s r2 k p2 L := hL1.keep s hk2
    have hnot : ¬ (L ≤ p2) := by
      intro hle
      have : true = false := by
        apply hrest.2.mpr
        by_cases h1k : 1 ≤ k
        · exact Or.inl ⟨h1k, by rw [hL1.1 h1k]; exact hle⟩
        · right; have := hL1.2 (by omega); omega
      cases this
    have hfit' : p2 + 8 ≤ L := by
      rcases hfit with h | h
      · omega
      · omega
    apply Ret.bind s kind (rawRead_ret s kind r2 k 8 p2 (bound_le s r2 k p2 8 L hL2 hfit') (by omega))
      (rawRead_rel s kind r2 k 8 p2)
    intro y p3 _
    exact Tot.done trivial

/-- `read_header(name)` returns when the next header is inside the region and names `name` -/
theorem readHeader_ret (r : RS) (k pos L : Nat) (name : Bytes) (hk : k ≤ 2) (hL : LimIs s r k pos L)
    (hLs : L ≤ s.len) (hst : r.get k = .idle ∨ ∃ n l, r.get k = .padding n l)
    (hp : ∀ n len, r.get k = .padding n len → len % 2 = 1 → pos + 1 ≤ L ∧ s.get pos = 0)
    (hfit : bdry (r.get k) pos + 8 ≤ L) (hname : (hdrAt s (bdry (r.get k) pos)).name = name) :
    Ret s kind (readHeader r k name) pos := by
  unfold readHeader
  apply Ret.bind s kind (readPadding_ret s kind r k pos L hL hLs hp) (readPadding_rel s kind r k pos hk)
  intro r1 p1 ⟨hkeep, hst1⟩
  have hidle : r1.get k = .idle ∧ p1 = bdry (r.get k) pos := by
    rcases hst with h | ⟨n, l, h⟩
    · rw [h] at hst1 ⊢; exact ⟨hst1.1, hst1.2⟩
    · rw [h] at hst1 ⊢; exact ⟨hst1.1, hst1.2.1⟩
  obtain ⟨hi, hp1⟩ := hidle
  have hL1 : LimIs s r1 k p1 L := hL.keep s hkeep
  dsimp only
  rw [hi]
  dsimp only
  apply Ret.bind s kind (hasRemaining_ret s kind r1 k p1 L hk hL1 hLs (by intro n len h; rw [hi] at h; cases h))
    (hasRemaining_rel s kind r1 k p1 hk)
  intro x p2 ⟨hk2, hp2, _, hrest⟩
  obtain ⟨more, r2⟩ := x
  rw [hi] at hrest hp2
  have hp2' : p2 = p1 := hp2
  have hmore : more = true := by
    cases more with
    | true => rfl
    | false =>
      exfalso
      rcases hrest.2.mp rfl with ⟨h1k', a⟩ | a
      · rw [hL1.1 h1k'] at a; omega
      · omega
  subst hmore
  dsimp only
  rw [if_pos rfl]
  have hi2 : r2.get k = .idle := hrest.1
  have hL2 : LimIs s r2 k p2 L := hL1.keep s hk2
  have hb2 : bdry (r2.get k) p2 = bdry (r.get k) pos := by rw [hi2]; show p2 = _; omega
  apply Ret.bind s kind (readAnyHeader_ret s kind r2 k p2 L hk hL2 hLs (Or.inl hi2)
      (by intro n len h; rw [hi2] at h; cases h) (by rw [hb2]; exact hfit))
    (readAnyHeader_rel s kind r2 k p2 hk (Or.inl hi2))
  intro y p3 ⟨_, _, _, _, _, e4, _⟩
  obtain ⟨got, r3⟩ := y
  dsimp only at e4 ⊢
  rw [hb2, hname] at e4
  rw [if_pos e4]
  exact Tot.done trivial

/-- `read_data(n)` inside the body of the current chunk -/
theorem readData_ret (r : RS) (k n pos L : Nat) (hL : LimIs s r k pos L) (hLs : L ≤ s.len)
    (name : Bytes) (len rem : Nat) (hst : r.get k = .body name len rem) (hn : n ≤ rem) (hfit : pos + n ≤ L) :
    Ret s kind (readData r k n) pos := by
  unfold readData
  have hpad : readPadding r k = .done r := by unfold readPadding; rw [hst]
  rw [hpad]
  show Ret s kind (match r.get k with
    | .idle => .fail .truncatedChunk
    | .peeking _ _ => .panic "reader.rs:144 read_header must be read after peek_header"
    | .body name len rem =>
      if rem < n then .fail .truncatedChunk
      else (rawRead r k n).bind fun (b, r) =>
        .done (b, r.set k (if rem - n = 0 then .padding name len else .body name len (rem - n)))
    | .padding _ _ => .panic "unreachable: padding after read_padding") pos
  rw [hst]
  dsimp only
  rw [if_neg (by omega)]
  exact Ret.bind s kind (rawRead_ret s kind r k n pos (bound_le s r k pos n L hL hfit) (by omega)) (tri_any s kind)
    (fun _ _ _ => Tot.done trivial)

/-- `skip_data`: the rest of the body lies inside the region (or there is no body left) -/
theorem skipData_ret (r : RS) (k pos L : Nat) (hk : k ≤ 2) (hL : LimIs s r k pos L) (hLs : L ≤ s.len) (hs : s.len < u64Lim)
    (hst : ∀ a b, r.get k ≠ .peeking a b)
    (hbody : ∀ name len rem, r.get k = .body name len rem → pos + rem ≤ L)
    (hp : ∀ n len, r.get k = .padding n len → len % 2 = 1 → pos + 1 ≤ L ∧ s.get pos = 0) :
    Ret s kind (skipData r k) pos := by
  unfold skipData
  apply Ret.bind s kind (readPadding_ret s kind r k pos L hL hLs hp) (readPadding_rel s kind r k pos hk)
  intro r1 p1 ⟨hkeep, hst1⟩
  cases hc : r.get k with
  | idle => rw [hc] at hst1; rw [hst1.1]; exact Tot.done trivial
  | peeking a b => exact absurd hc (hst a b)
  | padding a b => rw [hc] at hst1; rw [hst1.1]; exact Tot.done trivial
  | body name len rem =>
    rw [hc] at hst1
    rw [hst1.1]
    dsimp only
    have hL1 : LimIs s r1 k p1 L := hL.keep s hkeep
    have hfit := hbody name len rem hc
    have hp1 : p1 = pos := hst1.2
    exact Ret.bind s kind (rawSkip_ret s kind r1 k rem p1 (bound_le s r1 k p1 rem L hL1 (by omega)) (by omega) hs)
      (tri_any s kind) (fun _ _ _ => Tot.done trivial)

/-- `parse_data::<T>()`: the fixed-size record is inside the body and the codec accepts it -/
theorem parseData_ret (r : RS) (k pos L : Nat) (sc : Schema) (hk : k ≤ 2) (hL : LimIs s r k pos L)
    (hLs : L ≤ s.len) (name : Bytes) (len rem : Nat) (hst : r.get k = .body name len rem) (hn : sc.encodedLen ≤ rem)
    (hfit : pos + sc.encodedLen ≤ L) (c : Chunk) (hc : Cur (limOf r k pos) r k pos c)
    (hparse : ∃ vs rest, sc.parse (s.read pos sc.encodedLen) = .ok (vs, rest)) :
    Ret s kind (parseData r k sc) pos := by
  unfold parseData
  apply Ret.bind s kind (readData_ret s kind r k sc.encodedLen pos L hL hLs name len rem hst hn hfit)
    (readData_rel s kind r k sc.encodedLen pos hk c hc)
  intro x p1 ⟨_, e2, _⟩
  obtain ⟨b, r1⟩ := x
  dsimp only at e2 ⊢
  obtain ⟨vs, rest, hp⟩ := hparse
  rw [e2, hp]
  exact Tot.done trivial

/-! ### the same, stated for the current chunk `c` of the level (`Cur`) -/

theorem readData_ret_cur (r : RS) (k n pos L : Nat) (h1k : 1 ≤ k) (hL : limOf r k pos = L) (hLs : L ≤ s.len)
    (c : Chunk) (hc : Cur L r k pos c) (hn : 0 < n) (hfit : pos + n ≤ c.off + c.len) (hcL : c.off + c.len ≤ L) :
    Ret s kind (readData r k n) pos := by
  unfold Cur at hc
  cases hs : r.get k with
  | idle => rw [hs] at hc; exact hc.elim
  | peeking a b => rw [hs] at hc; exact hc.elim
  | padding name len => rw [hs] at hc; obtain ⟨_, _, c3, _⟩ := hc; omega
  | body name len rem =>
    rw [hs] at hc
    obtain ⟨_, _, c3, _⟩ := hc
    exact readData_ret s kind r k n pos L (limIs_of s r k pos L h1k hL) hLs name len rem hs (by omega) (by omega)

theorem skipData_ret_cur (r : RS) (k pos L : Nat) (h1k : 1 ≤ k) (hk : k ≤ 2) (hL : limOf r k pos = L) (hLs : L ≤ s.len)
    (hs : s.len < u64Lim) (c : Chunk) (hc : Cur L r k pos c) (hcL : c.off + c.len ≤ L)
    (hpad : c.len % 2 = 1 → c.off + c.len + 1 ≤ L ∧ s.get (c.off + c.len) = 0) :
    Ret s kind (skipData r k) pos := by
  unfold Cur at hc
  apply skipData_ret s kind r k pos L hk (limIs_of s r k pos L h1k hL) hLs hs
  · intro a b h; rw [h] at hc; exact hc
  · intro name len rem h; rw [h] at hc; obtain ⟨_, _, c3, _⟩ := hc; omega
  · intro n len h hodd
    rw [h] at hc
    obtain ⟨_, c2, c3, _⟩ := hc
    rw [c2] at hodd
    have := hpad hodd
    rw [c3]; exact ⟨by omega, this.2⟩

theorem parseData_ret_cur (r : RS) (k pos L : Nat) (sc : Schema) (h1k : 1 ≤ k) (hk : k ≤ 2) (hL : limOf r k pos = L)
    (hLs : L ≤ s.len) (c : Chunk) (hc : Cur L r k pos c) (hn : 0 < sc.encodedLen)
    (hfit : pos + sc.encodedLen ≤ c.off + c.len) (hcL : c.off + c.len ≤ L)
    (hparse : ∃ vs rest, sc.parse (s.read pos sc.encodedLen) = .ok (vs, rest)) :
    Ret s kind (parseData r k sc) pos := by
  have hc' := hc
  unfold Cur at hc
  cases hs : r.get k with
  | idle => rw [hs] at hc; exact hc.elim
  | peeking a b => rw [hs] at hc; exact hc.elim
  | padding name len => rw [hs] at hc; obtain ⟨_, _, c3, _⟩ := hc; omega
  | body name len rem =>
    rw [hs] at hc
    obtain ⟨_, _, c3, _⟩ := hc
    exact parseData_ret s kind r k pos L sc hk (limIs_of s r k pos L h1k hL) hLs name len rem hs (by omega) (by omega) c (by rw [hL]; exact hc') hparse

/-- the lossless validator is run on the rest of the chunk's payload, all of which is there -/
theorem sanitizeImageData_ret (r : RS) (k w h pos L : Nat) (h1k : 1 ≤ k) (hL : limOf r k pos = L) (hLs : L ≤ s.len)
    (c : Chunk) (hc : Cur L r k pos c) (hcL : c.off + c.len ≤ L)
    (hv : Vp8l.validate (ByteArray.mk (s.read pos (c.off + c.len - pos)).toArray) w h = .ok ()) :
    Ret s kind (sanitizeImageData r k w h) pos := by
  unfold sanitizeImageData
  unfold Cur at hc
  cases hs : r.get k with
  | idle => rw [hs] at hc; exact hc.elim
  | peeking a b => rw [hs] at hc; exact hc.elim
  | padding name len =>
    rw [hs] at hc
    obtain ⟨_, _, c3, _⟩ := hc
    dsimp only
    have h0 : c.off + c.len - pos = 0 := by omega
    rw [h0] at hv
    have he : (ByteArray.mk (s.read pos 0).toArray) = ByteArray.empty := by simp [Stream.read]; rfl
    rw [he] at hv
    rw [hv]
    exact Ret.bind s kind (Tot.done trivial) (tri_any s kind) (fun _ _ _ => Tot.done trivial)
  | body name len rem =>
    rw [hs] at hc
    obtain ⟨_, _, c3, _⟩ := hc
    dsimp only
    rw [bound_lim r k pos h1k, hL]
    dsimp only
    apply Tot.readUpTo
    have hm : min (min rem (L - pos)) (s.len - pos) = c.off + c.len - pos := by omega
    rw [hm, hv]
    exact Ret.bind s kind (Tot.done trivial) (tri_any s kind) (fun _ _ _ => Tot.done trivial)

/-! ### whole chunks -/

/-- what the recogniser's `StepOk` says of a chunk, as used here -/
structure Fits (L : Nat) (c : Chunk) : Prop where
  inL : c.off + c.len ≤ L
  pad : c.len % 2 = 1 → c.off + c.len + 1 ≤ L ∧ s.get (c.off + c.len) = 0

/-- a VP8L chunk the recogniser accepts is read through -/
theorem vp8lChunk_ret (L start : Nat) (r : RS) (k pos : Nat) (cs : List Chunk) (c : Chunk) (expect : Option (Nat × Nat))
    (hk : k ≤ 2) (h1k : 1 ≤ k) (hL : limOf r k pos = L) (hLs : L ≤ s.len) (hs : s.len < u64Lim)
    (ho : Open s L start r k pos cs c) (hpos : pos = c.off) (hfit : Fits s L c) (hok : vp8lOk s c expect = true) :
    Ret s kind (vp8lChunk r k expect) pos := by
  unfold vp8lOk at hok
  split at hok
  · cases hok
  rename_i h5
  dsimp only at hok
  cases hh : Vp8l.parseVp8lHeader (ByteArray.mk (s.read c.off 5).toArray) with
  | error e => rw [hh] at hok; cases hok
  | ok wh =>
    obtain ⟨w, h⟩ := wh
    rw [hh] at hok
    dsimp only at hok
    rw [Bool.and_eq_true] at hok
    obtain ⟨hdim, hval⟩ := hok
    have hv : Vp8l.validate (ByteArray.mk (s.read (c.off + 5) (c.len - 5)).toArray) w h = .ok () := by
      cases hq : Vp8l.validate (ByteArray.mk (s.read (c.off + 5) (c.len - 5)).toArray) w h with
      | ok u => rfl
      | error e => rw [hq] at hval; cases hval
    unfold vp8lChunk
    apply Ret.bind s kind (readData_ret_cur s kind r k 5 pos L h1k hL hLs c (ho.cur s) (by omega) (by omega) hfit.inL)
      (readData_rel s kind r k 5 pos hk c (by rw [hL]; exact ho.cur s))
    intro x p1 ⟨hk1, hx1, hp1, _, _, hcur1⟩
    rw [hL] at hcur1
    have hh' : Vp8l.parseVp8lHeader (ByteArray.mk x.1.toArray) = .ok (w, h) := by rw [hx1, hpos]; exact hh
    cases hp : Vp8l.parseVp8lHeader (ByteArray.mk x.1.toArray) with
    | error e => rw [hp] at hh'; cases hh'
    | ok wh' =>
    rw [hp] at hh'
    simp only [Except.ok.injEq] at hh'
    subst hh'
    have hL1 : limOf x.2 k p1 = L := by rw [hk1.lim h1k, hL]
    have hp1' : p1 = c.off + 5 := by omega
    have cont : Tot (idealOps s kind) (Prog.bind (sanitizeImageData x.2 k w h) fun r => skipData r k) p1 (fun _ _ => True) := by
      apply Ret.bind s kind
        (sanitizeImageData_ret s kind x.2 k w h p1 L h1k hL1 hLs c hcur1 hfit.inL (by
          rw [hp1']
          have : c.off + c.len - (c.off + 5) = c.len - 5 := by omega
          rw [this]; exact hv))
        (sanitizeImageData_rel s kind L x.2 k w h p1 hk h1k c hL1 hcur1)
      intro r2 p2 ⟨_, hL2, hcur2, _⟩
      exact skipData_ret_cur s kind r2 k p2 L h1k hk hL2 hLs hs c hcur2 hfit.inL hfit.pad
    revert hdim
    cases expect with
    | none =>
      intro _
      simp only [Bool.not_true, Bool.false_eq_true, if_false]
      exact cont
    | some p =>
      obtain ⟨ew, eh⟩ := p
      intro hdim
      have hd : w = ew ∧ h = eh := of_decide_eq_true hdim
      simp only [hd, and_self, decide_true, Bool.not_true, Bool.false_eq_true, if_false]
      have cont' := cont
      rw [hd.1, hd.2] at cont'
      exact cont'

/-- an ALPH chunk the recogniser accepts is read through -/
theorem alphChunk_ret (L start : Nat) (r : RS) (k pos : Nat) (cs : List Chunk) (c : Chunk) (w h : Nat)
    (hk : k ≤ 2) (h1k : 1 ≤ k) (hL : limOf r k pos = L) (hLs : L ≤ s.len) (hs : s.len < u64Lim)
    (ho : Open s L start r k pos cs c) (hpos : pos = c.off) (hfit : Fits s L c) (hok : alphOk s c w h = true) :
    Ret s kind (alphChunk r k w h) pos := by
  unfold alphOk at hok
  split at hok
  · cases hok
  rename_i h1
  dsimp only at hok
  split at hok
  · cases hok
  rename_i hmask
  have hmask' : (s.get c.off).toNat &&& 29 = (s.get c.off).toNat := by
    apply Classical.byContradiction; intro hne; exact hmask hne
  unfold alphChunk
  apply Ret.bind s kind
    (parseData_ret_cur s kind r k pos L Generated.schemaAlphChunk h1k hk hL hLs c (ho.cur s) (by rw [alph_len]; omega)
      (by rw [alph_len]; omega) hfit.inL (by rw [alph_len, read_one, hpos]; exact alph_parse_ok _ hmask'))
    (parseData_rel s kind r k pos Generated.schemaAlphChunk hk c (by rw [hL]; exact ho.cur s))
  intro x p1 ⟨hk1, hp1, hle, ⟨rest, hparse⟩, hcur1⟩
  obtain ⟨vs, r1⟩ := x
  rw [hL] at hcur1
  rw [alph_len] at hp1 hle hparse
  rw [read_one] at hparse
  obtain ⟨_, hvs⟩ := alph_parse_spec _ vs rest hparse
  have hL1 : limOf r1 k p1 = L := by rw [hk1.lim h1k, hL]
  dsimp only at hk1 hcur1 hL1 ⊢
  have hflag : vs.getD 0 0 = (s.get pos).toNat := by rw [hvs]; rfl
  rw [hflag]
  have mid : Tot (idealOps s kind)
      (if (s.get pos).toNat % 2 = 1 then sanitizeImageData r1 k w h else Prog.done r1) p1
      (fun r2 p2 => limOf r2 k p2 = L ∧ Cur L r2 k p2 c) := by
    split
    · rename_i hodd
      rw [hpos] at hodd
      rw [if_pos hodd] at hok
      have hv : Vp8l.validate (ByteArray.mk (s.read (c.off + 1) (c.len - 1)).toArray) w h = .ok () := by
        cases hq : Vp8l.validate (ByteArray.mk (s.read (c.off + 1) (c.len - 1)).toArray) w h with
        | ok u => rfl
        | error e => rw [hq] at hok; cases hok
      apply Tot.mono (Ret.with s kind
        (sanitizeImageData_ret s kind r1 k w h p1 L h1k hL1 hLs c hcur1 hfit.inL (by
          have : c.off + c.len - p1 = c.len - 1 := by omega
          rw [this, hp1, hpos]; exact hv))
        (sanitizeImageData_rel s kind L r1 k w h p1 hk h1k c hL1 hcur1))
      intro r2 p2 ⟨_, b, c', _⟩
      exact ⟨b, c'⟩
    · exact Tot.done ⟨hL1, hcur1⟩
  apply Tot.bind
  apply Tot.mono mid
  intro r2 p2 ⟨hL2, hcur2⟩
  exact skipData_ret_cur s kind r2 k p2 L h1k hk hL2 hLs hs c hcur2 hfit.inL hfit.pad

/-! ### walking a region whose tiling is known -/

theorem cchain_split (L a e b : Nat) (cs rest : List Chunk) (h1 : CChain s L a e cs) (h2 : CChain s L a b (cs ++ rest)) :
    CChain s L e b rest := by
  induction cs generalizing a with
  | nil => have : a = e := h1; subst this; exact h2
  | cons x xs ih => exact ih x.endOff h1.2 h2.2

/-- the tokenizer's answer is a tiling -/
theorem cchain_of_chunks (lim : Nat) (fuel off : Nat) (cs : List Chunk) (h : chunks s fuel off lim = some cs) :
    CChain s lim off lim cs := by
  induction fuel generalizing off cs with
  | zero => simp [chunks] at h
  | succ n ih =>
    unfold chunks at h
    split at h
    · rename_i he
      simp only [Option.some.injEq] at h
      subst h
      exact he
    · split at h
      · cases h
      · rename_i hne h8
        dsimp only at h
        split at h
        · cases h
        · rename_i h3
          split at h
          · cases h
          · rename_i h4
            cases hq : chunks s n (Chunk.endOff ⟨s.read off 4, off + 8, le32 s (off + 4)⟩) lim with
            | none => rw [hq] at h; cases h
            | some rest =>
              rw [hq] at h
              simp only [Option.some.injEq] at h
              subst h
              have h3' : ¬ (off + 8 + le32 s (off + 4) > lim) := h3
              have h4' : ¬ ((le32 s (off + 4)) % 2 = 1 ∧ (off + 8 + le32 s (off + 4) + 1 > lim ∨ s.get (off + 8 + le32 s (off + 4)) ≠ 0)) := h4
              refine ⟨⟨rfl, by omega, (by show off + 8 + le32 s (off + 4) ≤ lim; omega), ?_⟩, ih _ rest hq⟩
              intro hodd
              have hodd' : le32 s (off + 4) % 2 = 1 := hodd
              show off + 8 + le32 s (off + 4) + 1 ≤ lim ∧ s.get (off + 8 + le32 s (off + 4)) = 0
              constructor
              · apply Classical.byContradiction; intro hc; exact h4' ⟨hodd', Or.inl (by omega)⟩
              · apply Classical.byContradiction; intro hc; exact h4' ⟨hodd', Or.inr hc⟩

theorem stepOk_fits (L e : Nat) (c : Chunk) (h : StepOk s L e c) : Fits s L c := ⟨h.2.2.1, h.2.2.2⟩

/-- the pad byte a closed level may still have to read is there, when the whole region is tiled -/
theorem closed_pad (L start : Nat) (r : RS) (k pos : Nat) (cs rest : List Chunk) (hc : Closed s L start r k pos cs)
    (hall : CChain s L start L (cs ++ rest)) :
    ∀ n len, r.get k = .padding n len → len % 2 = 1 → pos + 1 ≤ L ∧ s.get pos = 0 := by
  intro n len hst hodd
  rcases hc with ⟨h, _⟩ | ⟨cs', c, e, e0, e1, e2, e3, e4, e5, e6⟩
  · rw [h] at hst; cases hst
  · rw [e5] at hst
    simp only [CState.padding.injEq] at hst
    rw [e0, List.append_assoc] at hall
    have hc' := cchain_split s L start e L cs' ([c] ++ rest) e1 hall
    obtain ⟨⟨_, _, _, hpad⟩, _⟩ := hc'
    rw [← hst.2] at hodd
    have := hpad hodd
    rw [e6]; exact ⟨by omega, this.2⟩

/-- where a closed level expects the next header, once the tiling of the whole region is known -/
theorem closed_next (L start : Nat) (r : RS) (k pos : Nat) (cs : List Chunk) (c : Chunk) (rest : List Chunk) (h1k : 1 ≤ k)
    (hc : Closed s L start r k pos cs) (hall : CChain s L start L (cs ++ c :: rest)) :
    StepOk s L (bdry (r.get k) pos) c ∧ CChain s L start (bdry (r.get k) pos) cs := by
  have hpad := closed_pad s L start r k pos cs (c :: rest) hc hall
  have hb : CChain s L start (bdry (r.get k) pos) cs := by
    apply hc.bdry s h1k
    cases hq : r.get k with
    | padding n len =>
      intro hodd
      have := hpad n len hq hodd
      exact ⟨fun _ => this.1, this.2⟩
    | idle => trivial
    | peeking a b => trivial
    | body a b c' => trivial
  exact ⟨(cchain_split s L start _ L cs (c :: rest) hb hall).1, hb⟩

/-- T1, total: the next header is read and it is the header of the next chunk of the tiling -/
theorem next_header_tot (L start : Nat) (r : RS) (k pos : Nat) (cs : List Chunk) (c : Chunk) (rest : List Chunk)
    (hk : k ≤ 2) (h1k : 1 ≤ k) (hL : limOf r k pos = L) (hLs : L ≤ s.len) (hc : Closed s L start r k pos cs)
    (hall : CChain s L start L (cs ++ c :: rest)) :
    Tot (idealOps s kind) (readAnyHeader r k) pos
      (fun x pos' => Keeps k r pos x.2 pos' ∧ limOf x.2 k pos' = L ∧ x.1 = c.name ∧ Open s L start x.2 k pos' cs c ∧
        pos' = c.off) := by
  obtain ⟨hstep, hb⟩ := closed_next s L start r k pos cs c rest h1k hc hall
  apply Tot.mono (Ret.with s kind
    (readAnyHeader_ret s kind r k pos L hk (limIs_of s r k pos L h1k hL) hLs hc.state (closed_pad s L start r k pos cs (c :: rest) hc hall) hstep.2.1)
    (next_header s kind L start r k pos cs hk h1k hL hc))
  intro x p1 ⟨hkeep, hL1, c', hname, hopen, hp1, _⟩
  have hcc : c' = c := by
    obtain ⟨e, e1, e2, _, _⟩ := hopen
    have := (cchain_split s L start e L cs (c :: rest) e1 hall).1.1
    rw [e2, this]
  subst hcc
  exact ⟨hkeep, hL1, hname, hopen, hp1⟩

/-- T2, total: the rest of the open chunk is skipped -/
theorem close_chunk_tot (L start : Nat) (r : RS) (k pos : Nat) (cs : List Chunk) (c : Chunk) (hk : k ≤ 2) (h1k : 1 ≤ k)
    (hL : limOf r k pos = L) (hLs : L ≤ s.len) (hs : s.len < u64Lim) (ho : Open s L start r k pos cs c) (hfit : Fits s L c) :
    Tot (idealOps s kind) (skipData r k) pos
      (fun r' pos' => Keeps k r pos r' pos' ∧ limOf r' k pos' = L ∧ Closed s L start r' k pos' (cs ++ [c])) :=
  Ret.with s kind (skipData_ret_cur s kind r k pos L h1k hk hL hLs hs c (ho.cur s) hfit.inL hfit.pad)
    (close_chunk s kind L start r k pos cs c hk h1k hL ho)

/-- T3, total: `has_remaining` says whether the tiling goes on -/
theorem more_chunks_tot (L start : Nat) (r : RS) (k pos : Nat) (cs rest : List Chunk) (hk : k ≤ 2) (h1k : 1 ≤ k)
    (hL : limOf r k pos = L) (hLs : L ≤ s.len) (hc : Closed s L start r k pos cs) (hall : CChain s L start L (cs ++ rest)) :
    Tot (idealOps s kind) (hasRemaining r k) pos
      (fun x pos' => Keeps k r pos x.2 pos' ∧ limOf x.2 k pos' = L ∧ x.2.get k = .idle ∧ CChain s L start pos' cs ∧
        (x.1 = true ↔ rest ≠ [])) := by
  apply Tot.mono (Ret.with s kind
    (hasRemaining_ret s kind r k pos L hk (limIs_of s r k pos L h1k hL) hLs (closed_pad s L start r k pos cs rest hc hall))
    (tri_and s kind (more_chunks s kind L start r k pos cs hk h1k hL hc) (hasRemaining_rel s kind r k pos hk)))
  intro x p1 ⟨⟨hkeep, hL1, hidle, hch, _⟩, ⟨_, _, _, hrest⟩⟩
  refine ⟨hkeep, hL1, hidle, hch, ?_⟩
  have hsplit := cchain_split s L start p1 L cs rest hch hall
  have hiff : x.1 = false ↔ ((1 ≤ k ∧ limOf r k pos ≤ p1) ∨ s.len ≤ p1) := by
    rcases hc.state with h | ⟨n, l, h⟩
    · rw [h] at hrest; exact hrest.2
    · rw [h] at hrest; exact hrest.2
  rw [hL] at hiff
  cases rest with
  | nil =>
    have : p1 = L := hsplit
    constructor
    · intro ht
      have := hiff.mpr (Or.inl ⟨h1k, by omega⟩)
      rw [this] at ht; cases ht
    · intro h; exact absurd rfl h
  | cons u us =>
    have h8 : p1 + 8 ≤ L := hsplit.1.2.1
    constructor
    · intro _ h; cases h
    · intro _
      cases hx : x.1 with
      | true => rfl
      | false =>
        exfalso
        rcases hiff.mp hx with ⟨_, a⟩ | a <;> omega

theorem not_known_of_unknown (c : Chunk) (h : isUnknown c = true) : ¬ (knownTrailing c.name = true ∨ c.name = FANMF) := by
  unfold isUnknown known at h
  intro hk
  have hname : c.name = FALPH ∨ c.name = FANIM ∨ c.name = FEXIF ∨ c.name = FICCP ∨ c.name = FVP8 ∨ c.name = FVP8L ∨
      c.name = FVP8X ∨ c.name = FXMP ∨ c.name = FANMF := by
    rcases hk with hk | hk
    · unfold knownTrailing at hk
      simp only [decide_eq_true_eq] at hk
      rcases hk with e | e | e | e | e | e | e | e
      · exact Or.inl e
      · exact Or.inr (Or.inl e)
      · exact Or.inr (Or.inr (Or.inl e))
      · exact Or.inr (Or.inr (Or.inr (Or.inl e)))
      · exact Or.inr (Or.inr (Or.inr (Or.inr (Or.inl e))))
      · exact Or.inr (Or.inr (Or.inr (Or.inr (Or.inr (Or.inl e)))))
      · exact Or.inr (Or.inr (Or.inr (Or.inr (Or.inr (Or.inr (Or.inl e))))))
      · exact Or.inr (Or.inr (Or.inr (Or.inr (Or.inr (Or.inr (Or.inr (Or.inl e)))))))
    · exact Or.inr (Or.inr (Or.inr (Or.inr (Or.inr (Or.inr (Or.inr (Or.inr hk)))))))
  rcases hname with e | e | e | e | e | e | e | e | e <;> rw [e] at h <;> exact absurd h (by decide)

/-- the loop over trailing unknown chunks walks the rest of the region -/
theorem trailing_tot (cfg : Config) (L start : Nat) (k : Nat) (inAnmf : Bool) (hk : k ≤ 2) (h1k : 1 ≤ k)
    (hLs : L ≤ s.len) (hs : s.len < u64Lim)
    (us : List Chunk) (fuel : Nat) (hfuel : us.length < fuel) (r : RS) (pos : Nat) (cs : List Chunk)
    (hL : limOf r k pos = L) (hc : Closed s L start r k pos cs) (hall : CChain s L start L (cs ++ us))
    (hunk : us.all isUnknown = true) (hallow : us = [] ∨ cfg.allowUnknownChunks = true) :
    Tot (idealOps s kind) (trailingLoop cfg k inAnmf fuel r) pos
      (fun o pos' => ∃ r', o = some r' ∧ limOf r' k pos' = L ∧ r'.get k = .idle ∧ pos' = L ∧ Keeps k r pos r' pos') := by
  induction us generalizing fuel r pos cs with
  | nil =>
    cases fuel with
    | zero => cases hfuel
    | succ n =>
      unfold trailingLoop
      apply Tot.bind
      apply Tot.mono (more_chunks_tot s kind L start r k pos cs [] hk h1k hL hLs hc hall)
      intro x p1 ⟨hk1, hL1, hidle, hch, hmore⟩
      obtain ⟨more, r1⟩ := x
      have hm : more = false := by
        cases more with
        | false => rfl
        | true => exact absurd rfl (hmore.mp rfl)
      subst hm
      dsimp only
      rw [List.append_nil] at hall
      have : p1 = L := cchain_split s L start p1 L cs [] hch (by rw [List.append_nil]; exact hall)
      exact Tot.done ⟨r1, rfl, hL1, hidle, this, hk1⟩
  | cons u us ih =>
    cases fuel with
    | zero => cases hfuel
    | succ n =>
      unfold trailingLoop
      apply Tot.bind
      apply Tot.mono (more_chunks_tot s kind L start r k pos cs (u :: us) hk h1k hL hLs hc hall)
      intro x p1 ⟨hk1, hL1, hidle, hch, hmore⟩
      obtain ⟨more, r1⟩ := x
      have hm : more = true := hmore.mpr (by intro h; cases h)
      subst hm
      dsimp only at hk1 hL1 hidle ⊢
      apply Tot.bind
      apply Tot.mono (next_header_tot s kind L start r1 k p1 cs u us hk h1k hL1 hLs (Or.inl ⟨hidle, hch⟩) hall)
      intro y p2 ⟨hk2, hL2, hname, hopen, hp2⟩
      obtain ⟨name, r2⟩ := y
      dsimp only at hk2 hL2 hname hopen ⊢
      rw [List.all_cons, Bool.and_eq_true] at hunk
      have hnk := not_known_of_unknown u hunk.1
      rw [← hname] at hnk
      have hal : cfg.allowUnknownChunks = true := by
        rcases hallow with h | h
        · cases h
        · exact h
      rw [if_neg (by simpa using hnk), if_neg (by simp [hal])]
      have hstep : StepOk s L p1 u := by
        have := cchain_split s L start p1 L cs (u :: us) hch hall
        exact this.1
      apply Tot.bind
      apply Tot.mono (close_chunk_tot s kind L start r2 k p2 cs u hk h1k hL2 hLs hs hopen (stepOk_fits s L p1 u hstep))
      intro r3 p3 ⟨hk3, hL3, hcl⟩
      apply Tot.mono (ih n (by simpa using hfuel) r3 p3 (cs ++ [u]) hL3 hcl (by rw [List.append_assoc]; exact hall) hunk.2
        (Or.inr hal))
      intro o p4 ⟨r', e1, e2, e3, e4, e5⟩
      exact ⟨r', e1, e2, e3, e4, ((hk1.trans hk2).trans hk3).trans e5⟩

end
end MediaSan.Webp
