/-
  C10: a logic for "which byte ranges does a run obtain".  `Rd s kind p pos R` - every range (offset, length) the run of
  `p` on `s` from `pos` reads satisfies `R`.  Rules per operation, sequencing with what is known after the first part
  (a partial-correctness triple `Tri`), programs without reads, and the forward-only cursor (every read is at or after
  the position the run starts from).
-/
import MediaSan.Lemmas.NonInterf
import MediaSan.Lemmas.Tri
import MediaSan.Meter
namespace MediaSan
open MediaSan

section
variable (s : Stream) (kind : SkipKind)

structure Rd {E α} (p : Prog E α) (pos : Nat) (R : Nat → Nat → Prop) : Prop where
  out : ∀ a n, (a, n) ∈ p.readSet s kind pos → R a n

variable {s kind}
variable {E α β : Type}

theorem Rd.done {a : α} {pos : Nat} {R : Nat → Nat → Prop} : Rd s kind (.done a : Prog E α) pos R := by
  constructor; intro a n h; simp [Prog.readSet] at h

theorem Rd.fail {e : E} {pos : Nat} {R : Nat → Nat → Prop} : Rd s kind (.fail e : Prog E α) pos R := by
  constructor; intro a n h; simp [Prog.readSet] at h

theorem Rd.panic {m : String} {pos : Nat} {R : Nat → Nat → Prop} : Rd s kind (.panic m : Prog E α) pos R := by
  constructor; intro a n h; simp [Prog.readSet] at h

theorem Rd.mono {p : Prog E α} {pos : Nat} {R R' : Nat → Nat → Prop} (h : Rd s kind p pos R)
    (hi : ∀ a n, R a n → R' a n) : Rd s kind p pos R' := ⟨fun a n hm => hi a n (h.out a n hm)⟩

theorem Rd.and {p : Prog E α} {pos : Nat} {R R' : Nat → Nat → Prop} (h : Rd s kind p pos R) (h' : Rd s kind p pos R') :
    Rd s kind p pos (fun a n => R a n ∧ R' a n) := ⟨fun a n hm => ⟨h.out a n hm, h'.out a n hm⟩⟩

theorem Rd.isEof {k : Bool → Prog E α} {pos : Nat} {R : Nat → Nat → Prop}
    (h : Rd s kind (k (decide (s.len ≤ pos))) pos R) : Rd s kind (.isEof k) pos R := by
  constructor; intro a n hm; exact h.out a n (by simpa only [Prog.readSet] using hm)

theorem Rd.position {k : Nat → Prog E α} {pos : Nat} {R : Nat → Nat → Prop}
    (h : Rd s kind (k pos) pos R) : Rd s kind (.position k) pos R := by
  constructor; intro a n hm; exact h.out a n (by simpa only [Prog.readSet] using hm)

theorem Rd.streamLen {k : Nat → Prog E α} {pos : Nat} {R : Nat → Nat → Prop}
    (h : Rd s kind (k s.len) pos R) : Rd s kind (.streamLen k) pos R := by
  constructor; intro a n hm; exact h.out a n (by simpa only [Prog.readSet] using hm)

theorem Rd.readExact {m : Nat} {eof : Option E} {k : Bytes → Prog E α} {pos : Nat} {R : Nat → Nat → Prop}
    (h : ∀ b pos', (idealOps s kind).readExact pos m = .ok (b, pos') → R pos m ∧ Rd s kind (k b) pos' R) :
    Rd s kind (.readExact m eof k) pos R := by
  constructor
  intro a n hm
  simp only [Prog.readSet] at hm
  cases hr : (idealOps s kind).readExact pos m with
  | error e => rw [hr] at hm; simp at hm
  | ok x =>
    obtain ⟨b, pos'⟩ := x
    rw [hr] at hm
    obtain ⟨h1, h2⟩ := h b pos' hr
    simp only [List.mem_cons, Prod.mk.injEq] at hm
    rcases hm with ⟨rfl, rfl⟩ | hm
    · exact h1
    · exact h2.out a n hm

theorem Rd.skip {m : Nat} {eof : Option E} {k : Unit → Prog E α} {pos : Nat} {R : Nat → Nat → Prop}
    (h : ∀ pos', (idealOps s kind).skip pos m = .ok pos' → Rd s kind (k ()) pos' R) :
    Rd s kind (.skip m eof k) pos R := by
  constructor
  intro a n hm
  simp only [Prog.readSet] at hm
  cases hr : (idealOps s kind).skip pos m with
  | error e => rw [hr] at hm; simp at hm
  | ok pos' => rw [hr] at hm; exact (h pos' hr).out a n hm

/-- the ranges read by a sequence: those of the first part, then (if it returns) those of the second -/
theorem readSet_bind (p : Prog E α) (f : α → Prog E β) (pos : Nat) :
    (p.bind f).readSet s kind pos = p.readSet s kind pos ++
      (match p.runF (idealOps s kind) pos with
        | .ok (a, pos') => (f a).readSet s kind pos'
        | _ => []) := by
  induction p generalizing pos with
  | done a => simp [Prog.bind, Prog.readSet, Prog.runF]
  | fail e => simp [Prog.bind, Prog.readSet, Prog.runF]
  | panic m => simp [Prog.bind, Prog.readSet, Prog.runF]
  | isEof k ih => simp only [Prog.bind, Prog.readSet, Prog.runF, idealOps]; exact ih _ pos
  | position k ih => simp only [Prog.bind, Prog.readSet, Prog.runF, idealOps]; exact ih _ pos
  | streamLen k ih => simp only [Prog.bind, Prog.readSet, Prog.runF, idealOps]; exact ih _ pos
  | readExact m eof k ih =>
    simp only [Prog.bind, Prog.readSet, Prog.runF]
    cases hr : (idealOps s kind).readExact pos m with
    | error e =>
      simp only [List.nil_append]
      unfold mapEof
      cases e <;> cases eof <;> rfl
    | ok x =>
      obtain ⟨b, pos'⟩ := x
      simp only [List.cons_append]
      rw [ih b pos']
  | skip m eof k ih =>
    simp only [Prog.bind, Prog.readSet, Prog.runF]
    cases hr : (idealOps s kind).skip pos m with
    | error e =>
      simp only [List.nil_append]
      unfold mapEof
      cases e <;> cases eof <;> rfl
    | ok pos' => exact ih () pos'
  | readUpTo m k ih =>
    simp only [Prog.bind, Prog.readSet, Prog.runF, idealOps, List.cons_append]
    rw [ih _ _]
    rfl

/-- sequencing, with what a triple says about the state in between -/
theorem Rd.bind {p : Prog E α} {f : α → Prog E β} {pos : Nat} {R : Nat → Nat → Prop} {Q : α → Nat → Prop}
    (hp : Rd s kind p pos R) (ht : Tri (idealOps s kind) p pos Q)
    (hf : ∀ a pos', Q a pos' → Rd s kind (f a) pos' R) : Rd s kind (p.bind f) pos R := by
  constructor
  intro a n hm
  rw [readSet_bind] at hm
  rcases List.mem_append.mp hm with h | h
  · exact hp.out a n h
  · unfold Tri at ht
    cases hr : p.runF (idealOps s kind) pos with
    | ok x =>
      obtain ⟨v, pos'⟩ := x
      rw [hr] at ht h
      exact (hf v pos' ht).out a n h
    | parseErr e => rw [hr] at h; simp at h
    | ioErr e => rw [hr] at h; simp at h
    | panic m => rw [hr] at h; simp at h
    | outOfFuel => rw [hr] at h; simp at h

/-- a program that contains no read operation reads nothing -/
theorem Rd.of_readFree {p : Prog E α} (hp : ReadFree p) (pos : Nat) (R : Nat → Nat → Prop) : Rd s kind p pos R := by
  induction hp generalizing pos with
  | done a => exact Rd.done
  | fail e => exact Rd.fail
  | panic m => exact Rd.panic
  | position _ ih => exact Rd.position (ih _ pos)
  | streamLen _ ih => exact Rd.streamLen (ih _ pos)
  | skip m eof _ ih => exact Rd.skip (fun pos' _ => ih () pos')

/-- the ideal cursor only moves forward: every range read lies at or after the starting position -/
theorem Rd.forward (p : Prog E α) (pos : Nat) : Rd s kind p pos (fun a _ => pos ≤ a) := by
  induction p generalizing pos with
  | done a => exact Rd.done
  | fail e => exact Rd.fail
  | panic m => exact Rd.panic
  | isEof k ih => exact Rd.isEof (ih _ pos)
  | position k ih => exact Rd.position (ih _ pos)
  | streamLen k ih => exact Rd.streamLen (ih _ pos)
  | readExact m eof k ih =>
    apply Rd.readExact
    intro b pos' hr
    refine ⟨Nat.le_refl _, ?_⟩
    have hle : pos ≤ pos' := by
      simp only [idealOps] at hr
      split at hr
      · simp only [Except.ok.injEq, Prod.mk.injEq] at hr; omega
      · split at hr
        · simp only [Except.ok.injEq, Prod.mk.injEq] at hr; omega
        · cases hr
    exact Rd.mono (ih b pos') (fun a n h => Nat.le_trans hle h)
  | skip m eof k ih =>
    apply Rd.skip
    intro pos' hr
    have hle : pos ≤ pos' := by
      simp only [idealOps] at hr
      cases kind with
      | strict =>
        dsimp only at hr
        split at hr
        · simp only [Except.ok.injEq] at hr; omega
        · cases hr
      | seekable =>
        dsimp only at hr
        split at hr
        · simp only [Except.ok.injEq] at hr; omega
        · split at hr
          · simp only [Except.ok.injEq] at hr; omega
          · split at hr <;> cases hr
    exact Rd.mono (ih () pos') (fun a n h => Nat.le_trans hle h)
  | readUpTo m k ih =>
    constructor
    intro a n hm
    simp only [Prog.readSet, List.mem_cons, Prod.mk.injEq] at hm
    rcases hm with ⟨rfl, _⟩ | hm
    · exact Nat.le_refl _
    · exact Nat.le_trans (Nat.le_add_right _ _) ((ih _ _).out a n hm)

end
end MediaSan
