/-
  C05, soundness of the top-level rules: what a successful run of the MP4 scan loop has seen satisfies the
  documented structural rules of the independent specification (Spec/Mp4Rules.lean), as far as the top level goes.
-/
import MediaSan.Lemmas.MediaRun
import MediaSan.Lemmas.TreeRel
namespace MediaSan.Mp4
open MediaSan MediaSan.Spec.Mp4Walk MediaSan.Spec.Mp4Rules

/-- the model's `chunks_exact(4)` over a slice of the stream is the specification's list of brands -/
theorem brandList_read (s : Stream) (fuel p m : Nat) (hf : m / 4 ≤ fuel) :
    brandList fuel (s.read p m) = (List.range (m / 4)).map fun i => s.read (p + 4 * i) 4 := by
  induction fuel generalizing p m with
  | zero =>
    have : m / 4 = 0 := by omega
    simp [brandList, this]
  | succ f ih =>
    simp only [brandList, read_length]
    by_cases hm : m < 4
    · have : m / 4 = 0 := by omega
      simp [hm, this]
    · simp only [hm, if_false]
      rw [read_take s p m 4 (by omega), read_drop, ih (p + 4) (m - 4) (by omega)]
      have e : m / 4 = (m - 4) / 4 + 1 := by omega
      rw [e, List.range_succ_eq_map, List.map_cons, List.map_map]
      congr 1
      apply List.map_congr_left
      intro i _
      simp only [Function.comp]
      congr 1
      omega

/-! ### the top-level state machine, in the walker's words -/

structure TopSt where
  ftyp : Bool
  moov : Option Nat
  deriving DecidableEq, Repr

def topOf (st : ScanState) : TopSt := ⟨st.ftyp.isSome, st.moovOffset⟩

def topStep (t : TopSt) (b : TopBox) : Option TopSt :=
  if b.name = freeN ∨ b.name = skipN then some t
  else if b.name = ftypN then (if t.ftyp then none else some ⟨true, t.moov⟩)
  else if !t.ftyp then none
  else if b.name = mdatN ∨ b.name = metaN ∨ b.name = mecoN then some t
  else if b.name = moovN then some ⟨true, some b.offset⟩
  else none

section
variable (s : Stream) (kind : SkipKind)

/-- what the loop has checked about the payload of a box it keeps -/
def BoxSide (cfg : Config) (b : TopBox) : Prop :=
  (b.name = ftypN → ftypOk s b = true) ∧
  (b.name = moovN → moovOk s ⟨cfg.maxMetadataSize, cfg.cumulativeMdatBoxSize⟩ b = true)

def TopPost (cfg : Config) (startPos : Nat) (st : ScanState) (st' : ScanState) (_pos' : Nat) : Prop :=
  ∃ b, headerAt s startPos s.len cfg.cumulativeMdatBoxSize = .ok b ∧ topStep (topOf st) b = some (topOf st') ∧
    BoxSide s cfg b

theorem readData_rel' (h : BoxHeader) (L pos : Nat) :
    Tri (idealOps s kind) (readData h L) pos
      (fun payload pos' => ∃ n, pos' = pos + n ∧ SizeIs' s h pos n ∧ n ≤ L ∧ payload = s.read pos n) := by
  unfold readData
  apply Tri.bind
  apply Tri.mono (boxDataSize_rel s kind h pos)
  intro n p' ⟨hp', hs⟩
  subst hp'
  split
  · rename_i hle
    apply Tri.readExact
    · intro h0; subst h0; exact Tri.done ⟨0, rfl, hs, hle, by simp [Stream.read]⟩
    · intro _ _; exact Tri.done ⟨n, rfl, hs, hle, rfl⟩
  · exact Tri.fail

theorem cc_isom : cc 'i' 's' 'o' 'm' = isomBrand := by decide
theorem cc_ftyp : cc 'f' 't' 'y' 'p' = ftypN := by decide
theorem cc_moov : cc 'm' 'o' 'o' 'v' = moovN := by decide

/-- the model's ftyp test is the specification's -/
theorem ftypOk_of_model (b : TopBox) (f : Ftyp) (hn : b.payloadLen ≤ maxFtypSize)
    (hp : parseFtyp (s.read b.payloadOff b.payloadLen) = .ok f) (hi : f.hasIsom = true) : ftypOk s b = true := by
  unfold parseFtyp at hp
  simp only [read_length] at hp
  split at hp; · cases hp
  split at hp; · cases hp
  simp only [PureRes.ok.injEq] at hp
  subst hp
  unfold Ftyp.hasIsom at hi
  simp only [read_drop, read_length] at hi
  rw [brandList_read s _ _ _ (by omega)] at hi
  unfold ftypOk brands
  simp only [decide_eq_true_eq]
  unfold maxFtypSize at hn
  refine ⟨by omega, hn, ?_⟩
  rw [cc_isom]
  rw [List.any_eq_true] at hi ⊢
  obtain ⟨x, hx, he⟩ := hi
  refine ⟨x, ?_, by simpa using he⟩
  rw [List.mem_map] at hx ⊢
  obtain ⟨i, hi1, hi2⟩ := hx
  exact ⟨i, hi1, by rw [← hi2]⟩

theorem box_of_size' (startPos pos n : Nat) (ovr : Option Nat) (h : BoxHeader) (hpos : pos = startPos + h.encodedLen)
    (hs : SizeIs' s h pos n) (hno : h.dataSize = .ok none → ovr = none ∨ name4 h ≠ mdatN) :
    ∃ b, specHdr startPos s.len ovr h = .ok b ∧ b.offset = startPos ∧ b.endOff = pos + n ∧ b.name = name4 h ∧
      b.hdrLen = h.encodedLen := by
  rcases hs with hd | ⟨hd, hp, hn⟩
  · exact ⟨_, spec_sized startPos s.len ovr h n hd, rfl, by dsimp only; omega, rfl, rfl⟩
  · exact ⟨_, spec_untilEof startPos s.len ovr h hd (hno hd), rfl, by dsimp only; omega, rfl, rfl⟩

theorem topStep_lead (t : TopSt) (b : TopBox) (h : b.name = freeN ∨ b.name = skipN) : topStep t b = some t := by
  unfold topStep; simp only [h, if_true]

theorem topStep_media (t : TopSt) (b : TopBox) (ht : t.ftyp = true)
    (h : b.name = mdatN ∨ b.name = metaN ∨ b.name = mecoN) : topStep t b = some t := by
  have h1 : ¬ (b.name = freeN ∨ b.name = skipN) := by
    rcases h with h | h | h <;> rw [h] <;> decide
  have h2 : ¬ b.name = ftypN := by
    rcases h with h | h | h <;> rw [h] <;> decide
  unfold topStep
  simp only [h1, h2, if_false, ht, Bool.not_true, Bool.false_eq_true, h, if_true]

theorem scanBody_top (cfg : Config) (st : ScanState) (startPos : Nat) (header : BoxHeader) (pos : Nat)
    (hpos : pos = startPos + header.encodedLen) (hle : pos ≤ s.len) (hh : HdrAt s startPos header) :
    Tri (idealOps s kind) (scanBody cfg st startPos header) pos (TopPost s cfg startPos st) := by
  have h8 := encodedLen_ge8 header
  have hspec := headerAt_of s startPos s.len cfg.cumulativeMdatBoxSize header hh (by omega)
  have hu := hh.2.1
  have tyN : ∀ n : Bytes, n ≠ uuidName → (header.ty = .fourcc n ↔ name4 header = n) :=
    fun n hn => ty_eq_iff header n hn hu
  -- the skip-and-extend arms only touch `data`
  have skipArm : ∀ (nm : name4 header = freeN ∨ name4 header = skipN ∨ name4 header = metaN ∨ name4 header = mecoN)
      (hstep : ∀ b : TopBox, b.name = name4 header → topStep (topOf st) b = some (topOf st)),
      Tri (idealOps s kind)
        (do let n ← skipBox header
            let boxSize ← addU64 "skip_box + encoded_len" n header.encodedLen
            let d ← extendData st.data startPos boxSize
            pure { st with data := d } : P ScanState) pos (TopPost s cfg startPos st) := by
    intro nm hstep
    have hm : name4 header ≠ mdatN := by
      rcases nm with h | h | h | h <;> rw [h] <;> decide
    apply Tri.bind
    apply Tri.mono (skipBox_rel s kind header pos)
    intro n p1 ⟨h1, h3⟩
    apply Tri.bind
    unfold addU64
    split
    · apply Tri.done
      apply Tri.bind
      apply Tri.mono (extendData_rel s kind st.data startPos (n + header.encodedLen) p1)
      intro d' p2 _
      obtain ⟨b, hb, hbo, hbe, hbn⟩ := box_of_size s startPos pos n cfg.cumulativeMdatBoxSize header hpos h3 (fun _ => Or.inr hm)
      refine Tri.done ⟨b, by rw [hspec]; exact hb, hstep b hbn, ?_, ?_⟩
      · intro hf; rw [hbn] at hf; rcases nm with h | h | h | h <;> rw [h] at hf <;> exact absurd hf (by decide)
      · intro hf; rw [hbn] at hf; rcases nm with h | h | h | h <;> rw [h] at hf <;> exact absurd hf (by decide)
    · exact Tri.panic
  unfold scanBody
  dsimp only
  split
  · rename_i hc
    have nm : name4 header = freeN ∨ name4 header = skipN := by
      rcases hc with h | h
      · exact Or.inl ((tyN freeN (by decide)).mp h)
      · exact Or.inr ((tyN skipN (by decide)).mp h)
    apply skipArm (by rcases nm with h | h; exact Or.inl h; exact Or.inr (Or.inl h))
    intro b hbn
    exact topStep_lead _ b (by rw [hbn]; exact nm)
  rename_i hnfs
  split
  · -- ftyp
    rename_i hft
    have hname : name4 header = ftypN := (tyN ftypN (by decide)).mp hft
    split
    · exact Tri.fail
    · rename_i hnone
      apply Tri.bind
      apply Tri.mono (readData_rel' s kind header maxFtypSize pos)
      intro payload p1 ⟨n, hp1, hs, hnL, hpl⟩
      apply Tri.bind
      cases hpf : parseFtyp payload with
      | panic site => exact Tri.panic
      | err e => exact Tri.fail
      | ok f =>
        apply Tri.done
        split
        · rename_i hiso
          obtain ⟨b, hb, hbo, hbe, hbn, hbh⟩ := box_of_size' s startPos pos n cfg.cumulativeMdatBoxSize header hpos hs
            (fun _ => Or.inr (by rw [hname]; decide))
          have hpo : b.payloadOff = pos := by unfold TopBox.payloadOff; omega
          have hpn : b.payloadLen = n := by unfold TopBox.payloadLen; omega
          refine Tri.done ⟨b, by rw [hspec]; exact hb, ?_, ?_, ?_⟩
          · unfold topStep topOf
            have e1 : ¬ (b.name = freeN ∨ b.name = skipN) := by rw [hbn, hname]; decide
            have e2 : b.name = ftypN := by rw [hbn, hname]
            have e3 : st.ftyp.isSome = false := by simpa using hnone
            rw [if_neg e1, if_pos e2]
            simp [e3]
          · intro _
            exact ftypOk_of_model s b f (by rw [hpn]; exact hnL) (by rw [hpo, hpn, ← hpl]; exact hpf) hiso
          · intro hf; rw [hbn, hname] at hf; exact absurd hf (by decide)
        · exact Tri.fail
  rename_i hnft
  split
  · exact Tri.fail
  rename_i hsome
  have hft : (topOf st).ftyp = true := by
    unfold topOf
    cases h : st.ftyp with
    | none => rw [h] at hsome; simp at hsome
    | some x => rfl
  split
  · -- mdat
    rename_i hmd
    apply Tri.bind
    apply Tri.mono (skipBox_rel s kind (applyCum cfg header) pos)
    intro n p1 ⟨h1, h3⟩
    obtain ⟨hel, b, hb, hbo, hbe, hbn⟩ := mdat_box s cfg startPos pos n header hmd hpos h3
    have hside : BoxSide s cfg b := by
      constructor
      · intro hf; rw [hbn] at hf; exact absurd hf (by decide)
      · intro hf; rw [hbn] at hf; exact absurd hf (by decide)
    have hstep : topStep (topOf st) b = some (topOf st) := topStep_media _ b hft (Or.inl hbn)
    apply Tri.bind
    unfold addU64
    split
    · apply Tri.done
      cases hdd : st.data with
      | none =>
        dsimp only
        exact Tri.done ⟨b, by rw [hspec]; exact hb, hstep, hside⟩
      | some d =>
        dsimp only
        apply Tri.bind
        split
        · apply Tri.done
          split
          · apply Tri.bind
            split
            · apply Tri.done
              exact Tri.done ⟨b, by rw [hspec]; exact hb, hstep, hside⟩
            · exact Tri.panic
          · exact Tri.fail
        · exact Tri.panic
    · exact Tri.panic
  rename_i hnmd
  split
  · -- moov
    rename_i hmv
    have hname : name4 header = moovN := (tyN moovN (by decide)).mp hmv
    apply Tri.bind
    apply Tri.mono (readData_rel' s kind header cfg.maxMetadataSize pos)
    intro payload p1 ⟨n, hp1, hs, hnL, hpl⟩
    apply Tri.bind
    cases hvm : validateMoov (.bytes payload) with
    | panic site => exact Tri.panic
    | err e => exact Tri.fail
    | ok r =>
      apply Tri.done
      obtain ⟨b, hb, hbo, hbe, hbn, hbh⟩ := box_of_size' s startPos pos n cfg.cumulativeMdatBoxSize header hpos hs
        (fun _ => Or.inr (by rw [hname]; decide))
      have hpo : b.payloadOff = pos := by unfold TopBox.payloadOff; omega
      have hpn : b.payloadLen = n := by unfold TopBox.payloadLen TopBox.payloadOff; omega
      refine Tri.done ⟨b, by rw [hspec]; exact hb, ?_, ?_, ?_⟩
      · unfold topStep
        have e1 : ¬ (b.name = freeN ∨ b.name = skipN) := by rw [hbn, hname]; decide
        have e2 : ¬ b.name = ftypN := by rw [hbn, hname]; decide
        have e3 : ¬ (b.name = mdatN ∨ b.name = metaN ∨ b.name = mecoN) := by rw [hbn, hname]; decide
        have e4 : b.name = moovN := by rw [hbn, hname]
        rw [if_neg e1, if_neg e2]
        have e5 : ¬ ((!(topOf st).ftyp) = true) := by rw [hft]; decide
        rw [if_neg e5, if_neg e3, if_pos e4]
        unfold topOf
        have : st.ftyp.isSome = true := hft
        simp [hbo, this]
      · intro hf; rw [hbn, hname] at hf; exact absurd hf (by decide)
      · intro _
        obtain ⟨rs, hrs, hall⟩ := validateMoov_tables s b (by omega) r.1 r.2 (by rw [hpo, hpn, ← hpl]; exact hvm)
        unfold moovOk
        simp only [hrs, Bool.and_eq_true, decide_eq_true_eq]
        refine ⟨by rw [hpn]; exact hnL, ?_⟩
        rw [List.all_eq_true]
        intro x hx
        simp only [decide_eq_true_eq]
        exact hall x hx
  split
  · rename_i hc
    have nm : name4 header = metaN ∨ name4 header = mecoN := by
      rcases hc with h | h
      · exact Or.inl ((tyN metaN (by decide)).mp h)
      · exact Or.inr ((tyN mecoN (by decide)).mp h)
    apply skipArm (by rcases nm with h | h; exact Or.inr (Or.inr (Or.inl h)); exact Or.inr (Or.inr (Or.inr h)))
    intro b hbn
    exact topStep_media _ b hft (by rw [hbn]; rcases nm with h | h; exact Or.inr (Or.inl h); exact Or.inr (Or.inr h))
  · apply Tri.bind
    apply Tri.mono (skipBox_rel s kind header pos)
    intro n p1 _
    apply Tri.bind
    unfold addU64
    split
    · apply Tri.done; exact Tri.fail
    · exact Tri.panic

theorem scanBox_top (cfg : Config) (st : ScanState) (pos : Nat) :
    Tri (idealOps s kind) (scanBox cfg st) pos (TopPost s cfg pos st) := by
  unfold scanBox
  apply Tri.position
  apply Tri.bind
  apply Tri.mono (readHeader_rel s kind pos)
  intro header p1 ⟨h1, h2, h3⟩
  exact scanBody_top s kind cfg st pos header p1 h1 h2 h3

end

theorem Tri.and {E α σ : Type} {ops : CursorOps σ} {p : Prog E α} {st : σ} {Q1 Q2 : α → σ → Prop}
    (h1 : Tri ops p st Q1) (h2 : Tri ops p st Q2) : Tri ops p st (fun a s => Q1 a s ∧ Q2 a s) := by
  unfold Tri at *
  cases hr : p.runF ops st with
  | ok x => obtain ⟨a, s'⟩ := x; rw [hr] at h1 h2; exact ⟨h1, h2⟩
  | _ => trivial

def foldTop : TopSt → List TopBox → Option TopSt
  | t, [] => some t
  | t, b :: rest =>
    match topStep t b with
    | none => none
    | some t' => foldTop t' rest

section
variable (s : Stream) (kind : SkipKind)

/-- the scan loop, with everything it has established about the boxes it walked -/
theorem scan_rel2 (cfg : Config) (fuel : Nat) (st : ScanState) (pos : Nat) :
    Tri (idealOps s kind) (scan cfg fuel st) pos
      (fun r pos' => ∀ st', r = some st' →
        ∃ bs, Chain s s.len cfg.cumulativeMdatBoxSize pos pos' bs ∧ foldSpan st.data bs = some st'.data ∧
          foldTop (topOf st) bs = some (topOf st') ∧ (∀ b ∈ bs, BoxSide s cfg b) ∧ s.len ≤ pos') := by
  induction fuel generalizing st pos with
  | zero => exact Tri.done (by intro st' h; cases h)
  | succ n ih =>
    unfold scan
    apply Tri.isEof
    by_cases he : s.len ≤ pos
    · simp only [he, decide_true, if_true]
      exact Tri.done (by intro st' h; cases h; exact ⟨[], rfl, rfl, rfl, (by intro b hb; cases hb), he⟩)
    · simp only [he, decide_false, Bool.false_eq_true, if_false]
      apply Tri.bind
      apply Tri.mono (Tri.and (scanBox_rel s kind cfg st pos) (scanBox_top s kind cfg st pos))
      intro st1 p1 ⟨⟨b, hb, hbo, hbe, h8, hstep⟩, ⟨b', hb', htop, hside⟩⟩
      have hbb : b' = b := by rw [hb] at hb'; cases hb'; rfl
      subst hbb
      apply Tri.mono (ih st1 p1)
      intro r p2 hr st' hst'
      obtain ⟨bs, hc, hf, hft, hsd, hl⟩ := hr st' hst'
      refine ⟨b' :: bs, ⟨hb, hbo, by omega, by rw [hbe]; exact hc⟩, ?_, ?_, ?_, hl⟩
      · simp only [foldSpan, hstep]; exact hf
      · simp only [foldTop, htop]; exact hft
      · intro c hc'
        rcases List.mem_cons.mp hc' with e | e
        · rw [e]; exact hside
        · exact hsd c e

end

/-! ### the list half -/

def KnownName (n : Bytes) : Prop :=
  n = freeN ∨ n = skipN ∨ n = ftypN ∨ n = mdatN ∨ n = metaN ∨ n = mecoN ∨ n = moovN

theorem topStep_known (t t' : TopSt) (b : TopBox) (h : topStep t b = some t') : KnownName b.name := by
  unfold topStep at h
  unfold KnownName
  split at h
  · rename_i hc; rcases hc with e | e; · exact Or.inl e
    exact Or.inr (Or.inl e)
  split at h
  · rename_i e; exact Or.inr (Or.inr (Or.inl e))
  split at h
  · cases h
  split at h
  · rename_i hc
    rcases hc with e | e | e
    · exact Or.inr (Or.inr (Or.inr (Or.inl e)))
    · exact Or.inr (Or.inr (Or.inr (Or.inr (Or.inl e))))
    · exact Or.inr (Or.inr (Or.inr (Or.inr (Or.inr (Or.inl e)))))
  split at h
  · rename_i e; exact Or.inr (Or.inr (Or.inr (Or.inr (Or.inr (Or.inr e)))))
  · cases h

theorem foldTop_known (bs : List TopBox) (t t' : TopSt) (h : foldTop t bs = some t') : ∀ b ∈ bs, KnownName b.name := by
  induction bs generalizing t with
  | nil => intro b hb; cases hb
  | cons c rest ih =>
    simp only [foldTop] at h
    cases hs : topStep t c with
    | none => rw [hs] at h; cases h
    | some t1 =>
      rw [hs] at h
      intro b hb
      rcases List.mem_cons.mp hb with e | e
      · rw [e]; exact topStep_known t t1 c hs
      · exact ih t1 h b e

theorem topStep_ftyp (t : TopSt) (b : TopBox) (hn : b.name = ftypN) :
    topStep t b = if t.ftyp = true then none else some ⟨true, t.moov⟩ := by
  unfold topStep
  rw [if_neg (by rw [hn]; decide), if_pos hn]

theorem topStep_moov (t : TopSt) (b : TopBox) (hn : b.name = moovN) :
    topStep t b = if t.ftyp = true then some ⟨true, some b.offset⟩ else none := by
  unfold topStep
  rw [if_neg (by rw [hn]; decide), if_neg (by rw [hn]; decide)]
  cases t.ftyp with
  | false => simp
  | true =>
    simp only [Bool.not_true, Bool.false_eq_true, if_false, if_true]
    rw [if_neg (by rw [hn]; decide), if_pos hn]

theorem topStep_media' (t : TopSt) (b : TopBox) (hn : b.name = mdatN ∨ b.name = metaN ∨ b.name = mecoN) :
    topStep t b = if t.ftyp = true then some t else none := by
  cases ht : t.ftyp with
  | true => rw [topStep_media t b ht hn]; simp
  | false =>
    unfold topStep
    rw [if_neg (by rcases hn with e | e | e <;> rw [e] <;> decide),
      if_neg (by rcases hn with e | e | e <;> rw [e] <;> decide)]
    simp [ht]

/-- the four ways a step can succeed -/
theorem topStep_cases (t t1 : TopSt) (c : TopBox) (hs : topStep t c = some t1) :
    ((c.name = freeN ∨ c.name = skipN) ∧ t1 = t) ∨
    (c.name = ftypN ∧ t.ftyp = false ∧ t1 = ⟨true, t.moov⟩) ∨
    ((c.name = mdatN ∨ c.name = metaN ∨ c.name = mecoN) ∧ t.ftyp = true ∧ t1 = t) ∨
    (c.name = moovN ∧ t.ftyp = true ∧ t1 = ⟨true, some c.offset⟩) := by
  have hk := topStep_known t t1 c hs
  unfold KnownName at hk
  rcases hk with e | e | e | e | e | e | e
  · left; rw [topStep_lead t c (Or.inl e)] at hs; cases hs; exact ⟨Or.inl e, rfl⟩
  · left; rw [topStep_lead t c (Or.inr e)] at hs; cases hs; exact ⟨Or.inr e, rfl⟩
  · right; left
    rw [topStep_ftyp t c e] at hs
    cases ht : t.ftyp with
    | true => rw [ht] at hs; simp at hs
    | false => rw [ht] at hs; simp at hs; exact ⟨e, rfl, hs.symm⟩
  · right; right; left
    rw [topStep_media' t c (Or.inl e)] at hs
    cases ht : t.ftyp with
    | true => rw [ht] at hs; simp at hs; exact ⟨Or.inl e, rfl, hs.symm⟩
    | false => rw [ht] at hs; simp at hs
  · right; right; left
    rw [topStep_media' t c (Or.inr (Or.inl e))] at hs
    cases ht : t.ftyp with
    | true => rw [ht] at hs; simp at hs; exact ⟨Or.inr (Or.inl e), rfl, hs.symm⟩
    | false => rw [ht] at hs; simp at hs
  · right; right; left
    rw [topStep_media' t c (Or.inr (Or.inr e))] at hs
    cases ht : t.ftyp with
    | true => rw [ht] at hs; simp at hs; exact ⟨Or.inr (Or.inr e), rfl, hs.symm⟩
    | false => rw [ht] at hs; simp at hs
  · right; right; right
    rw [topStep_moov t c e] at hs
    cases ht : t.ftyp with
    | true => rw [ht] at hs; simp at hs; exact ⟨e, rfl, hs.symm⟩
    | false => rw [ht] at hs; simp at hs

/-- once the ftyp has been seen, another one is refused -/
theorem foldTop_no_ftyp (bs : List TopBox) (t t' : TopSt) (ht : t.ftyp = true) (h : foldTop t bs = some t') :
    t'.ftyp = true ∧ ∀ b ∈ bs, b.name ≠ ftypN := by
  induction bs generalizing t with
  | nil => simp only [foldTop, Option.some.injEq] at h; subst h; exact ⟨ht, by intro b hb; cases hb⟩
  | cons c rest ih =>
    simp only [foldTop] at h
    cases hs : topStep t c with
    | none => rw [hs] at h; cases h
    | some t1 =>
      rw [hs] at h
      have hc : c.name ≠ ftypN ∧ t1.ftyp = true := by
        rcases topStep_cases t t1 c hs with ⟨hn, e⟩ | ⟨_, hf, _⟩ | ⟨hn, _, e⟩ | ⟨hn, _, e⟩
        · subst e; exact ⟨by rcases hn with e | e <;> rw [e] <;> decide, ht⟩
        · rw [ht] at hf; cases hf
        · subst e; exact ⟨by rcases hn with e | e | e <;> rw [e] <;> decide, ht⟩
        · subst e; exact ⟨by rw [hn]; decide, rfl⟩
      obtain ⟨i1, i2⟩ := ih t1 hc.2 h
      refine ⟨i1, ?_⟩
      intro b hb
      rcases List.mem_cons.mp hb with e | e
      · rw [e]; exact hc.1
      · exact i2 b e

/-- before the ftyp only free/skip boxes pass; the first other box is the ftyp and it is the only one -/
theorem foldTop_first (bs : List TopBox) (m : Option Nat) (t' : TopSt) (h : foldTop ⟨false, m⟩ bs = some t')
    (ht' : t'.ftyp = true) :
    ∃ lead b rest, bs = lead ++ b :: rest ∧ (∀ x ∈ lead, x.name = freeN ∨ x.name = skipN) ∧ b.name = ftypN ∧
      ∀ x ∈ rest, x.name ≠ ftypN := by
  induction bs with
  | nil => simp only [foldTop, Option.some.injEq] at h; subst h; cases ht'
  | cons c rest ih =>
    simp only [foldTop] at h
    cases hs : topStep ⟨false, m⟩ c with
    | none => rw [hs] at h; cases h
    | some t1 =>
      rw [hs] at h
      rcases topStep_cases _ t1 c hs with ⟨hn, e⟩ | ⟨hn, _, e⟩ | ⟨_, hf, _⟩ | ⟨_, hf, _⟩
      · subst e
        obtain ⟨lead, b, r, e0, e1, e2, e3⟩ := ih h
        refine ⟨c :: lead, b, r, by rw [e0]; rfl, ?_, e2, e3⟩
        intro x hx
        rcases List.mem_cons.mp hx with e | e
        · rw [e]; exact hn
        · exact e1 x e
      · subst e
        obtain ⟨_, i2⟩ := foldTop_no_ftyp rest ⟨true, m⟩ t' rfl h
        exact ⟨[], c, rest, rfl, (by intro x hx; cases hx), hn, i2⟩
      · cases hf
      · cases hf

theorem foldTop_moov (bs : List TopBox) (t t' : TopSt) (h : foldTop t bs = some t') :
    t'.moov = (match (bs.filter (fun b => decide (b.name = moovN))).getLast? with
      | some b => some b.offset
      | none => t.moov) := by
  induction bs generalizing t with
  | nil => simp only [foldTop, Option.some.injEq] at h; subst h; rfl
  | cons c rest ih =>
    simp only [foldTop] at h
    cases hs : topStep t c with
    | none => rw [hs] at h; cases h
    | some t1 =>
      rw [hs] at h
      have i := ih t1 h
      by_cases hm : c.name = moovN
      · have e1 : t1.moov = some c.offset := by
          rcases topStep_cases t t1 c hs with ⟨hn, _⟩ | ⟨hn, _, _⟩ | ⟨hn, _, _⟩ | ⟨_, _, e⟩
          · rcases hn with e | e <;> rw [hm] at e <;> exact absurd e (by decide)
          · rw [hm] at hn; exact absurd hn (by decide)
          · rcases hn with e | e | e <;> rw [hm] at e <;> exact absurd e (by decide)
          · subst e; rfl
        rw [List.filter_cons_of_pos (by simp [hm])]
        cases hl : (rest.filter (fun b => decide (b.name = moovN))).getLast? with
        | none =>
          have : rest.filter (fun b => decide (b.name = moovN)) = [] := by simpa using hl
          rw [this]
          rw [hl] at i
          simp only [List.getLast?_singleton]
          rw [i, e1]
        | some l =>
          rw [hl] at i
          cases hr : rest.filter (fun b => decide (b.name = moovN)) with
          | nil => rw [hr] at hl; cases hl
          | cons x xs =>
            rw [hr] at hl
            rw [List.getLast?_cons_cons, hl]
            exact i
      · have e1 : t1.moov = t.moov := by
          rcases topStep_cases t t1 c hs with ⟨_, e⟩ | ⟨_, _, e⟩ | ⟨_, _, e⟩ | ⟨hn, _, _⟩
          · subst e; rfl
          · subst e; rfl
          · subst e; rfl
          · exact absurd hn hm
        rw [List.filter_cons_of_neg (by simp [hm])]
        rw [i, e1]

/-! ### the documented top-level rules, in the Spec's words -/

/-- `Rules` of Spec/Mp4Rules.lean without the clause that the walk is clean, as propositions -/
def RulesTop (s : Stream) (c : Cfg) (bs : List TopBox) : Prop :=
  (match bs.drop (bs.takeWhile (fun b => b.name = (cc 'f' 'r' 'e' 'e') ∨ b.name = (cc 's' 'k' 'i' 'p'))).length with
    | b :: _ => b.name = (cc 'f' 't' 'y' 'p') ∧ ftypOk s b = true
    | [] => False) ∧
  (bs.filter (·.name = (cc 'f' 't' 'y' 'p'))).length = 1 ∧
  (∀ b ∈ bs, isKnownTop b.name = true) ∧
  (bs.filter (·.name = (cc 'm' 'o' 'o' 'v'))) ≠ [] ∧
  (∀ m ∈ bs.filter (·.name = (cc 'm' 'o' 'o' 'v')), moovOk s c m = true) ∧
  (bs.filter (·.name = (cc 'm' 'd' 'a' 't'))) ≠ [] ∧
  (∀ m ∈ bs.filter (·.name = (cc 'm' 'd' 'a' 't')), m ∈ mediaRun bs)

theorem isKnownTop_of (n : Bytes) (h : KnownName n) : isKnownTop n = true := by
  unfold isKnownTop isMediaRunName
  rw [cc_ftyp, cc_moov, cc_mdat, cc_free, cc_skip, cc_meta, cc_meco]
  unfold KnownName at h
  simp only [Bool.or_eq_true, decide_eq_true_eq]
  rcases h with e | e | e | e | e | e | e <;> simp [e]

/-- every mdat of a sequence over which the span bookkeeping succeeds is in the media run -/
theorem mdats_in_run (bs : List TopBox) (off : Nat) (d : Span) (hg : Geo off bs)
    (hf : foldSpan none bs = some (some d)) : ∀ b ∈ bs, b.name = mdatN → b ∈ mediaRun bs := by
  obtain ⟨pre, m, post, e0, e1, e2, e3, e4, e5, e6, e7⟩ := fold_before bs off d hg hf
  subst e0
  rw [mediaRun_split pre post m e1 e2]
  intro b hb hbm
  rcases List.mem_append.mp hb with h | h
  · exact absurd hbm (e1 b h)
  · rcases List.mem_cons.mp h with h | h
    · rw [h]; exact List.mem_cons_self ..
    · rw [← List.takeWhile_append_dropWhile (p := isR) (l := post)] at h
      rcases List.mem_append.mp h with h | h
      · exact List.mem_cons_of_mem _ h
      · exact absurd hbm (e7 b h)

theorem top_rules (s : Stream) (cfg : Config) (bs : List TopBox) (off : Nat) (d : Span) (mo : Nat)
    (hg : Geo off bs) (hf : foldSpan none bs = some (some d))
    (ht : foldTop ⟨false, none⟩ bs = some ⟨true, some mo⟩) (hside : ∀ b ∈ bs, BoxSide s cfg b) :
    RulesTop s ⟨cfg.maxMetadataSize, cfg.cumulativeMdatBoxSize⟩ bs ∧
    (∃ m, lastMoov bs = some m ∧ m.offset = mo) := by
  obtain ⟨lead, f, rest, e0, e1, e2, e3⟩ := foldTop_first bs none _ ht rfl
  have hk := foldTop_known bs _ _ ht
  have hmv := foldTop_moov bs _ _ ht
  have hfil : ∀ (l : List TopBox) (n : Bytes), (∀ x ∈ l, x.name ≠ n) → l.filter (fun b => decide (b.name = n)) = [] := by
    intro l n hl
    rw [List.filter_eq_nil_iff]
    intro x hx
    simpa using hl x hx
  have hleadP : ∀ x ∈ lead, (decide (x.name = (cc 'f' 'r' 'e' 'e') ∨ x.name = (cc 's' 'k' 'i' 'p'))) = true := by
    intro x hx; rw [cc_free, cc_skip]; simpa using e1 x hx
  have hfP : ¬ ((decide (f.name = (cc 'f' 'r' 'e' 'e') ∨ f.name = (cc 's' 'k' 'i' 'p'))) = true) := by
    rw [cc_free, cc_skip, e2]; decide
  refine ⟨⟨?_, ?_, ?_, ?_, ?_, ?_, ?_⟩, ?_⟩
  · -- the first box after the leading free/skip boxes is the ftyp
    have htw : (bs.takeWhile (fun b => decide (b.name = (cc 'f' 'r' 'e' 'e') ∨ b.name = (cc 's' 'k' 'i' 'p')))) = lead := by
      rw [e0, List.takeWhile_append_of_pos hleadP]
      have : List.takeWhile (fun b : TopBox => decide (b.name = (cc 'f' 'r' 'e' 'e') ∨ b.name = (cc 's' 'k' 'i' 'p'))) (f :: rest) = [] :=
        List.takeWhile_cons_of_neg hfP
      rw [this, List.append_nil]
    rw [htw, e0, List.drop_left]
    exact ⟨by rw [cc_ftyp]; exact e2, (hside f (by rw [e0]; simp)).1 e2⟩
  · rw [cc_ftyp, e0, List.filter_append, List.filter_cons_of_pos (by simp [e2])]
    rw [hfil lead ftypN (by intro x hx; rcases e1 x hx with e | e <;> rw [e] <;> decide), hfil rest ftypN e3]
    rfl
  · intro b hb; exact isKnownTop_of b.name (hk b hb)
  · rw [cc_moov]
    intro hnil
    rw [hnil] at hmv
    simp at hmv
  · intro m hm
    have hm' := List.mem_filter.mp hm
    have : m.name = moovN := by
      have := hm'.2; rw [cc_moov] at this; simpa using this
    exact (hside m hm'.1).2 this
  · rw [cc_mdat]
    obtain ⟨pre, m, post, e0', e1', e2', _⟩ := fold_before bs off d hg hf
    intro hnil
    have : m ∈ bs.filter (fun b => decide (b.name = mdatN)) := by
      rw [List.mem_filter]; exact ⟨by rw [e0']; simp, by simp [e2']⟩
    rw [hnil] at this; cases this
  · intro m hm
    have hm' := List.mem_filter.mp hm
    have : m.name = mdatN := by
      have := hm'.2; rw [cc_mdat] at this; simpa using this
    exact mdats_in_run bs off d hg hf m hm'.1 this
  · unfold lastMoov
    rw [cc_moov]
    cases hl : (bs.filter (fun b => decide (b.name = moovN))).getLast? with
    | none => rw [hl] at hmv; simp at hmv
    | some m => rw [hl] at hmv; simp at hmv; exact ⟨m, rfl, hmv.symm⟩

/-! ### the whole program -/

/-- what a successful `finish` says about the scan state -/
theorem finish_parts (st : ScanState) (r : Sanitized) (h : finish st = .ok r) :
    st.ftyp.isSome = true ∧ ∃ mo, st.moovOffset = some mo ∧ st.data = some r.data ∧
      (r.metadata = none ↔ mo < r.data.offset) := by
  unfold finish at h
  cases hf : st.ftyp with
  | none => rw [hf] at h; cases h
  | some ftyp =>
    rw [hf] at h; dsimp only at h
    cases hm : st.moov with
    | none => rw [hm] at h; cases h
    | some moov =>
      rw [hm] at h
      cases hmo : st.moovOffset with
      | none => rw [hmo] at h; cases h
      | some mo =>
        rw [hmo] at h; dsimp only at h
        cases hd : st.data with
        | none => rw [hd] at h; cases h
        | some data =>
          rw [hd] at h; dsimp only at h
          refine ⟨rfl, mo, rfl, ?_⟩
          split at h
          · rename_i hlt
            simp only [PureRes.ok.injEq] at h; rw [← h]; exact ⟨rfl, by simp [hlt]⟩
          · rename_i hlt
            split at h
            · cases h
            · cases h
            · split at h
              · cases h
              · split at h
                · cases h
                · simp only [PureRes.ok.injEq] at h; rw [← h]; exact ⟨rfl, by simp [hlt]⟩
                · split at h
                  · simp only [PureRes.ok.injEq] at h; rw [← h]; exact ⟨rfl, by simp [hlt]⟩
                  · cases h
                  · cases h

section
variable (s : Stream) (kind : SkipKind)

/-- a returned result: the independent walker finds a clean box sequence that meets the top-level rules, the span is
    the fold of the bookkeeping over it, and "no metadata" is returned exactly when the last moov starts before the
    span -/
theorem sanitizeP_rel2 (cfg : Config) (fuel : Nat) :
    Tri (idealOps s kind) (sanitizeP cfg fuel) 0
      (fun o _ => ∀ r, o = some r →
        ∃ bs, walkAll s 0 s.len cfg.cumulativeMdatBoxSize = .clean bs ∧
          RulesTop s ⟨cfg.maxMetadataSize, cfg.cumulativeMdatBoxSize⟩ bs ∧
          (∃ m d, lastMoov bs = some m ∧ firstMdat bs = some d ∧ (r.metadata = none ↔ m.offset < d.offset))) := by
  unfold sanitizeP
  apply Tri.bind
  apply Tri.mono (scan_rel2 s kind cfg fuel {} 0)
  intro o p1 ho
  cases o with
  | none => exact Tri.done (by intro r h; cases h)
  | some st =>
    obtain ⟨bs, hc, hf, hft, hsd, hl⟩ := ho st rfl
    dsimp only
    apply Tri.bind
    apply Tri.mono (checkEnd_rel s kind p1)
    intro _ p2 ⟨hp2, hle⟩
    apply Tri.bind
    cases hfin : finish st with
    | panic site => exact Tri.panic
    | err e => exact Tri.fail
    | ok r =>
      apply Tri.done
      apply Tri.done
      intro r' hr'
      simp only [Option.some.injEq] at hr'
      subst hr'
      have hp : p1 = s.len := by omega
      subst hp
      obtain ⟨hfs, mo, hmo, hd, hmeta⟩ := finish_parts st r hfin
      have hw : walkAll s 0 s.len cfg.cumulativeMdatBoxSize = .clean bs := by
        unfold walkAll
        apply walk_of_chain s s.len _ bs 0 _ hc
        left; omega
      have hf' : foldSpan none bs = some (some r.data) := by
        have : ({} : ScanState).data = none := rfl
        rw [this] at hf; rw [hf, hd]
      have ht' : foldTop ⟨false, none⟩ bs = some ⟨true, some mo⟩ := by
        have e1 : topOf ({} : ScanState) = ⟨false, none⟩ := rfl
        have e2 : topOf st = ⟨true, some mo⟩ := by unfold topOf; rw [hfs, hmo]
        rw [e1, e2] at hft; exact hft
      obtain ⟨hr, m, hm1, hm2⟩ := top_rules s cfg bs 0 r.data mo (Chain.geo s hc) hf' ht' hsd
      obtain ⟨⟨d, hd1, hd2⟩, _, _⟩ := span_is_media_run bs 0 r.data (Chain.geo s hc) hf'
      exact ⟨bs, hw, hr, m, d, hm1, hd1, by rw [hm2, ← hd2]; exact hmeta⟩

end
end MediaSan.Mp4
