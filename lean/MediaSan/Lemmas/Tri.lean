/-
  Partial-correctness triples over I/O programs: `Tri ops p st Q` — IF the run of `p` from `st` returns a value,
  the value and the final state satisfy `Q` (errors, panics and fuel exhaustion say nothing).  The relational
  companion of `Safe` (Lemmas/Hoare.lean): used to relate what a successful run has read to an independent
  description of the input.
-/
import MediaSan.Lemmas.Hoare
namespace MediaSan

def Tri {E α σ} (ops : CursorOps σ) (p : Prog E α) (st : σ) (Q : α → σ → Prop) : Prop :=
  match p.runF ops st with
  | .ok (a, st') => Q a st'
  | _ => True

namespace Tri
variable {E α β σ : Type} {ops : CursorOps σ}

theorem done {a : α} {st : σ} {Q : α → σ → Prop} (h : Q a st) : Tri ops (.done a : Prog E α) st Q := h
theorem fail {e : E} {st : σ} {Q : α → σ → Prop} : Tri ops (.fail e : Prog E α) st Q := trivial
theorem panic {m : String} {st : σ} {Q : α → σ → Prop} : Tri ops (.panic m : Prog E α) st Q := trivial

theorem mono {p : Prog E α} {st : σ} {Q Q' : α → σ → Prop} (h : Tri ops p st Q) (hq : ∀ a s, Q a s → Q' a s) :
    Tri ops p st Q' := by
  unfold Tri at *
  cases hr : p.runF ops st with
  | ok x => obtain ⟨a, s⟩ := x; rw [hr] at h; exact hq a s h
  | _ => trivial

theorem bind {p : Prog E α} {f : α → Prog E β} {st : σ} {Q : β → σ → Prop}
    (h : Tri ops p st (fun a s => Tri ops (f a) s Q)) : Tri ops (p.bind f) st Q := by
  unfold Tri at *
  rw [runF_bind]
  cases hr : p.runF ops st with
  | ok x => obtain ⟨a, s⟩ := x; rw [hr] at h; exact h
  | _ => trivial

theorem mapEof_tri {eof : Option E} {k : IoKind} {Q : α → σ → Prop} :
    (match (mapEof eof k : Outcome E (α × σ)) with
      | .ok (a, st') => Q a st' | _ => True) := by
  unfold mapEof; cases k <;> cases eof <;> trivial

/-- what a value-returning run establishes -/
theorem elim {p : Prog E α} {st : σ} {Q : α → σ → Prop} (h : Tri ops p st Q) {a : α} {st' : σ}
    (hr : p.runF ops st = .ok (a, st')) : Q a st' := by
  unfold Tri at h; rw [hr] at h; exact h

end Tri

section Ideal
variable {E α : Type} (s : Stream) (kind : SkipKind)

theorem Tri.isEof {k : Bool → Prog E α} {pos : Nat} {Q : α → Nat → Prop}
    (h : Tri (idealOps s kind) (k (decide (s.len ≤ pos))) pos Q) : Tri (idealOps s kind) (.isEof k) pos Q := by
  unfold Tri at *; simpa only [Prog.runF, idealOps] using h

theorem Tri.position {k : Nat → Prog E α} {pos : Nat} {Q : α → Nat → Prop}
    (h : Tri (idealOps s kind) (k pos) pos Q) : Tri (idealOps s kind) (.position k) pos Q := by
  unfold Tri at *; simpa only [Prog.runF, idealOps] using h

theorem Tri.streamLen {k : Nat → Prog E α} {pos : Nat} {Q : α → Nat → Prop}
    (h : Tri (idealOps s kind) (k s.len) pos Q) : Tri (idealOps s kind) (.streamLen k) pos Q := by
  unfold Tri at *; simpa only [Prog.runF, idealOps] using h

theorem Tri.readExact {n : Nat} {eof : Option E} {k : Bytes → Prog E α} {pos : Nat} {Q : α → Nat → Prop}
    (h0 : n = 0 → Tri (idealOps s kind) (k []) pos Q)
    (h1 : n ≠ 0 → pos + n ≤ s.len → Tri (idealOps s kind) (k (s.read pos n)) (pos + n) Q) :
    Tri (idealOps s kind) (.readExact n eof k) pos Q := by
  unfold Tri at *
  simp only [Prog.runF, idealOps]
  by_cases hn : n = 0
  · subst hn; simp only [if_true]; exact h0 rfl
  · by_cases hl : pos + n ≤ s.len
    · simp only [hn, if_false, hl, if_true]; exact h1 hn hl
    · simp only [hn, if_false, hl]; exact Tri.mapEof_tri

theorem Tri.skip {n : Nat} {eof : Option E} {k : Unit → Prog E α} {pos : Nat} {Q : α → Nat → Prop}
    (h : ∀ pos', (idealOps s kind).skip pos n = .ok pos' → Tri (idealOps s kind) (k ()) pos' Q) :
    Tri (idealOps s kind) (.skip n eof k) pos Q := by
  unfold Tri
  simp only [Prog.runF]
  cases hr : (idealOps s kind).skip pos n with
  | ok p' => exact h p' hr
  | error e => exact Tri.mapEof_tri

theorem Tri.readUpTo {n : Nat} {k : Bytes → Prog E α} {pos : Nat} {Q : α → Nat → Prop}
    (h : Tri (idealOps s kind) (k (s.read pos (min n (s.len - pos)))) (pos + min n (s.len - pos)) Q) :
    Tri (idealOps s kind) (.readUpTo n k) pos Q := by
  unfold Tri at *
  simpa only [Prog.runF, idealOps] using h

/-- a successful skip lands exactly `n` further (a seek-based skip may land past the end; it never wraps) -/
theorem ideal_skip_exact {pos n pos' : Nat} (h : (idealOps s kind).skip pos n = .ok pos') : pos' = pos + n := by
  simp only [idealOps] at h
  cases kind with
  | strict => dsimp only at h; split at h <;> cases h; rfl
  | seekable =>
    dsimp only at h
    split at h
    · rename_i h0; cases h; omega
    · split at h
      · cases h; rfl
      · split at h <;> cases h

end Ideal
end MediaSan
