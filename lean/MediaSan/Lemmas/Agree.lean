/-
  `AgreeUnless e p q`: the programs `p` and `q` are the same tree, except that `p` may stop with the parse error `e`
  where `q` goes on.  Then on every cursor `p` either ends in `parseErr e` or returns exactly what `q` returns.
  This is the shape of "a configuration option only separates one rejection from an otherwise identical result" (C14).
-/
import MediaSan.Lemmas.Prog
namespace MediaSan
open MediaSan

inductive AgreeUnless {E α : Type} (e : E) : Prog E α → Prog E α → Prop
  | done (a : α) : AgreeUnless e (.done a) (.done a)
  | fail (x : E) : AgreeUnless e (.fail x) (.fail x)
  | panic (s : String) : AgreeUnless e (.panic s) (.panic s)
  | stop (q : Prog E α) : AgreeUnless e (.fail e) q
  | isEof (k₁ k₂ : Bool → Prog E α) : (∀ b, AgreeUnless e (k₁ b) (k₂ b)) → AgreeUnless e (.isEof k₁) (.isEof k₂)
  | position (k₁ k₂ : Nat → Prog E α) : (∀ b, AgreeUnless e (k₁ b) (k₂ b)) → AgreeUnless e (.position k₁) (.position k₂)
  | streamLen (k₁ k₂ : Nat → Prog E α) : (∀ b, AgreeUnless e (k₁ b) (k₂ b)) → AgreeUnless e (.streamLen k₁) (.streamLen k₂)
  | readExact (n : Nat) (eof : Option E) (k₁ k₂ : Bytes → Prog E α) :
      (∀ b, AgreeUnless e (k₁ b) (k₂ b)) → AgreeUnless e (.readExact n eof k₁) (.readExact n eof k₂)
  | skip (n : Nat) (eof : Option E) (k₁ k₂ : Unit → Prog E α) :
      (∀ b, AgreeUnless e (k₁ b) (k₂ b)) → AgreeUnless e (.skip n eof k₁) (.skip n eof k₂)
  | readUpTo (n : Nat) (k₁ k₂ : Bytes → Prog E α) :
      (∀ b, AgreeUnless e (k₁ b) (k₂ b)) → AgreeUnless e (.readUpTo n k₁) (.readUpTo n k₂)

theorem AgreeUnless.refl {E α} (e : E) (p : Prog E α) : AgreeUnless e p p := by
  induction p with
  | done a => exact .done a
  | fail x => exact .fail x
  | panic s => exact .panic s
  | isEof k ih => exact .isEof _ _ ih
  | position k ih => exact .position _ _ ih
  | streamLen k ih => exact .streamLen _ _ ih
  | readExact n eof k ih => exact .readExact n eof _ _ ih
  | skip n eof k ih => exact .skip n eof _ _ ih
  | readUpTo n k ih => exact .readUpTo n _ _ ih

theorem AgreeUnless.of_eq {E α} (e : E) {p q : Prog E α} (h : p = q) : AgreeUnless e p q := by
  subst h; exact AgreeUnless.refl e p

theorem AgreeUnless.bind {E α β} {e : E} {p q : Prog E α} {f g : α → Prog E β}
    (hp : AgreeUnless e p q) (hf : ∀ a, AgreeUnless e (f a) (g a)) : AgreeUnless e (p.bind f) (q.bind g) := by
  induction hp with
  | done a => exact hf a
  | fail x => exact .fail x
  | panic s => exact .panic s
  | stop q => exact .stop _
  | isEof k₁ k₂ _ ih => exact .isEof _ _ ih
  | position k₁ k₂ _ ih => exact .position _ _ ih
  | streamLen k₁ k₂ _ ih => exact .streamLen _ _ ih
  | readExact n eof k₁ k₂ _ ih => exact .readExact n eof _ _ ih
  | skip n eof k₁ k₂ _ ih => exact .skip n eof _ _ ih
  | readUpTo n k₁ k₂ _ ih => exact .readUpTo n _ _ ih

/-- the point of the relation -/
theorem run_agree {E α σ} {e : E} {p q : Prog E α} (h : AgreeUnless e p q) (ops : CursorOps σ) (st : σ) :
    p.run ops st = .parseErr e ∨ p.run ops st = q.run ops st := by
  induction h generalizing st with
  | done a => right; rfl
  | fail x => right; rfl
  | panic s => right; rfl
  | stop q => left; rfl
  | isEof k₁ k₂ _ ih =>
    simp only [Prog.run]
    cases ops.isEof st with
    | ok r => exact ih _ _
    | error x => right; rfl
  | position k₁ k₂ _ ih =>
    simp only [Prog.run]
    cases ops.position st with
    | ok r => exact ih _ _
    | error x => right; rfl
  | streamLen k₁ k₂ _ ih =>
    simp only [Prog.run]
    cases ops.streamLen st with
    | ok r => exact ih _ _
    | error x => right; rfl
  | readExact n eof k₁ k₂ _ ih =>
    simp only [Prog.run]
    cases ops.readExact st n with
    | ok r => exact ih _ _
    | error x => right; rfl
  | skip n eof k₁ k₂ _ ih =>
    simp only [Prog.run]
    cases ops.skip st n with
    | ok r => exact ih _ _
    | error x => right; rfl
  | readUpTo n k₁ k₂ _ ih =>
    simp only [Prog.run]
    cases ops.readUpTo st n with
    | ok r => exact ih _ _
    | error x => right; rfl

end MediaSan
