/-
  C02 (structure): what the independent walker finds in the metadata the model returns.
  The returned bytes are `ftyp ++ moov [++ free]`; each part is `encodeHeader h ++ payload` with a well-formed
  header that declares exactly its payload, so the walker reads a clean sequence of two or three sized boxes.
-/
import MediaSan.Lemmas.TopRel
import MediaSan.Lemmas.ScanSafe
import MediaSan.Lemmas.Mp4Displace
namespace MediaSan.Mp4
open MediaSan MediaSan.Spec.Mp4Walk

theorem read_mid (x y z : Bytes) (p n : Nat) (hp : p = x.length) (hn : n = y.length) :
    (Stream.ofBytes (x ++ y ++ z)).read p n = y := by
  subst hp hn
  apply List.ext_getElem
  · simp [Stream.read]
  · intro i h1 h2
    simp only [Stream.read, Stream.ofBytes, List.getElem_map, List.getElem_range]
    rw [List.getD_eq_getElem?_getD, List.append_assoc, List.getElem?_append_right (by omega)]
    simp [List.getElem?_append_left h2, List.getElem?_eq_getElem h2]

theorem hdrAt_encode (x z : Bytes) (h : BoxHeader) (hw : h.WF) :
    HdrAt (Stream.ofBytes (x ++ encodeHeader h ++ z)) x.length h := by
  have h4 := encSize_length h
  have hn := encName_length h hw
  have e1 : x ++ encodeHeader h ++ z = x ++ encSize h ++ (encName h ++ encExt h ++ encUuid h ++ z) := by
    rw [encodeHeader_parts]; simp [List.append_assoc]
  have e2 : x ++ encodeHeader h ++ z = (x ++ encSize h) ++ encName h ++ (encExt h ++ encUuid h ++ z) := by
    rw [encodeHeader_parts]; simp [List.append_assoc]
  have e3 : x ++ encodeHeader h ++ z = (x ++ encSize h ++ encName h) ++ encExt h ++ (encUuid h ++ z) := by
    rw [encodeHeader_parts]; simp [List.append_assoc]
  have r1 : (Stream.ofBytes (x ++ encodeHeader h ++ z)).read x.length 4 = encSize h := by
    rw [e1]; exact read_mid _ _ _ _ _ rfl h4.symm
  have r2 : (Stream.ofBytes (x ++ encodeHeader h ++ z)).read (x.length + 4) 4 = encName h := by
    rw [e2]; exact read_mid _ _ _ _ _ (by simp [h4]) hn.symm
  obtain ⟨ty, sz⟩ := h
  obtain ⟨hty, hsz⟩ := hw
  refine ⟨?_, ?_, ?_⟩
  · rw [r2]; cases ty <;> rfl
  · cases ty with
    | fourcc b => exact hty.2
    | uuid u => trivial
  · rw [r1]
    cases sz with
    | untilEof => simp only [encSize]; exact beToNat_natToBE4 0 (by unfold u32Max; omega)
    | size n =>
      simp only [encSize]
      have := hsz
      simp only at this
      rw [beToNat_natToBE4 n this.2]
      exact ⟨rfl, by omega, by omega⟩
    | ext n =>
      have r3 : (Stream.ofBytes (x ++ encodeHeader ⟨ty, .ext n⟩ ++ z)).read (x.length + 8) 8 = natToBE 8 n := by
        rw [e3]; exact read_mid _ _ _ _ _ (by simp [h4, hn]) (by simp [encExt])
      simp only [encSize]
      rw [r3, beToNat_natToBE4 1 (by unfold u32Max; omega)]
      refine ⟨rfl, ?_⟩
      have := hsz
      simp only at this
      exact (beToNat_natToBE 8 n (by unfold u64Max at this; omega)).symm

/-! ### a sequence of serialised boxes, as the walker reads it -/

def serBoxes (l : List (BoxHeader × Bytes)) : Bytes := (l.map fun hp => encodeHeader hp.1 ++ hp.2).flatten

def descr : Nat → List (BoxHeader × Bytes) → List TopBox
  | _, [] => []
  | off, (h, p) :: r =>
    ⟨off, h.encodedLen, name4 h, off + h.encodedLen + p.length, true⟩ :: descr (off + h.encodedLen + p.length) r

theorem header_box (x z payload : Bytes) (h : BoxHeader) (hw : h.WF) (hd : h.dataSize = .ok (some payload.length)) :
    headerAt (Stream.ofBytes (x ++ encodeHeader h ++ payload ++ z)) x.length (x ++ encodeHeader h ++ payload ++ z).length none
      = .ok ⟨x.length, h.encodedLen, name4 h, x.length + h.encodedLen + payload.length, true⟩ := by
  have hl := encodeHeader_length h hw
  have hh : HdrAt (Stream.ofBytes (x ++ encodeHeader h ++ payload ++ z)) x.length h := by
    have := hdrAt_encode x (payload ++ z) h hw
    simpa [List.append_assoc] using this
  rw [headerAt_of _ _ _ _ h hh (by simp [hl])]
  unfold BoxHeader.dataSize at hd
  unfold specHdr
  cases hs : h.sz with
  | untilEof => rw [hs] at hd; simp [BoxSize.toNat?] at hd
  | size n =>
    rw [hs] at hd
    simp only [BoxSize.toNat?] at hd
    split at hd
    · rename_i hle
      simp only [Except.ok.injEq, Option.some.injEq] at hd
      have : ¬ n < h.encodedLen := by omega
      simp only [this, if_false]
      congr 2; omega
    · cases hd
  | ext n =>
    rw [hs] at hd
    simp only [BoxSize.toNat?] at hd
    split at hd
    · rename_i hle
      simp only [Except.ok.injEq, Option.some.injEq] at hd
      have : ¬ n < h.encodedLen := by omega
      simp only [this, if_false]
      congr 2; omega
    · cases hd

theorem chain_ser (l : List (BoxHeader × Bytes)) (x : Bytes)
    (hall : ∀ hp ∈ l, hp.1.WF ∧ hp.1.dataSize = .ok (some hp.2.length)) :
    Chain (Stream.ofBytes (x ++ serBoxes l)) (x ++ serBoxes l).length none x.length (x ++ serBoxes l).length
      (descr x.length l) := by
  induction l generalizing x with
  | nil => simp [serBoxes, descr, Chain]
  | cons hp r ih =>
    obtain ⟨h, p⟩ := hp
    obtain ⟨hw, hd⟩ := hall (h, p) (by simp)
    have hl := encodeHeader_length h hw
    have e : x ++ serBoxes ((h, p) :: r) = (x ++ encodeHeader h ++ p) ++ serBoxes r := by
      simp [serBoxes, List.append_assoc]
    have ih' := ih (x ++ encodeHeader h ++ p) (fun hp hm => hall hp (by simp [hm]))
    have hlen : (x ++ encodeHeader h ++ p).length = x.length + h.encodedLen + p.length := by simp [hl]; omega
    rw [e]
    refine ⟨?_, rfl, ?_, ?_⟩
    · exact header_box x (serBoxes r) p h hw hd
    · have := encodedLen_ge8 h; dsimp only; omega
    · dsimp only
      rw [← hlen]
      exact ih'

theorem walk_ser (l : List (BoxHeader × Bytes))
    (hall : ∀ hp ∈ l, hp.1.WF ∧ hp.1.dataSize = .ok (some hp.2.length)) :
    walkAll (Stream.ofBytes (serBoxes l)) 0 (serBoxes l).length = .clean (descr 0 l) := by
  have := chain_ser l [] hall
  simp only [List.nil_append, List.length_nil] at this
  unfold walkAll
  apply walk_of_chain _ _ _ _ _ _ this
  left; omega


/-! ### the kept ftyp and moov serialise to as many bytes as `encoded_len` says -/

def SerOk (st : ScanState) : Prop :=
  (∀ f, st.ftyp = some f → (f.data.ser ftypSer).length = f.data.len ftypSer) ∧
  (∀ m, st.moov = some m → (m.data.ser ser5).length = m.data.len ser5)

theorem validateMoov_serlen (payload : Bytes) (d : Data L5) (n : Nat) (h : validateMoov (.bytes payload) = .ok (d, n)) :
    (d.ser ser5).length = d.len ser5 := by
  have hlen := validateMoov_len payload d n h
  unfold validateMoov at h
  simp only [bind] at h
  cases hm : (Data.bytes payload : Data L5).modify parseMoov (forTraks fun co => .ok (co, co.count)) with
  | ok r =>
    obtain ⟨d', counts⟩ := r
    rw [hm] at h
    dsimp only at h
    have hp := (modify_pres congr_len ser5 parseMoov _ rt_moov (forTraks_pres congr_len _ presR_countOf) _ d' counts hm).1
    have hd : d = d' := by
      cases counts with
      | nil => simp only [pure, PureRes.ok.injEq, Prod.mk.injEq] at h; exact h.1.symm
      | cons c cs =>
        dsimp only at h
        cases hs : sumU32 c cs with
        | ok t => rw [hs] at h; simp only [pure, PureRes.ok.injEq, Prod.mk.injEq] at h; exact h.1.symm
        | err e => rw [hs] at h; cases h
        | panic s => rw [hs] at h; cases h
    rw [hd] at hlen ⊢
    rw [hlen, hp]; rfl
  | err e => rw [hm] at h; cases h
  | panic s => rw [hm] at h; cases h

theorem parseFtyp_serlen (payload : Bytes) (f : Ftyp) (h : parseFtyp payload = .ok f) :
    (ftypSer.ser f).length = ftypSer.len f := by
  unfold parseFtyp at h
  split at h
  · cases h
  · split at h
    · cases h
    · simp only [PureRes.ok.injEq] at h
      subst h
      simp [ftypSer, natToBE_length]
      omega

section
variable (s : Stream) (kind : SkipKind)

theorem Tri.any {E α σ : Type} {ops : CursorOps σ} {p : Prog E α} {st : σ} : Tri ops p st (fun _ _ => True) := by
  unfold Tri; split <;> trivial

theorem skipArm_ser (st : ScanState) (startPos : Nat) (header : BoxHeader) (pos : Nat) (hs : SerOk st) :
    Tri (idealOps s kind)
      (do let n ← skipBox header
          let boxSize ← addU64 "skip_box + encoded_len" n header.encodedLen
          let d ← extendData st.data startPos boxSize
          pure { st with data := d } : P ScanState) pos
      (fun st' _ => SerOk st') := by
  apply Tri.bind
  apply Tri.mono Tri.any
  intro n p1 _
  apply Tri.bind
  apply Tri.mono Tri.any
  intro b p2 _
  apply Tri.bind
  apply Tri.mono Tri.any
  intro d p3 _
  exact Tri.done hs

theorem scanBody_ser (cfg : Config) (st : ScanState) (startPos : Nat) (header : BoxHeader) (pos : Nat) (hs : SerOk st) :
    Tri (idealOps s kind) (scanBody cfg st startPos header) pos (fun st' _ => SerOk st') := by
  unfold scanBody
  dsimp only
  split
  · exact skipArm_ser s kind st startPos header pos hs
  split
  · split
    · exact Tri.fail
    · apply Tri.bind
      apply Tri.mono Tri.any
      intro payload p1 _
      apply Tri.bind
      cases hpf : parseFtyp payload with
      | panic site => exact Tri.panic
      | err e => exact Tri.fail
      | ok f =>
        apply Tri.done
        split
        · refine Tri.done ⟨?_, hs.2⟩
          intro f' hf'
          simp only [Option.some.injEq] at hf'
          subst hf'
          exact parseFtyp_serlen payload f hpf
        · exact Tri.fail
  split
  · exact Tri.fail
  split
  · apply Tri.bind
    apply Tri.mono Tri.any
    intro n p1 _
    apply Tri.bind
    apply Tri.mono Tri.any
    intro b p2 _
    cases hdd : st.data with
    | none => exact Tri.done hs
    | some d =>
      dsimp only
      apply Tri.bind
      apply Tri.mono Tri.any
      intro e p3 _
      split
      · apply Tri.bind
        apply Tri.mono Tri.any
        intro l p4 _
        exact Tri.done hs
      · exact Tri.fail
  split
  · apply Tri.bind
    apply Tri.mono Tri.any
    intro payload p1 _
    apply Tri.bind
    cases hvm : validateMoov (.bytes payload) with
    | panic site => exact Tri.panic
    | err e => exact Tri.fail
    | ok r =>
      apply Tri.done
      obtain ⟨d, n⟩ := r
      refine Tri.done ⟨hs.1, ?_⟩
      intro m hm
      simp only [Option.some.injEq] at hm
      subst hm
      exact validateMoov_serlen payload d n hvm
  split
  · exact skipArm_ser s kind st startPos header pos hs
  · apply Tri.bind
    apply Tri.mono Tri.any
    intro n p1 _
    apply Tri.bind
    apply Tri.mono Tri.any
    intro b p2 _
    exact Tri.fail

theorem scan_ser (cfg : Config) (fuel : Nat) (st : ScanState) (pos : Nat) (hs : SerOk st) :
    Tri (idealOps s kind) (scan cfg fuel st) pos (fun r _ => ∀ st', r = some st' → SerOk st') := by
  induction fuel generalizing st pos with
  | zero => exact Tri.done (by intro st' h; cases h)
  | succ n ih =>
    unfold scan
    apply Tri.isEof
    split
    · exact Tri.done (by intro st' h; cases h; exact hs)
    · apply Tri.bind
      unfold scanBox
      apply Tri.position
      apply Tri.bind
      apply Tri.mono Tri.any
      intro header p1 _
      apply Tri.mono (scanBody_ser s kind cfg st pos header p1 hs)
      intro st1 p2 h1
      exact ih st1 p2 h1


/-- a returned result is `finish` of a scan state whose kept boxes serialise consistently -/
theorem sanitizeP_ser (cfg : Config) (fuel : Nat) :
    Tri (idealOps s kind) (sanitizeP cfg fuel) 0
      (fun o _ => ∀ r, o = some r → ∃ st, SerOk st ∧ finish st = .ok r) := by
  unfold sanitizeP
  apply Tri.bind
  apply Tri.mono (scan_ser s kind cfg fuel {} 0 ⟨(by intro f h; cases h), (by intro m h; cases h)⟩)
  intro o p1 ho
  cases o with
  | none => exact Tri.done (by intro r h; cases h)
  | some st =>
    dsimp only
    apply Tri.bind
    apply Tri.mono Tri.any
    intro _ p2 _
    apply Tri.bind
    cases hfin : finish st with
    | panic site => exact Tri.panic
    | err e => exact Tri.fail
    | ok r =>
      apply Tri.done
      apply Tri.done
      intro r' hr'
      simp only [Option.some.injEq] at hr'
      subst hr'
      exact ⟨st, ho st rfl, hfin⟩

theorem sanitize_ser (cfg : Config) (r : Sanitized) (h : Mp4.sanitize s kind cfg = .ok r) :
    ∃ st, SerOk st ∧ finish st = .ok r := by
  have hs := sanitizeP_ser s kind cfg (fuelFor s)
  unfold Tri at hs
  simp only [Mp4.sanitize, Mp4.sanitizeWith, run_eq_runF] at h
  cases hr : (sanitizeP cfg (fuelFor s)).runF (idealOps s kind) 0 with
  | ok x =>
    obtain ⟨a, p⟩ := x
    rw [hr] at hs h
    cases a with
    | none => simp [Outcome.fst] at h
    | some r' =>
      simp only [Outcome.fst, Outcome.ok.injEq] at h
      subst h
      exact hs r' rfl
  | parseErr e => rw [hr] at h; simp [Outcome.fst] at h
  | ioErr k => rw [hr] at h; simp [Outcome.fst] at h
  | panic site => rw [hr] at h; simp [Outcome.fst] at h
  | outOfFuel => rw [hr] at h; simp [Outcome.fst] at h

/-- the displaced tree serialises to as many bytes, and reports the same `encoded_len` -/
theorem displaceMoov_len (disp : Int) (d d' : Data L5) (h : displaceMoov disp d = .ok d') :
    (d'.ser ser5).length = (d.ser ser5).length ∧ d'.len ser5 = d.len ser5 := by
  unfold displaceMoov at h
  simp only [bind] at h
  cases hm : d.modify parseMoov (forTraks (displaceCo disp)) with
  | ok r =>
    obtain ⟨d1, u⟩ := r
    rw [hm] at h
    simp only [pure, PureRes.ok.injEq] at h
    subst h
    refine modify_pres congr_len ser5 parseMoov _ rt_moov (forTraks_pres congr_len _ ?_) _ d1 u hm
    intro c c' a hc
    unfold displaceCo at hc
    cases he : displaceEntries c.width disp c.entries.length c.entries with
    | ok e =>
      rw [he] at hc
      simp only [PureRes.ok.injEq, Prod.mk.injEq] at hc
      obtain ⟨rfl, _⟩ := hc
      have := displaceEntries_length _ _ _ _ _ he
      simp [coSer, this]
    | err e => rw [he] at hc; cases hc
    | panic m => rw [he] at hc; cases hc
  | err e => rw [hm] at h; cases h
  | panic m => rw [hm] at h; cases h

end
end MediaSan.Mp4
