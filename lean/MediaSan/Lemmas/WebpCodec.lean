import MediaSan.Webp.Prim
namespace MediaSan.Webp
open MediaSan

theorem reverse_eq_self_of_length_le_one {α} (l : List α) (h : l.length ≤ 1) : l.reverse = l := by
  match l, h with
  | [], _ => rfl
  | [_], _ => rfl
  | _ :: _ :: _, h => simp at h

theorem ofNatE_short (e e' : Endian) (n v : Nat) (h : n ≤ 1) : ofNatE e n v = ofNatE e' n v := by
  have hr : (natToLE n v).reverse = natToLE n v :=
    reverse_eq_self_of_length_le_one _ (by simp; exact h)
  cases e <;> cases e' <;> simp [ofNatE, natToBE, hr]

theorem toNatE_short (e e' : Endian) (bs : Bytes) (h : bs.length ≤ 1) : toNatE e bs = toNatE e' bs := by
  have hr : bs.reverse = bs := reverse_eq_self_of_length_le_one _ h
  cases e <;> cases e' <;> simp [toNatE, beToNat, hr]

theorem toNatE_ofNatE_coh (c : IntCodec) (hc : c.Coherent) (v : Nat) (hv : v < 256 ^ c.bytes) :
    toNatE c.get (ofNatE c.put c.bytes v) = v := by
  rcases hc with h | h
  · rw [h]; exact toNatE_ofNatE _ _ _ hv
  · rw [toNatE_short c.get c.put _ (by simp; exact h)]; exact toNatE_ofNatE _ _ _ hv

theorem ofNatE_toNatE_coh (c : IntCodec) (hc : c.Coherent) (bs : Bytes) (hl : bs.length = c.bytes) :
    ofNatE c.put c.bytes (toNatE c.get bs) = bs := by
  rcases hc with h | h
  · rw [h, ← hl]; exact ofNatE_toNatE _ _
  · rw [toNatE_short c.get c.put _ (by omega), ← hl]; exact ofNatE_toNatE _ _

theorem take_append_of_length {α} (a b : List α) (n : Nat) (h : a.length = n) : (a ++ b).take n = a := by
  subst h; simp

theorem drop_append_of_length {α} (a b : List α) (n : Nat) (h : a.length = n) : (a ++ b).drop n = b := by
  subst h; simp

theorem parseReserved_replicate (n : Nat) (rest : Bytes) :
    parseReserved n (List.replicate n 0 ++ rest) = .ok rest := by
  induction n with
  | zero => simp [parseReserved]
  | succ n ih => simp [List.replicate_succ, parseReserved, ih]

theorem parseReserved_ok (n : Nat) (bs rest : Bytes) (h : parseReserved n bs = .ok rest) :
    bs = List.replicate n 0 ++ rest := by
  induction n generalizing bs with
  | zero => simp [parseReserved] at h; simp [h]
  | succ n ih =>
    cases bs with
    | nil => simp [parseReserved] at h
    | cons b bs =>
      simp only [parseReserved] at h
      split at h
      · rename_i hb
        rw [ih bs h, hb]; simp [List.replicate_succ]
      · simp at h

/-- never a panic when the buffer holds at least `n` bytes (the callers' guarantee) -/
theorem parseReserved_no_panic (n : Nat) (bs : Bytes) (h : n ≤ bs.length) :
    parseReserved n bs ≠ .error .panic := by
  induction n generalizing bs with
  | zero => simp [parseReserved]
  | succ n ih =>
    cases bs with
    | nil => simp at h
    | cons b bs =>
      simp only [parseReserved]
      split
      · exact ih bs (by simp at h; omega)
      · simp

/-- a non-zero reserved byte is an error (InvalidInput), given the length guarantee -/
theorem parseReserved_nonzero (n : Nat) (bs : Bytes) (h : n ≤ bs.length)
    (hnz : ∃ b ∈ bs.take n, b ≠ 0) : parseReserved n bs = .error .invalidInput := by
  induction n generalizing bs with
  | zero => simp at hnz
  | succ n ih =>
    cases bs with
    | nil => simp at h
    | cons b bs =>
      simp only [parseReserved]
      split
      · rename_i hb
        apply ih bs (by simp at h; omega)
        obtain ⟨x, hx, hx0⟩ := hnz
        simp only [List.take_succ_cons, List.mem_cons] at hx
        rcases hx with rfl | hx
        · exact absurd hb hx0
        · exact ⟨x, hx, hx0⟩
      · rfl

theorem parseField_putField (t : FieldTy) (ht : t.Coherent) (v : Nat) (hv : t.WF v) (rest : Bytes) :
    parseField t (putField t v ++ rest) = .ok (v, rest) := by
  cases t with
  | int c =>
    simp only [FieldTy.WF] at hv
    simp only [parseField, putField, List.length_append, ofNatE_length]
    rw [if_neg (by omega), take_append_of_length _ _ _ (by simp), drop_append_of_length _ _ _ (by simp),
      toNatE_ofNatE_coh c ht v hv]
  | oneBased c =>
    simp only [FieldTy.WF] at hv
    obtain ⟨hc, hb⟩ := ht
    simp only [parseField, putField, List.length_append, ofNatE_length]
    rw [if_neg (by omega), take_append_of_length _ _ _ (by simp), drop_append_of_length _ _ _ (by simp),
      toNatE_ofNatE_coh c hc (v - 1) (by omega)]
    have : min (1 + (v - 1)) u32Max = v := by
      have : 1 + (v - 1) = v := by omega
      rw [this]; exact Nat.min_eq_left (by omega)
    rw [this]
  | reserved n =>
    simp only [FieldTy.WF] at hv
    simp only [parseField, putField, parseReserved_replicate, hv]
  | flags c mask =>
    simp only [FieldTy.WF] at hv
    have e1 : (ofNatE c.put c.bytes v ++ rest).take c.bytes = ofNatE c.put c.bytes v :=
      take_append_of_length _ _ _ (by simp)
    have e2 : (ofNatE c.put c.bytes v ++ rest).drop c.bytes = rest :=
      drop_append_of_length _ _ _ (by simp)
    have e3 := toNatE_ofNatE_coh c ht v hv.1
    have e4 : ¬ (c.bytes + rest.length < c.bytes) := by omega
    simp only [parseField, putField, List.length_append, ofNatE_length, e1, e2, e3, e4, hv.2, if_true, if_false]

theorem parseField_ok (t : FieldTy) (ht : t.Coherent) (bs : Bytes) (v : Nat) (rest : Bytes)
    (h : parseField t bs = .ok (v, rest)) : putField t v ++ rest = bs ∧ t.WF v := by
  cases t with
  | int c =>
    simp only [parseField] at h
    split at h
    · simp at h
    · rename_i hl
      simp only [Except.ok.injEq, Prod.mk.injEq] at h
      obtain ⟨hv, hr⟩ := h
      have hlen : (bs.take c.bytes).length = c.bytes := by simp; omega
      constructor
      · simp only [putField]
        rw [← hv, ofNatE_toNatE_coh c ht _ hlen, ← hr, List.take_append_drop]
      · simp only [FieldTy.WF]; rw [← hv]
        have := toNatE_lt c.get (bs.take c.bytes); rwa [hlen] at this
  | oneBased c =>
    obtain ⟨hc, hb⟩ := ht
    simp only [parseField] at h
    split at h
    · simp at h
    · rename_i hl
      simp only [Except.ok.injEq, Prod.mk.injEq] at h
      obtain ⟨hv, hr⟩ := h
      have hlen : (bs.take c.bytes).length = c.bytes := by simp; omega
      have hlt := toNatE_lt c.get (bs.take c.bytes); rw [hlen] at hlt
      have hmin : min (1 + toNatE c.get (bs.take c.bytes)) u32Max = 1 + toNatE c.get (bs.take c.bytes) :=
        Nat.min_eq_left (by omega)
      rw [hmin] at hv
      constructor
      · simp only [putField]
        have : v - 1 = toNatE c.get (bs.take c.bytes) := by omega
        rw [this, ofNatE_toNatE_coh c hc _ hlen, ← hr, List.take_append_drop]
      · simp only [FieldTy.WF]; omega
  | reserved n =>
    simp only [parseField] at h
    split at h
    · rename_i r hr
      simp only [Except.ok.injEq, Prod.mk.injEq] at h
      obtain ⟨hv, hrest⟩ := h
      subst hrest
      constructor
      · simp only [putField]; exact (parseReserved_ok n bs r hr).symm
      · simp only [FieldTy.WF]; exact hv.symm
    · simp at h
  | flags c mask =>
    simp only [parseField] at h
    split at h
    · simp at h
    · rename_i hl
      split at h
      · rename_i hm
        simp only [Except.ok.injEq, Prod.mk.injEq] at h
        obtain ⟨hv, hr⟩ := h
        have hlen : (bs.take c.bytes).length = c.bytes := by simp; omega
        constructor
        · simp only [putField]
          rw [← hv, ofNatE_toNatE_coh c ht _ hlen, ← hr, List.take_append_drop]
        · simp only [FieldTy.WF]; rw [← hv]
          refine ⟨?_, hm⟩
          have := toNatE_lt c.get (bs.take c.bytes); rwa [hlen] at this
      · simp at h

def AllCoherent (ts : List FieldTy) : Prop := ∀ t ∈ ts, t.Coherent

theorem parseFields_putFields (ts : List FieldTy) (hc : AllCoherent ts) (vs : List Nat) (hv : WFs ts vs)
    (rest : Bytes) : parseFields ts (putFields ts vs ++ rest) = .ok (vs, rest) := by
  induction ts generalizing vs with
  | nil =>
    cases vs with
    | nil => simp [parseFields, putFields]
    | cons _ _ => simp [WFs] at hv
  | cons t ts ih =>
    cases vs with
    | nil => simp [WFs] at hv
    | cons v vs =>
      simp only [WFs] at hv
      simp only [putFields, parseFields, List.append_assoc]
      rw [parseField_putField t (hc t (by simp)) v hv.1]
      simp only
      rw [ih (fun t' h' => hc t' (by simp [h'])) vs hv.2]

theorem parseFields_ok (ts : List FieldTy) (hc : AllCoherent ts) (bs : Bytes) (vs : List Nat) (rest : Bytes)
    (h : parseFields ts bs = .ok (vs, rest)) : putFields ts vs ++ rest = bs ∧ WFs ts vs := by
  induction ts generalizing bs vs rest with
  | nil =>
    simp only [parseFields, Except.ok.injEq, Prod.mk.injEq] at h
    obtain ⟨h1, h2⟩ := h
    subst h1 h2
    simp [putFields, WFs]
  | cons t ts ih =>
    simp only [parseFields] at h
    split at h
    · simp at h
    · rename_i v r hf
      split at h
      · simp at h
      · rename_i vs' rest' hfs
        simp only [Except.ok.injEq, Prod.mk.injEq] at h
        obtain ⟨h1, h2⟩ := h
        subst h1 h2
        have ⟨e1, w1⟩ := parseField_ok t (hc t (by simp)) bs v r hf
        have ⟨e2, w2⟩ := ih (fun t' h' => hc t' (by simp [h'])) r vs' rest' hfs
        constructor
        · simp only [putFields, List.append_assoc]; rw [e2, e1]
        · exact ⟨w1, w2⟩

end MediaSan.Webp

namespace MediaSan.Webp
open MediaSan

instance (ts : List FieldTy) : Decidable (AllCoherent ts) := by unfold AllCoherent; infer_instance

theorem parseReserved_length (n : Nat) (bs rest : Bytes) (h : parseReserved n bs = .ok rest) :
    rest.length + n = bs.length := by
  have := parseReserved_ok n bs rest h
  rw [this]; simp; omega

theorem parseField_rest_length (t : FieldTy) (bs : Bytes) (v : Nat) (rest : Bytes)
    (h : parseField t bs = .ok (v, rest)) : rest.length + t.encodedLen = bs.length := by
  cases t with
  | int c =>
    simp only [parseField] at h
    split at h
    · simp at h
    · simp only [Except.ok.injEq, Prod.mk.injEq] at h
      rw [← h.2]; simp [FieldTy.encodedLen]; omega
  | oneBased c =>
    simp only [parseField] at h
    split at h
    · simp at h
    · simp only [Except.ok.injEq, Prod.mk.injEq] at h
      rw [← h.2]; simp [FieldTy.encodedLen]; omega
  | reserved n =>
    simp only [parseField] at h
    split at h
    · rename_i r hr
      simp only [Except.ok.injEq, Prod.mk.injEq] at h
      rw [← h.2]; simp only [FieldTy.encodedLen]; exact parseReserved_length n bs r hr
    · simp at h
  | flags c mask =>
    simp only [parseField] at h
    split at h
    · simp at h
    · split at h
      · simp only [Except.ok.injEq, Prod.mk.injEq] at h
        rw [← h.2]; simp [FieldTy.encodedLen]; omega
      · simp at h

theorem parseField_no_panic (t : FieldTy) (bs : Bytes) (h : t.encodedLen ≤ bs.length) :
    parseField t bs ≠ .error .panic := by
  cases t with
  | int c => simp only [parseField]; split <;> simp
  | oneBased c => simp only [parseField]; split <;> simp
  | reserved n =>
    simp only [parseField]
    have := parseReserved_no_panic n bs h
    split
    · simp
    · rename_i e he; intro hc; simp only [Except.error.injEq] at hc; rw [hc] at he; exact this he
  | flags c mask =>
    simp only [parseField]; split
    · simp
    · split <;> simp

/-- With at least `ENCODED_LEN` bytes in the buffer (what every caller in webpsan guarantees via
    `read_data(T::ENCODED_LEN)`), parsing a chunk never panics. -/
theorem parseFields_no_panic (ts : List FieldTy) (bs : Bytes)
    (h : (ts.map FieldTy.encodedLen).sum ≤ bs.length) : parseFields ts bs ≠ .error .panic := by
  induction ts generalizing bs with
  | nil => simp [parseFields]
  | cons t ts ih =>
    simp only [List.map_cons, List.sum_cons] at h
    simp only [parseFields]
    split
    · rename_i e he
      intro hc; simp only [Except.error.injEq] at hc; rw [hc] at he
      exact parseField_no_panic t bs (by omega) he
    · rename_i v r hf
      have hl := parseField_rest_length t bs v r hf
      have := ih r (by omega)
      split
      · rename_i e he; intro hc; simp only [Except.error.injEq] at hc; rw [hc] at he; exact this he
      · simp

end MediaSan.Webp
