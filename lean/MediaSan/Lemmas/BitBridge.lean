/-
  The whole-string reader of the C19 theorems (`idealStep`, over byte lists) IS the bit reader the validator model
  runs on (`readBits` / `readSym` of Vp8l/Bits.lean and Huffman.lean, over `ByteArray`): same values, same positions,
  end of data as `truncated` - for every byte string and position, and for every finalized (complete) code.
-/
import MediaSan.Vp8l.BitTrace
import MediaSan.Lemmas.Vp8lSafe
namespace MediaSan.Vp8l
open MediaSan

theorem bitAt_eq_bitAtL (l : Bytes) (i : Nat) : bitAt (ByteArray.mk l.toArray) i = bitAtL l i := by
  unfold bitAt bitAtL
  by_cases h : i / 8 < l.length
  · have hs : i / 8 < (ByteArray.mk l.toArray).size := by simpa [ByteArray.size] using h
    rw [if_pos hs]
    have : (ByteArray.mk l.toArray).get! (i / 8) = l[i / 8] := by
      simp [ByteArray.get!, getElem!_pos, h]
    rw [this, List.getElem?_eq_getElem h]
  · have hs : ¬ i / 8 < (ByteArray.mk l.toArray).size := by simpa [ByteArray.size] using h
    rw [if_neg hs, List.getElem?_eq_none (by omega)]

theorem readBitsAux_eq (l : Bytes) (n k acc p : Nat) :
    readBitsAux (ByteArray.mk l.toArray) n k acc p =
      match bufReadAux l n k acc p with
      | some v => .ok (v, p + n)
      | none => .error .truncated := by
  induction n generalizing k acc p with
  | zero => simp [readBitsAux, bufReadAux]
  | succ n ih =>
    simp only [readBitsAux, bufReadAux, bitAt_eq_bitAtL]
    cases bitAtL l p with
    | none => rfl
    | some v =>
      simp only
      rw [ih]
      have : p + 1 + n = p + (n + 1) := by omega
      rw [this]

/-- fixed-width fields -/
theorem readBits_eq_idealStep (l : Bytes) (n p : Nat) :
    readBits n (ByteArray.mk l.toArray) p =
      match idealStep l p (.read n) with
      | some r => .ok r
      | none => .error .truncated := by
  simp only [readBits, idealStep, readBitsAux_eq]
  cases bufReadAux l n 0 0 p <;> rfl

theorem decodeSym_eq (l : Bytes) (t : HTree) (hc : t.complete = true) (fuel p : Nat) (hf : t.height < fuel) :
    decodeSym (ByteArray.mk l.toArray) t fuel p =
      match bufDecode l t fuel p with
      | some r => .ok r
      | none => .error .truncated := by
  induction t generalizing fuel p with
  | empty => simp [HTree.complete] at hc
  | leaf s => simp [decodeSym, bufDecode]
  | node z o ihz iho =>
    simp only [HTree.complete, Bool.and_eq_true] at hc
    simp only [HTree.height] at hf
    cases fuel with
    | zero => omega
    | succ f =>
      simp only [decodeSym, bufDecode, bitAt_eq_bitAtL]
      cases bitAtL l p with
      | none => rfl
      | some v =>
        simp only
        cases v
        · exact ihz hc.1 f (p + 1) (by omega)
        · exact iho hc.2 f (p + 1) (by omega)

/-- prefix-coded symbols, for every finalized code -/
theorem readSym_eq_idealStep (l : Bytes) (c : Code) (hc : c.tree.complete = true) (p : Nat) :
    readSym c (ByteArray.mk l.toArray) p =
      match idealStep l p (.sym c) with
      | some r => .ok r
      | none => .error .truncated := by
  simp only [readSym, idealStep]
  exact decodeSym_eq l c.tree hc _ p (by omega)

end MediaSan.Vp8l
