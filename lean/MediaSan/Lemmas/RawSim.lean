/-
  Lifting a simulation between two raw inputs through `BufReader` (`bufOps`), with an optional "escape" for
  `stream_len` (used by C12, where one adapter's `poll_stream_len` is not restartable), and the matching
  parametricity theorem `run_sim_unless`.
-/
import MediaSan.Lemmas.Prog
import MediaSan.Async
namespace MediaSan
open MediaSan

/-- simulation between raw inputs; `len` may instead put the second input into a `bad` state -/
structure RawSimU {ρ₁ ρ₂} (r₁ : RawOps ρ₁) (r₂ : RawOps ρ₂) (R : ρ₁ → ρ₂ → Prop) (bad : ρ₂ → Bool) : Prop where
  read : ∀ a b n, R a b → RelRes R (r₁.read a n) (r₂.read b n)
  skip : ∀ a b n, R a b → RelSt R (r₁.skip a n) (r₂.skip b n)
  position : ∀ a b, R a b → RelRes R (r₁.position a) (r₂.position b)
  len : ∀ a b, R a b → RelRes R (r₁.len a) (r₂.len b) ∨ ∃ v b', r₂.len b = .ok (v, b') ∧ bad b' = true

structure SimU {σ₁ σ₂} (o₁ : CursorOps σ₁) (o₂ : CursorOps σ₂) (R : σ₁ → σ₂ → Prop) (bad : σ₂ → Bool) : Prop where
  isEof : ∀ a b, R a b → RelRes R (o₁.isEof a) (o₂.isEof b)
  position : ∀ a b, R a b → RelRes R (o₁.position a) (o₂.position b)
  streamLen : ∀ a b, R a b → RelRes R (o₁.streamLen a) (o₂.streamLen b) ∨ ∃ v b', o₂.streamLen b = .ok (v, b') ∧ bad b' = true
  readExact : ∀ a b n, R a b → RelRes R (o₁.readExact a n) (o₂.readExact b n)
  skip : ∀ a b n, R a b → RelSt R (o₁.skip a n) (o₂.skip b n)
  readUpTo : ∀ a b n, R a b → RelRes R (o₁.readUpTo a n) (o₂.readUpTo b n)

theorem SimU.toSim {σ₁ σ₂} {o₁ : CursorOps σ₁} {o₂ : CursorOps σ₂} {R : σ₁ → σ₂ → Prop}
    (h : SimU o₁ o₂ R (fun _ => false)) : Sim o₁ o₂ R where
  isEof := h.isEof
  position := h.position
  streamLen a b r := by
    rcases h.streamLen a b r with h1 | ⟨_, _, _, h2⟩
    · exact h1
    · cases h2
  readExact := h.readExact
  skip := h.skip
  readUpTo := h.readUpTo

/-- Parametricity with an escape: the outcomes agree, or the second run passed through a bad state. -/
theorem run_sim_unless {E α σ₁ σ₂} {o₁ : CursorOps σ₁} {o₂ : CursorOps σ₂} {R : σ₁ → σ₂ → Prop} {bad : σ₂ → Bool}
    (sim : SimU o₁ o₂ R bad) (p : Prog E α) (a : σ₁) (b : σ₂) (h : R a b) :
    p.run o₁ a = p.run o₂ b ∨ p.everBad o₂ bad b = true := by
  induction p generalizing a b with
  | done x => left; rfl
  | fail e => left; rfl
  | panic s => left; rfl
  | isEof k ih =>
    simp only [Prog.run, Prog.everBad]
    rcases relRes_cases (sim.isEof a b h) with ⟨v, a', b', h1, h2, hr⟩ | ⟨e, h1, h2⟩
    · rw [h1, h2]
      rcases ih _ _ _ hr with h3 | h3
      · left; exact h3
      · right; simp only [h3, Bool.or_true]
    · rw [h1, h2]; left; rfl
  | position k ih =>
    simp only [Prog.run, Prog.everBad]
    rcases relRes_cases (sim.position a b h) with ⟨v, a', b', h1, h2, hr⟩ | ⟨e, h1, h2⟩
    · rw [h1, h2]
      rcases ih _ _ _ hr with h3 | h3
      · left; exact h3
      · right; simp only [h3, Bool.or_true]
    · rw [h1, h2]; left; rfl
  | streamLen k ih =>
    simp only [Prog.run, Prog.everBad]
    rcases sim.streamLen a b h with hs | ⟨v, b', h2, hb⟩
    · rcases relRes_cases hs with ⟨v, a', b', h1, h2, hr⟩ | ⟨e, h1, h2⟩
      · rw [h1, h2]
        rcases ih _ _ _ hr with h3 | h3
        · left; exact h3
        · right; simp only [h3, Bool.or_true]
      · rw [h1, h2]; left; rfl
    · right
      rw [h2]
      have : (k v).everBad o₂ bad b' = true := by
        cases hk : k v <;> simp only [Prog.everBad, hb, Bool.true_or]
      simp only [this, Bool.or_true]
  | readExact m eof k ih =>
    simp only [Prog.run, Prog.everBad]
    rcases relRes_cases (sim.readExact a b m h) with ⟨v, a', b', h1, h2, hr⟩ | ⟨e, h1, h2⟩
    · rw [h1, h2]
      rcases ih _ _ _ hr with h3 | h3
      · left; exact h3
      · right; simp only [h3, Bool.or_true]
    · rw [h1, h2]; left; rfl
  | skip m eof k ih =>
    simp only [Prog.run, Prog.everBad]
    rcases relSt_cases (sim.skip a b m h) with ⟨a', b', h1, h2, hr⟩ | ⟨e, h1, h2⟩
    · rw [h1, h2]
      rcases ih _ _ _ hr with h3 | h3
      · left; exact h3
      · right; simp only [h3, Bool.or_true]
    · rw [h1, h2]; left; rfl
  | readUpTo m k ih =>
    simp only [Prog.run, Prog.everBad]
    rcases relRes_cases (sim.readUpTo a b m h) with ⟨v, a', b', h1, h2, hr⟩ | ⟨e, h1, h2⟩
    · rw [h1, h2]
      rcases ih _ _ _ hr with h3 | h3
      · left; exact h3
      · right; simp only [h3, Bool.or_true]
    · rw [h1, h2]; left; rfl

/-! ### lifting through `BufReader` -/

section Lift
variable {ρ₁ ρ₂ : Type} {r₁ : RawOps ρ₁} {r₂ : RawOps ρ₂} {R : ρ₁ → ρ₂ → Prop} {bad : ρ₂ → Bool}

def BufR (R : ρ₁ → ρ₂ → Prop) (a : BufState ρ₁) (b : BufState ρ₂) : Prop := R a.inner b.inner ∧ a.buf = b.buf

theorem bufReadLoop_lift (sim : RawSimU r₁ r₂ R bad) (cap : Nat) (exact : Bool) (fuel : Nat)
    (a : BufState ρ₁) (b : BufState ρ₂) (need : Nat) (acc : Bytes) (h : BufR R a b) :
    RelRes (BufR R) (bufReadLoop r₁ cap exact fuel a need acc) (bufReadLoop r₂ cap exact fuel b need acc) := by
  induction fuel generalizing a b need acc with
  | zero =>
    simp only [bufReadLoop]
    split
    · exact ⟨rfl, h⟩
    · rfl
  | succ n ih =>
    obtain ⟨ai, abuf⟩ := a
    obtain ⟨bi, bbuf⟩ := b
    obtain ⟨hR, hb⟩ := h
    dsimp only at hR hb
    subst hb
    simp only [bufReadLoop]
    by_cases h0 : need = 0
    · simp only [h0, if_true]; exact ⟨rfl, hR, rfl⟩
    simp only [h0, if_false]
    by_cases h1 : abuf.isEmpty = true ∧ cap ≤ need
    · simp only [h1, and_self, if_true]
      rcases relRes_cases (sim.read ai bi need hR) with ⟨v, a', b', e1, e2, hr⟩ | ⟨e, e1, e2⟩
      · rw [e1, e2]; dsimp only
        split
        · split
          · rfl
          · exact ⟨rfl, hr, rfl⟩
        · exact ih _ _ _ _ ⟨hr, rfl⟩
      · rw [e1, e2]; rfl
    · simp only [h1, if_false]
      by_cases h2 : abuf.isEmpty = true
      · simp only [h2, if_true]
        rcases relRes_cases (sim.read ai bi cap hR) with ⟨v, a', b', e1, e2, hr⟩ | ⟨e, e1, e2⟩
        · rw [e1, e2]; dsimp only
          split
          · split
            · rfl
            · exact ⟨rfl, hr, rfl⟩
          · exact ih _ _ _ _ ⟨hr, rfl⟩
        · rw [e1, e2]; rfl
      · have h4 : abuf.isEmpty = false := by simpa using h2
        simp only [h4, Bool.false_eq_true, if_false]
        exact ih _ _ _ _ ⟨hR, rfl⟩

theorem bufOps_lift (sim : RawSimU r₁ r₂ R bad) (cap : Nat) :
    SimU (bufOps cap r₁) (bufOps cap r₂) (BufR R) (fun b => bad b.inner) where
  isEof a b h := by
    obtain ⟨hR, hb⟩ := h
    simp only [bufOps, ← hb]
    split
    · exact ⟨rfl, hR, hb⟩
    · rcases relRes_cases (sim.read a.inner b.inner cap hR) with ⟨v, a', b', e1, e2, hr⟩ | ⟨e, e1, e2⟩
      · rw [e1, e2]; exact ⟨rfl, hr, rfl⟩
      · rw [e1, e2]; rfl
  position a b h := by
    obtain ⟨hR, hb⟩ := h
    simp only [bufOps, ← hb]
    rcases relRes_cases (sim.position a.inner b.inner hR) with ⟨v, a', b', e1, e2, hr⟩ | ⟨e, e1, e2⟩
    · rw [e1, e2]; exact ⟨rfl, hr, rfl⟩
    · rw [e1, e2]; rfl
  streamLen a b h := by
    obtain ⟨hR, hb⟩ := h
    simp only [bufOps, ← hb]
    rcases sim.len a.inner b.inner hR with hs | ⟨v, b', e2, hbad⟩
    · left
      rcases relRes_cases hs with ⟨v, a', b', e1, e2, hr⟩ | ⟨e, e1, e2⟩
      · rw [e1, e2]; exact ⟨rfl, hr, rfl⟩
      · rw [e1, e2]; rfl
    · right
      rw [e2]; exact ⟨v, _, rfl, hbad⟩
  readExact a b n h := bufReadLoop_lift sim cap true (n + 1) a b n [] h
  readUpTo a b n h := bufReadLoop_lift sim cap false (n + 1) a b n [] h
  skip a b n h := by
    obtain ⟨hR, hb⟩ := h
    simp only [bufOps, ← hb]
    split
    · split
      · rcases relSt_cases (sim.skip a.inner b.inner (n - a.buf.length) hR) with ⟨a', b', e1, e2, hr⟩ | ⟨e, e1, e2⟩
        · rw [e1, e2]; exact ⟨hr, rfl⟩
        · rw [e1, e2]; rfl
      · exact ⟨hR, rfl⟩
    · exact ⟨hR, rfl⟩

end Lift
end MediaSan
