/-
  C10 lemmas: which reads the MP4 sanitizer program can issue at all (`MaxRead`, `ReadFree`), the accounting of
  physical reads against logical consumption through `BufReader`, and generic non-interference.
-/
import MediaSan.Meter
import MediaSan.Lemmas.Prog
import MediaSan.Mp4.Sanitize
namespace MediaSan
open MediaSan

theorem ReadFree.bind {E α β} {p : Prog E α} {f : α → Prog E β} (hp : ReadFree p) (hf : ∀ a, ReadFree (f a)) :
    ReadFree (p.bind f) := by
  induction hp with
  | done a => exact hf a
  | fail e => exact .fail e
  | panic s => exact .panic s
  | position _ ih => exact .position ih
  | streamLen _ ih => exact .streamLen ih
  | skip n eof _ ih => exact .skip n eof ih

theorem MaxRead.bind {E α β} {L : Nat} {p : Prog E α} {f : α → Prog E β} (hp : MaxRead L p) (hf : ∀ a, MaxRead L (f a)) :
    MaxRead L (p.bind f) := by
  induction hp with
  | done a => exact hf a
  | fail e => exact .fail e
  | panic s => exact .panic s
  | isEof _ ih => exact .isEof ih
  | position _ ih => exact .position ih
  | streamLen _ ih => exact .streamLen ih
  | skip n eof _ ih => exact .skip n eof ih
  | readExact n eof hn _ ih => exact .readExact n eof hn ih

theorem MaxRead.mono {E α} {L L' : Nat} (h : L ≤ L') {p : Prog E α} (hp : MaxRead L p) : MaxRead L' p := by
  induction hp with
  | done a => exact .done a
  | fail e => exact .fail e
  | panic s => exact .panic s
  | isEof _ ih => exact .isEof ih
  | position _ ih => exact .position ih
  | streamLen _ ih => exact .streamLen ih
  | skip n eof _ ih => exact .skip n eof ih
  | readExact n eof hn _ ih => exact .readExact n eof (by omega) ih

theorem ReadFree.maxRead {E α} {p : Prog E α} (hp : ReadFree p) : MaxRead 0 p := by
  induction hp with
  | done a => exact .done a
  | fail e => exact .fail e
  | panic s => exact .panic s
  | position _ ih => exact .position ih
  | streamLen _ ih => exact .streamLen ih
  | skip n eof _ ih => exact .skip n eof ih

namespace Mp4

theorem liftPure_readFree {α} (r : PureRes α) : ReadFree (liftPure r) := by
  cases r <;> simp only [liftPure] <;> constructor

theorem addU64_readFree (s : String) (a b : Nat) : ReadFree (addU64 s a b) := by
  unfold addU64; split <;> constructor

theorem subU64_readFree (s : String) (a b : Nat) : ReadFree (subU64 s a b) := by
  unfold subU64; split <;> constructor

theorem boxDataSize_readFree (h : BoxHeader) : ReadFree (boxDataSize h) := by
  unfold boxDataSize
  split
  · exact .fail _
  · exact .done _
  · exact .streamLen fun l => .position fun p => subU64_readFree _ _ _

theorem skipBox_readFree (h : BoxHeader) : ReadFree (skipBox h) := by
  unfold skipBox
  exact ReadFree.bind (boxDataSize_readFree h) fun n => .skip n _ fun _ => .done n

theorem extendData_readFree (d : Option Span) (a b : Nat) : ReadFree (extendData d a b) := by
  unfold extendData
  split
  · exact .done _
  · refine ReadFree.bind (addU64_readFree _ _ _) fun e => ?_
    split
    · exact ReadFree.bind (addU64_readFree _ _ _) fun l => .done _
    · exact .done _

theorem readFree_ite {α} (c : Prop) [Decidable c] {a b : P α} (h1 : c → ReadFree a) (h2 : ¬ c → ReadFree b) :
    ReadFree (if c then a else b) := by
  by_cases h : c
  · simp only [h, if_true]; exact h1 h
  · simp only [h, if_false]; exact h2 h

/-- Media is never inspected: for every box that is neither `ftyp` nor `moov` — mdat, free, skip, meta, meco and
    anything unknown — what the sanitizer does after the header contains no read at all: only position/length
    queries and one skip. -/
theorem scanBody_readFree (cfg : Config) (st : ScanState) (startPos : Nat) (header : BoxHeader)
    (hf : header.ty ≠ FTYP) (hm : header.ty ≠ MOOV) : ReadFree (scanBody cfg st startPos header) := by
  unfold scanBody
  dsimp only
  apply readFree_ite
  · intro _
    exact ReadFree.bind (skipBox_readFree _) fun n => ReadFree.bind (addU64_readFree _ _ _) fun b =>
      ReadFree.bind (extendData_readFree _ _ _) fun d => .done _
  intro _
  apply readFree_ite
  · intro h; exact absurd h hf
  intro _
  apply readFree_ite
  · intro _; exact .fail _
  intro _
  apply readFree_ite
  · intro _
    refine ReadFree.bind (skipBox_readFree _) fun n => ReadFree.bind (addU64_readFree _ _ _) fun b => ?_
    split
    · refine ReadFree.bind (addU64_readFree _ _ _) fun e => ?_
      apply readFree_ite
      · intro _; exact ReadFree.bind (addU64_readFree _ _ _) fun l => .done _
      · intro _; exact .fail _
    · exact .done _
  intro _
  apply readFree_ite
  · intro h; exact absurd h hm
  intro _
  apply readFree_ite
  · intro _
    exact ReadFree.bind (skipBox_readFree _) fun n => ReadFree.bind (addU64_readFree _ _ _) fun b =>
      ReadFree.bind (extendData_readFree _ _ _) fun d => .done _
  · intro _
    exact ReadFree.bind (skipBox_readFree _) fun n => ReadFree.bind (addU64_readFree _ _ _) fun b => .fail _

theorem readHeader_maxRead : MaxRead 16 readHeader := by
  unfold readHeader
  refine .readExact 4 _ (by omega) fun szb => .readExact 4 _ (by omega) fun name => ?_
  dsimp only
  have tail : ∀ sz : BoxSize, MaxRead 16 (if name = uuidName then
      Prog.readExact 16 (some PErr.truncatedBox) fun u => (Prog.done ⟨BoxType.uuid u, sz⟩ : P BoxHeader)
      else Prog.done ⟨BoxType.fourcc name, sz⟩) := by
    intro sz
    split
    · exact .readExact 16 _ (by omega) fun u => .done _
    · exact .done _
  split
  · exact tail _
  · split
    · exact .readExact 8 _ (by omega) fun e => tail _
    · exact tail _

/-- `read_data` never asks for more than the limit -/
theorem readData_maxRead (h : BoxHeader) (L : Nat) : MaxRead L (readData h L) := by
  unfold readData
  refine MaxRead.bind ((boxDataSize_readFree h).maxRead.mono (by omega)) fun n => ?_
  by_cases hn : n ≤ L
  · simp only [hn, if_true]; exact .readExact n _ hn fun b => .done b
  · simp only [hn, if_false]; exact .fail _

theorem maxRead_ite {α} {L : Nat} (c : Prop) [Decidable c] {a b : P α} (h1 : c → MaxRead L a) (h2 : ¬ c → MaxRead L b) :
    MaxRead L (if c then a else b) := by
  by_cases h : c
  · simp only [h, if_true]; exact h1 h
  · simp only [h, if_false]; exact h2 h

/-- every single read request of one loop iteration is at most max(limit, 1024): the header (≤ 16 bytes at a
    time), the ftyp payload (≤ 1024) or a moov payload (≤ max_metadata_size) -/
theorem scanBox_maxRead (cfg : Config) (st : ScanState) :
    MaxRead (max cfg.maxMetadataSize 1024) (scanBox cfg st) := by
  unfold scanBox
  refine .position fun startPos => MaxRead.bind (readHeader_maxRead.mono (by omega)) fun header => ?_
  by_cases hf : header.ty = FTYP
  · unfold scanBody
    dsimp only
    apply maxRead_ite
    · intro _
      exact ((ReadFree.bind (skipBox_readFree _) fun n => ReadFree.bind (addU64_readFree _ _ _) fun b =>
        ReadFree.bind (extendData_readFree _ _ _) fun d => .done _).maxRead).mono (by omega)
    intro _
    simp only [hf, if_true]
    split
    · exact .fail _
    · refine MaxRead.bind ((readData_maxRead header maxFtypSize).mono (by unfold maxFtypSize; omega)) fun payload => ?_
      refine MaxRead.bind ((liftPure_readFree _).maxRead.mono (by omega)) fun f => ?_
      split
      · exact .done _
      · exact .fail _
  · by_cases hm : header.ty = MOOV
    · unfold scanBody
      dsimp only
      have h1 : ¬ (header.ty = FREE ∨ header.ty = SKIP) := by rw [hm]; decide
      have h4 : ¬ (header.ty = MDAT) := by rw [hm]; decide
      rw [if_neg h1, if_neg hf]
      by_cases hn : st.ftyp.isNone = true
      · rw [if_pos hn]; exact .fail _
      · rw [if_neg hn, if_neg h4, if_pos hm]
        refine MaxRead.bind ((readData_maxRead header cfg.maxMetadataSize).mono (by omega)) fun payload => ?_
        refine MaxRead.bind ((liftPure_readFree _).maxRead.mono (by omega)) fun r => ?_
        exact .done _
    · exact (scanBody_readFree cfg st startPos header hf hm).maxRead.mono (by omega)

theorem scan_maxRead (cfg : Config) (fuel : Nat) (st : ScanState) :
    MaxRead (max cfg.maxMetadataSize 1024) (scan cfg fuel st) := by
  induction fuel generalizing st with
  | zero => exact .done _
  | succ n ih =>
    unfold scan
    refine .isEof fun eof => ?_
    split
    · exact .done _
    · exact MaxRead.bind (scanBox_maxRead cfg st) fun st' => ih st'

theorem sanitizeP_maxRead (cfg : Config) (fuel : Nat) :
    MaxRead (max cfg.maxMetadataSize 1024) (sanitizeP cfg fuel) := by
  unfold sanitizeP
  refine MaxRead.bind (scan_maxRead cfg fuel {}) fun r => ?_
  cases r with
  | none => exact .done _
  | some st =>
    dsimp only
    refine MaxRead.bind ?_ fun _ => MaxRead.bind ((liftPure_readFree _).maxRead.mono (by omega)) fun r => .done _
    unfold checkEnd
    exact .position fun pos => .streamLen fun len => by split <;> constructor

end Mp4
end MediaSan
