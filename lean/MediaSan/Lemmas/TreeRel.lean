/-
  C05, the moov-tree clause: the model's lazily parsed box tree over a slice of the stream (Mp4/Tree.lean:
  `parseBoxes`, `getOneMut`, `forEachOfType`, `parseCo`) sees exactly what the independent walker sees in that
  region of the stream (`children`, `only`, `tableOf`, `moovTables` of Spec/Mp4Walk.lean).
-/
import MediaSan.Lemmas.MediaRun
import MediaSan.Lemmas.Slices
namespace MediaSan.Mp4
open MediaSan MediaSan.Spec.Mp4Walk MediaSan.Spec.Mp4Rules

section
variable (s : Stream)

/-- `BoxHeader::parse` on a slice of the stream has seen what `BoxHeader::read` sees there -/
theorem decode_read (off m : Nat) (h : BoxHeader) (rest : Bytes) (hd : decodeHeader (s.read off m) = some (h, rest)) :
    HdrAt s off h ∧ h.encodedLen ≤ m ∧ rest = s.read (off + h.encodedLen) (m - h.encodedLen) := by
  unfold decodeHeader at hd
  simp only [read_length] at hd
  split at hd
  · cases hd
  rename_i h8
  have h8' : 8 ≤ m := by omega
  rw [read_take s off m 4 (by omega), read_drop s off m 8, read_drop s off m 4, read_take s (off + 4) (m - 4) 4 (by omega)] at hd
  -- the tail, once the size is known
  have tail : ∀ (sz : BoxSize) (rest1 : Bytes) (used : Nat), used ≤ m → rest1 = s.read (off + used) (m - used) →
      used = 8 + (match sz with | .ext _ => 8 | _ => 0) →
      (match sz with
        | .untilEof => beToNat (s.read off 4) = 0
        | .ext n => beToNat (s.read off 4) = 1 ∧ n = beToNat (s.read (off + 8) 8)
        | .size n => beToNat (s.read off 4) = n ∧ n ≠ 0 ∧ n ≠ 1) →
      (if s.read (off + 4) 4 = uuidName then
          if rest1.length < 16 then none else some ((⟨BoxType.uuid (rest1.take 16), sz⟩ : BoxHeader), rest1.drop 16)
        else some (⟨BoxType.fourcc (s.read (off + 4) 4), sz⟩, rest1)) = some (h, rest) →
      HdrAt s off h ∧ h.encodedLen ≤ m ∧ rest = s.read (off + h.encodedLen) (m - h.encodedLen) := by
    intro sz rest1 used hu hr1 hused hsz hres
    split at hres
    · rename_i hn
      rw [hr1, read_length] at hres
      split at hres
      · cases hres
      · rename_i h16
        simp only [Option.some.injEq, Prod.mk.injEq] at hres
        obtain ⟨e1, e2⟩ := hres
        subst e1
        have hel : ({ ty := BoxType.uuid ((s.read (off + used) (m - used)).take 16), sz := sz } : BoxHeader).encodedLen = used + 16 := by
          simp only [BoxHeader.encodedLen]; cases sz <;> simp_all <;> omega
        refine ⟨⟨by simp only [name4]; exact hn.symm, trivial, hsz⟩, by rw [hel]; omega, ?_⟩
        rw [← e2, hel, read_drop]
        congr 1 <;> omega
    · rename_i hn
      simp only [Option.some.injEq, Prod.mk.injEq] at hres
      obtain ⟨e1, e2⟩ := hres
      subst e1
      have hel : ({ ty := BoxType.fourcc (s.read (off + 4) 4), sz := sz } : BoxHeader).encodedLen = used := by
        simp only [BoxHeader.encodedLen]; cases sz <;> simp_all
      refine ⟨⟨by simp only [name4], hn, hsz⟩, by rw [hel]; exact hu, ?_⟩
      rw [← e2, hel, hr1]
  by_cases h0 : beToNat (s.read off 4) = 0
  · simp only [h0, if_true] at hd
    exact tail .untilEof (s.read (off + 8) (m - 8)) 8 h8' rfl rfl h0 hd
  · simp only [h0, if_false] at hd
    by_cases h1 : beToNat (s.read off 4) = 1
    · simp only [h1, if_true, read_length] at hd
      by_cases hs : m - 8 < 8
      · simp [hs] at hd
      · simp only [hs, if_false] at hd
        rw [read_take s (off + 8) (m - 8) 8 (by omega), read_drop] at hd
        have e : off + 8 + 8 = off + 16 := by omega
        have e' : m - 8 - 8 = m - 16 := by omega
        rw [e, e'] at hd
        exact tail (.ext _) (s.read (off + 16) (m - 16)) 16 (by omega) rfl rfl ⟨h1, rfl⟩ hd
    · simp only [h1, if_false] at hd
      exact tail (.size _) (s.read (off + 8) (m - 8)) 8 h8' rfl rfl ⟨rfl, h0, h1⟩ hd

/-- the model's freshly parsed children `cs` (all still raw bytes) are the walker's boxes `bs` -/
def Corr {C : Type} : List (Box C) → List TopBox → Prop
  | [], [] => True
  | c :: cs, b :: bs =>
    name4 c.hdr = b.name ∧
    (match c.hdr.ty with
      | .fourcc x => x ≠ uuidName
      | .uuid _ => True) ∧
    c.data = .bytes (s.read b.payloadOff b.payloadLen) ∧ b.payloadOff ≤ b.endOff ∧ Corr cs bs
  | _, _ => False

/-- `Boxes::parse` over the slice [off, lim) of the stream walks exactly the walker's chain of boxes there -/
theorem parseBoxes_chain {C : Type} (fuel off lim : Nat) (cs : List (Box C)) (hfuel : lim - off ≤ fuel) (hle : off ≤ lim)
    (hp : parseBoxes fuel (s.read off (lim - off)) = .ok cs) :
    ∃ bs, Chain s lim none off lim bs ∧ Corr s cs bs := by
  induction fuel generalizing off cs with
  | zero =>
    simp only [parseBoxes, PureRes.ok.injEq] at hp
    subst hp
    exact ⟨[], by unfold Chain; omega, trivial⟩
  | succ f ih =>
    simp only [parseBoxes] at hp
    by_cases hem : (s.read off (lim - off)).isEmpty = true
    · simp only [hem, if_true, PureRes.ok.injEq] at hp
      subst hp
      have : lim - off = 0 := by
        have := read_length s off (lim - off)
        simp only [List.isEmpty_iff] at hem
        rw [hem] at this; simpa using this.symm
      exact ⟨[], by unfold Chain; omega, trivial⟩
    · have hem' : (s.read off (lim - off)).isEmpty = false := by simpa using hem
      simp only [hem', Bool.false_eq_true, if_false] at hp
      cases hd : decodeHeader (s.read off (lim - off)) with
      | none => rw [hd] at hp; cases hp
      | some x =>
        obtain ⟨h, rest⟩ := x
        rw [hd] at hp
        dsimp only at hp
        obtain ⟨hh, hel, hrest⟩ := decode_read s off (lim - off) h rest hd
        have h8 := encodedLen_ge8 h
        have hspec := headerAt_of s off lim none h hh (by omega)
        cases hds : h.dataSize with
        | error e => rw [hds] at hp; cases hp
        | ok o =>
          rw [hds] at hp
          cases o with
          | none =>
            dsimp only at hp
            simp only [PureRes.ok.injEq] at hp
            subst hp
            have hb := spec_untilEof off lim none h hds (Or.inl rfl)
            refine ⟨[⟨off, h.encodedLen, name4 h, lim, false⟩], ⟨by rw [hspec]; exact hb, rfl, by dsimp only; omega, rfl⟩, ?_⟩
            refine ⟨rfl, hh.2.1, ?_, by dsimp only [TopBox.payloadOff]; omega, trivial⟩
            dsimp only [TopBox.payloadOff, TopBox.payloadLen]
            rw [hrest]
            congr 2
            omega
          | some n =>
            dsimp only at hp
            rw [hrest, read_length] at hp
            by_cases hn : n ≤ lim - off - h.encodedLen
            · simp only [hn, if_true] at hp
              rw [read_drop, read_take s _ _ n hn] at hp
              have e1 : off + h.encodedLen + n = off + h.encodedLen + n := rfl
              have e2 : lim - off - h.encodedLen - n = lim - (off + h.encodedLen + n) := by omega
              rw [e2] at hp
              cases hrec : parseBoxes (C := C) f (s.read (off + h.encodedLen + n) (lim - (off + h.encodedLen + n))) with
              | err e => rw [hrec] at hp; cases hp
              | panic m => rw [hrec] at hp; cases hp
              | ok cs' =>
                rw [hrec] at hp
                simp only [PureRes.ok.injEq] at hp
                subst hp
                obtain ⟨bs', hc', hcorr'⟩ := ih (off + h.encodedLen + n) cs' (by omega) (by omega) hrec
                have hb := spec_sized off lim none h n hds
                refine ⟨⟨off, h.encodedLen, name4 h, off + h.encodedLen + n, true⟩ :: bs',
                  ⟨by rw [hspec]; exact hb, rfl, by dsimp only; omega, hc'⟩, ?_⟩
                refine ⟨rfl, hh.2.1, ?_, by dsimp only [TopBox.payloadOff]; omega, hcorr'⟩
                dsimp only [TopBox.payloadOff, TopBox.payloadLen]
                congr 2
                omega
            · simp only [hn, if_false] at hp
              cases hp

/-- a container payload that the model parses is what the walker calls the children of the box -/
theorem children_of_parse {C : Type} (b : TopBox) (cs : List (Box C)) (hle : b.payloadOff ≤ b.endOff)
    (hp : parseContainer (s.read b.payloadOff b.payloadLen) = .ok cs) :
    ∃ bs, children s b = some bs ∧ Corr s cs bs := by
  unfold parseContainer at hp
  rw [read_length] at hp
  have hlen : b.payloadLen = b.endOff - b.payloadOff := rfl
  rw [hlen] at hp
  obtain ⟨bs, hc, hcorr⟩ := parseBoxes_chain s (b.endOff - b.payloadOff) b.payloadOff b.endOff cs (Nat.le_refl _) hle hp
  refine ⟨bs, ?_, hcorr⟩
  unfold children walkAll
  rw [walk_of_chain s b.endOff none bs b.payloadOff _ hc (by left; omega)]

/-! ### type tests and filters along `Corr` -/

theorem corr_ty {C : Type} (c : Box C) (b : TopBox) (nm : Bytes) (hnm : nm ≠ uuidName) (h1 : name4 c.hdr = b.name)
    (h2 : match c.hdr.ty with | .fourcc x => x ≠ uuidName | .uuid _ => True) :
    (c.hdr.ty == BoxType.fourcc nm) = decide (b.name = nm) := by
  have := ty_eq_iff c.hdr nm hnm h2
  rw [h1] at this
  by_cases hb : b.name = nm
  · simp only [hb, decide_true]; rw [beq_iff_eq]; exact this.mpr hb
  · simp only [hb, decide_false]
    cases hq : (c.hdr.ty == BoxType.fourcc nm) with
    | false => rfl
    | true => rw [beq_iff_eq] at hq; exact absurd (this.mp hq) hb

theorem corr_filter_len {C : Type} (nm : Bytes) (hnm : nm ≠ uuidName) (cs : List (Box C)) (bs : List TopBox)
    (hc : Corr s cs bs) :
    countType (.fourcc nm) cs = (bs.filter (fun b => decide (b.name = nm))).length ∧
    hasType (.fourcc nm) cs = bs.any (fun b => decide (b.name = nm)) := by
  induction cs generalizing bs with
  | nil =>
    cases bs with
    | nil => exact ⟨rfl, rfl⟩
    | cons b bs => exact hc.elim
  | cons c cs ih =>
    cases bs with
    | nil => exact hc.elim
    | cons b bs =>
      obtain ⟨h1, h2, _, _, h4⟩ := hc
      obtain ⟨i1, i2⟩ := ih bs h4
      have e := corr_ty c b nm hnm h1 h2
      unfold countType hasType at *
      simp only [List.filter_cons, List.any_cons, e]
      by_cases hb : b.name = nm
      · simp only [hb, decide_true, if_true, List.length_cons, Bool.true_or]
        exact ⟨by rw [i1], trivial⟩
      · simp only [hb, decide_false, Bool.false_eq_true, if_false, Bool.false_or]
        exact ⟨i1, i2⟩

theorem pure_bind_ok {α β : Type} (m : PureRes α) (f : α → PureRes β) (b : β) (h : (m >>= f) = .ok b) :
    ∃ a, m = .ok a ∧ f a = .ok b := by
  cases m with
  | ok a => exact ⟨a, rfl, h⟩
  | err e => cases h
  | panic x => cases h

/-- a lazily parsed payload that is still raw bytes: `modify` parses it and applies the mutation -/
theorem modify_bytes {C α : Type} (parse : Bytes → PureRes C) (g : C → PureRes (C × α)) (x : Bytes) (d : Data C) (a : α)
    (h : (Data.bytes x).modify parse g = .ok (d, a)) : ∃ inner r, parse x = .ok inner ∧ g inner = .ok (r, a) := by
  unfold Data.modify at h
  obtain ⟨inner, h1, h2⟩ := pure_bind_ok _ _ _ h
  obtain ⟨ra, h3, h4⟩ := pure_bind_ok _ _ _ h2
  obtain ⟨r, a'⟩ := ra
  simp only [pure, PureRes.ok.injEq, Prod.mk.injEq] at h4
  exact ⟨inner, r, h1, by rw [h3, h4.2]⟩

theorem modifyFirst_rel {C α : Type} (nm : Bytes) (hnm : nm ≠ uuidName) (parse : Bytes → PureRes C)
    (g : C → PureRes (C × α)) (cs : List (Box C)) (bs : List TopBox) (hc : Corr s cs bs) (cs' : List (Box C)) (a : α)
    (h : modifyFirst (.fourcc nm) parse g cs = .ok (cs', a)) :
    ∃ b pre post, bs = pre ++ b :: post ∧ (∀ x ∈ pre, x.name ≠ nm) ∧ b.name = nm ∧
      ∃ inner r, parse (s.read b.payloadOff b.payloadLen) = .ok inner ∧ g inner = .ok (r, a) := by
  induction cs generalizing bs cs' a with
  | nil => simp [modifyFirst] at h
  | cons c cs ih =>
    cases bs with
    | nil => exact hc.elim
    | cons b bs =>
      obtain ⟨h1, h2, h3, _, h4⟩ := hc
      have e := corr_ty c b nm hnm h1 h2
      unfold modifyFirst at h
      rw [e] at h
      by_cases hb : b.name = nm
      · simp only [hb, decide_true, if_true] at h
        obtain ⟨da, hm, hx⟩ := pure_bind_ok _ _ _ h
        obtain ⟨d, a'⟩ := da
        rw [h3] at hm
        obtain ⟨inner, r, p1, p2⟩ := modify_bytes parse g _ d a' hm
        simp only [pure, PureRes.ok.injEq, Prod.mk.injEq] at hx
        exact ⟨b, [], bs, rfl, (by intro x hx'; cases hx'), hb, inner, r, p1, by rw [p2, hx.2]⟩
      · simp only [hb, decide_false, Bool.false_eq_true, if_false] at h
        obtain ⟨ba, hm, hx⟩ := pure_bind_ok _ _ _ h
        obtain ⟨bs', a'⟩ := ba
        simp only [pure, PureRes.ok.injEq, Prod.mk.injEq] at hx
        obtain ⟨b0, pre, post, e0, e1, e2, e3⟩ := ih bs h4 bs' a' hm
        refine ⟨b0, b :: pre, post, by rw [e0]; rfl, ?_, e2, ?_⟩
        · intro x hx'
          rcases List.mem_cons.mp hx' with q | q
          · rw [q]; exact hb
          · exact e1 x q
        · rw [← hx.2]; exact e3

/-- `get_one_mut::<T>()` on freshly parsed children is the walker's `only` -/
theorem getOne_rel {C α : Type} (nm : Bytes) (hnm : nm ≠ uuidName) (parse : Bytes → PureRes C)
    (g : C → PureRes (C × α)) (cs : List (Box C)) (bs : List TopBox) (hc : Corr s cs bs) (cs' : List (Box C)) (a : α)
    (h : getOneMut (.fourcc nm) parse g cs = .ok (cs', a)) :
    ∃ b, only nm bs = some b ∧ b ∈ bs ∧
      ∃ inner r, parse (s.read b.payloadOff b.payloadLen) = .ok inner ∧ g inner = .ok (r, a) := by
  unfold getOneMut at h
  split at h
  · rename_i hcnt
    obtain ⟨b, pre, post, e0, e1, e2, e3⟩ := modifyFirst_rel s nm hnm parse g cs bs hc cs' a h
    refine ⟨b, ?_, by rw [e0]; simp, e3⟩
    rw [(corr_filter_len s nm hnm cs bs hc).1] at hcnt
    unfold only
    have hpre : pre.filter (fun x => decide (x.name = nm)) = [] := by
      rw [List.filter_eq_nil_iff]; intro x hx; simpa using e1 x hx
    have hf : bs.filter (fun x => decide (x.name = nm)) = b :: post.filter (fun x => decide (x.name = nm)) := by
      rw [e0, List.filter_append, hpre, List.nil_append, List.filter_cons_of_pos (by simp [e2])]
    rw [hf] at hcnt ⊢
    cases hpost : post.filter (fun x => decide (x.name = nm)) with
    | nil => rfl
    | cons y ys => rw [hpost] at hcnt; simp at hcnt
  · cases h

theorem read_append (p a b : Nat) : s.read p (a + b) = s.read p a ++ s.read (p + a) b := by
  have h := List.take_append_drop a (s.read p (a + b))
  rw [read_take s p (a + b) a (by omega), read_drop] at h
  have : a + b - a = b := by omega
  rw [this] at h
  exact h.symm

/-- `StcoBox::parse` / `Co64Box::parse` accept exactly what the walker calls a well-formed table -/
theorem parseCo_table (w : Nat) (b : TopBox) (co : Co) (h : parseCo w (s.read b.payloadOff b.payloadLen) = .ok co) :
    tableOf s b w = some ⟨b.payloadOff + 8, w, co.count⟩ ∧ w * co.count ≤ 4294967295 := by
  unfold parseCo at h
  simp only [read_length] at h
  split at h; · cases h
  rename_i h4
  split at h; · cases h
  rename_i hv
  split at h; · cases h
  rename_i hfl
  split at h; · cases h
  rename_i h8
  rw [read_drop s _ _ 4, read_take s _ _ 4 (by omega)] at h
  split at h; · cases h
  rename_i hmul
  split at h; · cases h
  split at h; · cases h
  rename_i hrem
  simp only [PureRes.ok.injEq] at h
  subst h
  dsimp only
  have hv' : (s.read b.payloadOff b.payloadLen).take 1 = [0] := by simpa using hv
  have hfl' : ((s.read b.payloadOff b.payloadLen).drop 1).take 3 = [0, 0, 0] := by simpa using hfl
  rw [read_take s _ _ 1 (by omega)] at hv'
  rw [read_drop s _ _ 1, read_take s _ _ 3 (by omega)] at hfl'
  have hzero : beToNat (s.read b.payloadOff 4) = 0 := by
    have := read_append s b.payloadOff 1 3
    rw [this, hv', hfl']
    decide
  have hrem' : b.payloadLen - 8 = w * beToNat (s.read (b.payloadOff + 4) 4) := by simpa using hrem
  refine ⟨?_, by unfold Mp4.u32Max at hmul; omega⟩
  unfold tableOf be
  have e1 : ¬ b.payloadLen < 8 := by omega
  have e3 : ¬ b.payloadLen ≠ 8 + w * beToNat (s.read (b.payloadOff + 4) 4) := by omega
  simp only [e1, if_false, hzero, ne_eq, not_true_eq_false, e3]

theorem corr_mem {C : Type} (cs : List (Box C)) (bs : List TopBox) (hc : Corr s cs bs) :
    ∀ b ∈ bs, b.payloadOff ≤ b.endOff := by
  induction cs generalizing bs with
  | nil =>
    cases bs with
    | nil => intro b hb; cases hb
    | cons b bs => exact hc.elim
  | cons c cs ih =>
    cases bs with
    | nil => exact hc.elim
    | cons b bs =>
      obtain ⟨_, _, _, h4, h5⟩ := hc
      intro x hx
      rcases List.mem_cons.mp hx with e | e
      · rw [e]; exact h4
      · exact ih bs h5 x e

def stcoN : Bytes := [0x73, 0x74, 0x63, 0x6f]
def co64N : Bytes := [0x63, 0x6f, 0x36, 0x34]
def trakN : Bytes := [0x74, 0x72, 0x61, 0x6b]
def mdiaN : Bytes := [0x6d, 0x64, 0x69, 0x61]
def minfN : Bytes := [0x6d, 0x69, 0x6e, 0x66]
def stblN : Bytes := [0x73, 0x74, 0x62, 0x6c]
theorem cc_stco : cc 's' 't' 'c' 'o' = stcoN := by decide
theorem cc_co64 : cc 'c' 'o' '6' '4' = co64N := by decide
theorem cc_trak : cc 't' 'r' 'a' 'k' = trakN := by decide
theorem cc_mdia : cc 'm' 'd' 'i' 'a' = mdiaN := by decide
theorem cc_minf : cc 'm' 'i' 'n' 'f' = minfN := by decide
theorem cc_stbl : cc 's' 't' 'b' 'l' = stblN := by decide

theorem only_filter (nm : Bytes) (bs : List TopBox) (b : TopBox) (h : only nm bs = some b) :
    bs.filter (fun x => decide (x.name = nm)) = [b] := by
  unfold only at h
  split at h
  · rename_i x hx; simp only [Option.some.injEq] at h; subst h; exact hx
  · cases h

/-- the stbl level: exactly one stco xor co64, well-formed -/
theorem stbl_rel (cs : L1) (bs : List TopBox) (hc : Corr s cs bs) (cs' : L1) (a : Nat)
    (h : coMutStbl countOf cs = .ok (cs', a)) :
    ∃ r, (match bs.filter (fun x => decide (x.name = stcoN)), bs.filter (fun x => decide (x.name = co64N)) with
      | [b], [] => tableOf s b 4
      | [], [b] => tableOf s b 8
      | _, _ => none) = some r ∧ r.width * r.count ≤ 4294967295 := by
  unfold coMutStbl at h
  have hs := corr_filter_len s stcoN (by decide) cs bs hc
  have h6 := corr_filter_len s co64N (by decide) cs bs hc
  have eS : STCO = BoxType.fourcc stcoN := rfl
  have e6 : CO64 = BoxType.fourcc co64N := rfl
  rw [eS, e6] at h
  dsimp only at h
  split at h
  · cases h
  rename_i hboth
  split at h
  · rename_i hst
    -- stco present, hence no co64
    have hno6 : hasType (BoxType.fourcc co64N) cs = false := by
      cases hq : hasType (BoxType.fourcc co64N) cs with
      | false => rfl
      | true => rw [hst, hq] at hboth; simp at hboth
    obtain ⟨b, hb, hbm, inner, r, p1, p2⟩ := getOne_rel s stcoN (by decide) (parseCo 4) countOf cs bs hc cs' a h
    have hf := only_filter stcoN bs b hb
    have h6nil : bs.filter (fun x => decide (x.name = co64N)) = [] := by
      rw [h6.2] at hno6
      rw [List.filter_eq_nil_iff]
      intro x hx
      rw [List.any_eq_false] at hno6
      exact hno6 x hx
    obtain ⟨t1, t2⟩ := parseCo_table s 4 b inner p1
    rw [hf, h6nil]
    exact ⟨_, t1, t2⟩
  · rename_i hst
    have hsnil : bs.filter (fun x => decide (x.name = stcoN)) = [] := by
      have : hasType (BoxType.fourcc stcoN) cs = false := by simpa using hst
      rw [hs.2] at this
      rw [List.filter_eq_nil_iff]
      intro x hx
      rw [List.any_eq_false] at this
      exact this x hx
    obtain ⟨b, hb, hbm, inner, r, p1, p2⟩ := getOne_rel s co64N (by decide) (parseCo 8) countOf cs bs hc cs' a h
    have hf := only_filter co64N bs b hb
    obtain ⟨t1, t2⟩ := parseCo_table s 8 b inner p1
    rw [hf, hsnil]
    exact ⟨_, t1, t2⟩

/-- one trak: exactly one mdia > minf > stbl chain ending in one well-formed table -/
theorem trak_rel (t : TopBox) (hle : t.payloadOff ≤ t.endOff) (l4 l4' : L4) (a : Nat)
    (hp : parseContainer (s.read t.payloadOff t.payloadLen) = .ok l4) (h : coMutTrak countOf l4 = .ok (l4', a)) :
    ∃ r, trakTable s t = some r ∧ r.width * r.count ≤ 4294967295 := by
  unfold coMutTrak at h
  have eM : MDIA = BoxType.fourcc mdiaN := rfl
  have eI : MINF = BoxType.fourcc minfN := rfl
  have eS : STBL = BoxType.fourcc stblN := rfl
  rw [eM, eI, eS] at h
  obtain ⟨c1, hc1, corr1⟩ := children_of_parse s t l4 hle hp
  obtain ⟨mdia, hmdia, hm1, l3, _, p3, g3⟩ := getOne_rel s mdiaN (by decide) parseContainer _ l4 c1 corr1 l4' a h
  obtain ⟨c2, hc2, corr2⟩ := children_of_parse s mdia l3 (corr_mem s l4 c1 corr1 mdia hm1) p3
  obtain ⟨minf, hminf, hm2, l2, _, p2, g2⟩ := getOne_rel s minfN (by decide) parseContainer _ l3 c2 corr2 _ a g3
  obtain ⟨c3, hc3, corr3⟩ := children_of_parse s minf l2 (corr_mem s l3 c2 corr2 minf hm2) p2
  obtain ⟨stbl, hstbl, hm3, l1, _, p1, g1⟩ := getOne_rel s stblN (by decide) parseContainer _ l2 c3 corr3 _ a g2
  obtain ⟨c4, hc4, corr4⟩ := children_of_parse s stbl l1 (corr_mem s l2 c3 corr3 stbl hm3) p1
  obtain ⟨r, hr, hb⟩ := stbl_rel s l1 c4 corr4 _ a g1
  refine ⟨r, ?_, hb⟩
  unfold trakTable
  rw [cc_mdia, cc_minf, cc_stbl, cc_stco, cc_co64]
  simp only [hc1, hmdia, hc2, hminf, hc3, hstbl, hc4, Option.bind_eq_bind, Option.bind_some]
  exact hr

/-- every trak of the moov, in order -/
theorem forTraks_rel (cs : L5) (bs : List TopBox) (hc : Corr s cs bs) (cs' : L5) (as : List Nat)
    (h : forEachOfType (BoxType.fourcc trakN) parseContainer (coMutTrak countOf) cs = .ok (cs', as)) :
    ∃ rs, (bs.filter (fun x => decide (x.name = trakN))).mapM (trakTable s) = some rs ∧
      ∀ r ∈ rs, r.width * r.count ≤ 4294967295 := by
  induction cs generalizing bs cs' as with
  | nil =>
    cases bs with
    | nil => exact ⟨[], rfl, by intro r hr; cases hr⟩
    | cons b bs => exact hc.elim
  | cons c cs ih =>
    cases bs with
    | nil => exact hc.elim
    | cons b bs =>
      obtain ⟨h1, h2, h3, h4, h5⟩ := hc
      have e := corr_ty c b trakN (by decide) h1 h2
      unfold forEachOfType at h
      rw [e] at h
      by_cases hb : b.name = trakN
      · simp only [hb, decide_true, if_true] at h
        obtain ⟨da, hm, hx⟩ := pure_bind_ok _ _ _ h
        obtain ⟨d, a⟩ := da
        obtain ⟨ra, hrec, hy⟩ := pure_bind_ok _ _ _ hx
        obtain ⟨bs', as'⟩ := ra
        rw [h3] at hm
        obtain ⟨inner, r0, p1, p2⟩ := modify_bytes parseContainer (coMutTrak countOf) _ d a hm
        obtain ⟨r, hr, hbnd⟩ := trak_rel s b h4 inner r0 a p1 p2
        obtain ⟨rs, hrs, hall⟩ := ih bs h5 bs' as' hrec
        refine ⟨r :: rs, ?_, ?_⟩
        · rw [List.filter_cons_of_pos (by simp [hb]), List.mapM_cons, hr]
          simp only [Option.bind_eq_bind, Option.bind_some, hrs]
          rfl
        · intro x hx'
          rcases List.mem_cons.mp hx' with q | q
          · rw [q]; exact hbnd
          · exact hall x q
      · simp only [hb, decide_false, Bool.false_eq_true, if_false] at h
        obtain ⟨ra, hrec, hy⟩ := pure_bind_ok _ _ _ h
        obtain ⟨bs', as'⟩ := ra
        obtain ⟨rs, hrs, hall⟩ := ih bs h5 bs' as' hrec
        exact ⟨rs, by rw [List.filter_cons_of_neg (by simp [hb])]; exact hrs, hall⟩

/-- the eager moov validation of the scan loop accepts only what the walker calls a well-formed moov: children clean,
    at least one trak, every trak with its unique well-formed table below 4 GiB -/
theorem validateMoov_tables (b : TopBox) (hle : b.payloadOff ≤ b.endOff) (d : Data L5) (total : Nat)
    (h : validateMoov (.bytes (s.read b.payloadOff b.payloadLen)) = .ok (d, total)) :
    ∃ rs, moovTables s b = some rs ∧ ∀ r ∈ rs, r.width * r.count ≤ 4294967295 := by
  unfold validateMoov at h
  obtain ⟨dc, hm, _⟩ := pure_bind_ok _ _ _ h
  obtain ⟨d', counts⟩ := dc
  have hm' : (Data.bytes (s.read b.payloadOff b.payloadLen)).modify parseMoov (forTraks countOf) = .ok (d', counts) := hm
  obtain ⟨cs, r0, p1, p2⟩ := modify_bytes parseMoov (forTraks countOf) _ d' counts hm'
  unfold parseMoov at p1
  obtain ⟨cs0, q1, q2⟩ := pure_bind_ok _ _ _ p1
  have eT : TRAK = BoxType.fourcc trakN := rfl
  rw [eT] at q2
  split at q2
  · rename_i htr
    simp only [pure, PureRes.ok.injEq] at q2
    subst q2
    obtain ⟨bs, hch, corr⟩ := children_of_parse s b cs0 hle q1
    unfold forTraks at p2
    rw [eT] at p2
    obtain ⟨rs, hrs, hall⟩ := forTraks_rel s cs0 bs corr r0 counts p2
    refine ⟨rs, ?_, hall⟩
    unfold moovTables
    rw [cc_trak]
    simp only [hch, Option.bind_eq_bind, Option.bind_some]
    have hne : (bs.filter (fun x => decide (x.name = trakN))).isEmpty = false := by
      rw [(corr_filter_len s trakN (by decide) cs0 bs corr).2] at htr
      rw [List.any_eq_true] at htr
      obtain ⟨x, hx, hxn⟩ := htr
      cases hf : bs.filter (fun x => decide (x.name = trakN)) with
      | nil =>
        have : x ∈ bs.filter (fun x => decide (x.name = trakN)) := List.mem_filter.mpr ⟨hx, hxn⟩
        rw [hf] at this; cases this
      | cons y ys => rfl
    simp only [hne, Bool.false_eq_true, if_false]
    exact hrs
  · cases q2

end
end MediaSan.Mp4
