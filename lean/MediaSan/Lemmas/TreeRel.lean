/-
  C05, the moov-tree clause: the model's lazily parsed box tree over a slice of the stream (Mp4/Tree.lean:
  `parseBoxes`, `getOneMut`, `forEachOfType`, `parseCo`) sees exactly what the independent walker sees in that
  region of the stream (`children`, `only`, `tableOf`, `moovTables` of Spec/Mp4Walk.lean).
-/
import MediaSan.Lemmas.TopRel
namespace MediaSan.Mp4
open MediaSan MediaSan.Spec.Mp4Walk MediaSan.Spec.Mp4Rules

section
variable (s : Stream)

/-- `BoxHeader::parse` on a slice of the stream has seen what `BoxHeader::read` sees there -/
theorem decode_read (off m : Nat) (h : BoxHeader) (rest : Bytes) (hd : decodeHeader (s.read off m) = some (h, rest)) :
    HdrAt s off h ∧ h.encodedLen ≤ m ∧ rest = s.read (off + h.encodedLen) (m - h.encodedLen) := by
  unfold decodeHeader at hd
  simp only [read_length] at hd
  split at hd
  · cases hd
  rename_i h8
  have h8' : 8 ≤ m := by omega
  rw [read_take s off m 4 (by omega), read_drop s off m 8, read_drop s off m 4, read_take s (off + 4) (m - 4) 4 (by omega)] at hd
  -- the tail, once the size is known
  have tail : ∀ (sz : BoxSize) (rest1 : Bytes) (used : Nat), used ≤ m → rest1 = s.read (off + used) (m - used) →
      used = 8 + (match sz with | .ext _ => 8 | _ => 0) →
      (match sz with
        | .untilEof => beToNat (s.read off 4) = 0
        | .ext n => beToNat (s.read off 4) = 1 ∧ n = beToNat (s.read (off + 8) 8)
        | .size n => beToNat (s.read off 4) = n ∧ n ≠ 0 ∧ n ≠ 1) →
      (if s.read (off + 4) 4 = uuidName then
          if rest1.length < 16 then none else some ((⟨BoxType.uuid (rest1.take 16), sz⟩ : BoxHeader), rest1.drop 16)
        else some (⟨BoxType.fourcc (s.read (off + 4) 4), sz⟩, rest1)) = some (h, rest) →
      HdrAt s off h ∧ h.encodedLen ≤ m ∧ rest = s.read (off + h.encodedLen) (m - h.encodedLen) := by
    intro sz rest1 used hu hr1 hused hsz hres
    split at hres
    · rename_i hn
      rw [hr1, read_length] at hres
      split at hres
      · cases hres
      · rename_i h16
        simp only [Option.some.injEq, Prod.mk.injEq] at hres
        obtain ⟨e1, e2⟩ := hres
        subst e1
        have hel : ({ ty := BoxType.uuid ((s.read (off + used) (m - used)).take 16), sz := sz } : BoxHeader).encodedLen = used + 16 := by
          simp only [BoxHeader.encodedLen]; cases sz <;> simp_all <;> omega
        refine ⟨⟨by simp only [name4]; exact hn.symm, trivial, hsz⟩, by rw [hel]; omega, ?_⟩
        rw [← e2, hel, read_drop]
        congr 1 <;> omega
    · rename_i hn
      simp only [Option.some.injEq, Prod.mk.injEq] at hres
      obtain ⟨e1, e2⟩ := hres
      subst e1
      have hel : ({ ty := BoxType.fourcc (s.read (off + 4) 4), sz := sz } : BoxHeader).encodedLen = used := by
        simp only [BoxHeader.encodedLen]; cases sz <;> simp_all
      refine ⟨⟨by simp only [name4], hn, hsz⟩, by rw [hel]; exact hu, ?_⟩
      rw [← e2, hel, hr1]
  by_cases h0 : beToNat (s.read off 4) = 0
  · simp only [h0, if_true] at hd
    exact tail .untilEof (s.read (off + 8) (m - 8)) 8 h8' rfl rfl h0 hd
  · simp only [h0, if_false] at hd
    by_cases h1 : beToNat (s.read off 4) = 1
    · simp only [h1, if_true, read_length] at hd
      by_cases hs : m - 8 < 8
      · simp [hs] at hd
      · simp only [hs, if_false] at hd
        rw [read_take s (off + 8) (m - 8) 8 (by omega), read_drop] at hd
        have e : off + 8 + 8 = off + 16 := by omega
        have e' : m - 8 - 8 = m - 16 := by omega
        rw [e, e'] at hd
        exact tail (.ext _) (s.read (off + 16) (m - 16)) 16 (by omega) rfl rfl ⟨h1, rfl⟩ hd
    · simp only [h1, if_false] at hd
      exact tail (.size _) (s.read (off + 8) (m - 8)) 8 h8' rfl rfl ⟨rfl, h0, h1⟩ hd

/-- the model's freshly parsed children `cs` (all still raw bytes) are the walker's boxes `bs` -/
def Corr {C : Type} : List (Box C) → List TopBox → Prop
  | [], [] => True
  | c :: cs, b :: bs =>
    name4 c.hdr = b.name ∧
    (match c.hdr.ty with
      | .fourcc x => x ≠ uuidName
      | .uuid _ => True) ∧
    c.data = .bytes (s.read b.payloadOff b.payloadLen) ∧ Corr cs bs
  | _, _ => False

/-- `Boxes::parse` over the slice [off, lim) of the stream walks exactly the walker's chain of boxes there -/
theorem parseBoxes_chain {C : Type} (fuel off lim : Nat) (cs : List (Box C)) (hfuel : lim - off ≤ fuel) (hle : off ≤ lim)
    (hp : parseBoxes fuel (s.read off (lim - off)) = .ok cs) :
    ∃ bs, Chain s lim none off lim bs ∧ Corr s cs bs := by
  induction fuel generalizing off cs with
  | zero =>
    simp only [parseBoxes, PureRes.ok.injEq] at hp
    subst hp
    exact ⟨[], by unfold Chain; omega, trivial⟩
  | succ f ih =>
    simp only [parseBoxes] at hp
    by_cases hem : (s.read off (lim - off)).isEmpty = true
    · simp only [hem, if_true, PureRes.ok.injEq] at hp
      subst hp
      have : lim - off = 0 := by
        have := read_length s off (lim - off)
        simp only [List.isEmpty_iff] at hem
        rw [hem] at this; simpa using this.symm
      exact ⟨[], by unfold Chain; omega, trivial⟩
    · have hem' : (s.read off (lim - off)).isEmpty = false := by simpa using hem
      simp only [hem', Bool.false_eq_true, if_false] at hp
      cases hd : decodeHeader (s.read off (lim - off)) with
      | none => rw [hd] at hp; cases hp
      | some x =>
        obtain ⟨h, rest⟩ := x
        rw [hd] at hp
        dsimp only at hp
        obtain ⟨hh, hel, hrest⟩ := decode_read s off (lim - off) h rest hd
        have h8 := encodedLen_ge8 h
        have hspec := headerAt_of s off lim none h hh (by omega)
        cases hds : h.dataSize with
        | error e => rw [hds] at hp; cases hp
        | ok o =>
          rw [hds] at hp
          cases o with
          | none =>
            dsimp only at hp
            simp only [PureRes.ok.injEq] at hp
            subst hp
            have hb := spec_untilEof off lim none h hds (Or.inl rfl)
            refine ⟨[⟨off, h.encodedLen, name4 h, lim, false⟩], ⟨by rw [hspec]; exact hb, rfl, by dsimp only; omega, rfl⟩, ?_⟩
            refine ⟨rfl, hh.2.1, ?_, trivial⟩
            dsimp only [TopBox.payloadOff, TopBox.payloadLen]
            rw [hrest]
            congr 2
            omega
          | some n =>
            dsimp only at hp
            rw [hrest, read_length] at hp
            by_cases hn : n ≤ lim - off - h.encodedLen
            · simp only [hn, if_true] at hp
              rw [read_drop, read_take s _ _ n hn] at hp
              have e1 : off + h.encodedLen + n = off + h.encodedLen + n := rfl
              have e2 : lim - off - h.encodedLen - n = lim - (off + h.encodedLen + n) := by omega
              rw [e2] at hp
              cases hrec : parseBoxes (C := C) f (s.read (off + h.encodedLen + n) (lim - (off + h.encodedLen + n))) with
              | err e => rw [hrec] at hp; cases hp
              | panic m => rw [hrec] at hp; cases hp
              | ok cs' =>
                rw [hrec] at hp
                simp only [PureRes.ok.injEq] at hp
                subst hp
                obtain ⟨bs', hc', hcorr'⟩ := ih (off + h.encodedLen + n) cs' (by omega) (by omega) hrec
                have hb := spec_sized off lim none h n hds
                refine ⟨⟨off, h.encodedLen, name4 h, off + h.encodedLen + n, true⟩ :: bs',
                  ⟨by rw [hspec]; exact hb, rfl, by dsimp only; omega, hc'⟩, ?_⟩
                refine ⟨rfl, hh.2.1, ?_, hcorr'⟩
                dsimp only [TopBox.payloadOff, TopBox.payloadLen]
                congr 2
                omega
            · simp only [hn, if_false] at hp
              cases hp

end
end MediaSan.Mp4
