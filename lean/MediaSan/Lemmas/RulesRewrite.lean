/-
  C05, completeness, the rewrite half: a file that meets the documented rules, whose last moov does NOT start before
  the first mdat, and for which the specification's `Overflow` is false, is accepted with rewritten metadata.
-/
import MediaSan.Lemmas.RulesConv
import MediaSan.Lemmas.FusionRev
import MediaSan.Lemmas.RelocateFinal
namespace MediaSan.Mp4
open MediaSan MediaSan.Spec.Mp4Walk MediaSan.Spec.Mp4Rules MediaSan.Props.C02

/-- the shift the specification expects, from the re-encoded metadata length and the media offset -/
def shiftOf (ml off : Nat) : Option Int :=
  if ml ≤ off then
    let gap := off - ml
    if gap = 0 ∨ (8 ≤ gap ∧ gap ≤ Spec.Mp4Rules.u32Max - 8 ∧ gap ≤ ml) then none else some (-(gap : Int))
  else some ((ml - off : Nat) : Int)

/-- the model's plan is the specification's shift, whenever the shift fits an i32 -/
theorem plan_of_shift (ml off : Nat) :
    (shiftOf ml off = none → ∃ pad, planRewrite ml off = .ok (pad, none)) ∧
    (∀ sh, shiftOf ml off = some sh → -2147483648 ≤ sh → sh ≤ 2147483647 → planRewrite ml off = .ok (0, some sh)) := by
  unfold shiftOf planRewrite maxPadSize padHeaderSize Spec.Mp4Rules.u32Max Mp4.u32Max
  by_cases h1 : ml ≤ off
  · simp only [h1, if_true]
    by_cases h2 : off - ml = 0
    · simp only [h2, true_or, if_true]
      exact ⟨fun _ => ⟨0, rfl⟩, fun sh h => (by cases h)⟩
    · by_cases h3 : 8 ≤ off - ml ∧ off - ml ≤ 4294967295 - 8 ∧ off - ml ≤ ml
      · simp only [h2, false_or, h3, and_self, if_true, if_false]
        exact ⟨fun _ => ⟨_, rfl⟩, fun sh h => (by cases h)⟩
      · simp only [h2, false_or, h3, if_false]
        refine ⟨fun h => (by cases h), fun sh h hlo hhi => ?_⟩
        simp only [Option.some.injEq] at h
        subst h
        have : off - ml ≤ 2147483648 := by omega
        simp only [this, if_true]
  · simp only [h1, if_false]
    refine ⟨fun h => (by cases h), fun sh h hlo hhi => ?_⟩
    simp only [Option.some.injEq] at h
    subst h
    have : ml - off ≤ 2147483647 := by omega
    simp only [this, if_true]

/-- and conversely: whatever the model plans is the specification's shift -/
theorem shift_of_plan (ml off pad : Nat) (disp : Option Int) (h : planRewrite ml off = .ok (pad, disp)) :
    shiftOf ml off = disp := by
  unfold shiftOf
  unfold planRewrite maxPadSize padHeaderSize Mp4.u32Max at h
  unfold Spec.Mp4Rules.u32Max
  by_cases h1 : ml ≤ off
  · simp only [h1, if_true] at h ⊢
    by_cases h2 : off - ml = 0
    · simp only [h2, true_or, if_true, Except.ok.injEq, Prod.mk.injEq] at h ⊢
      exact h.2
    · by_cases h3 : 8 ≤ off - ml ∧ off - ml ≤ 4294967295 - 8 ∧ off - ml ≤ ml
      · simp only [h2, false_or, h3, and_self, if_true, if_false, Except.ok.injEq, Prod.mk.injEq] at h ⊢
        exact h.2
      · simp only [h2, false_or, h3, if_false] at h ⊢
        split at h
        · simp only [Except.ok.injEq, Prod.mk.injEq] at h; exact h.2
        · cases h
  · simp only [h1, if_false] at h ⊢
    split at h
    · simp only [Except.ok.injEq, Prod.mk.injEq] at h; exact h.2
    · cases h

theorem hdrLen_of (ty : Bytes) (n : Nat) (h : BoxHeader) (hw : (BoxType.fourcc ty).WF)
    (hh : withDataSize (.fourcc ty) n = .ok h) : h.encodedLen = hdrLenFor n := by
  have := withDataSize_spec (.fourcc ty) hw n
  rw [hh] at this
  obtain ⟨h1, _, _, h4⟩ := this
  unfold hdrLenFor Spec.Mp4Rules.u32Max
  unfold BoxHeader.encodedLen
  rw [h1]
  unfold Mp4.u32Max tyLen at h4
  cases hs : h.sz with
  | size k => rw [hs] at h4; dsimp only at h4 ⊢; rw [if_pos (by omega)]
  | ext k => rw [hs] at h4; dsimp only at h4 ⊢; rw [if_neg (by omega)]
  | untilEof => rw [hs] at h4; exact h4.elim

theorem withDataSize_ok (ty : BoxType) (hw : ty.WF) (n : Nat) (hn : n + 32 ≤ u64Max) : ∃ h, withDataSize ty n = .ok h := by
  have := withDataSize_spec ty hw n
  cases hq : withDataSize ty n with
  | ok h => exact ⟨h, rfl⟩
  | error e =>
    rw [hq] at this
    obtain ⟨_, h2⟩ := this
    have : tyLen ty ≤ 16 := by unfold tyLen; split <;> omega
    omega

/-- everything after the loop succeeds with a rewrite when the plan exists and the displacement (if any) goes through -/
theorem finish_rewrite (st : ScanState) (fy : Box Ftyp) (mv : Box L5) (mo : Nat) (d : Span) (nf nm : Nat)
    (hfy : st.ftyp = some fy) (hmv : st.moov = some mv) (hmo : st.moovOffset = some mo) (hd : st.data = some d)
    (hnm : ¬ mo < d.offset) (hfl : fy.data.len ftypSer = nf) (hml : mv.data.len ser5 = nm)
    (hnf : nf ≤ 1024) (hnm4 : nm ≤ 4 * Mp4.u32Max)
    (hplan : (∃ pad, planRewrite (hdrLenFor nf + nf + hdrLenFor nm + nm) d.offset = .ok (pad, none)) ∨
      (∃ pad sh d', planRewrite (hdrLenFor nf + nf + hdrLenFor nm + nm) d.offset = .ok (pad, some sh) ∧
        displaceMoov sh mv.data = .ok d')) :
    ∃ md, finish st = .ok ⟨some md, d⟩ := by
  obtain ⟨fh, hwf⟩ := withDataSize_ok FTYP FTYP_wf nf (by unfold u64Max; omega)
  obtain ⟨mh, hwm⟩ := withDataSize_ok MOOV MOOV_wf nm (by unfold u64Max; unfold Mp4.u32Max at hnm4; omega)
  have e1 := hdrLen_of _ nf fh FTYP_wf hwf
  have e2 := hdrLen_of _ nm mh MOOV_wf hwm
  obtain ⟨_, f2, _, _⟩ := C02_headers_explicit FTYP FTYP_wf _ fh hwf
  obtain ⟨_, m2, _, _⟩ := C02_headers_explicit MOOV MOOV_wf _ mh hwm
  have l1 : Box.len ftypSer ⟨fh, fy.data⟩ = hdrLenFor nf + nf := by
    rw [(box_ser_eq ftypSer fh fy.data (by rw [hfl]; exact f2)).2, e1, hfl]
  have l2 : Box.len ser5 ⟨mh, mv.data⟩ = hdrLenFor nm + nm := by
    rw [(box_ser_eq ser5 mh mv.data (by rw [hml]; exact m2)).2, e2, hml]
  have hle : ¬ (hdrLenFor nf + nf + (hdrLenFor nm + nm) > u64Max) := by
    have a1 : hdrLenFor nf ≤ 16 := by unfold hdrLenFor; split <;> omega
    have a2 : hdrLenFor nm ≤ 16 := by unfold hdrLenFor; split <;> omega
    unfold u64Max; unfold Mp4.u32Max at hnm4; omega
  have hassoc : hdrLenFor nf + nf + (hdrLenFor nm + nm) = hdrLenFor nf + nf + hdrLenFor nm + nm := by omega
  unfold finish
  rw [hfy]; dsimp only
  rw [hmv, hmo]; dsimp only
  rw [hd]; dsimp only
  rw [if_neg hnm, hfl, hml, hwf, hwm]
  dsimp only
  rw [l1, l2, if_neg hle, hassoc]
  rcases hplan with ⟨pad, hp⟩ | ⟨pad, sh, d', hp, hdm⟩
  · rw [hp]; exact ⟨_, rfl⟩
  · rw [hp]; dsimp only; rw [hdm]; exact ⟨_, rfl⟩

/-- what `finish` planned, read off a result with metadata: the plan over the re-encoded lengths, and the displacement
    (when there is one) is |metadata| − span.offset -/
theorem finish_plan (st : ScanState) (r : Sanitized) (md : Bytes) (hs : SerOk st) (h : finish st = .ok r)
    (hmd : r.metadata = some md) :
    ∃ ftyp moov mo pad disp, st.ftyp = some ftyp ∧ st.moov = some moov ∧ st.moovOffset = some mo ∧ st.data = some r.data ∧
      ¬ mo < r.data.offset ∧
      planRewrite (hdrLenFor (ftyp.data.len ftypSer) + ftyp.data.len ftypSer + hdrLenFor (moov.data.len ser5) +
        moov.data.len ser5) r.data.offset = .ok (pad, disp) ∧
      (∀ dv, disp = some dv → (md.length : Int) - (r.data.offset : Int) = dv) := by
  unfold finish at h
  cases hf : st.ftyp with
  | none => rw [hf] at h; cases h
  | some ftyp =>
    rw [hf] at h; dsimp only at h
    cases hm : st.moov with
    | none => rw [hm] at h; cases h
    | some moov =>
      rw [hm] at h
      cases hmo : st.moovOffset with
      | none => rw [hmo] at h; cases h
      | some mo =>
        rw [hmo] at h; dsimp only at h
        cases hd : st.data with
        | none => rw [hd] at h; cases h
        | some data =>
          rw [hd] at h; dsimp only at h
          have hfs := hs.1 ftyp hf
          have hms := hs.2 moov hm
          split at h
          · simp only [PureRes.ok.injEq] at h; rw [← h] at hmd; cases hmd
          · rename_i hnlt
            cases hwf : withDataSize FTYP (ftyp.data.len ftypSer) with
            | error e => rw [hwf] at h; cases h
            | ok fh =>
              cases hwm : withDataSize MOOV (moov.data.len ser5) with
              | error e => rw [hwf, hwm] at h; cases h
              | ok mh =>
                rw [hwf, hwm] at h
                dsimp only at h
                obtain ⟨f1, f2, f3, f4⟩ := C02_headers_explicit FTYP FTYP_wf _ fh hwf
                obtain ⟨m1, m2, m3, m4⟩ := C02_headers_explicit MOOV MOOV_wf _ mh hwm
                obtain ⟨_, fl⟩ := box_ser_eq ftypSer fh ftyp.data f2
                obtain ⟨_, mlen⟩ := box_ser_eq ser5 mh moov.data m2
                have e1 := hdrLen_of _ _ fh FTYP_wf hwf
                have e2 := hdrLen_of _ _ mh MOOV_wf hwm
                have hML : Box.len ftypSer ⟨fh, ftyp.data⟩ + Box.len ser5 ⟨mh, moov.data⟩ =
                    hdrLenFor (ftyp.data.len ftypSer) + ftyp.data.len ftypSer + hdrLenFor (moov.data.len ser5) +
                      moov.data.len ser5 := by rw [fl, mlen, e1, e2]; omega
                split at h
                · cases h
                · cases hpl : planRewrite (Box.len ftypSer ⟨fh, ftyp.data⟩ + Box.len ser5 ⟨mh, moov.data⟩) data.offset with
                  | error e => rw [hpl] at h; cases h
                  | ok pd =>
                    obtain ⟨pad, disp⟩ := pd
                    rw [hpl] at h
                    have hpad := planRewrite_pad _ _ _ _ hpl
                    have hsp := Props.C01R.planRewrite_spec _ _ _ _ hpl
                    cases disp with
                    | none =>
                      dsimp only at h
                      simp only [PureRes.ok.injEq] at h
                      have hdat : r.data = data := by rw [← h]
                      refine ⟨ftyp, moov, mo, pad, none, rfl, rfl, rfl, by rw [hdat], by rw [hdat]; exact hnlt,
                        by rw [hdat, ← hML]; exact hpl, fun dv e => by cases e⟩
                    | some dv =>
                      dsimp only at h
                      cases hdm : displaceMoov dv moov.data with
                      | err e => rw [hdm] at h; cases h
                      | panic m => rw [hdm] at h; cases h
                      | ok d =>
                        rw [hdm] at h
                        simp only [PureRes.ok.injEq] at h
                        have hdat : r.data = data := by rw [← h]
                        rw [← h] at hmd
                        simp only [Option.some.injEq] at hmd
                        obtain ⟨hl1, hl2⟩ := displaceMoov_len dv moov.data d hdm
                        have hwm' : withDataSize MOOV (d.len ser5) = .ok mh := by rw [hl2]; exact hwm
                        have hms' : (d.ser ser5).length = d.len ser5 := by rw [hl1, hl2]; exact hms
                        have hml : Box.len ftypSer ⟨fh, ftyp.data⟩ + Box.len ser5 ⟨mh, moov.data⟩ =
                            Box.len ftypSer ⟨fh, ftyp.data⟩ + Box.len ser5 ⟨mh, d⟩ := by
                          simp only [Box.len, Box.calcHeader, hl2]
                        obtain ⟨h1, h2, h3, h4⟩ := assemble_boxes fh mh ftyp.data d _ pad hwf hwm' hfs hms' hml hpad
                        have hlen := Props.C01R.serBoxes_mdBoxes_length fh mh (ftyp.data.ser ftypSer) (d.ser ser5) pad f3 m3 hpad
                        refine ⟨ftyp, moov, mo, pad, some dv, rfl, rfl, rfl, by rw [hdat], by rw [hdat]; exact hnlt,
                          by rw [hdat, ← hML]; exact hpl, fun dv' e => ?_⟩
                        simp only [Option.some.injEq] at e
                        subst e
                        rcases hsp with ⟨e, _⟩ | ⟨e, e0, b1, b2⟩
                        · cases e
                        · simp only [Option.some.injEq] at e
                          rw [← hmd, h1, hlen, hdat, hfs, hms', hl2, e0, e, fl, mlen]
                          omega

section
variable (s : Stream)

/-- a box the walker reads holds its own header -/
theorem headerAt_payload (off lim : Nat) (ovr : Option Nat) (b : TopBox) (h : headerAt s off lim ovr = .ok b) :
    b.payloadOff ≤ b.endOff := by
  unfold TopBox.payloadOff
  unfold headerAt at h
  split at h
  · cases h
  rename_i h8
  dsimp only at h
  generalize (if s.read (off + 4) 4 = [0x75, 0x75, 0x69, 0x64] then 16 else 0) = u at h
  split at h
  · split at h
    · cases h
    · split at h
      · cases h
      · simp only [Hdr.ok.injEq] at h; subst h; dsimp only; omega
  · split at h
    · cases h
    · rename_i ht
      split at h
      · split at h
        · split at h
          · cases h
          · simp only [Hdr.ok.injEq] at h; subst h; dsimp only; omega
        · simp only [Hdr.ok.injEq] at h; subst h; dsimp only; omega
      · split at h
        · cases h
        · simp only [Hdr.ok.injEq] at h; subst h; dsimp only; omega

/-- a table whose shifted entries all stay inside their fields is displaced without a refusal -/
theorem displaceCo_of_fits (r : Region) (hw : r.width = 4 ∨ r.width = 8) (sh : Int)
    (hfit : ∀ i, i < r.count → ¬ ((Spec.Mp4Walk.entryAt s r i : Int) + sh < 0 ∨
      (Spec.Mp4Walk.entryAt s r i : Int) + sh ≥ (256 : Int) ^ r.width)) :
    ∃ co' a, displaceCo sh ⟨r.width, r.count, s.read r.off (r.width * r.count)⟩ = .ok (co', a) := by
  unfold displaceCo
  dsimp only
  cases h : displaceEntries r.width sh (s.read r.off (r.width * r.count)).length (s.read r.off (r.width * r.count)) with
  | ok e => exact ⟨_, _, rfl⟩
  | panic m => exact absurd h (displaceEntries_no_panic _ _ _ _ m)
  | err e =>
    exfalso
    obtain ⟨_, i, hi, hov⟩ := displaceEntries_err r.width (by omega) sh _ _ e h
    rw [read_length] at hi
    have hic : i < r.count := by
      have hw0 : 0 < r.width := by omega
      have : r.width * (i + 1) ≤ r.width * r.count := hi
      exact Nat.lt_of_succ_le (Nat.le_of_mul_le_mul_left this hw0)
    have := Props.C01R.entryAt_read s r.off r.width r.count i hic
    rw [this] at hov
    apply hfit i hic
    rcases hov with h1 | h1
    · exact Or.inl h1
    · exact Or.inr h1

end

section
variable (s : Stream) (kind : SkipKind)

/-- the whole sanitizer on a clean, admitted top level: it returns whatever `finish` returns on the state the loop
    leaves, and that state is known (flags, span, the kept ftyp and the validated moov) -/
theorem sanitize_via (cfg : Config) (hl : s.len < u64Lim) (bs : List TopBox)
    (hch : Chain s s.len cfg.cumulativeMdatBoxSize 0 s.len bs)
    (mo : Nat) (htop : foldTop ⟨false, none⟩ bs = some ⟨true, some mo⟩) (d : Span) (hspan : foldSpan none bs = some (some d))
    (hside : ∀ b ∈ bs, BoxSideT s cfg b) (Q : Sanitized → Prop)
    (hfin : ∀ st', topOf st' = ⟨true, some mo⟩ → st'.data = some d → KeptIs s {} st' bs → KeptFIs s {} st' bs →
      SerOk st' → ∃ r, finish st' = .ok r ∧ Q r) :
    ∃ r, Mp4.sanitize s kind cfg = .ok r ∧ Q r := by
  have hscan := Tot.and_tri (scan_all s kind cfg hl bs hch _ htop _ hspan hside) (scan_keepF s kind cfg (fuelFor s) {} 0)
  obtain ⟨r, p, hrun, ⟨st', hr, hp, ht, hd, hk, hser⟩, hkf⟩ := hscan
  subst hr hp
  obtain ⟨bs2, hc2, hkf2, _⟩ := hkf st' rfl
  have hbs : bs2 = bs := by
    have w1 := walk_of_chain s s.len cfg.cumulativeMdatBoxSize bs 0 (s.len / 8 + 1) hch (by left; omega)
    have w2 := walk_of_chain s s.len cfg.cumulativeMdatBoxSize bs2 0 (s.len / 8 + 1) hc2 (by left; omega)
    rw [w1] at w2
    cases w2; rfl
  subst hbs
  obtain ⟨res, hfin', hQ⟩ := hfin st' ht hd hk hkf2 hser
  refine ⟨res, ?_, hQ⟩
  simp only [Mp4.sanitize, Mp4.sanitizeWith, run_eq_runF]
  have hprog : (sanitizeP cfg (fuelFor s)).runF (idealOps s kind) 0 = .ok (some res, s.len) := by
    unfold sanitizeP
    rw [runF_bind, hrun]
    dsimp only
    rw [runF_bind]
    have hce : checkEnd.runF (idealOps s kind) s.len = .ok ((), s.len) := by
      unfold checkEnd
      simp only [Prog.runF, idealOps, Nat.le_refl, if_true]
    rw [hce]
    dsimp only
    rw [runF_bind, hfin']
    rfl
  rw [hprog]
  rfl

/-- **C05, completeness, rewrite half**: a file that meets the documented rules, whose last moov does not start
    before its first mdat and for which no shifted offset overflows, is accepted with rewritten metadata. -/
theorem sanitize_of_rules_rewrite (cfg : Config) (hl : s.len < u64Lim) (hmax : cfg.maxMetadataSize ≤ 4 * Mp4.u32Max)
    (h : Rules s ⟨cfg.maxMetadataSize, cfg.cumulativeMdatBoxSize⟩ = true)
    (hn : NoMetadata s ⟨cfg.maxMetadataSize, cfg.cumulativeMdatBoxSize⟩ = false)
    (hov : Overflow s ⟨cfg.maxMetadataSize, cfg.cumulativeMdatBoxSize⟩ = false) :
    ∃ r, Mp4.sanitize s kind cfg = .ok r ∧ ∃ md, r.metadata = some md := by
  obtain ⟨bs, m, d, hw, hch, hm, htop, hd, hside, f, hfind⟩ := chain_of_rules s cfg hmax h
  obtain ⟨⟨m', hfm, hoff⟩, _, _⟩ := span_is_media_run bs 0 d (Chain.geo s hch) hd
  have hmmem : m ∈ bs := by
    unfold lastMoov at hm
    exact (List.mem_filter.mp (List.mem_of_getLast? hm)).1
  have hmname : m.name = moovN := by
    unfold lastMoov at hm
    have := (List.mem_filter.mp (List.mem_of_getLast? hm)).2
    rw [cc_moov] at this
    simpa using this
  have hfmem : f ∈ bs := List.mem_of_find?_eq_some hfind
  have hfname : f.name = ftypN := by simpa using List.find?_some hfind
  obtain ⟨hmok, hm4⟩ := (hside m hmmem).2 hmname
  have hfok := (hside f hfmem).1 hfname
  have hf1024 : f.payloadLen ≤ 1024 := by
    unfold ftypOk at hfok
    simp only [Bool.decide_and, Bool.and_eq_true, decide_eq_true_eq] at hfok
    exact hfok.2.1
  -- the tables of the last moov
  unfold moovOk at hmok
  simp only [Bool.and_eq_true, decide_eq_true_eq] at hmok
  obtain ⟨_, hmt⟩ := hmok
  cases hrs : moovTables s m with
  | none => rw [hrs] at hmt; cases hmt
  | some rs =>
  rw [hrs] at hmt
  dsimp only at hmt
  have hbound : ∀ r ∈ rs, r.width * r.count ≤ 4294967295 := by
    intro r hr
    have := List.all_eq_true.mp hmt r hr
    unfold Spec.Mp4Rules.u32Max at this
    exact of_decide_eq_true this
  -- moov does not precede the media
  have hnm : ¬ m.offset < d.offset := by
    unfold NoMetadata at hn
    simp only [hw, Walk.boxes, hm, hfm, decide_eq_false_iff_not] at hn
    omega
  -- the specification's shift
  have hfind' : bs.find? (fun b => decide (b.name = cc 'f' 't' 'y' 'p')) = some f := by rw [cc_ftyp]; exact hfind
  have hns : neededShift s ⟨cfg.maxMetadataSize, cfg.cumulativeMdatBoxSize⟩ = shiftOf (metadataLen f m) d.offset := by
    unfold neededShift shiftOf
    simp only [hw, Walk.boxes, hfind', hm, hfm, hoff]
  have hle : m.payloadOff ≤ m.endOff := headerAt_payload s _ _ _ m (chain_mem_header s _ _ bs 0 s.len hch m hmmem)
  apply sanitize_via s kind cfg hl bs hch m.offset htop d hd hside
  intro st' ht hdat hk hkf hser
  unfold KeptIs at hk
  rw [hm] at hk
  obtain ⟨mhdr, dm, total, hmv, hval⟩ := hk
  unfold KeptFIs at hkf
  rw [hfind] at hkf
  obtain ⟨_, fy, hfy, hfser⟩ := hkf
  have hmoff : st'.moovOffset = some m.offset := by
    have : (topOf st').moov = some m.offset := by rw [ht]
    exact this
  have hfl : fy.data.len ftypSer = f.payloadLen := by
    rw [← hser.1 fy hfy, hfser, read_length]
  have hml : (Box.mk mhdr dm).data.len ser5 = m.payloadLen := by
    rw [validateMoov_len _ dm total hval, read_length]
  have hplan := plan_of_shift (metadataLen f m) d.offset
  unfold metadataLen at hplan hns
  suffices hfin : ∃ md, finish st' = .ok ⟨some md, d⟩ by
    obtain ⟨md, e⟩ := hfin
    exact ⟨_, e, md, rfl⟩
  apply finish_rewrite st' fy ⟨mhdr, dm⟩ m.offset d f.payloadLen m.payloadLen hfy hmv hmoff hdat hnm hfl hml hf1024 hm4
  cases hsh : shiftOf (hdrLenFor f.payloadLen + f.payloadLen + hdrLenFor m.payloadLen + m.payloadLen) d.offset with
  | none => exact Or.inl (hplan.1 hsh)
  | some sh =>
    right
    rw [hsh] at hns
    unfold Overflow at hov
    simp only [hns, hw, Walk.boxes, hm, hrs, Bool.or_eq_false_iff, decide_eq_false_iff_not] at hov
    obtain ⟨⟨hlo, hhi⟩, hent⟩ := hov
    have hp := hplan.2 sh hsh (by omega) (by omega)
    have hfits : ∀ r ∈ rs, ∃ co' a, displaceCo sh ⟨r.width, r.count, s.read r.off (r.width * r.count)⟩ = .ok (co', a) := by
      intro r hr
      apply displaceCo_of_fits s r (moovTables_width s m rs hrs r hr) sh
      intro i hi hbad
      have h1 : (rs.any fun r => (List.range r.count).any fun i =>
          decide ((Spec.Mp4Walk.entryAt s r i : Int) + sh < 0 ∨ (Spec.Mp4Walk.entryAt s r i : Int) + sh ≥ (256 : Int) ^ r.width)) = true := by
        rw [List.any_eq_true]
        refine ⟨r, hr, ?_⟩
        rw [List.any_eq_true]
        exact ⟨i, List.mem_range.mpr hi, by simpa using hbad⟩
      rw [h1] at hent
      cases hent
    obtain ⟨d'', us, hfresh⟩ := moov_of_tables s (displaceCo sh) m hle rs hrs hbound hfits
    obtain ⟨d', hdisp⟩ := displace_of_fresh _ dm total hval sh d'' us hfresh
    exact ⟨0, sh, d', hp, hdisp⟩

/-- two chains over the whole stream are the same boxes -/
theorem chain_unique (ovr : Option Nat) (bs bs' : List TopBox) (h1 : Chain s s.len ovr 0 s.len bs)
    (h2 : Chain s s.len ovr 0 s.len bs') : bs' = bs := by
  have w1 := walk_of_chain s s.len ovr bs 0 (s.len / 8 + 1) h1 (by left; omega)
  have w2 := walk_of_chain s s.len ovr bs' 0 (s.len / 8 + 1) h2 (by left; omega)
  rw [w1] at w2
  cases w2; rfl

/-- **C05, the refusal clause, soundness**: a file that is accepted with rewritten metadata has no overflow in the
    specification's sense - the shift fits an i32 and every shifted entry stays inside its field. -/
theorem no_overflow_of_accept (cfg : Config) (hmax : cfg.maxMetadataSize ≤ 4 * Mp4.u32Max) (r : Sanitized) (md : Bytes)
    (hacc : Mp4.sanitize s kind cfg = .ok r) (hmd : r.metadata = some md)
    (h : Rules s ⟨cfg.maxMetadataSize, cfg.cumulativeMdatBoxSize⟩ = true) :
    Overflow s ⟨cfg.maxMetadataSize, cfg.cumulativeMdatBoxSize⟩ = false := by
  obtain ⟨bs, m, d, hw, hch, hm, htop, hd, hside, f, hfind⟩ := chain_of_rules s cfg hmax h
  -- the span of the result is the bookkeeping's
  obtain ⟨bs2, mo2, hc2, hsp2, _, _⟩ := sanitize_chain s kind cfg r hacc
  have e2 := chain_unique s _ bs bs2 hch hc2
  subst e2
  obtain ⟨⟨m', hfm, hoff⟩, _, _⟩ := span_is_media_run bs2 0 r.data (Chain.geo s hch) hsp2
  -- the kept state
  obtain ⟨st, bs3, hw3, hser, hk, hkf, hfin⟩ := Props.C01R.sanitize_keep s kind cfg r hacc
  have e3 : bs3 = bs2 := by
    unfold top at hw
    rw [hw3] at hw
    cases hw; rfl
  subst e3
  obtain ⟨ftyp, moov, mo, pad, disp, hfy, hmv, hmo, hdat, hnlt, hplan, hdv⟩ := finish_plan st r md hser hfin hmd
  unfold KeptIs at hk
  rw [hm] at hk
  obtain ⟨mhdr, dm, total, hmv', hval⟩ := hk
  rw [hmv] at hmv'
  simp only [Option.some.injEq] at hmv'
  subst hmv'
  unfold KeptFIs at hkf
  rw [hfind] at hkf
  obtain ⟨_, fy, hfy', hfser⟩ := hkf
  rw [hfy] at hfy'
  simp only [Option.some.injEq] at hfy'
  subst hfy'
  have hfl : ftyp.data.len ftypSer = f.payloadLen := by
    rw [← hser.1 ftyp hfy, hfser, read_length]
  have hml : (Box.mk mhdr dm).data.len ser5 = m.payloadLen := by
    rw [validateMoov_len _ dm total hval, read_length]
  rw [hfl, hml] at hplan
  have hsh := shift_of_plan _ _ _ _ hplan
  have hfind' : bs3.find? (fun b => decide (b.name = cc 'f' 't' 'y' 'p')) = some f := by rw [cc_ftyp]; exact hfind
  have hns : neededShift s ⟨cfg.maxMetadataSize, cfg.cumulativeMdatBoxSize⟩ = disp := by
    rw [← hsh]
    unfold neededShift shiftOf metadataLen
    simp only [hw, Walk.boxes, hfind', hm, hfm, hoff]
  unfold Overflow
  rw [hns]
  cases disp with
  | none => rfl
  | some dv =>
    have hΔ := hdv dv rfl
    obtain ⟨bs4, m4, T, mo4, hw4, hlm4, hmt, _, _, _, _, _, hent⟩ := Props.C01R.relocated s kind cfg r md hacc hmd
    have e4 : bs4 = bs3 := by
      unfold top at hw
      rw [hw4] at hw
      cases hw; rfl
    subst e4
    rw [hm] at hlm4
    simp only [Option.some.injEq] at hlm4
    subst hlm4
    have hb := Props.C01R.planRewrite_spec _ _ _ _ hplan
    rcases hb with ⟨e, _⟩ | ⟨e, _, b1, b2⟩
    · cases e
    simp only [Option.some.injEq] at e
    rw [← e] at b1 b2
    simp only [hw, Walk.boxes, hm, hmt]
    have c1 : decide (dv < -2147483648) = false := by simp only [decide_eq_false_iff_not]; omega
    have c2 : decide (dv > 2147483647) = false := by simp only [decide_eq_false_iff_not]; omega
    rw [c1, c2]
    simp only [Bool.or_self, Bool.false_or]
    rw [List.any_eq_false]
    intro x hx
    obtain ⟨y, hy, rfl⟩ := List.mem_map.mp hx
    rw [Bool.not_eq_true, List.any_eq_false]
    intro i hi
    have := hent y hy i (List.mem_range.mp hi)
    rw [hΔ] at this
    simp only [decide_eq_true_eq]
    omega

end
end MediaSan.Mp4
