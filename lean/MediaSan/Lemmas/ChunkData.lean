/-
  C15 for webpsan's `ChunkDataReader` (webpsan/src/reader.rs:255-310): the `Read + Skip` view of a chunk body, at
  nesting depth 1 (a chunk of the file) and 2 (a chunk inside an ANMF frame).  Every history of read / skip /
  stream_position / stream_len calls that stays inside the body observes exactly what the ideal cursor over the
  same bytes observes.
-/
import MediaSan.Lemmas.Hoare
import MediaSan.Webp.Sanitize
namespace MediaSan.Webp
open MediaSan

inductive DOp where
  | read (n : Nat) | skip (n : Nat) | pos | len
  deriving Repr

inductive DObs where
  | bytes (b : Bytes) | unit | nat (n : Nat)
  deriving DecidableEq, Repr

/-- a history on the data reader of level `k` (the reader stack is threaded through) -/
def histD (k : Nat) : List DOp → RS → List DObs → WP (List DObs)
  | [], _, acc => .done acc.reverse
  | .read n :: rest, r, acc => (rawRead r k n).bind fun x => histD k rest x.2 (.bytes x.1 :: acc)
  | .skip n :: rest, r, acc => (rawSkip r k n).bind fun r' => histD k rest r' (.unit :: acc)
  | .pos :: rest, r, acc => .position fun p => histD k rest r (.nat p :: acc)
  | .len :: rest, r, acc => .streamLen fun p => histD k rest r (.nat p :: acc)

/-- bytes a history consumes -/
def cost : List DOp → Nat
  | [] => 0
  | .read n :: rest => n + cost rest
  | .skip n :: rest => n + cost rest
  | _ :: rest => cost rest

/-- what the ideal cursor over `s`, started at `p`, observes -/
def expected (s : Stream) : List DOp → Nat → List DObs → List DObs
  | [], _, acc => acc.reverse
  | .read n :: rest, p, acc => expected s rest (p + n) (.bytes (s.read p n) :: acc)
  | .skip n :: rest, p, acc => expected s rest (p + n) (.unit :: acc)
  | .pos :: rest, p, acc => expected s rest p (.nat p :: acc)
  | .len :: rest, p, acc => expected s rest p (.nat s.len :: acc)

theorem bodyRemaining_consume (c : CState) (n : Nat) : bodyRemaining (consumeState c n) = bodyRemaining c - n := by
  cases c with
  | body name len rem =>
    by_cases h : rem - n = 0
    · simp only [consumeState, h, if_true, bodyRemaining]
    · simp only [consumeState, h, if_false, bodyRemaining]
  | idle => simp only [consumeState, bodyRemaining]; omega
  | peeking a b => simp only [consumeState, bodyRemaining]; omega
  | padding a b => simp only [consumeState, bodyRemaining]; omega

theorem bound_consume (r : RS) (k n rem : Nat) (hk : k = 1 ∨ k = 2) (hb : r.bound k = some rem) :
    (r.consume k n).bound k = some (rem - n) := by
  by_cases h0 : n = 0
  · subst h0; simp only [RS.consume, if_true, hb, Nat.sub_zero]
  · rcases hk with rfl | rfl
    · simp only [RS.bound, Option.some.injEq] at hb
      simp only [RS.consume, h0, if_false, RS.bound, bodyRemaining_consume, hb]
    · simp only [RS.bound, Option.some.injEq] at hb
      simp only [RS.consume, h0, if_false, RS.bound, bodyRemaining_consume]
      congr 1; omega

section
variable (s : Stream) (kind : SkipKind)

theorem ideal_skip_in (pos n : Nat) (hl : s.len < u64Lim) (h : pos + n ≤ s.len) :
    (idealOps s kind).skip pos n = .ok (pos + n) := by
  simp only [idealOps]
  cases kind with
  | strict => simp [h]
  | seekable =>
    dsimp only
    by_cases h0 : n = 0
    · simp [h0]
    · have : pos + n < u64Lim := by omega
      simp [h0, this]

theorem ideal_read_in (pos n : Nat) (h0 : n ≠ 0) (h : pos + n ≤ s.len) :
    (idealOps s kind).readExact pos n = .ok (s.read pos n, pos + n) := by
  simp only [idealOps, h0, if_false, h, if_true]

theorem ideal_position (pos : Nat) : (idealOps s kind).position pos = .ok (pos, pos) := rfl
theorem ideal_streamLen (pos : Nat) : (idealOps s kind).streamLen pos = .ok (s.len, pos) := rfl

/-- the history theorem with accumulator, final position included -/
theorem histD_run (k : Nat) (hk : k = 1 ∨ k = 2) (hl : s.len < u64Lim) (ops : List DOp) :
    ∀ (r : RS) (rem pos : Nat) (acc : List DObs), r.bound k = some rem → cost ops ≤ rem → pos + rem ≤ s.len →
      (histD k ops r acc).runF (idealOps s kind) pos = .ok (expected s ops pos acc, pos + cost ops) := by
  induction ops with
  | nil => intro r rem pos acc _ _ _; simp [histD, expected, cost, Prog.runF]
  | cons op rest ih =>
    intro r rem pos acc hb hc hfit
    cases op with
    | read n =>
      simp only [cost] at hc
      simp only [histD, runF_bind, rawRead, hb, within]
      by_cases h0 : n = 0
      · subst h0
        simp only [if_true, Prog.runF]
        have := ih r rem pos (.bytes [] :: acc) hb (by omega) hfit
        simp only [expected, cost, Nat.add_zero, Nat.zero_add]
        have e : s.read pos 0 = [] := rfl
        rw [e]; exact this
      · have hle : n ≤ rem := by omega
        have hin : pos + n ≤ s.len := by omega
        simp only [h0, if_false, hle, decide_true, if_true, Prog.runF, ideal_read_in s kind pos n h0 hin]
        have := ih (r.consume k n) (rem - n) (pos + n) (.bytes (s.read pos n) :: acc) (bound_consume r k n rem hk hb)
          (by omega) (by omega)
        simp only [expected, cost]
        rw [this]; congr 2; omega
    | skip n =>
      simp only [cost] at hc
      have hle : n ≤ rem := by omega
      simp only [histD, runF_bind, rawSkip, hb, within, hle, decide_true, if_true]
      by_cases h0 : n = 0
      · subst h0
        simp only [if_true, Prog.runF]
        have := ih r rem pos (.unit :: acc) hb (by omega) hfit
        simp only [expected, cost, Nat.add_zero, Nat.zero_add]
        exact this
      · simp only [h0, if_false, Prog.runF, ideal_skip_in s kind pos n hl (by omega)]
        have := ih (r.consume k n) (rem - n) (pos + n) (.unit :: acc) (bound_consume r k n rem hk hb) (by omega) (by omega)
        simp only [expected, cost]
        rw [this]; congr 2; omega
    | pos =>
      simp only [cost] at hc
      simp only [histD, Prog.runF, ideal_position, expected, cost]
      exact ih r rem pos _ hb hc hfit
    | len =>
      simp only [cost] at hc
      simp only [histD, Prog.runF, ideal_streamLen, expected, cost]
      exact ih r rem pos _ hb hc hfit

/-- a zero-length skip and a zero-length read succeed wherever the data reader stands, also once the body is
    exhausted (the state is then `padding` / `idle`) -/
theorem rawSkip_zero (r : RS) (k : Nat) (hk : k = 1 ∨ k = 2) (pos : Nat) :
    (rawSkip r k 0).runF (idealOps s kind) pos = .ok (r, pos) := by
  rcases hk with rfl | rfl <;> simp [rawSkip, RS.bound, within, Prog.runF]

/-- beyond the body the data reader refuses: nothing is read or skipped -/
theorem rawSkip_beyond (r : RS) (k rem n : Nat) (hb : r.bound k = some rem) (h : rem < n) (pos : Nat) :
    (rawSkip r k n).runF (idealOps s kind) pos = .parseErr .truncatedChunk := by
  have : ¬ n ≤ rem := by omega
  simp [rawSkip, hb, within, this, Prog.runF]

theorem rawRead_beyond (r : RS) (k rem n : Nat) (hb : r.bound k = some rem) (h : rem < n) (pos : Nat) :
    (rawRead r k n).runF (idealOps s kind) pos = .parseErr .truncatedChunk := by
  have : ¬ n ≤ rem := by omega
  have h0 : n ≠ 0 := by omega
  simp [rawRead, hb, within, this, h0, Prog.runF]

end
end MediaSan.Webp
