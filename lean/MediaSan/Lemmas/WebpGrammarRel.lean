/-
  C06, soundness, the pure half: the facts the model has established about an accepted input (`FileFacts`,
  Lemmas/WebpRel.lean) are what the independent recogniser `Grammar` (Spec/WebpGrammar.lean) asks for.
-/
import MediaSan.Lemmas.WebpRel
namespace MediaSan.Webp
open MediaSan MediaSan.Spec.WebpGrammar

section
variable (s : Stream)

/-- every chunk of a tiling lies inside the region -/
theorem CChain.fits {lim a b : Nat} {cs : List Chunk} (h : CChain s lim a b cs) : ∀ c ∈ cs, c.off + c.len ≤ lim := by
  induction cs generalizing a with
  | nil => intro c hc; cases hc
  | cons x xs ih =>
    intro c hc
    rcases List.mem_cons.mp hc with e | e
    · rw [e]; exact h.1.2.2.1
    · exact ih h.2 c e

theorem vp8lOk_of_seen (L : Nat) (c : Chunk) (expect : Option (Nat × Nat)) (h : Vp8lSeen s L c expect)
    (h1 : c.off + c.len ≤ L) (h2 : L ≤ s.len) : vp8lOk s c expect = true := by
  obtain ⟨h5, w, hh, hp, hd, hi⟩ := h
  have hfull := hi.full s h1 (by omega)
  have e : c.off + c.len - (c.off + 5) = c.len - 5 := by omega
  rw [e] at hfull
  unfold vp8lOk
  have : ¬ c.len < 5 := by omega
  simp only [this, if_false]
  rw [hp]
  dsimp only
  rw [hfull]
  cases expect with
  | none => rfl
  | some p =>
    obtain ⟨ew, eh⟩ := p
    simp only at hd
    simp [hd.1, hd.2]

theorem alphOk_of_seen (L : Nat) (c : Chunk) (w h : Nat) (hs : AlphSeen s L c w h)
    (h1 : c.off + c.len ≤ L) (h2 : L ≤ s.len) : alphOk s c w h = true := by
  obtain ⟨hl, hm, hi⟩ := hs
  unfold alphOk
  have : ¬ c.len < 1 := by omega
  simp only [this, if_false]
  have hm' : ¬ ((s.get c.off).toNat &&& 0x1d ≠ (s.get c.off).toNat) := by
    intro hne; exact hne hm
  simp only [hm', if_false]
  split
  · rename_i hodd
    have hfull := (hi hodd).full s h1 (by omega)
    have e : c.off + c.len - (c.off + 1) = c.len - 1 := by omega
    rw [e] at hfull
    rw [hfull]
  · rfl

theorem ne_VP8_ALPH : ¬ FVP8 = FALPH := by decide
theorem ne_VP8L_ALPH : ¬ FVP8L = FALPH := by decide
theorem ne_VP8L_VP8 : ¬ FVP8L = FVP8 := by decide

theorem trailingOk_of (allow : Bool) (us : List Chunk) (h : TrailingFacts allow us) : trailingOk us allow = true := by
  unfold trailingOk
  rw [h.1]
  rcases h.2 with e | e <;> simp [e]

/-- the image data of a still picture, as the recogniser reads it -/
theorem imageData_still (L : Nat) (hasAlph : Bool) (cw ch : Nat) (img tail : List Chunk)
    (h : StillImg s L hasAlph cw ch img) (hfit : ∀ c ∈ img, c.off + c.len ≤ L) (hL : L ≤ s.len) :
    imageData s (img ++ tail) hasAlph hasAlph cw ch = some tail := by
  rcases h with ⟨ha, a, v, e, an, seen, vn⟩ | ⟨ha, v, e, hv⟩
  · subst e ha
    have hok := alphOk_of_seen s L a cw ch seen (hfit a (by simp)) hL
    unfold imageData
    simp only [List.cons_append, List.nil_append]
    rw [cc_ALPH, cc_VP8]
    simp [an, hok, vn]
  · subst e ha
    unfold imageData
    simp only [List.cons_append, List.nil_append]
    rw [cc_ALPH, cc_VP8, cc_VP8L]
    rcases hv with hv | ⟨hv, seen⟩
    · have hna : ¬ v.name = FALPH := by rw [hv]; decide
      simp [hna, hv, ne_VP8_ALPH]
    · have hna : ¬ v.name = FALPH := by rw [hv]; decide
      have hnv : ¬ v.name = FVP8 := by rw [hv]; decide
      have hok := vp8lOk_of_seen s L v (some (cw, ch)) seen (hfit v (by simp)) hL
      simp [hna, hnv, hv, hok, ne_VP8L_ALPH, ne_VP8L_VP8]

/-- one finished frame, as the recogniser reads it -/
theorem frameOk_of_done (L1 : Nat) (af allow : Bool) (c : Chunk) (h : FrameDone s L1 af allow c)
    (h1 : c.off + c.len ≤ L1) (hL : L1 ≤ s.len) : frameOk s c af allow = true := by
  obtain ⟨_, h16, hfl, inner, hch, _, pre, v, us, einner, hunk, hallow, hbody⟩ := h
  have hmin : min (c.off + c.len) L1 = c.off + c.len := by omega
  rw [hmin] at hch hbody
  have hfits := CChain.fits s hch
  have hlist : chunkList s (c.off + 16) (c.off + c.len) = some inner := by
    unfold chunkList
    exact chunks_of_cchain s _ inner _ _ hch (by omega)
  unfold frameOk
  have e1 : ¬ c.len < 16 := by omega
  have e2 : ¬ ((s.get (c.off + 15)).toNat &&& 3 ≠ (s.get (c.off + 15)).toNat) := fun hne => hne hfl
  simp only [e1, if_false, e2, hlist]
  subst einner
  have hL2 : c.off + c.len ≤ s.len := by omega
  have hto : trailingOk us allow = true := trailingOk_of allow us ⟨hunk, hallow⟩
  rcases hbody with ⟨hp, hv⟩ | ⟨a, hp, haf, an, seen, vn⟩
  · subst hp
    simp only [List.nil_append, List.cons_append]
    unfold imageData
    rw [cc_ALPH, cc_VP8, cc_VP8L]
    rcases hv with hv | ⟨hv, seen⟩
    · have hna : ¬ v.name = FALPH := by rw [hv]; decide
      simp [hna, hv, hto, ne_VP8_ALPH]
    · have hna : ¬ v.name = FALPH := by rw [hv]; decide
      have hnv : ¬ v.name = FVP8 := by rw [hv]; decide
      have hok := vp8lOk_of_seen s _ v _ seen (hfits v (by simp)) hL2
      simp [hna, hnv, hv, hok, hto, ne_VP8L_ALPH, ne_VP8L_VP8]
  · subst hp haf
    simp only [List.cons_append, List.nil_append]
    have hok := alphOk_of_seen s _ a _ _ seen (hfits a (by simp)) hL2
    unfold imageData
    rw [cc_ALPH, cc_VP8]
    simp [an, hok, vn, hto]

theorem optChunk_spec (name : Bytes) (present : Bool) (opt rest : List Chunk)
    (h : (present = true ∧ ∃ x, opt = [x] ∧ x.name = name) ∨ (present = false ∧ opt = [])) :
    optChunk name present (opt ++ rest) = some rest := by
  unfold optChunk
  rcases h with ⟨hp, x, e, hn⟩ | ⟨hp, e⟩
  · subst e; simp [hp, hn]
  · subst e; simp [hp]

theorem takeWhile_prefix {α : Type} (p : α → Bool) (l tail : List α) (hl : ∀ x ∈ l, p x = true)
    (ht : ∀ y, tail.head? = some y → p y = false) : (l ++ tail).takeWhile p = l := by
  induction l with
  | nil =>
    cases tail with
    | nil => rfl
    | cons y ys => simp only [List.nil_append]; rw [List.takeWhile_cons_of_neg (by rw [ht y rfl]; simp)]
  | cons x xs ih =>
    simp only [List.cons_append]
    rw [List.takeWhile_cons_of_pos (hl x (by simp)), ih (fun y hy => hl y (List.mem_cons_of_mem _ hy))]

theorem isUnknown_not_anmf (c : Chunk) (h : isUnknown c = true) : c.name ≠ FANMF := by
  intro hn
  unfold isUnknown known at h
  rw [cc_ALPH, cc_ANIM, cc_ANMF, cc_EXIF, cc_ICCP, cc_VP8, cc_VP8L, cc_VP8X, cc_XMP, hn] at h
  revert h
  decide

/-- the chunks after VP8X, as the recogniser reads them -/
theorem extendedOk_of (L1 : Nat) (vp8x : Chunk) (flags cw ch : Nat) (allow : Bool) (body us : List Chunk)
    (hx : Vp8xFacts s vp8x flags cw ch) (hb : ExtBody s L1 flags cw ch allow body) (hu : TrailingFacts allow us)
    (hfit : ∀ c ∈ body, c.off + c.len ≤ L1) (hL : L1 ≤ s.len) :
    extendedOk s vp8x (body ++ us) allow = true := by
  obtain ⟨x1, x2, x3, x4, x5, x6, x7, x8, x9⟩ := hx
  obtain ⟨iccp, img, exif, xmp, eb, hic, himg, hex, hxm⟩ := hb
  subst eb
  unfold extendedOk
  have e1 : ¬ vp8x.len ≠ 10 := by omega
  have e2 : ¬ ((s.get vp8x.off).toNat &&& 0x3e ≠ (s.get vp8x.off).toNat) := by
    rw [← x2]; intro hne; exact hne x3
  have e3 : ¬ (s.read (vp8x.off + 1) 3 ≠ [0, 0, 0]) := by
    rw [read3]
    have a : vp8x.off + 1 + 1 = vp8x.off + 2 := by omega
    have b : vp8x.off + 1 + 2 = vp8x.off + 3 := by omega
    rw [a, b, x4, x5, x6]; simp
  have r4 : s.read (vp8x.off + 4) 3 = [s.get (vp8x.off + 4), s.get (vp8x.off + 5), s.get (vp8x.off + 6)] := by
    rw [read3]
  have r7 : s.read (vp8x.off + 7) 3 = [s.get (vp8x.off + 7), s.get (vp8x.off + 8), s.get (vp8x.off + 9)] := by
    rw [read3]
  have e4 : ¬ ((1 + leToNat (s.read (vp8x.off + 4) 3)) * (1 + leToNat (s.read (vp8x.off + 7) 3)) > 4294967295) := by
    rw [r4, r7, ← x7, ← x8, Nat.mul_comm]; omega
  simp only [e1, if_false, e2, e3, e4]
  rw [← x2, r4, r7, ← x7, ← x8]
  -- the flags, as the model's `flagSet`
  have fb : ∀ b : Nat, decide (flags / b % 2 = 1) = flagSet flags b := fun b => rfl
  simp only [fb]
  -- ICCP
  have hlist : iccp ++ img ++ exif ++ xmp ++ us = iccp ++ (img ++ (exif ++ (xmp ++ us))) := by simp
  rw [hlist, optChunk_spec _ _ iccp _ (by rw [cc_ICCP]; exact hic)]
  dsimp only
  -- the image
  have tailOk : ∀ rest : List Chunk, rest = exif ++ (xmp ++ us) →
      (match optChunk (cc 'E' 'X' 'I' 'F') (flagSet flags 8) rest with
        | none => false
        | some cs =>
          match optChunk (cc 'X' 'M' 'P' ' ') (flagSet flags 4) cs with
          | none => false
          | some cs => trailingOk cs allow) = true := by
    intro rest hr
    subst hr
    rw [optChunk_spec _ _ exif _ (by rw [cc_EXIF]; exact hex)]
    dsimp only
    rw [optChunk_spec _ _ xmp _ (by rw [cc_XMP]; exact hxm)]
    dsimp only
    exact trailingOk_of allow us hu
  rcases himg with ⟨h2, anim, f, fs, e, an, al, hfr⟩ | ⟨h2, hstill⟩
  · rw [if_pos h2]
    subst e
    simp only [List.cons_append]
    rw [cc_ANIM, cc_ANMF]
    have hna : ¬ (anim.name ≠ FANIM ∨ anim.len ≠ 6) := by
      intro hh; rcases hh with hh | hh
      · exact hh an
      · exact hh al
    simp only [hna, if_false]
    have htw : (f :: (fs ++ (exif ++ (xmp ++ us)))).takeWhile (fun x => decide (x.name = FANMF)) = f :: fs := by
      have := takeWhile_prefix (fun x : Chunk => decide (x.name = FANMF)) (f :: fs) (exif ++ (xmp ++ us))
        (by intro x hx'; simpa using (hfr x hx').1)
        (by
          intro y hy
          simp only [decide_eq_false_iff_not]
          -- the chunk after the frames is EXIF, XMP or an unknown chunk
          rcases hex with ⟨_, x, ex, exn⟩ | ⟨_, ex⟩
          · subst ex; simp only [List.cons_append, List.nil_append, List.head?_cons, Option.some.injEq] at hy
            rw [← hy, exn]; decide
          · subst ex
            rcases hxm with ⟨_, x, ex2, exn2⟩ | ⟨_, ex2⟩
            · subst ex2; simp only [List.nil_append, List.cons_append, List.head?_cons, Option.some.injEq] at hy
              rw [← hy, exn2]; decide
            · subst ex2
              simp only [List.nil_append] at hy
              cases us with
              | nil => cases hy
              | cons u us' =>
                simp only [List.head?_cons, Option.some.injEq] at hy
                have := hu.1
                simp only [List.all_cons, Bool.and_eq_true] at this
                rw [← hy]
                exact isUnknown_not_anmf u this.1)
      simpa using this
    rw [htw]
    have hall : (f :: fs).all (fun x => frameOk s x (flagSet flags 16) allow) = true := by
      rw [List.all_eq_true]
      intro x hx'
      exact frameOk_of_done s L1 _ allow x (hfr x hx')
        (hfit x (List.mem_append_left xmp (List.mem_append_left exif (List.mem_append_right iccp (List.mem_cons_of_mem anim hx'))))) hL
    simp only [List.isEmpty_cons, Bool.false_eq_true, if_false, hall, if_true]
    apply tailOk
    simp
  · have h2' : ¬ flagSet flags 2 = true := by rw [h2]; simp
    rw [if_neg h2']
    rw [imageData_still s L1 _ cw ch img _ hstill
      (fun c hc => hfit c (List.mem_append_left xmp (List.mem_append_left exif (List.mem_append_right iccp hc)))) hL]
    exact tailOk _ rfl

theorem ne_VP8L_VP8' : ¬ FVP8L = FVP8 := by decide
theorem ne_VP8X_VP8 : ¬ FVP8X = FVP8 := by decide
theorem ne_VP8X_VP8L : ¬ FVP8X = FVP8L := by decide

/-- everything the model has established about an accepted input is what the recogniser asks for -/
theorem grammar_of_facts (allow : Bool) (h : FileFacts s allow) : Grammar s allow = true := by
  obtain ⟨h12, hriff, hwebp, h4, hmax, hlen, hpad, all, hch, first, rest, eall, htop⟩ := h
  subst eall
  have hfits := CChain.fits s hch
  have hL : 8 + le32 s 4 ≤ s.len := by omega
  have hlist : chunkList s 12 (8 + le32 s 4) = some (first :: rest) := by
    unfold chunkList
    exact chunks_of_cchain s _ _ _ _ hch (by omega)
  unfold Grammar
  have e1 : ¬ s.len < 12 := by omega
  have e2 : ¬ (s.read 0 4 ≠ cc 'R' 'I' 'F' 'F' ∨ s.read 8 4 ≠ cc 'W' 'E' 'B' 'P') := by
    rw [cc_RIFF, cc_WEBP]
    intro hh; rcases hh with hh | hh
    · exact hh hriff
    · exact hh hwebp
  have e3 : ¬ (le32 s 4 + 8 + le32 s 4 % 2 ≠ s.len) := by omega
  have e4 : ¬ (le32 s 4 % 2 = 1 ∧ s.get (8 + le32 s 4) ≠ 0) := by
    intro ⟨ho, hne⟩; exact hne (hpad ho)
  have e5 : ¬ le32 s 4 > 4294967286 := by omega
  have e6 : ¬ le32 s 4 < 4 := by omega
  simp only [e1, if_false, e2, e3, e4, e5, e6, hlist]
  rw [cc_VP8, cc_VP8L, cc_VP8X]
  rcases htop with ⟨hn, ht⟩ | ⟨hn, hseen, ht⟩ | ⟨hn, flags, cw, ch, body, us, er, hx, hb, ht⟩
  · simp only [hn, if_true]
    exact trailingOk_of allow rest ht
  · have hok := vp8lOk_of_seen s _ first none hseen (hfits first (by simp)) hL
    simp only [hn, ne_VP8L_VP8', if_false, if_true, hok, Bool.true_and]
    exact trailingOk_of allow rest ht
  · subst er
    simp only [hn, ne_VP8X_VP8, ne_VP8X_VP8L, if_false, if_true]
    exact extendedOk_of s _ first flags cw ch allow body us hx hb ht
      (fun c hc => hfits c (List.mem_cons_of_mem _ (List.mem_append_left us hc))) hL

end
end MediaSan.Webp
