/-
  The whole lossless validator over the buffered reader (Vp8l/BufValidator.lean) equals the validator model over the
  whole byte string (Vp8l/Lossless.lean): same verdict, for every capacity of at least 11 bytes, every payload and
  every declared size.  Relation `RelL` of Lemmas/BufLoop.lean, function by function; post-conditions of the model's
  functions (every code built is finalized and at most 15 bits long) come from the `BSafe` logic.
-/
import MediaSan.Vp8l.BufValidator
import MediaSan.Lemmas.CodeFits
namespace MediaSan.Vp8l
open MediaSan MediaSan.Generated

theorem RelL.mono {α} {orig : Bytes} {r R : Nat} {m : BR α} {m' : BB α} (h : RelL orig r m m') (hr : r ≤ R) :
    RelL orig R m m' := fun s d ha hc => h s d ha (by omega)

theorem RelL.fail {α} (orig : Bytes) (R : Nat) (e : LErr) : RelL orig R (BR.fail e : BR α) (BB.fail e) := by
  intro s d _ _; rfl

theorem RelL.ensure (orig : Bytes) (R : Nat) (c : Bool) (e : LErr) : RelL orig R (ensure c e) (bbEnsure c e) := by
  unfold Vp8l.ensure bbEnsure
  cases c
  · exact RelL.fail orig R e
  · exact RelL.pure orig R ()

/-- sequencing, with a post-condition of the model's action (from the `BSafe` logic) handed to the continuation -/
theorem RelL.bind {α β} {orig : Bytes} {R : Nat} {m : BR α} {m' : BB α} {f : α → BR β} {f' : α → BB β}
    (Q : α → Prop) (hm : RelL orig R m m') (hq : BSafe m Q) (hf : ∀ a, Q a → RelL orig R (f a) (f' a)) :
    RelL orig R (m.bind f) (m'.bind f') := by
  intro s d ha hcap
  have h1 := hm s d ha hcap
  simp only [BB.bind, BR.bind_apply]
  cases hr : m' s with
  | error e => rw [hr] at h1; simp only at h1 ⊢; rw [h1]
  | ok x =>
    obtain ⟨a, s1⟩ := x
    rw [hr] at h1
    simp only at h1 ⊢
    obtain ⟨d1, e1, ha1, hc1⟩ := h1
    have hqa : Q a := by
      have := hq (BA orig) (s.absPos d)
      rw [e1] at this
      exact this
    rw [e1]
    simp only
    have h2 := hf a hqa s1 d1 ha1 (by rw [hc1]; exact hcap)
    cases hr2 : f' a s1 with
    | error e => rw [hr2] at h2; exact h2
    | ok y =>
      obtain ⟨b, s2⟩ := y
      rw [hr2] at h2
      obtain ⟨d2, e2, ha2, hc2⟩ := h2
      exact ⟨d2, e2, ha2, by rw [hc2, hc1]⟩

theorem RelL.bind' {α β} {orig : Bytes} {R : Nat} {m : BR α} {m' : BB α} {f : α → BR β} {f' : α → BB β}
    (hm : RelL orig R m m') (hf : ∀ a, RelL orig R (f a) (f' a)) : RelL orig R (m.bind f) (m'.bind f') := by
  intro s d ha hcap
  have h1 := hm s d ha hcap
  simp only [BB.bind, BR.bind_apply]
  cases hr : m' s with
  | error e => rw [hr] at h1; simp only at h1 ⊢; rw [h1]
  | ok x =>
    obtain ⟨a, s1⟩ := x
    rw [hr] at h1
    simp only at h1 ⊢
    obtain ⟨d1, e1, ha1, hc1⟩ := h1
    rw [e1]
    simp only
    have h2 := hf a s1 d1 ha1 (by rw [hc1]; exact hcap)
    cases hr2 : f' a s1 with
    | error e => rw [hr2] at h2; exact h2
    | ok y =>
      obtain ⟨b, s2⟩ := y
      rw [hr2] at h2
      obtain ⟨d2, e2, ha2, hc2⟩ := h2
      exact ⟨d2, e2, ha2, by rw [hc2, hc1]⟩

/-- `read(n)` through the buffer (refilling) is the model's `readBits n` -/
theorem RelL.read (orig : Bytes) (R n : Nat) (hn : n + 1 ≤ R) : RelL orig R (readBits n) (bbRead n) := by
  intro s d ha hcap
  have key := read_refines s orig d ha n (by omega)
  simp only [bbRead, BA]
  rw [readBits_eq_idealStep orig n]
  simp only [idealStep]
  cases hr : s.read n with
  | none => rw [hr] at key; simp only at key ⊢; rw [key]; rfl
  | some x =>
    obtain ⟨v, s'⟩ := x
    rw [hr] at key
    simp only at key ⊢
    obtain ⟨e1, d', ha', hp', hc'⟩ := key
    refine ⟨d', ?_, ha', hc'⟩
    rw [e1]
    simp only [Option.map_some]
    rw [hp']

theorem readBit_eq (b : ByteArray) (p : Nat) :
    readBit b p = match readBits 1 b p with
      | .ok (v, p') => .ok (v == 1, p')
      | .error e => .error e := by
  simp only [readBit, readBits, readBitsAux]
  cases bitAt b p with
  | none => rfl
  | some v => cases v <;> rfl

theorem RelL.readBit (orig : Bytes) (R : Nat) (hR : 2 ≤ R) : RelL orig R readBit bbReadBit := by
  intro s d ha hcap
  have key := RelL.read orig R 1 hR s d ha hcap
  simp only [bbRead] at key
  simp only [bbReadBit]
  rw [readBit_eq]
  cases hr : s.read 1 with
  | none => rw [hr] at key; simp only at key ⊢; rw [key]
  | some x =>
    obtain ⟨v, s'⟩ := x
    rw [hr] at key
    simp only at key ⊢
    obtain ⟨d', e1, ha', hc'⟩ := key
    exact ⟨d', by rw [e1], ha', hc'⟩

/-- `read_huffman` through the buffer (refilling) is the model's `readSym` -/
theorem RelL.readSym (orig : Bytes) (R B : Nat) (c : Code) (hc : CodeFits B c) (hB : B + 1 ≤ R) :
    RelL orig R (readSym c) (bbReadSym c) := by
  intro s d ha hcap
  obtain ⟨⟨hcomp, hh⟩, hl⟩ := hc
  have key := readSym_refines s orig d ha c hh (by omega)
  simp only [bbReadSym, BA]
  rw [readSym_eq_idealStep orig c hcomp]
  simp only [idealStep]
  cases hr : s.readSym c with
  | none => rw [hr] at key; simp only at key ⊢; rw [key]
  | some x =>
    obtain ⟨v, s'⟩ := x
    rw [hr] at key
    simp only at key ⊢
    obtain ⟨d', e1, ha', hc'⟩ := key
    exact ⟨d', by rw [e1], ha', hc'⟩

/-! ### function by function (R = 81 bits of read-ahead: capacity ≥ 11 bytes) -/

theorem newCode_rel (orig : Bytes) (lens : List (Nat × Nat)) (lenient : Bool) :
    RelL orig 81 (match newCode lens lenient with
      | .ok c => BR.pure c
      | .error e => BR.fail e)
      (match newCode lens lenient with
      | .ok c => BB.pure c
      | .error e => BB.fail e) := by
  cases newCode lens lenient with
  | ok c => exact RelL.pure orig 81 c
  | error e => exact RelL.fail orig 81 e

theorem readColorCache_rel (orig : Bytes) : RelL orig 81 readColorCache readColorCacheB := by
  unfold readColorCache readColorCacheB
  simp only [BR.bind_eq, BR.pure_eq, BB.bind_eq, BB.pure_eq]
  apply RelL.bind' (RelL.readBit orig 81 (by omega))
  intro has
  cases has
  · simp only [Bool.false_eq_true, if_false]
    exact RelL.pure orig 81 _
  · simp only [if_true]
    apply RelL.bind' (RelL.read orig 81 4 (by omega)); intro order
    apply RelL.bind' (RelL.ensure orig 81 _ _); intro _
    apply RelL.bind' (RelL.ensure orig 81 _ _); intro _
    exact RelL.pure orig 81 _

theorem clcGo_rel (orig : Bytes) (count : Nat) (order : List Nat) (k : Nat) (acc : List (Nat × Nat)) :
    RelL orig 81 (readCodeLengthCode.go count order k acc) (readCodeLengthCodeB.go count order k acc) := by
  induction order generalizing k acc with
  | nil => simp only [readCodeLengthCode.go, readCodeLengthCodeB.go]; exact RelL.pure orig 81 _
  | cons idx rest ih =>
    simp only [readCodeLengthCode.go, readCodeLengthCodeB.go]
    by_cases hk : k < count
    · simp only [hk, if_true, BR.bind_eq, BB.bind_eq]
      apply RelL.bind' (RelL.read orig 81 3 (by omega)); intro l
      exact ih _ _
    · simp only [hk, if_false]
      exact ih _ _

theorem readCodeLengthCode_rel (orig : Bytes) (cfg : LCfg) :
    RelL orig 81 (readCodeLengthCode cfg) (readCodeLengthCodeB cfg) := by
  unfold readCodeLengthCode readCodeLengthCodeB
  simp only [BR.bind_eq, BR.pure_eq, BB.bind_eq, BB.pure_eq]
  apply RelL.bind' (RelL.read orig 81 4 (by omega)); intro n
  apply RelL.bind' (clcGo_rel orig _ _ _ _); intro lens
  exact newCode_rel orig _ _

theorem readCodeLengths_rel (orig : Bytes) (clc : Code) (hc : CodeFits 7 clc) (maxCount reads n lnz : Nat)
    (syms : List (Nat × Nat)) :
    RelL orig 81 (readCodeLengths clc maxCount reads n lnz syms) (readCodeLengthsB clc maxCount reads n lnz syms) := by
  induction reads generalizing n lnz syms with
  | zero => simp only [readCodeLengths, readCodeLengthsB]; exact RelL.pure orig 81 _
  | succ reads ih =>
    simp only [readCodeLengths, readCodeLengthsB]
    by_cases hn : n = maxCount
    · simp only [hn, if_true]; exact RelL.pure orig 81 _
    · simp only [hn, if_false, BR.bind_eq, BR.pure_eq, BB.bind_eq, BB.pure_eq]
      apply RelL.bind' (RelL.readSym orig 81 7 clc hc (by omega)); intro code
      apply RelL.bind'
      · by_cases h15 : code ≤ 15
        · simp only [h15, if_true]; exact RelL.pure orig 81 _
        · simp only [h15, if_false]
          by_cases h16 : code = 16
          · simp only [h16, if_true]
            apply RelL.bind' (RelL.read orig 81 _ (by simp only [repeatBits16]; omega)); intro x
            exact RelL.pure orig 81 _
          · simp only [h16, if_false]
            by_cases h17 : code = 17
            · simp only [h17, if_true]
              apply RelL.bind' (RelL.read orig 81 _ (by simp only [repeatBits17]; omega)); intro x
              exact RelL.pure orig 81 _
            · simp only [h17, if_false]
              by_cases h18 : code = 18
              · simp only [h18, if_true]
                apply RelL.bind' (RelL.read orig 81 _ (by simp only [repeatBits18]; omega)); intro x
                exact RelL.pure orig 81 _
              · simp only [h18, if_false]
                exact RelL.fail orig 81 _
      · intro x
        obtain ⟨len, rep⟩ := x
        dsimp only
        apply RelL.bind' (RelL.ensure orig 81 _ _); intro _
        exact ih _ _ _

theorem readPrefixCode_rel (orig : Bytes) (cfg : LCfg) (alphabet : Nat) :
    RelL orig 81 (readPrefixCode cfg alphabet) (readPrefixCodeB cfg alphabet) := by
  unfold readPrefixCode readPrefixCodeB
  simp only [BR.bind_eq, BR.pure_eq, BB.bind_eq, BB.pure_eq]
  apply RelL.bind' (RelL.readBit orig 81 (by omega)); intro simple
  cases simple
  · simp only [Bool.false_eq_true, if_false]
    apply RelL.bind (CodeFits 7) (readCodeLengthCode_rel orig cfg) (readCodeLengthCode_fits cfg); intro clc hclc
    apply RelL.bind' (RelL.readBit orig 81 (by omega)); intro useMax
    apply RelL.bind'
    · cases useMax
      · simp only [Bool.false_eq_true, if_false]; exact RelL.pure orig 81 _
      · simp only [if_true]
        apply RelL.bind (fun k => k < 2 ^ 3) (RelL.read orig 81 3 (by omega)) (readBits_lt 3); intro k hk
        apply RelL.bind' (RelL.read orig 81 _ (by omega)); intro v
        exact RelL.pure orig 81 _
    · intro reads
      apply RelL.bind' (RelL.ensure orig 81 _ _); intro _
      apply RelL.bind' (readCodeLengths_rel orig clc hclc _ _ _ _ _); intro syms
      exact newCode_rel orig _ _
  · simp only [if_true]
    apply RelL.bind' (RelL.readBit orig 81 (by omega)); intro hasSecond
    apply RelL.bind' (RelL.readBit orig 81 (by omega)); intro first8
    apply RelL.bind'
    · cases first8
      · simp only [Bool.false_eq_true, if_false]; exact RelL.read orig 81 1 (by omega)
      · simp only [if_true]; exact RelL.read orig 81 8 (by omega)
    · intro first
      apply RelL.bind'
      · cases hasSecond
        · simp only [Bool.false_eq_true, if_false]; exact RelL.pure orig 81 _
        · simp only [if_true]
          apply RelL.bind' (RelL.read orig 81 8 (by omega)); intro second
          exact RelL.pure orig 81 _
      · intro named
        exact newCode_rel orig _ _

theorem readGroup_rel (orig : Bytes) (cfg : LCfg) (cache : Option Nat) :
    RelL orig 81 (readGroup cfg cache) (readGroupB cfg cache) := by
  unfold readGroup readGroupB
  simp only [BR.bind_eq, BR.pure_eq, BB.bind_eq, BB.pure_eq]
  apply RelL.bind' (readPrefixCode_rel orig cfg _); intro green
  apply RelL.bind' (readPrefixCode_rel orig cfg _); intro red
  apply RelL.bind' (readPrefixCode_rel orig cfg _); intro blue
  apply RelL.bind' (readPrefixCode_rel orig cfg _); intro alpha
  apply RelL.bind' (readPrefixCode_rel orig cfg _); intro dist
  exact RelL.pure orig 81 _

theorem readEntropyImage_rel (orig : Bytes) (cfg : LCfg) (width height : Nat) (chk : Nat → Bool) :
    RelL orig 81 (readEntropyImage cfg width height chk) (readEntropyImageB cfg width height chk) := by
  unfold readEntropyImage readEntropyImageB
  simp only [BR.bind_eq, BR.pure_eq, BB.bind_eq, BB.pure_eq]
  apply RelL.bind' (readColorCache_rel orig); intro cache
  apply RelL.bind Group.fits (readGroup_rel orig cfg cache) (readGroup_fits cfg cache); intro g hg
  exact (pixelLoop_refines g (Group.fits_ready hg) cache width _ chk orig _ 0 0).mono (Group.fits_readahead hg)

theorem readTransform_rel (orig : Bytes) (cfg : LCfg) (width height : Nat) :
    RelL orig 81 (readTransform cfg width height) (readTransformB cfg width height) := by
  unfold readTransform readTransformB
  simp only [BR.bind_eq, BR.pure_eq, BB.bind_eq, BB.pure_eq]
  apply RelL.bind' (RelL.read orig 81 2 (by omega)); intro t
  by_cases h0 : t = 0
  · simp only [h0, if_true]
    apply RelL.bind' (RelL.read orig 81 3 (by omega)); intro k
    apply RelL.bind' (readEntropyImage_rel orig cfg _ _ _); intro _
    exact RelL.pure orig 81 _
  · simp only [h0, if_false]
    by_cases h1 : t = 1
    · simp only [h1, if_true]
      apply RelL.bind' (RelL.read orig 81 3 (by omega)); intro k
      apply RelL.bind' (readEntropyImage_rel orig cfg _ _ _); intro _
      exact RelL.pure orig 81 _
    · simp only [h1, if_false]
      by_cases h2 : t = 2
      · simp only [h2, if_true]; exact RelL.pure orig 81 _
      · simp only [h2, if_false]
        apply RelL.bind' (RelL.read orig 81 8 (by omega)); intro n
        apply RelL.bind' (readEntropyImage_rel orig cfg _ _ _); intro _
        exact RelL.pure orig 81 _

theorem readTransforms_rel (orig : Bytes) (cfg : LCfg) (height fuel width : Nat) (seen : List TransformType) :
    RelL orig 81 (readTransforms cfg height fuel width seen) (readTransformsB cfg height fuel width seen) := by
  induction fuel generalizing width seen with
  | zero => simp only [readTransforms, readTransformsB]; exact RelL.pure orig 81 _
  | succ fuel ih =>
    simp only [readTransforms, readTransformsB, BR.bind_eq, BR.pure_eq, BB.bind_eq, BB.pure_eq]
    apply RelL.bind' (RelL.readBit orig 81 (by omega)); intro more
    cases more
    · simp only [Bool.false_eq_true, if_false]; exact RelL.pure orig 81 _
    · simp only [if_true]
      apply RelL.bind' (readTransform_rel orig cfg _ _); intro x
      obtain ⟨ty, width'⟩ := x
      dsimp only
      apply RelL.bind' (RelL.ensure orig 81 _ _); intro _
      exact ih _ _

theorem readGroups_rel (orig : Bytes) (cfg : LCfg) (cache : Option Nat) (n : Nat) :
    RelL orig 81 (readGroups cfg cache n) (readGroupsB cfg cache n) := by
  induction n with
  | zero => simp only [readGroups, readGroupsB]; exact RelL.pure orig 81 _
  | succ n ih =>
    simp only [readGroups, readGroupsB, BR.bind_eq, BB.bind_eq]
    apply RelL.bind' (readGroup_rel orig cfg cache); intro _
    exact ih

theorem readSpatial_rel (orig : Bytes) (cfg : LCfg) (width height : Nat) :
    RelL orig 81 (readSpatial cfg width height) (readSpatialB cfg width height) := by
  unfold readSpatial readSpatialB
  simp only [BR.bind_eq, BR.pure_eq, BB.bind_eq, BB.pure_eq]
  apply RelL.bind' (readColorCache_rel orig); intro cache
  apply RelL.bind' (RelL.readBit orig 81 (by omega)); intro hasMeta
  apply RelL.bind'
  · cases hasMeta
    · simp only [Bool.false_eq_true, if_false]; exact RelL.pure orig 81 _
    · simp only [if_true]
      apply RelL.bind' (RelL.read orig 81 3 (by omega)); intro k
      exact readEntropyImage_rel orig cfg _ _ _
  · intro maxGroup
    exact readGroups_rel orig cfg cache _

/-- **the whole validator over the buffered reader is the validator model** -/
theorem readLossless_rel (orig : Bytes) (cfg : LCfg) (width height : Nat) :
    RelL orig 81 (readLossless cfg width height) (readLosslessB cfg width height) := by
  unfold readLossless readLosslessB
  simp only [BR.bind_eq, BB.bind_eq]
  apply RelL.bind' (readTransforms_rel orig cfg _ _ _ _); intro w
  exact readSpatial_rel orig cfg _ _

/-- same verdict at every capacity of at least 11 bytes -/
theorem validateBuf_eq (cap : Nat) (hcap : 11 ≤ cap) (data : Bytes) (width height : Nat) (cfg : LCfg) :
    validateBuf cap data width height cfg = validate (BA data) width height cfg := by
  have key := readLossless_rel data cfg width height (BitBuf.new cap data) 0 (abs_new cap data)
    (by simp only [BitBuf.new]; omega)
  simp only [validateBuf, validate]
  have hp : (BitBuf.new cap data).absPos 0 = 0 := by simp [BitBuf.absPos, BitBuf.new]
  rw [hp] at key
  cases hr : readLosslessB cfg width height (BitBuf.new cap data) with
  | error e => rw [hr] at key; simp only at key ⊢; rw [key]
  | ok x =>
    obtain ⟨a, s'⟩ := x
    rw [hr] at key
    obtain ⟨d', e1, _, _⟩ := key
    simp only
    rw [e1]

end MediaSan.Vp8l
