/-
  C18 / C07 (soundness direction): a code-length vector accepted by the canonical-code builder has Kraft sum exactly 1
  (Σ 2^(H−len) = 2^H over the used symbols), unless it is the single-symbol-of-length-1 special case.
-/
import MediaSan.Vp8l.Huffman
namespace MediaSan.Vp8l
open MediaSan

/-- weight of the leaves of `t` under a depth budget `h`: a leaf at depth d weighs 2^(h−d) -/
def HTree.w : HTree → Nat → Nat
  | .empty, _ => 0
  | .leaf _, h => 2 ^ h
  | .node _ _, 0 => 0
  | .node z o, h + 1 => z.w h + o.w h

theorem complete_w (t : HTree) (h : Nat) (hc : t.complete = true) (hh : t.height ≤ h) : t.w h = 2 ^ h := by
  induction t generalizing h with
  | empty => simp [HTree.complete] at hc
  | leaf s => rfl
  | node z o ihz iho =>
    simp only [HTree.complete, Bool.and_eq_true] at hc
    simp only [HTree.height] at hh
    cases h with
    | zero => omega
    | succ h' =>
      simp only [HTree.w]
      rw [ihz h' hc.1 (by omega), iho h' hc.2 (by omega)]
      omega

theorem add_w (c : List Bool) (t t' : HTree) (s h : Nat) (ha : t.add c s = .ok t') (hc : c.length ≤ h)
    (hh : t.height ≤ h) : t'.w h = t.w h + 2 ^ (h - c.length) ∧ t'.height ≤ h := by
  induction c generalizing t t' h with
  | nil =>
    cases t with
    | empty => simp only [HTree.add, Except.ok.injEq] at ha; subst ha; simp [HTree.w, HTree.height]
    | leaf x => simp [HTree.add] at ha
    | node z o => simp [HTree.add] at ha
  | cons b cs ih =>
    simp only [List.length_cons] at hc
    cases h with
    | zero => omega
    | succ h' =>
      have e : h' + 1 - (cs.length + 1) = h' - cs.length := by omega
      cases t with
      | empty =>
        simp only [HTree.add] at ha
        cases hr : HTree.add .empty cs s with
        | error e => rw [hr] at ha; cases ha
        | ok t1 =>
          rw [hr] at ha
          simp only [Except.ok.injEq] at ha
          obtain ⟨h1, h2⟩ := ih .empty t1 h' hr (by omega) (by simp [HTree.height])
          simp only [HTree.w, Nat.zero_add] at h1
          subst ha
          have he0 : HTree.empty.height = 0 := rfl
          have hw0 : HTree.empty.w h' = 0 := rfl
          rw [List.length_cons, e]
          cases b with
          | true =>
            simp only [if_true]
            refine ⟨?_, ?_⟩
            · show HTree.empty.w h' + t1.w h' = 0 + 2 ^ (h' - cs.length)
              rw [hw0, h1]
            · show 1 + max HTree.empty.height t1.height ≤ h' + 1
              rw [he0]; omega
          | false =>
            simp only [Bool.false_eq_true, if_false]
            refine ⟨?_, ?_⟩
            · show t1.w h' + HTree.empty.w h' = 0 + 2 ^ (h' - cs.length)
              rw [hw0, h1]; omega
            · show 1 + max t1.height HTree.empty.height ≤ h' + 1
              rw [he0]; omega
      | leaf x => simp [HTree.add] at ha
      | node z o =>
        simp only [HTree.height] at hh
        simp only [HTree.add] at ha
        cases b with
        | true =>
          simp only [if_true] at ha
          cases hr : HTree.add o cs s with
          | error e => rw [hr] at ha; cases ha
          | ok t1 =>
            rw [hr] at ha
            simp only [Except.ok.injEq] at ha
            obtain ⟨h1, h2⟩ := ih o t1 h' hr (by omega) (by omega)
            subst ha
            simp only [HTree.w, HTree.height, h1, List.length_cons, e]
            exact ⟨by omega, by omega⟩
        | false =>
          simp only [Bool.false_eq_true, if_false] at ha
          cases hr : HTree.add z cs s with
          | error e => rw [hr] at ha; cases ha
          | ok t1 =>
            rw [hr] at ha
            simp only [Except.ok.injEq] at ha
            obtain ⟨h1, h2⟩ := ih z t1 h' hr (by omega) (by omega)
            subst ha
            simp only [HTree.w, HTree.height, h1, List.length_cons, e]
            exact ⟨by omega, by omega⟩

/-- total weight 2^(h−|code|) of a symbol list -/
def codesW (h : Nat) (syms : List (Nat × List Bool)) : Nat := (syms.map fun x => 2 ^ (h - x.2.length)).sum

theorem buildTree_w (syms : List (Nat × List Bool)) (t t' : HTree) (h : Nat) (hb : buildTree syms t = .ok t')
    (hl : ∀ x ∈ syms, x.2.length ≤ h) (hh : t.height ≤ h) : t'.w h = t.w h + codesW h syms ∧ t'.height ≤ h := by
  induction syms generalizing t with
  | nil => simp only [buildTree, Except.ok.injEq] at hb; subst hb; simp [codesW, hh]
  | cons x rest ih =>
    obtain ⟨s, c⟩ := x
    simp only [buildTree] at hb
    cases ha : t.add c s with
    | error e => rw [ha] at hb; cases hb
    | ok t1 =>
      rw [ha] at hb
      obtain ⟨a1, a2⟩ := add_w c t t1 s h ha (hl (s, c) (List.mem_cons_self ..)) hh
      obtain ⟨b1, b2⟩ := ih t1 hb (fun y hy => hl y (List.mem_cons_of_mem _ hy)) a2
      refine ⟨?_, b2⟩
      simp only [codesW, List.map_cons, List.sum_cons] at b1 ⊢
      omega

/-- a symbol list that compiles into a read tree has Kraft sum 1 -/
theorem compile_kraft (syms : List (Nat × List Bool)) (t : HTree) (h : Nat) (hc : compileReadTree syms = .ok t)
    (hl : ∀ x ∈ syms, x.2.length ≤ h) : codesW h syms = 2 ^ h := by
  simp only [compileReadTree] at hc
  cases hb : buildTree syms .empty with
  | error e => rw [hb] at hc; cases hc
  | ok t1 =>
    rw [hb] at hc
    dsimp only at hc
    split at hc
    · rename_i hcomp
      obtain ⟨b1, b2⟩ := buildTree_w syms .empty t1 h hb hl (by simp [HTree.height])
      have := complete_w t1 h hcomp b2
      simp only [HTree.w, Nat.zero_add] at b1
      omega
    · cases hc

theorem resizeCode_length (c : List Bool) (n : Nat) : (resizeCode c n).length = n := by
  simp only [resizeCode, List.length_append, List.length_take, List.length_replicate]; omega

theorem assignCodes_lengths (rest : List (Nat × Nat)) (prev : List Bool) :
    (assignCodes rest prev).map (fun x => x.2.length) = rest.map (·.2) := by
  induction rest generalizing prev with
  | nil => rfl
  | cons x xs ih =>
    obtain ⟨s, len⟩ := x
    simp only [assignCodes, List.map_cons, resizeCode_length, ih]

/-! ### sums are invariant under the (length, symbol) sort -/

theorem insertBySym_sum (f : Nat × Nat → Nat) (x : Nat × Nat) (l : List (Nat × Nat)) :
    ((insertBySym x l).map f).sum = f x + (l.map f).sum := by
  induction l with
  | nil => simp [insertBySym]
  | cons y ys ih =>
    simp only [insertBySym]
    split
    · simp
    · simp only [List.map_cons, List.sum_cons, ih]; omega

theorem sortBySym_sum (f : Nat × Nat → Nat) (l : List (Nat × Nat)) : ((sortBySym l).map f).sum = (l.map f).sum := by
  induction l with
  | nil => rfl
  | cons y ys ih =>
    simp only [sortBySym, List.foldr_cons] at ih ⊢
    rw [insertBySym_sum, ih]; simp

theorem sum_flatMap {α β} (l : List α) (g : α → List β) (f : β → Nat) :
    ((l.flatMap g).map f).sum = (l.map fun a => ((g a).map f).sum).sum := by
  induction l with
  | nil => rfl
  | cons a as ih => simp only [List.flatMap_cons, List.map_append, List.sum_append, List.map_cons, List.sum_cons, ih]

theorem sum_zero_of_all (l : List Nat) (h : ∀ x ∈ l, x = 0) : l.sum = 0 := by
  induction l with
  | nil => rfl
  | cons a as ih =>
    simp only [List.sum_cons]
    rw [h a (List.mem_cons_self ..), ih (fun x hx => h x (List.mem_cons_of_mem _ hx))]

/-- Σ over len ≤ M of (if k = len then a else 0) = a, when k ≤ M -/
theorem sum_range_ite (M k a : Nat) (hk : k ≤ M) :
    ((List.range (M + 1)).map fun len => if k = len then a else 0).sum = a := by
  induction M with
  | zero =>
    have : k = 0 := by omega
    subst this; simp
  | succ m ih =>
    rw [List.range_succ, List.map_append, List.sum_append]
    by_cases hkm : k ≤ m
    · rw [ih hkm]
      have : ¬ k = m + 1 := by omega
      simp [this]
    · have hk2 : k = m + 1 := by omega
      subst hk2
      have hz : ((List.range (m + 1)).map fun len => if m + 1 = len then a else 0).sum = 0 := by
        apply sum_zero_of_all
        intro x hx
        simp only [List.mem_map, List.mem_range] at hx
        obtain ⟨len, hl, rfl⟩ := hx
        have : ¬ m + 1 = len := by omega
        simp [this]
      rw [hz]; simp

theorem bucket_sum (f : Nat × Nat → Nat) (l : List (Nat × Nat)) (M : Nat) (hM : ∀ x ∈ l, x.2 ≤ M) :
    ((List.range (M + 1)).map fun len => ((l.filter (·.2 == len)).map f).sum).sum = (l.map f).sum := by
  induction l with
  | nil =>
    simp only [List.filter_nil, List.map_nil, List.sum_nil]
    apply sum_zero_of_all
    intro x hx
    simp only [List.mem_map] at hx
    obtain ⟨_, _, rfl⟩ := hx
    rfl
  | cons y ys ih =>
    have hy := hM y (List.mem_cons_self ..)
    have ih' := ih (fun x hx => hM x (List.mem_cons_of_mem _ hx))
    have split : ∀ len, (((y :: ys).filter (·.2 == len)).map f).sum =
        (if y.2 = len then f y else 0) + ((ys.filter (·.2 == len)).map f).sum := by
      intro len
      by_cases h : y.2 = len
      · simp [List.filter_cons, h]
      · have : (y.2 == len) = false := by simpa using h
        simp [List.filter_cons, this, h]
    simp only [split]
    rw [show ((List.range (M + 1)).map fun len => (if y.2 = len then f y else 0) + ((ys.filter (·.2 == len)).map f).sum).sum
        = ((List.range (M + 1)).map fun len => if y.2 = len then f y else 0).sum +
          ((List.range (M + 1)).map fun len => ((ys.filter (·.2 == len)).map f).sum).sum from by
      generalize List.range (M + 1) = r
      induction r with
      | nil => rfl
      | cons a as iha => simp only [List.map_cons, List.sum_cons, iha]; omega]
    rw [sum_range_ite M y.2 (f y) hy, ih']
    simp

theorem foldl_max_ge (l : List (Nat × Nat)) (m0 : Nat) :
    m0 ≤ l.foldl (fun m x => max m x.2) m0 ∧ ∀ x ∈ l, x.2 ≤ l.foldl (fun m x => max m x.2) m0 := by
  induction l generalizing m0 with
  | nil => exact ⟨Nat.le_refl _, by intro x hx; cases hx⟩
  | cons y ys ih =>
    simp only [List.foldl_cons]
    obtain ⟨h1, h2⟩ := ih (max m0 y.2)
    refine ⟨by omega, ?_⟩
    intro x hx
    simp only [List.mem_cons] at hx
    rcases hx with rfl | hx
    · omega
    · exact h2 x hx

theorem sortByLenSym_sum (f : Nat × Nat → Nat) (l : List (Nat × Nat)) :
    ((sortByLenSym l).map f).sum = (l.map f).sum := by
  simp only [sortByLenSym]
  rw [sum_flatMap]
  simp only [sortBySym_sum]
  exact bucket_sum f l _ (foldl_max_ge l 0).2

theorem filter_sum {α} (p : α → Bool) (f : α → Nat) (l : List α) :
    ((l.filter p).map f).sum = (l.map fun x => if p x then f x else 0).sum := by
  induction l with
  | nil => rfl
  | cons a as ih =>
    by_cases h : p a = true
    · simp [List.filter_cons, h, ih]
    · have : p a = false := by simpa using h
      simp [List.filter_cons, this, ih]

/-- Kraft weight of a length vector: Σ over the used symbols of 2^(H − len) -/
def kraftW (H : Nat) (lens : List (Nat × Nat)) : Nat :=
  (lens.map fun x => if x.2 ≠ 0 then 2 ^ (H - x.2) else 0).sum

/-- Soundness of the canonical-code builder: an accepted code-length vector is either the single-symbol special case
    (exactly one used symbol, of length 1) or has Kraft sum exactly 1: Σ 2^(H−len) = 2^H for every H bounding the
    lengths.  In particular no under- or over-subscribed length set is ever accepted. -/
theorem newCode_kraft (lens : List (Nat × Nat)) (c : Code) (H : Nat) (hH : ∀ x ∈ lens, x.2 ≤ H)
    (h : newCode lens = .ok c) :
    (∃ s, (sortByLenSym lens).filter (fun x => x.2 ≠ 0) = [(s, 1)]) ∨ kraftW H lens = 2 ^ H := by
  -- the sorted non-zero entries
  have hsum : (((sortByLenSym lens).filter (fun x => x.2 ≠ 0)).map fun x => 2 ^ (H - x.2)).sum = kraftW H lens := by
    rw [filter_sum, sortByLenSym_sum]
    simp [kraftW]
  have hle : ∀ x ∈ (sortByLenSym lens).filter (fun x => x.2 ≠ 0), x.2 ≤ H := by
    intro x hx
    have hx1 := (List.mem_filter.mp hx).1
    simp only [sortByLenSym, List.mem_flatMap, List.mem_range] at hx1
    obtain ⟨len, _, hx2⟩ := hx1
    -- members of a sorted bucket are members of the list
    have mem_sort : ∀ (l : List (Nat × Nat)) y, y ∈ sortBySym l → y ∈ l := by
      intro l
      induction l with
      | nil => intro y hy; simpa [sortBySym] using hy
      | cons a as ih =>
        intro y hy
        simp only [sortBySym, List.foldr_cons] at hy ih
        have mem_ins : ∀ (l : List (Nat × Nat)) z, z ∈ insertBySym a l → z = a ∨ z ∈ l := by
          intro l
          induction l with
          | nil => intro z hz; simpa [insertBySym] using hz
          | cons b bs ihb =>
            intro z hz
            simp only [insertBySym] at hz
            split at hz
            · simp only [List.mem_cons] at hz ⊢; rcases hz with h | h | h <;> simp [h]
            · simp only [List.mem_cons] at hz ⊢
              rcases hz with h | h
              · right; left; exact h
              · rcases ihb z h with h2 | h2
                · left; exact h2
                · right; right; exact h2
        rcases mem_ins _ y hy with h1 | h1
        · simp [h1]
        · exact List.mem_cons_of_mem _ (ih y h1)
    have := mem_sort _ x hx2
    exact hH x (List.mem_filter.mp this).1
  simp only [newCode, fromSymbols] at h
  cases hcr : compileReadTree (canonicalSymbols lens) with
  | error e => rw [hcr] at h; cases h
  | ok t =>
    clear h
    cases hnz : (sortByLenSym lens).filter (fun x => x.2 ≠ 0) with
    | nil =>
      have : canonicalSymbols lens = [] := by simp only [canonicalSymbols, hnz]
      rw [this] at hcr
      simp [compileReadTree, buildTree, HTree.complete] at hcr
    | cons a rest =>
      obtain ⟨s, len⟩ := a
      rw [hnz] at hsum hle
      cases rest with
      | nil =>
        match len, hnz, hsum, hle with
        | 1, _, _, _ => left; exact ⟨s, rfl⟩
        | 0, hnz, hsum, hle =>
          right
          have : canonicalSymbols lens = [(s, List.replicate 0 false)] := by simp only [canonicalSymbols, hnz]; rfl
          rw [this] at hcr
          have := compile_kraft _ t H hcr (by intro x hx; simp at hx; subst hx; simp)
          simp only [codesW, List.map_cons, List.map_nil, List.sum_cons, List.sum_nil, List.length_replicate] at this
          simp only [List.map_cons, List.map_nil, List.sum_cons, List.sum_nil] at hsum
          omega
        | n + 2, hnz, hsum, hle =>
          right
          have : canonicalSymbols lens = [(s, List.replicate (n + 2) false)] := by simp only [canonicalSymbols, hnz]; rfl
          rw [this] at hcr
          have hl := hle (s, n + 2) (List.mem_cons_self ..)
          have := compile_kraft _ t H hcr (by intro x hx; simp at hx; subst hx; simpa using hl)
          simp only [codesW, List.map_cons, List.map_nil, List.sum_cons, List.sum_nil, List.length_replicate] at this
          simp only [List.map_cons, List.map_nil, List.sum_cons, List.sum_nil] at hsum
          omega
      | cons y rest2 =>
        right
        have hcs : canonicalSymbols lens =
            (s, List.replicate len false) :: assignCodes (y :: rest2) (List.replicate len false) := by
          simp only [canonicalSymbols, hnz]
        rw [hcs] at hcr
        have hlens : ((s, List.replicate len false) :: assignCodes (y :: rest2) (List.replicate len false)).map
            (fun x => x.2.length) = ((s, len) :: y :: rest2).map (·.2) := by
          rw [List.map_cons, assignCodes_lengths]
          simp
        have hbound : ∀ x ∈ ((s, List.replicate len false) :: assignCodes (y :: rest2) (List.replicate len false)),
            x.2.length ≤ H := by
          intro x hx
          have : x.2.length ∈ ((s, len) :: y :: rest2).map (·.2) := by
            rw [← hlens]; exact List.mem_map_of_mem hx
          simp only [List.mem_map] at this
          obtain ⟨z, hz, hz2⟩ := this
          rw [← hz2]; exact hle z hz
        have hk := compile_kraft _ t H hcr hbound
        have e2 : codesW H ((s, List.replicate len false) :: assignCodes (y :: rest2) (List.replicate len false)) =
            (((s, len) :: y :: rest2).map fun x => 2 ^ (H - x.2)).sum := by
          simp only [codesW]
          have : (((s, List.replicate len false) :: assignCodes (y :: rest2) (List.replicate len false)).map
              fun x => 2 ^ (H - x.2.length)) =
              ((((s, List.replicate len false) :: assignCodes (y :: rest2) (List.replicate len false)).map
                fun x => x.2.length).map fun n => 2 ^ (H - n)) := by
            rw [List.map_map]; rfl
          rw [this, hlens, List.map_map]
          rfl
        rw [e2] at hk
        rw [← hsum]; exact hk

end MediaSan.Vp8l
