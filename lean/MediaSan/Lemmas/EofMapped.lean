/-
  `EofMapped p`: every `read_exact` / `skip` request of the program carries a `map_eof` annotation, i.e. an
  UnexpectedEof from the input can only surface as the annotated parse error.  Both sanitizers satisfy it; on the
  ideal (fault-free, in-memory) cursor this is why a short file is a Parse error and never `Error::Io`.
-/
import MediaSan.Lemmas.Prog
import MediaSan.Mp4.Sanitize
namespace MediaSan
open MediaSan

inductive EofMapped {E α : Type} : Prog E α → Prop
  | done (a : α) : EofMapped (.done a)
  | fail (e : E) : EofMapped (.fail e)
  | panic (s : String) : EofMapped (.panic s)
  | isEof (k : Bool → Prog E α) : (∀ b, EofMapped (k b)) → EofMapped (.isEof k)
  | position (k : Nat → Prog E α) : (∀ b, EofMapped (k b)) → EofMapped (.position k)
  | streamLen (k : Nat → Prog E α) : (∀ b, EofMapped (k b)) → EofMapped (.streamLen k)
  | readExact (n : Nat) (e : E) (k : Bytes → Prog E α) : (∀ b, EofMapped (k b)) → EofMapped (.readExact n (some e) k)
  | skip (n : Nat) (e : E) (k : Unit → Prog E α) : (∀ b, EofMapped (k b)) → EofMapped (.skip n (some e) k)
  | readUpTo (n : Nat) (k : Bytes → Prog E α) : (∀ b, EofMapped (k b)) → EofMapped (.readUpTo n k)

theorem EofMapped.bind {E α β} {p : Prog E α} {f : α → Prog E β} (hp : EofMapped p) (hf : ∀ a, EofMapped (f a)) :
    EofMapped (p.bind f) := by
  induction hp with
  | done a => exact hf a
  | fail e => exact .fail e
  | panic s => exact .panic s
  | isEof k _ ih => exact .isEof _ ih
  | position k _ ih => exact .position _ ih
  | streamLen k _ ih => exact .streamLen _ ih
  | readExact n e k _ ih => exact .readExact n e _ ih
  | skip n e k _ ih => exact .skip n e _ ih
  | readUpTo n k _ ih => exact .readUpTo n _ ih

/-- On a cursor whose `read_exact`/`skip` fail only with UnexpectedEof or with a kind in `Q`, and whose other
    operations fail only with kinds in `Q`, an eof-mapped program ends in `ioErr k` only for `k` in `Q`. -/
theorem run_io_of_mapped {E α σ} (ops : CursorOps σ) (Q : IoKind → Prop)
    (h1 : ∀ st e, (∃ x, ops.isEof st = .error e ∧ x = e) → Q e)
    (h2 : ∀ st e, ops.position st = .error e → Q e)
    (h3 : ∀ st e, ops.streamLen st = .error e → Q e)
    (h4 : ∀ st n e, ops.readExact st n = .error e → e = .unexpectedEof ∨ Q e)
    (h5 : ∀ st n e, ops.skip st n = .error e → e = .unexpectedEof ∨ Q e)
    (h6 : ∀ st n e, ops.readUpTo st n = .error e → Q e)
    (p : Prog E α) (hp : EofMapped p) (st : σ) (k : IoKind) (hr : p.run ops st = .ioErr k) : Q k := by
  induction hp generalizing st with
  | done a => simp [Prog.run] at hr
  | fail e => simp [Prog.run] at hr
  | panic s => simp [Prog.run] at hr
  | isEof f _ ih =>
    simp only [Prog.run] at hr
    cases ho : ops.isEof st with
    | ok r => rw [ho] at hr; exact ih _ _ hr
    | error e =>
      rw [ho] at hr
      simp only [Outcome.ioErr.injEq] at hr
      subst hr; exact h1 st e ⟨e, ho, rfl⟩
  | position f _ ih =>
    simp only [Prog.run] at hr
    cases ho : ops.position st with
    | ok r => rw [ho] at hr; exact ih _ _ hr
    | error e =>
      rw [ho] at hr
      simp only [Outcome.ioErr.injEq] at hr
      subst hr; exact h2 st e ho
  | streamLen f _ ih =>
    simp only [Prog.run] at hr
    cases ho : ops.streamLen st with
    | ok r => rw [ho] at hr; exact ih _ _ hr
    | error e =>
      rw [ho] at hr
      simp only [Outcome.ioErr.injEq] at hr
      subst hr; exact h3 st e ho
  | readExact n pe f _ ih =>
    simp only [Prog.run] at hr
    cases ho : ops.readExact st n with
    | ok r => rw [ho] at hr; exact ih _ _ hr
    | error e =>
      rw [ho] at hr
      rcases h4 st n e ho with he | hq
      · subst he; simp [mapEof] at hr
      · cases e <;> simp [mapEof] at hr <;> (subst hr; exact hq)
  | skip n pe f _ ih =>
    simp only [Prog.run] at hr
    cases ho : ops.skip st n with
    | ok r => rw [ho] at hr; exact ih _ _ hr
    | error e =>
      rw [ho] at hr
      rcases h5 st n e ho with he | hq
      · subst he; simp [mapEof] at hr
      · cases e <;> simp [mapEof] at hr <;> (subst hr; exact hq)
  | readUpTo n f _ ih =>
    simp only [Prog.run] at hr
    cases ho : ops.readUpTo st n with
    | ok r => rw [ho] at hr; exact ih _ _ hr
    | error e =>
      rw [ho] at hr
      simp only [Outcome.ioErr.injEq] at hr
      subst hr; exact h6 st n e ho

namespace Mp4

/-- try to discharge `EofMapped` goals structurally -/
macro "eofmapped" : tactic =>
  `(tactic| repeat (first
      | exact EofMapped.done _
      | exact EofMapped.fail _
      | exact EofMapped.panic _
      | apply EofMapped.bind
      | apply EofMapped.isEof
      | apply EofMapped.position
      | apply EofMapped.streamLen
      | apply EofMapped.readExact
      | apply EofMapped.skip
      | apply EofMapped.readUpTo
      | intro _
      | split))

theorem liftPure_mapped {α} (x : PureRes α) : EofMapped (liftPure x) := by cases x <;> constructor
theorem liftExcept_mapped {α} (x : Except PErr α) : EofMapped (liftExcept x) := by cases x <;> constructor
theorem addU64_mapped (s : String) (a b : Nat) : EofMapped (addU64 s a b) := by unfold addU64; eofmapped
theorem subU64_mapped (s : String) (a b : Nat) : EofMapped (subU64 s a b) := by unfold subU64; eofmapped

theorem readHeader_mapped : EofMapped readHeader := by
  unfold readHeader
  apply EofMapped.readExact; intro szb
  apply EofMapped.readExact; intro name
  dsimp only
  split
  · split <;> eofmapped
  · split
    · apply EofMapped.readExact; intro e
      split <;> eofmapped
    · split <;> eofmapped

theorem boxDataSize_mapped (h : BoxHeader) : EofMapped (boxDataSize h) := by
  unfold boxDataSize
  split
  · constructor
  · constructor
  · apply EofMapped.streamLen; intro l
    apply EofMapped.position; intro p
    exact subU64_mapped _ _ _

theorem skipBox_mapped (h : BoxHeader) : EofMapped (skipBox h) := by
  unfold skipBox
  apply EofMapped.bind (boxDataSize_mapped h)
  intro n; eofmapped

theorem readData_mapped (h : BoxHeader) (m : Nat) : EofMapped (readData h m) := by
  unfold readData
  apply EofMapped.bind (boxDataSize_mapped h)
  intro n; eofmapped

theorem extendData_mapped (d : Option Span) (a b : Nat) : EofMapped (extendData d a b) := by
  unfold extendData
  split
  · constructor
  · apply EofMapped.bind (addU64_mapped _ _ _)
    intro e
    split
    · apply EofMapped.bind (addU64_mapped _ _ _); intro l; constructor
    · constructor

end Mp4
end MediaSan

namespace MediaSan.Mp4
open MediaSan

macro "eofmapped2" : tactic =>
  `(tactic| repeat (first
      | exact EofMapped.done _
      | exact EofMapped.fail _
      | exact EofMapped.panic _
      | exact readHeader_mapped
      | exact skipBox_mapped _
      | exact readData_mapped _ _
      | exact extendData_mapped _ _ _
      | exact addU64_mapped _ _ _
      | exact subU64_mapped _ _ _
      | exact liftPure_mapped _
      | exact liftExcept_mapped _
      | apply EofMapped.bind
      | apply EofMapped.isEof
      | apply EofMapped.position
      | apply EofMapped.streamLen
      | apply EofMapped.readExact
      | apply EofMapped.skip
      | apply EofMapped.readUpTo
      | intro _
      | (show EofMapped (Prog.done _); exact EofMapped.done _)
      | (dsimp only)
      | split))

theorem scanBody_mapped (cfg : Config) (st : ScanState) (startPos : Nat) (header : BoxHeader) :
    EofMapped (scanBody cfg st startPos header) := by
  unfold scanBody
  eofmapped2

theorem scanBox_mapped (cfg : Config) (st : ScanState) : EofMapped (scanBox cfg st) := by
  unfold scanBox
  apply EofMapped.position; intro startPos
  exact EofMapped.bind readHeader_mapped (fun h => scanBody_mapped cfg st startPos h)

theorem scan_mapped (cfg : Config) (fuel : Nat) (st : ScanState) : EofMapped (scan cfg fuel st) := by
  induction fuel generalizing st with
  | zero => exact .done _
  | succ n ih =>
    unfold scan
    apply EofMapped.isEof; intro eof
    split
    · exact .done _
    · exact EofMapped.bind (scanBox_mapped cfg st) (fun st' => ih st')

theorem checkEnd_mapped : EofMapped checkEnd := by
  unfold checkEnd
  eofmapped2

/-- the whole MP4 sanitizer program is eof-mapped -/
theorem sanitizeP_mapped (cfg : Config) (fuel : Nat) : EofMapped (sanitizeP cfg fuel) := by
  unfold sanitizeP
  apply EofMapped.bind (scan_mapped cfg fuel {})
  intro r
  cases r with
  | none => exact .done _
  | some st =>
    apply EofMapped.bind checkEnd_mapped
    intro _
    apply EofMapped.bind (liftPure_mapped _)
    intro r; exact .done _

end MediaSan.Mp4
