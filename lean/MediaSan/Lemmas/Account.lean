/-
  C10: accounting of physical reads through `BufReader`.  With `g` = bytes returned by completed `read_exact` /
  `read_to_end` calls + `cap` per completed `skip`, at every point between two operations of ANY program:
      bytes delivered by the underlying reader ≤ g + (bytes still buffered) ≤ g + cap.
-/
import MediaSan.Meter
import MediaSan.Async
import MediaSan.Lemmas.Prog
namespace MediaSan
open MediaSan

/-- `bufOps cap (meteredRaw raw)` with a ghost counter of logical consumption -/
def ghostOps {ρ} (cap : Nat) (raw : RawOps ρ) : CursorOps (BufState (ρ × Nat) × Nat) where
  isEof s := ((bufOps cap (meteredRaw raw)).isEof s.1).map fun (b, st) => (b, (st, s.2))
  position s := ((bufOps cap (meteredRaw raw)).position s.1).map fun (b, st) => (b, (st, s.2))
  streamLen s := ((bufOps cap (meteredRaw raw)).streamLen s.1).map fun (b, st) => (b, (st, s.2))
  readExact s n := ((bufOps cap (meteredRaw raw)).readExact s.1 n).map fun (b, st) => (b, (st, s.2 + b.length))
  skip s n := ((bufOps cap (meteredRaw raw)).skip s.1 n).map fun st => (st, s.2 + cap)
  readUpTo s n := ((bufOps cap (meteredRaw raw)).readUpTo s.1 n).map fun (b, st) => (b, (st, s.2 + b.length))

/-- the accounting invariant -/
def AccInv {ρ} (cap : Nat) (s : BufState (ρ × Nat) × Nat) : Prop :=
  s.1.inner.2 ≤ s.2 + s.1.buf.length ∧ s.1.buf.length ≤ cap

/-- the underlying `read` never returns more than it was asked for -/
def ReadBounded {ρ} (raw : RawOps ρ) : Prop := ∀ r n b r', raw.read r n = .ok (b, r') → b.length ≤ n

theorem bufReadLoop_meter {ρ} (raw : RawOps ρ) (hrb : ReadBounded raw) (cap : Nat) (exact : Bool) (fuel : Nat)
    (st : BufState (ρ × Nat)) (need : Nat) (acc out : Bytes) (st' : BufState (ρ × Nat))
    (hb : st.buf.length ≤ cap)
    (h : bufReadLoop (meteredRaw raw) cap exact fuel st need acc = .ok (out, st')) :
    st'.inner.2 + st.buf.length + acc.length = st.inner.2 + st'.buf.length + out.length ∧ st'.buf.length ≤ cap := by
  induction fuel generalizing st need acc with
  | zero =>
    simp only [bufReadLoop] at h
    split at h
    · cases h; exact ⟨by omega, hb⟩
    · cases h
  | succ n ih =>
    simp only [bufReadLoop] at h
    by_cases h0 : need = 0
    · simp only [h0, if_true] at h; cases h; exact ⟨by omega, hb⟩
    simp only [h0, if_false] at h
    by_cases h1 : st.buf.isEmpty = true ∧ cap ≤ need
    · simp only [h1, and_self, if_true, meteredRaw] at h
      have hbe : st.buf.length = 0 := by simpa using h1.1
      cases hr : raw.read st.inner.1 need with
      | error e => rw [hr] at h; cases h
      | ok x =>
        obtain ⟨b, r'⟩ := x
        rw [hr] at h
        simp only [Except.map] at h
        split at h
        · split at h
          · cases h
          · cases h
            have : b.length = 0 := by rename_i hbe2 _; simpa using hbe2
            exact ⟨by simp; omega, by simp⟩
        · have := ih ⟨(r', st.inner.2 + b.length), []⟩ (need - b.length) (acc ++ b) (by simp) h
          simp only [List.length_nil, List.length_append] at this
          exact ⟨by omega, this.2⟩
    · simp only [h1, if_false] at h
      by_cases h2 : st.buf.isEmpty = true
      · simp only [h2, if_true, meteredRaw] at h
        have hbe : st.buf.length = 0 := by simpa using h2
        cases hr : raw.read st.inner.1 cap with
        | error e => rw [hr] at h; cases h
        | ok x =>
          obtain ⟨b, r'⟩ := x
          have hbl := hrb _ _ _ _ hr
          rw [hr] at h
          simp only [Except.map] at h
          split at h
          · split at h
            · cases h
            · cases h
              rename_i hbe2 _
              have : b.length = 0 := by simpa using hbe2
              exact ⟨by dsimp only; omega, by dsimp only; omega⟩
          · have := ih ⟨(r', st.inner.2 + b.length), b.drop (min need b.length)⟩ (need - min need b.length)
              (acc ++ b.take (min need b.length)) (by simp only [List.length_drop]; omega) h
            simp only [List.length_drop, List.length_append, List.length_take] at this
            exact ⟨by omega, this.2⟩
      · have h4 : st.buf.isEmpty = false := by simpa using h2
        simp only [h4, Bool.false_eq_true, if_false] at h
        have := ih ⟨st.inner, st.buf.drop (min need st.buf.length)⟩ (need - min need st.buf.length)
          (acc ++ st.buf.take (min need st.buf.length)) (by simp only [List.length_drop]; omega) h
        simp only [List.length_drop, List.length_append, List.length_take] at this
        exact ⟨by omega, this.2⟩

/-- every operation preserves the accounting invariant -/
theorem ghostOps_inv {ρ} (raw : RawOps ρ) (hrb : ReadBounded raw) (cap : Nat) (s : BufState (ρ × Nat) × Nat)
    (hi : AccInv cap s) :
    (∀ b s', (ghostOps cap raw).isEof s = .ok (b, s') → AccInv cap s') ∧
    (∀ b s', (ghostOps cap raw).position s = .ok (b, s') → AccInv cap s') ∧
    (∀ b s', (ghostOps cap raw).streamLen s = .ok (b, s') → AccInv cap s') ∧
    (∀ n b s', (ghostOps cap raw).readExact s n = .ok (b, s') → AccInv cap s') ∧
    (∀ n s', (ghostOps cap raw).skip s n = .ok s' → AccInv cap s') ∧
    (∀ n b s', (ghostOps cap raw).readUpTo s n = .ok (b, s') → AccInv cap s') := by
  obtain ⟨⟨⟨r, m⟩, buf⟩, g⟩ := s
  obtain ⟨h1, h2⟩ := hi
  dsimp only at h1 h2
  refine ⟨?_, ?_, ?_, ?_, ?_, ?_⟩
  · intro b s' h
    simp only [ghostOps, bufOps, meteredRaw] at h
    split at h
    · cases h; exact ⟨h1, h2⟩
    · cases hr : raw.read r cap with
      | error e => rw [hr] at h; cases h
      | ok x =>
        obtain ⟨bb, r'⟩ := x
        have hbl := hrb _ _ _ _ hr
        rw [hr] at h; simp only [Except.map] at h; cases h
        rename_i hne
        have : buf.length = 0 := by simpa using hne
        exact ⟨by simp only [AccInv]; omega, hbl⟩
  · intro b s' h
    simp only [ghostOps, bufOps, meteredRaw] at h
    cases hr : raw.position r with
    | error e => rw [hr] at h; cases h
    | ok x => obtain ⟨p, r'⟩ := x; rw [hr] at h; simp only [Except.map] at h; cases h; exact ⟨h1, h2⟩
  · intro b s' h
    simp only [ghostOps, bufOps, meteredRaw] at h
    cases hr : raw.len r with
    | error e => rw [hr] at h; cases h
    | ok x => obtain ⟨p, r'⟩ := x; rw [hr] at h; simp only [Except.map] at h; cases h; exact ⟨h1, h2⟩
  · intro n b s' h
    simp only [ghostOps, bufOps] at h
    cases hr : bufReadLoop (meteredRaw raw) cap true (n + 1) ⟨(r, m), buf⟩ n [] with
    | error e => rw [hr] at h; cases h
    | ok x =>
      obtain ⟨out, st'⟩ := x
      rw [hr] at h; simp only [Except.map] at h; cases h
      have := bufReadLoop_meter raw hrb cap true (n + 1) ⟨(r, m), buf⟩ n [] _ _ h2 hr
      simp only [List.length_nil] at this
      exact ⟨by simp only [AccInv]; omega, this.2⟩
  · intro n s' h
    simp only [ghostOps, bufOps, meteredRaw] at h
    split at h
    · split at h
      · cases hr : raw.skip r (n - buf.length) with
        | error e => rw [hr] at h; cases h
        | ok r' => rw [hr] at h; simp only [Except.map] at h; cases h; exact ⟨by simp only [AccInv, List.length_nil]; omega, by simp⟩
      · cases h; exact ⟨by simp only [AccInv, List.length_nil]; omega, by simp⟩
    · cases h; exact ⟨by simp only [AccInv, List.length_drop]; omega, by simp only [List.length_drop]; omega⟩
  · intro n b s' h
    simp only [ghostOps, bufOps] at h
    cases hr : bufReadLoop (meteredRaw raw) cap false (n + 1) ⟨(r, m), buf⟩ n [] with
    | error e => rw [hr] at h; cases h
    | ok x =>
      obtain ⟨out, st'⟩ := x
      rw [hr] at h; simp only [Except.map] at h; cases h
      have := bufReadLoop_meter raw hrb cap false (n + 1) ⟨(r, m), buf⟩ n [] _ _ h2 hr
      simp only [List.length_nil] at this
      exact ⟨by simp only [AccInv]; omega, this.2⟩

/-- an invariant preserved by every operation holds at every state a run passes through -/
theorem everBad_of_inv {E α σ} (ops : CursorOps σ) (I : σ → Prop) (bad : σ → Bool) (hbad : ∀ s, I s → bad s = false)
    (h1 : ∀ s b s', I s → ops.isEof s = .ok (b, s') → I s')
    (h2 : ∀ s b s', I s → ops.position s = .ok (b, s') → I s')
    (h3 : ∀ s b s', I s → ops.streamLen s = .ok (b, s') → I s')
    (h4 : ∀ s n b s', I s → ops.readExact s n = .ok (b, s') → I s')
    (h5 : ∀ s n s', I s → ops.skip s n = .ok s' → I s')
    (h6 : ∀ s n b s', I s → ops.readUpTo s n = .ok (b, s') → I s')
    (p : Prog E α) (s : σ) (hs : I s) : p.everBad ops bad s = false := by
  induction p generalizing s with
  | done a => simp only [Prog.everBad, hbad s hs]
  | fail e => simp only [Prog.everBad, hbad s hs]
  | panic m => simp only [Prog.everBad, hbad s hs]
  | isEof k ih =>
    simp only [Prog.everBad, hbad s hs, Bool.false_or]
    cases hr : ops.isEof s with
    | error e => rfl
    | ok x => obtain ⟨b, s'⟩ := x; exact ih b s' (h1 s b s' hs hr)
  | position k ih =>
    simp only [Prog.everBad, hbad s hs, Bool.false_or]
    cases hr : ops.position s with
    | error e => rfl
    | ok x => obtain ⟨b, s'⟩ := x; exact ih b s' (h2 s b s' hs hr)
  | streamLen k ih =>
    simp only [Prog.everBad, hbad s hs, Bool.false_or]
    cases hr : ops.streamLen s with
    | error e => rfl
    | ok x => obtain ⟨b, s'⟩ := x; exact ih b s' (h3 s b s' hs hr)
  | readExact m eof k ih =>
    simp only [Prog.everBad, hbad s hs, Bool.false_or]
    cases hr : ops.readExact s m with
    | error e => rfl
    | ok x => obtain ⟨b, s'⟩ := x; exact ih b s' (h4 s m b s' hs hr)
  | skip m eof k ih =>
    simp only [Prog.everBad, hbad s hs, Bool.false_or]
    cases hr : ops.skip s m with
    | error e => rfl
    | ok s' => exact ih () s' (h5 s m s' hs hr)
  | readUpTo m k ih =>
    simp only [Prog.everBad, hbad s hs, Bool.false_or]
    cases hr : ops.readUpTo s m with
    | error e => rfl
    | ok x => obtain ⟨b, s'⟩ := x; exact ih b s' (h6 s m b s' hs hr)

end MediaSan
