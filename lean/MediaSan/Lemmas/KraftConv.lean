/-
  C18, the converse: a code-length vector whose Kraft sum is exactly 1 is accepted.  The canonical assignment walks the
  dyadic interval [0, 2^H) from the left: after the first i codes the trie is "filled up to" the i-th prefix sum, the
  next code starts exactly there, and the insertion succeeds; when the sum reaches 2^H the trie is complete.
-/
import MediaSan.Lemmas.Kraft
namespace MediaSan.Vp8l
open MediaSan

/-- value of a code read as a binary number, first bit most significant -/
def cval : List Bool → Nat
  | [] => 0
  | c :: cs => (if c then 2 ^ cs.length else 0) + cval cs

theorem cval_lt (c : List Bool) : cval c < 2 ^ c.length := by
  induction c with
  | nil => simp [cval]
  | cons b bs ih =>
    simp only [cval, List.length_cons, Nat.pow_succ]
    split <;> omega

/-- a trie of depth budget `d` whose occupied part is exactly the dyadic interval [0, S) (a leaf stands for its whole
    subtree) -/
def Filled : HTree → Nat → Nat → Prop
  | t, 0, S => (S = 0 ∧ t = .empty) ∨ (S = 1 ∧ ∃ s, t = .leaf s)
  | t, d + 1, S =>
    (S = 0 ∧ t = .empty) ∨ (S = 2 ^ (d + 1) ∧ ∃ s, t = .leaf s) ∨
    (∃ z o, t = .node z o ∧
      ((0 < S ∧ S ≤ 2 ^ d ∧ Filled z d S ∧ o = .empty) ∨
       (2 ^ d < S ∧ S ≤ 2 ^ (d + 1) ∧ Filled z d (2 ^ d) ∧ Filled o d (S - 2 ^ d))))

theorem filled_full_complete (t : HTree) (d : Nat) (h : Filled t d (2 ^ d)) : t.complete = true := by
  induction d generalizing t with
  | zero =>
    simp only [Filled, Nat.pow_zero] at h
    rcases h with ⟨h0, _⟩ | ⟨_, s, rfl⟩
    · omega
    · rfl
  | succ d ih =>
    simp only [Filled] at h
    have hp : 0 < 2 ^ (d + 1) := Nat.pow_pos (by omega)
    have hp2 : 2 ^ d < 2 ^ (d + 1) := by rw [Nat.pow_succ]; have := Nat.pow_pos (n := d) (show 0 < 2 by omega); omega
    rcases h with ⟨h0, _⟩ | ⟨_, s, rfl⟩ | ⟨z, o, rfl, h'⟩
    · omega
    · rfl
    · rcases h' with ⟨_, hle, _, _⟩ | ⟨_, _, hz, ho⟩
      · omega
      · have e : 2 ^ (d + 1) - 2 ^ d = 2 ^ d := by rw [Nat.pow_succ]; omega
        rw [e] at ho
        simp only [HTree.complete, ih z hz, ih o ho, Bool.and_self]

theorem filled_empty (d : Nat) : Filled .empty d 0 := by
  cases d <;> simp [Filled]

theorem filled_leaf (s d : Nat) : Filled (.leaf s) d (2 ^ d) := by
  cases d with
  | zero => simp [Filled]
  | succ d => simp only [Filled]; right; left; exact ⟨trivial, s, rfl⟩

/-- the insertion that the canonical assignment performs: the code starts exactly where the filled part ends -/
theorem add_filled (c : List Bool) (t : HTree) (d S sym : Nat) (hl : c.length ≤ d)
    (hF : Filled t d S) (hS : cval c * 2 ^ (d - c.length) = S) (hroom : S + 2 ^ (d - c.length) ≤ 2 ^ d) :
    ∃ t', t.add c sym = .ok t' ∧ Filled t' d (S + 2 ^ (d - c.length)) := by
  induction c generalizing t d S with
  | nil =>
    simp only [cval, Nat.zero_mul] at hS
    subst hS
    have ht : t = .empty := by
      cases d with
      | zero => simp only [Filled] at hF; rcases hF with ⟨_, h⟩ | ⟨h, _⟩; exact h; omega
      | succ d =>
        simp only [Filled] at hF
        have hp : 0 < 2 ^ (d + 1) := Nat.pow_pos (by omega)
        rcases hF with ⟨_, h⟩ | ⟨h, _⟩ | ⟨z, o, _, h'⟩
        · exact h
        · omega
        · rcases h' with ⟨h, _⟩ | ⟨h, _⟩
          · omega
          · have := Nat.pow_pos (n := d) (show 0 < 2 by omega); omega
    subst ht
    refine ⟨.leaf sym, rfl, ?_⟩
    simp only [List.length_nil, Nat.sub_zero, Nat.zero_add]
    exact filled_leaf sym d
  | cons b cs ih =>
    cases d with
    | zero => simp at hl
    | succ d =>
      simp only [List.length_cons] at hl hS hroom ⊢
      have hl' : cs.length ≤ d := by omega
      have e1 : d + 1 - (cs.length + 1) = d - cs.length := by omega
      rw [e1] at hS hroom ⊢
      have hpd : 0 < 2 ^ d := Nat.pow_pos (by omega)
      have hpw : 0 < 2 ^ (d - cs.length) := Nat.pow_pos (by omega)
      have hsplit : 2 ^ cs.length * 2 ^ (d - cs.length) = 2 ^ d := by rw [← Nat.pow_add]; congr 1; omega
      have hcl := cval_lt cs
      have hpow2 : 2 ^ (d + 1) = 2 ^ d + 2 ^ d := by rw [Nat.pow_succ]; omega
      -- the tail's start
      have htail : cval cs * 2 ^ (d - cs.length) + 2 ^ (d - cs.length) ≤ 2 ^ d := by
        have : (cval cs + 1) * 2 ^ (d - cs.length) ≤ 2 ^ cs.length * 2 ^ (d - cs.length) :=
          Nat.mul_le_mul_right _ (by omega)
        rw [hsplit, Nat.add_mul, Nat.one_mul] at this; exact this
      simp only [cval] at hS
      cases b with
      | false =>
        simp only [Bool.false_eq_true, if_false, Nat.zero_add] at hS
        -- S is the tail's start, below 2^d
        simp only [Filled] at hF
        rcases hF with ⟨h0, rfl⟩ | ⟨hfull, _⟩ | ⟨z, o, rfl, h'⟩
        · -- empty trie
          obtain ⟨t', a1, a2⟩ := ih .empty d 0 hl' (filled_empty d) (by omega) (by omega)
          refine ⟨.node t' .empty, by simp only [HTree.add, a1]; rfl, ?_⟩
          simp only [Filled]
          right; right
          refine ⟨t', .empty, rfl, Or.inl ⟨by omega, by omega, ?_, rfl⟩⟩
          rw [h0]; exact a2
        · omega
        · rcases h' with ⟨hpos, hle, hz, rfl⟩ | ⟨hgt, _, _, _⟩
          · obtain ⟨z', a1, a2⟩ := ih z d S hl' hz hS (by omega)
            refine ⟨.node z' .empty, by simp only [HTree.add, Bool.false_eq_true, if_false, a1], ?_⟩
            simp only [Filled]
            right; right
            exact ⟨z', .empty, rfl, Or.inl ⟨by omega, by omega, a2, rfl⟩⟩
          · omega
      | true =>
        simp only [if_true] at hS
        have hS' : S = 2 ^ d + cval cs * 2 ^ (d - cs.length) := by
          rw [← hS, Nat.add_mul, hsplit]
        simp only [Filled] at hF
        rcases hF with ⟨h0, _⟩ | ⟨hfull, _⟩ | ⟨z, o, rfl, h'⟩
        · omega
        · omega
        · rcases h' with ⟨hpos, hle, hz, rfl⟩ | ⟨hgt, hle, hz, ho⟩
          · -- S = 2^d exactly: the left half is full, the right half empty
            have hS2 : S = 2 ^ d := by omega
            have hc0 : cval cs * 2 ^ (d - cs.length) = 0 := by omega
            obtain ⟨o', a1, a2⟩ := ih .empty d 0 hl' (filled_empty d) hc0 (by omega)
            refine ⟨.node z o', by simp only [HTree.add, if_true, a1], ?_⟩
            simp only [Filled]
            right; right
            refine ⟨z, o', rfl, Or.inr ⟨by omega, by omega, by rw [← hS2]; exact hz, ?_⟩⟩
            have : S + 2 ^ (d - cs.length) - 2 ^ d = 0 + 2 ^ (d - cs.length) := by omega
            rw [this]; exact a2
          · obtain ⟨o', a1, a2⟩ := ih o d (S - 2 ^ d) hl' ho (by omega) (by omega)
            refine ⟨.node z o', by simp only [HTree.add, if_true, a1], ?_⟩
            simp only [Filled]
            right; right
            refine ⟨z, o', rfl, Or.inr ⟨by omega, by omega, hz, ?_⟩⟩
            have : S + 2 ^ (d - cs.length) - 2 ^ d = S - 2 ^ d + 2 ^ (d - cs.length) := by omega
            rw [this]; exact a2


/-! ### the codes of the canonical assignment, as numbers -/

theorem incCode_len (c : List Bool) : (incCode c).length = c.length := by
  induction c with
  | nil => rfl
  | cons b bs ih => simp only [incCode]; split <;> simp [ih]

theorem cval_all_ones (c : List Bool) (h : c.all id = true) : cval c + 1 = 2 ^ c.length ∧ cval (incCode c) = 0 := by
  induction c with
  | nil => simp [cval, incCode]
  | cons b bs ih =>
    simp only [List.all_cons, Bool.and_eq_true, id] at h
    obtain ⟨hb, hbs⟩ := h
    obtain ⟨i1, i2⟩ := ih hbs
    subst hb
    simp only [cval, incCode, hbs, if_true, List.length_cons, Nat.pow_succ, Bool.not_true, Bool.false_eq_true, if_false, i2,
      incCode_len]
    exact ⟨by omega, trivial⟩

theorem cval_max_all (c : List Bool) (he : cval c + 1 = 2 ^ c.length) : c.all id = true := by
  induction c with
  | nil => rfl
  | cons x xs ihx =>
    simp only [cval, List.length_cons, Nat.pow_succ] at he
    have hx := cval_lt xs
    cases x with
    | false => simp only [Bool.false_eq_true, if_false] at he; omega
    | true =>
      simp only [if_true] at he
      simp only [List.all_cons, id, Bool.true_and]
      exact ihx (by omega)

/-- binary +1, when it does not wrap -/
theorem cval_inc (c : List Bool) (h : cval c + 1 < 2 ^ c.length) : cval (incCode c) = cval c + 1 := by
  induction c with
  | nil => simp [cval] at h
  | cons b bs ih =>
    simp only [cval, List.length_cons, Nat.pow_succ] at h
    have hlt := cval_lt bs
    by_cases hall : bs.all id = true
    · obtain ⟨i1, i2⟩ := cval_all_ones bs hall
      cases b with
      | true => simp only [if_true] at h; omega
      | false =>
        simp only [incCode, hall, if_true, cval, Bool.not_false, incCode_len, i2, Bool.false_eq_true, if_false]
        omega
    · have hall' : bs.all id = false := by simpa using hall
      have hnot : cval bs + 1 < 2 ^ bs.length := by
        -- not all ones: the value is below the maximum
        have : cval bs + 1 ≠ 2 ^ bs.length := fun he => hall (cval_max_all bs he)
        omega
      have := ih hnot
      simp only [incCode, hall', Bool.false_eq_true, if_false, cval, incCode_len, this]
      split <;> omega

theorem cval_append_zeros (c : List Bool) (k : Nat) : cval (c ++ List.replicate k false) = cval c * 2 ^ k := by
  induction c with
  | nil =>
    simp only [List.nil_append, cval, Nat.zero_mul]
    induction k with
    | zero => rfl
    | succ k ih => simp only [List.replicate_succ, cval, Bool.false_eq_true, if_false, Nat.zero_add, ih]
  | cons b bs ih =>
    simp only [List.cons_append, cval, List.length_append, List.length_replicate, ih, Nat.add_mul]
    split
    · rw [Nat.pow_add]
    · simp

theorem cval_resize (c : List Bool) (n : Nat) (h : c.length ≤ n) : cval (resizeCode c n) = cval c * 2 ^ (n - c.length) := by
  unfold resizeCode
  rw [List.take_of_length_le h, cval_append_zeros]

theorem cval_zeros (k : Nat) : cval (List.replicate k false) = 0 := by
  have := cval_append_zeros [] k
  simpa [cval] using this


/-! ### the canonical assignment fills the trie from the left -/

/-- weights of the remaining lengths at height `H` -/
def wsum (H : Nat) (l : List (Nat × Nat)) : Nat := (l.map fun x => 2 ^ (H - x.2)).sum

theorem build_assign (H : Nat) (rest : List (Nat × Nat)) (prev : List Bool) (t : HTree) (S : Nat)
    (hp : prev.length ≤ H) (hprev : (cval prev + 1) * 2 ^ (H - prev.length) = S)
    (hF : Filled t H S) (hb : ∀ x ∈ rest, prev.length ≤ x.2 ∧ x.2 ≤ H) (hasc : rest.Pairwise (fun a b => a.2 ≤ b.2))
    (hsum : S + wsum H rest = 2 ^ H) :
    ∃ t', buildTree (assignCodes rest prev) t = .ok t' ∧ t'.complete = true := by
  induction rest generalizing prev t S with
  | nil =>
    simp only [wsum, List.map_nil, List.sum_nil, Nat.add_zero] at hsum
    subst hsum
    exact ⟨t, rfl, filled_full_complete t H hF⟩
  | cons x rest ih =>
    obtain ⟨sym, len⟩ := x
    obtain ⟨hl1, hl2⟩ := hb (sym, len) (by simp)
    dsimp only at hl1 hl2
    obtain ⟨hhead, htail⟩ := List.pairwise_cons.mp hasc
    simp only [wsum, List.map_cons, List.sum_cons] at hsum
    have hw : 0 < 2 ^ (H - len) := Nat.pow_pos (by omega)
    have hsplit : 2 ^ prev.length * 2 ^ (H - prev.length) = 2 ^ H := by rw [← Nat.pow_add]; congr 1; omega
    have hnowrap : cval prev + 1 < 2 ^ prev.length := by
      have : (cval prev + 1) * 2 ^ (H - prev.length) < 2 ^ prev.length * 2 ^ (H - prev.length) := by
        rw [hprev, hsplit]; omega
      exact Nat.lt_of_mul_lt_mul_right this
    have hinc := cval_inc prev hnowrap
    have hlen := incCode_len prev
    have hcl : (resizeCode (incCode prev) len).length = len := resizeCode_length _ _
    have hcv : cval (resizeCode (incCode prev) len) = (cval prev + 1) * 2 ^ (len - prev.length) := by
      rw [cval_resize _ _ (by rw [hlen]; exact hl1), hinc, hlen]
    have hstart : cval (resizeCode (incCode prev) len) * 2 ^ (H - (resizeCode (incCode prev) len).length) = S := by
      rw [hcv, hcl, Nat.mul_assoc, ← Nat.pow_add, ← hprev]
      congr 2; omega
    obtain ⟨t', a1, a2⟩ := add_filled (resizeCode (incCode prev) len) t H S sym (by rw [hcl]; exact hl2) hF hstart
      (by rw [hcl]; have : 0 ≤ wsum H rest := Nat.zero_le _; simp only [wsum] at this; omega)
    rw [hcl] at a2
    have := ih (resizeCode (incCode prev) len) t' (S + 2 ^ (H - len)) (by rw [hcl]; exact hl2)
      (by rw [hcl, Nat.add_mul, Nat.one_mul]; rw [hcl] at hstart; rw [hstart])
      a2 (fun y hy => ⟨by rw [hcl]; exact hhead y hy, (hb y (by simp [hy])).2⟩) htail
      (by simp only [wsum]; omega)
    obtain ⟨t'', b1, b2⟩ := this
    refine ⟨t'', ?_, b2⟩
    simp only [assignCodes, buildTree, a1, b1]


/-! ### the sorted, used part of a length vector -/

theorem mem_insertBySym (a : Nat × Nat) (l : List (Nat × Nat)) (z : Nat × Nat) (h : z ∈ insertBySym a l) : z = a ∨ z ∈ l := by
  induction l with
  | nil => simp [insertBySym] at h; exact Or.inl h
  | cons b bs ih =>
    simp only [insertBySym] at h
    split at h
    · rcases List.mem_cons.mp h with e | e
      · exact Or.inl e
      · exact Or.inr e
    · rcases List.mem_cons.mp h with e | e
      · exact Or.inr (by simp [e])
      · rcases ih e with q | q
        · exact Or.inl q
        · exact Or.inr (by simp [q])

theorem mem_sortBySym (l : List (Nat × Nat)) (y : Nat × Nat) (h : y ∈ sortBySym l) : y ∈ l := by
  induction l with
  | nil => simpa [sortBySym] using h
  | cons a as ih =>
    simp only [sortBySym, List.foldr_cons] at h ih
    rcases mem_insertBySym a _ y h with e | e
    · simp [e]
    · simp [ih e]

theorem mem_sortByLenSym (l : List (Nat × Nat)) (y : Nat × Nat) (h : y ∈ sortByLenSym l) : y ∈ l := by
  simp only [sortByLenSym, List.mem_flatMap, List.mem_range] at h
  obtain ⟨len, _, hy⟩ := h
  exact (List.mem_filter.mp (mem_sortBySym _ y hy)).1

theorem pairwise_of_all {α : Type} (R : α → α → Prop) (l : List α) (h : ∀ a ∈ l, ∀ b ∈ l, R a b) : l.Pairwise R := by
  induction l with
  | nil => exact List.Pairwise.nil
  | cons x xs ih =>
    exact List.pairwise_cons.mpr ⟨fun y hy => h x (by simp) y (by simp [hy]), ih (fun a ha b hb => h a (by simp [ha]) b (by simp [hb]))⟩

theorem sortByLenSym_asc (l : List (Nat × Nat)) : (sortByLenSym l).Pairwise (fun a b => a.2 ≤ b.2) := by
  unfold sortByLenSym
  rw [List.pairwise_flatMap]
  have bucket : ∀ len, ∀ x ∈ sortBySym (l.filter (·.2 == len)), x.2 = len := by
    intro len x hx
    have := (List.mem_filter.mp (mem_sortBySym _ x hx)).2
    simpa using this
  constructor
  · intro len _
    apply pairwise_of_all
    intro a ha b hb
    rw [bucket len a ha, bucket len b hb]
    exact Nat.le_refl _
  · apply List.Pairwise.imp _ List.pairwise_lt_range
    intro a b hab x hx y hy
    rw [bucket a x hx, bucket b y hy]
    exact Nat.le_of_lt hab

/-- C18, the converse of `newCode_kraft`: a length vector whose Kraft sum is exactly 1 is accepted -/
theorem kraft_accepts (lens : List (Nat × Nat)) (H : Nat) (hH : ∀ x ∈ lens, x.2 ≤ H) (hk : kraftW H lens = 2 ^ H) :
    ∃ c, newCode lens = .ok c := by
  have hsum : wsum H ((sortByLenSym lens).filter (fun x => x.2 ≠ 0)) = kraftW H lens := by
    unfold wsum
    rw [filter_sum, sortByLenSym_sum]
    simp [kraftW]
  have hle : ∀ x ∈ (sortByLenSym lens).filter (fun x => x.2 ≠ 0), x.2 ≤ H ∧ x.2 ≠ 0 := by
    intro x hx
    obtain ⟨h1, h2⟩ := List.mem_filter.mp hx
    exact ⟨hH x (mem_sortByLenSym lens x h1), by simpa using h2⟩
  have hasc : ((sortByLenSym lens).filter (fun x => x.2 ≠ 0)).Pairwise (fun a b => a.2 ≤ b.2) :=
    List.Pairwise.filter _ (sortByLenSym_asc lens)
  have hpH : 0 < 2 ^ H := Nat.pow_pos (by omega)
  unfold newCode canonicalSymbols
  dsimp only
  cases hnz : (sortByLenSym lens).filter (fun x => x.2 ≠ 0) with
  | nil =>
    rw [hnz] at hsum
    simp only [wsum, List.map_nil, List.sum_nil] at hsum
    omega
  | cons x rest =>
    obtain ⟨s, len⟩ := x
    rw [hnz] at hsum hle hasc
    obtain ⟨hl1, hl2⟩ := hle (s, len) (by simp)
    dsimp only at hl1 hl2
    cases rest with
    | nil =>
      simp only [wsum, List.map_cons, List.map_nil, List.sum_cons, List.sum_nil, Nat.add_zero] at hsum
      rw [hk] at hsum
      have : 2 ^ (H - len) < 2 ^ H := Nat.pow_lt_pow_right (by omega) (by omega)
      omega
    | cons y ys =>
      obtain ⟨hhead, htail⟩ := List.pairwise_cons.mp hasc
      -- the first code is all zeros
      have hz : (List.replicate len false).length = len := List.length_replicate
      obtain ⟨t1, a1, a2⟩ := add_filled (List.replicate len false) .empty H 0 s (by rw [hz]; exact hl1) (filled_empty H)
        (by rw [cval_zeros]; omega) (by rw [hz]; have : 2 ^ (H - len) ≤ 2 ^ H := Nat.pow_le_pow_right (by omega) (by omega); omega)
      rw [hz, Nat.zero_add] at a2
      simp only [wsum, List.map_cons, List.sum_cons] at hsum
      obtain ⟨t', b1, b2⟩ := build_assign H (y :: ys) (List.replicate len false) t1 (2 ^ (H - len)) (by rw [hz]; exact hl1)
        (by rw [cval_zeros, hz]; omega) a2
        (fun z hzm => ⟨by rw [hz]; exact hhead z hzm, (hle z (by simp [hzm])).1⟩) htail
        (by simp only [wsum, List.map_cons, List.sum_cons]; omega)
      simp only [fromSymbols, compileReadTree, buildTree, a1, b1, b2, if_true]
      exact ⟨_, rfl⟩


/-- the single used symbol of length 1: accepted, with the zero-bit code -/
theorem single_accepts (lens : List (Nat × Nat)) (s : Nat)
    (h : (sortByLenSym lens).filter (fun x => x.2 ≠ 0) = [(s, 1)]) : newCode lens = .ok ⟨.leaf s, 0⟩ := by
  unfold newCode canonicalSymbols
  dsimp only
  rw [h]
  rfl

/-! ### decoding follows the inserted codes -/

/-- the symbol at the end of the path `c`, if the path ends in a leaf -/
def lookup : HTree → List Bool → Option Nat
  | .leaf s, [] => some s
  | .node z o, b :: cs => lookup (if b then o else z) cs
  | _, _ => none

theorem add_lookup_self (c : List Bool) (t t' : HTree) (s : Nat) (h : t.add c s = .ok t') : lookup t' c = some s := by
  induction c generalizing t t' with
  | nil =>
    cases t with
    | empty => simp only [HTree.add, Except.ok.injEq] at h; subst h; rfl
    | leaf x => simp [HTree.add] at h
    | node z o => simp [HTree.add] at h
  | cons b cs ih =>
    cases t with
    | empty =>
      simp only [HTree.add] at h
      cases ha : HTree.add .empty cs s with
      | error e => rw [ha] at h; cases h
      | ok t1 =>
        rw [ha] at h
        simp only [Except.ok.injEq] at h
        subst h
        cases b <;> simp [lookup, ih .empty t1 ha]
    | leaf x => simp [HTree.add] at h
    | node z o =>
      simp only [HTree.add] at h
      cases b with
      | true =>
        simp only [if_true] at h
        cases ha : HTree.add o cs s with
        | error e => rw [ha] at h; cases h
        | ok t1 => rw [ha] at h; simp only [Except.ok.injEq] at h; subst h; simp [lookup, ih o t1 ha]
      | false =>
        simp only [Bool.false_eq_true, if_false] at h
        cases ha : HTree.add z cs s with
        | error e => rw [ha] at h; cases h
        | ok t1 => rw [ha] at h; simp only [Except.ok.injEq] at h; subst h; simp [lookup, ih z t1 ha]

theorem add_lookup_other (c : List Bool) (t t' : HTree) (s : Nat) (h : t.add c s = .ok t') (c' : List Bool) (s' : Nat)
    (hl : lookup t c' = some s') : lookup t' c' = some s' := by
  induction c generalizing t t' c' with
  | nil =>
    cases t with
    | empty => simp [lookup] at hl
    | leaf x => simp [HTree.add] at h
    | node z o => simp [HTree.add] at h
  | cons b cs ih =>
    cases t with
    | empty => simp [lookup] at hl
    | leaf x => simp [HTree.add] at h
    | node z o =>
      cases c' with
      | nil => simp [lookup] at hl
      | cons b' cs' =>
        simp only [lookup] at hl
        simp only [HTree.add] at h
        cases b with
        | true =>
          simp only [if_true] at h
          cases ha : HTree.add o cs s with
          | error e => rw [ha] at h; cases h
          | ok t1 =>
            rw [ha] at h; simp only [Except.ok.injEq] at h; subst h
            cases b' with
            | true => simp only [lookup, if_true] at hl ⊢; exact ih o t1 ha cs' hl
            | false => simp only [lookup, Bool.false_eq_true, if_false] at hl ⊢; exact hl
        | false =>
          simp only [Bool.false_eq_true, if_false] at h
          cases ha : HTree.add z cs s with
          | error e => rw [ha] at h; cases h
          | ok t1 =>
            rw [ha] at h; simp only [Except.ok.injEq] at h; subst h
            cases b' with
            | true => simp only [lookup, if_true] at hl ⊢; exact hl
            | false => simp only [lookup, Bool.false_eq_true, if_false] at hl ⊢; exact ih z t1 ha cs' hl

theorem buildTree_lookup (syms : List (Nat × List Bool)) (t t' : HTree) (h : buildTree syms t = .ok t') :
    (∀ x ∈ syms, lookup t' x.2 = some x.1) ∧ (∀ c' s', lookup t c' = some s' → lookup t' c' = some s') := by
  induction syms generalizing t with
  | nil => simp only [buildTree, Except.ok.injEq] at h; subst h; exact ⟨(by intro x hx; cases hx), fun _ _ h => h⟩
  | cons x rest ih =>
    obtain ⟨s, c⟩ := x
    simp only [buildTree] at h
    cases ha : t.add c s with
    | error e => rw [ha] at h; cases h
    | ok t1 =>
      rw [ha] at h
      obtain ⟨i1, i2⟩ := ih t1 h
      constructor
      · intro y hy
        rcases List.mem_cons.mp hy with e | e
        · rw [e]; exact i2 c s (add_lookup_self c t t1 s ha)
        · exact i1 y e
      · intro c' s' hl
        exact i2 c' s' (add_lookup_other c t t1 s ha c' s' hl)

theorem lookup_height (t : HTree) (c : List Bool) (s : Nat) (h : lookup t c = some s) : c.length ≤ t.height := by
  induction c generalizing t with
  | nil => exact Nat.zero_le _
  | cons b cs ih =>
    cases t with
    | empty => simp [lookup] at h
    | leaf x => simp [lookup] at h
    | node z o =>
      simp only [lookup] at h
      have := ih _ h
      simp only [HTree.height, List.length_cons]
      cases b <;> simp at this <;> omega

/-- reading a symbol follows the path the bits spell: if the bits at `p` are the code of a symbol, that symbol is
    returned and exactly the code's bits are consumed -/
theorem decode_lookup (t : HTree) (c : List Bool) (s : Nat) (hl : lookup t c = some s) (b : ByteArray) (p fuel : Nat)
    (hbits : ∀ i (hi : i < c.length), bitAt b (p + i) = some c[i]) (hf : c.length < fuel) :
    decodeSym b t fuel p = .ok (s, p + c.length) := by
  induction c generalizing t p fuel with
  | nil =>
    cases t with
    | leaf x => simp only [lookup, Option.some.injEq] at hl; subst hl; simp [decodeSym]
    | empty => simp [lookup] at hl
    | node z o => simp [lookup] at hl
  | cons x cs ih =>
    cases t with
    | leaf y => simp [lookup] at hl
    | empty => simp [lookup] at hl
    | node z o =>
      simp only [lookup] at hl
      cases fuel with
      | zero => simp at hf
      | succ f =>
        have h0 := hbits 0 (by simp)
        simp only [Nat.add_zero, List.getElem_cons_zero] at h0
        simp only [decodeSym, h0]
        have := ih _ hl (p + 1) f (fun i hi => by
          have := hbits (i + 1) (by simp; omega)
          simp only [List.getElem_cons_succ] at this
          rw [← this]; congr 1; omega) (by simp at hf; omega)
        rw [this]
        simp only [List.length_cons]
        congr 2; omega

/-- C18, decoding: with an accepted code, whenever the bits at a position spell the code the canonical assignment gives
    to a symbol (shorter codes first, ties by symbol value: `canonicalSymbols`), reading a symbol returns that symbol
    and consumes exactly those bits -/
theorem decode_canonical (lens : List (Nat × Nat)) (c : Code) (h : newCode lens = .ok c) (x : Nat × List Bool)
    (hx : x ∈ canonicalSymbols lens) (b : ByteArray) (p : Nat)
    (hbits : ∀ i (hi : i < x.2.length), bitAt b (p + i) = some x.2[i]) :
    readSym c b p = .ok (x.1, p + x.2.length) := by
  unfold newCode fromSymbols compileReadTree at h
  cases hb : buildTree (canonicalSymbols lens) .empty with
  | error e => rw [hb] at h; cases h
  | ok t =>
    rw [hb] at h
    dsimp only at h
    by_cases hc : t.complete = true
    · simp only [hc, if_true, Except.ok.injEq] at h
      obtain ⟨i1, _⟩ := buildTree_lookup _ _ t hb
      have hl := i1 x hx
      have hh := lookup_height t x.2 x.1 hl
      unfold readSym
      rw [← h]
      exact decode_lookup t x.2 x.1 hl b p (t.height + 1) hbits (by omega)
    · simp [hc] at h

end MediaSan.Vp8l
