import MediaSan.Props.C02
import MediaSan.Lemmas.Relocate
namespace MediaSan.Props.C01R
open MediaSan MediaSan.Mp4 MediaSan.Spec.Mp4Walk MediaSan.Spec.Mp4Rules MediaSan.Props.C02

theorem planRewrite_spec (ml off pad : Nat) (d : Option Int) (h : planRewrite ml off = .ok (pad, d)) :
    (d = none ∧ ml + pad = off) ∨ (d = some ((ml : Int) - (off : Int)) ∧ pad = 0 ∧
      -2147483648 ≤ (ml : Int) - (off : Int) ∧ (ml : Int) - (off : Int) ≤ 2147483647) := by
  unfold planRewrite at h
  split at h
  · rename_i hle
    dsimp only at h
    split at h
    · rename_i h0
      simp only [Except.ok.injEq, Prod.mk.injEq] at h
      left; exact ⟨h.2.symm, by omega⟩
    · split at h
      · simp only [Except.ok.injEq, Prod.mk.injEq] at h
        left; exact ⟨h.2.symm, by omega⟩
      · split at h
        · rename_i hg
          simp only [Except.ok.injEq, Prod.mk.injEq] at h
          right; refine ⟨?_, h.1.symm, by omega, by omega⟩
          rw [← h.2]; congr 1; omega
        · cases h
  · rename_i hle
    dsimp only at h
    split at h
    · rename_i hg
      simp only [Except.ok.injEq, Prod.mk.injEq] at h
      right; refine ⟨?_, h.1.symm, by omega, by omega⟩
      rw [← h.2]; congr 1; omega
    · cases h

theorem serBoxes_mdBoxes_length (fh mh : BoxHeader) (fp mp : Bytes) (pad : Nat) (hfw : fh.WF) (hmw : mh.WF)
    (hpad : pad = 0 ∨ (8 ≤ pad ∧ pad ≤ 4294967287)) :
    (serBoxes (mdBoxes fh mh fp mp pad)).length = fh.encodedLen + fp.length + (mh.encodedLen + mp.length) + pad := by
  by_cases hp0 : pad = 0
  · simp [mdBoxes, hp0, serBoxes, encodeHeader_length _ hfw, encodeHeader_length _ hmw]; omega
  · have hb : 8 ≤ pad ∧ pad ≤ 4294967287 := by rcases hpad with h | h; exact absurd h hp0; exact h
    have hw : (BoxHeader.mk FREE (.size pad)).WF := ⟨FREE_wf, by omega, by unfold Mp4.u32Max; omega⟩
    have hl := encodeHeader_length _ hw
    simp only [BoxHeader.encodedLen, FREE] at hl
    simp [mdBoxes, hp0, serBoxes, encodeHeader_length _ hfw, encodeHeader_length _ hmw, FREE, hl]
    omega

/-- everything `finish` does when it returns metadata -/
theorem finish_cases (st : ScanState) (r : Sanitized) (md : Bytes) (hs : SerOk st) (h : finish st = .ok r)
    (hmd : r.metadata = some md) :
    ∃ ftyp moov fh mh pad mp, st.ftyp = some ftyp ∧ st.moov = some moov ∧
      md = serBoxes (mdBoxes fh mh (ftyp.data.ser ftypSer) mp pad) ∧
      (∀ hp ∈ mdBoxes fh mh (ftyp.data.ser ftypSer) mp pad, hp.1.WF ∧ hp.1.dataSize = .ok (some hp.2.length)) ∧
      fh.ty = FTYP ∧ mh.ty = MOOV ∧ mp.length = moov.data.len ser5 ∧
      (((md.length : Int) - (r.data.offset : Int) = 0 ∧ mp = moov.data.ser ser5) ∨
       (∃ d, displaceMoov ((md.length : Int) - (r.data.offset : Int)) moov.data = .ok d ∧ mp = d.ser ser5 ∧
          -2147483648 ≤ (md.length : Int) - (r.data.offset : Int) ∧ (md.length : Int) - (r.data.offset : Int) ≤ 2147483647)) := by
  unfold finish at h
  cases hf : st.ftyp with
  | none => rw [hf] at h; cases h
  | some ftyp =>
    rw [hf] at h; dsimp only at h
    cases hm : st.moov with
    | none => rw [hm] at h; cases h
    | some moov =>
      rw [hm] at h
      cases hmo : st.moovOffset with
      | none => rw [hmo] at h; cases h
      | some mo =>
        rw [hmo] at h; dsimp only at h
        cases hd : st.data with
        | none => rw [hd] at h; cases h
        | some data =>
          rw [hd] at h; dsimp only at h
          have hfs := hs.1 ftyp hf
          have hms := hs.2 moov hm
          split at h
          · simp only [PureRes.ok.injEq] at h; rw [← h] at hmd; cases hmd
          · cases hwf : withDataSize FTYP (ftyp.data.len ftypSer) with
            | error e => rw [hwf] at h; cases h
            | ok fh =>
              cases hwm : withDataSize MOOV (moov.data.len ser5) with
              | error e => rw [hwf, hwm] at h; cases h
              | ok mh =>
                rw [hwf, hwm] at h
                dsimp only at h
                obtain ⟨f1, f2, f3, f4⟩ := C02_headers_explicit FTYP FTYP_wf _ fh hwf
                obtain ⟨m1, m2, m3, m4⟩ := C02_headers_explicit MOOV MOOV_wf _ mh hwm
                obtain ⟨_, fl⟩ := box_ser_eq ftypSer fh ftyp.data f2
                obtain ⟨_, mlen⟩ := box_ser_eq ser5 mh moov.data m2
                split at h
                · cases h
                · cases hpl : planRewrite (Box.len ftypSer ⟨fh, ftyp.data⟩ + Box.len ser5 ⟨mh, moov.data⟩) data.offset with
                  | error e => rw [hpl] at h; cases h
                  | ok pd =>
                    obtain ⟨pad, disp⟩ := pd
                    rw [hpl] at h
                    have hpad := planRewrite_pad _ _ _ _ hpl
                    have hsp := planRewrite_spec _ _ _ _ hpl
                    cases disp with
                    | none =>
                      dsimp only at h
                      simp only [PureRes.ok.injEq] at h
                      have hdat : r.data = data := by rw [← h]
                      rw [← h] at hmd
                      simp only [Option.some.injEq] at hmd
                      obtain ⟨h1, h2, h3, h4⟩ := assemble_boxes fh mh ftyp.data moov.data _ pad hwf hwm hfs hms rfl hpad
                      have hlen := serBoxes_mdBoxes_length fh mh (ftyp.data.ser ftypSer) (moov.data.ser ser5) pad f3 m3 hpad
                      refine ⟨ftyp, moov, fh, mh, pad, _, rfl, rfl, by rw [← hmd, h1], h2, h3, h4, hms, Or.inl ⟨?_, rfl⟩⟩
                      rcases hsp with ⟨_, e⟩ | ⟨e, _, _, _⟩
                      · rw [← hmd, h1, hlen, hdat, hfs, hms]
                        rw [fl, mlen] at e
                        omega
                      · cases e
                    | some dv =>
                      dsimp only at h
                      cases hdm : displaceMoov dv moov.data with
                      | err e => rw [hdm] at h; cases h
                      | panic m => rw [hdm] at h; cases h
                      | ok d =>
                        rw [hdm] at h
                        simp only [PureRes.ok.injEq] at h
                        have hdat : r.data = data := by rw [← h]
                        rw [← h] at hmd
                        simp only [Option.some.injEq] at hmd
                        obtain ⟨hl1, hl2⟩ := displaceMoov_len dv moov.data d hdm
                        have hwm' : withDataSize MOOV (d.len ser5) = .ok mh := by rw [hl2]; exact hwm
                        have hms' : (d.ser ser5).length = d.len ser5 := by rw [hl1, hl2]; exact hms
                        have hml : Box.len ftypSer ⟨fh, ftyp.data⟩ + Box.len ser5 ⟨mh, moov.data⟩ =
                            Box.len ftypSer ⟨fh, ftyp.data⟩ + Box.len ser5 ⟨mh, d⟩ := by
                          simp only [Box.len, Box.calcHeader, hl2]
                        obtain ⟨h1, h2, h3, h4⟩ := assemble_boxes fh mh ftyp.data d _ pad hwf hwm' hfs hms' hml hpad
                        have hlen := serBoxes_mdBoxes_length fh mh (ftyp.data.ser ftypSer) (d.ser ser5) pad f3 m3 hpad
                        rcases hsp with ⟨e, _⟩ | ⟨e, e0, b1, b2⟩
                        · cases e
                        · simp only [Option.some.injEq] at e
                          have hsh : (md.length : Int) - (r.data.offset : Int) = dv := by
                            rw [← hmd, h1, hlen, hdat, hfs, hms', hl2, e0, e, fl, mlen]
                            omega
                          refine ⟨ftyp, moov, fh, mh, pad, _, rfl, rfl, by rw [← hmd, h1], h2, h3, h4, by rw [hms', hl2],
                            Or.inr ⟨d, by rw [hsh]; exact hdm, rfl, ?_, ?_⟩⟩
                          · rw [hsh, e]; exact b1
                          · rw [hsh, e]; exact b2


section
variable (s : Stream) (kind : SkipKind)

theorem sanitizeP_keep (cfg : Config) (fuel : Nat) :
    Tri (idealOps s kind) (sanitizeP cfg fuel) 0
      (fun o _ => ∀ r, o = some r → ∃ st bs, walkAll s 0 s.len cfg.cumulativeMdatBoxSize = .clean bs ∧
        SerOk st ∧ KeptIs s {} st bs ∧ KeptFIs s {} st bs ∧ finish st = .ok r) := by
  unfold sanitizeP
  apply Tri.bind
  apply Tri.mono (Tri.and (scan_ser s kind cfg fuel {} 0 ⟨(by intro f h; cases h), (by intro m h; cases h)⟩)
    (Tri.and (scan_keep s kind cfg fuel {} 0) (scan_keepF s kind cfg fuel {} 0)))
  intro o p1 ⟨ho1, ho2, ho3⟩
  cases o with
  | none => exact Tri.done (by intro r h; cases h)
  | some st =>
    dsimp only
    obtain ⟨bs, hc, hk, hl⟩ := ho2 st rfl
    obtain ⟨bs3, hc3, hk3, hl3⟩ := ho3 st rfl
    apply Tri.bind
    apply Tri.mono (checkEnd_rel s kind p1)
    intro _ p2 ⟨hp2, hle⟩
    apply Tri.bind
    cases hfin : finish st with
    | panic site => exact Tri.panic
    | err e => exact Tri.fail
    | ok r =>
      apply Tri.done
      apply Tri.done
      intro r' hr'
      simp only [Option.some.injEq] at hr'
      subst hr'
      have hp : p1 = s.len := by omega
      subst hp
      have hw : walkAll s 0 s.len cfg.cumulativeMdatBoxSize = .clean bs := by
        unfold walkAll
        apply walk_of_chain s s.len _ bs 0 _ hc
        left; omega
      have hw3 : walkAll s 0 s.len cfg.cumulativeMdatBoxSize = .clean bs3 := by
        unfold walkAll
        apply walk_of_chain s s.len _ bs3 0 _ hc3
        left; omega
      have hbs : bs3 = bs := by rw [hw] at hw3; cases hw3; rfl
      subst hbs
      exact ⟨st, bs3, hw, ho1 st rfl, hk, hk3, hfin⟩

theorem sanitize_keep (cfg : Config) (r : Sanitized) (h : Mp4.sanitize s kind cfg = .ok r) :
    ∃ st bs, walkAll s 0 s.len cfg.cumulativeMdatBoxSize = .clean bs ∧ SerOk st ∧ KeptIs s {} st bs ∧
      KeptFIs s {} st bs ∧ finish st = .ok r := by
  have hs := sanitizeP_keep s kind cfg (fuelFor s)
  unfold Tri at hs
  simp only [Mp4.sanitize, Mp4.sanitizeWith, run_eq_runF] at h
  cases hr : (sanitizeP cfg (fuelFor s)).runF (idealOps s kind) 0 with
  | ok x =>
    obtain ⟨a, p⟩ := x
    rw [hr] at hs h
    cases a with
    | none => simp [Outcome.fst] at h
    | some r' =>
      simp only [Outcome.fst, Outcome.ok.injEq] at h
      subst h
      exact hs r' rfl
  | parseErr e => rw [hr] at h; simp [Outcome.fst] at h
  | ioErr k => rw [hr] at h; simp [Outcome.fst] at h
  | panic site => rw [hr] at h; simp [Outcome.fst] at h
  | outOfFuel => rw [hr] at h; simp [Outcome.fst] at h


theorem entryAt_read (off w c i : Nat) (h : i < c) :
    Mp4.entryAt w (s.read off (w * c)) i = Spec.Mp4Walk.entryAt s ⟨off, w, c⟩ i := by
  unfold Mp4.entryAt Spec.Mp4Walk.entryAt be
  have h1 : w * i + w ≤ w * c := by
    have : w * (i + 1) ≤ w * c := Nat.mul_le_mul_left w h
    rw [Nat.mul_add, Nat.mul_one] at this; exact this
  rw [read_drop, read_take s _ _ w (by omega)]

theorem md_moov_payload (fh mh : BoxHeader) (fp mp : Bytes) (pad : Nat) (hfw : fh.WF) (hmw : mh.WF) :
    ((serBoxes (mdBoxes fh mh fp mp pad)).drop (fh.encodedLen + fp.length + mh.encodedLen)).take mp.length = mp ∧
    fh.encodedLen + fp.length + mh.encodedLen + mp.length ≤ (serBoxes (mdBoxes fh mh fp mp pad)).length := by
  have e : ∃ tail, serBoxes (mdBoxes fh mh fp mp pad) = (encodeHeader fh ++ fp ++ encodeHeader mh) ++ mp ++ tail := by
    by_cases hp0 : pad = 0
    · exact ⟨[], by simp [mdBoxes, hp0, serBoxes, List.append_assoc]⟩
    · exact ⟨encodeHeader ⟨FREE, .size pad⟩ ++ List.replicate (pad - 8) 0, by simp [mdBoxes, hp0, serBoxes, List.append_assoc]⟩
  obtain ⟨tail, ht⟩ := e
  have hl : (encodeHeader fh ++ fp ++ encodeHeader mh).length = fh.encodedLen + fp.length + mh.encodedLen := by
    simp [encodeHeader_length _ hfw, encodeHeader_length _ hmw]; omega
  rw [ht]
  constructor
  · rw [List.append_assoc, List.drop_append_of_le_length (by rw [hl]; exact Nat.le_refl _),
      List.drop_eq_nil_of_le (by rw [hl]; exact Nat.le_refl _), List.nil_append, List.take_append_of_le_length (Nat.le_refl _),
      List.take_of_length_le (Nat.le_refl _)]
  · simp only [List.length_append, hl]; omega

theorem validate_as_modify (x : Bytes) (d : Data L5) (n : Nat) (hv : validateMoov (.bytes x) = .ok (d, n)) :
    ∃ counts, (Data.bytes x).modify parseMoov (forTraks fun co => .ok (co, co.count)) = .ok (d, counts) := by
  unfold validateMoov at hv
  obtain ⟨dc, hm, hrest⟩ := pure_bind_ok _ _ _ hv
  obtain ⟨d0, counts⟩ := dc
  have hd0 : d = d0 := by
    cases counts with
    | nil => simp only [pure, PureRes.ok.injEq, Prod.mk.injEq] at hrest; exact hrest.1.symm
    | cons c cs =>
      dsimp only at hrest
      obtain ⟨t, _, ht⟩ := pure_bind_ok _ _ _ hrest
      simp only [pure, PureRes.ok.injEq, Prod.mk.injEq] at ht
      exact ht.1.symm
  subst hd0
  exact ⟨counts, hm⟩

theorem fits_of_shape {α : Type} (f : Co → PureRes (Co × α)) (hf : KeepsShape f) (T : List (Region × (Co × α)))
    (h : ∀ x ∈ T, f ⟨x.1.width, x.1.count, s.read x.1.off (x.1.width * x.1.count)⟩ = .ok x.2) :
    Fits (T.map fun x => (x.1, x.2.1.entries)) := by
  induction T with
  | nil => trivial
  | cons x rest ih =>
    refine ⟨?_, ih (fun y hy => h y (by simp [hy]))⟩
    have := (hf _ x.2.1 x.2.2 (h x (by simp))).2.2
    simpa [read_length] using this

/-- C01 and C04 for every input, at the level of the returned bytes: the moov payload inside the returned metadata (at
    offset `mo`) is the payload of the last moov of the input, as the independent walker delimits it, with the entries
    of exactly the tables the walker finds in it (`moovTables`) replaced - and each replacement holds the old entries
    shifted by |metadata| − span.offset, none leaving its field -/
theorem relocated (cfg : Config) (r : Sanitized) (md : Bytes)
    (h : Mp4.sanitize s kind cfg = .ok r) (hmd : r.metadata = some md) :
    ∃ (bs : List TopBox) (m : TopBox) (T : List (Region × Bytes)) (mo : Nat),
      walkAll s 0 s.len cfg.cumulativeMdatBoxSize = .clean bs ∧ lastMoov bs = some m ∧
      moovTables s m = some (T.map (·.1)) ∧ m.payloadOff ≤ m.endOff ∧ Ordered m.payloadOff m.endOff T ∧ Fits T ∧
      mo + m.payloadLen ≤ md.length ∧
      (md.drop mo).take m.payloadLen = msplice s m.payloadOff m.endOff T ∧
      ∀ x ∈ T, ∀ i, i < x.1.count →
        (Mp4.entryAt x.1.width x.2 i : Int) = (Spec.Mp4Walk.entryAt s x.1 i : Int) + ((md.length : Int) - (r.data.offset : Int)) ∧
        0 ≤ (Spec.Mp4Walk.entryAt s x.1 i : Int) + ((md.length : Int) - (r.data.offset : Int)) ∧
        (Spec.Mp4Walk.entryAt s x.1 i : Int) + ((md.length : Int) - (r.data.offset : Int)) < (256 : Int) ^ x.1.width := by
  obtain ⟨st, bs, hw, hser, hkept, _, hfin⟩ := sanitize_keep s kind cfg r h
  obtain ⟨ftyp, moov, fh, mh, pad, mp, hft, hmv, hmdeq, hall, hfty, hmty, hmpl, hcase⟩ := finish_cases st r md hser hfin hmd
  have hfw := (hall (fh, ftyp.data.ser ftypSer) (by simp [mdBoxes])).1
  have hmw := (hall (mh, mp) (by simp [mdBoxes])).1
  unfold KeptIs at hkept
  cases hlm : lastMoov bs with
  | none =>
    rw [hlm] at hkept
    dsimp only at hkept
    rw [hmv] at hkept
    cases hkept
  | some m =>
    rw [hlm] at hkept
    obtain ⟨hdr, d, total, e1, hv⟩ := hkept
    rw [hmv] at e1
    simp only [Option.some.injEq] at e1
    have hdata : moov.data = d := by rw [e1]
    -- the walker's box has room for its header
    have hle : m.payloadOff ≤ m.endOff := by
      by_cases hq : m.payloadOff ≤ m.endOff
      · exact hq
      · have : m.payloadLen = 0 := by unfold TopBox.payloadLen; omega
        rw [this] at hv
        have : s.read m.payloadOff 0 = [] := rfl
        rw [this] at hv
        have : validateMoov (Data.bytes ([] : Bytes)) = .err .missingRequiredBox := rfl
        rw [this] at hv; cases hv
    have hdlen : d.len ser5 = m.payloadLen := by
      have := validateMoov_len _ d total hv
      rw [this, read_length]
    obtain ⟨p1, p2⟩ := md_moov_payload fh mh (ftyp.data.ser ftypSer) mp pad hfw hmw
    have hmplen : mp.length = m.payloadLen := by rw [hmpl, hdata, hdlen]
    rw [hmplen] at p1 p2
    rcases hcase with ⟨hshift, hmp⟩ | ⟨d', hdis, hmp, _, _⟩
    · -- padding (or no gap): the tree is serialised as validated
      obtain ⟨counts, hmod⟩ := validate_as_modify _ d total hv
      obtain ⟨T, t1, t2, t3, t4, t5, t6⟩ := moov_splice s _ keepsShape_count m hle d counts hmod
      refine ⟨bs, m, T.map (fun x => (x.1, x.2.1.entries)), _, hw, hlm, ?_, hle, ordered_map (fun (y : Co × Nat) => y.1.entries) _ _ _ t4,
        fits_of_shape s _ keepsShape_count T t3, by rw [hmdeq]; exact p2, ?_, ?_⟩
      · rw [t1, List.map_map]; rfl
      · rw [hmdeq, p1, hmp, hdata, t5]
      · intro x hx i hi
        obtain ⟨y, hy, rfl⟩ := List.mem_map.mp hx
        have hf := t3 y hy
        simp only [PureRes.ok.injEq] at hf
        have hent : y.2.1.entries = s.read y.1.off (y.1.width * y.1.count) := by rw [← hf]
        dsimp only
        rw [hshift, hent, entryAt_read s _ _ _ _ hi]
        have hwd := moovTables_width s m _ t1 y.1 (List.mem_map.mpr ⟨y, hy, rfl⟩)
        have hlt : Spec.Mp4Walk.entryAt s y.1 i < 256 ^ y.1.width := by
          unfold Spec.Mp4Walk.entryAt be
          have := beToNat_lt (s.read (y.1.off + y.1.width * i) y.1.width)
          rw [read_length] at this; exact this
        refine ⟨by rw [Int.add_zero], by omega, ?_⟩
        rw [Int.add_zero]
        have := Int.ofNat_lt.mpr hlt
        rw [Int.natCast_pow] at this
        exact this
    · -- displacement
      obtain ⟨d'', us, hmod, hs1, hs2⟩ := displace_validated _ d total hv _ d' (by rw [← hdata]; exact hdis)
      obtain ⟨T, t1, t2, t3, t4, t5, t6⟩ := moov_splice s _ (keepsShape_displace _) m hle d'' us hmod
      refine ⟨bs, m, T.map (fun x => (x.1, x.2.1.entries)), _, hw, hlm, ?_, hle, ordered_map (fun (y : Co × Unit) => y.1.entries) _ _ _ t4,
        fits_of_shape s _ (keepsShape_displace _) T t3, by rw [hmdeq]; exact p2, ?_, ?_⟩
      · rw [t1, List.map_map]; rfl
      · rw [hmdeq, p1, hmp, ← hs1, t5]
      · intro x hx i hi
        obtain ⟨y, hy, rfl⟩ := List.mem_map.mp hx
        have hf := t3 y hy
        have hwd := moovTables_width s m _ t1 y.1 (List.mem_map.mpr ⟨y, hy, rfl⟩)
        have hwpos : 0 < y.1.width := by rcases hwd with e | e <;> omega
        unfold displaceCo at hf
        dsimp only at hf
        cases hde : displaceEntries y.1.width ((md.length : Int) - (r.data.offset : Int))
            (s.read y.1.off (y.1.width * y.1.count)).length (s.read y.1.off (y.1.width * y.1.count)) with
        | err e => rw [hde] at hf; cases hf
        | panic e => rw [hde] at hf; cases hf
        | ok out =>
          rw [hde] at hf
          simp only [PureRes.ok.injEq] at hf
          have hent : y.2.1.entries = out := by rw [← hf]
          obtain ⟨_, hall'⟩ := displaceEntries_ok y.1.width hwpos _ _ _ out (Nat.le_refl _) hde
          have hfit : y.1.width * (i + 1) ≤ (s.read y.1.off (y.1.width * y.1.count)).length := by
            rw [read_length]; exact Nat.mul_le_mul_left _ hi
          obtain ⟨q1, q2, q3⟩ := hall' i hfit
          dsimp only
          rw [hent, ← entryAt_read s _ _ _ _ hi]
          exact ⟨q1, q2, q3⟩


/-- everything at once: the walker's view of the input, and the returned metadata as the box sequence built from it -/
theorem relocated_full (cfg : Config) (r : Sanitized) (md : Bytes)
    (h : Mp4.sanitize s kind cfg = .ok r) (hmd : r.metadata = some md) :
    ∃ (bs : List TopBox) (f m : TopBox) (T : List (Region × Bytes)) (fh mh : BoxHeader) (pad : Nat) (mp : Bytes),
      walkAll s 0 s.len cfg.cumulativeMdatBoxSize = .clean bs ∧
      bs.find? (fun b => decide (b.name = ftypN)) = some f ∧ lastMoov bs = some m ∧
      moovTables s m = some (T.map (·.1)) ∧ m.payloadOff ≤ m.endOff ∧ Ordered m.payloadOff m.endOff T ∧ Fits T ∧
      md = serBoxes (mdBoxes fh mh (s.read f.payloadOff f.payloadLen) mp pad) ∧
      (∀ hp ∈ mdBoxes fh mh (s.read f.payloadOff f.payloadLen) mp pad, hp.1.WF ∧ hp.1.dataSize = .ok (some hp.2.length)) ∧
      fh.ty = FTYP ∧ mh.ty = MOOV ∧ mp = msplice s m.payloadOff m.endOff T ∧ mp.length = m.payloadLen ∧
      (∀ x ∈ T, ∀ i, i < x.1.count →
        (Mp4.entryAt x.1.width x.2 i : Int) = (Spec.Mp4Walk.entryAt s x.1 i : Int) + ((md.length : Int) - (r.data.offset : Int)) ∧
        0 ≤ (Spec.Mp4Walk.entryAt s x.1 i : Int) + ((md.length : Int) - (r.data.offset : Int)) ∧
        (Spec.Mp4Walk.entryAt s x.1 i : Int) + ((md.length : Int) - (r.data.offset : Int)) < (256 : Int) ^ x.1.width) ∧
      -2147483648 ≤ (md.length : Int) - (r.data.offset : Int) ∧ (md.length : Int) - (r.data.offset : Int) ≤ 2147483647 := by
  obtain ⟨st, bs, hw, hser, hkept, hkf, hfin⟩ := sanitize_keep s kind cfg r h
  obtain ⟨ftyp, moov, fh, mh, pad, mp, hft, hmv, hmdeq, hall, hfty, hmty, hmpl, hcase⟩ := finish_cases st r md hser hfin hmd
  have hfw := (hall (fh, ftyp.data.ser ftypSer) (by simp [mdBoxes])).1
  have hmw := (hall (mh, mp) (by simp [mdBoxes])).1
  -- the ftyp
  unfold KeptFIs at hkf
  cases hfd : bs.find? (fun b => decide (b.name = ftypN)) with
  | none => rw [hfd] at hkf; dsimp only at hkf; rw [hft] at hkf; cases hkf
  | some f =>
  rw [hfd] at hkf
  obtain ⟨_, f', ef1, ef2⟩ := hkf
  rw [hft] at ef1
  simp only [Option.some.injEq] at ef1
  subst ef1
  rw [ef2] at hmdeq hall
  unfold KeptIs at hkept
  cases hlm : lastMoov bs with
  | none =>
    rw [hlm] at hkept
    dsimp only at hkept
    rw [hmv] at hkept
    cases hkept
  | some m =>
    rw [hlm] at hkept
    obtain ⟨hdr, d, total, e1, hv⟩ := hkept
    rw [hmv] at e1
    simp only [Option.some.injEq] at e1
    have hdata : moov.data = d := by rw [e1]
    -- the walker's box has room for its header
    have hle : m.payloadOff ≤ m.endOff := by
      by_cases hq : m.payloadOff ≤ m.endOff
      · exact hq
      · have : m.payloadLen = 0 := by unfold TopBox.payloadLen; omega
        rw [this] at hv
        have : s.read m.payloadOff 0 = [] := rfl
        rw [this] at hv
        have : validateMoov (Data.bytes ([] : Bytes)) = .err .missingRequiredBox := rfl
        rw [this] at hv; cases hv
    have hdlen : d.len ser5 = m.payloadLen := by
      have := validateMoov_len _ d total hv
      rw [this, read_length]
    obtain ⟨p1, p2⟩ := md_moov_payload fh mh (ftyp.data.ser ftypSer) mp pad hfw hmw
    have hmplen : mp.length = m.payloadLen := by rw [hmpl, hdata, hdlen]
    rw [hmplen] at p1 p2
    rcases hcase with ⟨hshift, hmp⟩ | ⟨d', hdis, hmp, hb1, hb2⟩
    · -- padding (or no gap): the tree is serialised as validated
      obtain ⟨counts, hmod⟩ := validate_as_modify _ d total hv
      obtain ⟨T, t1, t2, t3, t4, t5, t6⟩ := moov_splice s _ keepsShape_count m hle d counts hmod
      refine ⟨bs, f, m, T.map (fun x => (x.1, x.2.1.entries)), fh, mh, pad, mp, hw, hfd, hlm, ?_, hle,
        ordered_map (fun (y : Co × Nat) => y.1.entries) _ _ _ t4, fits_of_shape s _ keepsShape_count T t3, hmdeq, hall, hfty, hmty,
        by rw [hmp, hdata, t5], hmplen, ?_, by rw [hshift]; decide, by rw [hshift]; decide⟩
      · rw [t1, List.map_map]; rfl
      · intro x hx i hi
        obtain ⟨y, hy, rfl⟩ := List.mem_map.mp hx
        have hf := t3 y hy
        simp only [PureRes.ok.injEq] at hf
        have hent : y.2.1.entries = s.read y.1.off (y.1.width * y.1.count) := by rw [← hf]
        dsimp only
        rw [hshift, hent, entryAt_read s _ _ _ _ hi]
        have hwd := moovTables_width s m _ t1 y.1 (List.mem_map.mpr ⟨y, hy, rfl⟩)
        have hlt : Spec.Mp4Walk.entryAt s y.1 i < 256 ^ y.1.width := by
          unfold Spec.Mp4Walk.entryAt be
          have := beToNat_lt (s.read (y.1.off + y.1.width * i) y.1.width)
          rw [read_length] at this; exact this
        refine ⟨by rw [Int.add_zero], by omega, ?_⟩
        rw [Int.add_zero]
        have := Int.ofNat_lt.mpr hlt
        rw [Int.natCast_pow] at this
        exact this
    · -- displacement
      obtain ⟨d'', us, hmod, hs1, hs2⟩ := displace_validated _ d total hv _ d' (by rw [← hdata]; exact hdis)
      obtain ⟨T, t1, t2, t3, t4, t5, t6⟩ := moov_splice s _ (keepsShape_displace _) m hle d'' us hmod
      refine ⟨bs, f, m, T.map (fun x => (x.1, x.2.1.entries)), fh, mh, pad, mp, hw, hfd, hlm, ?_, hle,
        ordered_map (fun (y : Co × Unit) => y.1.entries) _ _ _ t4, fits_of_shape s _ (keepsShape_displace _) T t3, hmdeq, hall, hfty, hmty,
        by rw [hmp, ← hs1, t5], hmplen, ?_, hb1, hb2⟩
      · rw [t1, List.map_map]; rfl
      · intro x hx i hi
        obtain ⟨y, hy, rfl⟩ := List.mem_map.mp hx
        have hf := t3 y hy
        have hwd := moovTables_width s m _ t1 y.1 (List.mem_map.mpr ⟨y, hy, rfl⟩)
        have hwpos : 0 < y.1.width := by rcases hwd with e | e <;> omega
        unfold displaceCo at hf
        dsimp only at hf
        cases hde : displaceEntries y.1.width ((md.length : Int) - (r.data.offset : Int))
            (s.read y.1.off (y.1.width * y.1.count)).length (s.read y.1.off (y.1.width * y.1.count)) with
        | err e => rw [hde] at hf; cases hf
        | panic e => rw [hde] at hf; cases hf
        | ok out =>
          rw [hde] at hf
          simp only [PureRes.ok.injEq] at hf
          have hent : y.2.1.entries = out := by rw [← hf]
          obtain ⟨_, hall'⟩ := displaceEntries_ok y.1.width hwpos _ _ _ out (Nat.le_refl _) hde
          have hfit : y.1.width * (i + 1) ≤ (s.read y.1.off (y.1.width * y.1.count)).length := by
            rw [read_length]; exact Nat.mul_le_mul_left _ hi
          obtain ⟨q1, q2, q3⟩ := hall' i hfit
          dsimp only
          rw [hent, ← entryAt_read s _ _ _ _ hi]
          exact ⟨q1, q2, q3⟩



/-- the ftyp payload inside the returned metadata is the payload of the input's (first) ftyp box, byte for byte -/
theorem ftyp_carried (cfg : Config) (r : Sanitized) (md : Bytes)
    (h : Mp4.sanitize s kind cfg = .ok r) (hmd : r.metadata = some md) :
    ∃ (bs : List TopBox) (f : TopBox) (fo : Nat),
      walkAll s 0 s.len cfg.cumulativeMdatBoxSize = .clean bs ∧ bs.find? (fun b => decide (b.name = ftypN)) = some f ∧
      fo + f.payloadLen ≤ md.length ∧ (md.drop fo).take f.payloadLen = s.read f.payloadOff f.payloadLen := by
  obtain ⟨st, bs, hw, hser, _, hkf, hfin⟩ := sanitize_keep s kind cfg r h
  obtain ⟨ftyp, moov, fh, mh, pad, mp, hft, hmv, hmdeq, hall, hfty, hmty, hmpl, hcase⟩ := finish_cases st r md hser hfin hmd
  have hfw := (hall (fh, ftyp.data.ser ftypSer) (by simp [mdBoxes])).1
  unfold KeptFIs at hkf
  cases hfd : bs.find? (fun b => decide (b.name = ftypN)) with
  | none => rw [hfd] at hkf; dsimp only at hkf; rw [hft] at hkf; cases hkf
  | some f =>
    rw [hfd] at hkf
    obtain ⟨_, f', e1, e2⟩ := hkf
    rw [hft] at e1
    simp only [Option.some.injEq] at e1
    subst e1
    refine ⟨bs, f, fh.encodedLen, hw, hfd, ?_, ?_⟩
    · rw [hmdeq]
      have hfl : (ftyp.data.ser ftypSer).length = f.payloadLen := by rw [e2, read_length]
      have : fh.encodedLen + (ftyp.data.ser ftypSer).length ≤ (serBoxes (mdBoxes fh mh (ftyp.data.ser ftypSer) mp pad)).length := by
        simp only [mdBoxes, serBoxes, List.cons_append, List.nil_append, List.map_cons, List.flatten_cons, List.length_append,
          encodeHeader_length _ hfw]
        omega
      rw [hfl] at this
      exact this
    · rw [hmdeq]
      have e : ∃ tail, serBoxes (mdBoxes fh mh (ftyp.data.ser ftypSer) mp pad) = encodeHeader fh ++ (ftyp.data.ser ftypSer) ++ tail := by
        by_cases hp0 : pad = 0
        · exact ⟨encodeHeader mh ++ mp, by simp [mdBoxes, hp0, serBoxes, List.append_assoc]⟩
        · exact ⟨encodeHeader mh ++ mp ++ (encodeHeader ⟨FREE, .size pad⟩ ++ List.replicate (pad - 8) 0), by simp [mdBoxes, hp0, serBoxes, List.append_assoc]⟩
      obtain ⟨tail, ht⟩ := e
      have hl := encodeHeader_length _ hfw
      have hfl : (ftyp.data.ser ftypSer).length = f.payloadLen := by rw [e2, read_length]
      rw [ht, List.append_assoc, List.drop_append_of_le_length (by rw [hl]; exact Nat.le_refl _),
        List.drop_eq_nil_of_le (by rw [hl]; exact Nat.le_refl _), List.nil_append,
        List.take_append_of_le_length (by rw [hfl]; exact Nat.le_refl _), List.take_of_length_le (by rw [hfl]; exact Nat.le_refl _), e2]

theorem slice_slice {α : Type} (l : List α) (a n k w : Nat) (h1 : k + w ≤ n) :
    (((l.drop a).take n).drop k).take w = (l.drop (a + k)).take w := by
  rw [List.drop_take, List.take_take, List.drop_drop]
  congr 1
  omega

theorem getD_slice (l : Bytes) (a n i : Nat) (h : i < n) : ((l.drop a).take n).getD i 0 = l.getD (a + i) 0 := by
  simp only [List.getD_eq_getElem?_getD, List.getElem?_take, h, if_true, List.getElem?_drop]

theorem ordered_mem {β : Type} (lo hi : Nat) (T : List (Region × β)) (ho : Ordered lo hi T) (x : Region × β) (hx : x ∈ T) :
    lo ≤ x.1.off ∧ x.1.endOff ≤ hi := by
  induction T generalizing lo with
  | nil => cases hx
  | cons y rest ih =>
    obtain ⟨ry, by'⟩ := y
    obtain ⟨o1, o2⟩ := ho
    rcases List.mem_cons.mp hx with e | e
    · rw [e]; exact ⟨o1, ordered_le _ _ _ o2⟩
    · have := ih _ o2 e
      simp only [Region.endOff] at *
      omega

/-- the byte-level reading of `relocated`: outside the tables the moov payload is unchanged (C04); every entry of
    every table reads as the old entry plus the shift, within its field (C01) -/
theorem relocated_pointwise (m : TopBox) (T : List (Region × Bytes)) (mo : Nat) (md : Bytes) (shift : Int)
    (hle : m.payloadOff ≤ m.endOff)
    (ho : Ordered m.payloadOff m.endOff T) (hfit : Fits T)
    (hsl : (md.drop mo).take m.payloadLen = msplice s m.payloadOff m.endOff T)
    (hent : ∀ x ∈ T, ∀ i, i < x.1.count →
      (Mp4.entryAt x.1.width x.2 i : Int) = (Spec.Mp4Walk.entryAt s x.1 i : Int) + shift) :
    (∀ i, i < m.payloadLen → inRegions (T.map (·.1)) (m.payloadOff + i) = false →
      md.getD (mo + i) 0 = s.get (m.payloadOff + i)) ∧
    (∀ x ∈ T, ∀ i, i < x.1.count →
      (beToNat ((md.drop (mo + (x.1.off - m.payloadOff) + x.1.width * i)).take x.1.width) : Int) =
        (Spec.Mp4Walk.entryAt s x.1 i : Int) + shift) := by
  have hpl : m.payloadLen = m.endOff - m.payloadOff := rfl
  constructor
  · intro i hi hout
    rw [← getD_slice md mo m.payloadLen i hi, hsl]
    have := msplice_outside s m.payloadOff m.endOff T ho hfit (m.payloadOff + i) (by omega) (by omega) hout
    rw [← this]
    congr 1; omega
  · intro x hx i hi
    obtain ⟨b1, b2⟩ := ordered_mem _ _ T ho x hx
    have ht := msplice_table s m.payloadOff m.endOff T ho hfit x.1 x.2 hx
    rw [← hsl] at ht
    rw [← hent x hx i hi]
    unfold Mp4.entryAt
    rw [← ht]
    have h1 : x.1.width * i + x.1.width ≤ x.1.width * x.1.count := by
      have : x.1.width * (i + 1) ≤ x.1.width * x.1.count := Nat.mul_le_mul_left _ hi
      rw [Nat.mul_add, Nat.mul_one] at this; exact this
    have hend : x.1.endOff = x.1.off + x.1.width * x.1.count := rfl
    rw [slice_slice _ _ _ _ _ h1]
    -- the slice of the moov payload, back in the metadata
    have e1 : ((md.drop mo).take m.payloadLen).drop (x.1.off - m.payloadOff + x.1.width * i) =
        ((md.drop mo).drop (x.1.off - m.payloadOff + x.1.width * i)).take (m.payloadLen - (x.1.off - m.payloadOff + x.1.width * i)) := by
      rw [List.drop_take]
    rw [e1, List.take_take, List.drop_drop]
    have hge : x.1.width ≤ m.payloadLen - (x.1.off - m.payloadOff + x.1.width * i) := by
      obtain ⟨a, ha⟩ := Nat.exists_eq_add_of_le b1
      rw [hend, ha] at b2
      rw [ha, hpl]
      have : m.payloadOff + a - m.payloadOff = a := by omega
      rw [this]
      omega
    rw [Nat.min_eq_left hge]
    congr 3
    rw [Nat.add_assoc]

end

end MediaSan.Props.C01R
