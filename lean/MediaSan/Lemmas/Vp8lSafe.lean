/-
  No-panic proof for the lossless (VP8L) validator model: every panic site of `Vp8l.validate` is dead, for every
  payload.  The three sites: `read_huffman` on an empty node of a finalized tree, `read_huffman` out of fuel, and
  the `unreachable!` for a code-length code ≥ 19 (lossless.rs:586).

  `BSafe m Q`: from every payload and bit position, the bit-reader action `m` returns a value satisfying `Q` or a
  non-panic error.
-/
import MediaSan.Vp8l.Lossless
namespace MediaSan.Vp8l
open MediaSan MediaSan.Generated

def Good {α} (Q : α → Prop) : Except LErr (α × Nat) → Prop
  | .ok (a, _) => Q a
  | .error (.panic _) => False
  | .error _ => True

theorem Good.mono {α} {P Q : α → Prop} (h : ∀ a, P a → Q a) : ∀ r : Except LErr (α × Nat), Good P r → Good Q r
  | .ok (a, _), hr => h a hr
  | .error (.panic _), hr => hr
  | .error .truncated, _ => trivial
  | .error .invalidInput, _ => trivial
  | .error .invalidPrefixCode, _ => trivial

theorem Good.error {α} {Q : α → Prop} {e : LErr} (h : ∀ s, e ≠ .panic s) : Good Q (.error e : Except LErr (α × Nat)) := by
  cases e with
  | panic s => exact absurd rfl (h s)
  | _ => trivial

theorem Good.error_of {α β} {P : α → Prop} {Q : β → Prop} {e : LErr}
    (h : Good P (.error e : Except LErr (α × Nat))) : Good Q (.error e : Except LErr (β × Nat)) := by
  cases e with
  | panic s => exact h.elim
  | _ => trivial

def BSafe {α} (m : BR α) (Q : α → Prop) : Prop := ∀ b p, Good Q (m b p)

theorem BSafe.pure {α} {a : α} {Q : α → Prop} (h : Q a) : BSafe (BR.pure a) Q := by
  intro b p; exact h

theorem BSafe.fail {α} {e : LErr} {Q : α → Prop} (h : ∀ s, e ≠ .panic s) : BSafe (BR.fail e : BR α) Q := by
  intro b p
  exact Good.error h

theorem BSafe.bind {α β} {m : BR α} {f : α → BR β} {Q : β → Prop} (P : α → Prop)
    (hm : BSafe m P) (hf : ∀ a, P a → BSafe (f a) Q) : BSafe (m.bind f) Q := by
  intro b p
  have h1 := hm b p
  simp only [BR.bind_apply]
  cases hr : m b p with
  | ok x =>
    obtain ⟨a, p'⟩ := x
    rw [hr] at h1
    exact hf a h1 b p'
  | error e =>
    rw [hr] at h1
    exact Good.error_of h1

theorem BSafe.mono {α} {m : BR α} {P Q : α → Prop} (hm : BSafe m P) (h : ∀ a, P a → Q a) : BSafe m Q := by
  intro b p
  exact Good.mono h _ (hm b p)

theorem readBit_safe : BSafe readBit (fun _ => True) := by
  intro b p
  simp only [readBit]
  cases bitAt b p <;> trivial

theorem readBitsAux_safe (b : ByteArray) (n k acc p : Nat) : Good (fun _ => True) (readBitsAux b n k acc p) := by
  induction n generalizing k acc p with
  | zero => simp only [readBitsAux]; trivial
  | succ n ih =>
    simp only [readBitsAux]
    cases bitAt b p with
    | none => trivial
    | some v => exact ih _ _ _

theorem readBits_safe (n : Nat) : BSafe (readBits n) (fun _ => True) := by
  intro b p
  exact readBitsAux_safe b n 0 0 p

theorem ensure_safe (c : Bool) (e : LErr) (h : ∀ s, e ≠ .panic s) : BSafe (ensure c e) (fun _ => c = true) := by
  unfold ensure
  cases c
  · exact BSafe.fail h
  · exact BSafe.pure rfl

/-! ### trees: every leaf satisfies `P` -/

def HTree.LeavesIn (P : Nat → Prop) : HTree → Prop
  | .empty => True
  | .leaf s => P s
  | .node z o => z.LeavesIn P ∧ o.LeavesIn P

theorem add_leaves (P : Nat → Prop) (t t' : HTree) (c : List Bool) (s : Nat) (ht : t.LeavesIn P) (hs : P s)
    (h : t.add c s = .ok t') : t'.LeavesIn P := by
  induction c generalizing t t' with
  | nil =>
    cases t with
    | empty => simp only [HTree.add, Except.ok.injEq] at h; subst h; exact hs
    | leaf x => simp [HTree.add] at h
    | node z o => simp [HTree.add] at h
  | cons b bs ih =>
    cases t with
    | empty =>
      simp only [HTree.add] at h
      cases hr : HTree.add .empty bs s with
      | error e => rw [hr] at h; simp at h
      | ok t2 =>
        rw [hr] at h
        simp only [Except.ok.injEq] at h
        have h2 := ih .empty t2 trivial hr
        subst h
        cases b
        · exact ⟨h2, trivial⟩
        · exact ⟨trivial, h2⟩
    | leaf x => simp [HTree.add] at h
    | node z o =>
      simp only [HTree.add] at h
      cases b with
      | true =>
        simp only [if_true] at h
        cases hr : HTree.add o bs s with
        | error e => rw [hr] at h; simp at h
        | ok t2 =>
          rw [hr] at h
          simp only [Except.ok.injEq] at h
          subst h
          exact ⟨ht.1, ih o t2 ht.2 hr⟩
      | false =>
        simp only [Bool.false_eq_true, if_false] at h
        cases hr : HTree.add z bs s with
        | error e => rw [hr] at h; simp at h
        | ok t2 =>
          rw [hr] at h
          simp only [Except.ok.injEq] at h
          subst h
          exact ⟨ih z t2 ht.1 hr, ht.2⟩

theorem buildTree_leaves (P : Nat → Prop) (syms : List (Nat × List Bool)) (t t' : HTree) (ht : t.LeavesIn P)
    (hs : ∀ x ∈ syms, P x.1) (h : buildTree syms t = .ok t') : t'.LeavesIn P := by
  induction syms generalizing t with
  | nil => simp only [buildTree, Except.ok.injEq] at h; subst h; exact ht
  | cons x xs ih =>
    obtain ⟨s, c⟩ := x
    simp only [buildTree] at h
    cases hr : t.add c s with
    | error e => rw [hr] at h; simp at h
    | ok t2 =>
      rw [hr] at h
      exact ih t2 (add_leaves P t t2 c s ht (hs (s, c) (List.mem_cons_self ..)) hr)
        (fun y hy => hs y (List.mem_cons_of_mem _ hy)) h

theorem compile_good (P : Nat → Prop) (syms : List (Nat × List Bool)) (t : HTree) (hs : ∀ x ∈ syms, P x.1)
    (h : compileReadTree syms = .ok t) : t.complete = true ∧ t.LeavesIn P := by
  simp only [compileReadTree] at h
  cases hb : buildTree syms .empty with
  | error e => rw [hb] at h; simp at h
  | ok t2 =>
    rw [hb] at h
    simp only at h
    split at h
    · rename_i hc
      simp only [Except.ok.injEq] at h
      subst h
      exact ⟨hc, buildTree_leaves P syms .empty t2 trivial hs hb⟩
    · simp at h

/-- decoding on a complete tree whose leaves satisfy `P`, with fuel above the height: a symbol in `P`, or out of
    data — never a panic -/
theorem decodeSym_safe (P : Nat → Prop) (t : HTree) (hc : t.complete = true) (hl : t.LeavesIn P) (b : ByteArray)
    (fuel p : Nat) (hf : t.height < fuel) :
    Good P (decodeSym b t fuel p) := by
  induction t generalizing fuel p with
  | empty => simp [HTree.complete] at hc
  | leaf s => simp only [decodeSym]; exact hl
  | node z o ihz iho =>
    simp only [HTree.complete, Bool.and_eq_true] at hc
    simp only [HTree.height] at hf
    cases fuel with
    | zero => omega
    | succ f =>
      simp only [decodeSym]
      cases bitAt b p with
      | none => trivial
      | some v =>
        cases v
        · exact ihz hc.1 hl.1 f (p + 1) (by omega)
        · exact iho hc.2 hl.2 f (p + 1) (by omega)

def GoodCode (P : Nat → Prop) (c : Code) : Prop := c.tree.complete = true ∧ c.tree.LeavesIn P

theorem readSym_safe (P : Nat → Prop) (c : Code) (h : GoodCode P c) : BSafe (readSym c) P := by
  intro b p
  exact decodeSym_safe P c.tree h.1 h.2 b _ p (Nat.lt_succ_self _)


/-! ### the canonical code names only symbols it was given -/

theorem mem_insertBySym (a : Nat × Nat) (l : List (Nat × Nat)) (z : Nat × Nat) (hz : z ∈ insertBySym a l) :
    z = a ∨ z ∈ l := by
  induction l with
  | nil => simpa [insertBySym] using hz
  | cons b bs ih =>
    simp only [insertBySym] at hz
    split at hz
    · simp only [List.mem_cons] at hz ⊢; exact hz
    · simp only [List.mem_cons] at hz ⊢
      rcases hz with h | h
      · right; left; exact h
      · rcases ih h with h2 | h2
        · left; exact h2
        · right; right; exact h2

theorem mem_sortBySym (l : List (Nat × Nat)) (y : Nat × Nat) (hy : y ∈ sortBySym l) : y ∈ l := by
  induction l with
  | nil => simpa [sortBySym] using hy
  | cons a as ih =>
    simp only [sortBySym, List.foldr_cons] at hy ih
    rcases mem_insertBySym a _ y hy with h | h
    · simp [h]
    · exact List.mem_cons_of_mem _ (ih h)

theorem mem_sortByLenSym (l : List (Nat × Nat)) (y : Nat × Nat) (hy : y ∈ sortByLenSym l) : y ∈ l := by
  simp only [sortByLenSym, List.mem_flatMap, List.mem_range] at hy
  obtain ⟨len, _, h⟩ := hy
  exact (List.mem_filter.mp (mem_sortBySym _ y h)).1

theorem assignCodes_syms (rest : List (Nat × Nat)) (prev : List Bool) (x : Nat × List Bool)
    (hx : x ∈ assignCodes rest prev) : ∃ y ∈ rest, y.1 = x.1 := by
  induction rest generalizing prev with
  | nil => simp [assignCodes] at hx
  | cons a as ih =>
    obtain ⟨s, len⟩ := a
    simp only [assignCodes, List.mem_cons] at hx
    rcases hx with h | h
    · exact ⟨(s, len), List.mem_cons_self .., by rw [h]⟩
    · obtain ⟨y, hy, e⟩ := ih _ h
      exact ⟨y, List.mem_cons_of_mem _ hy, e⟩

theorem canonicalSymbols_syms (lens : List (Nat × Nat)) (lenient : Bool) (x : Nat × List Bool)
    (hx : x ∈ canonicalSymbols lens lenient) : ∃ y ∈ lens, y.1 = x.1 := by
  have hsub : ∀ y ∈ (sortByLenSym lens).filter (fun x => x.2 ≠ 0), y ∈ lens :=
    fun y hy => mem_sortByLenSym lens y (List.mem_filter.mp hy).1
  simp only [canonicalSymbols] at hx
  generalize (sortByLenSym lens).filter (fun x => x.2 ≠ 0) = nz at hx hsub
  split at hx
  · simp at hx
  · simp only [List.mem_singleton] at hx
    exact ⟨_, hsub _ (List.mem_cons_self ..), by rw [hx]⟩
  · split at hx
    · simp only [List.mem_singleton] at hx
      exact ⟨_, hsub _ (List.mem_cons_self ..), by rw [hx]⟩
    · simp only [List.mem_singleton] at hx
      exact ⟨_, hsub _ (List.mem_cons_self ..), by rw [hx]⟩
  · simp only [List.mem_cons] at hx
    rcases hx with h | h
    · exact ⟨_, hsub _ (List.mem_cons_self ..), by rw [h]⟩
    · obtain ⟨y, hy, e⟩ := assignCodes_syms _ _ x h
      exact ⟨y, hsub _ (List.mem_cons_of_mem _ hy), e⟩

theorem newCode_good (P : Nat → Prop) (lens : List (Nat × Nat)) (lenient : Bool) (c : Code)
    (hs : ∀ x ∈ lens, P x.1) (h : newCode lens lenient = .ok c) : GoodCode P c := by
  simp only [newCode, fromSymbols] at h
  cases hcr : compileReadTree (canonicalSymbols lens lenient) with
  | error e => rw [hcr] at h; simp at h
  | ok t =>
    rw [hcr] at h
    simp only [Except.ok.injEq] at h
    subst h
    exact compile_good P _ t (fun x hx => by
      obtain ⟨y, hy, e⟩ := canonicalSymbols_syms lens lenient x hx
      rw [← e]; exact hs y hy) hcr

theorem newCode_err (lens : List (Nat × Nat)) (lenient : Bool) (e : LErr) (h : newCode lens lenient = .error e) :
    ∀ s, e ≠ .panic s := by
  simp only [newCode, fromSymbols] at h
  cases hcr : compileReadTree (canonicalSymbols lens lenient) with
  | error e2 => rw [hcr] at h; simp only [Except.error.injEq] at h; subst h; intro s hh; cases hh
  | ok t => rw [hcr] at h; simp at h

/-- `match newCode … with | .ok c => pure c | .error e => fail e` -/
theorem newCode_safe (P : Nat → Prop) (lens : List (Nat × Nat)) (lenient : Bool) (hs : ∀ x ∈ lens, P x.1) :
    BSafe (match newCode lens lenient with
      | .ok c => BR.pure c
      | .error e => BR.fail e) (GoodCode P) := by
  cases h : newCode lens lenient with
  | ok c => exact BSafe.pure (newCode_good P lens lenient c hs h)
  | error e => exact BSafe.fail (newCode_err lens lenient e h)


/-! ### the reader, function by function -/

theorem np_truncated : ∀ s, LErr.truncated ≠ .panic s := by intro s h; cases h
theorem np_invalidInput : ∀ s, LErr.invalidInput ≠ .panic s := by intro s h; cases h
theorem np_invalidPrefixCode : ∀ s, LErr.invalidPrefixCode ≠ .panic s := by intro s h; cases h

theorem readLz77_safe (pc : Nat) : BSafe (readLz77 pc) (fun _ => True) := by
  unfold readLz77
  split
  · exact BSafe.pure trivial
  · split
    · simp only [BR.bind_eq, BR.pure_eq]
      apply BSafe.bind _ (readBits_safe _)
      intro x _
      exact BSafe.pure trivial
    · exact BSafe.fail np_invalidInput

theorem readColorCache_safe : BSafe readColorCache (fun _ => True) := by
  unfold readColorCache
  simp only [BR.bind_eq, BR.pure_eq]
  apply BSafe.bind _ readBit_safe
  intro has _
  split
  · apply BSafe.bind _ (readBits_safe 4)
    intro order _
    apply BSafe.bind _ (ensure_safe _ _ np_invalidInput)
    intro _ _
    apply BSafe.bind _ (ensure_safe _ _ np_invalidInput)
    intro _ _
    exact BSafe.pure trivial
  · exact BSafe.pure trivial

theorem clcGo_safe (count : Nat) (order : List Nat) (k : Nat) (acc : List (Nat × Nat)) (P : Nat → Prop)
    (ho : ∀ x ∈ order, P x) (ha : ∀ x ∈ acc, P x.1) :
    BSafe (readCodeLengthCode.go count order k acc) (fun l => ∀ x ∈ l, P x.1) := by
  induction order generalizing k acc with
  | nil => simp only [readCodeLengthCode.go]; exact BSafe.pure ha
  | cons idx rest ih =>
    simp only [readCodeLengthCode.go]
    split
    · simp only [BR.bind_eq]
      apply BSafe.bind _ (readBits_safe 3)
      intro l _
      apply ih
      · exact fun x hx => ho x (List.mem_cons_of_mem _ hx)
      · intro x hx
        simp only [List.mem_cons] at hx
        rcases hx with h | h
        · rw [h]; exact ho idx (List.mem_cons_self ..)
        · exact ha x h
    · apply ih
      · exact fun x hx => ho x (List.mem_cons_of_mem _ hx)
      · intro x hx
        simp only [List.mem_cons] at hx
        rcases hx with h | h
        · rw [h]; exact ho idx (List.mem_cons_self ..)
        · exact ha x h

theorem readCodeLengthCode_safe (cfg : LCfg) : BSafe (readCodeLengthCode cfg) (GoodCode (· ≤ 18)) := by
  unfold readCodeLengthCode
  simp only [BR.bind_eq, BR.pure_eq]
  apply BSafe.bind _ (readBits_safe 4)
  intro n _
  apply BSafe.bind _ (clcGo_safe (4 + n) codeOrder 0 [] (· ≤ 18) (by decide) (by intro x hx; cases hx))
  intro lens hl
  exact newCode_safe _ lens _ hl


theorem readCodeLengths_safe (clc : Code) (hc : GoodCode (· ≤ 18) clc) (maxCount reads n lnz : Nat)
    (syms : List (Nat × Nat)) : BSafe (readCodeLengths clc maxCount reads n lnz syms) (fun _ => True) := by
  induction reads generalizing n lnz syms with
  | zero => simp only [readCodeLengths]; exact BSafe.pure trivial
  | succ reads ih =>
    simp only [readCodeLengths]
    split
    · exact BSafe.pure trivial
    · simp only [BR.bind_eq, BR.pure_eq]
      apply BSafe.bind _ (readSym_safe _ clc hc)
      intro code hcode
      apply BSafe.bind (fun _ => True)
      · split
        · exact BSafe.pure trivial
        · split
          · apply BSafe.bind _ (readBits_safe _); intro _ _; exact BSafe.pure trivial
          · split
            · apply BSafe.bind _ (readBits_safe _); intro _ _; exact BSafe.pure trivial
            · split
              · apply BSafe.bind _ (readBits_safe _); intro _ _; exact BSafe.pure trivial
              · exfalso; omega
      · intro x _
        obtain ⟨len, rep⟩ := x
        dsimp only
        apply BSafe.bind _ (ensure_safe _ _ np_invalidPrefixCode)
        intro _ _
        exact ih _ _ _

theorem readPrefixCode_safe (cfg : LCfg) (alphabet : Nat) : BSafe (readPrefixCode cfg alphabet) (GoodCode (fun _ => True)) := by
  unfold readPrefixCode
  simp only [BR.bind_eq, BR.pure_eq]
  apply BSafe.bind _ readBit_safe
  intro simple _
  split
  · apply BSafe.bind _ readBit_safe
    intro hasSecond _
    apply BSafe.bind _ readBit_safe
    intro first8 _
    apply BSafe.bind (fun _ => True)
    · split
      · exact readBits_safe 8
      · exact readBits_safe 1
    · intro first _
      apply BSafe.bind (fun _ => True)
      · split
        · apply BSafe.bind _ (readBits_safe 8); intro _ _; exact BSafe.pure trivial
        · exact BSafe.pure trivial
      · intro named _
        exact newCode_safe _ _ _ (fun _ _ => trivial)
  · apply BSafe.bind _ (readCodeLengthCode_safe cfg)
    intro clc hclc
    apply BSafe.bind _ readBit_safe
    intro useMax _
    apply BSafe.bind (fun _ => True)
    · split
      · apply BSafe.bind _ (readBits_safe 3)
        intro k _
        apply BSafe.bind _ (readBits_safe _)
        intro v _
        exact BSafe.pure trivial
      · exact BSafe.pure trivial
    · intro reads _
      apply BSafe.bind _ (ensure_safe _ _ np_invalidInput)
      intro _ _
      apply BSafe.bind _ (readCodeLengths_safe clc hclc _ _ _ _ _)
      intro syms _
      exact newCode_safe _ _ _ (fun _ _ => trivial)

def GoodGroup (g : Group) : Prop :=
  GoodCode (fun _ => True) g.green ∧ GoodCode (fun _ => True) g.red ∧ GoodCode (fun _ => True) g.blue ∧
  GoodCode (fun _ => True) g.alpha ∧ GoodCode (fun _ => True) g.dist

theorem readGroup_safe (cfg : LCfg) (cache : Option Nat) : BSafe (readGroup cfg cache) GoodGroup := by
  unfold readGroup
  simp only [BR.bind_eq, BR.pure_eq]
  apply BSafe.bind _ (readPrefixCode_safe cfg _); intro green hg
  apply BSafe.bind _ (readPrefixCode_safe cfg _); intro red hr
  apply BSafe.bind _ (readPrefixCode_safe cfg _); intro blue hb
  apply BSafe.bind _ (readPrefixCode_safe cfg _); intro alpha ha
  apply BSafe.bind _ (readPrefixCode_safe cfg _); intro dist hd
  exact BSafe.pure ⟨hg, hr, hb, ha, hd⟩

set_option maxRecDepth 4000 in
theorem pixelLoop_safe (g : Group) (hg : GoodGroup g) (cache : Option Nat) (width total : Nat) (chk : Nat → Bool)
    (fuel idx acc : Nat) : BSafe (pixelLoop g cache width total chk fuel idx acc) (fun _ => True) := by
  induction fuel generalizing idx acc with
  | zero => simp only [pixelLoop]; exact BSafe.pure trivial
  | succ fuel ih =>
    simp only [pixelLoop]
    split
    · exact BSafe.pure trivial
    · simp only [BR.bind_eq, BR.pure_eq]
      apply BSafe.bind _ (readSym_safe _ g.green hg.1); intro sym _
      split
      · apply BSafe.bind _ (readSym_safe _ g.red hg.2.1); intro red _
        apply BSafe.bind _ (readSym_safe _ g.blue hg.2.2.1); intro _ _
        apply BSafe.bind _ (readSym_safe _ g.alpha hg.2.2.2.1); intro _ _
        apply BSafe.bind _ (ensure_safe _ _ np_invalidInput); intro _ _
        exact ih _ _
      · split
        · apply BSafe.bind _ (readLz77_safe _); intro len _
          apply BSafe.bind _ (readSym_safe _ g.dist hg.2.2.2.2); intro distSym _
          apply BSafe.bind _ (readLz77_safe _); intro distCode _
          apply BSafe.bind _ (ensure_safe _ _ np_invalidInput); intro _ _
          apply BSafe.bind _ (ensure_safe _ _ np_invalidInput); intro _ _
          exact ih _ _
        · apply BSafe.bind _ (ensure_safe _ _ np_invalidInput); intro _ _
          exact ih _ _

theorem readEntropyImage_safe (cfg : LCfg) (width height : Nat) (chk : Nat → Bool) :
    BSafe (readEntropyImage cfg width height chk) (fun _ => True) := by
  unfold readEntropyImage
  simp only [BR.bind_eq, BR.pure_eq]
  apply BSafe.bind _ readColorCache_safe; intro cache _
  apply BSafe.bind _ (readGroup_safe cfg cache); intro g hg
  exact pixelLoop_safe g hg cache _ _ chk _ _ _

theorem readTransform_safe (cfg : LCfg) (width height : Nat) : BSafe (readTransform cfg width height) (fun _ => True) := by
  unfold readTransform
  simp only [BR.bind_eq, BR.pure_eq]
  apply BSafe.bind _ (readBits_safe 2); intro t _
  split
  · apply BSafe.bind _ (readBits_safe 3); intro k _
    apply BSafe.bind _ (readEntropyImage_safe cfg _ _ _); intro _ _
    exact BSafe.pure trivial
  · split
    · apply BSafe.bind _ (readBits_safe 3); intro k _
      apply BSafe.bind _ (readEntropyImage_safe cfg _ _ _); intro _ _
      exact BSafe.pure trivial
    · split
      · exact BSafe.pure trivial
      · apply BSafe.bind _ (readBits_safe 8); intro n _
        apply BSafe.bind _ (readEntropyImage_safe cfg _ _ _); intro _ _
        exact BSafe.pure trivial

theorem readTransforms_safe (cfg : LCfg) (height fuel width : Nat) (seen : List TransformType) :
    BSafe (readTransforms cfg height fuel width seen) (fun _ => True) := by
  induction fuel generalizing width seen with
  | zero => simp only [readTransforms]; exact BSafe.pure trivial
  | succ fuel ih =>
    simp only [readTransforms, BR.bind_eq, BR.pure_eq]
    apply BSafe.bind _ readBit_safe; intro more _
    split
    · apply BSafe.bind _ (readTransform_safe cfg width height); intro x _
      obtain ⟨ty, w'⟩ := x
      dsimp only
      apply BSafe.bind _ (ensure_safe _ _ np_invalidInput); intro _ _
      exact ih _ _
    · exact BSafe.pure trivial

theorem readGroups_safe (cfg : LCfg) (cache : Option Nat) (n : Nat) : BSafe (readGroups cfg cache n) (fun _ => True) := by
  induction n with
  | zero => simp only [readGroups]; exact BSafe.pure trivial
  | succ n ih =>
    simp only [readGroups, BR.bind_eq]
    apply BSafe.bind _ (readGroup_safe cfg cache); intro _ _
    exact ih

theorem readSpatial_safe (cfg : LCfg) (width height : Nat) : BSafe (readSpatial cfg width height) (fun _ => True) := by
  unfold readSpatial
  simp only [BR.bind_eq, BR.pure_eq]
  apply BSafe.bind _ readColorCache_safe; intro cache _
  apply BSafe.bind _ readBit_safe; intro hasMeta _
  apply BSafe.bind (fun _ => True)
  · split
    · apply BSafe.bind _ (readBits_safe 3); intro k _
      exact readEntropyImage_safe cfg _ _ _
    · exact BSafe.pure trivial
  · intro mg _
    exact readGroups_safe cfg cache _

theorem readLossless_safe (cfg : LCfg) (width height : Nat) : BSafe (readLossless cfg width height) (fun _ => True) := by
  unfold readLossless
  simp only [BR.bind_eq]
  apply BSafe.bind _ (readTransforms_safe cfg height 5 width []); intro w _
  exact readSpatial_safe cfg w height

/-- the lossless validator never panics: for every payload, every declared size and both strictness settings -/
theorem validate_np (data : ByteArray) (width height : Nat) (cfg : LCfg) (site : String) :
    validate data width height cfg ≠ .error (.panic site) := by
  have h := readLossless_safe cfg width height data 0
  unfold validate
  cases hr : readLossless cfg width height data 0 with
  | ok x => intro hh; cases hh
  | error e =>
    rw [hr] at h
    intro hh
    simp only [Except.error.injEq] at hh
    subst hh
    exact h

end MediaSan.Vp8l
