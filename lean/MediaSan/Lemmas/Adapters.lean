/-
  C15: `BufReader(cap)` with the `Skip` impl of common/src/skip.rs over a chunk-limited seek-based or strict input
  is a refinement of the ideal cursor over the same bytes: a simulation (`Sim`) with the abstraction
      ideal position = inner position − buffered,   buffer = the stream's bytes at the ideal position.
  By `run_sim` every I/O program then returns the same outcome on both (C11).
-/
import MediaSan.Adapters
import MediaSan.Lemmas.Prog
namespace MediaSan
open MediaSan

theorem Stream.read_length (s : Stream) (p n : Nat) : (s.read p n).length = n := by simp [Stream.read]

theorem Stream.read_zero (s : Stream) (p : Nat) : s.read p 0 = [] := by simp [Stream.read]

theorem Stream.read_add (s : Stream) (p a b : Nat) : s.read p (a + b) = s.read p a ++ s.read (p + a) b := by
  simp only [Stream.read, List.range_add, List.map_append, List.map_map]
  congr 1
  apply List.map_congr_left
  intro i _
  simp [Nat.add_assoc]

theorem Stream.read_take (s : Stream) (p n k : Nat) (h : k ≤ n) : (s.read p n).take k = s.read p k := by
  have : n = k + (n - k) := by omega
  rw [this, Stream.read_add, List.take_left' (by simp [Stream.read])]

theorem Stream.read_drop (s : Stream) (p n k : Nat) (h : k ≤ n) : (s.read p n).drop k = s.read (p + k) (n - k) := by
  have : n = k + (n - k) := by omega
  conv => lhs; rw [this, Stream.read_add]
  rw [List.drop_left' (by simp [Stream.read])]

/-- the abstraction relation -/
structure BufRel (s : Stream) (kind : SkipKind) (st : BufState Nat) (pos : Nat) : Prop where
  posEq : st.inner = pos + st.buf.length
  window : st.buf = s.read pos st.buf.length
  inside : st.buf ≠ [] → st.inner ≤ s.len
  strict : kind = .strict → st.inner ≤ s.len

theorem bufRel_init (s : Stream) (kind : SkipKind) : BufRel s kind ⟨0, []⟩ 0 :=
  ⟨rfl, by simp [Stream.read], by simp, by intro _; exact Nat.zero_le _⟩

theorem chunkLimit_pos (chunk n avail : Nat) (hn : 0 < n) (ha : 0 < avail) : 0 < chunkLimit chunk n avail := by
  unfold chunkLimit
  have : 0 < max chunk 1 := by omega
  omega

theorem chunkLimit_le (chunk n avail : Nat) : chunkLimit chunk n avail ≤ n ∧ chunkLimit chunk n avail ≤ avail := by
  unfold chunkLimit; omega

section
variable (s : Stream) (kind : SkipKind) (cap chunk : Nat)

/-- `fill_buf().is_empty()` agrees with "position ≥ length" -/
theorem sim_isEof (hcap : 1 ≤ cap) (st : BufState Nat) (pos : Nat) (h : BufRel s kind st pos) :
    RelRes (BufRel s kind) ((bufOps cap (idealRaw s kind chunk)).isEof st) ((idealOps s kind).isEof pos) := by
  obtain ⟨hp, hw, hi, hs⟩ := h
  simp only [bufOps, idealOps, idealRaw]
  by_cases hb : st.buf = []
  · have hlen : st.buf.length = 0 := by simp [hb]
    have hin : st.inner = pos := by omega
    simp only [hb, List.isEmpty_nil, Bool.not_true, Bool.false_eq_true, if_false, RelRes]
    have hm1 := chunkLimit_le chunk cap (s.len - st.inner)
    constructor
    · -- emptiness of what the fill delivered ↔ pos ≥ len
      by_cases hle : s.len ≤ pos
      · have : chunkLimit chunk cap (s.len - st.inner) = 0 := by omega
        simp [this, Stream.read, hle]
      · have hpos : 0 < chunkLimit chunk cap (s.len - st.inner) := chunkLimit_pos _ _ _ (by omega) (by omega)
        have : ¬ (s.read st.inner (chunkLimit chunk cap (s.len - st.inner))).isEmpty = true := by
          simp only [List.isEmpty_iff]
          intro hc
          have := congrArg List.length hc
          simp [Stream.read_length] at this
          omega
        simp [this, hle]
    · refine ⟨?_, ?_, ?_, ?_⟩
      · simp [Stream.read_length]; omega
      · simp [Stream.read_length, hin]
      · intro hne
        dsimp only at hne ⊢
        have hm0 : chunkLimit chunk cap (s.len - st.inner) ≠ 0 := by
          intro h0; rw [h0] at hne; simp [Stream.read] at hne
        omega
      · intro hk
        dsimp only
        have := hs hk
        omega
  · have hne : st.buf.isEmpty = false := by
      cases hbuf : st.buf with
      | nil => exact absurd hbuf hb
      | cons a b => rfl
    simp only [hne, Bool.not_false, if_true, RelRes]
    have hl : 0 < st.buf.length := List.length_pos_iff.mpr hb
    have hin := hi hb
    have hlt : ¬ s.len ≤ pos := by omega
    refine ⟨?_, ⟨hp, hw, hi, hs⟩⟩
    simp [hlt]

theorem sim_position (st : BufState Nat) (pos : Nat) (h : BufRel s kind st pos) :
    RelRes (BufRel s kind) ((bufOps cap (idealRaw s kind chunk)).position st) ((idealOps s kind).position pos) := by
  obtain ⟨hp, hw, hi, hs⟩ := h
  simp only [bufOps, idealOps, idealRaw, RelRes]
  exact ⟨by omega, ⟨hp, hw, hi, hs⟩⟩

theorem sim_streamLen (st : BufState Nat) (pos : Nat) (h : BufRel s kind st pos) :
    RelRes (BufRel s kind) ((bufOps cap (idealRaw s kind chunk)).streamLen st) ((idealOps s kind).streamLen pos) := by
  simp only [bufOps, idealOps, idealRaw, RelRes]
  refine ⟨?_, h⟩
  first | rfl | trivial

/-- `skip` (common/src/skip.rs:73-82): buffered bytes are consumed, the rest is skipped in the inner reader — never
    skipping, repeating or misreporting a byte; errors (end of a strict stream, u64 overflow of a seek target) agree
    with the ideal cursor.  `hlen`: the stream is shorter than 2^62 bytes. -/
theorem sim_skip (hlen : s.len < 4611686018427387904) (st : BufState Nat) (pos n : Nat) (h : BufRel s kind st pos) :
    RelSt (BufRel s kind) ((bufOps cap (idealRaw s kind chunk)).skip st n) ((idealOps s kind).skip pos n) := by
  obtain ⟨hp, hw, hi, hs⟩ := h
  have hu : u64Lim = 18446744073709551616 := rfl
  have hi64 : i64Max = 9223372036854775807 := rfl
  simp only [bufOps, idealRaw]
  by_cases hA : st.buf.length ≤ n
  · rw [if_pos hA]
    by_cases hd : n - st.buf.length ≠ 0
    · rw [if_pos hd]
      -- case C: the inner reader skips the part that is not buffered
      cases kind with
      | strict =>
        have hin := hs rfl
        simp only [idealOps]
        by_cases hle : pos + n ≤ s.len
        · have : st.inner + (n - st.buf.length) ≤ s.len := by omega
          rw [if_pos this, if_pos hle]
          simp only [RelSt]
          exact ⟨by simp; omega, by simp [Stream.read], by simp, by intro _; dsimp only; omega⟩
        · have : ¬ st.inner + (n - st.buf.length) ≤ s.len := by omega
          rw [if_neg this, if_neg hle]
          simp [RelSt]
      | seekable =>
        simp only [idealOps]
        have hn0 : ¬ n = 0 := by omega
        have hd0 : ¬ n - st.buf.length = 0 := hd
        rw [if_neg hd0, if_neg hn0]
        have hsum : st.inner + (n - st.buf.length) = pos + n := by omega
        by_cases hlt : pos + n < u64Lim
        · rw [if_pos (by omega), if_pos hlt]
          simp only [RelSt]
          exact ⟨by simp; omega, by simp [Stream.read], by simp, by intro hk; cases hk⟩
        · rw [if_neg (by omega), if_neg hlt]
          -- the error kind: both sides see an amount above i64::MAX, or the buffer is empty and the amounts coincide
          by_cases hb : st.buf = []
          · have : st.buf.length = 0 := by simp [hb]
            have e : n - st.buf.length = n := by omega
            rw [e]
            by_cases hk : n ≤ i64Max
            · simp [hk, RelSt]
            · simp [hk, RelSt]
          · have hin := hi hb
            have h1 : ¬ n ≤ i64Max := by omega
            have h2 : ¬ n - st.buf.length ≤ i64Max := by omega
            rw [if_neg h1, if_neg h2]; simp [RelSt]
    · rw [if_neg hd]
      -- case B: exactly the buffered bytes
      have hn : n = st.buf.length := by omega
      have hposn : pos + n = st.inner := by omega
      have rel : BufRel s kind ⟨st.inner, []⟩ (pos + n) :=
        ⟨by simp; omega, by simp [Stream.read], by simp, by intro hk; exact hs hk⟩
      cases kind with
      | strict =>
        have hin := hs rfl
        simp only [idealOps]
        rw [if_pos (by omega)]
        exact rel
      | seekable =>
        simp only [idealOps]
        by_cases hn0 : n = 0
        · rw [if_pos hn0]
          simp only [RelSt]
          have : pos = pos + n := by omega
          rw [this]; exact rel
        · rw [if_neg hn0]
          have hb : st.buf ≠ [] := by intro hc; simp [hc] at hn; omega
          have hin := hi hb
          rw [if_pos (by omega)]
          exact rel
  · rw [if_neg hA]
    -- case A: served from the buffer
    have hb : st.buf ≠ [] := by intro hc; simp [hc] at hA
    have hin := hi hb
    have hlt : n < st.buf.length := by omega
    have rel : BufRel s kind ⟨st.inner, st.buf.drop n⟩ (pos + n) := by
      refine ⟨by simp; omega, ?_, by intro _; exact hin, by intro hk; exact hs hk⟩
      simp only [List.length_drop]
      conv => lhs; rw [hw]
      exact Stream.read_drop s pos st.buf.length n (by omega)
    cases kind with
    | strict =>
      simp only [idealOps]
      rw [if_pos (by omega)]
      exact rel
    | seekable =>
      simp only [idealOps]
      by_cases hn0 : n = 0
      · rw [if_pos hn0]
        simp only [RelSt]
        have : pos = pos + n := by omega
        rw [this]; exact rel
      · rw [if_neg hn0, if_pos (by omega)]
        exact rel

/-- filling an empty buffer keeps the abstraction (same ideal position) -/
theorem fill_rel (st : BufState Nat) (pos want : Nat) (h : BufRel s kind st pos) (hb : st.buf = []) :
    BufRel s kind ⟨st.inner + chunkLimit chunk want (s.len - st.inner),
      s.read st.inner (chunkLimit chunk want (s.len - st.inner))⟩ pos := by
  obtain ⟨hp, hw, hi, hs⟩ := h
  have hlen : st.buf.length = 0 := by simp [hb]
  have hin : st.inner = pos := by omega
  have hm := chunkLimit_le chunk want (s.len - st.inner)
  refine ⟨?_, ?_, ?_, ?_⟩
  · simp [Stream.read_length]; omega
  · simp [Stream.read_length, hin]
  · intro hne
    dsimp only at hne ⊢
    have hm0 : chunkLimit chunk want (s.len - st.inner) ≠ 0 := by
      intro h0; rw [h0] at hne; simp [Stream.read] at hne
    omega
  · intro hk
    dsimp only
    have := hs hk
    omega

/-- consuming `k` buffered bytes advances the ideal position by `k` -/
theorem consume_rel (st : BufState Nat) (pos k : Nat) (h : BufRel s kind st pos) (hk : k ≤ st.buf.length) :
    BufRel s kind ⟨st.inner, st.buf.drop k⟩ (pos + k) ∧ st.buf.take k = s.read pos k := by
  obtain ⟨hp, hw, hi, hs⟩ := h
  refine ⟨⟨by simp; omega, ?_, ?_, hs⟩, ?_⟩
  · simp only [List.length_drop]
    conv => lhs; rw [hw]
    exact Stream.read_drop s pos st.buf.length k hk
  · intro hne
    apply hi
    intro hc; simp [hc] at hne
  · conv => lhs; rw [hw]
    exact Stream.read_take s pos st.buf.length k hk

theorem idealRaw_read (p n : Nat) :
    (idealRaw s kind chunk).read p n =
      .ok (s.read p (chunkLimit chunk n (s.len - p)), p + chunkLimit chunk n (s.len - p)) := rfl

theorem read_nonempty (p m : Nat) (hm : 0 < m) : (s.read p m).isEmpty = false := by
  cases hr : s.read p m with
  | nil => have := congrArg List.length hr; simp [Stream.read_length] at this; omega
  | cons a b => rfl

/-- the read loop: with `got` bytes already delivered from `pos0`, it delivers exactly the next
    `min need (bytes left)` bytes of the stream — or, for `read_exact`, fails with UnexpectedEof when fewer than
    `need` are left — whatever the chunking of the underlying reads -/
theorem bufReadLoop_spec (hcap : 1 ≤ cap) (exact : Bool) (fuel : Nat) (st : BufState Nat) (pos0 got need : Nat)
    (hf : need < fuel) (h : BufRel s kind st (pos0 + got)) :
    (exact = true ∧ s.len - (pos0 + got) < need →
      bufReadLoop (idealRaw s kind chunk) cap exact fuel st need (s.read pos0 got) = .error .unexpectedEof) ∧
    (¬ (exact = true ∧ s.len - (pos0 + got) < need) →
      ∃ st', bufReadLoop (idealRaw s kind chunk) cap exact fuel st need (s.read pos0 got) =
          .ok (s.read pos0 (got + min need (s.len - (pos0 + got))), st') ∧
        BufRel s kind st' (pos0 + got + min need (s.len - (pos0 + got)))) := by
  induction fuel generalizing st got need with
  | zero => omega
  | succ fuel ih =>
    by_cases hn0 : need = 0
    · subst hn0
      constructor
      · intro hc; omega
      · intro _
        exact ⟨st, by simp [bufReadLoop], by simpa using h⟩
    · have hneed : 0 < need := by omega
      have hrel0 := h
      obtain ⟨hp, hw, hi, hs⟩ := h
      -- one step of the loop delivers `k ≥ 1` more bytes and leaves a related state
      have finish : ∀ (st1 : BufState Nat) (k : Nat), 0 < k → k ≤ need → pos0 + got + k ≤ s.len →
          BufRel s kind st1 (pos0 + (got + k)) →
          (exact = true ∧ s.len - (pos0 + got) < need →
            bufReadLoop (idealRaw s kind chunk) cap exact fuel st1 (need - k) (s.read pos0 (got + k)) = .error .unexpectedEof) ∧
          (¬ (exact = true ∧ s.len - (pos0 + got) < need) →
            ∃ st', bufReadLoop (idealRaw s kind chunk) cap exact fuel st1 (need - k) (s.read pos0 (got + k)) =
                .ok (s.read pos0 (got + min need (s.len - (pos0 + got))), st') ∧
              BufRel s kind st' (pos0 + got + min need (s.len - (pos0 + got)))) := by
        intro st1 k hk0 hkn hkl hr1
        obtain ⟨bad, ok⟩ := ih st1 (got + k) (need - k) (by omega) hr1
        constructor
        · intro hc
          apply bad
          exact ⟨hc.1, by omega⟩
        · intro hc
          obtain ⟨st', e1, e2⟩ := ok (by intro hc2; apply hc; exact ⟨hc2.1, by omega⟩)
          have e : got + k + min (need - k) (s.len - (pos0 + (got + k))) = got + min need (s.len - (pos0 + got)) := by omega
          have e' : pos0 + (got + k) + min (need - k) (s.len - (pos0 + (got + k))) =
              pos0 + got + min need (s.len - (pos0 + got)) := by omega
          rw [e] at e1; rw [e'] at e2
          exact ⟨st', e1, e2⟩
      by_cases hb : st.buf = []
      · have hlen : st.buf.length = 0 := by simp [hb]
        have hin : st.inner = pos0 + got := by omega
        have hemp : st.buf.isEmpty = true := by simp [hb]
        by_cases havail : s.len ≤ pos0 + got
        · -- nothing left in the stream
          have hm0 : ∀ want, chunkLimit chunk want (s.len - st.inner) = 0 := by
            intro want; have := chunkLimit_le chunk want (s.len - st.inner); omega
          have hmin : min need (s.len - (pos0 + got)) = 0 := by omega
          constructor
          · intro hc
            by_cases hbyp : cap ≤ need
            · simp [bufReadLoop, hn0, hemp, hbyp, idealRaw_read, hm0, Stream.read_zero, hc.1]
            · simp [bufReadLoop, hn0, hemp, hbyp, idealRaw_read, hm0, Stream.read_zero, hc.1]
          · intro hc
            have hex : exact = false := by
              cases exact
              · rfl
              · exact absurd ⟨rfl, by omega⟩ hc
            rw [hmin]
            by_cases hbyp : cap ≤ need
            · refine ⟨⟨st.inner, []⟩, ?_, ?_⟩
              · simp [bufReadLoop, hn0, hemp, hbyp, idealRaw_read, hm0, Stream.read_zero, hex]
              · exact ⟨by simp; omega, by simp [Stream.read], by simp, by intro hk; exact hs hk⟩
            · refine ⟨⟨st.inner, []⟩, ?_, ?_⟩
              · simp [bufReadLoop, hn0, hemp, hbyp, idealRaw_read, hm0, Stream.read_zero, hex]
              · exact ⟨by simp; omega, by simp [Stream.read], by simp, by intro hk; exact hs hk⟩
        · by_cases hbyp : cap ≤ need
          · -- bypass: read straight from the inner reader
            have hm := chunkLimit_le chunk need (s.len - st.inner)
            have hmpos : 0 < chunkLimit chunk need (s.len - st.inner) := chunkLimit_pos _ _ _ hneed (by omega)
            have hne := read_nonempty s st.inner _ hmpos
            have hrel : BufRel s kind ⟨st.inner + chunkLimit chunk need (s.len - st.inner), []⟩
                (pos0 + (got + chunkLimit chunk need (s.len - st.inner))) :=
              ⟨by simp; omega, by simp [Stream.read], by simp, by intro hk; dsimp only; have := hs hk; omega⟩
            have hacc : s.read pos0 got ++ s.read st.inner (chunkLimit chunk need (s.len - st.inner)) =
                s.read pos0 (got + chunkLimit chunk need (s.len - st.inner)) := by
              rw [hin, ← Stream.read_add]
            have step : bufReadLoop (idealRaw s kind chunk) cap exact (fuel + 1) st need (s.read pos0 got) =
                bufReadLoop (idealRaw s kind chunk) cap exact fuel
                  ⟨st.inner + chunkLimit chunk need (s.len - st.inner), []⟩
                  (need - chunkLimit chunk need (s.len - st.inner))
                  (s.read pos0 (got + chunkLimit chunk need (s.len - st.inner))) := by
              simp only [bufReadLoop, hn0, if_false, hemp, hbyp, and_self, if_true, idealRaw_read, hne,
                Bool.false_eq_true, Stream.read_length, hacc]
            rw [step]
            exact finish _ _ hmpos hm.1 (by omega) hrel
          · -- fill the buffer, then copy from it
            have hm := chunkLimit_le chunk cap (s.len - st.inner)
            have hmpos : 0 < chunkLimit chunk cap (s.len - st.inner) := chunkLimit_pos _ _ _ (by omega) (by omega)
            have hne := read_nonempty s st.inner _ hmpos
            have hfill := fill_rel s kind chunk st (pos0 + got) cap hrel0 hb
            have hk : min need (chunkLimit chunk cap (s.len - st.inner)) ≤
                (s.read st.inner (chunkLimit chunk cap (s.len - st.inner))).length := by
              simp [Stream.read_length]; omega
            obtain ⟨hrel, htake⟩ := consume_rel s kind _ (pos0 + got) _ hfill hk
            have hkpos : 0 < min need (chunkLimit chunk cap (s.len - st.inner)) := by omega
            have step : bufReadLoop (idealRaw s kind chunk) cap exact (fuel + 1) st need (s.read pos0 got) =
                bufReadLoop (idealRaw s kind chunk) cap exact fuel
                  ⟨st.inner + chunkLimit chunk cap (s.len - st.inner),
                    (s.read st.inner (chunkLimit chunk cap (s.len - st.inner))).drop
                      (min need (chunkLimit chunk cap (s.len - st.inner)))⟩
                  (need - min need (chunkLimit chunk cap (s.len - st.inner)))
                  (s.read pos0 (got + min need (chunkLimit chunk cap (s.len - st.inner)))) := by
              simp only [bufReadLoop, hn0, if_false, hemp, hbyp, true_and, and_false, if_true, idealRaw_read, hne,
                Bool.false_eq_true, Stream.read_length, htake, ← Stream.read_add]
            rw [step]
            exact finish _ _ hkpos (Nat.min_le_left _ _) (by omega) (by simpa [Nat.add_assoc] using hrel)
      · -- buffer already holds bytes
        have hemp : st.buf.isEmpty = false := by
          cases hbuf : st.buf with
          | nil => exact absurd hbuf hb
          | cons a b => rfl
        have hl : 0 < st.buf.length := List.length_pos_iff.mpr hb
        have hin := hi hb
        have hk : min need st.buf.length ≤ st.buf.length := Nat.min_le_right _ _
        obtain ⟨hrel, htake⟩ := consume_rel s kind st (pos0 + got) _ hrel0 hk
        have step : bufReadLoop (idealRaw s kind chunk) cap exact (fuel + 1) st need (s.read pos0 got) =
            bufReadLoop (idealRaw s kind chunk) cap exact fuel ⟨st.inner, st.buf.drop (min need st.buf.length)⟩
              (need - min need st.buf.length) (s.read pos0 (got + min need st.buf.length)) := by
          simp only [bufReadLoop, hn0, if_false, hemp, Bool.false_eq_true, false_and, htake, ← Stream.read_add]
        rw [step]
        exact finish _ _ (by omega) (Nat.min_le_left _ _) (by omega) (by simpa [Nat.add_assoc] using hrel)

/-- `read_exact` through the buffered adapter = `read_exact` on the ideal cursor (bytes, new position, end of data) -/
theorem sim_readExact (hcap : 1 ≤ cap) (st : BufState Nat) (pos n : Nat) (h : BufRel s kind st pos) :
    RelRes (BufRel s kind) ((bufOps cap (idealRaw s kind chunk)).readExact st n) ((idealOps s kind).readExact pos n) := by
  have hspec := bufReadLoop_spec s kind cap chunk hcap true (n + 1) st pos 0 n (by omega) (by simpa using h)
  simp only [Nat.add_zero, Nat.zero_add, Stream.read_zero] at hspec
  obtain ⟨bad, ok⟩ := hspec
  show RelRes (BufRel s kind) (bufReadLoop (idealRaw s kind chunk) cap true (n + 1) st n []) _
  simp only [idealOps]
  by_cases hn : n = 0
  · obtain ⟨st', e1, e2⟩ := ok (by intro hc; omega)
    rw [e1, if_pos hn]
    subst hn
    simp only [RelRes, Nat.zero_min, Stream.read_zero]
    exact ⟨trivial, by simpa using e2⟩
  · rw [if_neg hn]
    by_cases hle : pos + n ≤ s.len
    · obtain ⟨st', e1, e2⟩ := ok (by intro hc; omega)
      have hmin : min n (s.len - pos) = n := by omega
      rw [hmin] at e1 e2
      rw [e1, if_pos hle]
      exact ⟨by first | rfl | trivial, e2⟩
    · rw [bad ⟨by first | rfl | trivial, by omega⟩, if_neg hle]
      simp [RelRes]

/-- `take(n).read_to_end()` through the buffered adapter = the ideal cursor's: everything up to `n` bytes or the end -/
theorem sim_readUpTo (hcap : 1 ≤ cap) (st : BufState Nat) (pos n : Nat) (h : BufRel s kind st pos) :
    RelRes (BufRel s kind) ((bufOps cap (idealRaw s kind chunk)).readUpTo st n) ((idealOps s kind).readUpTo pos n) := by
  have hspec := bufReadLoop_spec s kind cap chunk hcap false (n + 1) st pos 0 n (by omega) (by simpa using h)
  simp only [Nat.add_zero, Nat.zero_add, Stream.read_zero] at hspec
  obtain ⟨st', e1, e2⟩ := hspec.2 (by intro hc; exact Bool.noConfusion hc.1)
  show RelRes (BufRel s kind) (bufReadLoop (idealRaw s kind chunk) cap false (n + 1) st n []) _
  rw [e1]
  simp only [idealOps, RelRes]
  exact ⟨by first | rfl | trivial, e2⟩

/-- C15: `BufReader(cap)` over a chunk-limited input is simulated by the ideal cursor — operation by operation -/
theorem bufOps_sim (hcap : 1 ≤ cap) (hlen : s.len < 4611686018427387904) :
    Sim (bufOps cap (idealRaw s kind chunk)) (idealOps s kind) (BufRel s kind) where
  isEof a b h := sim_isEof s kind cap chunk hcap a b h
  position a b h := sim_position s kind cap chunk a b h
  streamLen a b h := sim_streamLen s kind cap chunk a b h
  readExact a b n h := sim_readExact s kind cap chunk hcap a b n h
  skip a b n h := sim_skip s kind cap chunk hlen a b n h
  readUpTo a b n h := sim_readUpTo s kind cap chunk hcap a b n h

end
end MediaSan
