/-
  C10, whole runs: the byte ranges the MP4 sanitizer reads avoid the payload of every top-level box (as the independent
  walker finds them) that is neither `ftyp` nor `moov`.  With the non-interference theorem of Lemmas/NonInterf.lean:
  changing such payload bytes never changes the sanitizer's answer.
-/
import MediaSan.Lemmas.Reads
import MediaSan.Lemmas.ScanRel
import MediaSan.Lemmas.Meter
import MediaSan.Lemmas.TopRel
import MediaSan.Lemmas.WalkFrame
namespace MediaSan.Mp4
open MediaSan MediaSan.Spec.Mp4Walk

section
variable (s : Stream) (kind : SkipKind)

/-- consecutive walker boxes from `off` (a prefix of what the walker finds: it may stop anywhere) -/
def PChain (lim : Nat) (ovr : Option Nat) : Nat → List TopBox → Prop
  | _, [] => True
  | off, b :: rest => headerAt s off lim ovr = .ok b ∧ PChain lim ovr b.endOff rest

/-- a range that touches no payload byte of any box of `bs` other than ftyp / moov boxes -/
def Unprot (bs : List TopBox) (a n : Nat) : Prop :=
  ∀ x ∈ bs, x.name ≠ ftypN → x.name ≠ moovN → a + n ≤ x.payloadOff ∨ x.endOff ≤ a

/-- the geometry of a header the walker accepts: where it starts, and how long it is at least, by what it holds -/
theorem headerAt_hdr (off lim : Nat) (ovr : Option Nat) (b : TopBox) (h : headerAt s off lim ovr = .ok b) :
    b.offset = off ∧ 8 ≤ b.hdrLen ∧ (beToNat (s.read off 4) = 1 → 16 ≤ b.hdrLen) ∧
    (s.read (off + 4) 4 = uuidName → (if beToNat (s.read off 4) = 1 then 32 else 24) ≤ b.hdrLen) ∧
    off + b.hdrLen ≤ b.endOff ∧ off + 8 ≤ b.endOff := by
  unfold headerAt at h
  split at h
  · cases h
  rename_i h8
  dsimp only at h
  have hbe : be s off 4 = beToNat (s.read off 4) := rfl
  rw [hbe] at h
  have hprop : s.read (off + 4) 4 = uuidName →
      (if s.read (off + 4) 4 = [0x75, 0x75, 0x69, 0x64] then 16 else 0) = 16 := fun e => if_pos e
  have hnm : s.read (off + 4) 4 = uuidName → ¬ (s.read (off + 4) 4 = [0x6d, 0x64, 0x61, 0x74]) := by
    intro e; rw [e]; decide
  generalize (if s.read (off + 4) 4 = [0x75, 0x75, 0x69, 0x64] then 16 else 0) = u at h hprop
  split at h
  · rename_i h1
    split at h
    · cases h
    · split at h
      · cases h
      · simp only [Hdr.ok.injEq] at h; subst h
        refine ⟨rfl, by dsimp only; omega, fun _ => by dsimp only; omega, fun e => ?_, by dsimp only; omega, by dsimp only; omega⟩
        rw [if_pos h1]; have := hprop e; dsimp only; omega
  · rename_i h1
    split at h
    · cases h
    · rename_i ht
      split at h
      · split at h
        · rename_i t hdec
          split at h
          · cases h
          · simp only [Hdr.ok.injEq] at h; subst h
            refine ⟨rfl, by dsimp only; omega, fun e => absurd e h1, fun e => ?_, by dsimp only; omega, by dsimp only; omega⟩
            exact absurd (of_decide_eq_true hdec) (hnm e)
        · simp only [Hdr.ok.injEq] at h; subst h
          refine ⟨rfl, by dsimp only; omega, fun e => absurd e h1, fun e => ?_, by dsimp only; omega, by dsimp only; omega⟩
          rw [if_neg h1]; have := hprop e; dsimp only; omega
      · split at h
        · cases h
        · simp only [Hdr.ok.injEq] at h; subst h
          refine ⟨rfl, by dsimp only; omega, fun e => absurd e h1, fun e => ?_, by dsimp only; omega, by dsimp only; omega⟩
          rw [if_neg h1]; have := hprop e; dsimp only; omega

theorem pchain_after (lim : Nat) (ovr : Option Nat) (off : Nat) (bs : List TopBox) (h : PChain s lim ovr off bs) :
    ∀ x ∈ bs, off ≤ x.offset ∧ x.offset ≤ x.payloadOff ∧ x.payloadOff ≤ x.endOff := by
  induction bs generalizing off with
  | nil => intro x hx; cases hx
  | cons b rest ih =>
    obtain ⟨h1, h2⟩ := h
    obtain ⟨g1, g2, _, _, g5, g6⟩ := headerAt_hdr s off lim ovr b h1
    intro x hx
    rcases List.mem_cons.mp hx with rfl | hx
    · refine ⟨by omega, by unfold TopBox.payloadOff; omega, by unfold TopBox.payloadOff; omega⟩
    · obtain ⟨i1, i2, i3⟩ := ih b.endOff h2 x hx
      exact ⟨by omega, i2, i3⟩

/-- whatever the walker returns - clean or broken - is such a chain -/
theorem pchain_of_walk (lim : Nat) (ovr : Option Nat) (fuel off : Nat) : PChain s lim ovr off (walk s ovr fuel off lim).boxes := by
  induction fuel generalizing off with
  | zero => simp [walk, Walk.boxes, PChain]
  | succ n ih =>
    unfold walk
    split
    · simp [Walk.boxes, PChain]
    · split
      · simp [Walk.boxes, PChain]
      · simp [Walk.boxes, PChain]
      · rename_i b hb
        split
        · simp only [Walk.boxes, PChain, and_true]; exact hb
        · have := ih b.endOff
          cases hw : walk s ovr n b.endOff lim with
          | clean bs => rw [hw] at this; simp only [Walk.boxes] at this ⊢; exact ⟨hb, this⟩
          | broken bs w => rw [hw] at this; simp only [Walk.boxes] at this ⊢; exact ⟨hb, this⟩

/-- the header reads stay inside the header the walker sees at the same place -/
theorem readHeader_reads (pos lim : Nat) (ovr : Option Nat) :
    Rd s kind readHeader pos (fun a n => ∀ b, headerAt s pos lim ovr = .ok b → a + n ≤ b.payloadOff) := by
  unfold readHeader
  apply Rd.readExact
  intro b1 p1 hr1
  have e1 : b1 = s.read pos 4 ∧ p1 = pos + 4 := by
    simp only [idealOps] at hr1
    rw [if_neg (by omega)] at hr1
    split at hr1
    · simp only [Except.ok.injEq, Prod.mk.injEq] at hr1; exact ⟨hr1.1.symm, hr1.2.symm⟩
    · cases hr1
  obtain ⟨rfl, rfl⟩ := e1
  refine ⟨fun b hb => ?_, ?_⟩
  · obtain ⟨g1, g2, _⟩ := headerAt_hdr s pos lim ovr b hb
    unfold TopBox.payloadOff; omega
  apply Rd.readExact
  intro b2 p2 hr2
  have e2 : b2 = s.read (pos + 4) 4 ∧ p2 = pos + 4 + 4 := by
    simp only [idealOps] at hr2
    rw [if_neg (by omega)] at hr2
    split at hr2
    · simp only [Except.ok.injEq, Prod.mk.injEq] at hr2; exact ⟨hr2.1.symm, hr2.2.symm⟩
    · cases hr2
  obtain ⟨rfl, rfl⟩ := e2
  refine ⟨fun b hb => ?_, ?_⟩
  · obtain ⟨g1, g2, _⟩ := headerAt_hdr s pos lim ovr b hb
    unfold TopBox.payloadOff; omega
  dsimp only
  -- the tail: the uuid, read after `extra` bytes of extended size
  have tail : ∀ (sz : BoxSize) (p : Nat) (ext : Bool), p = pos + 8 + (if ext then 8 else 0) →
      (ext = true ↔ beToNat (s.read pos 4) = 1) →
      Rd s kind (if s.read (pos + 4) 4 = uuidName then
          Prog.readExact 16 (some PErr.truncatedBox) fun u => (Prog.done ⟨BoxType.uuid u, sz⟩ : P BoxHeader)
         else Prog.done ⟨BoxType.fourcc (s.read (pos + 4) 4), sz⟩) p
        (fun a n => ∀ b, headerAt s pos lim ovr = .ok b → a + n ≤ b.payloadOff) := by
    intro sz p ext hp hext
    split
    · rename_i hu
      apply Rd.readExact
      intro b3 p3 _
      refine ⟨fun b hb => ?_, Rd.done⟩
      obtain ⟨g1, _, _, g4, _⟩ := headerAt_hdr s pos lim ovr b hb
      have := g4 hu
      unfold TopBox.payloadOff
      cases ext with
      | true => rw [if_pos (hext.mp rfl)] at this; simp only [if_true] at hp; omega
      | false =>
        have hne : ¬ beToNat (s.read pos 4) = 1 := fun e => by have := hext.mpr e; cases this
        rw [if_neg hne] at this; simp only [Bool.false_eq_true, if_false] at hp; omega
    · exact Rd.done
  split
  · rename_i h0
    exact tail .untilEof (pos + 4 + 4) false (by simp) (by simp [h0])
  · split
    · rename_i h0 h1
      apply Rd.readExact
      intro b3 p3 hr3
      have e3 : p3 = pos + 4 + 4 + 8 := by
        simp only [idealOps] at hr3
        rw [if_neg (by omega)] at hr3
        split at hr3
        · simp only [Except.ok.injEq, Prod.mk.injEq] at hr3; exact hr3.2.symm
        · cases hr3
      subst e3
      refine ⟨fun b hb => ?_, tail _ _ true (by simp) (by simp [h1])⟩
      obtain ⟨g1, _, g3, _⟩ := headerAt_hdr s pos lim ovr b hb
      have := g3 h1
      unfold TopBox.payloadOff; omega
    · rename_i h0 h1
      exact tail (.size _) (pos + 4 + 4) false (by simp) (by simp [h1])

/-- the one read of `read_data`: the payload, from where the header ended -/
theorem readData_reads (h : BoxHeader) (L pos : Nat) :
    Rd s kind (readData h L) pos (fun a n => a = pos ∧ SizeIs' s h pos n) := by
  unfold readData
  apply Rd.bind (Rd.of_readFree (boxDataSize_readFree h) pos _) (boxDataSize_rel s kind h pos)
  intro n p' ⟨hp', hs⟩
  subst hp'
  split
  · apply Rd.readExact
    intro b p2 _
    exact ⟨⟨rfl, hs⟩, Rd.done⟩
  · exact Rd.fail

theorem specHdr_end_pos (pos lim : Nat) (ovr : Option Nat) (h : BoxHeader) (b : TopBox) (hb : specHdr pos lim ovr h = .ok b) :
    b.name = name4 h := specHdr_name pos lim ovr h b hb

/-- one iteration: header reads inside the header, payload reads only of ftyp / moov, inside the box -/
theorem scanBox_reads (cfg : Config) (st : ScanState) (pos : Nat) (b : TopBox) (rest : List TopBox)
    (hb : headerAt s pos s.len cfg.cumulativeMdatBoxSize = .ok b)
    (hrest : PChain s s.len cfg.cumulativeMdatBoxSize b.endOff rest) :
    Rd s kind (scanBox cfg st) pos (Unprot (b :: rest)) := by
  have hgeo := headerAt_hdr s pos s.len cfg.cumulativeMdatBoxSize b hb
  have hafter := pchain_after s s.len cfg.cumulativeMdatBoxSize b.endOff rest hrest
  have hpay : b.payloadOff ≤ b.endOff := by unfold TopBox.payloadOff; omega
  unfold scanBox
  apply Rd.position
  apply Rd.bind (R := Unprot (b :: rest)) (Q := fun h pos' => pos' = pos + h.encodedLen ∧ pos' ≤ s.len ∧ HdrAt s pos h)
  · -- header reads
    apply Rd.mono (Rd.and (readHeader_reads s kind pos s.len cfg.cumulativeMdatBoxSize) (Rd.forward readHeader pos))
    intro a n ⟨h1, h2⟩ x hx _ _
    have := h1 b hb
    rcases List.mem_cons.mp hx with rfl | hx
    · exact Or.inl this
    · obtain ⟨i1, i2, _⟩ := hafter x hx
      left; omega
  · exact readHeader_rel s kind pos
  · intro header p1 ⟨hp1, hle, hh⟩
    have hspec : specHdr pos s.len cfg.cumulativeMdatBoxSize header = .ok b := by
      rw [← headerAt_of s pos s.len cfg.cumulativeMdatBoxSize header hh (by omega)]; exact hb
    have hname : b.name = name4 header := specHdr_name pos s.len cfg.cumulativeMdatBoxSize header b hspec
    -- a payload read of this box, when it is an ftyp or a moov
    have payload : ∀ (L : Nat), (name4 header = ftypN ∨ name4 header = moovN) →
        Rd s kind (readData header L) p1 (Unprot (b :: rest)) := by
      intro L hnm
      apply Rd.mono (readData_reads s kind header L p1)
      intro a n ⟨ha, hs⟩ x hx hx1 hx2
      have hno : header.dataSize = .ok none → cfg.cumulativeMdatBoxSize = none ∨ name4 header ≠ mdatN := by
        intro _; right
        rcases hnm with e | e <;> rw [e] <;> decide
      obtain ⟨b', e1, _, e3, _⟩ := box_of_size s pos p1 n cfg.cumulativeMdatBoxSize header hp1 hs hno
      rw [hspec] at e1
      simp only [Hdr.ok.injEq] at e1
      subst e1
      rcases List.mem_cons.mp hx with rfl | hx
      · exfalso
        rcases hnm with e | e
        · exact hx1 (by rw [hname, e])
        · exact hx2 (by rw [hname, e])
      · obtain ⟨i1, i2, _⟩ := hafter x hx
        left; omega
    by_cases hf : header.ty = FTYP
    · have hn : name4 header = ftypN := by unfold name4; rw [hf]; rfl
      unfold scanBody
      dsimp only
      rw [if_neg (by rw [hf]; decide), if_pos hf]
      by_cases hfy : st.ftyp.isSome = true
      · rw [if_pos hfy]; exact Rd.fail
      · rw [if_neg hfy]
        apply Rd.bind (payload maxFtypSize (Or.inl hn)) Tri.any
        intro pl p2 _
        apply Rd.of_readFree
        refine ReadFree.bind (liftPure_readFree _) fun f => ?_
        split
        · exact .done _
        · exact .fail _
    · by_cases hm : header.ty = MOOV
      · have hn : name4 header = moovN := by unfold name4; rw [hm]; rfl
        unfold scanBody
        dsimp only
        rw [if_neg (by rw [hm]; decide), if_neg hf]
        by_cases hfy : st.ftyp.isNone = true
        · rw [if_pos hfy]; exact Rd.fail
        · rw [if_neg hfy, if_neg (by rw [hm]; decide), if_pos hm]
          apply Rd.bind (payload cfg.maxMetadataSize (Or.inr hn)) Tri.any
          intro pl p2 _
          apply Rd.of_readFree
          refine ReadFree.bind (liftPure_readFree _) fun f => ?_
          exact .done _
      · exact Rd.of_readFree (scanBody_readFree cfg st pos header hf hm) p1 _

/-- the loop: no read of any iteration touches the payload of a box that is neither ftyp nor moov -/
theorem scan_reads (cfg : Config) (fuel : Nat) (st : ScanState) (pos : Nat) (bs : List TopBox)
    (hp : PChain s s.len cfg.cumulativeMdatBoxSize pos bs) :
    Rd s kind (scan cfg fuel st) pos (Unprot bs) := by
  induction fuel generalizing st pos bs with
  | zero => exact Rd.done
  | succ n ih =>
    cases bs with
    | nil => exact ⟨fun a m _ x hx => by cases hx⟩
    | cons b rest =>
      obtain ⟨hb, hrest⟩ := hp
      unfold scan
      apply Rd.isEof
      split
      · exact Rd.done
      · apply Rd.bind (scanBox_reads s kind cfg st pos b rest hb hrest) (scanBox_rel s kind cfg st pos)
        intro st' pos' ⟨b', e1, _, e3, _⟩
        rw [hb] at e1
        simp only [Hdr.ok.injEq] at e1
        subst e1
        subst e3
        apply Rd.mono (Rd.and (ih st' b.endOff rest hrest) (Rd.forward _ _))
        intro a m ⟨h1, h2⟩ x hx hx1 hx2
        rcases List.mem_cons.mp hx with rfl | hx
        · exact Or.inr h2
        · exact h1 x hx hx1 hx2

theorem sanitizeP_reads (cfg : Config) (fuel : Nat) :
    Rd s kind (sanitizeP cfg fuel) 0 (Unprot (walkAll s 0 s.len cfg.cumulativeMdatBoxSize).boxes) := by
  unfold sanitizeP
  apply Rd.bind (scan_reads s kind cfg fuel {} 0 _ (pchain_of_walk s s.len cfg.cumulativeMdatBoxSize _ 0)) Tri.any
  intro o p _
  cases o with
  | none => exact Rd.done
  | some st =>
    apply Rd.of_readFree
    refine ReadFree.bind ?_ (fun _ => ReadFree.bind (liftPure_readFree _) fun r => .done _)
    unfold checkEnd
    refine .position fun p => .streamLen fun l => ?_
    split
    · exact .done _
    · exact .fail _

/-- **Media is never inspected** (C10, whole runs): two inputs of the same length that differ only inside the payloads of
    top-level boxes other than `ftyp` and `moov` - as the independent walker finds the boxes in the first - get the same
    answer from the sanitizer: the same error, or the same metadata bytes and the same span. -/
theorem media_never_inspected (s' : Stream) (cfg : Config) (hlen : s'.len = s.len)
    (hdiff : ∀ i, s'.get i ≠ s.get i →
      ∃ b ∈ (walkAll s 0 s.len cfg.cumulativeMdatBoxSize).boxes, b.name ≠ ftypN ∧ b.name ≠ moovN ∧
        b.payloadOff ≤ i ∧ i < b.endOff) :
    Mp4.sanitize s' kind cfg = Mp4.sanitize s kind cfg := by
  have hf : fuelFor s' = fuelFor s := by simp only [fuelFor, hlen]
  simp only [Mp4.sanitize, Mp4.sanitizeWith, hf]
  rw [run_noninterference s s' kind hlen _ 0]
  intro a n hm
  have hu := (sanitizeP_reads s kind cfg (fuelFor s)).out a n hm
  apply read_eq_of_get
  intro i hi
  apply Classical.byContradiction
  intro hne
  obtain ⟨b, hb, n1, n2, l1, l2⟩ := hdiff (a + i) hne
  rcases hu b hb n1 n2 with h | h <;> omega

end
end MediaSan.Mp4
