/-
  C05, the converse, the list half: a top level that meets the documented rules (`Rules` of Spec/Mp4Rules.lean) is a
  clean chain of walker boxes that both state machines of the scan loop admit.
-/
import MediaSan.Lemmas.SanTot
import MediaSan.Lemmas.RulesAll
import MediaSan.Lemmas.Fixpoint
namespace MediaSan.Mp4
open MediaSan MediaSan.Spec.Mp4Walk MediaSan.Spec.Mp4Rules

section
variable (s : Stream)

theorem headerAt_geo' (off lim : Nat) (ovr : Option Nat) (b : TopBox) (h : headerAt s off lim ovr = .ok b) :
    b.offset = off ∧ off + 8 ≤ b.endOff ∧ off + 8 ≤ lim := by
  unfold headerAt at h
  split at h
  · cases h
  rename_i h8
  dsimp only at h
  generalize (if s.read (off + 4) 4 = [0x75, 0x75, 0x69, 0x64] then 16 else 0) = u at h
  split at h
  · split at h
    · cases h
    · split at h
      · cases h
      · simp only [Hdr.ok.injEq] at h; subst h; exact ⟨rfl, by dsimp only; omega, by omega⟩
  · split at h
    · cases h
    · rename_i ht
      split at h
      · split at h
        · split at h
          · cases h
          · simp only [Hdr.ok.injEq] at h; subst h; exact ⟨rfl, by dsimp only; omega, by omega⟩
        · simp only [Hdr.ok.injEq] at h; subst h; exact ⟨rfl, by dsimp only; omega, by omega⟩
      · split at h
        · cases h
        · simp only [Hdr.ok.injEq] at h; subst h; exact ⟨rfl, by dsimp only; omega, by omega⟩

/-- a clean walk is a chain of boxes (any mdat size override) -/
theorem chain_of_walk' (lim : Nat) (ovr : Option Nat) (fuel off : Nat) (bs : List TopBox) (hle : off ≤ lim)
    (h : walk s ovr fuel off lim = .clean bs) (hf : lim - off < 8 * fuel) : Chain s lim ovr off lim bs := by
  induction fuel generalizing off bs with
  | zero => omega
  | succ n ih =>
    unfold walk at h
    split at h
    · rename_i hge
      simp only [Walk.clean.injEq] at h
      subst h
      exact show off = lim by omega
    · rename_i hlt
      split at h
      · cases h
      · cases h
      · rename_i b hb
        split at h
        · cases h
        · rename_i hover
          obtain ⟨g1, g2, g3⟩ := headerAt_geo' s off lim ovr b hb
          cases hw : walk s ovr n b.endOff lim with
          | clean rest =>
            rw [hw] at h
            simp only [Walk.clean.injEq] at h
            subst h
            exact ⟨hb, g1, g2, ih b.endOff rest (by omega) hw (by omega)⟩
          | broken rest w => rw [hw] at h; cases h

end

/-! ### the top-level state machine admits what the rules allow -/

theorem topStep_known_after (t : TopSt) (b : TopBox) (ht : t.ftyp = true) (hk : KnownName b.name) (hnf : b.name ≠ ftypN) :
    topStep t b = some ⟨true, if b.name = moovN then some b.offset else t.moov⟩ := by
  have hteq : t = ⟨true, t.moov⟩ := by cases t; simp only at ht; subst ht; rfl
  unfold KnownName at hk
  rcases hk with e | e | e | e | e | e | e
  · have hnm : ¬ b.name = moovN := by rw [e]; decide
    rw [topStep_lead t b (Or.inl e)]; simp only [hnm, if_false]; exact congrArg some hteq
  · have hnm : ¬ b.name = moovN := by rw [e]; decide
    rw [topStep_lead t b (Or.inr e)]; simp only [hnm, if_false]; exact congrArg some hteq
  · exact absurd e hnf
  · have hnm : ¬ b.name = moovN := by rw [e]; decide
    rw [topStep_media t b ht (Or.inl e)]; simp only [hnm, if_false]; exact congrArg some hteq
  · have hnm : ¬ b.name = moovN := by rw [e]; decide
    rw [topStep_media t b ht (Or.inr (Or.inl e))]; simp only [hnm, if_false]; exact congrArg some hteq
  · have hnm : ¬ b.name = moovN := by rw [e]; decide
    rw [topStep_media t b ht (Or.inr (Or.inr e))]; simp only [hnm, if_false]; exact congrArg some hteq
  · unfold topStep
    have e1 : ¬ (b.name = freeN ∨ b.name = skipN) := by rw [e]; decide
    have e3 : ¬ (b.name = mdatN ∨ b.name = metaN ∨ b.name = mecoN) := by rw [e]; decide
    have e4 : ¬ ((!t.ftyp) = true) := by rw [ht]; decide
    rw [if_neg e1, if_neg hnf, if_neg e4, if_neg e3, if_pos e, if_pos e]

theorem foldTop_after (t : TopSt) (l : List TopBox) (ht : t.ftyp = true) (hk : ∀ b ∈ l, KnownName b.name)
    (hnf : ∀ b ∈ l, b.name ≠ ftypN) :
    foldTop t l = some ⟨true, match (l.filter (fun b => decide (b.name = moovN))).getLast? with
      | some b => some b.offset
      | none => t.moov⟩ := by
  induction l generalizing t with
  | nil => cases t; simp_all [foldTop]
  | cons b rest ih =>
    have hs := topStep_known_after t b ht (hk b (by simp)) (hnf b (by simp))
    simp only [foldTop, hs]
    rw [ih _ rfl (fun x hx => hk x (by simp [hx])) (fun x hx => hnf x (by simp [hx]))]
    congr 2
    by_cases hm : b.name = moovN
    · rw [List.filter_cons_of_pos (by simp [hm])]
      simp only [hm, if_true]
      cases hq : rest.filter (fun b => decide (b.name = moovN)) with
      | nil => rfl
      | cons y ys =>
        rw [List.getLast?_cons_cons]
        cases hq2 : (y :: ys).getLast? with
        | none => simp at hq2
        | some z => rfl
    · rw [List.filter_cons_of_neg (by simp [hm])]
      simp only [hm, if_false]

theorem foldTop_lead (l : List TopBox) (t : TopSt) (h : ∀ b ∈ l, b.name = freeN ∨ b.name = skipN) : foldTop t l = some t := by
  induction l with
  | nil => rfl
  | cons b rest ih =>
    simp only [foldTop, topStep_lead t b (h b (by simp))]
    exact ih (fun x hx => h x (by simp [hx]))

/-- a top level of the shape the rules prescribe is admitted, and the machine ends with the ftyp seen and the offset
    of the last moov -/
theorem foldTop_of_shape (lead rest : List TopBox) (f : TopBox) (h1 : ∀ b ∈ lead, b.name = freeN ∨ b.name = skipN)
    (h2 : f.name = ftypN) (h3 : ∀ b ∈ rest, b.name ≠ ftypN) (hk : ∀ b ∈ rest, KnownName b.name) (m : TopBox)
    (hm : lastMoov (lead ++ f :: rest) = some m) :
    foldTop ⟨false, none⟩ (lead ++ f :: rest) = some ⟨true, some m.offset⟩ := by
  rw [foldTop_append, foldTop_lead lead _ h1]
  simp only [Option.bind_some, foldTop]
  have hs : topStep ⟨false, none⟩ f = some ⟨true, none⟩ := by
    unfold topStep
    have e1 : ¬ (f.name = freeN ∨ f.name = skipN) := by rw [h2]; decide
    simp only [e1, if_false, h2, if_true]
    rfl
  rw [hs]
  dsimp only
  rw [foldTop_after _ rest rfl hk h3]
  -- the last moov of the whole list lies in `rest`
  unfold lastMoov at hm
  rw [cc_moov, List.filter_append, List.filter_cons_of_neg (by rw [h2]; decide)] at hm
  have hl : lead.filter (fun b => decide (b.name = moovN)) = [] := by
    rw [List.filter_eq_nil_iff]
    intro x hx
    rcases h1 x hx with e | e <;> rw [e] <;> decide
  rw [hl, List.nil_append] at hm
  rw [hm]


/-! ### the span bookkeeping admits what the rules allow -/

theorem spanStep_nomdat (d : Option Span) (b : TopBox) (hm : b.name ≠ mdatN) :
    ∃ d', spanStep d b = some d' ∧ (d = none → d' = none) ∧ (d.isSome = true → d'.isSome = true) := by
  by_cases ho : b.name = freeN ∨ b.name = skipN ∨ b.name = metaN ∨ b.name = mecoN
  · rw [spanStep_other _ b ho]
    cases d with
    | none => exact ⟨none, rfl, (fun _ => rfl), (fun h => by cases h)⟩
    | some x => simp only [extendSpec]; split <;> exact ⟨_, rfl, (fun h => by cases h), (fun _ => rfl)⟩
  · rw [spanStep_keep _ b hm ho]; exact ⟨d, rfl, fun h => h, fun h => h⟩

theorem foldSpan_nomdat (l : List TopBox) (d : Option Span) (h : ∀ b ∈ l, b.name ≠ mdatN) :
    ∃ d', foldSpan d l = some d' ∧ (d = none → d' = none) ∧ (d.isSome = true → d'.isSome = true) := by
  induction l generalizing d with
  | nil => exact ⟨d, rfl, fun h => h, fun h => h⟩
  | cons b rest ih =>
    obtain ⟨d1, s1, s2, s3⟩ := spanStep_nomdat d b (h b (by simp))
    obtain ⟨d2, t1, t2, t3⟩ := ih d1 (fun x hx => h x (by simp [hx]))
    exact ⟨d2, by simp only [foldSpan, s1, t1], fun hd => t2 (s2 hd), fun hd => t3 (s3 hd)⟩

/-- inside the run: every box that is an `mdat` lies in the leading run of media boxes -/
theorem foldSpan_inrun (l : List TopBox) (off : Nat) (d : Span) (hg : Geo off l) (hc : d.offset + d.len = off)
    (hm : ∀ b ∈ l, b.name = mdatN → b ∈ l.takeWhile isR) : ∃ d', foldSpan (some d) l = some (some d') := by
  induction l generalizing off d with
  | nil => exact ⟨d, rfl⟩
  | cons b rest ih =>
    obtain ⟨g1, g2, g3⟩ := hg
    cases hr : isR b with
    | true =>
      simp only [foldSpan, spanStep_run d b hr (by omega)]
      apply ih b.endOff _ g3 (by dsimp only; omega)
      intro x hx hxm
      have := hm x (by simp [hx]) hxm
      rw [List.takeWhile_cons_of_pos hr] at this
      rcases List.mem_cons.mp this with e | e
      · -- a later box is not this one: its offset is beyond
        exfalso
        have := (geo_bounds rest b.endOff g3).2 x hx
        rw [e] at this; omega
      · exact e
    | false =>
      -- the run is over: no mdat may follow
      have hno : ∀ x ∈ b :: rest, x.name ≠ mdatN := by
        intro x hx hxm
        have := hm x hx hxm
        rw [List.takeWhile_cons_of_neg (by simp [hr])] at this
        cases this
      obtain ⟨d', f1, _, f3⟩ := foldSpan_nomdat (b :: rest) (some d) hno
      cases d' with
      | none => have := f3 rfl; simp at this
      | some x => exact ⟨x, f1⟩

/-- a consecutive box sequence with an `mdat`, all of whose `mdat` boxes lie in the maximal media run, is admitted by the
    span bookkeeping -/
theorem foldSpan_of_rules (bs : List TopBox) (off : Nat) (hg : Geo off bs) (hne : ∃ m ∈ bs, m.name = mdatN)
    (hall : ∀ b ∈ bs, b.name = mdatN → b ∈ mediaRun bs) : ∃ d, foldSpan none bs = some (some d) := by
  induction bs generalizing off with
  | nil => obtain ⟨m, hm, _⟩ := hne; cases hm
  | cons b rest ih =>
    obtain ⟨g1, g2, g3⟩ := hg
    by_cases hm : b.name = mdatN
    · simp only [foldSpan, spanStep_mdat _ b hm]
      apply foldSpan_inrun rest b.endOff _ g3 (by dsimp only; omega)
      intro x hx hxm
      have := hall x (by simp [hx]) hxm
      have hmr : mediaRun (b :: rest) = b :: rest.takeWhile isR := by
        have := mediaRun_split [] rest b (by intro c hc; cases hc) hm
        simpa using this
      rw [hmr] at this
      rcases List.mem_cons.mp this with e | e
      · exfalso
        have := (geo_bounds rest b.endOff g3).2 x hx
        rw [e] at this; omega
      · exact e
    · have hs : spanStep none b = some none := by
        obtain ⟨d', s1, s2, _⟩ := spanStep_nomdat none b hm
        rw [s1, s2 rfl]
      simp only [foldSpan, hs]
      apply ih b.endOff g3
      · obtain ⟨m, hmm, hmn⟩ := hne
        rcases List.mem_cons.mp hmm with e | e
        · rw [e] at hmn; exact absurd hmn hm
        · exact ⟨m, e, hmn⟩
      · intro x hx hxm
        have := hall x (by simp [hx]) hxm
        have hmr : mediaRun (b :: rest) = mediaRun rest := by
          unfold mediaRun
          rw [cc_mdat, List.dropWhile_cons_of_pos (by simp [hm])]
        rw [hmr] at this; exact this


/-! ### from the specification's `Rules` to what the loop needs -/

theorem knownName_of (n : Bytes) (h : isKnownTop n = true) : KnownName n := by
  unfold isKnownTop isMediaRunName at h
  rw [cc_ftyp, cc_moov, cc_mdat, cc_free, cc_skip, cc_meta, cc_meco] at h
  simp only [Bool.or_eq_true, decide_eq_true_eq] at h
  unfold KnownName
  rcases h with e | e | e | e | e | e | e
  · exact Or.inr (Or.inr (Or.inl e))
  · exact Or.inr (Or.inr (Or.inr (Or.inr (Or.inr (Or.inr e)))))
  · exact Or.inr (Or.inr (Or.inr (Or.inl e)))
  · exact Or.inl e
  · exact Or.inr (Or.inl e)
  · exact Or.inr (Or.inr (Or.inr (Or.inr (Or.inl e))))
  · exact Or.inr (Or.inr (Or.inr (Or.inr (Or.inr (Or.inl e)))))

/-- `Rules` (without its overflow clause) unpacked: a clean walk, and the propositions of `RulesTop` -/
theorem rulesTop_of_rules (s : Stream) (c : Cfg) (h : Rules s c = true) :
    ∃ bs, top s c = .clean bs ∧ RulesTop s c bs := by
  unfold Rules at h
  cases hw : top s c with
  | broken bs w => rw [hw] at h; simp [Walk.isClean] at h
  | clean bs =>
    rw [hw] at h
    simp only [Walk.boxes, Walk.isClean, Bool.true_and, Bool.and_eq_true, decide_eq_true_eq, Bool.not_eq_true',
      List.all_eq_true] at h
    obtain ⟨⟨⟨⟨⟨⟨h1, h2⟩, h3⟩, h4⟩, h5⟩, h6⟩, h7⟩ := h
    refine ⟨bs, rfl, ?_, (of_decide_eq_true h2), h3, ?_, h5, ?_, ?_⟩
    · revert h1
      cases bs.drop (bs.takeWhile (fun b => decide (b.name = (cc 'f' 'r' 'e' 'e') ∨ b.name = (cc 's' 'k' 'i' 'p')))).length with
      | nil => intro h; simp at h
      | cons b rest => intro h; simp only [Bool.and_eq_true, decide_eq_true_eq] at h; exact h
    · intro hnil; rw [hnil] at h4; simp at h4
    · intro hnil; rw [hnil] at h6; simp at h6
    · intro m hm
      have := h7 m hm
      rw [List.any_eq_true] at this
      obtain ⟨x, hx, he⟩ := this
      have : x = m := by simpa using he
      rw [← this]; exact hx

section
variable (s : Stream) (kind : SkipKind)

/-- everything the total-correctness half needs, from the rules -/
theorem chain_of_rules (cfg : Config) (hmax : cfg.maxMetadataSize ≤ 4 * Mp4.u32Max)
    (h : Rules s ⟨cfg.maxMetadataSize, cfg.cumulativeMdatBoxSize⟩ = true) :
    ∃ bs m d, top s ⟨cfg.maxMetadataSize, cfg.cumulativeMdatBoxSize⟩ = .clean bs ∧
      Chain s s.len cfg.cumulativeMdatBoxSize 0 s.len bs ∧ lastMoov bs = some m ∧
      foldTop ⟨false, none⟩ bs = some ⟨true, some m.offset⟩ ∧ foldSpan none bs = some (some d) ∧
      (∀ b ∈ bs, BoxSideT s cfg b) ∧ (∃ f, bs.find? (fun b => decide (b.name = ftypN)) = some f) := by
  obtain ⟨bs, hw, h1, h2, h3, h4, h5, h6, h7⟩ := rulesTop_of_rules s _ h
  have hw0 := hw
  unfold top walkAll at hw
  have hch := chain_of_walk' s s.len cfg.cumulativeMdatBoxSize _ 0 bs (Nat.zero_le _) hw (by omega)
  rw [cc_free, cc_skip, cc_ftyp] at h1
  rw [cc_ftyp] at h2
  rw [cc_moov] at h4 h5
  rw [cc_mdat] at h6 h7
  -- the shape: free/skip boxes, the ftyp, the rest
  have hsplit : bs = bs.takeWhile (fun b => decide (b.name = freeN ∨ b.name = skipN)) ++
      bs.dropWhile (fun b => decide (b.name = freeN ∨ b.name = skipN)) := (List.takeWhile_append_dropWhile).symm
  have hdrop : bs.drop (bs.takeWhile (fun b => decide (b.name = freeN ∨ b.name = skipN))).length =
      bs.dropWhile (fun b => decide (b.name = freeN ∨ b.name = skipN)) := by
    have e := congrArg (List.drop (bs.takeWhile (fun b => decide (b.name = freeN ∨ b.name = skipN))).length)
      (List.takeWhile_append_dropWhile (p := fun b => decide (b.name = freeN ∨ b.name = skipN)) (l := bs))
    rw [List.drop_left] at e
    exact e.symm
  rw [hdrop] at h1
  cases hdw : bs.dropWhile (fun b => decide (b.name = freeN ∨ b.name = skipN)) with
  | nil => rw [hdw] at h1; exact h1.elim
  | cons f rest =>
    rw [hdw] at h1 hsplit
    obtain ⟨hfn, hfok⟩ := h1
    have hlead : ∀ b ∈ bs.takeWhile (fun b => decide (b.name = freeN ∨ b.name = skipN)), b.name = freeN ∨ b.name = skipN := by
      intro b hb
      have := mem_takeWhile_p _ bs b hb
      simpa using this
    -- exactly one ftyp: none in the rest
    have hrest : ∀ b ∈ rest, b.name ≠ ftypN := by
      intro b hb hbn
      rw [hsplit, List.filter_append, List.filter_cons_of_pos (by simp [hfn])] at h2
      have hl : (bs.takeWhile (fun b => decide (b.name = freeN ∨ b.name = skipN))).filter (fun b => decide (b.name = ftypN)) = [] := by
        rw [List.filter_eq_nil_iff]
        intro x hx
        rcases hlead x hx with e | e <;> rw [e] <;> decide
      rw [hl] at h2
      have : b ∈ rest.filter (fun b => decide (b.name = ftypN)) := List.mem_filter.mpr ⟨hb, by simp [hbn]⟩
      cases hq : rest.filter (fun b => decide (b.name = ftypN)) with
      | nil => rw [hq] at this; cases this
      | cons y ys => rw [hq] at h2; simp at h2
    have hk : ∀ b ∈ rest, KnownName b.name := fun b hb => knownName_of b.name (h3 b (by rw [hsplit]; simp [hb]))
    -- the last moov
    have hlm : ∃ m, lastMoov bs = some m := by
      unfold lastMoov
      rw [cc_moov]
      cases hq : (bs.filter (fun b => decide (b.name = moovN))).getLast? with
      | none => exact absurd (List.getLast?_eq_none_iff.mp hq) h4
      | some m => exact ⟨m, rfl⟩
    obtain ⟨m, hm⟩ := hlm
    have htop : foldTop ⟨false, none⟩ bs = some ⟨true, some m.offset⟩ := by
      have hm' := hm
      rw [hsplit] at hm' ⊢
      exact foldTop_of_shape _ rest f hlead hfn hrest hk m hm'
    -- the span
    have hmd : ∃ x ∈ bs, x.name = mdatN := by
      cases hq : bs.filter (fun b => decide (b.name = mdatN)) with
      | nil => exact absurd hq h6
      | cons y ys =>
        have : y ∈ bs.filter (fun b => decide (b.name = mdatN)) := by rw [hq]; simp
        exact ⟨y, (List.mem_filter.mp this).1, by simpa using (List.mem_filter.mp this).2⟩
    obtain ⟨d, hd⟩ := foldSpan_of_rules bs 0 (Chain.geo s hch) hmd
      (fun b hb hbn => h7 b (List.mem_filter.mpr ⟨hb, by simp [hbn]⟩))
    refine ⟨bs, m, d, hw0, hch, hm, htop, hd, ?_, ⟨f, ?_⟩⟩
    · intro b hb
      refine ⟨fun hbn => ?_, fun hbn => ?_⟩
      · -- the only ftyp is `f`
        have : b = f := by
          rw [hsplit] at hb
          rcases List.mem_append.mp hb with e | e
          · rcases hlead b e with q | q <;> rw [q] at hbn <;> exact absurd hbn (by decide)
          · rcases List.mem_cons.mp e with q | q
            · exact q
            · exact absurd hbn (hrest b q)
        rw [this]; exact hfok
      · have hmo := h5 b (List.mem_filter.mpr ⟨hb, by simp [hbn]⟩)
        refine ⟨hmo, ?_⟩
        unfold moovOk at hmo
        simp only [Bool.and_eq_true, decide_eq_true_eq] at hmo
        exact Nat.le_trans hmo.1 hmax
    · rw [hsplit, List.find?_append]
      have : (bs.takeWhile (fun b => decide (b.name = freeN ∨ b.name = skipN))).find? (fun b => decide (b.name = ftypN)) = none := by
        rw [List.find?_eq_none]
        intro x hx
        rcases hlead x hx with e | e <;> rw [e] <;> decide
      rw [this]
      simp [List.find?_cons, hfn]

/-- **C05, completeness, "nothing to do" half**: a file that meets the documented rules and whose last moov starts
    before its first mdat is accepted, with no metadata. -/
theorem sanitize_of_rules_noop (cfg : Config) (hl : s.len < u64Lim) (hmax : cfg.maxMetadataSize ≤ 4 * Mp4.u32Max)
    (h : Rules s ⟨cfg.maxMetadataSize, cfg.cumulativeMdatBoxSize⟩ = true)
    (hn : NoMetadata s ⟨cfg.maxMetadataSize, cfg.cumulativeMdatBoxSize⟩ = true) :
    ∃ d, Mp4.sanitize s kind cfg = .ok ⟨none, d⟩ := by
  obtain ⟨bs, m, d, hw, hch, hm, htop, hd, hside, _⟩ := chain_of_rules s cfg hmax h
  obtain ⟨⟨m', hfm, hoff⟩, _, _⟩ := span_is_media_run bs 0 d (Chain.geo s hch) hd
  unfold NoMetadata at hn
  simp only [hw, Walk.boxes, hm, hfm, decide_eq_true_eq] at hn
  exact ⟨d, sanitize_noop s kind cfg hl bs hch m.offset htop d hd hside (by omega)⟩

end
end MediaSan.Mp4
