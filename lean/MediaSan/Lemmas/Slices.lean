/-
  Slices of a stream: `take`/`drop` of `Stream.read`.
-/
import MediaSan.Stream
namespace MediaSan.Mp4
open MediaSan

/-! ### slices of a stream -/

theorem read_take (s : Stream) (p m k : Nat) (h : k ≤ m) : (s.read p m).take k = s.read p k := by
  apply List.ext_getElem
  · simp [Stream.read]; omega
  · intro i h1 h2
    simp [Stream.read]

theorem read_drop (s : Stream) (p m k : Nat) : (s.read p m).drop k = s.read (p + k) (m - k) := by
  apply List.ext_getElem
  · simp [Stream.read]
  · intro i h1 h2
    simp [Stream.read]
    congr 1
    omega

theorem read_length (s : Stream) (p m : Nat) : (s.read p m).length = m := by simp [Stream.read]

end MediaSan.Mp4
