import MediaSan.Mp4.Header
namespace MediaSan.Mp4
open MediaSan

theorem take_append_len {α} (a b : List α) (n : Nat) (h : a.length = n) : (a ++ b).take n = a := by
  subst h; simp
theorem drop_append_len {α} (a b : List α) (n : Nat) (h : a.length = n) : (a ++ b).drop n = b := by
  subst h; simp

theorem uuidName_length : uuidName.length = 4 := rfl

/-- the four parts of an encoded header -/
def encSize (h : BoxHeader) : Bytes :=
  match h.sz with | .untilEof => natToBE 4 0 | .ext _ => natToBE 4 1 | .size n => natToBE 4 n
def encName (h : BoxHeader) : Bytes :=
  match h.ty with | .fourcc b => b | .uuid _ => uuidName
def encExt (h : BoxHeader) : Bytes :=
  match h.sz with | .ext n => natToBE 8 n | _ => []
def encUuid (h : BoxHeader) : Bytes :=
  match h.ty with | .uuid u => u | _ => []

theorem encodeHeader_parts (h : BoxHeader) :
    encodeHeader h = encSize h ++ encName h ++ encExt h ++ encUuid h := by
  cases h with | mk ty sz => cases ty <;> cases sz <;> rfl

theorem encSize_length (h : BoxHeader) : (encSize h).length = 4 := by
  cases h with | mk ty sz => cases sz <;> simp [encSize]

theorem encName_length (h : BoxHeader) (hw : h.WF) : (encName h).length = 4 := by
  cases h with | mk ty sz =>
    cases ty with
    | fourcc b => exact hw.1.1
    | uuid u => rfl

/-- C16: `put_buf` writes exactly `encoded_len` bytes -/
theorem encodeHeader_length (h : BoxHeader) (hw : h.WF) : (encodeHeader h).length = h.encodedLen := by
  rw [encodeHeader_parts]
  simp only [List.length_append, encSize_length, encName_length h hw]
  cases h with | mk ty sz =>
    obtain ⟨hty, _⟩ := hw
    cases ty <;> cases sz <;> simp_all [encExt, encUuid, BoxHeader.encodedLen]

theorem beToNat_natToBE4 (n : Nat) (h : n ≤ u32Max) : beToNat (natToBE 4 n) = n :=
  beToNat_natToBE 4 n (by unfold u32Max at h; omega)
theorem beToNat_natToBE8 (n : Nat) (h : n ≤ u64Max) : beToNat (natToBE 8 n) = n :=
  beToNat_natToBE 8 n (by unfold u64Max at h; omega)

/-- C16: a header decodes back to itself (and leaves the rest of the buffer) -/
theorem decode_encode (h : BoxHeader) (hw : h.WF) (r : Bytes) :
    decodeHeader (encodeHeader h ++ r) = some (h, r) := by
  cases h with | mk ty sz =>
  obtain ⟨hty, hsz⟩ := hw
  cases ty with
  | fourcc b =>
    obtain ⟨hb, hne⟩ := hty
    cases sz with
    | untilEof =>
      have e : encodeHeader ⟨.fourcc b, .untilEof⟩ ++ r = natToBE 4 0 ++ (b ++ r) := by simp [encodeHeader]
      rw [e]
      simp only [decodeHeader, List.length_append, natToBE_length, hb]
      rw [if_neg (by omega), take_append_len _ _ 4 (by simp)]
      have d4 : (natToBE 4 0 ++ (b ++ r)).drop 4 = b ++ r := drop_append_len _ _ 4 (by simp)
      have d8 : (natToBE 4 0 ++ (b ++ r)).drop 8 = r := by
        have : (8 : Nat) = 4 + 4 := rfl
        rw [this, ← List.drop_drop, d4, drop_append_len _ _ 4 hb]
      rw [d4, d8, take_append_len _ _ 4 hb, beToNat_natToBE4 0 (by decide)]
      simp [hne]
    | size n =>
      have hn : n ≤ u32Max := hsz.2
      have e : encodeHeader ⟨.fourcc b, .size n⟩ ++ r = natToBE 4 n ++ (b ++ r) := by simp [encodeHeader]
      rw [e]
      simp only [decodeHeader, List.length_append, natToBE_length, hb]
      rw [if_neg (by omega), take_append_len _ _ 4 (by simp)]
      have d4 : (natToBE 4 n ++ (b ++ r)).drop 4 = b ++ r := drop_append_len _ _ 4 (by simp)
      have d8 : (natToBE 4 n ++ (b ++ r)).drop 8 = r := by
        have : (8 : Nat) = 4 + 4 := rfl
        rw [this, ← List.drop_drop, d4, drop_append_len _ _ 4 hb]
      rw [d4, d8, take_append_len _ _ 4 hb, beToNat_natToBE4 n hn]
      have h0 : n ≠ 0 := by have := hsz.1; omega
      have h1 : n ≠ 1 := by have := hsz.1; omega
      simp [hne, h0, h1]
    | ext n =>
      have hn : n ≤ u64Max := hsz
      have e : encodeHeader ⟨.fourcc b, .ext n⟩ ++ r = natToBE 4 1 ++ (b ++ (natToBE 8 n ++ r)) := by
        simp [encodeHeader]
      rw [e]
      simp only [decodeHeader, List.length_append, natToBE_length, hb]
      rw [if_neg (by omega), take_append_len _ _ 4 (by simp)]
      have d4 : (natToBE 4 1 ++ (b ++ (natToBE 8 n ++ r))).drop 4 = b ++ (natToBE 8 n ++ r) :=
        drop_append_len _ _ 4 (by simp)
      have d8 : (natToBE 4 1 ++ (b ++ (natToBE 8 n ++ r))).drop 8 = natToBE 8 n ++ r := by
        have : (8 : Nat) = 4 + 4 := rfl
        rw [this, ← List.drop_drop, d4, drop_append_len _ _ 4 hb]
      rw [d4, d8, take_append_len _ _ 4 hb, beToNat_natToBE4 1 (by decide)]
      simp only [List.length_append, natToBE_length]
      rw [take_append_len _ _ 8 (by simp), drop_append_len _ _ 8 (by simp), beToNat_natToBE8 n hn]
      have : ¬ (8 + r.length < 8) := by omega
      simp [hne, this]
  | uuid u =>
    have hu : u.length = 16 := hty
    cases sz with
    | untilEof =>
      have e : encodeHeader ⟨.uuid u, .untilEof⟩ ++ r = natToBE 4 0 ++ (uuidName ++ (u ++ r)) := by
        simp [encodeHeader]
      rw [e]
      simp only [decodeHeader, List.length_append, natToBE_length, uuidName_length, hu]
      rw [if_neg (by omega), take_append_len _ _ 4 (by simp)]
      have d4 : (natToBE 4 0 ++ (uuidName ++ (u ++ r))).drop 4 = uuidName ++ (u ++ r) :=
        drop_append_len _ _ 4 (by simp)
      have d8 : (natToBE 4 0 ++ (uuidName ++ (u ++ r))).drop 8 = u ++ r := by
        have : (8 : Nat) = 4 + 4 := rfl
        rw [this, ← List.drop_drop, d4, drop_append_len _ _ 4 rfl]
      rw [d4, d8, take_append_len _ _ 4 rfl, beToNat_natToBE4 0 (by decide)]
      have : ¬ (16 + r.length < 16) := by omega
      simp [hu, this, take_append_len _ _ 16 hu, drop_append_len _ _ 16 hu]
    | size n =>
      have hn : n ≤ u32Max := hsz.2
      have e : encodeHeader ⟨.uuid u, .size n⟩ ++ r = natToBE 4 n ++ (uuidName ++ (u ++ r)) := by
        simp [encodeHeader]
      rw [e]
      simp only [decodeHeader, List.length_append, natToBE_length, uuidName_length, hu]
      rw [if_neg (by omega), take_append_len _ _ 4 (by simp)]
      have d4 : (natToBE 4 n ++ (uuidName ++ (u ++ r))).drop 4 = uuidName ++ (u ++ r) :=
        drop_append_len _ _ 4 (by simp)
      have d8 : (natToBE 4 n ++ (uuidName ++ (u ++ r))).drop 8 = u ++ r := by
        have : (8 : Nat) = 4 + 4 := rfl
        rw [this, ← List.drop_drop, d4, drop_append_len _ _ 4 rfl]
      rw [d4, d8, take_append_len _ _ 4 rfl, beToNat_natToBE4 n hn]
      have h0 : n ≠ 0 := by have := hsz.1; omega
      have h1 : n ≠ 1 := by have := hsz.1; omega
      have : ¬ (16 + r.length < 16) := by omega
      simp [hu, this, h0, h1, take_append_len _ _ 16 hu, drop_append_len _ _ 16 hu]
    | ext n =>
      have hn : n ≤ u64Max := hsz
      have e : encodeHeader ⟨.uuid u, .ext n⟩ ++ r = natToBE 4 1 ++ (uuidName ++ (natToBE 8 n ++ (u ++ r))) := by
        simp [encodeHeader]
      rw [e]
      simp only [decodeHeader, List.length_append, natToBE_length, uuidName_length, hu]
      rw [if_neg (by omega), take_append_len _ _ 4 (by simp)]
      have d4 : (natToBE 4 1 ++ (uuidName ++ (natToBE 8 n ++ (u ++ r)))).drop 4 = uuidName ++ (natToBE 8 n ++ (u ++ r)) :=
        drop_append_len _ _ 4 (by simp)
      have d8 : (natToBE 4 1 ++ (uuidName ++ (natToBE 8 n ++ (u ++ r)))).drop 8 = natToBE 8 n ++ (u ++ r) := by
        have : (8 : Nat) = 4 + 4 := rfl
        rw [this, ← List.drop_drop, d4, drop_append_len _ _ 4 rfl]
      rw [d4, d8, take_append_len _ _ 4 rfl, beToNat_natToBE4 1 (by decide)]
      simp only [List.length_append, natToBE_length, hu]
      rw [take_append_len _ _ 8 (by simp), drop_append_len _ _ 8 (by simp), beToNat_natToBE8 n hn]
      have h1 : ¬ (8 + (16 + r.length) < 8) := by omega
      have h2 : ¬ (16 + r.length < 16) := by omega
      simp [hu, h1, h2, take_append_len _ _ 16 hu, drop_append_len _ _ 16 hu]

end MediaSan.Mp4

namespace MediaSan.Mp4
open MediaSan

theorem split8 (bs : Bytes) (h : 8 ≤ bs.length) :
    bs = bs.take 4 ++ ((bs.drop 4).take 4 ++ bs.drop 8) := by
  have e : bs.drop 8 = (bs.drop 4).drop 4 := by rw [List.drop_drop]
  rw [e, List.take_append_drop, List.take_append_drop]

theorem natToBE_beToNat_take (bs : Bytes) (n : Nat) (h : n ≤ bs.length) :
    natToBE n (beToNat (bs.take n)) = bs.take n := by
  have := natToBE_beToNat (bs.take n)
  simp only [List.length_take, Nat.min_eq_left h] at this
  exact this

theorem beToNat_take_le32 (bs : Bytes) : beToNat (bs.take 4) ≤ u32Max := by
  have := beToNat_lt (bs.take 4)
  have hl : (bs.take 4).length ≤ 4 := by simp; omega
  have : 256 ^ (bs.take 4).length ≤ 256 ^ 4 := Nat.pow_le_pow_right (by decide) hl
  unfold u32Max; omega

theorem beToNat_take_le64 (bs : Bytes) : beToNat (bs.take 8) ≤ u64Max := by
  have := beToNat_lt (bs.take 8)
  have hl : (bs.take 8).length ≤ 8 := by simp; omega
  have : 256 ^ (bs.take 8).length ≤ 256 ^ 8 := Nat.pow_le_pow_right (by decide) hl
  unfold u64Max; omega

/-- C16 (converse): whatever `decodeHeader` returns is well-formed and re-encodes to the bytes consumed -/
theorem decode_wf (bs : Bytes) (h : BoxHeader) (r : Bytes) (hd : decodeHeader bs = some (h, r)) :
    h.WF ∧ encodeHeader h ++ r = bs := by
  unfold decodeHeader at hd
  split at hd
  · simp at hd
  · rename_i hlen
    have hlen : 8 ≤ bs.length := by omega
    have hd8 : (bs.drop 8).length = bs.length - 8 := by simp
    have hsp := split8 bs hlen
    have hn4 : ((bs.drop 4).take 4).length = 4 := by simp; omega
    have e4 := natToBE_beToNat_take bs 4 (by omega)
    have le32 := beToNat_take_le32 bs
    simp only at hd
    by_cases h0 : beToNat (bs.take 4) = 0
    · -- until EOF
      simp only [h0, if_true] at hd
      by_cases hu : (bs.drop 4).take 4 = uuidName
      · simp only [hu, if_true] at hd
        split at hd
        · simp at hd
        · rename_i hl16
          simp only [Option.some.injEq, Prod.mk.injEq] at hd
          obtain ⟨rfl, rfl⟩ := hd
          refine ⟨⟨by simp; omega, trivial⟩, ?_⟩
          rw [h0] at e4
          simp only [encodeHeader, List.append_nil, List.append_assoc]
          rw [e4, ← hu, List.take_append_drop]
          exact hsp.symm
      · simp only [hu, if_false] at hd
        simp only [Option.some.injEq, Prod.mk.injEq] at hd
        obtain ⟨rfl, rfl⟩ := hd
        refine ⟨⟨⟨hn4, hu⟩, trivial⟩, ?_⟩
        rw [h0] at e4
        simp only [encodeHeader, List.append_nil, List.append_assoc]
        rw [e4]; exact hsp.symm
    · simp only [h0, if_false] at hd
      by_cases h1 : beToNat (bs.take 4) = 1
      · simp only [h1, if_true] at hd
        by_cases hl8' : (bs.drop 8).length < 8
        · rw [if_pos hl8'] at hd; simp at hd
        · simp only [hl8', if_false] at hd
          have hl8 : 8 ≤ (bs.drop 8).length := by omega
          have e8 := natToBE_beToNat_take (bs.drop 8) 8 hl8
          have le64 := beToNat_take_le64 (bs.drop 8)
          rw [h1] at e4
          by_cases hu : (bs.drop 4).take 4 = uuidName
          · simp only [hu, if_true] at hd
            have hd16 : ((bs.drop 8).drop 8).length = bs.length - 16 := by simp
            by_cases hl16 : ((bs.drop 8).drop 8).length < 16
            · rw [if_pos hl16] at hd; simp at hd
            · rw [if_neg hl16] at hd
              simp only [Option.some.injEq, Prod.mk.injEq] at hd
              obtain ⟨rfl, rfl⟩ := hd
              refine ⟨⟨by simp only [List.length_take]; omega, le64⟩, ?_⟩
              simp only [encodeHeader, List.append_assoc]
              rw [e4, e8, ← hu, List.take_append_drop, List.take_append_drop]
              exact hsp.symm
          · simp only [hu, if_false] at hd
            simp only [Option.some.injEq, Prod.mk.injEq] at hd
            obtain ⟨rfl, rfl⟩ := hd
            refine ⟨⟨⟨hn4, hu⟩, le64⟩, ?_⟩
            simp only [encodeHeader, List.append_nil, List.append_assoc]
            rw [e4, e8, List.take_append_drop]
            exact hsp.symm
      · simp only [h1, if_false] at hd
        have hge : 2 ≤ beToNat (bs.take 4) := by omega
        by_cases hu : (bs.drop 4).take 4 = uuidName
        · simp only [hu, if_true] at hd
          split at hd
          · simp at hd
          · simp only [Option.some.injEq, Prod.mk.injEq] at hd
            obtain ⟨rfl, rfl⟩ := hd
            refine ⟨⟨by simp; omega, hge, le32⟩, ?_⟩
            simp only [encodeHeader, List.append_nil, List.append_assoc]
            rw [e4, ← hu, List.take_append_drop]
            exact hsp.symm
        · simp only [hu, if_false] at hd
          simp only [Option.some.injEq, Prod.mk.injEq] at hd
          obtain ⟨rfl, rfl⟩ := hd
          refine ⟨⟨⟨hn4, hu⟩, hge, le32⟩, ?_⟩
          simp only [encodeHeader, List.append_nil, List.append_assoc]
          rw [e4]; exact hsp.symm

/-- a decoded header consumes exactly `encodedLen` bytes -/
theorem decode_length (bs : Bytes) (h : BoxHeader) (r : Bytes) (hd : decodeHeader bs = some (h, r)) :
    r.length + h.encodedLen = bs.length := by
  obtain ⟨hw, he⟩ := decode_wf bs h r hd
  rw [← he, List.length_append, encodeHeader_length h hw]; omega

/-! ### the constructors -/

def BoxType.WF : BoxType → Prop
  | .fourcc b => b.length = 4 ∧ b ≠ uuidName
  | .uuid u => u.length = 16

def tyLen : BoxType → Nat
  | .fourcc _ => 0
  | .uuid _ => 16

/-- C16: `with_data_size` declares exactly header + payload, uses the 32-bit form iff it fits, and fails
    exactly when the 64-bit size would leave u64. -/
theorem withDataSize_spec (ty : BoxType) (hty : ty.WF) (n : Nat) :
    match withDataSize ty n with
    | .ok h => h.ty = ty ∧ h.WF ∧ h.dataSize = .ok (some n) ∧
        (match h.sz with
          | .size _ => n + 8 + tyLen ty ≤ u32Max
          | .ext _ => u32Max < n + 8 + tyLen ty
          | .untilEof => False)
    | .error e => e = .invalidInput ∧ u64Max < n + 16 + tyLen ty := by
  cases ty with
  | fourcc b =>
    simp only [withDataSize, withU32DataSize, BoxHeader.encodedLen, tyLen]
    by_cases h1 : n ≤ u32Max
    · simp only [h1, if_true]
      by_cases h2 : n + (8 + 0 + 0) ≤ u32Max
      · simp only [h2, if_true]
        refine ⟨by trivial, ⟨hty, by omega, h2⟩, ?_, by first | omega | trivial | (dsimp only <;> omega)⟩
        simp [BoxHeader.dataSize, BoxSize.toNat?, BoxHeader.encodedLen]
      · simp only [h2, if_false]
        refine ⟨by trivial, ⟨hty, by unfold u64Max; unfold u32Max at h1; omega⟩, ?_, by first | omega | trivial | (dsimp only <;> omega)⟩
        simp [BoxHeader.dataSize, BoxSize.toNat?, BoxHeader.encodedLen]
    · simp only [h1, if_false]
      by_cases h3 : n + (8 + 8 + 0) ≤ u64Max
      · simp only [h3, if_true]
        refine ⟨by trivial, ⟨hty, h3⟩, ?_, by first | omega | trivial | (dsimp only <;> omega)⟩
        simp [BoxHeader.dataSize, BoxSize.toNat?, BoxHeader.encodedLen]
      · simp only [h3, if_false]
        exact ⟨by trivial, by omega⟩
  | uuid u =>
    simp only [withDataSize, withU32DataSize, BoxHeader.encodedLen, tyLen]
    by_cases h1 : n ≤ u32Max
    · simp only [h1, if_true]
      by_cases h2 : n + (8 + 0 + 16) ≤ u32Max
      · simp only [h2, if_true]
        refine ⟨by trivial, ⟨hty, by omega, h2⟩, ?_, by first | omega | trivial | (dsimp only <;> omega)⟩
        simp [BoxHeader.dataSize, BoxSize.toNat?, BoxHeader.encodedLen]
      · simp only [h2, if_false]
        refine ⟨by trivial, ⟨hty, by unfold u64Max; unfold u32Max at h1; omega⟩, ?_, by first | omega | trivial | (dsimp only <;> omega)⟩
        simp [BoxHeader.dataSize, BoxSize.toNat?, BoxHeader.encodedLen]
    · simp only [h1, if_false]
      by_cases h3 : n + (8 + 8 + 16) ≤ u64Max
      · simp only [h3, if_true]
        refine ⟨by trivial, ⟨hty, h3⟩, ?_, by first | omega | trivial | (dsimp only <;> omega)⟩
        simp [BoxHeader.dataSize, BoxSize.toNat?, BoxHeader.encodedLen]
      · simp only [h3, if_false]
        exact ⟨by trivial, by omega⟩

end MediaSan.Mp4
