/-
  C03, the list half: the span bookkeeping folded over a consecutive box sequence yields exactly the maximal media
  run of the sequence (from the first `mdat`, through the mdat/free/skip/meta/meco boxes that follow it without a
  gap), and succeeds only if every `mdat` lies in that run.
-/
import MediaSan.Lemmas.ScanRel
import MediaSan.Lemmas.ScanSafe
namespace MediaSan.Mp4
open MediaSan MediaSan.Spec.Mp4Walk MediaSan.Spec.Mp4Rules

/-- geometry of a consecutive box sequence starting at `off` -/
def Geo : Nat → List TopBox → Prop
  | _, [] => True
  | off, b :: rest => b.offset = off ∧ off < b.endOff ∧ Geo b.endOff rest

theorem Chain.geo (s : Stream) {lim : Nat} {ovr : Option Nat} {off pos : Nat} {bs : List TopBox}
    (h : Chain s lim ovr off pos bs) : Geo off bs := by
  induction bs generalizing off with
  | nil => trivial
  | cons b rest ih =>
    obtain ⟨_, h2, h3, h4⟩ := h
    exact ⟨h2, by omega, ih h4⟩

def isR (b : TopBox) : Bool :=
  decide (b.name = mdatN ∨ b.name = freeN ∨ b.name = skipN ∨ b.name = metaN ∨ b.name = mecoN)

/-- where a run that starts at `off` ends -/
def runEnd (off : Nat) (l : List TopBox) : Nat :=
  match l.getLast? with
  | none => off
  | some b => b.endOff

theorem runEnd_cons (off : Nat) (b : TopBox) (l : List TopBox) : runEnd off (b :: l) = runEnd b.endOff l := by
  unfold runEnd
  cases l with
  | nil => rfl
  | cons c l' =>
    rw [List.getLast?_cons_cons]
    cases h : (c :: l').getLast? with
    | none => simp at h
    | some x => rfl

theorem spanStep_run (d : Span) (b : TopBox) (hr : isR b = true) (hc : d.offset + d.len = b.offset) :
    spanStep (some d) b = some (some ⟨d.offset, d.len + (b.endOff - b.offset)⟩) := by
  simp only [isR, decide_eq_true_eq] at hr
  by_cases hm : b.name = mdatN
  · rw [spanStep_mdat _ b hm]; simp [hc]
  · have ho : b.name = freeN ∨ b.name = skipN ∨ b.name = metaN ∨ b.name = mecoN := by
      rcases hr with h | h; · exact absurd h hm
      exact h
    rw [spanStep_other _ b ho]; simp [extendSpec, hc]

theorem spanStep_gap (d : Span) (b : TopBox) (hm : b.name ≠ mdatN) (hc : d.offset + d.len ≠ b.offset) :
    spanStep (some d) b = some (some d) := by
  by_cases ho : b.name = freeN ∨ b.name = skipN ∨ b.name = metaN ∨ b.name = mecoN
  · rw [spanStep_other _ b ho]; simp [extendSpec, hc]
  · exact spanStep_keep _ b hm ho

theorem spanStep_notrun (d : Option Span) (b : TopBox) (hr : isR b = false) : spanStep d b = some d := by
  simp only [isR, decide_eq_false_iff_not, not_or] at hr
  exact spanStep_keep d b hr.1 (by intro h; rcases h with h | h | h | h <;> simp_all)

/-- closed run: no later box is contiguous with the span, so the span stays and no `mdat` may follow -/
theorem fold_closed (rest : List TopBox) (off : Nat) (d : Span) (d' : Option Span) (hg : Geo off rest)
    (hlt : d.offset + d.len < off) (hf : foldSpan (some d) rest = some d') :
    d' = some d ∧ ∀ b ∈ rest, b.name ≠ mdatN := by
  induction rest generalizing off with
  | nil => simp only [foldSpan, Option.some.injEq] at hf; exact ⟨hf.symm, by intro b hb; cases hb⟩
  | cons b rest ih =>
    obtain ⟨g1, g2, g3⟩ := hg
    by_cases hm : b.name = mdatN
    · simp only [foldSpan, spanStep_mdat _ b hm] at hf
      have : ¬ d.offset + d.len = b.offset := by omega
      simp [this] at hf
    · simp only [foldSpan, spanStep_gap d b hm (by omega)] at hf
      obtain ⟨h1, h2⟩ := ih b.endOff g3 (by omega) hf
      refine ⟨h1, ?_⟩
      intro c hc
      rcases List.mem_cons.mp hc with e | e
      · rw [e]; exact hm
      · exact h2 c e

/-- open run: the span ends where the next box starts -/
theorem fold_open (rest : List TopBox) (off : Nat) (d : Span) (d' : Option Span) (hg : Geo off rest)
    (heq : d.offset + d.len = off) (hf : foldSpan (some d) rest = some d') :
    ∃ d1, d' = some d1 ∧ d1.offset = d.offset ∧ d1.offset + d1.len = runEnd off (rest.takeWhile isR) ∧
      ∀ b ∈ rest.dropWhile isR, b.name ≠ mdatN := by
  induction rest generalizing off d with
  | nil =>
    simp only [foldSpan, Option.some.injEq] at hf
    exact ⟨d, hf.symm, rfl, by simp [runEnd, heq], by intro b hb; simp at hb⟩
  | cons b rest ih =>
    obtain ⟨g1, g2, g3⟩ := hg
    cases hr : isR b with
    | true =>
      simp only [foldSpan, spanStep_run d b hr (by omega)] at hf
      obtain ⟨d1, e1, e2, e3, e4⟩ := ih b.endOff ⟨d.offset, d.len + (b.endOff - b.offset)⟩ g3 (by dsimp only; omega) hf
      refine ⟨d1, e1, e2, ?_, ?_⟩
      · rw [List.takeWhile_cons_of_pos hr, runEnd_cons]; exact e3
      · rw [List.dropWhile_cons_of_pos hr]; exact e4
    | false =>
      simp only [foldSpan, spanStep_notrun _ b hr] at hf
      obtain ⟨h1, h2⟩ := fold_closed rest b.endOff d d' g3 (by omega) hf
      refine ⟨d, h1, rfl, ?_, ?_⟩
      · rw [List.takeWhile_cons_of_neg (by simp [hr])]; simp [runEnd, heq]
      · rw [List.dropWhile_cons_of_neg (by simp [hr])]
        intro c hc
        rcases List.mem_cons.mp hc with e | e
        · rw [e]; simp only [isR, decide_eq_false_iff_not, not_or] at hr; exact hr.1
        · exact h2 c e

/-- before the first `mdat` -/
theorem fold_before (rest : List TopBox) (off : Nat) (d1 : Span) (hg : Geo off rest)
    (hf : foldSpan none rest = some (some d1)) :
    ∃ pre m post, rest = pre ++ m :: post ∧ (∀ b ∈ pre, b.name ≠ mdatN) ∧ m.name = mdatN ∧ Geo m.endOff post ∧
      m.offset < m.endOff ∧
      d1.offset = m.offset ∧ d1.offset + d1.len = runEnd m.endOff (post.takeWhile isR) ∧
      ∀ b ∈ post.dropWhile isR, b.name ≠ mdatN := by
  induction rest generalizing off with
  | nil => simp [foldSpan] at hf
  | cons b rest ih =>
    obtain ⟨g1, g2, g3⟩ := hg
    by_cases hm : b.name = mdatN
    · simp only [foldSpan, spanStep_mdat _ b hm] at hf
      obtain ⟨d2, e1, e2, e3, e4⟩ := fold_open rest b.endOff ⟨b.offset, b.endOff - b.offset⟩ (some d1) g3
        (by dsimp only; omega) hf
      simp only [Option.some.injEq] at e1
      subst e1
      exact ⟨[], b, rest, rfl, (by intro c hc; cases hc), hm, g3, (by omega), e2, e3, e4⟩
    · have : spanStep none b = some none := by
        by_cases ho : b.name = freeN ∨ b.name = skipN ∨ b.name = metaN ∨ b.name = mecoN
        · rw [spanStep_other _ b ho]; rfl
        · exact spanStep_keep _ b hm ho
      simp only [foldSpan, this] at hf
      obtain ⟨pre, m, post, e0, e1, e2, e3, e4, e5, e6, e7⟩ := ih b.endOff g3 hf
      refine ⟨b :: pre, m, post, by rw [e0]; rfl, ?_, e2, e3, e4, e5, e6, e7⟩
      intro c hc
      rcases List.mem_cons.mp hc with e | e
      · rw [e]; exact hm
      · exact e1 c e

/-! ### in the Spec's words -/

theorem cc_mdat : cc 'm' 'd' 'a' 't' = mdatN := by decide
theorem cc_free : cc 'f' 'r' 'e' 'e' = freeN := by decide
theorem cc_skip : cc 's' 'k' 'i' 'p' = skipN := by decide
theorem cc_meta : cc 'm' 'e' 't' 'a' = metaN := by decide
theorem cc_meco : cc 'm' 'e' 'c' 'o' = mecoN := by decide

theorem isMediaRunName_eq (b : TopBox) : isMediaRunName b.name = isR b := by
  unfold isMediaRunName isR
  rw [cc_mdat, cc_free, cc_skip, cc_meta, cc_meco]

theorem geo_bounds (l : List TopBox) (off : Nat) (hg : Geo off l) :
    off ≤ runEnd off l ∧ ∀ b ∈ l, off ≤ b.offset ∧ b.endOff ≤ runEnd off l := by
  induction l generalizing off with
  | nil => exact ⟨Nat.le_refl _, by intro b hb; cases hb⟩
  | cons c l ih =>
    obtain ⟨g1, g2, g3⟩ := hg
    obtain ⟨i1, i2⟩ := ih c.endOff g3
    rw [runEnd_cons]
    refine ⟨by omega, ?_⟩
    intro b hb
    rcases List.mem_cons.mp hb with e | e
    · rw [e]; exact ⟨by omega, i1⟩
    · have := i2 b e; exact ⟨by omega, this.2⟩

theorem geo_takeWhile (p : TopBox → Bool) (l : List TopBox) (off : Nat) (hg : Geo off l) : Geo off (l.takeWhile p) := by
  induction l generalizing off with
  | nil => trivial
  | cons c l ih =>
    obtain ⟨g1, g2, g3⟩ := hg
    cases hp : p c with
    | true => rw [List.takeWhile_cons_of_pos hp]; exact ⟨g1, g2, ih c.endOff g3⟩
    | false => rw [List.takeWhile_cons_of_neg (by simp [hp])]; trivial

/-- what the Spec calls the first mdat and the media run, for a sequence split at its first mdat -/
theorem firstMdat_split (pre post : List TopBox) (m : TopBox) (hpre : ∀ b ∈ pre, b.name ≠ mdatN) (hm : m.name = mdatN) :
    firstMdat (pre ++ m :: post) = some m := by
  unfold firstMdat
  rw [cc_mdat]
  induction pre with
  | nil => simp [hm]
  | cons c pre ih =>
    have hc := hpre c (List.mem_cons_self ..)
    simp only [List.cons_append, List.find?_cons, hc, decide_false]
    exact ih (fun b hb => hpre b (List.mem_cons_of_mem _ hb))

theorem mediaRun_split (pre post : List TopBox) (m : TopBox) (hpre : ∀ b ∈ pre, b.name ≠ mdatN) (hm : m.name = mdatN) :
    mediaRun (pre ++ m :: post) = m :: post.takeWhile isR := by
  unfold mediaRun
  rw [cc_mdat]
  have hfun : (fun b : TopBox => isMediaRunName b.name) = isR := funext isMediaRunName_eq
  rw [hfun]
  have hmr : isR m = true := by simp [isR, hm]
  induction pre with
  | nil =>
    simp only [List.nil_append]
    rw [List.dropWhile_cons_of_neg (by simp [hm]), List.takeWhile_cons_of_pos hmr]
  | cons c pre ih =>
    have hc := hpre c (List.mem_cons_self ..)
    simp only [List.cons_append]
    rw [List.dropWhile_cons_of_pos (by simp [hc])]
    exact ih (fun b hb => hpre b (List.mem_cons_of_mem _ hb))

/-- The list half of C03: for a consecutive box sequence over which the span bookkeeping succeeds with span `d`,
    `d` starts at the first mdat, ends where the maximal media run ends, and every mdat lies inside it. -/
theorem span_is_media_run (bs : List TopBox) (off : Nat) (d : Span) (hg : Geo off bs)
    (hf : foldSpan none bs = some (some d)) :
    (∃ m, firstMdat bs = some m ∧ d.offset = m.offset) ∧
    (∃ l, (mediaRun bs).getLast? = some l ∧ d.offset + d.len = l.endOff) ∧
    (∀ b ∈ bs, b.name = mdatN → d.offset ≤ b.offset ∧ b.endOff ≤ d.offset + d.len) := by
  obtain ⟨pre, m, post, e0, e1, e2, e3, e4, e5, e6, e7⟩ := fold_before bs off d hg hf
  subst e0
  have gtw := geo_takeWhile isR post m.endOff e3
  obtain ⟨b1, b2⟩ := geo_bounds (post.takeWhile isR) m.endOff gtw
  refine ⟨⟨m, firstMdat_split pre post m e1 e2, e5⟩, ?_, ?_⟩
  · rw [mediaRun_split pre post m e1 e2]
    cases hl : (post.takeWhile isR).getLast? with
    | none =>
      have : post.takeWhile isR = [] := by simpa using hl
      refine ⟨m, by rw [this]; rfl, ?_⟩
      rw [e6, this]; rfl
    | some l =>
      refine ⟨l, ?_, ?_⟩
      · cases hp : post.takeWhile isR with
        | nil => rw [hp] at hl; cases hl
        | cons c t => rw [hp] at hl; rw [List.getLast?_cons_cons]; exact hl
      · rw [e6]; simp only [runEnd, hl]
  · intro b hb hbm
    rcases List.mem_append.mp hb with h | h
    · exact absurd hbm (e1 b h)
    · rcases List.mem_cons.mp h with h | h
      · rw [h, e6]; exact ⟨by omega, b1⟩
      · rw [← List.takeWhile_append_dropWhile (p := isR) (l := post)] at h
        rcases List.mem_append.mp h with h | h
        · have := b2 b h
          rw [e6]; exact ⟨by omega, this.2⟩
        · exact absurd hbm (e7 b h)

/-! ### the whole program -/

section
variable (s : Stream) (kind : SkipKind)

theorem checkEnd_rel (pos : Nat) : Tri (idealOps s kind) checkEnd pos (fun _ p => p = pos ∧ pos ≤ s.len) := by
  unfold checkEnd
  apply Tri.position
  apply Tri.streamLen
  split
  · rename_i h; exact Tri.done ⟨rfl, h⟩
  · exact Tri.fail

theorem Chain.ends {lim : Nat} {ovr : Option Nat} {off pos : Nat} {bs : List TopBox} (h : Chain s lim ovr off pos bs) :
    ∀ b ∈ bs, b.endOff ≤ pos := by
  induction bs generalizing off with
  | nil => intro b hb; cases hb
  | cons c rest ih =>
    obtain ⟨_, _, _, h4⟩ := h
    intro b hb
    rcases List.mem_cons.mp hb with e | e
    · rw [e]; exact Chain.le s h4
    · exact ih h4 b e

/-- a returned result: the independent walker finds the whole input to be a clean sequence of boxes, and the returned
    span is the fold of the span bookkeeping over exactly that sequence -/
theorem sanitizeP_rel (cfg : Config) (fuel : Nat) :
    Tri (idealOps s kind) (sanitizeP cfg fuel) 0
      (fun o _ => ∀ r, o = some r →
        ∃ bs, walkAll s 0 s.len cfg.cumulativeMdatBoxSize = .clean bs ∧ Geo 0 bs ∧ (∀ b ∈ bs, b.endOff ≤ s.len) ∧
          foldSpan none bs = some (some r.data)) := by
  unfold sanitizeP
  apply Tri.bind
  apply Tri.mono (scan_rel s kind cfg fuel {} 0)
  intro o p1 ho
  cases o with
  | none => exact Tri.done (by intro r h; cases h)
  | some st =>
    obtain ⟨bs, hc, hf, hl⟩ := ho st rfl
    dsimp only
    apply Tri.bind
    apply Tri.mono (checkEnd_rel s kind p1)
    intro _ p2 ⟨hp2, hle⟩
    apply Tri.bind
    cases hfin : finish st with
    | panic site => exact Tri.panic
    | err e => exact Tri.fail
    | ok r =>
      apply Tri.done
      apply Tri.done
      intro r' hr'
      simp only [Option.some.injEq] at hr'
      subst hr'
      have hp : p1 = s.len := by omega
      subst hp
      have hd := finish_data st r hfin
      refine ⟨bs, ?_, Chain.geo s hc, Chain.ends s hc, ?_⟩
      · unfold walkAll
        apply walk_of_chain s s.len _ bs 0 _ hc
        left; omega
      · have : ({} : ScanState).data = none := rfl
        rw [this] at hf
        rw [hf, hd]

end
end MediaSan.Mp4
