/-
  Fusion in the other direction (for the completeness half of C05): a mutation `f` that succeeds on a tree as read
  also succeeds on the tree an accessor `g` has left behind (the same nodes, some of them already parsed).
  Mirror image of Lemmas/Fusion.lean.
-/
import MediaSan.Lemmas.Fusion
namespace MediaSan.Mp4
open MediaSan

/-- success of `f` on the tree before the accessor `g` transfers to the tree after `g`, with the same answer -/
def RFus {C α β : Type} (g : C → PureRes (C × β)) (f : C → PureRes (C × α)) : Prop :=
  ∀ c c1 b c2 a, g c = .ok (c1, b) → f c = .ok (c2, a) → ∃ c2', f c1 = .ok (c2', a)

theorem rfus_data {C α β : Type} (parse : Bytes → PureRes C) (g : C → PureRes (C × β)) (f : C → PureRes (C × α))
    (hF : RFus g f) (d d1 : Data C) (b : β) (d2 : Data C) (a : α)
    (hg : d.modify parse g = .ok (d1, b)) (hf : d.modify parse f = .ok (d2, a)) :
    ∃ d2', d1.modify parse f = .ok (d2', a) := by
  cases d with
  | bytes x =>
    obtain ⟨c, c1, p1, p2, e1⟩ := modify_bytes3 parse g x d1 b hg
    subst e1
    obtain ⟨c', c2, q0, q1, e2⟩ := modify_bytes3 parse f x d2 a hf
    rw [p1] at q0
    simp only [PureRes.ok.injEq] at q0
    subst q0
    obtain ⟨c2', r1⟩ := hF c c1 b c2 a p2 q1
    exact ⟨.parsed c2', modify_ok_parsed parse f c1 c2' a r1⟩
  | parsed c =>
    obtain ⟨c1, p2, e1⟩ := modify_parsed parse g c d1 b hg
    subst e1
    obtain ⟨c2, q1, e2⟩ := modify_parsed parse f c d2 a hf
    obtain ⟨c2', r1⟩ := hF c c1 b c2 a p2 q1
    exact ⟨.parsed c2', modify_ok_parsed parse f c1 c2' a r1⟩

theorem rfus_modifyFirst {C α β : Type} (ty : BoxType) (parse : Bytes → PureRes C)
    (g : C → PureRes (C × β)) (f : C → PureRes (C × α)) (hF : RFus g f) :
    RFus (modifyFirst ty parse g) (modifyFirst ty parse f) := by
  intro cs
  induction cs with
  | nil => intro c1 b c2 a hg; simp [modifyFirst] at hg
  | cons x xs ih =>
    intro c1 b c2 a hg hf
    simp only [modifyFirst] at hg hf
    by_cases hty : (x.hdr.ty == ty) = true
    · simp only [hty, if_true] at hg hf
      obtain ⟨da, hm, hx⟩ := pure_bind_ok _ _ _ hg
      obtain ⟨d1, b'⟩ := da
      simp only [pure, PureRes.ok.injEq, Prod.mk.injEq] at hx
      obtain ⟨rfl, rfl⟩ := hx
      obtain ⟨da2, hm2, hx2⟩ := pure_bind_ok _ _ _ hf
      obtain ⟨d2, a'⟩ := da2
      simp only [pure, PureRes.ok.injEq, Prod.mk.injEq] at hx2
      obtain ⟨rfl, rfl⟩ := hx2
      obtain ⟨d2', r1⟩ := rfus_data parse g f hF x.data d1 b' d2 a' hm hm2
      exact ⟨⟨x.hdr, d2'⟩ :: xs, by simp only [modifyFirst, hty, if_true, bind, r1, pure]⟩
    · have hty' : (x.hdr.ty == ty) = false := by simpa using hty
      simp only [hty', Bool.false_eq_true, if_false] at hg hf
      obtain ⟨ra, hm, hx⟩ := pure_bind_ok _ _ _ hg
      obtain ⟨xs1, b'⟩ := ra
      simp only [pure, PureRes.ok.injEq, Prod.mk.injEq] at hx
      obtain ⟨rfl, rfl⟩ := hx
      obtain ⟨ra2, hm2, hx2⟩ := pure_bind_ok _ _ _ hf
      obtain ⟨xs2, a'⟩ := ra2
      simp only [pure, PureRes.ok.injEq, Prod.mk.injEq] at hx2
      obtain ⟨rfl, rfl⟩ := hx2
      obtain ⟨xs2', r1⟩ := ih xs1 b' xs2 a' hm hm2
      exact ⟨x :: xs2', by simp only [modifyFirst, hty', Bool.false_eq_true, if_false, bind, r1, pure]⟩

theorem rfus_getOne {C α β : Type} (ty : BoxType) (parse : Bytes → PureRes C)
    (g : C → PureRes (C × β)) (f : C → PureRes (C × α)) (hF : RFus g f) :
    RFus (getOneMut ty parse g) (getOneMut ty parse f) := by
  intro cs cs1 b cs2 a hg hf
  unfold getOneMut at hg hf ⊢
  split at hg
  · rename_i hcnt
    have ht := modifyFirst_types ty parse g cs cs1 b hg
    have hc := (countType_of_types ty cs cs1 ht).1
    rw [hc]
    simp only [hcnt, if_true] at hf ⊢
    exact rfus_modifyFirst ty parse g f hF cs cs1 b cs2 a hg hf
  · cases hg

theorem rfus_forEach {C α β : Type} (ty : BoxType) (parse : Bytes → PureRes C)
    (g : C → PureRes (C × β)) (f : C → PureRes (C × α)) (hF : RFus g f) :
    RFus (forEachOfType ty parse g) (forEachOfType ty parse f) := by
  intro cs
  induction cs with
  | nil =>
    intro c1 b c2 a hg hf
    simp only [forEachOfType, PureRes.ok.injEq, Prod.mk.injEq] at hg
    obtain ⟨rfl, rfl⟩ := hg
    exact ⟨c2, hf⟩
  | cons x xs ih =>
    intro c1 bs c2 as hg hf
    simp only [forEachOfType] at hg hf
    by_cases hty : (x.hdr.ty == ty) = true
    · simp only [hty, if_true] at hg hf
      obtain ⟨da, hm, hx⟩ := pure_bind_ok _ _ _ hg
      obtain ⟨d1, b'⟩ := da
      obtain ⟨ra, hrec, hy⟩ := pure_bind_ok _ _ _ hx
      obtain ⟨xs1, bs'⟩ := ra
      simp only [pure, PureRes.ok.injEq, Prod.mk.injEq] at hy
      obtain ⟨rfl, rfl⟩ := hy
      obtain ⟨da2, hm2, hx2⟩ := pure_bind_ok _ _ _ hf
      obtain ⟨d2, a'⟩ := da2
      obtain ⟨ra2, hrec2, hy2⟩ := pure_bind_ok _ _ _ hx2
      obtain ⟨xs2, as'⟩ := ra2
      simp only [pure, PureRes.ok.injEq, Prod.mk.injEq] at hy2
      obtain ⟨rfl, rfl⟩ := hy2
      obtain ⟨d2', r1⟩ := rfus_data parse g f hF x.data d1 b' d2 a' hm hm2
      obtain ⟨xs2', t1⟩ := ih xs1 bs' xs2 as' hrec hrec2
      exact ⟨⟨x.hdr, d2'⟩ :: xs2', by simp only [forEachOfType, hty, if_true, bind, r1, t1, pure]⟩
    · have hty' : (x.hdr.ty == ty) = false := by simpa using hty
      simp only [hty', Bool.false_eq_true, if_false] at hg hf
      obtain ⟨ra, hrec, hy⟩ := pure_bind_ok _ _ _ hg
      obtain ⟨xs1, bs'⟩ := ra
      simp only [pure, PureRes.ok.injEq, Prod.mk.injEq] at hy
      obtain ⟨rfl, rfl⟩ := hy
      obtain ⟨ra2, hrec2, hy2⟩ := pure_bind_ok _ _ _ hf
      obtain ⟨xs2, as'⟩ := ra2
      simp only [pure, PureRes.ok.injEq, Prod.mk.injEq] at hy2
      obtain ⟨rfl, rfl⟩ := hy2
      obtain ⟨xs2', t1⟩ := ih xs1 bs' xs2 as' hrec hrec2
      exact ⟨x :: xs2', by simp only [forEachOfType, hty', Bool.false_eq_true, if_false, bind, t1, pure]⟩

theorem rfus_leaf {α : Type} (f : Co → PureRes (Co × α)) :
    RFus (fun co => (.ok (co, co.count) : PureRes (Co × Nat))) f := by
  intro c c1 b c2 a hg hf
  simp only [PureRes.ok.injEq, Prod.mk.injEq] at hg
  obtain ⟨rfl, _⟩ := hg
  exact ⟨c2, hf⟩

theorem rfus_stbl {α β : Type} (g : Co → PureRes (Co × β)) (f : Co → PureRes (Co × α)) (hF : RFus g f) :
    RFus (coMutStbl g) (coMutStbl f) := by
  intro cs cs1 b cs2 a hg hf
  unfold coMutStbl at hg hf ⊢
  dsimp only at hg hf ⊢
  split at hg
  · cases hg
  rename_i hboth
  split at hg
  · rename_i hst
    have ht := getOneMut_types STCO (parseCo 4) g cs cs1 b hg
    have h1 := (countType_of_types STCO cs cs1 ht).2
    have h2 := (countType_of_types CO64 cs cs1 ht).2
    rw [h1, h2]
    have hno6 : hasType CO64 cs = false := by
      cases hq : hasType CO64 cs with
      | false => rfl
      | true => rw [hst, hq] at hboth; simp at hboth
    simp only [hst, hno6, Bool.and_false, Bool.false_eq_true, if_false, if_true] at hf ⊢
    exact rfus_getOne STCO (parseCo 4) g f hF cs cs1 b cs2 a hg hf
  · rename_i hst
    have ht := getOneMut_types CO64 (parseCo 8) g cs cs1 b hg
    have h1 := (countType_of_types STCO cs cs1 ht).2
    have h2 := (countType_of_types CO64 cs cs1 ht).2
    rw [h1, h2]
    have hst' : hasType STCO cs = false := by simpa using hst
    simp only [hst', Bool.false_and, Bool.false_eq_true, if_false] at hf ⊢
    exact rfus_getOne CO64 (parseCo 8) g f hF cs cs1 b cs2 a hg hf

theorem rfus_trak {α β : Type} (g : Co → PureRes (Co × β)) (f : Co → PureRes (Co × α)) (hF : RFus g f) :
    RFus (coMutTrak g) (coMutTrak f) := by
  unfold coMutTrak
  exact rfus_getOne MDIA parseContainer _ _
    (rfus_getOne MINF parseContainer _ _
      (rfus_getOne STBL parseContainer _ _ (rfus_stbl g f hF)))

theorem rfus_forTraks {α β : Type} (g : Co → PureRes (Co × β)) (f : Co → PureRes (Co × α)) (hF : RFus g f) :
    RFus (forTraks g) (forTraks f) := by
  unfold forTraks
  exact rfus_forEach TRAK parseContainer _ _ (rfus_trak g f hF)

/-- a displacement that succeeds on the payload as read succeeds on the validated tree the scan kept -/
theorem displace_of_fresh (x : Bytes) (d : Data L5) (n : Nat) (hv : validateMoov (.bytes x) = .ok (d, n))
    (disp : Int) (d'' : Data L5) (us : List Unit)
    (hd : (Data.bytes x).modify parseMoov (forTraks (displaceCo disp)) = .ok (d'', us)) :
    ∃ d', displaceMoov disp d = .ok d' := by
  unfold validateMoov at hv
  obtain ⟨dc, hm, hrest⟩ := pure_bind_ok _ _ _ hv
  obtain ⟨d0, counts⟩ := dc
  have hd0 : d = d0 := by
    cases counts with
    | nil => simp only [pure, PureRes.ok.injEq, Prod.mk.injEq] at hrest; exact hrest.1.symm
    | cons c cs =>
      dsimp only at hrest
      obtain ⟨t, _, ht⟩ := pure_bind_ok _ _ _ hrest
      simp only [pure, PureRes.ok.injEq, Prod.mk.injEq] at ht
      exact ht.1.symm
  subst hd0
  obtain ⟨d2', r1⟩ := rfus_data parseMoov (forTraks fun co => .ok (co, co.count)) (forTraks (displaceCo disp))
    (rfus_forTraks _ _ (rfus_leaf _)) (.bytes x) d counts d'' us hm hd
  exact ⟨d2', by simp only [displaceMoov, bind, r1, pure]⟩

end MediaSan.Mp4
