/-
  C10: generic non-interference.  The outcome of ANY program on the ideal cursor depends only on the length of the
  stream and on the bytes in the ranges it actually reads.
-/
import MediaSan.Stream
namespace MediaSan
open MediaSan

/-- the (offset, length) ranges whose bytes the run of `p` on `s` from `pos` obtains -/
def Prog.readSet {E α} (s : Stream) (kind : SkipKind) : Prog E α → Nat → List (Nat × Nat)
  | .done _, _ => []
  | .fail _, _ => []
  | .panic _, _ => []
  | .isEof k, pos => (k (decide (s.len ≤ pos))).readSet s kind pos
  | .position k, pos => (k pos).readSet s kind pos
  | .streamLen k, pos => (k s.len).readSet s kind pos
  | .readExact m _ k, pos =>
    match (idealOps s kind).readExact pos m with
    | .ok (b, pos') => (pos, m) :: (k b).readSet s kind pos'
    | .error _ => []
  | .skip m _ k, pos =>
    match (idealOps s kind).skip pos m with
    | .ok pos' => (k ()).readSet s kind pos'
    | .error _ => []
  | .readUpTo m k, pos =>
    (pos, min m (s.len - pos)) :: (k (s.read pos (min m (s.len - pos)))).readSet s kind (pos + min m (s.len - pos))

theorem run_noninterference {E α} (s s' : Stream) (kind : SkipKind) (hlen : s'.len = s.len) (p : Prog E α) (pos : Nat)
    (h : ∀ a n, (a, n) ∈ p.readSet s kind pos → s'.read a n = s.read a n) :
    p.run (idealOps s' kind) pos = p.run (idealOps s kind) pos := by
  induction p generalizing pos with
  | done a => rfl
  | fail e => rfl
  | panic m => rfl
  | isEof k ih =>
    simp only [Prog.run]
    have e : (idealOps s' kind).isEof pos = .ok (decide (s.len ≤ pos), pos) := by simp only [idealOps, hlen]
    have e2 : (idealOps s kind).isEof pos = .ok (decide (s.len ≤ pos), pos) := rfl
    rw [e, e2]
    exact ih _ pos (fun a n hm => h a n (by simpa only [Prog.readSet] using hm))
  | position k ih =>
    simp only [Prog.run]
    have e : (idealOps s' kind).position pos = .ok (pos, pos) := rfl
    have e2 : (idealOps s kind).position pos = .ok (pos, pos) := rfl
    rw [e, e2]
    exact ih _ pos (fun a n hm => h a n (by simpa only [Prog.readSet] using hm))
  | streamLen k ih =>
    simp only [Prog.run]
    have e : (idealOps s' kind).streamLen pos = .ok (s.len, pos) := by simp only [idealOps, hlen]
    have e2 : (idealOps s kind).streamLen pos = .ok (s.len, pos) := rfl
    rw [e, e2]
    exact ih _ pos (fun a n hm => h a n (by simpa only [Prog.readSet] using hm))
  | readExact m eof k ih =>
    simp only [Prog.run]
    have hop : (idealOps s' kind).readExact pos m =
        match (idealOps s kind).readExact pos m with
        | .ok (_, p') => (if m = 0 then .ok ([], pos) else .ok (s'.read pos m, p'))
        | .error e => .error e := by
      simp only [idealOps, hlen]
      by_cases h0 : m = 0
      · simp [h0]
      · by_cases h1 : pos + m ≤ s.len <;> simp [h0, h1]
    cases hr : (idealOps s kind).readExact pos m with
    | error e => rw [hop, hr]
    | ok x =>
      obtain ⟨b, p'⟩ := x
      rw [hop, hr]
      have hb : (if m = 0 then (Except.ok ([], pos) : Except IoKind (Bytes × Nat)) else .ok (s'.read pos m, p')) = .ok (b, p') := by
        simp only [idealOps] at hr
        by_cases h0 : m = 0
        · simp only [h0, if_true] at hr ⊢; exact hr
        · simp only [h0, if_false] at hr ⊢
          split at hr
          · cases hr
            rw [h pos m (by simp only [Prog.readSet, idealOps, h0, if_false]; rename_i hle; simp [hle])]
          · cases hr
      dsimp only
      rw [hb]
      exact ih b p' (fun a n hm => h a n (by simp only [Prog.readSet, hr]; exact List.mem_cons_of_mem _ hm))
  | skip m eof k ih =>
    simp only [Prog.run]
    have hop : (idealOps s' kind).skip pos m = (idealOps s kind).skip pos m := by
      simp only [idealOps, hlen]
    rw [hop]
    cases hr : (idealOps s kind).skip pos m with
    | error e => rfl
    | ok p' =>
      exact ih () p' (fun a n hm => h a n (by simp only [Prog.readSet, hr]; exact hm))
  | readUpTo m k ih =>
    simp only [Prog.run]
    have e : (idealOps s' kind).readUpTo pos m = .ok (s.read pos (min m (s.len - pos)), pos + min m (s.len - pos)) := by
      simp only [idealOps, hlen]
      rw [h pos (min m (s.len - pos)) (by simp only [Prog.readSet]; exact List.mem_cons_self ..)]
    have e2 : (idealOps s kind).readUpTo pos m = .ok (s.read pos (min m (s.len - pos)), pos + min m (s.len - pos)) := rfl
    rw [e, e2]
    exact ih _ _ (fun a n hm => h a n (by simp only [Prog.readSet]; exact List.mem_cons_of_mem _ hm))

end MediaSan
