import MediaSan.Lemmas.Mp4Header
import MediaSan.Mp4.Tree
namespace MediaSan.Mp4
open MediaSan

/-- a serializer whose `len` is the length of what it writes (C16 "writes exactly encoded_len bytes") -/
def Ser.LenOk {C} (K : Ser C) : Prop := ∀ c, K.len c = (K.ser c).length

/-- a parser/serializer pair that round-trips: parse b = ok c → ser c = b -/
def RoundTrip {C} (K : Ser C) (parse : Bytes → PureRes C) : Prop :=
  ∀ b c, parse b = .ok c → K.ser c = b

theorem Data.len_eq {C} (K : Ser C) (hK : K.LenOk) (d : Data C) : d.len K = (d.ser K).length := by
  cases d with
  | bytes b => rfl
  | parsed c => exact hK c

/-- a box whose header declares exactly its current data length keeps its parsed header -/
theorem calcHeader_same {C} (K : Ser C) (b : Box C) (n : Nat)
    (h : b.hdr.dataSize = .ok (some n)) (hn : n = b.data.len K) : b.calcHeader K = b.hdr := by
  simp [Box.calcHeader, h, hn]

theorem calcHeader_eof {C} (K : Ser C) (b : Box C) (h : b.hdr.dataSize = .ok none) :
    b.calcHeader K = b.hdr := by
  simp [Box.calcHeader, h]

theorem listSer_lenOk {C} (K : Ser C) (hK : K.LenOk)
    (hw : ∀ (b : Box C), (b.calcHeader K).WF) : (listSer K).LenOk := by
  intro cs
  induction cs with
  | nil => rfl
  | cons b cs ih =>
    simp only [listSer, List.map_cons, List.sum_cons, List.flatten_cons, List.length_append] at ih ⊢
    rw [ih]
    simp only [Box.len, Box.ser, List.length_append, encodeHeader_length _ (hw b), Data.len_eq K hK]

/-- C16 for freshly parsed children: `Boxes::parse` followed by `put_buf` reproduces the bytes, and
    `encoded_len` is their length — whatever serializer the (still unparsed) children would use. -/
theorem parseBoxes_ser {C} (K : Ser C) (fuel : Nat) (bs : Bytes) (cs : List (Box C))
    (hf : bs.length ≤ fuel) (h : parseBoxes fuel bs = .ok cs) :
    (listSer K).ser cs = bs ∧ (listSer K).len cs = bs.length := by
  induction fuel generalizing bs cs with
  | zero =>
    have : bs = [] := by cases bs <;> simp_all
    subst this
    simp only [parseBoxes, PureRes.ok.injEq] at h
    subst h; exact ⟨rfl, rfl⟩
  | succ fuel ih =>
    simp only [parseBoxes] at h
    split at h
    · rename_i hemp
      simp only [PureRes.ok.injEq] at h
      subst h
      have : bs = [] := by simpa using hemp
      subst this; exact ⟨rfl, rfl⟩
    · split at h
      · simp at h
      · rename_i hdr rest hd
        obtain ⟨hwf, henc⟩ := decode_wf bs hdr rest hd
        have hlen := decode_length bs hdr rest hd
        have hel : 8 ≤ hdr.encodedLen := by simp [BoxHeader.encodedLen]; omega
        split at h
        · simp at h
        · rename_i hds
          simp only [PureRes.ok.injEq] at h
          subst h
          have hc : (Box.mk hdr (Data.bytes rest) : Box C).calcHeader K = hdr := calcHeader_eof K _ hds
          constructor
          · simp [listSer, Box.ser, hc, Data.ser, henc]
          · simp only [listSer, Box.len, hc, Data.len, List.map_cons, List.map_nil, List.sum_cons, List.sum_nil]
            omega
        · rename_i n hds
          split at h
          · rename_i hle
            split at h
            · rename_i cs' hrec
              simp only [PureRes.ok.injEq] at h
              subst h
              have hdl : (rest.drop n).length = rest.length - n := by simp
              obtain ⟨ih1, ih2⟩ := ih (rest.drop n) cs' (by omega) hrec
              have htl : (rest.take n).length = n := by simp; omega
              have hc : (Box.mk hdr (Data.bytes (rest.take n)) : Box C).calcHeader K = hdr :=
                calcHeader_same K _ n hds (by simp [Data.len, htl])
              constructor
              · simp only [listSer, List.map_cons, List.flatten_cons, Box.ser, hc, Data.ser] at ih1 ⊢
                rw [ih1, List.append_assoc, List.take_append_drop, henc]
              · simp only [listSer, List.map_cons, List.sum_cons, Box.len, hc, Data.len] at ih2 ⊢
                rw [ih2, htl, hdl]; omega
            · simp at h
            · simp at h
          · simp at h

theorem parseContainer_roundtrip {C} (K : Ser C) : RoundTrip (listSer K) (parseContainer (C := C)) := by
  intro b cs h
  exact (parseBoxes_ser K b.length b cs (Nat.le_refl _) h).1

theorem parseContainer_len {C} (K : Ser C) (b : Bytes) (cs : List (Box C))
    (h : parseContainer b = .ok cs) : (listSer K).len cs = b.length :=
  (parseBoxes_ser K b.length b cs (Nat.le_refl _) h).2

/-- the chunk-offset box codec round-trips -/
theorem parseCo_roundtrip (w : Nat) : RoundTrip coSer (parseCo w) := by
  intro b c h
  unfold parseCo at h
  split at h
  · simp at h
  · split at h
    · simp at h
    · split at h
      · simp at h
      · split at h
        · simp at h
        · rename_i h4 hv hf h8
          simp only at h
          split at h
          · simp at h
          · split at h
            · simp at h
            · split at h
              · simp at h
              · simp only [PureRes.ok.injEq] at h
                subst h
                have hv' : b.take 1 = [0] := by simpa using hv
                have hf' : (b.drop 1).take 3 = [0, 0, 0] := by
                  have : ¬ (b.drop 1).take 3 ≠ [0, 0, 0] := hf
                  simpa using this
                have t4 : b.take 4 = [0, 0, 0, 0] := by
                  have : (4 : Nat) = 1 + 3 := rfl
                  rw [this, List.take_add, hv', hf']; rfl
                have hl : ((b.drop 4).take 4).length = 4 := by simp; omega
                have e := natToBE_beToNat ((b.drop 4).take 4)
                rw [hl] at e
                simp only [coSer, e]
                have d8 : b.drop 8 = (b.drop 4).drop 4 := by rw [List.drop_drop]
                rw [d8, List.append_assoc, List.take_append_drop, ← t4, List.take_append_drop]

theorem parseCo_len (w : Nat) (b : Bytes) (c : Co) (h : parseCo w b = .ok c) : coSer.len c = b.length := by
  have := parseCo_roundtrip w b c h
  rw [← this]; simp [coSer]; omega

theorem coSer_lenOk : coSer.LenOk := by intro c; simp [coSer]; omega

/-- lazily parsing a payload (and running an accessor that does not change it) leaves what the box
    serializes to, and its length, unchanged -/
theorem modify_ser {C α} (K : Ser C) (parse : Bytes → PureRes C) (f : C → PureRes (C × α))
    (hrt : RoundTrip K parse)
    (hf : ∀ c c' a, f c = .ok (c', a) → K.ser c' = K.ser c)
    (d d' : Data C) (a : α) (h : d.modify parse f = .ok (d', a)) : d'.ser K = d.ser K := by
  cases d with
  | bytes b =>
    simp only [Data.modify, bind] at h
    cases hp : parse b with
    | ok c =>
      simp only [hp] at h
      cases hfc : f c with
      | ok r =>
        obtain ⟨c', a'⟩ := r
        simp only [hfc, pure, PureRes.ok.injEq, Prod.mk.injEq] at h
        obtain ⟨rfl, rfl⟩ := h
        simp only [Data.ser]
        rw [hf c c' a' hfc, hrt b c hp]
      | err e => simp [hfc] at h
      | panic s => simp [hfc] at h
    | err e => simp [hp] at h
    | panic s => simp [hp] at h
  | parsed c =>
    simp only [Data.modify, bind] at h
    cases hfc : f c with
    | ok r =>
      obtain ⟨c', a'⟩ := r
      simp only [hfc, pure, PureRes.ok.injEq, Prod.mk.injEq] at h
      obtain ⟨rfl, rfl⟩ := h
      simp only [Data.ser]
      exact hf c c' a' hfc
    | err e => simp [hfc] at h
    | panic s => simp [hfc] at h

end MediaSan.Mp4

namespace MediaSan.Mp4
open MediaSan

/-- parse then serialize gives the bytes back, and `len` agrees -/
def RT {C} (K : Ser C) (parse : Bytes → PureRes C) : Prop :=
  ∀ b c, parse b = .ok c → K.ser c = b ∧ K.len c = b.length

/-- a relation on byte strings that is reflexive and compatible with concatenation
    (instances: equality; "same length") -/
structure Congr (R : Bytes → Bytes → Prop) : Prop where
  refl : ∀ a, R a a
  app : ∀ a a' b b', R a a' → R b b' → R (a ++ b) (a' ++ b')

theorem congr_eq : Congr (fun a b => a = b) := ⟨fun _ => rfl, fun _ _ _ _ h1 h2 => by rw [h1, h2]⟩
theorem congr_len : Congr (fun a b => a.length = b.length) :=
  ⟨fun _ => rfl, fun _ _ _ _ h1 h2 => by simp [h1, h2]⟩

/-- an accessor/mutator whose effect on the serialization stays within `R` and which keeps `len` -/
def PresR {C α} (R : Bytes → Bytes → Prop) (K : Ser C) (f : C → PureRes (C × α)) : Prop :=
  ∀ c c' a, f c = .ok (c', a) → R (K.ser c') (K.ser c) ∧ K.len c' = K.len c

abbrev Pres {C α} (K : Ser C) (f : C → PureRes (C × α)) : Prop := PresR (fun a b => a = b) K f

theorem modify_pres {C α} {R} (hR : Congr R) (K : Ser C) (parse : Bytes → PureRes C) (f : C → PureRes (C × α))
    (hrt : RT K parse) (hf : PresR R K f)
    (d d' : Data C) (a : α) (h : d.modify parse f = .ok (d', a)) :
    R (d'.ser K) (d.ser K) ∧ d'.len K = d.len K := by
  cases d with
  | bytes b =>
    simp only [Data.modify, bind] at h
    cases hp : parse b with
    | ok c =>
      simp only [hp] at h
      cases hfc : f c with
      | ok r =>
        obtain ⟨c', a'⟩ := r
        simp only [hfc, pure, PureRes.ok.injEq, Prod.mk.injEq] at h
        obtain ⟨rfl, rfl⟩ := h
        obtain ⟨e1, e2⟩ := hf c c' a' hfc
        obtain ⟨r1, r2⟩ := hrt b c hp
        simp only [Data.ser, Data.len]
        exact ⟨by rw [← r1]; exact e1, by rw [e2, r2]⟩
      | err e => simp [hfc] at h
      | panic s => simp [hfc] at h
    | err e => simp [hp] at h
    | panic s => simp [hp] at h
  | parsed c =>
    simp only [Data.modify, bind] at h
    cases hfc : f c with
    | ok r =>
      obtain ⟨c', a'⟩ := r
      simp only [hfc, pure, PureRes.ok.injEq, Prod.mk.injEq] at h
      obtain ⟨rfl, rfl⟩ := h
      simp only [Data.ser, Data.len]
      exact hf c c' a' hfc
    | err e => simp [hfc] at h
    | panic s => simp [hfc] at h

theorem box_ser_congr {C} {R} (hR : Congr R) (K : Ser C) (hdr : BoxHeader) (d d' : Data C)
    (h1 : R (d'.ser K) (d.ser K)) (h2 : d'.len K = d.len K) :
    R ((Box.mk hdr d').ser K) ((Box.mk hdr d).ser K) ∧ (Box.mk hdr d').len K = (Box.mk hdr d).len K := by
  simp only [Box.ser, Box.len, Box.calcHeader, h2]
  exact ⟨hR.app _ _ _ _ (hR.refl _) h1, trivial⟩

theorem modifyFirst_pres {C α} {R} (hR : Congr R) (K : Ser C) (ty : BoxType) (parse : Bytes → PureRes C)
    (f : C → PureRes (C × α)) (hrt : RT K parse) (hf : PresR R K f) :
    PresR R (listSer K) (modifyFirst ty parse f) := by
  intro cs
  induction cs with
  | nil => intro cs' a h; simp [modifyFirst] at h
  | cons b bs ih =>
    intro cs' a h
    simp only [modifyFirst] at h
    split at h
    · simp only [bind] at h
      cases hm : b.data.modify parse f with
      | ok r =>
        obtain ⟨d, a'⟩ := r
        simp only [hm, pure, PureRes.ok.injEq, Prod.mk.injEq] at h
        obtain ⟨rfl, rfl⟩ := h
        obtain ⟨e1, e2⟩ := modify_pres hR K parse f hrt hf b.data d a' hm
        obtain ⟨s1, s2⟩ := box_ser_congr hR K b.hdr b.data d e1 e2
        simp only [listSer, List.map_cons, List.flatten_cons, List.sum_cons]
        exact ⟨hR.app _ _ _ _ s1 (hR.refl _), by rw [s2]⟩
      | err e => simp [hm] at h
      | panic s => simp [hm] at h
    · simp only [bind] at h
      cases hm : modifyFirst ty parse f bs with
      | ok r =>
        obtain ⟨bs', a'⟩ := r
        simp only [hm, pure, PureRes.ok.injEq, Prod.mk.injEq] at h
        obtain ⟨rfl, rfl⟩ := h
        obtain ⟨e1, e2⟩ := ih bs' a' hm
        simp only [listSer, List.map_cons, List.flatten_cons, List.sum_cons] at e1 e2 ⊢
        exact ⟨hR.app _ _ _ _ (hR.refl _) e1, by rw [e2]⟩
      | err e => simp [hm] at h
      | panic s => simp [hm] at h

theorem getOneMut_pres {C α} {R} (hR : Congr R) (K : Ser C) (ty : BoxType) (parse : Bytes → PureRes C)
    (f : C → PureRes (C × α)) (hrt : RT K parse) (hf : PresR R K f) :
    PresR R (listSer K) (getOneMut ty parse f) := by
  intro cs cs' a h
  simp only [getOneMut] at h
  split at h
  · exact modifyFirst_pres hR K ty parse f hrt hf cs cs' a h
  · simp at h

theorem forEachOfType_pres {C α} {R} (hR : Congr R) (K : Ser C) (ty : BoxType) (parse : Bytes → PureRes C)
    (f : C → PureRes (C × α)) (hrt : RT K parse) (hf : PresR R K f) :
    PresR R (listSer K) (forEachOfType ty parse f) := by
  intro cs
  induction cs with
  | nil =>
    intro cs' a h
    simp only [forEachOfType, PureRes.ok.injEq, Prod.mk.injEq] at h
    obtain ⟨rfl, rfl⟩ := h; exact ⟨hR.refl _, rfl⟩
  | cons b bs ih =>
    intro cs' a h
    simp only [forEachOfType] at h
    split at h
    · simp only [bind] at h
      cases hm : b.data.modify parse f with
      | ok r =>
        obtain ⟨d, a'⟩ := r
        simp only [hm] at h
        cases hr : forEachOfType ty parse f bs with
        | ok r2 =>
          obtain ⟨bs', as⟩ := r2
          simp only [hr, pure, PureRes.ok.injEq, Prod.mk.injEq] at h
          obtain ⟨rfl, rfl⟩ := h
          obtain ⟨e1, e2⟩ := modify_pres hR K parse f hrt hf b.data d a' hm
          obtain ⟨s1, s2⟩ := box_ser_congr hR K b.hdr b.data d e1 e2
          obtain ⟨i1, i2⟩ := ih bs' as hr
          simp only [listSer, List.map_cons, List.flatten_cons, List.sum_cons] at i1 i2 ⊢
          exact ⟨hR.app _ _ _ _ s1 i1, by rw [s2, i2]⟩
        | err e => simp [hr] at h
        | panic s => simp [hr] at h
      | err e => simp [hm] at h
      | panic s => simp [hm] at h
    · simp only [bind] at h
      cases hr : forEachOfType ty parse f bs with
      | ok r2 =>
        obtain ⟨bs', as⟩ := r2
        simp only [hr, pure, PureRes.ok.injEq, Prod.mk.injEq] at h
        obtain ⟨rfl, rfl⟩ := h
        obtain ⟨i1, i2⟩ := ih bs' as hr
        simp only [listSer, List.map_cons, List.flatten_cons, List.sum_cons] at i1 i2 ⊢
        exact ⟨hR.app _ _ _ _ (hR.refl _) i1, by rw [i2]⟩
      | err e => simp [hr] at h
      | panic s => simp [hr] at h

theorem rt_container {C} (K : Ser C) : RT (listSer K) (parseContainer (C := C)) := by
  intro b cs h
  exact parseBoxes_ser K b.length b cs (Nat.le_refl _) h

theorem rt_co (w : Nat) : RT coSer (parseCo w) := by
  intro b c h
  exact ⟨parseCo_roundtrip w b c h, parseCo_len w b c h⟩

theorem coMutStbl_pres {α} {R} (hR : Congr R) (f : Co → PureRes (Co × α)) (hf : PresR R coSer f) :
    PresR R ser1 (coMutStbl f) := by
  intro cs cs' a h
  simp only [coMutStbl] at h
  split at h
  · simp at h
  · split at h
    · exact getOneMut_pres hR coSer STCO (parseCo 4) f (rt_co 4) hf cs cs' a h
    · exact getOneMut_pres hR coSer CO64 (parseCo 8) f (rt_co 8) hf cs cs' a h

theorem coMutTrak_pres {α} {R} (hR : Congr R) (f : Co → PureRes (Co × α)) (hf : PresR R coSer f) :
    PresR R ser4 (coMutTrak f) := by
  have p1 := coMutStbl_pres hR f hf
  have p2 : PresR R ser2 (fun (l2 : L2) => getOneMut STBL parseContainer (coMutStbl f) l2) :=
    getOneMut_pres hR ser1 STBL parseContainer _ (rt_container coSer) p1
  have p3 : PresR R ser3 (fun (l3 : L3) => getOneMut MINF parseContainer
      (fun (l2 : L2) => getOneMut STBL parseContainer (coMutStbl f) l2) l3) :=
    getOneMut_pres hR ser2 MINF parseContainer _ (rt_container ser1) p2
  exact getOneMut_pres hR ser3 MDIA parseContainer _ (rt_container ser2) p3

theorem forTraks_pres {α} {R} (hR : Congr R) (f : Co → PureRes (Co × α)) (hf : PresR R coSer f) :
    PresR R ser5 (forTraks f) :=
  forEachOfType_pres hR ser4 TRAK parseContainer _ (rt_container ser3) (coMutTrak_pres hR f hf)

theorem rt_moov : RT ser5 parseMoov := by
  intro b cs h
  simp only [parseMoov, bind] at h
  cases hp : (parseContainer b : PureRes L5) with
  | ok cs0 =>
    simp only [hp] at h
    split at h
    · simp only [pure, PureRes.ok.injEq] at h; subst h; exact rt_container ser4 b cs0 hp
    · simp at h
  | err e => simp [hp] at h
  | panic s => simp [hp] at h

end MediaSan.Mp4
