/-
  C09: the u32 sum of the per-track chunk counts (lib.rs:361) cannot overflow: every count c comes from a table that
  occupies at least 4·c bytes of the moov payload, distinct tracks occupy disjoint parts of it, so 4·Σc ≤ |payload|.
-/
import MediaSan.Lemmas.NoPanic
import MediaSan.Lemmas.Mp4Header
namespace MediaSan.Mp4
open MediaSan

def rawLen {C} (b : Box C) : Nat := match b.data with | .bytes bs => bs.length | .parsed _ => 0
def AllBytes {C} (cs : List (Box C)) : Prop := ∀ b ∈ cs, ∃ bs, b.data = .bytes bs
def total {C} (cs : List (Box C)) : Nat := (cs.map rawLen).sum

theorem allBytes_nil {C} : AllBytes ([] : List (Box C)) := by intro b hb; cases hb

theorem parseBoxes_weight {C} (fuel : Nat) (bs : Bytes) (cs : List (Box C)) (h : parseBoxes fuel bs = .ok cs) :
    AllBytes cs ∧ total cs ≤ bs.length := by
  induction fuel generalizing bs cs with
  | zero =>
    simp only [parseBoxes, PureRes.ok.injEq] at h; subst h
    exact ⟨allBytes_nil, Nat.zero_le _⟩
  | succ n ih =>
    unfold parseBoxes at h
    split at h
    · simp only [PureRes.ok.injEq] at h; subst h
      exact ⟨allBytes_nil, Nat.zero_le _⟩
    · cases hdec : decodeHeader bs with
      | none => rw [hdec] at h; cases h
      | some x =>
        obtain ⟨hh, rest⟩ := x
        rw [hdec] at h
        dsimp only at h
        have hrest : rest.length ≤ bs.length := by have := decode_length bs hh rest hdec; omega
        cases hds : hh.dataSize with
        | error e => rw [hds] at h; cases h
        | ok o =>
          rw [hds] at h
          cases o with
          | none =>
            dsimp only at h
            simp only [PureRes.ok.injEq] at h; subst h
            refine ⟨?_, ?_⟩
            · intro b hb; simp only [List.mem_singleton] at hb; subst hb; exact ⟨rest, rfl⟩
            · simp only [total, List.map_cons, List.map_nil, List.sum_cons, List.sum_nil, rawLen]; omega
          | some nn =>
            dsimp only at h
            split at h
            · cases hr : parseBoxes (C := C) n (rest.drop nn) with
              | ok cs0 =>
                rw [hr] at h; simp only [PureRes.ok.injEq] at h; subst h
                obtain ⟨ha, ht⟩ := ih _ _ hr
                refine ⟨?_, ?_⟩
                · intro b hb
                  simp only [List.mem_cons] at hb
                  rcases hb with rfl | hb
                  · exact ⟨_, rfl⟩
                  · exact ha b hb
                · simp only [total, List.map_cons, List.sum_cons, rawLen, List.length_take] at ht ⊢
                  simp only [List.length_drop] at ht
                  omega
              | err e => rw [hr] at h; cases h
              | panic s => rw [hr] at h; cases h
            · cases h

/-- a (parser, accessor) pair whose Nat result is paid for by the bytes parsed: 4·a ≤ |bytes| -/
def WB {C} (parse : Bytes → PureRes C) (f : C → PureRes (C × Nat)) : Prop :=
  ∀ bs c c' a, parse bs = .ok c → f c = .ok (c', a) → 4 * a ≤ bs.length

theorem modify_bytes_weight {C} {parse : Bytes → PureRes C} {f : C → PureRes (C × Nat)} (hw : WB parse f)
    (bs : Bytes) (d' : Data C) (a : Nat) (h : (Data.bytes bs).modify parse f = .ok (d', a)) : 4 * a ≤ bs.length := by
  simp only [Data.modify, bind] at h
  cases hp : parse bs with
  | ok c =>
    simp only [hp] at h
    cases hfc : f c with
    | ok r =>
      obtain ⟨c', a'⟩ := r
      simp only [hfc, pure, PureRes.ok.injEq, Prod.mk.injEq] at h
      obtain ⟨_, rfl⟩ := h
      exact hw bs c c' a' hp hfc
    | err e => simp [hfc] at h
    | panic s => simp [hfc] at h
  | err e => simp [hp] at h
  | panic s => simp [hp] at h

theorem modifyFirst_weight {C} (ty : BoxType) {parse : Bytes → PureRes C} {f : C → PureRes (C × Nat)} (hw : WB parse f)
    (cs cs' : List (Box C)) (a : Nat) (hab : AllBytes cs) (h : modifyFirst ty parse f cs = .ok (cs', a)) :
    4 * a ≤ total cs := by
  induction cs generalizing cs' with
  | nil => simp [modifyFirst] at h
  | cons b bs ih =>
    unfold modifyFirst at h
    have hb := hab b (List.mem_cons_self ..)
    obtain ⟨raw, hraw⟩ := hb
    split at h
    · simp only [bind] at h
      cases hm : b.data.modify parse f with
      | ok r =>
        obtain ⟨d, a'⟩ := r
        simp only [hm, pure, PureRes.ok.injEq, Prod.mk.injEq] at h
        obtain ⟨_, rfl⟩ := h
        rw [hraw] at hm
        have := modify_bytes_weight hw raw d a' hm
        simp only [total, List.map_cons, List.sum_cons, rawLen, hraw]
        omega
      | err e => simp [hm] at h
      | panic s => simp [hm] at h
    · simp only [bind] at h
      cases hm : modifyFirst ty parse f bs with
      | ok r =>
        obtain ⟨bs', a'⟩ := r
        simp only [hm, pure, PureRes.ok.injEq, Prod.mk.injEq] at h
        obtain ⟨_, rfl⟩ := h
        have := ih bs' (fun x hx => hab x (List.mem_cons_of_mem _ hx)) hm
        simp only [total, List.map_cons, List.sum_cons] at this ⊢
        omega
      | err e => simp [hm] at h
      | panic s => simp [hm] at h

theorem getOneMut_weight {C} (ty : BoxType) {parse : Bytes → PureRes C} {f : C → PureRes (C × Nat)} (hw : WB parse f)
    (cs cs' : List (Box C)) (a : Nat) (hab : AllBytes cs) (h : getOneMut ty parse f cs = .ok (cs', a)) :
    4 * a ≤ total cs := by
  unfold getOneMut at h
  split at h
  · exact modifyFirst_weight ty hw cs cs' a hab h
  · cases h

theorem forEachOfType_weight {C} (ty : BoxType) {parse : Bytes → PureRes C} {f : C → PureRes (C × Nat)} (hw : WB parse f)
    (cs cs' : List (Box C)) (as : List Nat) (hab : AllBytes cs) (h : forEachOfType ty parse f cs = .ok (cs', as)) :
    4 * as.sum ≤ total cs := by
  induction cs generalizing cs' as with
  | nil => simp only [forEachOfType, PureRes.ok.injEq, Prod.mk.injEq] at h; rw [← h.2]; simp [total]
  | cons b bs ih =>
    unfold forEachOfType at h
    obtain ⟨raw, hraw⟩ := hab b (List.mem_cons_self ..)
    have habs : AllBytes bs := fun x hx => hab x (List.mem_cons_of_mem _ hx)
    split at h
    · simp only [bind] at h
      cases hm : b.data.modify parse f with
      | ok r =>
        obtain ⟨d, a'⟩ := r
        simp only [hm] at h
        cases hr : forEachOfType ty parse f bs with
        | ok r2 =>
          obtain ⟨bs', as'⟩ := r2
          simp only [hr, pure, PureRes.ok.injEq, Prod.mk.injEq] at h
          obtain ⟨_, rfl⟩ := h
          rw [hraw] at hm
          have h1 := modify_bytes_weight hw raw d a' hm
          have h2 := ih bs' as' habs hr
          simp only [total, List.map_cons, List.sum_cons, rawLen, hraw] at h2 ⊢
          omega
        | err e => simp [hr] at h
        | panic s => simp [hr] at h
      | err e => simp [hm] at h
      | panic s => simp [hm] at h
    · simp only [bind] at h
      cases hr : forEachOfType ty parse f bs with
      | ok r2 =>
        obtain ⟨bs', as'⟩ := r2
        simp only [hr, pure, PureRes.ok.injEq, Prod.mk.injEq] at h
        obtain ⟨_, rfl⟩ := h
        have h2 := ih bs' as' habs hr
        simp only [total, List.map_cons, List.sum_cons] at h2 ⊢
        omega
      | err e => simp [hr] at h
      | panic s => simp [hr] at h

/-- a container parsed from `bs` whose accessor pays out of the children's bytes pays out of `bs` -/
theorem wb_container {C} {g : List (Box C) → PureRes (List (Box C) × Nat)}
    (hg : ∀ cs cs' a, AllBytes cs → g cs = .ok (cs', a) → 4 * a ≤ total cs) : WB (parseContainer (C := C)) g := by
  intro bs c c' a hp hf
  obtain ⟨hab, ht⟩ := parseBoxes_weight _ bs c hp
  have := hg c c' a hab hf
  omega

def countOf (co : Co) : PureRes (Co × Nat) := .ok (co, co.count)

theorem wb_co (w : Nat) (hw : w = 4 ∨ w = 8) : WB (parseCo w) countOf := by
  intro bs c c' a hp hf
  simp only [countOf, PureRes.ok.injEq, Prod.mk.injEq] at hf
  obtain ⟨_, rfl⟩ := hf
  unfold parseCo at hp
  split at hp; · cases hp
  split at hp; · cases hp
  split at hp; · cases hp
  split at hp; · cases hp
  dsimp only at hp
  split at hp; · cases hp
  split at hp; · cases hp
  split at hp; · cases hp
  simp only [PureRes.ok.injEq] at hp
  subst hp
  dsimp only
  rename_i h1 h2 h3 h4 h5 h6 h7
  rcases hw with rfl | rfl <;> omega

theorem coMutStbl_weight (cs cs' : L1) (a : Nat) (hab : AllBytes cs) (h : coMutStbl countOf cs = .ok (cs', a)) :
    4 * a ≤ total cs := by
  unfold coMutStbl at h
  dsimp only at h
  split at h
  · cases h
  · split at h
    · exact getOneMut_weight _ (wb_co 4 (Or.inl rfl)) cs cs' a hab h
    · exact getOneMut_weight _ (wb_co 8 (Or.inr rfl)) cs cs' a hab h

theorem coMutTrak_weight (cs cs' : L4) (a : Nat) (hab : AllBytes cs) (h : coMutTrak countOf cs = .ok (cs', a)) :
    4 * a ≤ total cs := by
  unfold coMutTrak at h
  refine getOneMut_weight _ (wb_container ?_) cs cs' a hab h
  intro l3 l3' a3 hab3 h3
  refine getOneMut_weight _ (wb_container ?_) l3 l3' a3 hab3 h3
  intro l2 l2' a2 hab2 h2
  refine getOneMut_weight _ (wb_container ?_) l2 l2' a2 hab2 h2
  intro l1 l1' a1 hab1 h1
  exact coMutStbl_weight l1 l1' a1 hab1 h1

/-- the chunk counts collected by `validate` are paid for by the moov payload -/
theorem validate_counts_weight (payload : Bytes) (d' : Data L5) (counts : List Nat)
    (h : (Data.bytes payload : Data L5).modify parseMoov (forTraks countOf) = .ok (d', counts)) :
    4 * counts.sum ≤ payload.length := by
  simp only [Data.modify, bind] at h
  cases hp : parseMoov payload with
  | ok cs =>
    simp only [hp] at h
    cases hf : forTraks countOf cs with
    | ok r =>
      obtain ⟨cs', as⟩ := r
      simp only [hf, pure, PureRes.ok.injEq, Prod.mk.injEq] at h
      obtain ⟨_, rfl⟩ := h
      -- parseMoov = parseContainer + a check
      have hpc : parseContainer (C := L4) payload = .ok cs := by
        simp only [parseMoov, bind] at hp
        cases hq : (parseContainer payload : PureRes L5) with
        | ok cs0 =>
          simp only [hq] at hp
          split at hp
          · simp only [pure, PureRes.ok.injEq] at hp; rw [hp]
          · cases hp
        | err e => simp [hq] at hp
        | panic s => simp [hq] at hp
      obtain ⟨hab, ht⟩ := parseBoxes_weight _ payload cs hpc
      unfold forTraks at hf
      have := forEachOfType_weight TRAK (wb_container coMutTrak_weight) cs cs' as hab hf
      omega
    | err e => simp [hf] at h
    | panic s => simp [hf] at h
  | err e => simp [hp] at h
  | panic s => simp [hp] at h

theorem sumU32_ok (acc : Nat) (cs : List Nat) (h : acc + cs.sum ≤ u32Max) : sumU32 acc cs = .ok (acc + cs.sum) := by
  induction cs generalizing acc with
  | nil => simp [sumU32]
  | cons c cs ih =>
    simp only [List.sum_cons] at h
    have h1 : acc + c ≤ u32Max := by omega
    simp only [sumU32, h1, if_true, List.sum_cons]
    rw [ih (acc + c) (by omega)]
    congr 1; omega

/-- the eager moov validation never panics when the payload is at most 4·(2^32−1) bytes (any limit up to ~16 GiB) -/
theorem validateMoov_np (payload : Bytes) (hp : payload.length ≤ 4 * u32Max) : NP (validateMoov (.bytes payload)) := by
  unfold validateMoov
  simp only [bind]
  cases hm : (Data.bytes payload : Data L5).modify parseMoov (forTraks fun co => .ok (co, co.count)) with
  | panic s =>
    exact absurd hm (modify_np parseMoov_np (forTraks_np fun c => NP.ok _) _ s)
  | err e => exact NP.err e
  | ok r =>
    obtain ⟨d', counts⟩ := r
    dsimp only
    have hw := validate_counts_weight payload d' counts hm
    cases counts with
    | nil => exact NP.ok _
    | cons c cs =>
      dsimp only
      simp only [List.sum_cons] at hw
      rw [sumU32_ok c cs (by omega)]
      exact NP.ok _

end MediaSan.Mp4
