/-
  The sub-image loop over the buffered reader (guarded refill + buffer-only accessors, Vp8l/BufLoop.lean) equals the
  loop of the validator model over the whole byte string (`pixelLoop`, Vp8l/Lossless.lean): same result, same absolute
  bit position, same error - for every capacity that holds the read-ahead, every input and every buffer state.

  Two relations: `RelW` inside an iteration (nothing is dropped from the buffer; a window of `k` secured bits shrinks by
  each read's cost), `RelL` across iterations (each one starts with its own guarded refill).
-/
import MediaSan.Vp8l.BufLoop
import MediaSan.Lemmas.BufOnly
import MediaSan.Lemmas.BitBridge
namespace MediaSan.Vp8l
open MediaSan MediaSan.Generated

def BA (l : Bytes) : ByteArray := ByteArray.mk l.toArray

/-- inside an iteration: from every state with `k` secured bits the buffered action does what the whole-string action
    does, spending at most `c` of them -/
def RelW {α} (orig : Bytes) (d k c : Nat) (m : BR α) (m' : BB α) : Prop :=
  ∀ s, Abs s orig d → Window s k →
    match m' s with
    | .ok (a, s') => m (BA orig) (s.absPos d) = .ok (a, s'.absPos d) ∧ Abs s' orig d ∧ Window s' (k - c) ∧ s'.cap = s.cap
    | .error e => m (BA orig) (s.absPos d) = .error e

/-- across iterations (and for the tail of an iteration): bytes may be dropped at refills -/
def RelWL {α} (orig : Bytes) (d k r : Nat) (m : BR α) (m' : BB α) : Prop :=
  ∀ s, Abs s orig d → Window s k → r + 7 ≤ 8 * s.cap →
    match m' s with
    | .ok (a, s') => ∃ d', m (BA orig) (s.absPos d) = .ok (a, s'.absPos d') ∧ Abs s' orig d' ∧ s'.cap = s.cap
    | .error e => m (BA orig) (s.absPos d) = .error e

def RelL {α} (orig : Bytes) (r : Nat) (m : BR α) (m' : BB α) : Prop :=
  ∀ s d, Abs s orig d → r + 7 ≤ 8 * s.cap →
    match m' s with
    | .ok (a, s') => ∃ d', m (BA orig) (s.absPos d) = .ok (a, s'.absPos d') ∧ Abs s' orig d' ∧ s'.cap = s.cap
    | .error e => m (BA orig) (s.absPos d) = .error e

theorem RelL.toWL {α} {orig : Bytes} {d k r : Nat} {m : BR α} {m' : BB α} (h : RelL orig r m m') :
    RelWL orig d k r m m' := fun s ha _ hc => h s d ha hc

theorem RelW.pure {α} (orig : Bytes) (d k : Nat) (a : α) : RelW orig d k 0 (BR.pure a) (BB.pure a) := by
  intro s ha hw
  exact ⟨rfl, ha, by simpa using hw, rfl⟩

theorem RelW.fail {α} (orig : Bytes) (d k c : Nat) (e : LErr) : RelW orig d k c (BR.fail e : BR α) (BB.fail e) := by
  intro s _ _; rfl

theorem RelW.weaken {α} {orig : Bytes} {d k c c' : Nat} {m : BR α} {m' : BB α} (h : RelW orig d k c m m')
    (hc : c ≤ c') : RelW orig d k c' m m' := by
  intro s ha hw
  have := h s ha hw
  cases hr : m' s with
  | error e => rw [hr] at this; exact this
  | ok x =>
    obtain ⟨a, s'⟩ := x
    rw [hr] at this
    exact ⟨this.1, this.2.1, this.2.2.1.mono (by omega), this.2.2.2⟩

theorem RelW.bind {α β} {orig : Bytes} {d k c1 c2 : Nat} {m : BR α} {m' : BB α} {f : α → BR β} {f' : α → BB β}
    (hm : RelW orig d k c1 m m') (hf : ∀ a, RelW orig d (k - c1) c2 (f a) (f' a)) :
    RelW orig d k (c1 + c2) (m.bind f) (m'.bind f') := by
  intro s ha hw
  have h1 := hm s ha hw
  simp only [BB.bind, BR.bind_apply]
  cases hr : m' s with
  | error e => rw [hr] at h1; simp only at h1 ⊢; rw [h1]
  | ok x =>
    obtain ⟨a, s1⟩ := x
    rw [hr] at h1
    simp only at h1 ⊢
    obtain ⟨e1, ha1, hw1, hc1⟩ := h1
    rw [e1]
    simp only
    have h2 := hf a s1 ha1 hw1
    cases hr2 : f' a s1 with
    | error e => rw [hr2] at h2; exact h2
    | ok y =>
      obtain ⟨b, s2⟩ := y
      rw [hr2] at h2
      simp only at h2 ⊢
      refine ⟨h2.1, h2.2.1, ?_, by rw [h2.2.2.2, hc1]⟩
      have := h2.2.2.1
      rwa [Nat.sub_sub] at this

/-- the tail of an iteration: a windowed prefix followed by anything that starts over -/
theorem RelWL.bind {α β} {orig : Bytes} {d k c r : Nat} {m : BR α} {m' : BB α} {f : α → BR β} {f' : α → BB β}
    (hm : RelW orig d k c m m') (hf : ∀ a, RelWL orig d (k - c) r (f a) (f' a)) :
    RelWL orig d k r (m.bind f) (m'.bind f') := by
  intro s ha hw hcap
  have h1 := hm s ha hw
  simp only [BB.bind, BR.bind_apply]
  cases hr : m' s with
  | error e => rw [hr] at h1; simp only at h1 ⊢; rw [h1]
  | ok x =>
    obtain ⟨a, s1⟩ := x
    rw [hr] at h1
    simp only at h1 ⊢
    obtain ⟨e1, ha1, hw1, hc1⟩ := h1
    rw [e1]
    simp only
    have h2 := hf a s1 ha1 hw1 (by rw [hc1]; exact hcap)
    cases hr2 : f' a s1 with
    | error e => rw [hr2] at h2; exact h2
    | ok y =>
      obtain ⟨b, s2⟩ := y
      rw [hr2] at h2
      simp only at h2 ⊢
      obtain ⟨d', e2, ha2, hc2⟩ := h2
      exact ⟨d', e2, ha2, by rw [hc2, hc1]⟩

theorem RelW.sym (orig : Bytes) (d k : Nat) (c : Code) (hc : c.tree.complete = true) (hh : c.tree.height ≤ c.longest)
    (hk : c.longest ≤ k) : RelW orig d k c.longest (readSym c) (bbSym c) := by
  intro s ha hw
  have key := bufStep_refines s orig d ha (.sym c) hh k hk hw
  simp only [BitBuf.bufStep] at key
  simp only [bbSym, BA]
  rw [readSym_eq_idealStep orig c hc]
  cases hr : s.bufSym c with
  | none => rw [hr] at key; simp only at key ⊢; rw [key]
  | some x =>
    obtain ⟨v, s'⟩ := x
    rw [hr] at key
    simp only at key ⊢
    obtain ⟨e1, ha1, hw1, hc1⟩ := key
    rw [e1]
    exact ⟨rfl, ha1, hw1, hc1⟩

theorem RelW.bits (orig : Bytes) (d k n : Nat) (hk : n ≤ k) : RelW orig d k n (readBits n) (bbBits n) := by
  intro s ha hw
  have key := bufStep_refines s orig d ha (.read n) trivial k hk hw
  simp only [BitBuf.bufStep] at key
  simp only [bbBits, BA]
  rw [readBits_eq_idealStep orig n]
  cases hr : s.bufRead n with
  | none => rw [hr] at key; simp only at key ⊢; rw [key]
  | some x =>
    obtain ⟨v, s'⟩ := x
    rw [hr] at key
    simp only at key ⊢
    obtain ⟨e1, ha1, hw1, hc1⟩ := key
    rw [e1]
    exact ⟨rfl, ha1, hw1, hc1⟩

theorem RelW.ensure (orig : Bytes) (d k : Nat) (c : Bool) (e : LErr) : RelW orig d k 0 (ensure c e) (bbEnsure c e) := by
  unfold Vp8l.ensure bbEnsure
  cases c
  · exact RelW.fail orig d k 0 e
  · exact RelW.pure orig d k ()

theorem RelW.lz77 (orig : Bytes) (d k p : Nat) (hk : (lz77MaxSymbol - 2) / 2 ≤ k) :
    RelW orig d k ((lz77MaxSymbol - 2) / 2) (readLz77 p) (bbLz77 p) := by
  unfold readLz77 bbLz77
  split
  · exact (RelW.pure orig d k _).weaken (Nat.zero_le _)
  · split
    · rename_i h1 h2
      have hb : (p - 2) / 2 ≤ (lz77MaxSymbol - 2) / 2 := by
        have e : lz77MaxSymbol = 39 := rfl
        rw [e] at h2 ⊢
        omega
      simp only [BR.bind_eq, BR.pure_eq, BB.bind_eq, BB.pure_eq]
      have := RelW.bind (f := fun extra => BR.pure (min (1 + ((2 + p % 2) * 2 ^ ((p - 2) / 2) + extra)) u32Max))
        (f' := fun extra => BB.pure (min (1 + ((2 + p % 2) * 2 ^ ((p - 2) / 2) + extra)) u32Max))
        (RelW.bits orig d k ((p - 2) / 2) (by omega)) (fun a => RelW.pure orig d _ _)
      exact this.weaken (by omega)
    · exact RelW.fail orig d k _ _

/-- what the loop needs of the five codes: finalized tries no deeper than `longest_code_len` -/
def Group.ready (g : Group) : Prop :=
  (g.green.tree.complete = true ∧ g.green.tree.height ≤ g.green.longest) ∧
  (g.red.tree.complete = true ∧ g.red.tree.height ≤ g.red.longest) ∧
  (g.blue.tree.complete = true ∧ g.blue.tree.height ≤ g.blue.longest) ∧
  (g.alpha.tree.complete = true ∧ g.alpha.tree.height ≤ g.alpha.longest) ∧
  (g.dist.tree.complete = true ∧ g.dist.tree.height ≤ g.dist.longest)

theorem RelL.pure {α} (orig : Bytes) (r : Nat) (a : α) : RelL orig r (BR.pure a) (BB.pure a) := by
  intro s d ha _
  exact ⟨d, rfl, ha, rfl⟩

/-- the head of an iteration: the guarded refill secures the window the body needs -/
theorem RelL.fill {α} {orig : Bytes} {r : Nat} {m : BR α} {m' : BB α} (h : ∀ d, RelWL orig d r r m m') :
    RelL orig r m ((bbGuardedFill r).bind (fun _ => m')) := by
  intro s d ha hcap
  obtain ⟨d1, ha1, hp1, hc1, hw1⟩ := guardedFill_window s orig d ha r hcap
  simp only [BB.bind, bbGuardedFill]
  rw [← hp1]
  have := h d1 (s.guardedFill r) ha1 hw1 (by rw [hc1]; exact hcap)
  cases hr : m' (s.guardedFill r) with
  | error err => rw [hr] at this; exact this
  | ok x =>
    obtain ⟨a, s'⟩ := x
    rw [hr] at this
    obtain ⟨d', e2, ha2, hc2⟩ := this
    exact ⟨d', e2, ha2, by rw [hc2, hc1]⟩

set_option maxRecDepth 8000 in
/-- **the buffered sub-image loop is the model's loop** -/
theorem pixelLoop_refines (g : Group) (hg : g.ready) (cache : Option Nat) (width total : Nat) (chk : Nat → Bool)
    (orig : Bytes) (fuel idx acc : Nat) :
    RelL orig (readaheadBits g) (pixelLoop g cache width total chk fuel idx acc)
      (pixelLoopBuf g cache width total chk fuel idx acc) := by
  obtain ⟨⟨c1, h1⟩, ⟨c2, h2⟩, ⟨c3, h3⟩, ⟨c4, h4⟩, ⟨c5, h5⟩⟩ := hg
  have e : lz77MaxSymbol = 39 := rfl
  induction fuel generalizing idx acc with
  | zero =>
    simp only [pixelLoopBuf, pixelLoop]
    exact RelL.pure orig _ acc
  | succ fuel ih =>
    simp only [pixelLoopBuf, pixelLoop]
    by_cases hi : idx ≥ total
    · simp only [hi, if_true]
      exact RelL.pure orig _ acc
    · simp only [hi, if_false, BB.bind_eq, BR.bind_eq]
      apply RelL.fill
      intro d1
      apply RelWL.bind (RelW.sym orig d1 _ g.green c1 h1 (by simp only [readaheadBits]; omega))
      intro sym
      split
      · apply RelWL.bind (RelW.sym orig d1 _ g.red c2 h2 (by simp only [readaheadBits]; omega))
        intro red
        apply RelWL.bind (RelW.sym orig d1 _ g.blue c3 h3 (by simp only [readaheadBits]; omega))
        intro blue
        apply RelWL.bind (RelW.sym orig d1 _ g.alpha c4 h4 (by simp only [readaheadBits]; omega))
        intro alpha
        apply RelWL.bind (RelW.ensure orig d1 _ _ _)
        intro _
        exact (ih _ _).toWL
      · split
        · refine RelWL.bind (RelW.lz77 orig d1 (readaheadBits g - g.green.longest) (sym - 256) ?_) ?_
          · simp only [readaheadBits, e]; omega
          intro len
          refine RelWL.bind (RelW.sym orig d1 _ g.dist c5 h5 ?_) ?_
          · simp only [readaheadBits, e]; omega
          intro distSym
          refine RelWL.bind (RelW.lz77 orig d1
            (readaheadBits g - g.green.longest - (lz77MaxSymbol - 2) / 2 - g.dist.longest) distSym ?_) ?_
          · simp only [readaheadBits, e]; omega
          intro distCode
          apply RelWL.bind (RelW.ensure orig d1 _ _ _)
          intro _
          apply RelWL.bind (RelW.ensure orig d1 _ _ _)
          intro _
          exact (ih _ _).toWL
        · apply RelWL.bind (RelW.ensure orig d1 _ _ _)
          intro _
          exact (ih _ _).toWL

end MediaSan.Vp8l
