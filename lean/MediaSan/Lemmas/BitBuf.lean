import MediaSan.Vp8l.BitBuf
namespace MediaSan.Vp8l
open MediaSan

theorem bitAtL_drop (l : Bytes) (d i : Nat) : bitAtL (l.drop d) i = bitAtL l (8 * d + i) := by
  unfold bitAtL
  have h1 : (8 * d + i) / 8 = d + i / 8 := by omega
  have h2 : (8 * d + i) % 8 = i % 8 := by omega
  rw [h1, h2, List.getElem?_drop]

theorem bitAtL_append_left (a b : Bytes) (i : Nat) (h : i / 8 < a.length) : bitAtL (a ++ b) i = bitAtL a i := by
  unfold bitAtL
  rw [List.getElem?_append_left h]

theorem bitAtL_none_of_ge (a : Bytes) (i : Nat) (h : a.length ≤ i / 8) : bitAtL a i = none := by
  unfold bitAtL
  rw [List.getElem?_eq_none h]

/-- the window lemma: reading `n` bits at offset `p` of a buffer that is a window of the original stream gives
    what reading the original at the absolute position gives — provided the read stays inside the buffer, or the
    buffer already holds everything that is left -/
theorem bufReadAux_window (orig buf rest : Bytes) (d : Nat) (hw : orig.drop d = buf ++ rest)
    (n k acc p : Nat) (h : p + n ≤ 8 * buf.length ∨ rest = []) :
    bufReadAux buf n k acc p = bufReadAux orig n k acc (8 * d + p) := by
  induction n generalizing k acc p with
  | zero => rfl
  | succ n ih =>
    simp only [bufReadAux]
    have hb : bitAtL buf p = bitAtL orig (8 * d + p) := by
      rw [← bitAtL_drop, hw]
      rcases h with h1 | h2
      · exact (bitAtL_append_left buf rest p (by omega)).symm
      · subst h2; simp
    rw [hb]
    cases bitAtL orig (8 * d + p) with
    | none => rfl
    | some v =>
      have : 8 * d + p + 1 = 8 * d + (p + 1) := by omega
      rw [this]
      apply ih
      rcases h with h1 | h2
      · left; omega
      · right; exact h2

theorem bitAtL_some_lt (l : Bytes) (i : Nat) (v : Bool) (h : bitAtL l i = some v) : i / 8 < l.length := by
  unfold bitAtL at h
  cases hg : l[i / 8]? with
  | none => simp [hg] at h
  | some b =>
    have := List.getElem?_eq_some_iff.mp hg
    exact this.1

/-- a successful buffer read stayed inside the buffer -/
theorem bufReadAux_some_bound (l : Bytes) (n k acc p v : Nat) (hp : p ≤ 8 * l.length)
    (h : bufReadAux l n k acc p = some v) : p + n ≤ 8 * l.length := by
  induction n generalizing k acc p with
  | zero => simpa using hp
  | succ n ih =>
    simp only [bufReadAux] at h
    cases hb : bitAtL l p with
    | none => simp [hb] at h
    | some b =>
      simp only [hb] at h
      have hlt := bitAtL_some_lt l p b hb
      have := ih _ _ (p + 1) (by omega) h
      omega

/-- the abstraction relation between a buffered reader and the whole stream: `d` bytes have been dropped -/
structure Abs (s : BitBuf) (orig : Bytes) (d : Nat) : Prop where
  window : orig.drop d = s.buf ++ s.rest
  dead : s.live = false → s.rest = []
  inside : s.bitPos ≤ 8 * s.buf.length

/-- absolute bit position -/
def BitBuf.absPos (s : BitBuf) (d : Nat) : Nat := 8 * d + s.bitPos

theorem abs_new (cap : Nat) (input : Bytes) : Abs (BitBuf.new cap input) input 0 :=
  ⟨by simp [BitBuf.new], by simp [BitBuf.new], by simp [BitBuf.new]⟩

/-- `fill_buf` keeps the abstraction and the absolute position; afterwards the buffer holds at least
    8·cap − 7 bits, or everything that is left of the input (provided the buffer had room: the guard
    `buf_bits() < n` with n ≤ 8·cap − 8 ensures it). -/
theorem fill_abs (s : BitBuf) (orig : Bytes) (d : Nat) (h : Abs s orig d)
    (hroom : s.buf.length - s.bitPos / 8 < s.cap) :
    ∃ d', Abs s.fill orig d' ∧ s.fill.absPos d' = s.absPos d ∧ s.fill.cap = s.cap ∧
      (8 * s.cap ≤ s.fill.bufBits + 7 ∨ s.fill.rest = []) := by
  obtain ⟨hw, hd, hi⟩ := h
  by_cases hl : s.live = false
  · have hr := hd hl
    have hf : s.fill = s := by simp [BitBuf.fill, hl]
    rw [hf]
    exact ⟨d, ⟨hw, hd, hi⟩, rfl, rfl, Or.inr hr⟩
  · have hlive : s.live = true := by cases h : s.live <;> simp_all
    have hbp : s.bitPos / 8 ≤ s.buf.length := by omega
    have hkl : (s.buf.drop (s.bitPos / 8)).length = s.buf.length - s.bitPos / 8 := by simp
    refine ⟨d + s.bitPos / 8, ⟨?_, ?_, ?_⟩, ?_, ?_, ?_⟩
    · -- window
      simp only [BitBuf.fill, hlive, Bool.not_true, Bool.false_eq_true, if_false]
      rw [← List.drop_drop, hw, List.drop_append_of_le_length hbp, List.append_assoc, List.take_append_drop]
    · -- dead
      simp only [BitBuf.fill, hlive, Bool.not_true, Bool.false_eq_true, if_false]
      intro hdead
      simp only [Bool.not_eq_false', beq_iff_eq, List.length_append, List.length_take, hkl] at hdead
      have : min (s.cap - (s.buf.length - s.bitPos / 8)) s.rest.length = 0 := by omega
      have hz : s.rest.length = 0 := by
        rcases Nat.min_eq_zero_iff.mp this with h1 | h2
        · omega
        · exact h2
      have : s.rest = [] := List.length_eq_zero_iff.mp hz
      simp [this]
    · -- inside
      simp only [BitBuf.fill, hlive, Bool.not_true, Bool.false_eq_true, if_false, List.length_append, hkl]
      by_cases h0 : s.bitPos % 8 = 0
      · omega
      · have : s.bitPos / 8 < s.buf.length := by omega
        omega
    · simp only [BitBuf.absPos, BitBuf.fill, hlive, Bool.not_true, Bool.false_eq_true, if_false]
      omega
    · simp [BitBuf.fill, hlive]
    · simp only [BitBuf.fill, hlive, Bool.not_true, Bool.false_eq_true, if_false, BitBuf.bufBits,
        List.length_append, List.length_take, hkl]
      by_cases hre : s.cap - (s.buf.length - s.bitPos / 8) ≤ s.rest.length
      · left
        rw [Nat.min_eq_left hre]
        omega
      · right
        have : s.rest.length ≤ s.cap - (s.buf.length - s.bitPos / 8) := by omega
        exact List.drop_eq_nil_of_le this

/-- C19, fixed-width reads: for every capacity with n + 8 ≤ 8·cap (capacity ≥ 5 for n ≤ 32), `read(n)` through
    the buffer returns exactly what reading `n` bits of the whole byte string at the absolute position returns —
    including end-of-data, which is reported iff the whole string has fewer than `n` bits left — and the
    abstraction is re-established with the position advanced by `n`. -/
theorem read_refines (s : BitBuf) (orig : Bytes) (d : Nat) (h : Abs s orig d) (n : Nat)
    (hcap : n + 8 ≤ 8 * s.cap) :
    match s.read n with
    | some (v, s') =>
        bufReadAux orig n 0 0 (s.absPos d) = some v ∧
        ∃ d', Abs s' orig d' ∧ s'.absPos d' = s.absPos d + n ∧ s'.cap = s.cap
    | none => bufReadAux orig n 0 0 (s.absPos d) = none := by
  -- the state the read is served from, its abstraction, and "enough bits or everything"
  have key : ∃ s1 d1, Abs s1 orig d1 ∧ s1.absPos d1 = s.absPos d ∧ s1.cap = s.cap ∧
      (s1.bitPos + n ≤ 8 * s1.buf.length ∨ s1.rest = []) ∧ s.read n = s1.bufRead n := by
    by_cases hb : s.bufBits < n
    · have hroom : s.buf.length - s.bitPos / 8 < s.cap := by
        simp only [BitBuf.bufBits] at hb
        have := h.inside
        omega
      obtain ⟨d', ha, hp, hc, hfull⟩ := fill_abs s orig d h hroom
      refine ⟨s.fill, d', ha, hp, hc, ?_, by simp [BitBuf.read, hb]⟩
      rcases hfull with h1 | h2
      · left
        simp only [BitBuf.bufBits] at h1
        have := ha.inside
        omega
      · right; exact h2
    · refine ⟨s, d, h, rfl, rfl, ?_, by simp [BitBuf.read, hb]⟩
      left
      simp only [BitBuf.bufBits] at hb
      have := h.inside
      omega
  obtain ⟨s1, d1, ha, hp, hc, hen, hrd⟩ := key
  rw [hrd]
  have hwin := bufReadAux_window orig s1.buf s1.rest d1 ha.window n 0 0 s1.bitPos hen
  simp only [BitBuf.absPos] at hp
  simp only [BitBuf.bufRead]
  cases hr : bufReadAux s1.buf n 0 0 s1.bitPos with
  | none =>
    simp only
    show bufReadAux orig n 0 0 (8 * d + s.bitPos) = none
    rw [← hp, ← hwin, hr]
  | some v =>
    simp only
    refine ⟨?_, d1, ⟨ha.window, ha.dead, ?_⟩, ?_, hc⟩
    · show bufReadAux orig n 0 0 (8 * d + s.bitPos) = some v
      rw [← hp, ← hwin, hr]
    · -- the read succeeded, so it stayed inside the buffer
      exact bufReadAux_some_bound s1.buf n 0 0 s1.bitPos v ha.inside hr
    · simp only [BitBuf.absPos]; omega

/-- the window lemma for prefix-coded symbols: positions are reported relative to the buffer -/
theorem bufDecode_window (orig buf rest : Bytes) (d : Nat) (hw : orig.drop d = buf ++ rest)
    (t : HTree) (fuel p : Nat) (h : p + t.height ≤ 8 * buf.length ∨ rest = []) :
    (bufDecode buf t fuel p).map (fun r => (r.1, 8 * d + r.2)) = bufDecode orig t fuel (8 * d + p) := by
  induction t generalizing fuel p with
  | empty => simp [bufDecode]
  | leaf s => simp [bufDecode]
  | node z o ihz iho =>
    cases fuel with
    | zero => simp [bufDecode]
    | succ f =>
      simp only [bufDecode]
      have hb : bitAtL buf p = bitAtL orig (8 * d + p) := by
        rw [← bitAtL_drop, hw]
        rcases h with h1 | h2
        · simp only [HTree.height] at h1
          exact (bitAtL_append_left buf rest p (by omega)).symm
        · subst h2; simp
      rw [hb]
      cases bitAtL orig (8 * d + p) with
      | none => rfl
      | some v =>
        have e : 8 * d + p + 1 = 8 * d + (p + 1) := by omega
        rw [e]
        cases v
        · apply ihz
          rcases h with h1 | h2
          · left; simp only [HTree.height] at h1; omega
          · right; exact h2
        · apply iho
          rcases h with h1 | h2
          · left; simp only [HTree.height] at h1; omega
          · right; exact h2

theorem bufDecode_bound (l : Bytes) (t : HTree) (fuel p s q : Nat) (hp : p ≤ 8 * l.length)
    (h : bufDecode l t fuel p = some (s, q)) : q ≤ 8 * l.length ∧ p ≤ q := by
  induction t generalizing fuel p with
  | empty => simp [bufDecode] at h
  | leaf x => simp only [bufDecode, Option.some.injEq, Prod.mk.injEq] at h; omega
  | node z o ihz iho =>
    cases fuel with
    | zero => simp [bufDecode] at h
    | succ f =>
      simp only [bufDecode] at h
      cases hb : bitAtL l p with
      | none => simp [hb] at h
      | some v =>
        simp only [hb] at h
        have hlt := bitAtL_some_lt l p v hb
        cases v
        · have := ihz f (p + 1) (by omega) h; omega
        · have := iho f (p + 1) (by omega) h; omega

/-- C19, prefix-coded symbols: `read_huffman` through the buffer decodes the same symbol, ending at the same
    absolute position, as decoding from the whole byte string — for every capacity with longest + 8 ≤ 8·cap
    (capacity ≥ 3 for codes of at most 15 bits), given that no code is longer than `longest_code_len`. -/
theorem readSym_refines (s : BitBuf) (orig : Bytes) (d : Nat) (h : Abs s orig d) (c : Code)
    (hh : c.tree.height ≤ c.longest) (hcap : c.longest + 8 ≤ 8 * s.cap) :
    match s.readSym c with
    | some (sym, s') =>
        ∃ d', bufDecode orig c.tree (c.tree.height + 1) (s.absPos d) = some (sym, s'.absPos d') ∧
          Abs s' orig d' ∧ s'.cap = s.cap
    | none => bufDecode orig c.tree (c.tree.height + 1) (s.absPos d) = none := by
  have key : ∃ s1 d1, Abs s1 orig d1 ∧ s1.absPos d1 = s.absPos d ∧ s1.cap = s.cap ∧
      (s1.bitPos + c.tree.height ≤ 8 * s1.buf.length ∨ s1.rest = []) ∧
      s.readSym c = (match bufDecode s1.buf c.tree (c.tree.height + 1) s1.bitPos with
        | some (sym, p) => some (sym, { s1 with bitPos := p })
        | none => none) := by
    by_cases hb : s.bufBits < c.longest
    · have hroom : s.buf.length - s.bitPos / 8 < s.cap := by
        simp only [BitBuf.bufBits] at hb
        have := h.inside
        omega
      obtain ⟨d', ha, hp, hc, hfull⟩ := fill_abs s orig d h hroom
      refine ⟨s.fill, d', ha, hp, hc, ?_, by (simp only [BitBuf.readSym, hb, if_true]; rfl)⟩
      rcases hfull with h1 | h2
      · left
        simp only [BitBuf.bufBits] at h1
        have := ha.inside
        omega
      · right; exact h2
    · refine ⟨s, d, h, rfl, rfl, ?_, by (simp only [BitBuf.readSym, hb, if_false]; rfl)⟩
      left
      simp only [BitBuf.bufBits] at hb
      have := h.inside
      omega
  obtain ⟨s1, d1, ha, hp, hc, hen, hrd⟩ := key
  rw [hrd]
  have hwin := bufDecode_window orig s1.buf s1.rest d1 ha.window c.tree (c.tree.height + 1) s1.bitPos hen
  simp only [BitBuf.absPos] at hp
  cases hr : bufDecode s1.buf c.tree (c.tree.height + 1) s1.bitPos with
  | none =>
    simp only
    show bufDecode orig c.tree (c.tree.height + 1) (8 * d + s.bitPos) = none
    rw [← hp, ← hwin, hr]; rfl
  | some r =>
    obtain ⟨sym, q⟩ := r
    simp only
    obtain ⟨hq1, hq2⟩ := bufDecode_bound s1.buf c.tree _ s1.bitPos sym q ha.inside hr
    refine ⟨d1, ?_, ⟨ha.window, ha.dead, hq1⟩, hc⟩
    show bufDecode orig c.tree (c.tree.height + 1) (8 * d + s.bitPos) = some (sym, 8 * d1 + q)
    rw [← hp, ← hwin, hr]; rfl

end MediaSan.Vp8l
