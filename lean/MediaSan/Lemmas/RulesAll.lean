/-
  C05, soundness: the propositions of `RulesTop` are the Boolean `Rules` of the specification.
-/
import MediaSan.Lemmas.TopRel
namespace MediaSan.Mp4
open MediaSan MediaSan.Spec.Mp4Walk MediaSan.Spec.Mp4Rules

theorem rules_of_top (s : Stream) (c : Cfg) (bs : List TopBox) (hw : top s c = .clean bs) (h : RulesTop s c bs) :
    Rules s c = true := by
  obtain ⟨h1, h2, h3, h4, h5, h6, h7⟩ := h
  unfold Rules
  simp only [hw, Walk.boxes, Walk.isClean, Bool.true_and, Bool.and_eq_true, decide_eq_true_eq, Bool.not_eq_true',
    List.all_eq_true]
  refine ⟨⟨⟨⟨⟨⟨?_, h2⟩, ?_⟩, ?_⟩, ?_⟩, ?_⟩, ?_⟩
  · revert h1
    cases bs.drop (bs.takeWhile (fun b => decide (b.name = (cc 'f' 'r' 'e' 'e') ∨ b.name = (cc 's' 'k' 'i' 'p')))).length with
    | nil => intro h; exact h.elim
    | cons b rest => intro h; simp only [Bool.and_eq_true, decide_eq_true_eq]; exact h
  · intro b hb; exact h3 b hb
  · cases hm : bs.filter (fun b => decide (b.name = (cc 'm' 'o' 'o' 'v'))) with
    | nil => exact absurd hm h4
    | cons x xs => rfl
  · intro m hm; exact h5 m hm
  · cases hm : bs.filter (fun b => decide (b.name = (cc 'm' 'd' 'a' 't'))) with
    | nil => exact absurd hm h6
    | cons x xs => rfl
  · intro m hm
    rw [List.any_eq_true]
    exact ⟨m, h7 m hm, by simp⟩

end MediaSan.Mp4
