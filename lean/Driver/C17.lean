import Driver.Proto
import MediaSan.Generated.WebpCodec
import MediaSan.Spec.WebpLayout
namespace Driver.C17
open MediaSan MediaSan.Webp MediaSan.Generated MediaSan.Spec

def showVals (vs : List Nat) : String := ",".intercalate (vs.map toString)

def parseVals (s : String) : Option (List Nat) :=
  if s.isEmpty then some [] else (s.splitOn ",").mapM String.toNat?

def showRes : Except PrimErr (List Nat × Bytes) → String
  | .ok (vs, _) => "ok:" ++ showVals vs
  | .error .truncated => "err:TruncatedChunk"
  | .error .invalidInput => "err:InvalidInput"
  | .error .panic => "panic"

def findSchema (name : String) : Option Schema := chunkSchemas.find? (·.name == name)

/-- drop the value of `reserved` fields (the implementation's value type has no number for them) -/
def visible (s : Schema) (vs : List Nat) : List Nat :=
  (s.fields.zip vs).filterMap fun (f, v) => match f.2 with | .reserved _ => none | _ => some v

def visibleSpec (name : String) (vs : List Nat) : List Nat :=
  match WebpLayout.layout name with
  | some (fs, _) => (fs.zip vs).filterMap fun (f, v) => match f.kind with | .zero => none | _ => some v
  | none => vs

def handleChunk (kv : KV) : String :=
  match kv.get? "name", kv.hex? "bytes", kv.get? "res", kv.get? "put" with
  | some name, some bytes, some res, some put =>
    let id := s!"{name}:{toHex bytes}"
    match findSchema name with
    | none => s!"ERR {id} unknown-chunk"
    | some s =>
      let m := s.parse bytes
      let mvis : String := match m with
        | .ok (vs, _) => "ok:" ++ showVals (visible s vs)
        | e => showRes e
      let n := WebpLayout.fixedLen name
      let specV := WebpLayout.specParse name bytes
      -- Spec_C17 on the implementation's outputs
      let specFail : Option String :=
        if res == "panic" then
          (if bytes.length ≥ n then some "no-panic" else none)
        else if res.startsWith "ok:" then
          match specV, parseVals (res.drop 3).toString with
          | some sv, some iv =>
            if visibleSpec name sv != iv then some "little-endian-value"
            else if put != toHex (bytes.take n) then some "put-of-parse-reproduces-bytes"
            else if kv.getD "reparse" "eq" != "eq" then some "parse-of-put-returns-value"
            else none
          | none, _ => some "accepted-invalid-payload"
          | _, none => some "unparsable-impl-values"
        else
          -- an error: fine when the layout says reject (or too short); a valid payload must parse
          match specV with
          | some _ => some "rejected-valid-payload"
          | none => none
      match specFail with
      | some w => s!"SPEC {id} which={w} sig={name}:{w} impl={res} implput={put} model={mvis}"
      | none =>
        let mput : String := match m with
          | .ok (vs, _) => toHex (s.put vs)
          | _ => "-"
        if mvis != res then s!"DIFF {id} model={mvis} impl={res}"
        else if res.startsWith "ok:" && mput != put then s!"DIFF {id} modelput={mput} implput={put}"
        else
          let tag := if res.startsWith "ok:" then "ok" else if bytes.length < n then "short" else "rejected"
          s!"OK {id} tags={name},{tag}"
  | _, _, _, _ => "ERR ? missing-field"

def primCodec (ty : String) : Option (IntCodec × Bool) :=
  match webmInts.find? (·.1 == ty) with
  | some (_, c) => some (c, false)
  | none =>
    if ty == "U24" then some (u24Codec, false)
    else if ty == "OneBasedU24" then some (oneBasedU24Codec, true)
    else none

/-- kind=prim: value -> put -> parse  (value given as its unsigned bit pattern) -/
def handlePrim (kv : KV) : String :=
  match kv.get? "ty", kv.nat? "v", kv.hex? "put", kv.nat? "parsed" with
  | some ty, some v, some put, some parsed =>
    let id := s!"{ty}:{v}"
    match primCodec ty with
    | none => s!"ERR {id} unknown-prim"
    | some (c, _) =>
      -- Spec: the bytes written are the little-endian encoding, and parsing them returns the value
      if put != natToLE c.bytes v then s!"SPEC {id} which=put-is-little-endian sig=prim:{ty}:put impl={toHex put}"
      else if parsed != v then s!"SPEC {id} which=parse-of-put-returns-value sig=prim:{ty}:parse-put impl={parsed}"
      else
        let mput := ofNatE c.put c.bytes v
        let mparsed := toNatE c.get mput
        if mput != put then s!"DIFF {id} modelput={toHex mput} implput={toHex put}"
        else if mparsed != parsed then s!"DIFF {id} modelparsed={mparsed} implparsed={parsed}"
        else s!"OK {id} tags=prim,{ty}"
  | _, _, _, _ => "ERR ? missing-field"

/-- kind=primb: bytes -> parse -> put -/
def handlePrimB (kv : KV) : String :=
  match kv.get? "ty", kv.hex? "bytes", kv.nat? "parsed", kv.hex? "put" with
  | some ty, some bytes, some parsed, some put =>
    let id := s!"{ty}:{toHex bytes}"
    match primCodec ty with
    | none => s!"ERR {id} unknown-prim"
    | some (c, oneBased) =>
      let expect := leToNat (bytes.take c.bytes) + (if oneBased then 1 else 0)
      if parsed != expect then s!"SPEC {id} which=parse-is-little-endian sig=prim:{ty}:parse impl={parsed}"
      else if put != bytes.take c.bytes then s!"SPEC {id} which=put-of-parse-reproduces-bytes sig=prim:{ty}:put-parse impl={toHex put}"
      else
        let fty : FieldTy := if oneBased then .oneBased c else .int c
        match parseField fty bytes with
        | .ok (mv, _) =>
          if mv != parsed then s!"DIFF {id} modelparsed={mv} implparsed={parsed}"
          else if putField fty mv != put then s!"DIFF {id} modelput={toHex (putField fty mv)} implput={toHex put}"
          else s!"OK {id} tags=primb,{ty}"
        | .error _ => s!"DIFF {id} model=err impl=ok"
  | _, _, _, _ => "ERR ? missing-field"

/-- kind=primseg: a primitive parsed from a buffer split into two segments at every position must give exactly what
    the contiguous buffer gives (value as re-serialised bytes, or error kind); reserved fields accept zeros only. -/
def handlePrimSeg (kv : KV) : String :=
  match kv.get? "ty", kv.hex? "bytes", kv.get? "whole", kv.get? "segs" with
  | some ty, some bytes, some whole, some segs =>
    let id := s!"seg:{ty}:{toHex bytes}"
    let parts := (segs.splitOn ";").filterMap fun t =>
      match t.splitOn ":" with
      | k :: rest@(_ :: _) => some (k, ":".intercalate rest)
      | _ => none
    -- Spec for the reserved fields (the only primitive with a rejection rule): ok iff every byte is zero
    let resSpec : Option String :=
      if ty.startsWith "reserved" then
        some (if bytes.all (· == 0) then s!"ok:{toHex bytes}" else "err:InvalidInput")
      else none
    match parts.find? (fun x => x.2 != whole) with
    | some (k, r) => s!"SPEC {id} which=segmented-buffer-parses-differently sig=prim:{ty}:segmented split={k} seg={r} whole={whole}"
    | none =>
      match resSpec with
      | some e => if e != whole then s!"SPEC {id} which=reserved-bytes-rule sig=prim:{ty}:reserved impl={whole} spec={e}" else s!"OK {id} tags=primseg,{ty},{if whole.startsWith "ok" then "accepted" else "rejected"}"
      | none =>
        if whole.startsWith "ok:" && whole != s!"ok:{toHex bytes}" then s!"SPEC {id} which=parse-then-put-reproduces-bytes sig=prim:{ty}:seg-roundtrip impl={whole}"
        else s!"OK {id} tags=primseg,{ty},{if whole.startsWith "ok" then "accepted" else "rejected"}"
  | _, _, _, _ => "ERR ? missing-field"

def handle (kv : KV) : String :=
  match kv.get? "kind" with
  | some "chunk" => handleChunk kv
  | some "prim" => handlePrim kv
  | some "primb" => handlePrimB kv
  | some "primseg" => handlePrimSeg kv
  | _ => "ERR ? unknown-kind"

end Driver.C17
