import Driver.Proto
import Driver.Mp4
import Driver.C13
import MediaSan.Async
namespace Driver.C12
open MediaSan MediaSan.Mp4

def parseSched (s : String) : Sched :=
  s.toList.filterMap fun c => if c = '1' then some true else if c = '0' then some false else none

def bigChunk : Nat := 0x7fffffff

/-- the model of the async run: BufReader(32) over the suspended reader; returns (outcome, restoring seek suspended?) -/
def modelAsync (s : Stream) (cfg : Config) (reader : String) (sched : Sched) : String × Bool :=
  match reader with
  | "seek" =>
    let ops := bufOps 32 (asyncSeekRaw s bigChunk)
    let st0 : BufState SeekSt := ⟨⟨0, sched, false⟩, []⟩
    let p := sanitizeP cfg (fuelFor s)
    let out : Outcome PErr Sanitized := match p.run ops st0 with
      | .ok (some r) => .ok r
      | .ok none => .outOfFuel
      | .parseErr e => .parseErr e
      | .ioErr k => .ioErr k
      | .panic m => .panic m
      | .outOfFuel => .outOfFuel
    (Driver.C13.mp4Text out, p.everBad ops (fun b => b.inner.restoreSuspended) st0)
  | r =>
    let kind : SkipKind := if r == "nstrict" then .strict else .seekable
    (Driver.C13.mp4Text (sanitizeWith (bufOps 32 (pendRaw (idealRaw s kind bigChunk))) ⟨(0, sched), []⟩ cfg (fuelFor s)), false)

def handle (kv : KV) : String :=
  match Driver.Mp4.parseStream kv, Driver.Mp4.parseCfg kv, kv.get? "reader", kv.get? "sched", kv.get? "sync", kv.get? "async" with
  | some s, some cfg, some reader, some schedS, some sync, some asy =>
    let id := kv.getD "id" "?"
    let sched := parseSched schedS
    let (m, bad) := modelAsync s cfg reader sched
    let kind : SkipKind := if reader == "nstrict" then .strict else .seekable
    let msync := Driver.C13.mp4Text (MediaSan.Mp4.sanitize s kind cfg)
    if asy == "panic" || asy == "hang" then s!"SPEC {id} which=async-{asy} sig=C12:async-{asy}:{reader} sched={schedS}"
    else if asy != sync then
      -- Spec_C12 (judged on the implementation, before any comparison with the model): the async result equals the sync
      -- result under every schedule.  The one known way to break it is the non-restartable poll_stream_len of
      -- SeekSkipAdapter over AsyncSeek, recognised when the model reproduces both results AND its ghost flag says a
      -- restoring seek was suspended.
      let sig := if bad && m == asy && msync == sync then "C12:seek-adapter-stream-len-restoring-seek-suspended" else s!"C12:async-differs-from-sync:{reader}"
      s!"SPEC {id} which=async-result-depends-on-schedule sig={sig} sync={sync} async={asy} model-async={m} sched={schedS}"
    else if msync != sync then s!"DIFF {id} model-sync={msync} impl-sync={sync}"
    else if m != asy then s!"DIFF {id} model-async={m} impl-async={asy} restore-suspended={bad}"
    else
      let np := (sched.filter (fun b => b)).length
      let pend := kv.getD "pendings" "0"
      s!"OK {id} tags={reader},susp{if np > 3 then "4+" else toString np},{if pend == "0" then "inert" else "bites"},{if bad then "restore-suspended-benign" else "clean"},{if sync.startsWith "ok" then "accepted" else "rejected"}"
  | _, _, _, _, _, _ => "ERR ? missing-field"

end Driver.C12
