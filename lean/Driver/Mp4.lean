import Driver.Proto
import MediaSan.Mp4.Sanitize
import MediaSan.Spec.Mp4Rules
namespace Driver.Mp4
open MediaSan MediaSan.Mp4 MediaSan.Spec

/-- sparse stream: `len=N ext=off:hex;off:hex` (zero elsewhere) -/
structure Ext where
  off : Nat
  bytes : ByteArray

def mkStream (len : Nat) (exts : Array Ext) : Stream :=
  ⟨len, fun i =>
    match exts.find? (fun e => e.off ≤ i ∧ i < e.off + e.bytes.size) with
    | some e => e.bytes.get! (i - e.off)
    | none => 0⟩

def parseExts (s : String) : Option (Array Ext) :=
  if s == "-" || s.isEmpty then some #[] else
  (s.splitOn ";").foldlM (init := #[]) fun acc part =>
    match part.splitOn ":" with
    | [o, h] =>
      match o.toNat?, parseHex h with
      | some off, some bs => some (acc.push ⟨off, ByteArray.mk bs.toArray⟩)
      | _, _ => none
    | _ => none

def parseStream (kv : KV) : Option Stream :=
  match kv.nat? "len", (kv.get? "ext").bind parseExts with
  | some len, some exts => some (mkStream len exts)
  | _, _ => none

/-- metadata as `hex+zN` (N trailing zero bytes run-length encoded) -/
def parseMd (s : String) : Option (Bytes × Nat) :=
  match s.splitOn "+z" with
  | [h] => (parseHex h).map (·, 0)
  | [h, z] => match parseHex h, z.toNat? with
    | some b, some n => some (b, n)
    | _, _ => none
  | _ => none

def stripZeros (b : Bytes) : Bytes × Nat :=
  let r := b.reverse
  let z := (r.takeWhile (· == 0)).length
  ((r.drop z).reverse, z)

/-- canonical form of a metadata value: (prefix without trailing zeros, number of trailing zeros) -/
def canonMd (b : Bytes) (extraZeros : Nat) : Bytes × Nat :=
  let (p, z) := stripZeros b
  if extraZeros = 0 then (p, z) else
  (p, z + extraZeros)

def mdStream (p : Bytes × Nat) : Stream :=
  let arr := ByteArray.mk p.1.toArray
  ⟨arr.size + p.2, fun i => if i < arr.size then arr.get! i else 0⟩

inductive Out where
  | noop (off len : Nat)
  | rewritten (md : Bytes × Nat) (off len : Nat)
  | parseErr (k : String)
  | ioErr (k : String)
  | panic
  | outOfFuel
  deriving BEq

def Out.show : Out → String
  | .noop o l => s!"ok:none:{o},{l}"
  | .rewritten md o l => s!"ok:md:{o},{l}:{toHex md.1}+z{md.2}"
  | .parseErr k => s!"err:parse:{k}"
  | .ioErr k => s!"err:io:{k}"
  | .panic => "panic"
  | .outOfFuel => "out-of-fuel"

def Out.brief : Out → String
  | .noop o l => s!"ok:none:{o},{l}"
  | .rewritten md o l => s!"ok:md:{o},{l}:len={md.1.length + md.2}"
  | o => o.show

/-- the model splits the metadata as body ++ zero padding only at the end; canonicalise -/
def ofModel : Outcome PErr Sanitized → Out
  | .ok ⟨none, sp⟩ => .noop sp.offset sp.len
  | .ok ⟨some md, sp⟩ => .rewritten (canonMd md 0) sp.offset sp.len
  | .parseErr e => .parseErr e.name
  | .ioErr k => .ioErr k.name
  | .panic _ => .panic
  | .outOfFuel => .outOfFuel

/-- impl=ok:none | ok:md | err:parse:K | err:io:K | panic ; span=o,l ; md=hex+zN -/
def parseImpl (kv : KV) (pfx : String := "") : Option Out :=
  match kv.get? (pfx ++ "impl") with
  | none => none
  | some i =>
    let span : Option (Nat × Nat) := match ((kv.getD (pfx ++ "span") "").splitOn ",") with
      | [a, b] => match a.toNat?, b.toNat? with
        | some x, some y => some (x, y)
        | _, _ => none
      | _ => none
    if i == "ok:none" then span.map fun (o, l) => .noop o l
    else if i == "ok:md" then
      match span, (kv.get? (pfx ++ "md")).bind parseMd with
      | some (o, l), some (b, z) => some (.rewritten (canonMd b z) o l)
      | _, _ => none
    else if i.startsWith "err:parse:" then some (.parseErr (i.drop 10).toString)
    else if i.startsWith "err:io:" then some (.ioErr (i.drop 7).toString)
    else if i == "panic" then some .panic
    else none

def parseCfg (kv : KV) : Option Config :=
  match kv.nat? "max" with
  | none => none
  | some m =>
    match kv.get? "cum" with
    | some "none" => some { maxMetadataSize := m, cumulativeMdatBoxSize := none }
    | some c => c.toNat?.map fun t => { maxMetadataSize := m, cumulativeMdatBoxSize := some t }
    | none => some { maxMetadataSize := m, cumulativeMdatBoxSize := none }

def parseKind (kv : KV) : SkipKind :=
  if kv.getD "kind" "seekable" == "strict" then .strict else .seekable

def toObs : Out → Mp4Rules.Obs
  | .noop o l => .noop o l
  | .rewritten md o l => .rewritten (mdStream md) o l
  | .parseErr _ => .err
  | .ioErr _ => .err
  | .panic => .panic
  | .outOfFuel => .panic

def rcfg (c : Config) : Mp4Rules.Cfg := ⟨c.maxMetadataSize, c.cumulativeMdatBoxSize⟩

/-- coarse structural tags of a case, for coverage accounting -/
def tagsOf (s : Stream) (c : Config) (o : Out) : String :=
  let w := Mp4Rules.top s (rcfg c)
  let names := w.boxes.map fun b => String.ofList (b.name.map fun x => Char.ofNat x.toNat)
  let res := match o with
    | .noop _ _ => "noop" | .rewritten md _ _ => (if md.2 > 0 then "padded" else "displaced-or-exact")
    | .parseErr k => "E-" ++ k | .ioErr k => "IO-" ++ k | .panic => "panic" | .outOfFuel => "fuel"
  let nmoov := (names.filter (· == "moov")).length
  let nmdat := (names.filter (· == "mdat")).length
  s!"{res},boxes{min w.boxes.length 9},moov{min nmoov 3},mdat{min nmdat 3}" ++
    (if w.isClean then "" else ",unclean") ++ (if c.cumulativeMdatBoxSize.isSome then ",cum" else "")

structure Case where
  s : Stream
  cfg : Config
  kind : SkipKind
  impl : Out
  model : Out
  id : String

def loadCase (kv : KV) : Except String Case :=
  match parseStream kv, parseCfg kv, parseImpl kv with
  | some s, some cfg, some impl =>
    let kind := parseKind kv
    let model := ofModel (sanitize s kind cfg)
    .ok ⟨s, cfg, kind, impl, model, kv.getD "id" "?"⟩
  | none, _, _ => .error "bad-stream"
  | _, none, _ => .error "bad-config"
  | _, _, none => .error "bad-impl"

def verdict (c : Case) (spec : Option String) (prop : String) (extraTags : String := "") : String :=
  match spec with
  | some w => s!"SPEC {c.id} which={w} sig={prop}:{w} impl={c.impl.brief} model={c.model.brief}"
  | none =>
    if c.impl != c.model then s!"DIFF {c.id} model={c.model.brief} impl={c.impl.brief}"
    else s!"OK {c.id} tags={tagsOf c.s c.cfg c.impl}{extraTags}"

def firstSome (xs : List (Option String)) : Option String := xs.findSome? id

def handle (prop : String) (kv : KV) : String :=
  match loadCase kv with
  | .error e => s!"ERR {kv.getD "id" "?"} {e}"
  | .ok c =>
    let obs := toObs c.impl
    let rc := rcfg c.cfg
    match prop with
    | "C01" => verdict c (Mp4Rules.Spec_C01 c.s rc obs) prop
    | "C03" => verdict c (Mp4Rules.Spec_C03 c.s rc obs) prop
    | "C04" => verdict c (Mp4Rules.Spec_C04 c.s rc obs) prop
    | "C05" =>
      -- "complete boxes" is judged for every reader kind: the property makes no exception
      verdict c (Mp4Rules.Spec_C05 c.s rc obs) prop
    | "C02" =>
      let struc := Mp4Rules.Spec_C02_structure obs
      -- fixpoint: the harness re-sanitized md ++ input[span] and reports the result under re.*
      let fix : Option String := match c.impl with
        | .rewritten md _ len =>
          match parseImpl kv "re." with
          | some (.noop o l) => if o = md.1.length + md.2 ∧ l = len then none else some "resanitize-span-differs"
          | some _ => some "resanitize-not-a-noop"
          | none => some "resanitize-result-missing"
        | _ => none
      verdict c (firstSome [struc, fix]) prop
    | _ => s!"ERR {c.id} unknown-mp4-prop"

end Driver.Mp4
