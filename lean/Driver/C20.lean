import Driver.Proto
import MediaSan.Generated.CheckedAddSigned
namespace Driver.C20
open MediaSan.Generated

/-- signed interpretation of a decimal (possibly negative) at width w, as the two's-complement bit pattern -/
def encodeSigned (w : Nat) (r : Int) : Nat := (r % (2 ^ w : Nat)).toNat

def showOpt : Option Nat → String
  | none => "none"
  | some v => toString v

/-- Spec_C20 evaluated on an output (impl's or the model's): integer arithmetic only. -/
def spec (w : Nat) (l : Nat) (r : Int) (out : Option Nat) : Bool :=
  let s : Int := l + r
  match out with
  | some x => decide (0 ≤ s ∧ s < (2 : Int) ^ w ∧ (x : Int) = s)
  | none => decide (s < 0 ∨ (2 : Int) ^ w ≤ s)

def model (w : Nat) (l : Nat) (r : Int) : Option Nat :=
  (checkedAddSigned (BitVec.ofNat w l) (BitVec.ofNat w (encodeSigned w r))).map (·.toNat)

def handle (kv : KV) : String :=
  match kv.nat? "w", kv.nat? "l", kv.int? "r", kv.get? "impl" with
  | some w, some l, some r, some impl =>
    let site := (kv.get? "site").getD ""
    let id := if site == "" then s!"w={w},l={l},r={r}" else s!"w={w},l={l},r={r},site={site}"
    let implOut : Option (Option Nat) :=
      if impl == "none" then some none else (impl.toNat?).map some
    match implOut with
    | none => s!"ERR {id} bad-impl-field"
    | some io =>
      let m := model w l r
      if !spec w l r io then s!"SPEC {id} which=exact impl={showOpt io} model={showOpt m}"
      else if m != io then s!"DIFF {id} model={showOpt m} impl={showOpt io}"
      else s!"OK {id} tags={if io.isSome then "some" else "none"}{if site == "" then "" else ",site"}"
  | _, _, _, _ => "ERR ? missing-field"

end Driver.C20
