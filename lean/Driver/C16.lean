import Driver.Proto
import MediaSan.Mp4.Sanitize
namespace Driver.C16
open MediaSan MediaSan.Mp4

def typeText : BoxType → String
  | .fourcc b => "f" ++ toHex b
  | .uuid u => "u" ++ toHex u

def parseType (s : String) : Option BoxType :=
  if s.startsWith "f" then (parseHex (s.drop 1).toString).map .fourcc
  else if s.startsWith "u" then (parseHex (s.drop 1).toString).map .uuid
  else none

def hdrText (h : BoxHeader) : String :=
  let size := match h.sz.toNat? with | none => "eof" | some s => toString s
  let data := match h.dataSize with
    | .ok none => "eof" | .ok (some n) => toString n | .error _ => "err"
  s!"{typeText h.ty}:{size}:{data}:{h.encodedLen}"

def handleHdr (kv : KV) : String :=
  match kv.hex? "bytes", kv.get? "res" with
  | some bytes, some res =>
    let id := s!"hdr:{toHex bytes}"
    let m : String := match decodeHeader bytes with
      | none => "err:TruncatedBox"
      | some (h, _) => "ok:" ++ hdrText h
    -- Spec on the implementation's output: what it wrote is what it consumed, and encoded_len says so
    let specFail : Option String :=
      if res == "panic" then some "no-panic"
      else if res.startsWith "ok:" then
        match kv.hex? "put", kv.nat? "rest" with
        | some put, some rest =>
          let consumed := bytes.length - rest
          let elen := ((res.splitOn ":").getLast?.bind String.toNat?).getD 0
          if put != bytes.take consumed then some "put-reproduces-consumed-bytes"
          else if elen != consumed then some "encoded-len-is-bytes-consumed"
          else if put.length != elen then some "put-writes-encoded-len-bytes"
          else none
        | _, _ => some "missing-put"
      else none
    match specFail with
    | some w => s!"SPEC {id} which={w} sig=hdr:{w} impl={res} model={m}"
    | none =>
      if m != res then s!"DIFF {id} model={m} impl={res}"
      else s!"OK {id} tags=hdr,{if res.startsWith "ok" then "ok" else "trunc"}"
  | _, _ => "ERR ? missing-field"

def handleCtor (kv : KV) : String :=
  match (kv.get? "ty").bind parseType, kv.nat? "n", kv.get? "res" with
  | some ty, some n, some res =>
    let u32 := kv.getD "u32" "0" == "1"
    let id := s!"ctor:{typeText ty}:{n}:{if u32 then 1 else 0}"
    let mh : Except PErr BoxHeader := if u32 then .ok (withU32DataSize ty n) else withDataSize ty n
    let m : String := match mh with
      | .ok h => "ok:" ++ hdrText h
      | .error e => "err:" ++ e.name
    let spellsUuid := ty == BoxType.fourcc uuidName
    let tl := match ty with | .uuid _ => 16 | _ => 0
    let specFail : Option String :=
      if res == "panic" then some "no-panic"
      else if spellsUuid then none   -- FourCC("uuid") is not a type a parsed header can carry; compared with the model only
      else if res.startsWith "ok:" then
        match res.splitOn ":" with
        | [_, _, size, data, elen] =>
          let want32 := n + 8 + tl ≤ 4294967295
          let wantLen := (if want32 then 8 else 16) + tl
          if data != toString n then some "declares-exactly-the-payload"
          else if elen != toString wantLen then some "64-bit-form-only-when-needed"
          else if size != toString (n + wantLen) then some "declares-header-plus-payload"
          else if kv.getD "back" "same" != "same" then some "decodes-back-to-itself"
          else if (kv.hex? "put").map (·.length) != some wantLen then some "put-writes-encoded-len-bytes"
          else none
        | _ => some "unparsable"
      else
        -- failure only when the 64-bit size would leave u64
        if n + 16 + tl ≤ 18446744073709551615 then some "constructor-failed-on-representable-size" else none
    match specFail with
    | some w => s!"SPEC {id} which={w} sig=ctor:{w} impl={res} model={m}"
    | none =>
      if m != res then s!"DIFF {id} model={m} impl={res}"
      else s!"OK {id} tags=ctor,{if spellsUuid then "fourcc-uuid" else if res.startsWith "ok" then "ok" else "overflow"}"
  | _, _, _ => "ERR ? missing-field"

def pureErr {α} : PureRes α → Option String
  | .ok _ => none
  | .err e => some e.name
  | .panic _ => some "panic"

def handleTree (kv : KV) : String :=
  match kv.hex? "bytes", kv.get? "res", kv.get? "ops" with
  | some bytes, some res, some ops =>
    let id := s!"tree:{ops}:{(toHex bytes).take 48}:{bytes.length}"
    -- model of `Mp4Box::<MoovBox>::parse` + accessor sequence (modelled for the sanitizer's own sequence "A"
    -- and for "M"; other sequences are judged by the Spec only)
    let parsed : Except String (BoxHeader × Bytes × Nat) :=
      match decodeHeader bytes with
      | none => .error "TruncatedBox"
      | some (h, rest) =>
        match h.dataSize with
        | .error e => .error e.name
        | .ok none => .ok (h, rest, 0)
        | .ok (some n) => if n ≤ rest.length then .ok (h, rest.take n, rest.length - n) else .error "TruncatedBox"
    let m : Option String := match parsed with
      | .error e => some s!"err:{e}"
      | .ok (_, payload, _) =>
        if ops == "A" then
          some (match pureErr (validateMoov (.bytes payload)) with | none => "ok" | some e => s!"acc-err:{e}")
        else if ops == "M" then
          some (match pureErr (parseMoov payload) with | none => "ok" | some e => s!"acc-err:{e}")
        else none
    let implKind := if res.startsWith "ok" then "ok" else res
    let specFail : Option String :=
      if res == "panic" then some "no-panic"
      else if res.startsWith "ok" || res.startsWith "acc-err:" then
        match kv.hex? "put", kv.nat? "rest", kv.nat? "elen" with
        | some put, some rest, some elen =>
          -- a *failed* accessor is an error path (the lazily parsed buffer may be partly consumed); the
          -- round-trip claim is about successfully obtained values.  Length agreement is claimed always.
          if res.startsWith "ok" && put != bytes.take (bytes.length - rest) then some "serialize-reproduces-bytes-whatever-was-lazily-parsed"
          else if elen != put.length then some "encoded-len-is-bytes-written"
          else none
        | _, _, _ => some "missing-put"
      else none
    match specFail with
    | some w => s!"SPEC {id} which={w} sig=tree:{w} impl={implKind}"
    | none =>
      match m with
      | some mm =>
        if mm != implKind then s!"DIFF {id} model={mm} impl={implKind}"
        else s!"OK {id} tags=tree,modelled,{if implKind == "ok" then "ok" else "acc-err"}"
      | none => s!"OK {id} tags=tree,{if implKind == "ok" then "ok" else "acc-err"}"
  | _, _, _ => "ERR ? missing-field"

/-- kind=ftyp: an ftyp box parsed (and optionally typed-parsed) and serialised again: exactly encoded_len bytes, and the
    original bytes (whatever the length of the brands area) -/
def handleFtyp (kv : KV) : String :=
  match kv.hex? "bytes", kv.get? "res" with
  | some bytes, some res =>
    let id := s!"ftyp:{kv.getD "typed" "0"}:{(toHex bytes).take 60}:{bytes.length}"
    if res == "panic" then s!"SPEC {id} which=no-panic sig=ftyp:panic"
    else if res.startsWith "ok" then
      match kv.hex? "put", kv.nat? "elen", kv.nat? "rest" with
      | some put, some elen, some rest =>
        if elen != put.length then s!"SPEC {id} which=encoded-len-equals-bytes-written sig=ftyp:len impl-elen={elen} written={put.length}"
        else if put != bytes.take (bytes.length - rest) then s!"SPEC {id} which=serialize-reproduces-bytes sig=ftyp:roundtrip put={toHex put}"
        else s!"OK {id} tags=ftyp,{if kv.getD "typed" "0" == "1" then "typed" else "raw"},{if (bytes.length - rest) % 4 == 0 then "whole-brands" else "ragged"}"
      | _, _, _ => s!"ERR {id} missing-field"
    else s!"OK {id} tags=ftyp,rejected"
  | _, _ => "ERR ? missing-field"

/-- kind=value: a typed payload through the derived parser itself.  A value obtained from a payload serialises to
    exactly `encoded_len` bytes and to that payload (all of it: the derived parser owns the whole payload and refuses
    what it does not consume); the verdict is compared with the model's `parseCo` / `parseFtyp`. -/
def handleValue (kv : KV) : String :=
  match kv.get? "ty", kv.hex? "bytes", kv.get? "res" with
  | some ty, some bytes, some res =>
    let id := s!"value:{ty}:{(toHex bytes).take 60}:{bytes.length}"
    let m : String :=
      if ty == "ftyp" then (match pureErr (parseFtyp bytes) with | none => "ok" | some e => s!"err:{e}")
      else (match pureErr (parseCo (if ty == "co64" then 8 else 4) bytes) with | none => "ok" | some e => s!"err:{e}")
    if res == "panic" then s!"SPEC {id} which=no-panic sig=value:panic"
    else if res.startsWith "ok" then
      match kv.hex? "put", kv.nat? "elen", kv.nat? "rest" with
      | some put, some elen, some rest =>
        if elen != put.length then s!"SPEC {id} which=encoded-len-equals-bytes-written sig=value:{ty}:len impl-elen={elen} written={put.length}"
        else if put != bytes then s!"SPEC {id} which=serialize-reproduces-the-parsed-payload sig=value:{ty}:roundtrip put={toHex put} left-in-buffer={rest}"
        else if m != "ok" then s!"DIFF {id} model={m} impl=ok"
        else s!"OK {id} tags=value,{ty},ok"
      | _, _, _ => s!"ERR {id} missing-field"
    else if m != res then s!"DIFF {id} model={m} impl={res}"
    else s!"OK {id} tags=value,{ty},rejected"
  | _, _, _ => "ERR ? missing-field"

def handle (kv : KV) : String :=
  match kv.get? "kind" with
  | some "value" => handleValue kv
  | some "hdr" => handleHdr kv
  | some "ctor" => handleCtor kv
  | some "tree" => handleTree kv
  | some "ftyp" => handleFtyp kv
  | _ => "ERR ? unknown-kind"

end Driver.C16
