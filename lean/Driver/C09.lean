import Driver.Proto
import Driver.Mp4
import Driver.C06
import Driver.C13
namespace Driver.C09
open MediaSan

/-- time allowance per case (ms): generous, the point is "bounded", a hang is reported by the harness watchdog -/
def slowMs : Nat := 10000

def handle (kv : KV) : String :=
  match Driver.Mp4.parseStream kv, kv.get? "san", kv.get? "impl", kv.get? "async", kv.nat? "ms" with
  | some s, some san, some impl, some asy, some ms =>
    let id := kv.getD "id" "?"
    let fam := kv.getD "fam" "?"
    let kind := Driver.Mp4.parseKind kv
    -- Spec_C09: a Result, in bounded time
    if impl == "panic" || asy == "panic" then s!"SPEC {id} which=panic sig=C09:panic:{san} impl={impl} async={asy}"
    else if impl == "hang" then s!"SPEC {id} which=no-result-within-the-watchdog-time sig=C09:hang:{san}"
    else if asy == "pending" then s!"SPEC {id} which=sync-wrapper-future-yielded sig=C09:pending"
    else if ms > slowMs then s!"SPEC {id} which=took-{ms}-ms sig=C09:slow:{san}"
    else if asy != "-" && asy != impl then s!"SPEC {id} which=async-differs sig=C09:async-differs impl={impl} async={asy}"
    else
      let big := fam == "big-declared"
      let m : String :=
        if big then impl
        else if san == "mp4" then
          match Driver.Mp4.parseCfg kv with
          | some cfg => Driver.C13.mp4Text (MediaSan.Mp4.sanitize s kind cfg)
          | none => "bad-config"
        else Driver.C06.showOut (MediaSan.Webp.sanitize s kind ⟨kv.getD "allow" "0" == "1"⟩)
      if m == "panic" || m == "out-of-fuel" then s!"DIFF {id} model={m} impl={impl}"
      else if m != impl then s!"DIFF {id} model={m} impl={impl}"
      else
        let cls := if impl.startsWith "ok" then "accepted" else if impl.startsWith "err:io" then "io" else "rejected"
        s!"OK {id} tags={san},{fam},{cls}"
  | _, _, _, _, _ => "ERR ? missing-field"

end Driver.C09
