import Driver.Proto
import Driver.Mp4
import Driver.C06
import Driver.C11
import MediaSan.Spec.Mp4Rules
namespace Driver.C14
open MediaSan MediaSan.Spec

def mp4Model (s : Stream) (kind : SkipKind) (cfg : Mp4.Config) : String :=
  Driver.C11.mp4Txt (Driver.Mp4.ofModel (Mp4.sanitize s kind cfg))

def splitPairs (s : String) : List (String × String) :=
  (s.splitOn ";").filterMap fun t =>
    match t.splitOn "=" with
    | k :: rest@(_ :: _) => some (k, "=".intercalate rest)
    | _ => none

/-- payload sizes of every top-level moov box the walker can see -/
def moovPayloads (s : Stream) : List Nat :=
  ((Mp4Walk.walkAll s 0 s.len).boxes.filter (·.name == Mp4Walk.cc 'm' 'o' 'o' 'v')).map (·.payloadLen)

def handleLimit (kv : KV) (s : Stream) (kind : SkipKind) : String :=
  let id := kv.getD "id" "?"
  let rs := (splitPairs (kv.getD "results" "")).filterMap fun (k, v) => k.toNat?.map fun l => (l, Driver.C11.canonImpl v)
  match rs.getLast? with
  | none => s!"ERR {id} no-results"
  | some (top, rTop) =>
    let sizes := moovPayloads s
    let bad := rs.find? fun (l, r) =>
      if r == "panic" then true
      else if r == rTop then false
      -- a result different from the one under the largest limit must be InvalidInput, caused by a moov above the limit
      else !(r == "err:parse:InvalidInput" && sizes.any (· > l))
    let bad2 := rs.find? fun (l, r) =>
      -- and a moov above the limit is always refused when the file is otherwise fine
      rTop.startsWith "ok" && sizes.any (· > l) && r != "err:parse:InvalidInput"
    match bad, bad2 with
    | some (l, r), _ => s!"SPEC {id} which=limit-changed-more-than-the-size-check sig=C14:limit limit={l} got={r.take 60} top={top}:{rTop.take 60}"
    | _, some (l, r) => s!"SPEC {id} which=moov-above-limit-not-refused sig=C14:limit-accept limit={l} got={r.take 60}"
    | none, none =>
      match rs.find? (fun (l, r) => mp4Model s kind { maxMetadataSize := l } != r) with
      | some (l, r) => s!"DIFF {id} limit={l} model={(mp4Model s kind { maxMetadataSize := l }).take 80} impl={r.take 80}"
      | none => s!"OK {id} tags=limit,{if rs.any (fun x => x.2 != rTop) then "limit-bites" else "limit-irrelevant"},{if rTop.startsWith "ok" then "accepted" else "rejected"}"

def setBytes (s : Stream) (off : Nat) (b : Bytes) : Stream :=
  ⟨s.len, fun i => if off ≤ i ∧ i < off + b.length then b.getD (i - off) 0 else s.get i⟩

def handleCum (kv : KV) (s : Stream) (kind : SkipKind) : String :=
  let id := kv.getD "id" "?"
  let eof := kv.nat? "eofmdat"
  let rs := splitPairs (kv.getD "results" "")
  let parsed := rs.map fun (k, v) =>
    match v.splitOn "|" with
    | [a, b] => (k, Driver.C11.canonImpl a, Driver.C11.canonImpl b)
    | _ => (k, v, "-")
  let rNone := ((parsed.find? (·.1 == "none")).map (·.2.1)).getD "?"
  -- the input is refused before the until-EOF mdat is ever reached (the same error whatever the option says): the
  -- option, which only rewrites that box's header, is then inert
  let inert := rNone.startsWith "err" && parsed.all (fun (_, withCfg, _) => withCfg == rNone)
  let bad := parsed.find? fun (k, withCfg, rewritten) =>
    if withCfg == "panic" then true
    else match k.toNat?, eof with
      | none, _ => false
      | some _, none => withCfg != rNone                       -- no until-EOF mdat: the option is inert
      | some t, some _ =>
        if t < 8 then withCfg != "err:parse:InvalidInput" && !inert   -- a size below the header length
        else rewritten != "-" && withCfg != rewritten          -- as if the box had declared that 32-bit size ("-": not
                                                               -- comparable - several until-EOF boxes, misaligned scan)
  match bad with
  | some (k, a, b) => s!"SPEC {id} which=cumulative-size-not-equivalent-to-declared-size sig=C14:cum t={k} with-config={a.take 70} rewritten={b.take 70} none={rNone.take 40}"
  | none =>
    let diff := parsed.find? fun (k, withCfg, _) =>
      let cfg : Mp4.Config := { cumulativeMdatBoxSize := k.toNat? }
      mp4Model s kind cfg != withCfg
    match diff with
    | some (k, a, _) => s!"DIFF {id} t={k} model={(mp4Model s kind { cumulativeMdatBoxSize := k.toNat? }).take 80} impl={a.take 80}"
    | none => s!"OK {id} tags=cum,{if eof.isSome then "eof-mdat" else "no-eof-mdat"},{if parsed.any (fun x => x.2.1 != rNone) then "option-bites" else "option-inert"}"

def handleUnknown (kv : KV) (s : Stream) (kind : SkipKind) : String :=
  let id := kv.getD "id" "?"
  let deny := kv.getD "deny" "?"
  let allow := kv.getD "allow" "?"
  let spec : Option String :=
    if deny == "panic" || allow == "panic" then some "no-panic"
    else if deny == "err:parse:UnsupportedChunk" then
      -- turned into acceptance only if everything else is in order: never admits a known chunk out of place
      if allow == "ok" && !WebpGrammar.Grammar s true then some "allow-admitted-input-outside-the-grammar" else none
    else if allow != deny then some "option-changed-a-result-other-than-unsupported-chunk"
    else none
  match spec with
  | some w => s!"SPEC {id} which={w} sig=C14:unknown:{w} deny={deny} allow={allow}"
  | none =>
    let md := Driver.C06.showOut (Webp.sanitize s kind ⟨false⟩)
    let ma := Driver.C06.showOut (Webp.sanitize s kind ⟨true⟩)
    if md != deny || ma != allow then s!"DIFF {id} model={md}|{ma} impl={deny}|{allow}"
    else s!"OK {id} tags=unknown,{if deny != allow then "option-bites" else "option-inert"},{if allow == "ok" then "accepted" else "rejected"}"

def handle (kv : KV) : String :=
  match Driver.Mp4.parseStream kv with
  | none => "ERR ? bad-stream"
  | some s =>
    let kind := Driver.Mp4.parseKind kv
    match kv.get? "opt" with
    | some "limit" => handleLimit kv s kind
    | some "cum" => handleCum kv s kind
    | some "unknown" => handleUnknown kv s kind
    | _ => "ERR ? unknown-option"

end Driver.C14
