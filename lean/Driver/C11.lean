import Driver.Proto
import Driver.Mp4
import Driver.C06
import MediaSan.Adapters
namespace Driver.C11
open MediaSan

def mp4Txt (o : Driver.Mp4.Out) : String :=
  match o with
  | .noop a b => s!"ok:none:{a},{b}"
  | .rewritten md a b => s!"ok:md:{a},{b}:{toHex md.1}+z{md.2}"
  | .parseErr k => s!"err:parse:{k}"
  | .ioErr k => s!"err:io:{k}"
  | .panic => "panic"
  | .outOfFuel => "out-of-fuel"

/-- canonicalise an implementation result `ok:md:o,l:<hex>+z<n>` the same way -/
def canonImpl (r : String) : String :=
  if r.startsWith "ok:md:" then
    match (r.drop 6).toString.splitOn ":" with
    | [span, md] =>
      match Driver.Mp4.parseMd md with
      | some (b, z) => let c := Driver.Mp4.canonMd b z; s!"ok:md:{span}:{toHex c.1}+z{c.2}"
      | none => r
    | _ => r
  else r

def handle (kv : KV) : String :=
  match Driver.Mp4.parseStream kv, kv.get? "san", kv.get? "results" with
  | some s, some san, some results =>
    let id := kv.getD "id" "?"
    let rs := (results.splitOn ";").filterMap fun t =>
      match t.splitOn "=" with
      | n :: rest@(_ :: _) => some (n, canonImpl ("=".intercalate rest))
      | _ => none
    match rs with
    | [] => s!"ERR {id} no-results"
    | (n0, r0) :: _ =>
      match rs.find? (fun x => x.2 != r0) with
      | some (n, r) =>
        -- the one known way (F9): only the real `File` differs, with the kernel's EINVAL for a seek target beyond the
        -- file system's largest offset, where every in-memory reader reports the truncated box
        let diffs := rs.filter (fun x => x.2 != r0)
        let sig := if diffs.all (fun x => x.1 == "file" && x.2 == "err:io:InvalidInput") && r0.startsWith "err:parse:Truncated"
                   then "C11:file-seek-beyond-filesystem-offset-limit" else s!"C11:{san}:{n}"
        s!"SPEC {id} which=result-depends-on-entry-point-adapter-or-chunking sig={sig} {n0}={r0.take 80} {n}={r.take 80}"
      | none =>
        if r0 == "panic" then s!"SPEC {id} which=no-panic sig=C11:panic"
        else
          let m : String :=
            if san == "mp4" then
              match Driver.Mp4.parseCfg kv with
              | some cfg =>
                -- two models must give this single answer: the ideal cursor, and BufReader(32) over 1-byte reads
                let a := mp4Txt (Driver.Mp4.ofModel (Mp4.sanitize s .seekable cfg))
                let b := mp4Txt (Driver.Mp4.ofModel (Mp4.sanitizeWith (bufOps 32 (idealRaw s .seekable 1)) ⟨0, []⟩ cfg (Mp4.fuelFor s)))
                if a == b then a else s!"models-disagree:{a.take 40}|{b.take 40}"
              | none => "bad-config"
            else Driver.C06.showOut (Webp.sanitize s .seekable ⟨kv.getD "allow" "0" == "1"⟩)
          if m != r0 then s!"DIFF {id} model={m.take 100} impl={r0.take 100}"
          else s!"OK {id} tags={san},{if r0.startsWith "ok" then "accepted" else "rejected"},variants{min rs.length 60}"
  | _, _, _ => "ERR ? missing-field"

end Driver.C11
