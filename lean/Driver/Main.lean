import Driver.Proto
import Driver.C20
import Driver.C06
import Driver.C07
import Driver.C11
import Driver.C09
import Driver.C10
import Driver.C12
import Driver.C13
import Driver.C14
import Driver.C15
import Driver.C16
import Driver.C17
import Driver.C18
import Driver.C19
import Driver.Mp4
open Driver

def dispatch (line : String) : String :=
  match line.trimAscii.toString.splitOn " " with
  | [] => "ERR ? empty"
  | prop :: rest =>
    let kv := parseKV rest
    match prop with
    | "C20" => Driver.C20.handle kv
    | "C06" => Driver.C06.handle kv
    | "C07" | "C08" => Driver.C07.handle prop kv
    | "C11" => Driver.C11.handle kv
    | "C09" => Driver.C09.handle kv
    | "C10" => Driver.C10.handle kv
    | "C12" => Driver.C12.handle kv
    | "C13" => Driver.C13.handle kv
    | "C14" => Driver.C14.handle kv
    | "C15" => Driver.C15.handle kv
    | "C16" => Driver.C16.handle kv
    | "C17" => Driver.C17.handle kv
    | "C18" => Driver.C18.handle kv
    | "C19" => Driver.C19.handle kv
    | "C01" | "C02" | "C03" | "C04" | "C05" => Driver.Mp4.handle prop kv
    | "#" => "NOTE " ++ " ".intercalate rest
    | _ => s!"ERR ? unknown-prop {prop}"

partial def loop (hin : IO.FS.Stream) (hout : IO.FS.Stream) : IO Unit := do
  let line ← hin.getLine
  if line.isEmpty then return ()
  if line.trimAscii.toString.isEmpty then loop hin hout else
  hout.putStrLn (dispatch line)
  loop hin hout

def main : IO Unit := do
  let hin ← IO.getStdin
  let hout ← IO.getStdout
  loop hin hout
  hout.flush
