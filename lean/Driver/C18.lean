import Driver.Proto
import MediaSan.Vp8l.Huffman
import MediaSan.Spec.CanonicalCode
namespace Driver.C18
open MediaSan MediaSan.Vp8l MediaSan.Spec

def parsePairs (s : String) : Option (List (Nat × Nat)) :=
  if s == "-" then some [] else
  (s.splitOn ",").mapM fun t =>
    match t.splitOn ":" with
    | [a, b] => match a.toNat?, b.toNat? with
      | some x, some y => some (x, y)
      | _, _ => none
    | _ => none

def bitList (bytes : Bytes) : List Bool :=
  bytes.flatMap fun b => (List.range 8).map fun i => b.toNat / 2 ^ i % 2 == 1

def showSyms (l : List Nat) : String := if l.isEmpty then "-" else ",".intercalate (l.map toString)

def decodeModel (c : Code) (arr : ByteArray) : Nat → Nat → List Nat
  | 0, _ => []
  | n + 1, p =>
    match readSym c arr p with
    | .ok (s, p') => s :: decodeModel c arr n p'
    | .error _ => []

def handle (kv : KV) : String :=
  match (kv.get? "lens").bind parsePairs, kv.hex? "bits", kv.get? "impl", kv.nat? "n" with
  | some lens, some bytes, some impl, some n =>
    let id := kv.getD "id" "?"
    let arr := ByteArray.mk bytes.toArray
    let m := newCode lens
    let mtxt : String := match m with
      | .ok c => s!"ok:{c.longest}:{showSyms (decodeModel c arr n 0)}"
      | .error _ => "err"
    let specOk := CanonicalCode.accepts lens
    let specDecoded := CanonicalCode.decodeN (CanonicalCode.table lens) n (bitList bytes)
    let implOk := impl.startsWith "ok:"
    let spec : Option String :=
      if impl == "panic" then some "no-panic"
      else if implOk != specOk then
        some (if implOk then "accepted-incomplete-or-oversubscribed-code" else "rejected-complete-code")
      else if implOk then
        match impl.splitOn ":" with
        | [_, longest, decoded] =>
          if decoded != showSyms specDecoded then some "decoded-symbols-differ-from-canonical-assignment"
          else
            let maxl := ((CanonicalCode.table lens).map (·.2.length)).foldl max 0
            if longest.toNat? != some maxl then some "longest-code-len" else none
        | _ => some "unparsable"
      else none
    match spec with
    | some w => s!"SPEC {id} which={w} sig=C18:{w} impl={impl.take 80} model={mtxt.take 80}"
    | none =>
      if mtxt != impl then s!"DIFF {id} model={mtxt.take 120} impl={impl.take 120}"
      else
        let k := (CanonicalCode.used lens).length
        s!"OK {id} tags={if implOk then "accepted" else "rejected"},used{min k 9}{if k == 1 then ",single" else ""}"
  | _, _, _, _ => "ERR ? missing-field"

end Driver.C18
