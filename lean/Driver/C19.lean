import Driver.Proto
import Driver.C07
import MediaSan.Vp8l.BitTrace
import MediaSan.Vp8l.BufValidator
namespace Driver.C19
open MediaSan MediaSan.Vp8l

/-- the prefix codes of the harness (`TREES` in harness/src/c19.rs) -/
def treeLens : List (List (Nat × Nat)) :=
  [[(0, 1), (1, 2), (2, 3), (3, 3)],
   [(7, 1)],
   [(0, 4), (1, 4), (2, 4), (3, 4), (4, 4), (5, 4), (6, 4), (7, 4), (8, 4), (9, 4), (10, 4), (11, 4), (12, 4), (13, 4), (14, 5), (15, 5), (16, 5), (17, 5)],
   [(0, 1), (1, 2), (2, 3), (3, 4), (4, 5), (5, 6), (6, 7), (7, 8), (8, 9), (9, 10), (10, 11), (11, 12), (12, 13), (13, 14), (14, 15), (15, 15)]]

def trees : List Code := treeLens.filterMap fun l => match newCode l with | .ok c => some c | .error _ => none

/-- an operation of the harness: `r<n>` fixed-width field, `b` single bit, `h<k>` symbol of the k-th code -/
def parseOp (op : String) : Option BOp :=
  if op.startsWith "r" then ((op.drop 1).toString.toNat?).map BOp.read
  else if op == "b" then some (BOp.read 1)
  else if op.startsWith "h" then ((op.drop 1).toString.toNat?).bind fun k => (trees[k]?).map BOp.sym
  else none

def render (l : List (Option Nat)) : List String := l.map fun
  | some v => toString v
  | none => "EOF"

/-- run an operation list on the buffered model: `runBufOps` of MediaSan/Vp8l/BitTrace.lean, the function
    `C19_trace` is about -/
def runBuf (ops : List BOp) (s : BitBuf) : List String := render (runBufOps ops s)

/-- the same operations on the whole byte string (the ideal reader): `runIdealOps` -/
def runIdeal (bytes : Bytes) (ops : List BOp) (p : Nat) : List String := render (runIdealOps bytes ops p)

def handleApi (kv : KV) : String :=
  match kv.nat? "cap", kv.hex? "bytes", kv.get? "ops", kv.get? "impl" with
  | some cap, some bytes, some ops, some impl =>
    let id := kv.getD "id" "?"
    match (ops.splitOn ",").mapM parseOp with
    | none => s!"ERR {id} bad-op"
    | some opl =>
    let ideal := ",".intercalate (runIdeal bytes opl 0)
    let buf := ",".intercalate (runBuf opl (BitBuf.new cap bytes))
    if impl == "panic" then s!"SPEC {id} which=no-panic sig=C19:api:panic impl=panic"
    else if impl != ideal then s!"SPEC {id} which=values-differ-from-whole-string-reader sig=C19:api:values cap={cap} impl={impl.take 100} ideal={ideal.take 100}"
    else if buf != impl then s!"DIFF {id} model={buf.take 100} impl={impl.take 100}"
    else s!"OK {id} tags=api,cap{if cap == 4096 then "4096" else "small"}{if impl.endsWith "EOF" then ",eof" else ""},len{min (bytes.length / 32) 9}"
  | _, _, _, _ => "ERR ? missing-field"

/-- the verdict of the BUFFERED validator model (Vp8l/BufValidator.lean: every read through `BitBuf` of `cap` bytes,
    the sub-image loop with its guarded refill and buffer-only accessors) - the counterpart of `Driver.C07.modelVerdict` -/
def bufVerdict (kind : String) (data : Bytes) (w h cap : Nat) : String :=
  if kind == "vp8l" then
    if data.length < 5 then "err:parse:TruncatedChunk"
    else
      match parseVp8lHeader (ByteArray.mk data.toArray) with
      | .error .invalidInput => "err:parse:InvalidInput"
      | .error .unsupportedVersion => "err:parse:UnsupportedVp8lVersion"
      | .ok (w, h) =>
        match validateBuf cap (data.drop 5) w h .strict with
        | .ok _ => "ok"
        | .error e => Driver.C07.lerrName e
  else
    match data with
    | [] => "err:parse:TruncatedChunk"
    | f :: rest =>
      if f.toNat &&& 29 != f.toNat then "err:parse:InvalidInput"
      else if f.toNat % 2 == 1 then
        match validateBuf cap rest w h .strict with
        | .ok _ => "ok"
        | .error e => Driver.C07.lerrName e
      else "ok"

/-- the capacities at which the buffered model is executed: all nine on ordinary inputs, the eight small ones on the
    large synthetic streams (a list-based buffer of 4096 bytes costs a list walk per bit) -/
def bufCaps (data : Bytes) (caps : List Nat) : List Nat :=
  if data.length ≤ 4000 then caps else caps.filter (· ≤ 64)

def handleSitu (kv : KV) : String :=
  match kv.get? "sub", kv.hex? "data", kv.get? "verdicts" with
  | some sub, some data, some verdicts =>
    let id := kv.getD "id" "?"
    let vs := (verdicts.splitOn ";").map fun t => match t.splitOn ":" with
      | c :: rest => (c, ":".intercalate rest)
      | _ => ("?", t)
    let ref := ((vs.find? (·.1 == "4096")).map (·.2)).getD "?"
    let w := (kv.nat? "w").getD 0
    let h := (kv.nat? "h").getD 0
    let m := Driver.C07.modelVerdict sub data w h .strict
    match vs.find? (fun v => v.2 != ref) with
    | some (c, v) => s!"SPEC {id} which=verdict-depends-on-buffer-capacity sig=C19:situ:{c} cap={c} verdict={v} at4096={ref}"
    | none =>
      if vs.any (·.2 == "panic") then s!"SPEC {id} which=no-panic sig=C19:situ:panic"
      else if m != ref then s!"DIFF {id} model={m} impl={ref}"
      else
        -- the buffered model at the small capacities against the code's verdict at the same capacity
        match (bufCaps data (vs.filterMap (·.1.toNat?))).find? (fun c => bufVerdict sub data w h c != ref) with
        | some c => s!"DIFF {id} buffered-model-at-cap-{c}={bufVerdict sub data w h c} impl={ref}"
        | none =>
        s!"OK {id} tags=situ,{sub},{if ref == "ok" then "accepted" else "rejected"},len{min (data.length / 1000) 9}k,bufmodel{(bufCaps data (vs.filterMap (·.1.toNat?))).length}"
  | _, _, _ => "ERR ? missing-field"

def handle (kv : KV) : String :=
  match kv.get? "kind" with
  | some "api" => handleApi kv
  | some "situ" => handleSitu kv
  | _ => "ERR ? unknown-kind"

end Driver.C19
