import Driver.Proto
import Driver.C07
import MediaSan.Vp8l.BitBuf
namespace Driver.C19
open MediaSan MediaSan.Vp8l

/-- the prefix codes of the harness (`TREES` in harness/src/c19.rs) -/
def treeLens : List (List (Nat × Nat)) :=
  [[(0, 1), (1, 2), (2, 3), (3, 3)],
   [(7, 1)],
   [(0, 4), (1, 4), (2, 4), (3, 4), (4, 4), (5, 4), (6, 4), (7, 4), (8, 4), (9, 4), (10, 4), (11, 4), (12, 4), (13, 4), (14, 5), (15, 5), (16, 5), (17, 5)],
   [(0, 1), (1, 2), (2, 3), (3, 4), (4, 5), (5, 6), (6, 7), (7, 8), (8, 9), (9, 10), (10, 11), (11, 12), (12, 13), (13, 14), (14, 15), (15, 15)]]

def trees : List Code := treeLens.filterMap fun l => match newCode l with | .ok c => some c | .error _ => none

/-- run an operation list on the buffered model -/
def runBuf (ops : List String) (s : BitBuf) : List String :=
  match ops with
  | [] => []
  | op :: rest =>
    let r : Option (Nat × BitBuf) :=
      if op.startsWith "r" then ((op.drop 1).toString.toNat?).bind fun n => s.read n
      else if op == "b" then s.read 1
      else if op.startsWith "h" then
        ((op.drop 1).toString.toNat?).bind fun k => (trees[k]?).bind fun c => s.readSym c
      else none
    match r with
    | some (v, s') => toString v :: runBuf rest s'
    | none => ["EOF"]

/-- the same operations on the whole byte string (the ideal reader) -/
def runIdeal (bytes : Bytes) (ops : List String) (p : Nat) : List String :=
  match ops with
  | [] => []
  | op :: rest =>
    let r : Option (Nat × Nat) :=
      if op.startsWith "r" then ((op.drop 1).toString.toNat?).bind fun n => (bufReadAux bytes n 0 0 p).map fun v => (v, p + n)
      else if op == "b" then (bufReadAux bytes 1 0 0 p).map fun v => (v, p + 1)
      else if op.startsWith "h" then
        ((op.drop 1).toString.toNat?).bind fun k => (trees[k]?).bind fun c => bufDecode bytes c.tree (c.tree.height + 1) p
      else none
    match r with
    | some (v, p') => toString v :: runIdeal bytes rest p'
    | none => ["EOF"]

def handleApi (kv : KV) : String :=
  match kv.nat? "cap", kv.hex? "bytes", kv.get? "ops", kv.get? "impl" with
  | some cap, some bytes, some ops, some impl =>
    let id := kv.getD "id" "?"
    let opl := ops.splitOn ","
    let ideal := ",".intercalate (runIdeal bytes opl 0)
    let buf := ",".intercalate (runBuf opl (BitBuf.new cap bytes))
    if impl == "panic" then s!"SPEC {id} which=no-panic sig=C19:api:panic impl=panic"
    else if impl != ideal then s!"SPEC {id} which=values-differ-from-whole-string-reader sig=C19:api:values cap={cap} impl={impl.take 100} ideal={ideal.take 100}"
    else if buf != impl then s!"DIFF {id} model={buf.take 100} impl={impl.take 100}"
    else s!"OK {id} tags=api,cap{if cap == 4096 then "4096" else "small"}{if impl.endsWith "EOF" then ",eof" else ""},len{min (bytes.length / 32) 9}"
  | _, _, _, _ => "ERR ? missing-field"

def handleSitu (kv : KV) : String :=
  match kv.get? "sub", kv.hex? "data", kv.get? "verdicts" with
  | some sub, some data, some verdicts =>
    let id := kv.getD "id" "?"
    let vs := (verdicts.splitOn ";").map fun t => match t.splitOn ":" with
      | c :: rest => (c, ":".intercalate rest)
      | _ => ("?", t)
    let ref := ((vs.find? (·.1 == "4096")).map (·.2)).getD "?"
    let w := (kv.nat? "w").getD 0
    let h := (kv.nat? "h").getD 0
    let m := Driver.C07.modelVerdict sub data w h .strict
    match vs.find? (fun v => v.2 != ref) with
    | some (c, v) => s!"SPEC {id} which=verdict-depends-on-buffer-capacity sig=C19:situ:{c} cap={c} verdict={v} at4096={ref}"
    | none =>
      if vs.any (·.2 == "panic") then s!"SPEC {id} which=no-panic sig=C19:situ:panic"
      else if m != ref then s!"DIFF {id} model={m} impl={ref}"
      else s!"OK {id} tags=situ,{sub},{if ref == "ok" then "accepted" else "rejected"},len{min (data.length / 1000) 9}k"
  | _, _, _ => "ERR ? missing-field"

def handle (kv : KV) : String :=
  match kv.get? "kind" with
  | some "api" => handleApi kv
  | some "situ" => handleSitu kv
  | _ => "ERR ? unknown-kind"

end Driver.C19
