import Driver.Proto
import Driver.Mp4
import MediaSan.Webp.Sanitize
import MediaSan.Spec.WebpGrammar
namespace Driver.C06
open MediaSan MediaSan.Webp MediaSan.Spec

def showOut : Outcome WErr Unit → String
  | .ok _ => "ok"
  | .parseErr e => s!"err:parse:{e.name}"
  | .ioErr k => s!"err:io:{k.name}"
  | .panic _ => "panic"
  | .outOfFuel => "out-of-fuel"

def chunkNames (s : Stream) : String :=
  match WebpGrammar.chunkList s 12 (min s.len (8 + WebpGrammar.le32 s 4)) with
  | some cs => "+".intercalate (cs.map fun c => (String.ofList (c.name.map fun b => Char.ofNat b.toNat)).trimAscii.toString)
  | none => "untiled"

def handle (kv : KV) : String :=
  match Driver.Mp4.parseStream kv, kv.get? "impl" with
  | some s, some impl =>
    let id := kv.getD "id" "?"
    let allow := kv.getD "allow" "0" == "1"
    let kind := Driver.Mp4.parseKind kv
    let m := showOut (sanitize s kind ⟨allow⟩)
    let g := WebpGrammar.Grammar s allow
    let spec : Option String :=
      if impl == "panic" then some "no-panic"
      else if impl == "ok" && !g then some "accepted-input-outside-the-grammar"
      else if impl != "ok" && g then some "rejected-input-meeting-the-grammar"
      else none
    match spec with
    | some w => s!"SPEC {id} which={w} sig=C06:{w}:{impl} impl={impl} model={m} chunks={chunkNames s}"
    | none =>
      if m != impl then s!"DIFF {id} model={m} impl={impl}"
      else s!"OK {id} tags={if impl == "ok" then "accepted" else impl.replace ":" "-"},{if allow then "allow" else "deny"},n{min ((chunkNames s).splitOn "+").length 6}"
  | _, _ => "ERR ? missing-field"

end Driver.C06
