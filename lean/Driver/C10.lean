import Driver.Proto
import Driver.Mp4
import Driver.C06
import Driver.C13
import MediaSan.Meter
import MediaSan.Spec.Mp4Walk
namespace Driver.C10
open MediaSan MediaSan.Mp4 MediaSan.Spec

def parseRanges (s : String) : List (Nat × Nat) :=
  if s == "-" then [] else
  (s.splitOn ";").filterMap fun t =>
    match t.splitOn "+" with
    | [a, b] => match a.toNat?, b.toNat? with
      | some a, some b => some (a, b)
      | _, _ => none
    | _ => none

def showRanges (r : List (Nat × Nat)) : String :=
  if r.isEmpty then "-" else ";".intercalate (r.map fun (a, b) => s!"{a}+{b}")

def bigChunk : Nat := 0x7fffffff

/-- the model's metered run: BufReader(32) over the tracing ideal input; (outcome, bytes, merged ranges) -/
def modelMetered (s : Stream) (kind : SkipKind) (cfg : Config) : String × Nat × List (Nat × Nat) :=
  let ops := bufOps 32 (tracedIdeal s kind bigChunk)
  let st0 : BufState (Nat × List (Nat × Nat)) := ⟨(0, []), []⟩
  match (sanitizeP cfg (fuelFor s)).runS ops st0 0 with
  | .ok (some r, st, _) =>
    let tr := st.inner.2.reverse
    (Driver.C13.mp4Text (.ok r), (tr.map (·.2)).foldl (· + ·) 0, mergeRanges tr)
  | .ok (none, _, _) => ("out-of-fuel", 0, [])
  | .parseErr e => (s!"err:parse:{e.name}", 0, [])
  | .ioErr k => (s!"err:io:{k.name}", 0, [])
  | .panic _ => ("panic", 0, [])
  | .outOfFuel => ("out-of-fuel", 0, [])

def isSkippable (name : Bytes) : Bool :=
  name == Mp4Walk.cc 'm' 'd' 'a' 't' || name == Mp4Walk.cc 'f' 'r' 'e' 'e' || name == Mp4Walk.cc 's' 'k' 'i' 'p' ||
  name == Mp4Walk.cc 'm' 'e' 't' 'a' || name == Mp4Walk.cc 'm' 'e' 'c' 'o'

def isMeta (name : Bytes) : Bool := name == Mp4Walk.cc 'f' 't' 'y' 'p' || name == Mp4Walk.cc 'm' 'o' 'o' 'v'

/-- bytes of media payload (beyond the look-ahead window of 64 bytes from the box start) touched by a read -/
def mediaTouched (boxes : List Mp4Walk.TopBox) (ranges : List (Nat × Nat)) : Option (Nat × Nat) :=
  ranges.findSome? fun (a, n) =>
    boxes.findSome? fun b =>
      if isSkippable b.name then
        let lo := b.offset + 64
        let hi := b.endOff
        if a + n > lo ∧ a < hi ∧ lo < hi then some (a, n) else none
      else none

def handleMp4 (kv : KV) : String :=
  match Driver.Mp4.parseStream kv, Driver.Mp4.parseCfg kv, kv.get? "res", kv.nat? "mdlen", kv.nat? "read", kv.get? "ranges",
        kv.nat? "peak", kv.get? "alt" with
  | some s, some cfg, some res, some mdlen, some read, some rangesS, some peak, some alt =>
    let id := kv.getD "id" "?"
    let kind := Driver.Mp4.parseKind kv
    let ranges := parseRanges rangesS
    let max := cfg.maxMetadataSize
    let boxes := (Mp4Walk.walkAll s 0 s.len).boxes
    -- a ftyp / moov box counts with its payload only when the payload is within its limit (1024 / max_metadata_size):
    -- "declared sizes above the limit are rejected before anything is allocated" — or read
    let metaBytes := (boxes.filter (fun b => isMeta b.name)).foldl (fun acc b =>
      let lim := if b.name == Mp4Walk.cc 'f' 't' 'y' 'p' then 1024 else max
      if b.payloadLen ≤ lim then acc + (min b.endOff s.len - b.offset) else acc + b.hdrLen) 0
    let readBound := metaBytes + 32 * (boxes.length + 1)
    -- Spec_C10 on the implementation's observations
    let spec : Option String :=
      if res == "panic" then some "panic"
      else if alt != res then some "result-depends-on-media-bytes"
      else if (kv.get? "alt2").any (· != res) then some "result-depends-on-media-bytes-that-look-like-boxes"
      else if (kv.get? "pend").any (· != res) then some "result-depends-on-pending-schedule"
      else if (kv.get? "pendranges").any (· != rangesS) then some "bytes-read-depend-on-pending-schedule"
      else match mediaTouched boxes ranges with
      | some (a, n) => some s!"media-payload-read-at-{a}+{n}"
      | none =>
        if read > readBound then some s!"bytes-read-{read}-exceed-metadata-plus-lookahead-{readBound}"
        else if mdlen > 2 * (max + 1024 + 32) then some "returned-metadata-exceeds-twice-the-limit"
        else if peak > 4 * max + 65536 then some "peak-heap-exceeds-four-times-the-limit"
        else none
    match spec with
    | some w =>
      let cls := if w.startsWith "media-payload" then "media-payload-read" else if w.startsWith "bytes-read" then "bytes-read-exceed-bound" else w
      -- the padding path: which arm produced the oversized output
      let sig := if (cls == "returned-metadata-exceeds-twice-the-limit" || cls == "peak-heap-exceeds-four-times-the-limit") && res.startsWith "ok:md" && mdlen > 2 * (max + 1024 + 32)
                 then "C10:padding-larger-than-limit" else s!"C10:{cls}"
      s!"SPEC {id} which={w} sig={sig} res={res} alt={alt} max={max} mdlen={mdlen} read={read} peak={peak}"
    | none =>
      let (m, mread, mranges) := modelMetered s kind cfg
      if m != res then s!"DIFF {id} model={m} impl={res}"
      else if res.startsWith "ok" && mread != read then s!"DIFF {id} model-read={mread} impl-read={read}"
      else if res.startsWith "ok" && mranges != ranges then s!"DIFF {id} model-ranges={showRanges mranges} impl-ranges={rangesS}"
      else
        let sparse := decide (s.len > 16777216)
        s!"OK {id} tags=mp4,{if res.startsWith "ok:md" then "rewritten" else if res.startsWith "ok" then "noop" else "rejected"},{if sparse then "multi-gib" else "small"},{if max ≤ 65536 then "small-limit" else "large-limit"},{if res == "err:parse:InvalidInput" then "over-limit" else "within"}"
  | _, _, _, _, _, _, _, _ => "ERR ? missing-field"

/-- webpsan: the allowance is a constant -/
def webpHeapConst : Nat := 4194304

def handleWebp (kv : KV) : String :=
  match Driver.Mp4.parseStream kv, kv.get? "res", kv.nat? "read", kv.nat? "peak" with
  | some s, some res, some read, some peak =>
    let id := kv.getD "id" "?"
    let allow := kv.getD "allow" "0" == "1"
    if res == "panic" then s!"SPEC {id} which=panic sig=C10:webp-panic"
    else if peak > webpHeapConst then s!"SPEC {id} which=peak-heap-{peak}-exceeds-constant sig=C10:webp-peak-heap dims={kv.getD "dims" "?"} len={s.len}"
    else if read > s.len then s!"SPEC {id} which=read-more-than-the-input sig=C10:webp-read"
    else
      -- declared 16384x16384 sub-images are too many pixels for the interpreted model; the verdict is compared when
      -- the input is small enough (the memory claim is judged on the implementation's measurements above)
      let dims := kv.getD "dims" "0x0"
      let big := dims.startsWith "16384" || dims.endsWith "16384" || dims.startsWith "1024" || dims.startsWith "4096" || decide (s.len > 1048576)
      let m := if big then res else Driver.C06.showOut (MediaSan.Webp.sanitize s .seekable ⟨allow⟩)
      if m != res then s!"DIFF {id} model={m} impl={res}"
      else s!"OK {id} tags=webp,{if res == "ok" then "accepted" else "rejected"},{if big then "large-declared" else "small-declared"},{if s.len > 1048576 then "huge-chunk" else "small-file"}"
  | _, _, _, _ => "ERR ? missing-field"

/-- one stream shape at growing sizes: `runs = WxH:bytes:result:peak;...`.  The peak heap may not follow the input
    size: every run must stay within 16 KiB of the smallest run's peak (and below the constant). -/
def handleScale (kv : KV) : String :=
  let id := kv.getD "id" "?"
  let runs := ((kv.getD "runs" "").splitOn ";").filterMap fun t =>
    match t.splitOn ":" with
    | [d, b, r, p] => match b.toNat?, p.toNat? with
      | some b, some p => some (d, b, r, p)
      | _, _ => none
    | _ => none
  if runs.isEmpty then s!"ERR {id} no-runs"
  else
    let peaks := runs.map fun (_, _, _, p) => p
    let lo := peaks.foldl min (peaks.headD 0)
    let hi := peaks.foldl max 0
    let bad := runs.filter fun (_, _, r, _) => r != "ok"
    if !bad.isEmpty then s!"DIFF {id} scale-stream-not-accepted runs={kv.getD "runs" ""}"
    else if hi > lo + 16384 then
      s!"SPEC {id} which=peak-heap-grows-with-the-validated-size sig=C10:webp-peak-heap-scales lo={lo} hi={hi} runs={kv.getD "runs" ""}"
    else if hi > webpHeapConst then s!"SPEC {id} which=peak-heap-exceeds-constant sig=C10:webp-peak-heap hi={hi}"
    else s!"OK {id} tags=webp,accepted,large-declared,scale"

def handle (kv : KV) : String :=
  match kv.getD "san" "mp4" with
  | "webp" => handleWebp kv
  | "webpscale" => handleScale kv
  | _ => handleMp4 kv

end Driver.C10
