import Driver.Proto
import Driver.Mp4
import MediaSan.Adapters
namespace Driver.C15
open MediaSan

inductive Op where
  | read (n : Nat) | skip (n : Nat) | pos | len

def parseOps (s : String) : List Op :=
  (s.splitOn ",").filterMap fun t =>
    if t.startsWith "r" then (t.drop 1).toString.toNat?.map .read
    else if t.startsWith "s" then (t.drop 1).toString.toNat?.map .skip
    else if t == "p" then some .pos
    else if t == "l" then some .len
    else none

def errText (e : IoKind) : String := "E" ++ e.name

/-- a history on any cursor implementation -/
def runOps {σ} (ops : CursorOps σ) : List Op → σ → List String
  | [], _ => []
  | op :: rest, st =>
    match op with
    | .read n =>
      match ops.readExact st n with
      | .ok (b, st') => toHex b :: runOps ops rest st'
      | .error e => errText e :: runOps ops rest st
    | .skip n =>
      match ops.skip st n with
      | .ok st' => "ok" :: runOps ops rest st'
      | .error e => errText e :: runOps ops rest st
    | .pos =>
      match ops.position st with
      | .ok (p, st') => toString p :: runOps ops rest st'
      | .error e => errText e :: runOps ops rest st
    | .len =>
      match ops.streamLen st with
      | .ok (p, st') => toString p :: runOps ops rest st'
      | .error e => errText e :: runOps ops rest st

def handle (kv : KV) : String :=
  match Driver.Mp4.parseStream kv, kv.get? "adapter", kv.nat? "cap", kv.get? "ops", kv.get? "impl" with
  | some s, some adapter, some cap, some opsS, some impl =>
    let id := kv.getD "id" "?"
    let ops := parseOps opsS
    let big := 0x7fffffffffffffff
    let ideal := ",".intercalate (runOps (idealOps s .seekable) ops 0)
    let raw := idealRaw s .seekable big
    let buffered : Option String :=
      if adapter == "bufreader" || adapter == "bufreader-seekskip" || adapter == "refmut" || adapter == "box" || adapter == "file"
          || adapter == "abufreader" || adapter == "apinbox" || adapter == "sparse-bufreader"
          || adapter == "abufreader-pend" || adapter == "apinbox-pend" || adapter == "arefmut" || adapter == "abox" then
        some (",".intercalate (runOps (bufOps cap raw) ops ⟨0, []⟩))
      else if adapter == "bufreader-box-bufreader" || adapter == "abufreader-abufreader" then
        some (",".intercalate (runOps (bufOps cap (bufRaw 3 raw)) ops ⟨⟨0, []⟩, []⟩))
      else none
    if impl == "panic" then s!"SPEC {id} which=no-panic sig=C15:panic:{adapter}"
    else if impl != ideal then s!"SPEC {id} which=differs-from-ideal-cursor sig=C15:{adapter} cap={cap} ops={opsS.take 60} impl={impl.take 120} ideal={ideal.take 120}"
    else match buffered with
      | some m => if m != impl then s!"DIFF {id} model={m.take 120} impl={impl.take 120}" else s!"OK {id} tags={adapter},n{min ops.length 9}"
      | none => s!"OK {id} tags={adapter},n{min ops.length 9}"
  | _, _, _, _, _ => "ERR ? missing-field"

end Driver.C15
