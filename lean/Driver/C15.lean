import Driver.Proto
import Driver.Mp4
import MediaSan.Adapters
import MediaSan.Webp.Sanitize
import MediaSan.Lemmas.Hoare
namespace Driver.C15
open MediaSan

inductive Op where
  | read (n : Nat) | skip (n : Nat) | pos | len

def parseOps (s : String) : List Op :=
  (s.splitOn ",").filterMap fun t =>
    if t.startsWith "r" then (t.drop 1).toString.toNat?.map .read
    else if t.startsWith "s" then (t.drop 1).toString.toNat?.map .skip
    else if t.startsWith "v" then
      -- a read_exact of the total length, carried out through vectored reads into slices of these lengths
      some (.read (((t.drop 1).toString.splitOn "+").foldl (fun acc x => acc + (x.toNat?.getD 0)) 0))
    else if t == "p" then some .pos
    else if t == "l" then some .len
    else none

def errText (e : IoKind) : String := "E" ++ e.name

/-- a history on any cursor implementation -/
def runOps {σ} (ops : CursorOps σ) : List Op → σ → List String
  | [], _ => []
  | op :: rest, st =>
    match op with
    | .read n =>
      match ops.readExact st n with
      | .ok (b, st') => toHex b :: runOps ops rest st'
      | .error e => errText e :: runOps ops rest st
    | .skip n =>
      match ops.skip st n with
      | .ok st' => "ok" :: runOps ops rest st'
      | .error e => errText e :: runOps ops rest st
    | .pos =>
      match ops.position st with
      | .ok (p, st') => toString p :: runOps ops rest st'
      | .error e => errText e :: runOps ops rest st
    | .len =>
      match ops.streamLen st with
      | .ok (p, st') => toString p :: runOps ops rest st'
      | .error e => errText e :: runOps ops rest st

/-- the ideal cursor over the same bytes, confined to the chunk body that ends at `bodyEnd` -/
def bodyOps (s : Stream) (bodyEnd : Nat) : CursorOps Nat :=
  let i := idealOps s .seekable
  { i with
    readExact := fun pos n =>
      if n = 0 then .ok ([], pos) else if pos + n ≤ bodyEnd then i.readExact pos n else .error .unexpectedEof
    skip := fun pos n => if pos + n ≤ bodyEnd then i.skip pos n else .error .unexpectedEof }

/-- the model of `ChunkDataReader` at level `k` (Webp/Sanitize.lean `rawRead` / `rawSkip`), history by history -/
def runD (s : Stream) (k : Nat) : List Op → Webp.RS → Nat → List String
  | [], _, _ => []
  | .read n :: rest, r, pos =>
    match (Webp.rawRead r k n).runF (idealOps s .seekable) pos with
    | .ok ((b, r'), pos') => toHex b :: runD s k rest r' pos'
    | .parseErr _ => "EUnexpectedEof" :: runD s k rest r pos
    | .ioErr e => errText e :: runD s k rest r pos
    | _ => "model-panic" :: runD s k rest r pos
  | .skip n :: rest, r, pos =>
    match (Webp.rawSkip r k n).runF (idealOps s .seekable) pos with
    | .ok (r', pos') => "ok" :: runD s k rest r' pos'
    | .parseErr _ => "EUnexpectedEof" :: runD s k rest r pos
    | .ioErr e => errText e :: runD s k rest r pos
    | _ => "model-panic" :: runD s k rest r pos
  | .pos :: rest, r, pos => toString pos :: runD s k rest r pos
  | .len :: rest, r, pos => toString s.len :: runD s k rest r pos

def handleChunkData (kv : KV) (s : Stream) (depth : Nat) (opsS impl : String) : String :=
  let id := kv.getD "id" "?"
  let ops := parseOps opsS
  let ideal0 := idealOps s .seekable
  let len0 := leToNat (s.read 4 4)
  let bodyEnd := if depth == 1 then 8 + len0 else min (8 + len0) (16 + leToNat (s.read 12 4))
  let start := if depth == 1 then 8 else 16
  let ideal := ",".intercalate (runOps (bodyOps s bodyEnd) ops start)
  let init : Option (Webp.RS × Nat) :=
    match (Webp.readAnyHeader {} 0).runF ideal0 0 with
    | .ok ((_, r), pos) =>
      if depth == 1 then some (r, pos)
      else match (Webp.readAnyHeader r 1).runF ideal0 pos with
        | .ok ((_, r'), pos') => some (r', pos')
        | _ => none
    | _ => none
  if impl == "panic" then s!"SPEC {id} which=no-panic sig=C15:panic:chunkdata{depth}"
  else if impl != ideal then s!"SPEC {id} which=differs-from-ideal-cursor sig=C15:chunkdata{depth} ops={opsS.take 60} impl={impl.take 120} ideal={ideal.take 120}"
  else match init with
    | none => s!"DIFF {id} model=no-header impl={impl.take 120}"
    | some (r, pos) =>
      let m := ",".intercalate (runD s depth ops r pos)
      if m != impl then s!"DIFF {id} model={m.take 120} impl={impl.take 120}"
      else s!"OK {id} tags=chunkdata{depth},n{min ops.length 9}"

def handle (kv : KV) : String :=
  match Driver.Mp4.parseStream kv, kv.get? "adapter", kv.nat? "cap", kv.get? "ops", kv.get? "impl" with
  | some s, some adapter, some cap, some opsS, some impl =>
    if adapter == "chunkdata1" then handleChunkData kv s 1 opsS impl
    else if adapter == "chunkdata2" then handleChunkData kv s 2 opsS impl else
    let id := kv.getD "id" "?"
    let ops := parseOps opsS
    let big := 0x7fffffffffffffff
    let ideal := ",".intercalate (runOps (idealOps s .seekable) ops 0)
    let raw := idealRaw s .seekable big
    let buffered : Option String :=
      if adapter == "bufreader" || adapter == "bufreader-seekskip" || adapter == "refmut" || adapter == "box" || adapter == "file"
          || adapter == "abufreader" || adapter == "apinbox" || adapter == "sparse-bufreader"
          || adapter == "abufreader-pend" || adapter == "apinbox-pend" || adapter == "arefmut" || adapter == "abox"
          || adapter == "abufreader-syncadapter" then
        some (",".intercalate (runOps (bufOps cap raw) ops ⟨0, []⟩))
      else if adapter == "bufreader-box-bufreader" || adapter == "abufreader-abufreader" then
        some (",".intercalate (runOps (bufOps cap (bufRaw 3 raw)) ops ⟨⟨0, []⟩, []⟩))
      else none
    if impl == "panic" then s!"SPEC {id} which=no-panic sig=C15:panic:{adapter}"
    else if impl != ideal then s!"SPEC {id} which=differs-from-ideal-cursor sig=C15:{adapter} cap={cap} ops={opsS.take 60} impl={impl.take 120} ideal={ideal.take 120}"
    else match buffered with
      | some m => if m != impl then s!"DIFF {id} model={m.take 120} impl={impl.take 120}" else s!"OK {id} tags={adapter},n{min ops.length 9}"
      | none => s!"OK {id} tags={adapter},n{min ops.length 9}"
  | _, _, _, _, _ => "ERR ? missing-field"

end Driver.C15
