/-
  Line protocol helpers for the correspondence driver.
  A case line is:  <PROP> k=v k=v ...      (space separated; values never contain spaces)
  The driver answers one line per case:
     OK   <id> [tags=...]
     DIFF <id> model=<out> impl=<out>          correspondence broken on this input
     SPEC <id> which=<conjunct> ...            Spec_Cxx(input, impl output) is false
     ERR  <id> <why>                           malformed case line (harness bug)
-/
namespace Driver

abbrev KV := List (String × String)

def parseKV (toks : List String) : KV :=
  toks.filterMap fun t =>
    match t.splitOn "=" with
    | k :: rest@(_ :: _) => some (k, "=".intercalate rest)
    | _ => none

def KV.get? (kv : KV) (k : String) : Option String :=
  (kv.find? (·.1 == k)).map (·.2)

def KV.getD (kv : KV) (k : String) (d : String) : String := (kv.get? k).getD d

def KV.nat? (kv : KV) (k : String) : Option Nat := (kv.get? k).bind String.toNat?

def KV.int? (kv : KV) (k : String) : Option Int := (kv.get? k).bind String.toInt?

def hexDigit? (c : Char) : Option Nat :=
  if '0' ≤ c ∧ c ≤ '9' then some (c.toNat - '0'.toNat)
  else if 'a' ≤ c ∧ c ≤ 'f' then some (c.toNat - 'a'.toNat + 10)
  else if 'A' ≤ c ∧ c ≤ 'F' then some (c.toNat - 'A'.toNat + 10)
  else none

/-- hex string → bytes ("-" or "" is the empty string) -/
def parseHex (s : String) : Option (List UInt8) :=
  if s == "-" then some [] else
  let rec go : List Char → List UInt8 → Option (List UInt8)
    | [], acc => some acc.reverse
    | [_], _ => none
    | a :: b :: rest, acc =>
      match hexDigit? a, hexDigit? b with
      | some x, some y => go rest (UInt8.ofNat (x * 16 + y) :: acc)
      | _, _ => none
  go s.toList []

def hexNibble (n : Nat) : Char :=
  if n < 10 then Char.ofNat ('0'.toNat + n) else Char.ofNat ('a'.toNat + n - 10)

def toHex (bs : List UInt8) : String :=
  if bs.isEmpty then "-" else
  String.ofList (bs.flatMap fun b => [hexNibble (b.toNat / 16), hexNibble (b.toNat % 16)])

def KV.hex? (kv : KV) (k : String) : Option (List UInt8) := (kv.get? k).bind parseHex

end Driver
