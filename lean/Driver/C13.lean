import Driver.Proto
import Driver.Mp4
import Driver.C06
import MediaSan.Adapters
import MediaSan.Lemmas.Prog
namespace Driver.C13
open MediaSan MediaSan.Mp4

def ioKindOf (s : String) : Option IoKind :=
  match s with
  | "Other" => some .other | "PermissionDenied" => some .permissionDenied | "TimedOut" => some .timedOut
  | "WouldBlock" => some .wouldBlock | "InvalidData" => some .invalidData | "UnexpectedEof" => some .unexpectedEof
  | "InvalidInput" => some .invalidInput | _ => none

def mp4Text : Outcome PErr Sanitized → String
  | .ok ⟨none, sp⟩ => s!"ok:none:{sp.offset},{sp.len}"
  | .ok ⟨some md, sp⟩ => s!"ok:md{md.length}:{sp.offset},{sp.len}"
  | .parseErr e => s!"err:parse:{e.name}"
  | .ioErr k => s!"err:io:{k.name}"
  | .panic _ => "panic"
  | .outOfFuel => "out-of-fuel"

/-- the MP4 model on the real reader stack: BufReader(32) over a seek-based input whose operation `k` fails -/
def mp4Faulted (s : Stream) (cfg : Config) (k : Option Nat) (e : IoKind) : String :=
  let raw := idealRaw s .seekable 0x7fffffff
  match k with
  | some k =>
    mp4Text (sanitizeWith (bufOps 32 (faultyRaw raw k e)) ⟨(0, 0), []⟩ cfg (fuelFor s))
  | none => mp4Text (sanitizeWith (bufOps 32 raw) ⟨0, []⟩ cfg (fuelFor s))

def handle (kv : KV) : String :=
  match Driver.Mp4.parseStream kv, kv.get? "san", kv.get? "impl", kv.get? "free", (kv.get? "e").bind ioKindOf, kv.nat? "nops" with
  | some s, some san, some impl, some free, some e, some nops =>
    let id := kv.getD "id" "?"
    let k := kv.nat? "k"
    let consumed : Bool := match k with | some k => decide (k < nops) | none => false
    -- Spec_C13 on the implementation's outcome
    let spec : Option String :=
      if impl == "panic" then some "no-panic"
      else if consumed then
        if impl == s!"err:io:{e.name}" then none
        else if e == .unexpectedEof && (impl == "err:parse:TruncatedBox" || impl == "err:parse:TruncatedChunk") then none
        else if impl.startsWith "ok" then some "success-despite-consumed-fault"
        else some "fault-not-propagated-as-io-error"
      else if impl != free then some "unconsumed-fault-changed-the-result"
      else if san == "webp" && free.startsWith "err:io" then some "io-error-without-fault"
      else none
    match spec with
    | some w => s!"SPEC {id} which={w} sig=C13:{w}:{e.name} impl={impl} free={free}"
    | none =>
      if san == "mp4" then
        match Driver.Mp4.parseCfg kv with
        | some cfg =>
          let m := mp4Faulted s cfg k e
          let mfree := mp4Faulted s cfg none e
          if mfree != free then s!"DIFF {id} model-free={mfree} impl-free={free}"
          else if m != impl then s!"DIFF {id} model={m} impl={impl}"
          else s!"OK {id} tags=mp4,{kv.getD "mode" "sync"},{if consumed then "consumed" else "past"},{e.name},{if impl.startsWith "err:parse" then "eof-mapped" else "io"}"
        | none => s!"ERR {id} bad-config"
      else
        -- webpsan: nested per-level buffers make operation indices implementation-specific; the fault-free run is
        -- compared with the model, the faulted run is judged by the Spec (and covered by `run_faulty`)
        let mfree := Driver.C06.showOut (MediaSan.Webp.sanitize s .seekable ⟨kv.getD "allow" "0" == "1"⟩)
        if mfree != free then s!"DIFF {id} model-free={mfree} impl-free={free}"
        else s!"OK {id} tags=webp,{if consumed then "consumed" else "past"},{e.name},{if impl.startsWith "err:parse" then "eof-mapped" else "io"}"
  | _, _, _, _, _, _ => "ERR ? missing-field"

end Driver.C13
