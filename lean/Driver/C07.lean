import Driver.Proto
import MediaSan.Vp8l.Lossless
import Driver.C06
namespace Driver.C07
open MediaSan MediaSan.Vp8l

def lerrName : LErr → String
  | .truncated => "err:parse:TruncatedChunk"
  | .invalidInput => "err:parse:InvalidInput"
  | .invalidPrefixCode => "err:parse:InvalidVp8lPrefixCode"
  | .panic _ => "panic"

/-- the model's verdict on a payload, as webpsan reports it through a minimal container -/
def modelVerdict (kind : String) (data : Bytes) (w h : Nat) (cfg : LCfg) : String :=
  if kind == "vp8l" then
    if data.length < 5 then "err:parse:TruncatedChunk"
    else
      let arr := ByteArray.mk data.toArray
      match parseVp8lHeader arr with
      | .error .invalidInput => "err:parse:InvalidInput"
      | .error .unsupportedVersion => "err:parse:UnsupportedVp8lVersion"
      | .ok (w, h) =>
        match validate (ByteArray.mk (data.drop 5).toArray) w h cfg with
        | .ok _ => "ok"
        | .error e => lerrName e
  else
    -- ALPH: one header byte (flags: reserved bits must be clear), lossless stream only when COMPRESS_LOSSLESS
    match data with
    | [] => "err:parse:TruncatedChunk"
    | f :: rest =>
      if f.toNat &&& 29 != f.toNat then "err:parse:InvalidInput"
      else if f.toNat % 2 == 1 then
        match validate (ByteArray.mk rest.toArray) w h cfg with
        | .ok _ => "ok"
        | .error e => lerrName e
      else "ok"

/-- C08, container side: a whole file from libwebp's encoders / muxer -/
def handleFile (prop : String) (kv : KV) : String :=
  match Driver.Mp4.parseStream kv, kv.get? "impl", kv.get? "ref" with
  | some s, some impl, some ref =>
    let id := kv.getD "id" "?"
    let m := Driver.C06.showOut (MediaSan.Webp.sanitize s .seekable {})
    let names := Driver.C06.chunkNames s
    -- the one known container-level refusal: VP8X with the alpha flag in front of a still lossless image
    -- (libwebp's muxer sets the flag for VP8L images with alpha; there is no ALPH chunk)
    let flags := (s.get 20).toNat
    let alphaStillLossless := names.startsWith "VP8X" && flags / 16 % 2 == 1 && flags / 2 % 2 == 0 &&
      (names.startsWith "VP8X+VP8L" || names.startsWith "VP8X+ICCP+VP8L")
    let frame := kv.get? "kind" == some "frame"
    if frame && ref == "ok" && impl != "ok" && prop == "C08" then
      -- an animation frame smaller than the canvas whose lossless alpha the reference decodes for the FRAME's dimensions
      s!"SPEC {id} which=rejected-frame-whose-lossless-alpha-the-reference-decodes sig={prop}:frame-alpha impl={impl} model={m} chunks={names}"
    else if frame && ref != "ok" && impl == "ok" && prop == "C07" then
      s!"SPEC {id} which=accepted-frame-whose-lossless-alpha-the-reference-rejects sig={prop}:frame-alpha impl={impl} model={m} chunks={names}"
    else if frame && m != impl then s!"DIFF {id} model={m} impl={impl}"
    else if frame then s!"OK {id} tags=frame-alpha,{if impl == "ok" then "accepted" else "rejected"},ref-{ref}"
    else if ref == "ok" && impl != "ok" then
      let sg := if alphaStillLossless then "vp8x-alpha-flag-still-lossless-without-alph" else "other"
      s!"SPEC {id} which=rejected-file-libwebp-produced-and-decodes sig={prop}:file:{sg} impl={impl} model={m} chunks={names}"
    else if m != impl then s!"DIFF {id} model={m} impl={impl} sig={if alphaStillLossless then prop ++ ":file:vp8x-alpha-flag-still-lossless-without-alph" else ""}"
    else s!"OK {id} tags=file,{if impl == "ok" then "accepted" else "rejected"},{names.take 40}"
  | _, _, _ => "ERR ? missing-field"

def handle (prop : String) (kv : KV) : String :=
  if kv.get? "kind" == some "file" || kv.get? "kind" == some "frame" then handleFile prop kv else
  match kv.get? "kind", kv.hex? "data", kv.get? "impl", kv.get? "ref" with
  | some kind, some data, some impl, some ref =>
    let id := kv.getD "id" "?"
    let w := (kv.nat? "w").getD 0
    let h := (kv.nat? "h").getD 0
    let m := modelVerdict kind data w h .strict
    let spec : Option String :=
      if impl == "panic" then some "no-panic"
      else if prop == "C07" then
        -- accepted by webpsan ⇒ the reference decodes the header phase
        if impl == "ok" && ref != "ok" then some "accepted-stream-the-reference-rejects" else none
      else
        -- C08: decoded by the reference ⇒ accepted, apart from the two documented strictness choices
        if ref == "ok" && impl != "ok" then
          if modelVerdict kind data w h .lenient == "ok" && m != "ok" then none
          else some "rejected-stream-the-reference-decodes"
        else none
    match spec with
    | some wh => s!"SPEC {id} which={wh} sig={prop}:{wh}:{impl} impl={impl} ref={ref} model={m}"
    | none =>
      if m != impl then s!"DIFF {id} model={m} impl={impl} ref={ref}"
      else
        let strictOnly := ref == "ok" && impl != "ok"
        s!"OK {id} tags={kind},{if impl == "ok" then "accepted" else "rejected"},ref-{ref}{if strictOnly then ",documented-strictness" else ""},len{min (data.length / 1000) 9}k"
  | _, _, _, _ => "ERR ? missing-field"

end Driver.C07
