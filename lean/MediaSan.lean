-- This module serves as the root of the `MediaSan` library.
-- Import modules here that should be built as part of the library.
import MediaSan.Basic
