"""
A tiny typed translator from a small subset of Rust expressions/blocks to Lean 4 terms over
`BitVec n` (generic width).  It exists for exactly one purpose: to *regenerate* the Lean model
of `impl_checked_add_signed!` (common/src/util.rs) from the source on every run, so that the
C20 theorem is re-checked against what the code says now.

Types tracked:  U (unsigned `Self`), I (signed `Rhs`), B (bool), OptU, (U,B) pairs.
Anything outside the subset raises Unsupported -> extraction fails loudly (broken obligation).
"""
import re


class Unsupported(Exception):
    pass


TOKEN_RE = re.compile(r"""
    \s*(?:
      (?P<num>\d[\d_]*)
     |(?P<id>[A-Za-z_][A-Za-z0-9_]*)
     |(?P<op>\|\||&&|==|!=|<=|>=|<<|>>|[-+*/^|&<>!=(){};,.:])
    )""", re.X)


def tokenize(src):
    pos, out = 0, []
    src = re.sub(r"//[^\n]*", "", src)
    while pos < len(src):
        if src[pos:].strip() == "":
            break
        m = TOKEN_RE.match(src, pos)
        if not m:
            raise Unsupported("cannot tokenize at: %r" % src[pos:pos + 20])
        pos = m.end()
        if m.group("num"):
            out.append(("num", m.group("num").replace("_", "")))
        elif m.group("id"):
            out.append(("id", m.group("id")))
        else:
            out.append(("op", m.group("op")))
    return out


class Parser:
    def __init__(self, toks):
        self.t = toks
        self.i = 0

    def peek(self, k=0):
        return self.t[self.i + k] if self.i + k < len(self.t) else ("eof", "")

    def eat(self, kind=None, val=None):
        tok = self.peek()
        if (kind and tok[0] != kind) or (val is not None and tok[1] != val):
            raise Unsupported("expected %s %s, got %s" % (kind, val, tok))
        self.i += 1
        return tok

    def at(self, val):
        return self.peek()[1] == val and self.peek()[0] in ("op", "id")

    # block := '{' stmt* expr '}'   (or without braces at top level)
    def block(self, braces=True):
        if braces:
            self.eat("op", "{")
        stmts = []
        while self.at("let"):
            self.eat()
            if self.at("("):
                self.eat()
                a = self.eat("id")[1]
                self.eat("op", ",")
                b = self.eat("id")[1]
                self.eat("op", ")")
                pat = ("tuple", a, b)
            else:
                pat = ("var", self.eat("id")[1])
            self.eat("op", "=")
            e = self.expr()
            self.eat("op", ";")
            stmts.append((pat, e))
        e = self.expr()
        if braces:
            self.eat("op", "}")
        return ("block", stmts, e)

    def expr(self):
        if self.at("if"):
            self.eat()
            c = self.binary(0)
            t = self.block()
            self.eat("id", "else")
            f = self.block()
            return ("if", c, t, f)
        return self.binary(0)

    LEVELS = [["||"], ["&&"], ["==", "!=", "<", "<=", ">", ">="], ["|"], ["^"], ["&"], ["+", "-"]]

    def binary(self, lvl):
        if lvl == len(self.LEVELS):
            return self.cast()
        lhs = self.binary(lvl + 1)
        while self.peek()[0] == "op" and self.peek()[1] in self.LEVELS[lvl]:
            op = self.eat()[1]
            rhs = self.binary(lvl + 1)
            lhs = ("bin", op, lhs, rhs)
        return lhs

    def cast(self):
        e = self.unary()
        while self.at("as"):
            self.eat()
            ty = self.eat("id")[1]
            e = ("as", e, ty)
        return e

    def unary(self):
        if self.at("!"):
            self.eat()
            return ("not", self.unary())
        if self.at("-") and self.peek(1)[0] == "num":
            self.eat()
            return ("num", -int(self.eat("num")[1]))
        return self.postfix()

    def postfix(self):
        e = self.primary()
        while self.at("."):
            self.eat()
            name = self.eat("id")[1]
            self.eat("op", "(")
            args = []
            while not self.at(")"):
                args.append(self.expr())
                if self.at(","):
                    self.eat()
            self.eat("op", ")")
            e = ("call", name, e, args)
        return e

    def primary(self):
        k, v = self.peek()
        if k == "num":
            self.eat()
            return ("num", int(v))
        if k == "op" and v == "(":
            self.eat()
            e = self.expr()
            self.eat("op", ")")
            return e
        if k == "id":
            self.eat()
            if v == "None":
                return ("none",)
            if v == "Some":
                self.eat("op", "(")
                e = self.expr()
                self.eat("op", ")")
                return ("some", e)
            if v in ("true", "false"):
                return ("bool", v)
            return ("var", v)
        raise Unsupported("unexpected token %s %s" % (k, v))


METHODS = {
    # name: (lean function, arg types, result type)
    "overflowing_add": ("overflowingAdd", ["U"], ("pair", "U", "B")),
    "wrapping_add": ("wrappingAdd", ["U"], "U"),
    "checked_add": ("checkedAdd", ["U"], "OptU"),
    "saturating_add": ("saturatingAdd", ["U"], "U"),
}
CMP = {"<": "Lt", "<=": "Le", ">": "Gt", ">=": "Ge", "==": "Eq", "!=": "Ne"}


def to_lean(ast, env):
    """returns (lean_term, type)"""
    k = ast[0]
    if k == "block":
        _, stmts, e = ast
        env = dict(env)
        out = []
        for pat, rhs in stmts:
            term, ty = to_lean(rhs, env)
            if pat[0] == "tuple":
                if not (isinstance(ty, tuple) and ty[0] == "pair"):
                    raise Unsupported("tuple pattern on non-pair")
                env[pat[1]] = ty[1]
                env[pat[2]] = ty[2]
                out.append("let (%s, %s) := %s" % (pat[1], pat[2], term))
            else:
                env[pat[1]] = ty
                out.append("let %s := %s" % (pat[1], term))
        term, ty = to_lean(e, env)
        return ("\n  ".join(out + [term]), ty)
    if k == "if":
        c, cty = to_lean(ast[1], env)
        if cty != "B":
            raise Unsupported("if condition not bool")
        t, tty = to_lean(ast[2], env)
        f, fty = to_lean(ast[3], env)
        if tty != fty:
            raise Unsupported("if branches differ in type: %s vs %s" % (tty, fty))
        return ("if %s then %s else %s" % (c, t, f), tty)
    if k == "var":
        name = ast[1]
        if name == "self":
            return ("self", "U")
        if name not in env:
            raise Unsupported("unknown variable " + name)
        return (name, env[name])
    if k == "num":
        return (str(ast[1]), "Lit")
    if k == "bool":
        return (ast[1], "B")
    if k == "none":
        return ("none", "OptU")
    if k == "some":
        t, ty = to_lean(ast[1], env)
        if ty != "U":
            raise Unsupported("Some(non-U)")
        return ("some %s" % paren(t), "OptU")
    if k == "not":
        t, ty = to_lean(ast[1], env)
        if ty != "B":
            raise Unsupported("! on non-bool")
        return ("(!%s)" % paren(t), "B")
    if k == "as":
        t, ty = to_lean(ast[1], env)
        if ast[2] != "Self" or ty not in ("U", "I"):
            raise Unsupported("unsupported cast `as %s` from %s" % (ast[2], ty))
        return ("(asSelf %s)" % paren(t), "U")
    if k == "call":
        _, name, recv, args = ast
        if name not in METHODS:
            raise Unsupported("unsupported method " + name)
        fn, argtys, rty = METHODS[name]
        r, rt = to_lean(recv, env)
        if rt != "U":
            raise Unsupported("method receiver not unsigned")
        ts = []
        for a, want in zip(args, argtys):
            t, ty = to_lean(a, env)
            if ty != want:
                raise Unsupported("argument type %s, wanted %s" % (ty, want))
            ts.append(paren(t))
        if len(args) != len(argtys):
            raise Unsupported("arity")
        return ("(%s %s %s)" % (fn, paren(r), " ".join(ts)), rty)
    if k == "bin":
        _, op, a, b = ast
        ta, tya = to_lean(a, env)
        tb, tyb = to_lean(b, env)
        if op in CMP:
            if tya in ("I", "U") and tyb == "Lit":
                pre = "s" if tya == "I" else "u"
                return ("(%s%sLit %s %s)" % (pre, CMP[op], paren(ta), paren(tb)), "B")
            if tya == "B" and tyb == "B" and op in ("==", "!="):
                return ("(%s %s %s)" % (paren(ta), "==" if op == "==" else "!=", paren(tb)), "B")
            raise Unsupported("comparison %s between %s and %s" % (op, tya, tyb))
        if tya == "B" and tyb == "B":
            lean_op = {"^": "^^", "|": "||", "&": "&&", "||": "||", "&&": "&&"}.get(op)
            if not lean_op:
                raise Unsupported("bool op " + op)
            return ("(%s %s %s)" % (paren(ta), lean_op, paren(tb)), "B")
        raise Unsupported("binary %s on %s,%s" % (op, tya, tyb))
    raise Unsupported("node " + k)


def paren(t):
    t = t.strip()
    if re.fullmatch(r"[A-Za-z_][A-Za-z0-9_]*|-?\d+", t) or (t.startswith("(") and t.endswith(")") and balanced(t[1:-1])):
        return t if not t.startswith("-") else "(%s)" % t
    return "(%s)" % t


def balanced(s):
    d = 0
    for ch in s:
        if ch == "(":
            d += 1
        elif ch == ")":
            d -= 1
            if d < 0:
                return False
    return d == 0


def translate_fn_body(body_src, params):
    """body_src: text between the fn's outer braces.  params: dict name->type."""
    p = Parser(tokenize(body_src))
    ast = p.block(braces=False)
    if p.peek()[0] != "eof":
        raise Unsupported("trailing tokens: %s" % (p.peek(),))
    return to_lean(ast, params)
