"""
A tiny typed translator from a small subset of Rust expressions/blocks to Lean 4 terms over
`BitVec n` (generic width).  It exists for exactly one purpose: to *regenerate* the Lean model
of `impl_checked_add_signed!` (common/src/util.rs) from the source on every run, so that the
C20 theorem is re-checked against what the code says now.

Types tracked:  U (unsigned `Self`), I (signed `Rhs`), B (bool), OptU, (U,B) pairs.
Subset: `let` (variable / pair pattern), `if/else` (also as `if c { return e; }` statements), `match` on a bool or a
tuple of bools with literal / `_` / or-patterns, the integer methods of METHODS, `as Self`, comparisons between two
values of one view or with a literal, boolean operators, `Some(..)`, `None`, `Self::MAX`, `Self::MIN`.
Anything outside the subset raises Unsupported -> extraction fails loudly (broken obligation).
"""
import re


class Unsupported(Exception):
    pass


TOKEN_RE = re.compile(r"""
    \s*(?:
      (?P<num>\d[\d_]*)
     |(?P<id>[A-Za-z_][A-Za-z0-9_]*)
     |(?P<op>\|\||&&|==|!=|<=|>=|=>|::|<<|>>|[-+*/^|&<>!=(){};,.:])
    )""", re.X)


def tokenize(src):
    pos, out = 0, []
    src = re.sub(r"//[^\n]*", "", src)
    while pos < len(src):
        if src[pos:].strip() == "":
            break
        m = TOKEN_RE.match(src, pos)
        if not m:
            raise Unsupported("cannot tokenize at: %r" % src[pos:pos + 20])
        pos = m.end()
        if m.group("num"):
            out.append(("num", m.group("num").replace("_", "")))
        elif m.group("id"):
            out.append(("id", m.group("id")))
        else:
            out.append(("op", m.group("op")))
    return out


class Parser:
    def __init__(self, toks):
        self.t = toks
        self.i = 0

    def peek(self, k=0):
        return self.t[self.i + k] if self.i + k < len(self.t) else ("eof", "")

    def eat(self, kind=None, val=None):
        tok = self.peek()
        if (kind and tok[0] != kind) or (val is not None and tok[1] != val):
            raise Unsupported("expected %s %s, got %s" % (kind, val, tok))
        self.i += 1
        return tok

    def at(self, val):
        return self.peek()[1] == val and self.peek()[0] in ("op", "id")

    # block := '{' stmt* expr '}'   (or without braces at top level)
    def block(self, braces=True):
        if braces:
            self.eat("op", "{")
        stmts = []
        while self.at("let"):
            self.eat()
            if self.at("("):
                self.eat()
                a = self.eat("id")[1]
                self.eat("op", ",")
                b = self.eat("id")[1]
                self.eat("op", ")")
                pat = ("tuple", a, b)
            else:
                pat = ("var", self.eat("id")[1])
            self.eat("op", "=")
            e = self.expr()
            self.eat("op", ";")
            stmts.append((pat, e))
        # `if c { return e; }` followed by the rest of the block  ==  if c { e } else { rest }
        if self.at("if") and self._is_early_return():
            self.eat()
            c = self.binary(0)
            self.eat("op", "{")
            self.eat("id", "return")
            r = self.expr()
            if self.at(";"):
                self.eat()
            self.eat("op", "}")
            rest = self.block(braces=False)
            if braces:
                self.eat("op", "}")
            return ("block", stmts, ("if", c, ("block", [], r), rest))
        if self.at("return"):
            self.eat()
            e = self.expr()
            if self.at(";"):
                self.eat()
        else:
            e = self.expr()
        if braces:
            self.eat("op", "}")
        return ("block", stmts, e)

    def _is_early_return(self):
        # look ahead: `if <cond> { return` with the matching `}` NOT followed by `else`
        j, depth = self.i + 1, 0
        while j < len(self.t) and not (self.t[j] == ("op", "{") and depth == 0):
            if self.t[j] == ("op", "("):
                depth += 1
            if self.t[j] == ("op", ")"):
                depth -= 1
            j += 1
        return j + 1 < len(self.t) and self.t[j + 1] == ("id", "return")

    def expr(self):
        if self.at("if"):
            self.eat()
            c = self.binary(0)
            t = self.block()
            self.eat("id", "else")
            f = self.block()
            return ("if", c, t, f)
        if self.at("match"):
            self.eat()
            scrut = self.binary(0)
            self.eat("op", "{")
            arms = []
            while not self.at("}"):
                pats = [self.pattern()]
                while self.at("|"):
                    self.eat()
                    pats.append(self.pattern())
                self.eat("op", "=>")
                if self.at("{"):
                    body = self.block()
                else:
                    body = self.expr()
                if self.at(","):
                    self.eat()
                arms.append((pats, body))
            self.eat("op", "}")
            return ("match", scrut, arms)
        return self.binary(0)

    def pattern(self):
        if self.at("("):
            self.eat()
            items = [self.pattern()]
            while self.at(","):
                self.eat()
                if self.at(")"):
                    break
                items.append(self.pattern())
            self.eat("op", ")")
            return ("ptuple", items)
        k, v = self.eat("id")
        if v in ("true", "false", "_"):
            return ("plit", v)
        raise Unsupported("pattern " + v)

    LEVELS = [["||"], ["&&"], ["==", "!=", "<", "<=", ">", ">="], ["|"], ["^"], ["&"], ["+", "-"]]

    def binary(self, lvl):
        if lvl == len(self.LEVELS):
            return self.cast()
        lhs = self.binary(lvl + 1)
        while self.peek()[0] == "op" and self.peek()[1] in self.LEVELS[lvl]:
            op = self.eat()[1]
            rhs = self.binary(lvl + 1)
            lhs = ("bin", op, lhs, rhs)
        return lhs

    def cast(self):
        e = self.unary()
        while self.at("as"):
            self.eat()
            ty = self.eat("id")[1]
            e = ("as", e, ty)
        return e

    def unary(self):
        if self.at("!"):
            self.eat()
            return ("not", self.unary())
        if self.at("-") and self.peek(1)[0] == "num":
            self.eat()
            return ("num", -int(self.eat("num")[1]))
        return self.postfix()

    def postfix(self):
        e = self.primary()
        while self.at("."):
            self.eat()
            name = self.eat("id")[1]
            self.eat("op", "(")
            args = []
            while not self.at(")"):
                args.append(self.expr())
                if self.at(","):
                    self.eat()
            self.eat("op", ")")
            e = ("call", name, e, args)
        return e

    def path_call(self, name):
        """`Self::name(receiver, args..)` is the method call `receiver.name(args..)`"""
        self.eat("op", "(")
        args = []
        while not self.at(")"):
            args.append(self.expr())
            if self.at(","):
                self.eat()
        self.eat("op", ")")
        if not args:
            raise Unsupported("path call without receiver")
        return ("call", name, args[0], args[1:])

    def primary(self):
        k, v = self.peek()
        if k == "num":
            self.eat()
            return ("num", int(v))
        if k == "op" and v == "(":
            self.eat()
            e = self.expr()
            if self.at(","):
                items = [e]
                while self.at(","):
                    self.eat()
                    if self.at(")"):
                        break
                    items.append(self.expr())
                self.eat("op", ")")
                return ("tuple", items)
            self.eat("op", ")")
            return e
        if k == "id":
            self.eat()
            if v == "None":
                return ("none",)
            if v == "Some":
                self.eat("op", "(")
                e = self.expr()
                self.eat("op", ")")
                return ("some", e)
            if v in ("true", "false"):
                return ("bool", v)
            if v == "Self" and self.at("::"):
                self.eat()
                c = self.eat("id")[1]
                if c in ("MAX", "MIN"):
                    return ("const", "U", c)
                if self.at("("):
                    return self.path_call(c)
                raise Unsupported("Self::" + c)
            return ("var", v)
        if k == "op" and v == "<" and self.peek(1) == ("id", "Self") and self.peek(2) == ("op", ">") and self.peek(3) == ("op", "::"):
            # `<Self>::method(receiver, args..)`
            for _ in range(4):
                self.eat()
            return self.path_call(self.eat("id")[1])
        raise Unsupported("unexpected token %s %s" % (k, v))


METHODS = {
    # (receiver type, name): (lean function, arg types, result type)
    ("U", "overflowing_add"): ("overflowingAdd", ["U"], ("pair", "U", "B")),
    ("U", "overflowing_sub"): ("overflowingSub", ["U"], ("pair", "U", "B")),
    ("U", "wrapping_add"): ("wrappingAdd", ["U"], "U"),
    ("U", "wrapping_sub"): ("wrappingSub", ["U"], "U"),
    ("U", "checked_add"): ("checkedAdd", ["U"], "OptU"),
    ("U", "checked_sub"): ("checkedSub", ["U"], "OptU"),
    ("U", "saturating_add"): ("saturatingAdd", ["U"], "U"),
    ("U", "saturating_sub"): ("saturatingSub", ["U"], "U"),
    ("I", "unsigned_abs"): ("unsignedAbs", [], "U"),
    ("I", "wrapping_neg"): ("wrappingNeg", [], "I"),
    ("I", "saturating_neg"): ("saturatingNeg", [], "I"),
    ("I", "wrapping_abs"): ("wrappingAbs", [], "I"),
    ("I", "is_negative"): ("isNegative", [], "B"),
    ("I", "is_positive"): ("isPositive", [], "B"),
}
CMP = {"<": "Lt", "<=": "Le", ">": "Gt", ">=": "Ge", "==": "Eq", "!=": "Ne"}


def to_lean(ast, env):
    """returns (lean_term, type)"""
    k = ast[0]
    if k == "block":
        _, stmts, e = ast
        env = dict(env)
        out = []
        for pat, rhs in stmts:
            term, ty = to_lean(rhs, env)
            if pat[0] == "tuple":
                if not (isinstance(ty, tuple) and ty[0] == "pair"):
                    raise Unsupported("tuple pattern on non-pair")
                env[pat[1]] = ty[1]
                env[pat[2]] = ty[2]
                out.append("let (%s, %s) := %s" % (pat[1], pat[2], term))
            else:
                env[pat[1]] = ty
                out.append("let %s := %s" % (pat[1], term))
        term, ty = to_lean(e, env)
        return ("\n  ".join(out + [term]), ty)
    if k == "if":
        c, cty = to_lean(ast[1], env)
        if cty != "B":
            raise Unsupported("if condition not bool")
        t, tty = to_lean(ast[2], env)
        f, fty = to_lean(ast[3], env)
        if tty != fty:
            raise Unsupported("if branches differ in type: %s vs %s" % (tty, fty))
        if "let " in t:
            t = "(%s)" % t
        if "let " in f:
            f = "(%s)" % f
        return ("if %s then %s else %s" % (c, t, f), tty)
    if k == "var":
        name = ast[1]
        if name == "self":
            return ("self", "U")
        if name not in env:
            raise Unsupported("unknown variable " + name)
        return (name, env[name])
    if k == "num":
        return (str(ast[1]), "Lit")
    if k == "bool":
        return (ast[1], "B")
    if k == "none":
        return ("none", "OptU")
    if k == "some":
        t, ty = to_lean(ast[1], env)
        if ty != "U":
            raise Unsupported("Some(non-U)")
        return ("some %s" % paren(t), "OptU")
    if k == "not":
        t, ty = to_lean(ast[1], env)
        if ty != "B":
            raise Unsupported("! on non-bool")
        return ("(!%s)" % paren(t), "B")
    if k == "as":
        t, ty = to_lean(ast[1], env)
        if ast[2] != "Self" or ty not in ("U", "I"):
            raise Unsupported("unsupported cast `as %s` from %s" % (ast[2], ty))
        return ("(asSelf %s)" % paren(t), "U")
    if k == "call":
        _, name, recv, args = ast
        r, rt = to_lean(recv, env)
        if (rt, name) not in METHODS:
            raise Unsupported("unsupported method %s on %s" % (name, rt))
        fn, argtys, rty = METHODS[(rt, name)]
        ts = []
        for a, want in zip(args, argtys):
            t, ty = to_lean(a, env)
            if ty != want:
                raise Unsupported("argument type %s, wanted %s" % (ty, want))
            ts.append(paren(t))
        if len(args) != len(argtys):
            raise Unsupported("arity")
        return ("(%s)" % " ".join([fn, paren(r)] + ts), rty)
    if k == "const":
        return ({"MAX": "uMax", "MIN": "0"}[ast[2]], "U")
    if k == "tuple":
        parts = [to_lean(x, env) for x in ast[1]]
        if any(ty != "B" for _, ty in parts):
            raise Unsupported("tuple of non-bools")
        return ("(%s)" % ", ".join(t for t, _ in parts), ("btuple", len(parts)))
    if k == "match":
        _, scrut, arms = ast
        st, sty = to_lean(scrut, env)
        if sty == "B":
            width = None
        elif isinstance(sty, tuple) and sty[0] == "btuple":
            width = sty[1]
        else:
            raise Unsupported("match on %s" % (sty,))

        def pat(p):
            if p[0] == "plit":
                if width is not None and p[1] != "_":
                    raise Unsupported("scalar pattern for a tuple")
                return p[1]
            if width is None or len(p[1]) != width or any(q[0] != "plit" for q in p[1]):
                raise Unsupported("pattern shape")
            return "(%s)" % ", ".join(q[1] for q in p[1])
        out, rty = [], None
        for pats, body in arms:
            bt, bty = to_lean(body, env)
            if rty is None:
                rty = bty
            elif rty != bty:
                raise Unsupported("match arms differ in type")
            out.append("| %s => %s" % (" | ".join(pat(p) for p in pats), paren(bt)))
        return ("(match %s with %s)" % (st, " ".join(out)), rty)
    if k == "bin":
        _, op, a, b = ast
        ta, tya = to_lean(a, env)
        tb, tyb = to_lean(b, env)
        if op in CMP:
            if tya in ("I", "U") and tyb == "Lit":
                pre = "s" if tya == "I" else "u"
                return ("(%s%sLit %s %s)" % (pre, CMP[op], paren(ta), paren(tb)), "B")
            if tya == tyb and tya in ("I", "U"):
                pre = "s" if tya == "I" else "u"
                return ("(%s%s %s %s)" % (pre, CMP[op], paren(ta), paren(tb)), "B")
            if tya == "B" and tyb == "B" and op in ("==", "!="):
                return ("(%s %s %s)" % (paren(ta), "==" if op == "==" else "!=", paren(tb)), "B")
            raise Unsupported("comparison %s between %s and %s" % (op, tya, tyb))
        if tya == "B" and tyb == "B":
            lean_op = {"^": "^^", "|": "||", "&": "&&", "||": "||", "&&": "&&"}.get(op)
            if not lean_op:
                raise Unsupported("bool op " + op)
            return ("(%s %s %s)" % (paren(ta), lean_op, paren(tb)), "B")
        raise Unsupported("binary %s on %s,%s" % (op, tya, tyb))
    raise Unsupported("node " + k)


def paren(t):
    t = t.strip()
    if re.fullmatch(r"[A-Za-z_][A-Za-z0-9_]*|-?\d+", t) or (t.startswith("(") and t.endswith(")") and balanced(t[1:-1])):
        return t if not t.startswith("-") else "(%s)" % t
    return "(%s)" % t


def balanced(s):
    d = 0
    for ch in s:
        if ch == "(":
            d += 1
        elif ch == ")":
            d -= 1
            if d < 0:
                return False
    return d == 0


def translate_fn_body(body_src, params):
    """body_src: text between the fn's outer braces.  params: dict name->type."""
    p = Parser(tokenize(body_src))
    ast = p.block(braces=False)
    if p.peek()[0] != "eof":
        raise Unsupported("trailing tokens: %s" % (p.peek(),))
    return to_lean(ast, params)
