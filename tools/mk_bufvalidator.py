#!/usr/bin/env python3
"""Regenerate lean/MediaSan/Vp8l/BufValidator.lean from lean/MediaSan/Vp8l/Lossless.lean by renaming: every reader
function gets a `B` suffix and reads through the buffered reader (`bbRead`, `bbReadBit`, `bbReadSym`, `bbEnsure`,
`pixelLoopBuf`).  `--check` exits 1 if the committed file differs from what would be generated."""
import re, sys, os
ROOT = os.path.join(os.path.dirname(os.path.abspath(__file__)), "..", "lean", "MediaSan", "Vp8l")
src = open(os.path.join(ROOT, "Lossless.lean")).read()
a = src.index("/-- `ColorCache::read`")
b = src.index("/-- the verdict of `LosslessImage::read` on a payload")
body = src[a:b]
def cut(text, start_marker, end_marker):
    i = text.index(start_marker); j = text.index(end_marker, i)
    return text[:i] + text[j:]
body = cut(body, "def cacheLen", "/-- `CodeLengthPrefixCode::read`")
body = cut(body, "/-- the symbols a simple code names", "/-- `PrefixCodeGroup::read_prefix_code`")
body = cut(body, "structure Group where", "/-- `PrefixCodeGroup::read` (lossless.rs:519-526) -/")
body = cut(body, "/-- distance code → pixel distance", "/-- `EntropyCodedImage::read` (lossless.rs:295-358)")
body = cut(body, "inductive TransformType where", "/-- `Transform::read`")
for n in ['readColorCache', 'readCodeLengthCode', 'readCodeLengths', 'readPrefixCode', 'readGroups', 'readGroup',
          'readEntropyImage', 'readTransforms', 'readTransform', 'readSpatial', 'readLossless']:
    body = re.sub(r'\b' + n + r'\b', n + 'B', body)
body = re.sub(r'\breadBits\b', 'bbRead', body)
body = re.sub(r'\breadBit\b', 'bbReadBit', body)
body = re.sub(r'\breadSym\b', 'bbReadSym', body)
body = re.sub(r'\bensure\b', 'bbEnsure', body)
body = re.sub(r'\bpixelLoop\b', 'pixelLoopBuf', body)
body = re.sub(r'\bBR\b', 'BB', body)
HEAD = '''/-
  The whole lossless validator over the BUFFERED reader: a transcription of Vp8l/Lossless.lean (same functions, `B`
  suffix) in which every read goes through `BitBuf` the way the code's does - `read` / `read_bit` / `read_huffman`
  refill on demand, the sub-image loop is `pixelLoopBuf` (guarded refill + buffer-only accessors).  GENERATED from
  Lossless.lean by renaming (tools/mk_bufvalidator.py); the driver executes it at the capacities of the in-situ runs
  (C19) against webpsan's verdicts.  Proved equal to the model so far: the sub-image loop (`C19_pixel_loop_buffered`)
  and each refilling read (`C19_read_model`, `C19_read_huffman_model`).
-/
import MediaSan.Vp8l.BufLoop
namespace MediaSan.Vp8l
open MediaSan MediaSan.Generated

/-- `read(n)` / `read_huffman` / `read_bit`: refill on demand; UnexpectedEof becomes TruncatedChunk -/
def bbRead (n : Nat) : BB Nat := fun s =>
  match s.read n with
  | some r => .ok r
  | none => .error .truncated

def bbReadSym (c : Code) : BB Nat := fun s =>
  match s.readSym c with
  | some r => .ok r
  | none => .error .truncated

def bbReadBit : BB Bool := fun s =>
  match s.read 1 with
  | some (v, s') => .ok (v == 1, s')
  | none => .error .truncated

'''
TAIL = '''
/-- the verdict of `LosslessImage::read` through a bit buffer of `cap` bytes -/
def validateBuf (cap : Nat) (data : Bytes) (width height : Nat) (cfg : LCfg := .strict) : Except LErr Unit :=
  match readLosslessB cfg width height (BitBuf.new cap data) with
  | .ok _ => .ok ()
  | .error e => .error e

end MediaSan.Vp8l
'''
out = HEAD + body + TAIL
dst = os.path.join(ROOT, "BufValidator.lean")
if "--check" in sys.argv:
    sys.exit(0 if os.path.exists(dst) and open(dst).read() == out else 1)
open(dst, "w").write(out)
