#!/bin/bash
# Generator-quality measurement (DESIGN 5.3): which regions of signalapp/mp4san do the quick-tier generators of all
# twenty checks reach?  Builds an instrumented copy of the harness on the nightly toolchain in a scratch directory
# (default /tmp/verif-cov, removed afterwards unless KEEP=1), runs every generator once, prints a per-file table and the
# uncovered lines of the library sources.  Not part of any registered check; offline; takes about two minutes.
set -e
W=${COV_DIR:-/tmp/verif-cov}
B=$(ls -d ~/.rustup/toolchains/nightly-x86_64-unknown-linux-gnu/lib/rustlib/x86_64-unknown-linux-gnu/bin)
rm -rf "$W"; mkdir -p "$W/prof"
rsync -a --exclude target /verif/harness/ "$W/harness/"
cat > "$W/harness/.cargo/config.toml" <<EOC
[net]
offline = true
[build]
target-dir = "$W/target"
rustflags = ["--cfg", "signalapp_mp4san_verif", "-C", "overflow-checks=on", "-C", "debug-assertions=on", "-C", "instrument-coverage"]
EOC
(cd "$W/harness" && LLVM_PROFILE_FILE="$W/prof/build-%p.profraw" cargo +nightly build --release --offline 2>&1 | tail -1)
for p in C01 C02 C03 C04 C05 C06 C07 C08 C09 C10 C11 C12 C13 C14 C15 C16 C17 C18 C19 C20; do
  (cd "$W" && LLVM_PROFILE_FILE="$W/prof/$p.profraw" "$W/target/release/verif-harness" $p --tier ${TIER:-quick} --seed ${SEED:-0} > /dev/null 2>&1) || true
done
"$B/llvm-profdata" merge -sparse "$W"/prof/C*.profraw -o "$W/all.profdata"
"$B/llvm-cov" report "$W/target/release/verif-harness" -instr-profile="$W/all.profdata" --ignore-filename-regex='(\.cargo|rustc|/tmp/|/verif/)' 2>/dev/null \
  | grep -E "src/|^TOTAL" | awk '{printf "%-40s regions %5s missed %4s (%s)   lines %5s missed %4s (%s)\n", $1,$2,$3,$4,$8,$9,$10}'
if [ -n "${SHOW:-}" ]; then
  for f in $(cd /repo && ls common/src/*.rs common/src/parse/*.rs mp4san/src/*.rs mp4san/src/parse/*.rs webpsan/src/*.rs webpsan/src/parse/*.rs 2>/dev/null); do
    miss=$("$B/llvm-cov" show "$W/target/release/verif-harness" -instr-profile="$W/all.profdata" /repo/$f 2>/dev/null | grep -E "^ +[0-9]+\| +0\|" | cut -c1-140)
    [ -n "$miss" ] && { echo "=== $f"; echo "$miss"; }
  done
fi
find /repo -name "*.profraw" -delete
[ -n "${KEEP:-}" ] || rm -rf "$W"
