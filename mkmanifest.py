#!/usr/bin/env python3
"""Regenerates MANIFEST.json from props.py (claimed checks) — keeps the manifest valid and in sync."""
import json, os, sys
ROOT = os.path.dirname(os.path.abspath(__file__))
sys.path.insert(0, ROOT)
from props import PROPS, MANIFEST_TEXT, NOT_APPLICABLE

ALL = ["C%02d" % i for i in range(1, 21)]
checks = []
for pid in ALL:
    if pid not in PROPS:
        continue
    t = MANIFEST_TEXT[pid]
    checks.append({
        "property_id": pid,
        "quick_cmd": "./check %s --tier quick" % pid,
        "thorough_cmd": "./check %s --tier thorough" % pid,
        "evidence_file": "/verif/evidence/%s.json" % pid,
        "replay_cmd_template": "./check %s --replay {path}" % pid,
        "engine": "lean4-proof+correspondence",
        "level_claimed": {"category": "proof", "text": t["text"], "design_ref": t.get("design_ref", "DESIGN.md section 7, " + pid)},
        "level_note": t["note"],
        "technique": t["technique"],
    })
man = {
    "version": 1,
    "setup_cmd": "./setup.sh",
    "hooks": {
        "guard": "signalapp_mp4san_verif",
        "enable": "RUSTFLAGS='--cfg signalapp_mp4san_verif -C overflow-checks=on -C debug-assertions=on' (set in /verif/harness/.cargo/config.toml; the harness depends on /repo's crates by path)",
        "baseline_off_cmd": "cd /repo && cargo test --workspace --no-fail-fast --offline",
        "source_commits": [],
        "add_only": True,
    },
    "engines": [{
        "name": "lean4-proof+correspondence",
        "path": "/verif/check",
        "serves_properties": [c["property_id"] for c in checks],
        "kind_free_text": "Lean 4 theorems about an executable model (lean/MediaSan), model fragments regenerated from the Rust source by extract/extract.py, hand-written model tied to the real crates by a differential harness (harness/) driving a compiled Lean driver (lean/Driver)",
    }],
    "checks": checks,
    "not_applicable": [{"property_id": p, "reason": NOT_APPLICABLE.get(p, "check not built yet (work in progress; DESIGN.md section 7 gives the plan) — not claimed")} for p in ALL if p not in PROPS],
    "notes": "All checks share one pipeline (extract -> lake build Props.Cxx + axiom audit -> cargo build harness against /repo working tree -> correspondence through the Lean driver -> verdict). See DESIGN.md.",
}
if os.path.exists(os.path.join(ROOT, "hooks.json")):
    man["hooks"]["source_commits"] = json.load(open(os.path.join(ROOT, "hooks.json")))["source_commits"]
json.dump(man, open(os.path.join(ROOT, "MANIFEST.json"), "w"), indent=1)
print("MANIFEST.json: %d checks, %d not claimed" % (len(checks), len(man["not_applicable"])))
