// Compiles refdec/shim.c against the libwebp sources vendored inside the libwebp-sys crate of the offline registry.
use std::path::PathBuf;

fn main() {
    println!("cargo:rerun-if-changed=refdec/shim.c");
    let home = std::env::var("CARGO_HOME").unwrap_or_else(|_| format!("{}/.cargo", std::env::var("HOME").unwrap()));
    let mut vendor: Option<PathBuf> = None;
    for reg in std::fs::read_dir(format!("{home}/registry/src")).expect("cargo registry") {
        let reg = reg.unwrap().path();
        if let Ok(rd) = std::fs::read_dir(&reg) {
            for e in rd {
                let p = e.unwrap().path();
                let name = p.file_name().unwrap().to_string_lossy().to_string();
                if name.starts_with("libwebp-sys-") && p.join("vendor/src/dec/vp8li_dec.h").exists() {
                    vendor = Some(p.join("vendor"));
                }
            }
        }
    }
    let vendor = vendor.expect("vendored libwebp sources (libwebp-sys) not found in the cargo registry");
    cc::Build::new().file("refdec/shim.c").include(&vendor).warnings(false).compile("verif_refdec");
}
