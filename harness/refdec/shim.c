/* C shim over the vendored libwebp's *internal* header-phase decoders (C07/C08 reference).
   VP8LDecodeHeader: VP8L signature/dimensions + DecodeImageStream(is_level0=1, no pixel data):
   transforms with their sub-images, colour cache, meta prefix image and all prefix-code groups. */
#include <stdint.h>
#include <string.h>
#include <stdlib.h>
#include "src/dec/vp8li_dec.h"
#include "src/dec/alphai_dec.h"
#include "src/dec/webpi_dec.h"

/* returns: 1 ok; 0 failed with *status = VP8StatusCode (3 = BITSTREAM_ERROR, 5 = SUSPENDED/not enough data, ...) */
int verif_vp8l_decode_header(const uint8_t* data, size_t size, int* status, int* width, int* height) {
  VP8Io io;
  VP8LDecoder* dec;
  int ok;
  *status = -1; *width = 0; *height = 0;
  if (!VP8InitIoInternal(&io, WEBP_DECODER_ABI_VERSION)) return 0;
  io.data = data;
  io.data_size = size;
  dec = VP8LNew();
  if (dec == NULL) return 0;
  ok = VP8LDecodeHeader(dec, &io);
  *status = (int)dec->status_;
  *width = io.width; *height = io.height;
  VP8LDelete(dec);
  return ok;
}

/* lossless-compressed ALPH payload (after the 1-byte ALPH header), for the given image dimensions */
int verif_alpha_decode_header(const uint8_t* data, size_t size, int width, int height, int* status) {
  ALPHDecoder* alph = (ALPHDecoder*)calloc(1, sizeof(*alph));
  int ok;
  *status = -1;
  if (alph == NULL) return 0;
  alph->width_ = width;
  alph->height_ = height;
  if (!VP8InitIoInternal(&alph->io_, WEBP_DECODER_ABI_VERSION)) { free(alph); return 0; }
  WebPInitCustomIo(NULL, &alph->io_);
  ok = VP8LDecodeAlphaHeader(alph, data, size);
  if (ok && alph->vp8l_dec_ != NULL) {
    *status = (int)alph->vp8l_dec_->status_;
    VP8LDelete(alph->vp8l_dec_);
  } else {
    *status = 3;
  }
  free(alph);
  return ok;
}
