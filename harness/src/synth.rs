//! Synthesis of VP8L header-phase streams from the lossless specification's grammar (RFC 9649):
//! valid by construction, with optional single rule violations.  Independent of webpsan's code: has its own
//! LSB-first bit writer and canonical-code assignment.
use crate::rng::Rng;

pub struct BitWriter {
    pub bytes: Vec<u8>,
    nbits: usize,
}

impl BitWriter {
    pub fn new() -> Self {
        BitWriter { bytes: vec![], nbits: 0 }
    }
    pub fn bit(&mut self, b: bool) {
        if self.nbits % 8 == 0 {
            self.bytes.push(0);
        }
        if b {
            let i = self.nbits / 8;
            self.bytes[i] |= 1 << (self.nbits % 8);
        }
        self.nbits += 1;
    }
    /// `n` bits of `v`, least significant first
    pub fn bits(&mut self, v: u32, n: u32) {
        for k in 0..n {
            self.bit((v >> k) & 1 == 1);
        }
    }
    /// a prefix code word: most significant bit first
    pub fn code(&mut self, code: u32, len: u32) {
        for k in (0..len).rev() {
            self.bit((code >> k) & 1 == 1);
        }
    }
}

/// canonical code words for a length vector (RFC 1951 / RFC 9649 §3.7.2.2): (code, len) per symbol
pub fn canonical(lens: &[u8]) -> Vec<(u32, u32)> {
    let mut bl_count = [0u32; 17];
    for &l in lens {
        bl_count[l as usize] += 1;
    }
    bl_count[0] = 0;
    let mut next = [0u32; 17];
    let mut code = 0u32;
    for b in 1..=16 {
        code = (code + bl_count[b - 1]) << 1;
        next[b] = code;
    }
    lens.iter()
        .map(|&l| {
            if l == 0 {
                (0, 0)
            } else {
                let c = next[l as usize];
                next[l as usize] += 1;
                (c, l as u32)
            }
        })
        .collect()
}

#[derive(Clone, Debug)]
pub enum CodeSpec {
    /// simple code, one symbol; `eight`: written with the 8-bit form
    Simple1(u16, bool),
    /// simple code, two symbols (first may use the 1-bit form when < 2)
    Simple2(u16, u16, bool),
    /// normal code: lengths for symbols 0..n (n <= alphabet), written with or without max_symbol
    Normal(Vec<u8>, bool),
}

#[derive(Clone, Debug, Default)]
pub struct Violations {
    pub what: Vec<&'static str>,
}

/// how symbols of a code are written once the code is known
pub struct Enc {
    words: Vec<(u32, u32)>, // per symbol; len 0 = absent
    pub symbols: Vec<u16>,  // usable symbols
    zero_bits: bool,
}

impl Enc {
    pub fn of(spec: &CodeSpec) -> Enc {
        match spec {
            CodeSpec::Simple1(s, _) => {
                let mut words = vec![(0, 0); *s as usize + 1];
                words[*s as usize] = (0, 0);
                Enc { words, symbols: vec![*s], zero_bits: true }
            }
            CodeSpec::Simple2(a, b, _) => {
                let n = (*a).max(*b) as usize + 1;
                let mut words = vec![(0, 0); n];
                if a == b {
                    // RFC: both entries name the same symbol -> a single-symbol code (zero bits)
                    Enc { words, symbols: vec![*a], zero_bits: true }
                } else {
                    // canonical order: the smaller symbol gets code 0
                    let (lo, hi) = if a < b { (*a, *b) } else { (*b, *a) };
                    words[lo as usize] = (0, 1);
                    words[hi as usize] = (1, 1);
                    Enc { words, symbols: vec![lo, hi], zero_bits: false }
                }
            }
            CodeSpec::Normal(lens, _) => {
                let used: Vec<u16> = lens.iter().enumerate().filter(|(_, &l)| l > 0).map(|(i, _)| i as u16).collect();
                let words = canonical(lens);
                let zero = used.len() == 1;
                Enc { words, symbols: used, zero_bits: zero }
            }
        }
    }
    pub fn put(&self, w: &mut BitWriter, sym: u16) {
        if self.zero_bits {
            return;
        }
        let (c, l) = self.words[sym as usize];
        w.code(c, l);
    }
}

const CODE_ORDER: [usize; 19] = [17, 18, 0, 1, 2, 3, 4, 5, 16, 6, 7, 8, 9, 10, 11, 12, 13, 14, 15];

/// complete length vector over `syms` distinct symbols below `alphabet` (Kraft sum exactly 1), max length `maxlen`
pub fn complete_lengths(rng: &mut Rng, alphabet: usize, nsyms: usize, maxlen: u8, pick_syms: &mut dyn FnMut(&mut Rng) -> usize) -> Vec<u8> {
    // build a random full binary tree with nsyms leaves by splitting
    let mut depths: Vec<u8> = vec![0];
    while depths.len() < nsyms {
        let cands: Vec<usize> = (0..depths.len()).filter(|&i| depths[i] < maxlen).collect();
        if cands.is_empty() {
            break;
        }
        let i = *rng.pick(&cands);
        let d = depths[i] + 1;
        depths[i] = d;
        depths.push(d);
    }
    let mut lens = vec![0u8; alphabet];
    let mut placed = 0;
    let mut guard = 0;
    while placed < depths.len() && guard < 100000 {
        guard += 1;
        let s = pick_syms(rng) % alphabet;
        if lens[s] == 0 {
            lens[s] = depths[placed].max(1);
            placed += 1;
        }
    }
    // a single symbol must have length 1 to be accepted by everyone
    lens
}

/// write a normal (code-length coded) prefix code for the given lengths
pub fn write_normal(w: &mut BitWriter, rng: &mut Rng, lens: &[u8], alphabet: usize, use_max_symbol: bool, viol: &mut Violations, want: Option<&'static str>) {
    w.bit(false); // normal code
    // run-length encode the lengths with codes 0..18
    let mut toks: Vec<(u8, u32, u32)> = vec![]; // (code, extra value, extra bits)
    let mut i = 0;
    let n = if use_max_symbol {
        // trailing zeros need not be written
        let mut last = lens.len();
        while last > 0 && lens[last - 1] == 0 {
            last -= 1;
        }
        last.max(1)
    } else {
        alphabet
    };
    let mut prev_nonzero = 8u8;
    while i < n {
        let l = if i < lens.len() { lens[i] } else { 0 };
        let mut run = 1;
        while i + run < n && (if i + run < lens.len() { lens[i + run] } else { 0 }) == l {
            run += 1;
        }
        if l == 0 && run >= 3 {
            let r = run.min(138);
            if r >= 11 {
                toks.push((18, (r - 11) as u32, 7));
            } else {
                toks.push((17, (r - 3) as u32, 3));
            }
            i += r;
        } else if l != 0 && l == prev_nonzero && run >= 3 && rng.chance(2, 3) {
            let r = run.min(6);
            toks.push((16, (r - 3) as u32, 2));
            i += r;
        } else {
            toks.push((l, 0, 0));
            if l != 0 {
                prev_nonzero = l;
            }
            i += 1;
        }
    }
    if want == Some("repeat-overrun") {
        // a repeat run that passes the end of the alphabet
        toks.push((18, 127, 7));
        toks.push((18, 127, 7));
        for _ in 0..(alphabet / 138 + 1) {
            toks.push((18, 127, 7));
        }
        viol.what.push("repeat-overrun");
    }
    // code-length code: lengths (<= 7) for the 19 symbols, complete over the used ones
    let mut used = [false; 19];
    for t in &toks {
        used[t.0 as usize] = true;
    }
    let nused = used.iter().filter(|&&u| u).count();
    let mut cl_lens = [0u8; 19];
    if nused == 1 {
        let s = used.iter().position(|&u| u).unwrap();
        cl_lens[s] = 1;
    } else {
        let idx: Vec<usize> = (0..19).filter(|&i| used[i]).collect();
        let mut k = 0;
        let v = complete_lengths(rng, 19, nused, 7, &mut |_r| {
            let s = idx[k % idx.len()];
            k += 1;
            s
        });
        cl_lens.copy_from_slice(&v[..19]);
    }
    if want == Some("incomplete-code-length-code") && nused > 1 {
        // make one length longer: Kraft sum < 1
        let s = (0..19).find(|&i| cl_lens[i] > 0 && cl_lens[i] < 7).unwrap_or(0);
        cl_lens[s] += 1;
        viol.what.push("incomplete-code-length-code");
    }
    let mut count = 19;
    while count > 4 && cl_lens[CODE_ORDER[count - 1]] == 0 {
        count -= 1;
    }
    w.bits((count - 4) as u32, 4);
    for k in 0..count {
        w.bits(cl_lens[CODE_ORDER[k]] as u32, 3);
    }
    let cl_words = canonical(&cl_lens);
    let cl_single = nused == 1;
    // max_symbol
    if use_max_symbol {
        w.bit(true);
        let mut ntok = toks.len() as u32;
        if want == Some("max-symbol-gt-alphabet") {
            // just above the alphabet, or at the top of the widest (16-bit) field, where 2 + value leaves a u16
            ntok = match rng.below(4) {
                0 => 2 + 0xffff,
                1 => 2 + 0xfffe,
                2 => 2 + 0xfffd - rng.below(3) as u32,
                _ => alphabet as u32 + 1 + rng.below(3) as u32,
            };
            viol.what.push("max-symbol-gt-alphabet");
        }
        // length_nbits = 2 + 2*k, value = ntok - 2 must fit
        let v = ntok.max(2) - 2;
        let mut k = 0;
        while k < 7 && (v >> (2 + 2 * k)) != 0 {
            k += 1;
        }
        w.bits(k, 3);
        w.bits(v, 2 + 2 * k);
        if ntok < 2 {
            // cannot express fewer than 2 reads: pad the token list with explicit zeros
            while toks.len() < 2 {
                toks.push((0, 0, 0));
            }
        }
    } else {
        w.bit(false);
    }
    for (c, extra, nb) in toks {
        if !cl_single {
            let (cw, cl) = cl_words[c as usize];
            w.code(cw, cl);
        }
        if nb > 0 {
            w.bits(extra, nb);
        }
    }
}

pub fn write_code(w: &mut BitWriter, rng: &mut Rng, spec: &CodeSpec, alphabet: usize, viol: &mut Violations, want: Option<&'static str>) {
    match spec {
        CodeSpec::Simple1(s, eight) => {
            w.bit(true);
            w.bit(false);
            if *eight || *s > 1 {
                w.bit(true);
                w.bits(*s as u32, 8);
            } else {
                w.bit(false);
                w.bits(*s as u32, 1);
            }
        }
        CodeSpec::Simple2(a, b, eight) => {
            w.bit(true);
            w.bit(true);
            if *eight || *a > 1 {
                w.bit(true);
                w.bits(*a as u32, 8);
            } else {
                w.bit(false);
                w.bits(*a as u32, 1);
            }
            w.bits(*b as u32, 8);
        }
        CodeSpec::Normal(lens, use_max) => write_normal(w, rng, lens, alphabet, *use_max, viol, want),
    }
}

/// pick a code for an alphabet; `must`: symbols that have to be present
pub fn pick_code(rng: &mut Rng, alphabet: usize, must: &[u16], prefer_small: bool) -> CodeSpec {
    let choice = rng.below(10);
    if must.len() <= 1 && choice < 3 {
        let s = must.first().copied().unwrap_or(rng.below(alphabet.min(256) as u64) as u16);
        if s < 256 {
            return CodeSpec::Simple1(s, rng.chance(1, 2));
        }
    }
    if must.len() <= 2 && choice < 6 && must.iter().all(|&s| s < 256) {
        let a = must.first().copied().unwrap_or(rng.below(alphabet.min(256) as u64) as u16);
        let b = must.get(1).copied().unwrap_or_else(|| {
            if rng.chance(1, 6) {
                a
            } else {
                rng.below(alphabet.min(256) as u64) as u16
            }
        });
        // the first symbol is the one that may use the short form; keep the order as given
        return CodeSpec::Simple2(a, b, rng.chance(1, 2));
    }
    let extra = if prefer_small { rng.below(4) } else { rng.below(12) } as usize;
    let nsyms = (must.len() + extra).clamp(1, alphabet.min(40));
    let mut k = 0;
    let must_v = must.to_vec();
    let mut lens = complete_lengths(rng, alphabet, nsyms, 15.min(nsyms as u8 + 1), &mut |r| {
        let s = if k < must_v.len() { must_v[k] as usize } else { r.below(alphabet as u64) as usize };
        k += 1;
        s
    });
    if lens.iter().filter(|&&l| l > 0).count() == 1 {
        for l in lens.iter_mut() {
            if *l > 0 {
                *l = 1;
            }
        }
    }
    CodeSpec::Normal(lens, rng.chance(1, 2))
}

/// an entropy-coded sub-image of `total` pixels in rows of `width`; `green_max`: largest literal green allowed
pub fn write_entropy_image(w: &mut BitWriter, rng: &mut Rng, width: u32, total: u32, green_max: u16, viol: &mut Violations, want: Option<&'static str>) {
    // colour cache
    let mut cache_bits = 0u32;
    match want {
        Some("cache-bits-0") => {
            w.bit(true);
            w.bits(0, 4);
            viol.what.push("cache-bits-0");
        }
        Some("cache-bits-12") => {
            w.bit(true);
            w.bits(12 + rng.below(4) as u32, 4);
            viol.what.push("cache-bits-12");
        }
        _ => {
            if rng.chance(1, 4) {
                cache_bits = 1 + rng.below(11) as u32;
                w.bit(true);
                w.bits(cache_bits, 4);
            } else {
                w.bit(false);
            }
        }
    }
    let cache_len = if cache_bits > 0 { 1u32 << cache_bits } else { 0 };
    let green_alphabet = 256 + 24 + cache_len as usize;
    // decide which kinds of symbols the image uses
    let use_backref = total >= 3 && rng.chance(1, 2);
    let use_cache = cache_len > 0 && rng.chance(1, 2);
    let mut green_must: Vec<u16> = vec![rng.below(green_max as u64 + 1) as u16];
    if rng.chance(1, 2) {
        green_must.push(rng.below(green_max as u64 + 1) as u16);
    }
    if want == Some("predictor-gt-13") {
        green_must = vec![14 + rng.below(2) as u16];
        viol.what.push("predictor-gt-13");
    }
    let len_sym: u16 = 256 + rng.below(8) as u16; // short lengths
    if use_backref {
        green_must.push(len_sym);
    }
    let cache_sym: u16 = 280 + rng.below(cache_len.max(1) as u64) as u16;
    if use_cache {
        green_must.push(cache_sym);
    }
    green_must.sort();
    green_must.dedup();
    let green = pick_code(rng, green_alphabet, &green_must, false);
    let red = pick_code(rng, 256, &[], true);
    let blue = pick_code(rng, 256, &[], true);
    let alpha = pick_code(rng, 256, &[], true);
    let mut dist_must: Vec<u16> = vec![];
    if use_backref {
        dist_must.push(rng.below(4) as u16); // plane codes 1..4 -> tiny distances, or clamped to 1
    }
    let mut dist = pick_code(rng, 40, &dist_must, true);
    if want == Some("distance-symbol-outside-alphabet") {
        dist = CodeSpec::Simple1(40 + rng.below(216) as u16, true);
        viol.what.push("distance-symbol-outside-alphabet");
    }
    if want == Some("green-simple-same-symbol-twice") {
        // a corner case, not a violation: two-symbol simple code naming the same symbol twice
        let s = green_must[0].min(255);
        let g = CodeSpec::Simple2(s, s, true);
        return write_entropy_tail(w, rng, width, total, g, red, blue, alpha, dist, green_alphabet, false, false, len_sym, cache_sym, viol, None, green_max);
    }
    write_entropy_tail(w, rng, width, total, green, red, blue, alpha, dist, green_alphabet, use_backref, use_cache, len_sym, cache_sym, viol, want, green_max)
}

#[allow(clippy::too_many_arguments)]
fn write_entropy_tail(
    w: &mut BitWriter, rng: &mut Rng, width: u32, total: u32, green: CodeSpec, red: CodeSpec, blue: CodeSpec, alpha: CodeSpec, dist: CodeSpec,
    green_alphabet: usize, use_backref: bool, use_cache: bool, len_sym: u16, cache_sym: u16, viol: &mut Violations, want: Option<&'static str>,
    green_max: u16,
) {
    let code_want = |k: usize| -> Option<&'static str> {
        match want {
            Some("repeat-overrun") | Some("max-symbol-gt-alphabet") | Some("incomplete-code-length-code") if k == 0 => want,
            _ => None,
        }
    };
    // for the code-level violations force the green code to the normal form
    let green = match (want, &green) {
        (Some("repeat-overrun") | Some("max-symbol-gt-alphabet") | Some("incomplete-code-length-code"), CodeSpec::Normal(..)) => green,
        (Some("repeat-overrun") | Some("incomplete-code-length-code"), _) => {
            let mut lens = vec![0u8; green_alphabet];
            lens[0] = 1;
            lens[1] = 2;
            lens[2] = 2;
            CodeSpec::Normal(lens, false)
        }
        (Some("max-symbol-gt-alphabet"), _) => {
            let mut lens = vec![0u8; green_alphabet];
            lens[0] = 1;
            lens[1] = 1;
            CodeSpec::Normal(lens, true)
        }
        _ => green,
    };
    let green = match (want, green) {
        (Some("max-symbol-gt-alphabet"), CodeSpec::Normal(l, _)) => CodeSpec::Normal(l, true),
        (Some("incomplete-code"), _) => {
            let mut lens = vec![0u8; green_alphabet];
            lens[0] = 2;
            lens[1] = 2;
            lens[2] = 2; // Kraft 3/4
            viol.what.push("incomplete-code");
            CodeSpec::Normal(lens, false)
        }
        (Some("oversubscribed-code"), _) => {
            let mut lens = vec![0u8; green_alphabet];
            lens[0] = 1;
            lens[1] = 1;
            lens[2] = 1; // Kraft 3/2
            viol.what.push("oversubscribed-code");
            CodeSpec::Normal(lens, false)
        }
        (Some("single-symbol-length-2"), _) => {
            let mut lens = vec![0u8; green_alphabet];
            lens[0] = 2; // documented strictness: a single used symbol whose length is not 1
            viol.what.push("single-symbol-length-2");
            CodeSpec::Normal(lens, false)
        }
        (_, g) => g,
    };
    write_code(w, rng, &green, green_alphabet, viol, code_want(0));
    write_code(w, rng, &red, 256, viol, None);
    write_code(w, rng, &blue, 256, viol, None);
    write_code(w, rng, &alpha, 256, viol, None);
    write_code(w, rng, &dist, 40, viol, None);
    let ge = Enc::of(&green);
    let re = Enc::of(&red);
    let be = Enc::of(&blue);
    let ae = Enc::of(&alpha);
    let de = Enc::of(&dist);
    // literal greens the image may use (a predictor image may only hold modes 0..=13)
    let literals: Vec<u16> = ge.symbols.iter().copied().filter(|&s| s < 256 && (s <= green_max || want == Some("predictor-gt-13"))).collect();
    let mut idx = 0u32;
    let mut guard = 0;
    while idx < total && guard < 5_000_000 {
        guard += 1;
        let can_backref = use_backref && idx >= 1 && ge.symbols.contains(&len_sym) && !de.symbols.is_empty();
        let choice = rng.below(10);
        if can_backref && (choice < 3 || literals.is_empty()) {
            // length from len_sym (prefix codes 0..7: lengths 1..=4 direct, 5.. with extra bits)
            let pc = len_sym - 256;
            let (base, eb) = lz77_base(pc as u32);
            let extra = if eb > 0 { rng.below(1 << eb) as u32 } else { 0 };
            let mut len = base + extra;
            let remaining = total - idx;
            let mut over = false;
            if len > remaining {
                if want == Some("backref-past-end") {
                    over = true;
                } else {
                    // cannot use this back-reference here: fall through to a literal if possible
                    if !literals.is_empty() {
                        put_literal(w, rng, &ge, &re, &be, &ae, &literals);
                        idx += 1;
                        continue;
                    }
                    len = remaining;
                    let _ = len;
                    break;
                }
            }
            ge.put(w, len_sym);
            if eb > 0 {
                w.bits(extra, eb);
            }
            // distance symbol: any symbol of the distance code; distance must not exceed idx
            let ds = *rng.pick(&de.symbols);
            de.put(w, ds);
            if ds >= 40 {
                // outside the distance alphabet: the stream is invalid from here on
                return;
            }
            let (dbase, deb) = lz77_base(ds as u32);
            let dextra = if deb > 0 { rng.below(1 << deb) as u32 } else { 0 };
            if deb > 0 {
                w.bits(dextra, deb);
            }
            let dcode = dbase + dextra;
            let d = plane_distance(dcode, width);
            if d > idx {
                // before the start: a violation unless intended — mark it
                if want != Some("backref-before-start") {
                    viol.what.push("backref-before-start(unplanned)");
                } else {
                    viol.what.push("backref-before-start");
                }
                return;
            }
            if over {
                viol.what.push("backref-past-end");
                return;
            }
            idx += len;
        } else if use_cache && ge.symbols.contains(&cache_sym) && (choice < 5 || literals.is_empty()) {
            ge.put(w, cache_sym);
            idx += 1;
        } else if !literals.is_empty() {
            put_literal(w, rng, &ge, &re, &be, &ae, &literals);
            idx += 1;
        } else {
            break;
        }
        // when every code is zero-bit, the decoder fills the image from the first pixel
        if ge.zero_bits && re.zero_bits && be.zero_bits && ae.zero_bits {
            break;
        }
    }
}

fn put_literal(w: &mut BitWriter, rng: &mut Rng, ge: &Enc, re: &Enc, be: &Enc, ae: &Enc, literals: &[u16]) {
    let g = *rng.pick(literals);
    ge.put(w, g);
    re.put(w, *rng.pick(&re.symbols));
    be.put(w, *rng.pick(&be.symbols));
    ae.put(w, *rng.pick(&ae.symbols));
}

/// (base value, extra bits) of an LZ77 prefix code (RFC 9649 §5.2.2): value = base + extra, base >= 1
pub fn lz77_base(pc: u32) -> (u32, u32) {
    if pc < 4 {
        (pc + 1, 0)
    } else {
        let eb = (pc - 2) >> 1;
        let off = (2 + (pc & 1)) << eb;
        (off + 1, eb)
    }
}

const DIST_MAP: [(i32, i32); 120] = [
    (0, 1), (1, 0), (1, 1), (-1, 1), (0, 2), (2, 0), (1, 2), (-1, 2), (2, 1), (-2, 1), (2, 2), (-2, 2), (0, 3), (3, 0), (1, 3), (-1, 3), (3, 1), (-3, 1),
    (2, 3), (-2, 3), (3, 2), (-3, 2), (0, 4), (4, 0), (1, 4), (-1, 4), (4, 1), (-4, 1), (3, 3), (-3, 3), (2, 4), (-2, 4), (4, 2), (-4, 2), (0, 5), (3, 4),
    (-3, 4), (4, 3), (-4, 3), (5, 0), (1, 5), (-1, 5), (5, 1), (-5, 1), (2, 5), (-2, 5), (5, 2), (-5, 2), (4, 4), (-4, 4), (3, 5), (-3, 5), (5, 3), (-5, 3),
    (0, 6), (6, 0), (1, 6), (-1, 6), (6, 1), (-6, 1), (2, 6), (-2, 6), (6, 2), (-6, 2), (4, 5), (-4, 5), (5, 4), (-5, 4), (3, 6), (-3, 6), (6, 3), (-6, 3),
    (0, 7), (7, 0), (1, 7), (-1, 7), (5, 5), (-5, 5), (7, 1), (-7, 1), (4, 6), (-4, 6), (6, 4), (-6, 4), (2, 7), (-2, 7), (7, 2), (-7, 2), (3, 7), (-3, 7),
    (7, 3), (-7, 3), (5, 6), (-5, 6), (6, 5), (-6, 5), (8, 0), (4, 7), (-4, 7), (7, 4), (-7, 4), (8, 1), (8, 2), (6, 6), (-6, 6), (8, 3), (5, 7), (-5, 7),
    (7, 5), (-7, 5), (8, 4), (6, 7), (-6, 7), (7, 6), (-7, 6), (8, 5), (7, 7), (-7, 7), (8, 6), (8, 7),
];

/// RFC 9649 §5.2.2 distance mapping
pub fn plane_distance(dcode: u32, width: u32) -> u32 {
    if dcode > 120 {
        dcode - 120
    } else {
        let (dx, dy) = DIST_MAP[dcode as usize - 1];
        let d = dx + dy * width as i32;
        if d < 1 {
            1
        } else {
            d as u32
        }
    }
}

fn div_ceil(a: u32, b: u32) -> u32 {
    (a + b - 1) / b
}

pub const VIOLATIONS: [&str; 16] = [
    "duplicate-transform", "cache-bits-0", "cache-bits-12", "max-symbol-gt-alphabet", "repeat-overrun", "incomplete-code", "oversubscribed-code",
    "distance-symbol-outside-alphabet", "backref-before-start", "backref-past-end", "predictor-gt-13", "incomplete-code-length-code",
    // corner cases that are *valid* (C08): the reference accepts them
    "green-simple-same-symbol-twice", "single-symbol-length-2", "all-transforms", "none",
];

/// a whole VP8L chunk payload for a w x h image: header + header-phase stream.  Returns (payload, violations planted).
pub fn synth_vp8l(rng: &mut Rng, w: u32, h: u32, want: Option<&'static str>) -> (Vec<u8>, Violations) {
    let mut bw = BitWriter::new();
    let mut viol = Violations::default();
    bw.bits(0x2f, 8);
    bw.bits(w - 1, 14);
    bw.bits(h - 1, 14);
    bw.bit(rng.chance(1, 2));
    bw.bits(0, 3);
    write_lossless_stream(&mut bw, rng, w, h, want, &mut viol);
    // a few trailing bytes of "pixel data" the header phase never looks at
    let tail = rng.below(6) as usize;
    let mut bytes = bw.bytes;
    bytes.extend(rng.bytes(tail));
    (bytes, viol)
}

/// A VALID stream whose header phase is long (several buffer refills of the 4096-byte bit buffer): one or two
/// predictor / colour transforms with 4x4 blocks on an image of 256..511 pixels a side (sub-images of up to 128x128
/// entropy-coded pixels with random prefix codes of mixed lengths), then one plain prefix-code group.  Candidates are
/// drawn until a valid stream is at least `min_len` bytes long (or 60 tries).  Returns (lossless stream without the
/// 5-byte VP8L header, width, height).
pub fn long_header_stream(rng: &mut Rng, min_len: usize) -> (Vec<u8>, u32, u32) {
    let mut best: (Vec<u8>, u32, u32) = (vec![], 1, 1);
    for _ in 0..60 {
        let (w, h) = (256 + rng.below(256) as u32, 256 + rng.below(256) as u32);
        let mut bw = BitWriter::new();
        let mut viol = Violations::default();
        let seq: &[u32] = *rng.pick(&[&[0u32][..], &[1][..], &[0, 1][..], &[1, 0][..]]);
        for &t in seq {
            bw.bit(true);
            bw.bits(t, 2);
            bw.bits(0, 3);
            let (sw, sh) = (div_ceil(w, 4), div_ceil(h, 4));
            write_entropy_image(&mut bw, rng, sw, sw * sh, if t == 0 { 13 } else { 255 }, &mut viol, None);
        }
        bw.bit(false);
        bw.bit(false); // no colour cache
        bw.bit(false); // no meta prefix image
        for (k, alphabet) in [256 + 24, 256, 256, 256, 40].into_iter().enumerate() {
            let spec = pick_code(rng, alphabet, &[], k != 0);
            write_code(&mut bw, rng, &spec, alphabet, &mut viol, None);
        }
        if !viol.what.is_empty() {
            continue; // the random writer planted something by accident (it says so): not a valid stream
        }
        let mut bytes = bw.bytes;
        bytes.extend(rng.bytes(4));
        if bytes.len() > best.0.len() {
            best = (bytes, w, h);
        }
        if best.0.len() >= min_len {
            break;
        }
    }
    best
}

/// A VALID 1x1 VP8L payload whose one-pixel meta prefix image names group `groups - 1`, followed by that many groups
/// of five NORMAL prefix codes with many symbols and mixed code lengths (1..15): kilobytes of code-length-coded code
/// definitions, so that refills of the bit buffer fall inside symbols of the code-length codes and inside the
/// definitions' extra bits.
pub fn many_normal_groups(rng: &mut Rng, groups: u32) -> Vec<u8> {
    assert!((1..=65536).contains(&groups));
    let idx = groups - 1;
    let mut bw = BitWriter::new();
    let mut viol = Violations::default();
    bw.bits(0x2f, 8);
    bw.bits(0, 14);
    bw.bits(0, 14);
    bw.bit(false);
    bw.bits(0, 3);
    bw.bit(false); // no transform
    bw.bit(false); // no colour cache
    bw.bit(true); // meta prefix codes
    bw.bits(0, 3); // block size 4: a 1x1 entropy image
    bw.bit(false); // entropy image: no colour cache
    write_code(&mut bw, rng, &CodeSpec::Simple1((idx & 0xff) as u16, true), 280, &mut viol, None);
    write_code(&mut bw, rng, &CodeSpec::Simple1((idx >> 8) as u16, true), 256, &mut viol, None);
    for alphabet in [256, 256, 40] {
        write_code(&mut bw, rng, &CodeSpec::Simple1(0, false), alphabet, &mut viol, None);
    }
    for _ in 0..groups {
        for alphabet in [256 + 24usize, 256, 256, 256, 40] {
            let nsyms = (2 + rng.below(alphabet as u64 - 2) as usize).min(alphabet);
            let lens = complete_lengths(rng, alphabet, nsyms, 15, &mut |r| r.below(alphabet as u64) as usize);
            let use_max = rng.chance(1, 2);
            write_code(&mut bw, rng, &CodeSpec::Normal(lens, use_max), alphabet, &mut viol, None);
        }
    }
    assert!(viol.what.is_empty(), "{:?}", viol.what);
    let mut b = bw.bytes;
    b.extend_from_slice(&[0; 4]);
    b
}

/// An INVALID 1x1 stream: code number `which` (0 = green .. 4 = distance) of its only group is a normal code whose
/// explicit max_symbol is 2 + `field` in the widest (16-bit) field - above every alphabet -, written so that a reader
/// that lets the sum wrap to `2 + field - 65536` finds a valid stream: a code-length code with the single symbol 1,
/// hence zero-bit tokens, and everything after it valid.
pub fn hidden_max_symbol(which: usize, field: u32) -> Vec<u8> {
    let mut bw = BitWriter::new();
    bw.bits(0x2f, 8);
    bw.bits(0, 14);
    bw.bits(0, 14);
    bw.bit(false);
    bw.bits(0, 3);
    bw.bit(false); // no transform
    bw.bit(false); // no colour cache
    bw.bit(false); // no meta prefix image
    for k in 0..5 {
        if k == which {
            bw.bit(false); // normal code
            bw.bits(0, 4); // four code-length-code lengths, in CODE_ORDER: 17, 18, 0, 1
            bw.bits(0, 3);
            bw.bits(0, 3);
            bw.bits(0, 3);
            bw.bits(1, 3); // only symbol 1 is used: one-symbol code, zero bits per token
            bw.bit(true); // max_symbol follows
            bw.bits(7, 3); // length_nbits = 2 + 2*7 = 16
            bw.bits(field, 16);
        } else {
            bw.bit(true);
            bw.bit(false);
            bw.bit(false);
            bw.bit(false);
        }
    }
    let mut b = bw.bytes;
    b.extend_from_slice(&[0; 4]);
    b
}

/// An INVALID 1x1 stream whose number of prefix-code groups is decided by a two-symbol SIMPLE code that names the larger
/// symbol first.  Codes are canonical (the smaller symbol gets the bit 0 whatever order the stream names them in), so
/// the meta pixel bit 1 selects the larger symbol `hi` and `hi + 1` groups follow, of which group `lo + 1` is invalid (a
/// normal code whose code-length code uses no symbol).  A reader that assigns the bits in stream order reads `lo`,
/// takes `lo + 1` groups and never sees the invalid one.  `in_red`: the code sits in the red channel (group number =
/// red * 256 + green) instead of the green one.
pub fn hidden_simple_order(hi: u32, lo: u32, in_red: bool) -> Vec<u8> {
    assert!(lo < hi && hi < 256);
    let mut bw = BitWriter::new();
    bw.bits(0x2f, 8);
    bw.bits(0, 14);
    bw.bits(0, 14);
    bw.bit(false);
    bw.bits(0, 3);
    bw.bit(false); // no transform
    bw.bit(false); // no colour cache
    bw.bit(true); // meta prefix image
    bw.bits(0, 3); // block size 4: a 1x1 entropy image
    bw.bit(false); // entropy image: no colour cache
    let single0 = |bw: &mut BitWriter| {
        bw.bit(true);
        bw.bit(false);
        bw.bit(false);
        bw.bit(false);
    };
    let descending = |bw: &mut BitWriter| {
        bw.bit(true); // simple
        bw.bit(true); // two symbols
        if hi < 2 {
            bw.bit(false);
            bw.bits(hi, 1);
        } else {
            bw.bit(true);
            bw.bits(hi, 8);
        }
        bw.bits(lo, 8);
    };
    if in_red {
        single0(&mut bw);
        descending(&mut bw);
    } else {
        descending(&mut bw);
        single0(&mut bw);
    }
    single0(&mut bw);
    single0(&mut bw);
    single0(&mut bw);
    bw.bit(true); // the meta pixel: the code of the larger symbol
    let valid_groups = if in_red { lo * 256 + 1 } else { lo + 1 };
    for _ in 0..valid_groups {
        for _ in 0..5 {
            single0(&mut bw);
        }
    }
    // the invalid group: a normal code whose code-length code has four zero lengths
    bw.bit(false);
    bw.bits(0, 4);
    for _ in 0..4 {
        bw.bits(0, 3);
    }
    let mut b = bw.bytes;
    b.extend_from_slice(&[0; 8]);
    b
}

/// An INVALID stream that is complete for a reader which treats a multi-pixel sub-image as finished after its FIRST
/// pixel: the 2x1 meta prefix image of an 8x1 picture has a single-symbol green code and a two-symbol code in channel
/// `which` (0 red, 1 blue, 2 alpha), so each pixel costs one bit and must be read; the second pixel raises the group
/// count (red: 257 groups) or is simply there (blue / alpha: its bit shifts everything after it); the stream then holds
/// exactly what the first pixel alone would ask for - one group of single-symbol codes - followed by a normal code
/// whose code-length code uses no symbol.  The specification (and the reference decoder) read both pixels and meet the
/// invalid code.
pub fn first_pixel_only(which: u32) -> Vec<u8> {
    let mut bw = BitWriter::new();
    bw.bits(0x2f, 8);
    bw.bits(7, 14); // width 8
    bw.bits(0, 14); // height 1
    bw.bit(false);
    bw.bits(0, 3);
    bw.bit(false); // no transform
    bw.bit(false); // no colour cache
    bw.bit(true); // meta prefix image
    bw.bits(0, 3); // block size 4: a 2x1 entropy image
    bw.bit(false); // entropy image: no colour cache
    let single0 = |bw: &mut BitWriter| {
        bw.bit(true);
        bw.bit(false);
        bw.bit(false);
        bw.bit(false);
    };
    let two = |bw: &mut BitWriter| {
        bw.bit(true); // simple
        bw.bit(true); // two symbols
        bw.bit(false); // first symbol in one bit
        bw.bits(0, 1);
        bw.bits(1, 8);
    };
    single0(&mut bw); // green
    for ch in 0..3 {
        if ch == which {
            two(&mut bw);
        } else {
            single0(&mut bw);
        }
    }
    single0(&mut bw); // distance
    bw.bit(false); // first meta pixel: symbol 0 in the two-symbol channel
    // what a reader that stops here expects: one group of single-symbol codes, then the end
    for _ in 0..5 {
        single0(&mut bw);
    }
    // for the specification the first bit of that group was the SECOND meta pixel (symbol 1: group 256 when the channel
    // is red); what follows is an invalid normal code either way
    bw.bit(false);
    bw.bits(0, 4);
    for _ in 0..4 {
        bw.bits(0, 3);
    }
    let mut b = bw.bytes;
    b.extend_from_slice(&[0; 8]);
    b
}

/// An INVALID stream (a second colour-indexing transform) built so that a reader which sizes the preceding
/// predictor / colour-transform sub-image too LARGE never sees the violation: the sub-image's pixels cost one bit each
/// (two-symbol green code, everything else zero-bit), the violation sits right after the `r` pixels a correct reader
/// expects, and after the `r2 > r` pixels the mistaken reader expects a perfectly valid rest follows.  `hyp` picks the
/// mistake: 0 = the width before the pixel packing of a small palette, 1 = block size halved, 2 = floor + 1 instead of
/// the rounded-up quotient.  `None` when the mistake does not enlarge the sub-image by at least the three bits of the
/// violation for these parameters.
pub fn hidden_duplicate_transform(rng: &mut Rng, w: u32, h: u32, ncolors: Option<u32>, t: u32, k: u32, hyp: u32) -> Option<Vec<u8>> {
    assert!(t == 0 || t == 1);
    let mut bw = BitWriter::new();
    bw.bits(0x2f, 8);
    bw.bits(w - 1, 14);
    bw.bits(h - 1, 14);
    bw.bit(false);
    bw.bits(0, 3);
    let simple0 = |bw: &mut BitWriter| {
        bw.bit(true);
        bw.bit(false);
        bw.bit(false);
        bw.bit(false);
    };
    let mut wr = w;
    if let Some(n) = ncolors {
        bw.bit(true);
        bw.bits(3, 2);
        bw.bits(n - 1, 8);
        bw.bit(false); // palette sub-image: no colour cache, five zero-bit codes: all pixels implicit
        for _ in 0..5 {
            simple0(&mut bw);
        }
        let pack = if n <= 2 { 8 } else if n <= 4 { 4 } else if n <= 16 { 2 } else { 1 };
        wr = div_ceil(w, pack);
    }
    let bs = 1u32 << (k + 2);
    let (sw, sh) = (div_ceil(wr, bs), div_ceil(h, bs));
    let r = sw * sh;
    let r2 = match hyp {
        0 => div_ceil(w, bs) * sh,
        1 => {
            if k == 0 {
                return None;
            }
            div_ceil(wr, bs / 2) * div_ceil(h, bs / 2)
        }
        _ => (wr / bs + 1) * (h / bs + 1),
    };
    if r2 < r + 3 || r2 > 200_000 {
        return None;
    }
    bw.bit(true);
    bw.bits(t, 2);
    bw.bits(k, 3);
    bw.bit(false); // no colour cache
    // green: symbols 0 and 1, one bit each
    bw.bit(true);
    bw.bit(true);
    bw.bit(false);
    bw.bits(0, 1);
    bw.bits(1, 8);
    for _ in 0..4 {
        simple0(&mut bw);
    }
    for _ in 0..r {
        bw.bit(rng.chance(1, 2));
    }
    // the violation, where a correct reader looks for the next transform
    bw.bit(true);
    bw.bits(3, 2);
    for _ in 0..(r2 - r - 3) {
        bw.bit(rng.chance(1, 2));
    }
    // a valid rest for the reader that took all of that for pixels
    bw.bit(false); // no more transforms
    bw.bit(false); // no colour cache
    bw.bit(false); // no meta prefix image
    for _ in 0..5 {
        simple0(&mut bw);
    }
    let mut b = bw.bytes;
    b.extend_from_slice(&[0; 4]);
    Some(b)
}

/// the stream after the 5-byte header (also the body of a lossless ALPH chunk)
pub fn write_lossless_stream(bw: &mut BitWriter, rng: &mut Rng, w: u32, h: u32, want: Option<&'static str>, viol: &mut Violations) {
    let mut order: Vec<u32> = vec![0, 1, 2, 3];
    // random subset in random order
    for i in (1..order.len()).rev() {
        let j = rng.below(i as u64 + 1) as usize;
        order.swap(i, j);
    }
    let mut n = rng.below(5) as usize;
    if want == Some("all-transforms") {
        n = 4;
    }
    if want == Some("predictor-gt-13") && !order[..n].contains(&0) {
        order.retain(|&t| t != 0);
        order.insert(0, 0);
        n = n.max(1);
    }
    let mut seq: Vec<u32> = order[..n].to_vec();
    if want == Some("duplicate-transform") {
        if seq.is_empty() {
            seq.push(2);
        }
        let dup = seq[rng.below(seq.len() as u64) as usize];
        seq.push(dup);
        viol.what.push("duplicate-transform");
    }
    // a back-reference running past the end of a sub-image whose size depends on the width AFTER a colour-indexing
    // transform with a palette size at a packing boundary (2|3, 4|5, 16|17 colours): sizes the sub-image wrongly if the
    // packing table is off by one
    let after_palette = want == Some("backref-past-end") && rng.chance(1, 2);
    if after_palette {
        seq = vec![3, *rng.pick(&[0u32, 1])];
    }
    // place the sub-image violations in the first sub-image that exists, else in the meta image / main codes
    let mut pending = match want {
        Some("duplicate-transform") | Some("all-transforms") | Some("none") | None => None,
        other => other,
    };
    let mut width = w;
    for t in seq {
        bw.bit(true);
        bw.bits(t, 2);
        match t {
            0 | 1 => {
                let k = if after_palette { 0 } else { rng.below(8) as u32 };
                bw.bits(k, 3);
                let bs = 1u32 << (k + 2);
                let (sw, sh) = (div_ceil(width, bs), div_ceil(h, bs));
                let wv = if t == 0 { pending.take() } else if pending != Some("predictor-gt-13") { pending.take() } else { None };
                write_entropy_image(bw, rng, sw, sw * sh, if t == 0 { 13 } else { 255 }, viol, wv);
            }
            2 => {}
            _ => {
                let ncolors = if after_palette { *rng.pick(&[2u32, 3, 4, 5, 16, 17]) } else { match rng.below(5) {
                    0 => 1 + rng.below(2) as u32,
                    1 => 3 + rng.below(2) as u32,
                    2 => 5 + rng.below(12) as u32,
                    _ => 17 + rng.below(240) as u32,
                } };
                bw.bits(ncolors - 1, 8);
                let wv = if after_palette { None } else if pending != Some("predictor-gt-13") { pending.take() } else { None };
                write_entropy_image(bw, rng, ncolors, ncolors, 255, viol, wv);
                let bs = if ncolors <= 2 { 8 } else if ncolors <= 4 { 4 } else if ncolors <= 16 { 2 } else { 1 };
                width = div_ceil(width, bs);
            }
        }
        if !viol.what.is_empty() && want != Some("green-simple-same-symbol-twice") && want != Some("all-transforms") && want != Some("single-symbol-length-2") {
            return; // the stream is already invalid; what follows does not matter
        }
    }
    bw.bit(false);
    // colour cache of the main image
    let mut cache_bits = 0;
    match pending {
        Some("cache-bits-0") => {
            bw.bit(true);
            bw.bits(0, 4);
            viol.what.push("cache-bits-0");
            return;
        }
        Some("cache-bits-12") => {
            bw.bit(true);
            bw.bits(12, 4);
            viol.what.push("cache-bits-12");
            return;
        }
        _ => {
            if rng.chance(1, 3) {
                cache_bits = 1 + rng.below(11) as u32;
                bw.bit(true);
                bw.bits(cache_bits, 4);
            } else {
                bw.bit(false);
            }
        }
    }
    let cache_len = if cache_bits > 0 { 1usize << cache_bits } else { 0 };
    // meta prefix image
    let mut groups = 1;
    if rng.chance(1, 3) || (pending.is_some() && pending != Some("predictor-gt-13")) {
        bw.bit(true);
        let k = rng.below(8) as u32;
        bw.bits(k, 3);
        let bs = 1u32 << (k + 2);
        let (sw, sh) = (div_ceil(width, bs), div_ceil(h, bs));
        // the meta image's (red<<8 | green) selects the group: keep group numbers small (green <= 3, red code = {0})
        let before = viol.what.len();
        write_meta_image(bw, rng, sw, sw * sh, viol, pending.take(), &mut groups);
        if viol.what.len() > before && want != Some("green-simple-same-symbol-twice") && want != Some("single-symbol-length-2") {
            return;
        }
    } else {
        bw.bit(false);
    }
    for _ in 0..groups {
        for (k, alphabet) in [256 + 24 + cache_len, 256, 256, 256, 40].into_iter().enumerate() {
            let spec = pick_code(rng, alphabet, &[], k != 0);
            write_code(bw, rng, &spec, alphabet, viol, None);
        }
    }
}

fn write_meta_image(bw: &mut BitWriter, rng: &mut Rng, width: u32, total: u32, viol: &mut Violations, want: Option<&'static str>, groups: &mut u32) {
    if want.is_some() {
        // plant the violation in the meta image, using the general writer (group numbers then do not matter)
        write_entropy_image(bw, rng, width, total, 3, viol, want);
        *groups = 4;
        return;
    }
    // no colour cache; green in {0..g}, red fixed 0 => max group = g
    bw.bit(false);
    let g = rng.below(3) as u16;
    let green_syms: Vec<u16> = (0..=g).collect();
    let green = if green_syms.len() == 1 {
        CodeSpec::Simple1(0, rng.chance(1, 2))
    } else if green_syms.len() == 2 {
        CodeSpec::Simple2(0, 1, rng.chance(1, 2))
    } else {
        let mut lens = vec![0u8; 280];
        lens[0] = 1;
        lens[1] = 2;
        lens[2] = 2;
        CodeSpec::Normal(lens, rng.chance(1, 2))
    };
    let zero = CodeSpec::Simple1(0, false);
    let mut v = Violations::default();
    write_code(bw, rng, &green, 280, &mut v, None);
    write_code(bw, rng, &zero, 256, &mut v, None);
    write_code(bw, rng, &zero, 256, &mut v, None);
    write_code(bw, rng, &zero, 256, &mut v, None);
    write_code(bw, rng, &zero, 40, &mut v, None);
    let ge = Enc::of(&green);
    let mut maxg = 0;
    if green_syms.len() == 1 {
        // all codes zero-bit: one implicit pixel value fills the image
        maxg = 0;
    } else {
        for _ in 0..total {
            let s = *rng.pick(&ge.symbols);
            ge.put(bw, s);
            maxg = maxg.max(s);
        }
    }
    let _ = width;
    *groups = maxg as u32 + 1;
}

/// A valid 2048x2048 stream whose predictor sub-image (512x512) is `52144 + shift` one-bit literals followed by
/// about sixty back-references that each need 26 bits after their 2-bit prefix code (10 length + 14 distance extra
/// bits, zero-bit distance code): the longest read-ahead the sub-image loop can need.  `shift` moves the bit
/// alignment of the back-references relative to the buffer refills.
pub fn backref_heavy(rng: &mut Rng, shift: u32) -> Vec<u8> {
    let (w, h) = (2048u32, 2048u32);
    let mut viol = Violations::default();
    let mut bw = BitWriter::new();
    bw.bits(0x2f, 8);
    bw.bits(w - 1, 14);
    bw.bits(h - 1, 14);
    bw.bit(false);
    bw.bits(0, 3);
    bw.bit(true); // transform present
    bw.bits(0, 2); // predictor
    bw.bits(0, 3); // block size 4 -> 512 x 512 sub-image
    bw.bit(false); // no colour cache in the sub-image
    let mut glens = vec![0u8; 280];
    glens[0] = 1;
    glens[256 + 22] = 2;
    glens[256 + 23] = 2;
    let g = CodeSpec::Normal(glens, false);
    let genc = Enc::of(&g);
    write_code(&mut bw, rng, &g, 280, &mut viol, None);
    for _ in 0..3 {
        write_code(&mut bw, rng, &CodeSpec::Simple1(0, false), 256, &mut viol, None);
    }
    write_code(&mut bw, rng, &CodeSpec::Simple1(30, true), 40, &mut viol, None);
    let total = 512u32 * 512;
    let nlit = 52144 + shift;
    for _ in 0..nlit {
        genc.put(&mut bw, 0);
    }
    let rest = total - nlit;
    let m = (rest + 3499) / 3500;
    let per = rest / m;
    let mut done = 0;
    for k in 0..m {
        let len = if k + 1 == m { rest - done } else { per };
        done += len;
        let (sym, extra) = if len >= 3073 { (256 + 23, len - 3073) } else { (256 + 22, len - 2049) };
        genc.put(&mut bw, sym as u16);
        bw.bits(extra, 10);
        // distance: zero-bit code for prefix code 30, 14 extra bits
        bw.bits(rng.below(16384) as u32, 14);
    }
    bw.bit(false); // no further transform
    bw.bit(false); // no colour cache
    bw.bit(false); // no meta prefix image
    for a in [280usize, 256, 256, 256, 40] {
        write_code(&mut bw, rng, &CodeSpec::Simple1(0, false), a, &mut viol, None);
    }
    let mut b = bw.bytes;
    b.extend_from_slice(&[0; 3]);
    b
}

/// A valid 4096x4096 stream whose predictor sub-image (1024x1024) is `526000 + shift` one-bit literals followed by
/// back-references of the greatest cost the format allows: a length symbol (278/279) whose green code is `gdepth`
/// bits deep, 10 length extra bits, the distance symbol 38 at depth `ddepth` of the distance code and its 18 extra
/// bits (a distance of at least 524169 pixels, hence the long run of literals first): gdepth + 10 + ddepth + 18 bits
/// per back-reference, up to 58.  A few one-bit literals between the back-references move the bit alignment of
/// each one relative to the buffer refills.
pub fn backref_max(rng: &mut Rng, shift: u32, gdepth: u8, ddepth: u8) -> Vec<u8> {
    let (w, h) = (4096u32, 4096u32);
    let mut viol = Violations::default();
    let mut bw = BitWriter::new();
    bw.bits(0x2f, 8);
    bw.bits(w - 1, 14);
    bw.bits(h - 1, 14);
    bw.bit(false);
    bw.bits(0, 3);
    bw.bit(true); // transform present
    bw.bits(0, 2); // predictor
    bw.bits(0, 3); // block size 4 -> 1024 x 1024 sub-image
    bw.bit(false); // no colour cache in the sub-image
    // ladder codes: lengths 1, 2, .., d-1, d, d (Kraft sum 1); the two deepest symbols are the ones used
    let ladder = |n: usize, d: u8, deep: [usize; 2]| -> Vec<u8> {
        let mut lens = vec![0u8; n];
        lens[0] = 1.min(d);
        for l in 2..d {
            lens[l as usize - 1] = l;
        }
        lens[deep[0]] = d;
        lens[deep[1]] = d;
        if d == 1 {
            lens[0] = 0;
            lens[deep[0]] = 1;
            lens[deep[1]] = 1;
        }
        lens
    };
    let gd = gdepth.max(2);
    let g = CodeSpec::Normal(ladder(280, gd, [256 + 22, 256 + 23]), false);
    let genc = Enc::of(&g);
    write_code(&mut bw, rng, &g, 280, &mut viol, None);
    for _ in 0..3 {
        write_code(&mut bw, rng, &CodeSpec::Simple1(0, false), 256, &mut viol, None);
    }
    let dd = ddepth.max(1);
    let d = CodeSpec::Normal(ladder(40, dd, [38, 39]), false);
    let denc = Enc::of(&d);
    write_code(&mut bw, rng, &d, 40, &mut viol, None);
    let total = 1024u32 * 1024;
    let nlit = 526000 + shift;
    for _ in 0..nlit {
        genc.put(&mut bw, 0);
    }
    let mut idx = nlit;
    while idx < total {
        let rest = total - idx;
        if rest < 2049 + 8 {
            genc.put(&mut bw, 0);
            idx += 1;
            continue;
        }
        for _ in 0..rng.below(8) {
            genc.put(&mut bw, 0);
            idx += 1;
        }
        let rest = total - idx;
        let len = (2049 + rng.below(2048) as u32).min(rest);
        let (sym, extra) = if len >= 3073 { (256 + 23, len - 3073) } else { (256 + 22, len - 2049) };
        genc.put(&mut bw, sym as u16);
        bw.bits(extra, 10);
        // distance symbol 38: dist_code = 2 * 2^18 + extra + 1, pixel distance = dist_code - 120 <= 526000
        denc.put(&mut bw, 38);
        bw.bits(rng.below(1800) as u32, 18);
        idx += len;
    }
    bw.bit(false); // no further transform
    bw.bit(false); // no colour cache
    bw.bit(false); // no meta prefix image
    for a in [280usize, 256, 256, 256, 40] {
        write_code(&mut bw, rng, &CodeSpec::Simple1(0, false), a, &mut viol, None);
    }
    let mut b = bw.bytes;
    b.extend_from_slice(&[0; 3]);
    b
}

/// A headerless lossless stream (what an ALPH chunk or, after the 5 header bytes, a VP8L chunk carries) whose
/// predictor sub-image (block size 4) costs NO bits per pixel through the green code: `green` = 0: the single green
/// symbol is the first colour-cache entry (cache of 2), 1: a literal, 2: the length symbol 256 (a back-reference of
/// length 1, refused at pixel 0).  `two` names the code that has two symbols instead of one (0 none, 1 red, 2 blue,
/// 3 alpha, 4 distance).  On declared dimensions of millions of pixels the validator has to return without walking
/// the pixels one by one unless each pixel costs input.
pub fn zero_bit_subimage(rng: &mut Rng, green: u32, two: u32) -> Vec<u8> {
    let mut viol = Violations::default();
    let mut bw = BitWriter::new();
    bw.bit(true); // transform present
    bw.bits(0, 2); // predictor
    bw.bits(0, 3); // block size 4
    let cache = green == 0;
    bw.bit(cache);
    if cache {
        bw.bits(1, 4);
    }
    let alphabet = 280 + if cache { 2 } else { 0 };
    let mut glens = vec![0u8; alphabet];
    glens[match green { 0 => 280, 1 => 0, _ => 256 }] = 1;
    write_code(&mut bw, rng, &CodeSpec::Normal(glens, green != 1), alphabet, &mut viol, None);
    for (k, a) in [(1u32, 256usize), (2, 256), (3, 256), (4, 40)] {
        let spec = if two == k { CodeSpec::Simple2(0, 1, false) } else { CodeSpec::Simple1(0, false) };
        write_code(&mut bw, rng, &spec, a, &mut viol, None);
    }
    bw.bit(false); // no further transform
    bw.bit(false); // no colour cache
    bw.bit(false); // no meta prefix image
    for a in [280usize, 256, 256, 256, 40] {
        write_code(&mut bw, rng, &CodeSpec::Simple1(0, false), a, &mut viol, None);
    }
    let mut b = bw.bytes;
    b.extend_from_slice(&[0; 16]);
    b
}

/// A valid 256x256 stream whose predictor sub-image (64x64) consists of literal pixels that each cost 1 + 15 + 15 + 15
/// bits (two-symbol green code, red/blue/alpha codes of depth 15, always the deepest symbol): the longest literal
/// the sub-image loop can meet.  `shift` leading cheap pixels move the bit alignment.
pub fn long_literals(rng: &mut Rng, shift: u32) -> Vec<u8> {
    let (w, h) = (256u32, 256u32);
    let mut viol = Violations::default();
    let mut bw = BitWriter::new();
    bw.bits(0x2f, 8);
    bw.bits(w - 1, 14);
    bw.bits(h - 1, 14);
    bw.bit(false);
    bw.bits(0, 3);
    bw.bit(true);
    bw.bits(0, 2); // predictor
    bw.bits(0, 3); // block 4 -> 64 x 64
    bw.bit(false); // no colour cache
    let mut glens = vec![0u8; 280];
    glens[0] = 1;
    glens[1] = 1;
    let g = CodeSpec::Normal(glens, false);
    let genc = Enc::of(&g);
    write_code(&mut bw, rng, &g, 280, &mut viol, None);
    // depth-15 code over symbols 0..15: lengths 1,2,...,14,15,15 (Kraft sum 1)
    let mut lens = vec![0u8; 256];
    for i in 0..14 {
        lens[i] = i as u8 + 1;
    }
    lens[14] = 15;
    lens[15] = 15;
    let deep = CodeSpec::Normal(lens, false);
    let denc = Enc::of(&deep);
    for _ in 0..3 {
        write_code(&mut bw, rng, &deep, 256, &mut viol, None);
    }
    write_code(&mut bw, rng, &CodeSpec::Simple1(0, false), 40, &mut viol, None);
    let total = 64u32 * 64;
    for i in 0..total {
        genc.put(&mut bw, (i & 1) as u16);
        let sym = if i < shift { 0 } else { 14 + (rng.below(2) as u16) };
        denc.put(&mut bw, sym);
        denc.put(&mut bw, sym);
        denc.put(&mut bw, sym);
    }
    bw.bit(false);
    bw.bit(false);
    bw.bit(false);
    for a in [280usize, 256, 256, 256, 40] {
        write_code(&mut bw, rng, &CodeSpec::Simple1(0, false), a, &mut viol, None);
    }
    let mut b = bw.bytes;
    b.extend_from_slice(&[0; 3]);
    b
}

/// A valid 512x512 stream like `long_literals` (sub-image 128x128, about 100 KiB), but with literals of MIXED cost: a green code of depth 8 (lengths
/// 1,2,..,7,8,8) and red/blue/alpha codes of depth 15, every symbol drawn at random - so the number of buffered bits at
/// the top of the pixel loop takes every value, including those between the cost of the longest back-reference and
/// the cost of the longest literal (green + alpha + red + blue), over a stream of several production buffers.
pub fn long_literals_mixed(rng: &mut Rng) -> Vec<u8> {
    let (w, h) = (512u32, 512u32);
    let mut viol = Violations::default();
    let mut bw = BitWriter::new();
    bw.bits(0x2f, 8);
    bw.bits(w - 1, 14);
    bw.bits(h - 1, 14);
    bw.bit(false);
    bw.bits(0, 3);
    bw.bit(true);
    bw.bits(rng.below(2) as u32, 2); // predictor or colour transform
    bw.bits(0, 3); // block 4 -> 128 x 128
    bw.bit(false); // no colour cache
    let mut glens = vec![0u8; 280];
    for i in 0..7 {
        glens[i] = i as u8 + 1;
    }
    glens[7] = 8;
    glens[8] = 8;
    let g = CodeSpec::Normal(glens, false);
    let genc = Enc::of(&g);
    write_code(&mut bw, rng, &g, 280, &mut viol, None);
    let mut lens = vec![0u8; 256];
    for i in 0..14 {
        lens[i] = i as u8 + 1;
    }
    lens[14] = 15;
    lens[15] = 15;
    let deep = CodeSpec::Normal(lens, false);
    let denc = Enc::of(&deep);
    for _ in 0..3 {
        write_code(&mut bw, rng, &deep, 256, &mut viol, None);
    }
    write_code(&mut bw, rng, &CodeSpec::Simple1(0, false), 40, &mut viol, None);
    let total = 128u32 * 128;
    for _ in 0..total {
        // mostly the dearest literal (8 + 15 + 15 + 15 bits), some cheaper ones to move the alignment
        let dear = rng.chance(6, 7);
        genc.put(&mut bw, if dear { 7 + rng.below(2) as u16 } else { rng.below(9) as u16 });
        for _ in 0..3 {
            let sym = if dear { 14 + rng.below(2) as u16 } else { rng.below(16) as u16 };
            denc.put(&mut bw, sym);
        }
    }
    bw.bit(false);
    bw.bit(false);
    bw.bit(false);
    for a in [280usize, 256, 256, 256, 40] {
        write_code(&mut bw, rng, &CodeSpec::Simple1(0, false), a, &mut viol, None);
    }
    assert!(viol.what.is_empty());
    let mut b = bw.bytes;
    b.extend_from_slice(&[0; 3]);
    b
}
