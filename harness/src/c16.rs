//! C16: MP4 box codec through the public `mp4san::parse` API.
use std::io::Write;
use std::panic::AssertUnwindSafe;

use bytes::BytesMut;
use mp4san::parse::{BoxHeader, BoxType, BoxUuid, FourCC, MoovBox, Mp4Box, Mp4Value};

use crate::mp4gen::*;
use crate::mp4run::parse_kind;
use crate::rng::Rng;
use crate::{hex, unhex, Opts};

fn type_text(t: BoxType) -> String {
    match t {
        BoxType::FourCC(f) => format!("f{}", hex(&f.value)),
        BoxType::Uuid(u) => format!("u{}", hex(&u.value)),
    }
}

fn hdr_text(h: &BoxHeader) -> String {
    let size = match h.box_size() {
        None => "eof".to_string(),
        Some(s) => s.to_string(),
    };
    let data = match h.box_data_size() {
        Ok(None) => "eof".to_string(),
        Ok(Some(n)) => n.to_string(),
        Err(_) => "err".to_string(),
    };
    format!("{}:{}:{}:{}", type_text(h.box_type()), size, data, h.encoded_len())
}

fn hdr_case<W: Write>(out: &mut W, bytes: &[u8]) {
    let r = crate::quiet(AssertUnwindSafe(|| {
        let mut buf = BytesMut::from(bytes);
        match BoxHeader::parse(&mut buf) {
            Ok(h) => {
                let mut put = Vec::new();
                h.put_buf(&mut put);
                format!("res=ok:{} rest={} put={}", hdr_text(&h), buf.len(), hex(&put))
            }
            Err(e) => format!("res=err:{}", parse_kind(e.get_ref())),
        }
    }))
    .unwrap_or("res=panic".into());
    writeln!(out, "C16 kind=hdr bytes={} {r}", hex(bytes)).unwrap();
}

fn ctor_case<W: Write>(out: &mut W, ty: &str, n: u64, u32ctor: bool) {
    let bt = if let Some(h) = ty.strip_prefix('f') {
        let v = unhex(h);
        BoxType::FourCC(FourCC { value: [v[0], v[1], v[2], v[3]] })
    } else {
        let v = unhex(&ty[1..]);
        let mut a = [0u8; 16];
        a.copy_from_slice(&v);
        BoxType::Uuid(BoxUuid { value: a })
    };
    let r = crate::quiet(AssertUnwindSafe(|| {
        let h = if u32ctor { Ok(BoxHeader::with_u32_data_size(bt, n as u32)) } else { BoxHeader::with_data_size(bt, n) };
        match h {
            Ok(h) => {
                let mut put = Vec::new();
                h.put_buf(&mut put);
                // decode back
                let mut buf = BytesMut::from(&put[..]);
                let back = match BoxHeader::parse(&mut buf) {
                    Ok(h2) if h2 == h && buf.is_empty() => "same",
                    _ => "differs",
                };
                format!("res=ok:{} put={} back={back}", hdr_text(&h), hex(&put))
            }
            Err(e) => format!("res=err:{}", parse_kind(e.get_ref())),
        }
    }))
    .unwrap_or("res=panic".into());
    writeln!(out, "C16 kind=ctor ty={ty} n={n} u32={} {r}", u32ctor as u8).unwrap();
}

/// run a sequence of typed accessor calls on a parsed moov box, then serialize
fn tree_case<W: Write>(out: &mut W, bytes: &[u8], ops: &str) {
    let r = crate::quiet(AssertUnwindSafe(|| {
        let mut buf = BytesMut::from(bytes);
        let mut bx = match Mp4Box::<MoovBox>::parse(&mut buf) {
            Ok(b) => b,
            Err(e) => return format!("res=err:{}", parse_kind(e.get_ref())),
        };
        let rest = buf.len();
        let mut err: Option<&'static str> = None;
        for op in ops.chars() {
            let step: Result<(), mp4san::error::Report<mp4san::parse::ParseError>> = (|| {
                match op {
                    'M' => {
                        bx.data.parse()?;
                    }
                    'T' => {
                        for t in bx.data.parse()?.traks() {
                            t?;
                        }
                    }
                    'D' => {
                        for t in bx.data.parse()?.traks() {
                            t?.mdia_mut()?;
                        }
                    }
                    'I' => {
                        for t in bx.data.parse()?.traks() {
                            t?.mdia_mut()?.minf_mut()?;
                        }
                    }
                    'S' => {
                        for t in bx.data.parse()?.traks() {
                            t?.mdia_mut()?.minf_mut()?.stbl_mut()?;
                        }
                    }
                    'A' => {
                        for t in bx.data.parse()?.traks() {
                            t?.co_mut()?;
                        }
                    }
                    'F' => {
                        if let Some(t) = bx.data.parse()?.traks().next() {
                            t?.co_mut()?;
                        }
                    }
                    'L' => {
                        // not `.last()`: that would swallow the parse error of an earlier trak, which leaves that trak's
                        // buffer partly consumed (failed accessors are outside the round-trip claim)
                        let mut last = None;
                        for t in bx.data.parse()?.traks() {
                            last = Some(t?);
                        }
                        if let Some(t) = last {
                            t.co_mut()?;
                        }
                    }
                    _ => {}
                }
                Ok(())
            })();
            if let Err(e) = step {
                err = Some(parse_kind(e.get_ref()));
                break;
            }
        }
        let mut put = Vec::new();
        bx.put_buf(&mut put);
        let elen = bx.encoded_len();
        match err {
            // after a failed accessor the box must still serialize to what it was parsed from
            Some(k) => format!("res=acc-err:{k} rest={rest} put={} elen={elen}", hex(&put)),
            None => format!("res=ok rest={rest} put={} elen={elen}", hex(&put)),
        }
    }))
    .unwrap_or("res=panic".into());
    writeln!(out, "C16 kind=tree ops={ops} bytes={} {r}", hex(bytes)).unwrap();
}

/// an `ftyp` box through the typed API: parse the box, optionally parse its payload into `FtypBox` (typed, with the
/// brands as an array of 4-byte entries - the payload may have 1..3 trailing bytes), then serialise
fn ftyp_case<W: Write>(out: &mut W, bytes: &[u8], typed: bool) {
    let r = crate::quiet(AssertUnwindSafe(|| {
        let mut buf = BytesMut::from(bytes);
        let mut bx = match Mp4Box::<mp4san::parse::FtypBox>::parse(&mut buf) {
            Ok(b) => b,
            Err(e) => return format!("res=err:{}", parse_kind(e.get_ref())),
        };
        let rest = buf.len();
        if typed {
            if let Err(e) = bx.data.parse() {
                return format!("res=acc-err:{} rest={rest}", parse_kind(e.get_ref()));
            }
        }
        let mut put = Vec::new();
        bx.put_buf(&mut put);
        format!("res=ok rest={rest} put={} elen={}", hex(&put), bx.encoded_len())
    }))
    .unwrap_or("res=panic".into());
    writeln!(out, "C16 kind=ftyp typed={} bytes={} {r}", typed as u8, hex(bytes)).unwrap();
}

/// a typed box payload through the derived `ParseBox::parse` itself (not through `Mp4Box` / `BoxData`, which check
/// for left-over bytes a second time): parse the whole payload, serialise the value
fn value_case<W: Write>(out: &mut W, ty: &str, bytes: &[u8]) {
    use mp4san::parse::{Co64Box, FtypBox, ParseBox, ParsedBox, StcoBox};
    fn go<T: ParseBox + ParsedBox>(bytes: &[u8]) -> String {
        let mut buf = BytesMut::from(bytes);
        match T::parse(&mut buf) {
            Err(e) => format!("res=err:{}", parse_kind(e.get_ref())),
            Ok(v) => {
                let mut put = Vec::new();
                v.put_buf(&mut put);
                format!("res=ok rest={} put={} elen={}", buf.len(), hex(&put), v.encoded_len())
            }
        }
    }
    let r = crate::quiet(AssertUnwindSafe(|| match ty {
        "stco" => go::<StcoBox>(bytes),
        "co64" => go::<Co64Box>(bytes),
        "ftyp" => go::<FtypBox>(bytes),
        other => panic!("unknown value type {other}"),
    }))
    .unwrap_or("res=panic".into());
    writeln!(out, "C16 kind=value ty={ty} bytes={} {r}", hex(bytes)).unwrap();
}

pub fn replay<W: Write>(line: &str, out: &mut W) {
    let get = |k: &str| line.split(' ').find_map(|t| t.strip_prefix(&format!("{k}=")).map(|s| s.to_string()));
    match get("kind").as_deref() {
        Some("hdr") => hdr_case(out, &unhex(&get("bytes").unwrap())),
        Some("ctor") => ctor_case(out, &get("ty").unwrap(), get("n").unwrap().parse().unwrap(), get("u32").as_deref() == Some("1")),
        Some("tree") => tree_case(out, &unhex(&get("bytes").unwrap()), &get("ops").unwrap()),
        Some("value") => value_case(out, &get("ty").unwrap(), &unhex(&get("bytes").unwrap())),
        Some("ftyp") => ftyp_case(out, &unhex(&get("bytes").unwrap()), get("typed").as_deref() == Some("1")),
        _ => panic!("bad replay line"),
    }
}

pub fn run<W: Write>(opts: &Opts, out: &mut W) {
    let mut rng = Rng::new(opts.seed ^ 0xC16);
    let n = if opts.tier_thorough { 20000 } else { 1500 };
    // headers: every size-field class x name class x truncation
    let names: [&[u8; 4]; 4] = [b"moov", b"uuid", b"free", b"\0\0\0\0"];
    for name in names {
        for sz in [0u32, 1, 2, 7, 8, 9, 15, 16, 17, 24, 32, 1000, u32::MAX] {
            let mut b = sz.to_be_bytes().to_vec();
            b.extend_from_slice(name);
            b.extend_from_slice(&rng.bytes(28));
            for cut in [0usize, 3, 4, 7, 8, 9, 15, 16, 17, 23, 24, 25, 31, 32, 33, 36] {
                hdr_case(out, &b[..cut.min(b.len())]);
            }
            // 64-bit size values
            if sz == 1 {
                for ext in [0u64, 1, 15, 16, 17, 32, u32::MAX as u64, u32::MAX as u64 + 1, u64::MAX] {
                    let mut b2 = b.clone();
                    b2[8..16].copy_from_slice(&ext.to_be_bytes());
                    hdr_case(out, &b2);
                }
            }
        }
    }
    for _ in 0..n {
        let len = 8 + rng.below(30) as usize;
        let mut b = rng.bytes(len);
        match rng.below(4) {
            0 => b[0..4].copy_from_slice(&1u32.to_be_bytes()),
            1 => b[0..4].copy_from_slice(&0u32.to_be_bytes()),
            2 => b[4..8].copy_from_slice(b"uuid"),
            _ => {}
        }
        hdr_case(out, &b);
    }
    // constructors: the full boundary grid around u32::MAX-24 .. u32::MAX+24 and around u64::MAX
    let f = format!("f{}", hex(b"moov"));
    let u = format!("u{}", hex(b"thisisatestuuid!"));
    let bad = format!("f{}", hex(b"uuid")); // a FourCC that spells `uuid`
    for ty in [&f, &u, &bad] {
        for d in 0..=48u64 {
            ctor_case(out, ty, u32::MAX as u64 - 24 + d, false);
            if u32::MAX as u64 - 24 + d <= u32::MAX as u64 {
                ctor_case(out, ty, u32::MAX as u64 - 24 + d, true);
            }
        }
        for d in 0..=40u64 {
            ctor_case(out, ty, u64::MAX - d, false);
        }
        for v in [0u64, 1, 7, 8, 100, 1 << 31, 1 << 40] {
            ctor_case(out, ty, v, false);
        }
        for _ in 0..n / 20 {
            ctor_case(out, ty, rng.next(), false);
            ctor_case(out, ty, rng.next() as u32 as u64, true);
        }
    }
    // typed payloads through the derived parser: entry counts below / at / above what the payload holds, version and
    // flags bytes, ragged tails
    for i in 0..(n / 3) {
        let mut r = rng.fork(0x7000 + i);
        let co64 = r.chance(1, 2);
        let w = if co64 { 8 } else { 4 };
        let held = r.below(5);
        let mut p = vec![0u8; 4];
        let declared = match r.below(6) {
            0 => held.saturating_sub(1),
            1 => held + 1,
            2 => r.next() as u32 as u64,
            _ => held,
        };
        p.extend_from_slice(&(declared as u32).to_be_bytes());
        p.extend(r.bytes((held * w) as usize));
        match r.below(8) {
            0 => {
                let k = 1 + r.below(w) as usize;
                p.extend(r.bytes(k)) // a ragged tail
            }
            1 => {
                let k = r.below(4) as usize;
                p[k] = 1 + r.below(255) as u8 // version / flags
            }
            2 => {
                let k = r.below(p.len() as u64 + 1) as usize;
                p.truncate(k)
            }
            _ => {}
        }
        value_case(out, if co64 { "co64" } else { "stco" }, &p);
        if i % 4 == 0 {
            let plen = r.below(30) as usize;
            value_case(out, "ftyp", &r.bytes(plen));
        }
    }
    // trees: random rich moov boxes x accessor-call sequences
    let op_alphabet = ['M', 'T', 'D', 'I', 'S', 'A', 'F', 'L'];
    for i in 0..n {
        let mut r = rng.fork(i);
        let nt = 1 + r.below(3) as usize;
        let traks: Vec<TrakSpec> = (0..nt).map(|_| { let ne = r.below(4) as usize; rand_trak(&mut r, ne, true) }).collect();
        let payload = moov_payload(&mut r, &traks, true);
        let enc = match r.below(6) {
            0 => Enc::S64,
            1 => Enc::Eof,
            _ => Enc::S32,
        };
        let mut bytes = bx(b"moov", &payload, enc);
        if i % 6 == 0 {
            // a broken tree: accessors fail part-way; serialization must still reproduce the bytes
            let pos = 8 + r.below((bytes.len() - 8) as u64) as usize;
            bytes[pos] = r.next() as u8;
        }
        if enc != Enc::Eof && i % 5 == 0 {
            bytes.extend(r.bytes(3)); // trailing bytes after the box stay in the buffer
        }
        let nops = r.below(4) as usize;
        let ops: String = (0..nops).map(|_| *r.pick(&op_alphabet)).collect();
        tree_case(out, &bytes, if ops.is_empty() { "-" } else { &ops });
        tree_case(out, &bytes, "A");
        if i % 4 == 0 {
            // ftyp payloads of 8..40 bytes, also with 1..3 bytes after the last whole brand, every header form
            let plen = 8 + r.below(33) as usize;
            let enc = match r.below(4) { 0 => Enc::S64, 1 => Enc::Eof, _ => Enc::S32 };
            let f = bx(b"ftyp", &r.bytes(plen), enc);
            ftyp_case(out, &f, false);
            ftyp_case(out, &f, true);
        }
    }
}
