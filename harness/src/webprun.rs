//! Running the real webpsan and canonicalising the result; RIFF helpers.
use std::io::Cursor;
use std::panic::AssertUnwindSafe;

use webpsan::parse::ParseError;

use crate::mp4run::io_kind;

#[derive(Clone, Debug, PartialEq, Eq)]
pub enum WOut {
    Ok,
    Parse(&'static str),
    Io(String),
    Panic,
}

pub fn wkind(e: &ParseError) -> &'static str {
    match e {
        ParseError::InvalidChunkLayout => "InvalidChunkLayout",
        ParseError::InvalidInput => "InvalidInput",
        ParseError::InvalidVp8lPrefixCode => "InvalidVp8lPrefixCode",
        ParseError::MissingRequiredChunk(_) => "MissingRequiredChunk",
        ParseError::TruncatedChunk => "TruncatedChunk",
        ParseError::UnsupportedChunk(_) => "UnsupportedChunk",
        ParseError::UnsupportedVp8lVersion(_) => "UnsupportedVp8lVersion",
    }
}

pub fn wcanon(r: Result<(), webpsan::Error>) -> WOut {
    match r {
        Ok(()) => WOut::Ok,
        Err(webpsan::Error::Io(e)) => WOut::Io(io_kind(e.kind())),
        Err(webpsan::Error::Parse(e)) => WOut::Parse(wkind(e.get_ref())),
    }
}

impl WOut {
    pub fn text(&self) -> String {
        match self {
            WOut::Ok => "ok".into(),
            WOut::Parse(k) => format!("err:parse:{k}"),
            WOut::Io(k) => format!("err:io:{k}"),
            WOut::Panic => "panic".into(),
        }
    }
}

pub fn run_webp_bytes(data: &[u8], allow_unknown: bool) -> WOut {
    crate::quiet(AssertUnwindSafe(|| {
        let cfg = webpsan::Config::builder().allow_unknown_chunks(allow_unknown).build();
        let r = webpsan::sanitize_with_config(Cursor::new(data), cfg);
        if std::env::var_os("VERIF_DEBUG").is_some() {
            if let Err(e) = &r {
                eprintln!("webpsan error: {e:?}");
            }
        }
        wcanon(r)
    }))
    .unwrap_or(WOut::Panic)
}

pub fn chunk(name: &[u8; 4], payload: &[u8]) -> Vec<u8> {
    let mut c = name.to_vec();
    c.extend_from_slice(&(payload.len() as u32).to_le_bytes());
    c.extend_from_slice(payload);
    if payload.len() % 2 == 1 {
        c.push(0);
    }
    c
}

pub fn riff(chunks: &[Vec<u8>]) -> Vec<u8> {
    let body: Vec<u8> = chunks.concat();
    let mut f = b"RIFF".to_vec();
    f.extend_from_slice(&((body.len() + 4) as u32).to_le_bytes());
    f.extend_from_slice(b"WEBP");
    f.extend_from_slice(&body);
    f
}

pub fn vp8x_payload(flags: u8, w: u32, h: u32) -> Vec<u8> {
    let mut p = vec![flags, 0, 0, 0];
    p.extend_from_slice(&(w - 1).to_le_bytes()[..3]);
    p.extend_from_slice(&(h - 1).to_le_bytes()[..3]);
    p
}

/// a tiny valid lossy key frame (1x1), as used by webpsan's own tests; never inspected by webpsan
pub const VP8_DATA: &[u8] = &[18, 1, 0, 157, 1, 42, 1, 0, 1, 0, 18, 0, 52, 0, 0, 13, 192, 0, 254, 251, 253, 80, 0, 0];

/// top-level chunks of a RIFF/WEBP file: (name, payload)
pub fn split_chunks(file: &[u8]) -> Vec<([u8; 4], Vec<u8>)> {
    let mut out = vec![];
    let mut pos = 12;
    while pos + 8 <= file.len() {
        let mut name = [0u8; 4];
        name.copy_from_slice(&file[pos..pos + 4]);
        let len = u32::from_le_bytes([file[pos + 4], file[pos + 5], file[pos + 6], file[pos + 7]]) as usize;
        let end = (pos + 8 + len).min(file.len());
        out.push((name, file[pos + 8..end].to_vec()));
        pos = pos + 8 + len + (len & 1);
    }
    out
}
