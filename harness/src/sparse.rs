//! Sparse in-memory streams (zero outside the listed extents) and the reader types built on them.
use std::io::{self, Read, Seek, SeekFrom};

use mediasan_common::Skip;

#[derive(Clone, Debug, Default)]
pub struct Sparse {
    pub len: u64,
    /// sorted, non-overlapping, non-empty
    pub ext: Vec<(u64, Vec<u8>)>,
}

impl Sparse {
    pub fn new() -> Self {
        Self::default()
    }
    pub fn from_bytes(b: &[u8]) -> Self {
        let mut s = Self::new();
        s.push(b);
        s
    }
    pub fn push(&mut self, b: &[u8]) {
        if b.is_empty() {
            return;
        }
        if b.iter().all(|&x| x == 0) {
            self.len += b.len() as u64;
            return;
        }
        if let Some((off, last)) = self.ext.last_mut() {
            if *off + last.len() as u64 == self.len {
                last.extend_from_slice(b);
                self.len += b.len() as u64;
                return;
            }
        }
        self.ext.push((self.len, b.to_vec()));
        self.len += b.len() as u64;
    }
    pub fn push_zeros(&mut self, n: u64) {
        self.len = self.len.saturating_add(n);
    }
    pub fn append(&mut self, other: &Sparse) {
        for (off, b) in &other.ext {
            let at = self.len + off;
            self.ext.push((at, b.clone()));
        }
        self.len += other.len;
    }
    /// sub-stream [off, off+len) (clamped to the stream)
    pub fn slice(&self, off: u64, len: u64) -> Sparse {
        let end = off.saturating_add(len).min(self.len);
        let mut out = Sparse::new();
        if off >= end {
            return out;
        }
        for (eo, b) in &self.ext {
            let ee = eo + b.len() as u64;
            let lo = (*eo).max(off);
            let hi = ee.min(end);
            if lo < hi {
                out.ext.push((lo - off, b[(lo - eo) as usize..(hi - eo) as usize].to_vec()));
            }
        }
        out.len = end - off;
        out
    }
    pub fn truncate(&self, len: u64) -> Sparse {
        self.slice(0, len)
    }
    pub fn read_at(&self, pos: u64, buf: &mut [u8]) -> usize {
        if pos >= self.len {
            return 0;
        }
        let n = (buf.len() as u64).min(self.len - pos) as usize;
        for x in &mut buf[..n] {
            *x = 0;
        }
        let end = pos + n as u64;
        // extents are few; linear scan
        for (eo, b) in &self.ext {
            let ee = eo + b.len() as u64;
            let lo = (*eo).max(pos);
            let hi = ee.min(end);
            if lo < hi {
                buf[(lo - pos) as usize..(hi - pos) as usize].copy_from_slice(&b[(lo - eo) as usize..(hi - eo) as usize]);
            }
        }
        n
    }
    pub fn dense(&self) -> Option<Vec<u8>> {
        if self.len > (1 << 24) {
            return None;
        }
        let mut v = vec![0u8; self.len as usize];
        self.read_at(0, &mut v);
        Some(v)
    }
    pub fn set_byte(&mut self, pos: u64, val: u8) {
        if pos >= self.len {
            return;
        }
        for (eo, b) in &mut self.ext {
            if *eo <= pos && pos < *eo + b.len() as u64 {
                b[(pos - *eo) as usize] = val;
                return;
            }
        }
        if val != 0 {
            self.ext.push((pos, vec![val]));
            self.ext.sort_by_key(|e| e.0);
        }
    }
    pub fn byte_at(&self, pos: u64) -> u8 {
        let mut b = [0u8; 1];
        self.read_at(pos, &mut b);
        b[0]
    }
    pub fn line(&self) -> String {
        let mut s = format!("len={} ext=", self.len);
        let mut first = true;
        for (off, b) in &self.ext {
            if b.iter().all(|&x| x == 0) {
                continue;
            }
            if !first {
                s.push(';');
            }
            first = false;
            s.push_str(&format!("{}:{}", off, crate::hex(b)));
        }
        if first {
            s.push('-');
        }
        s
    }
    pub fn parse_line(len: &str, ext: &str) -> Sparse {
        let mut s = Sparse::new();
        s.len = len.parse().unwrap();
        if ext != "-" && !ext.is_empty() {
            for part in ext.split(';') {
                let (o, h) = part.split_once(':').unwrap();
                s.ext.push((o.parse().unwrap(), crate::unhex(h)));
            }
        }
        s
    }
}

/// `Read + Seek` with `std::io::Cursor` semantics over a sparse stream; `chunk` bounds each read (short reads).
pub struct SeekReader<'a> {
    pub s: &'a Sparse,
    pub pos: u64,
    pub chunk: usize,
}

impl<'a> SeekReader<'a> {
    pub fn new(s: &'a Sparse) -> Self {
        Self { s, pos: 0, chunk: usize::MAX }
    }
}

impl Read for SeekReader<'_> {
    fn read(&mut self, buf: &mut [u8]) -> io::Result<usize> {
        let want = buf.len().min(self.chunk.max(1));
        let n = self.s.read_at(self.pos, &mut buf[..want]);
        self.pos += n as u64;
        Ok(n)
    }
}

impl Seek for SeekReader<'_> {
    fn seek(&mut self, style: SeekFrom) -> io::Result<u64> {
        let (base, off) = match style {
            SeekFrom::Start(n) => {
                self.pos = n;
                return Ok(n);
            }
            SeekFrom::End(n) => (self.s.len, n),
            SeekFrom::Current(n) => (self.pos, n),
        };
        match base.checked_add_signed(off) {
            Some(n) => {
                self.pos = n;
                Ok(n)
            }
            None => Err(io::Error::new(io::ErrorKind::InvalidInput, "invalid seek to a negative or overflowing position")),
        }
    }
}

/// a custom strict `Read + Skip`: skipping past the end is an UnexpectedEof error
pub struct StrictReader<'a> {
    pub s: &'a Sparse,
    pub pos: u64,
    pub chunk: usize,
}

impl<'a> StrictReader<'a> {
    pub fn new(s: &'a Sparse) -> Self {
        Self { s, pos: 0, chunk: usize::MAX }
    }
}

impl Read for StrictReader<'_> {
    fn read(&mut self, buf: &mut [u8]) -> io::Result<usize> {
        let want = buf.len().min(self.chunk.max(1));
        let n = self.s.read_at(self.pos, &mut buf[..want]);
        self.pos += n as u64;
        Ok(n)
    }
}

impl Skip for StrictReader<'_> {
    fn skip(&mut self, amount: u64) -> io::Result<()> {
        match self.pos.checked_add(amount) {
            Some(p) if p <= self.s.len => {
                self.pos = p;
                Ok(())
            }
            _ => Err(io::ErrorKind::UnexpectedEof.into()),
        }
    }
    fn stream_position(&mut self) -> io::Result<u64> {
        Ok(self.pos)
    }
    fn stream_len(&mut self) -> io::Result<u64> {
        Ok(self.s.len)
    }
}
