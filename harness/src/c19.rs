//! C19: the buffered bit reader vs reading the whole string — (a) through the public BitBufReader API with tiny
//! capacities and short-read patterns, (b) in situ: webpsan's verdict with the capacity hook set to 16..64 vs 4096.
use std::io::{self, Read, Write};
use std::panic::AssertUnwindSafe;
use std::sync::atomic::Ordering;

use bitstream_io::LE;
use webpsan::parse::{BitBufReader, CanonicalHuffmanTree, VERIF_BIT_BUF_CAPACITY};

use crate::c07::{encoded_alph, encoded_vp8l, san_alph, san_vp8l};
use crate::rng::Rng;
use crate::synth;
use crate::{hex, unhex, Opts};

/// a reader that returns at most `pattern[i % len]` bytes per call (short reads)
struct Chunked<'a> {
    data: &'a [u8],
    pos: usize,
    pattern: &'a [usize],
    calls: usize,
}

impl Read for Chunked<'_> {
    fn read(&mut self, buf: &mut [u8]) -> io::Result<usize> {
        let lim = self.pattern[self.calls % self.pattern.len()].max(1);
        self.calls += 1;
        let n = buf.len().min(lim).min(self.data.len() - self.pos);
        buf[..n].copy_from_slice(&self.data[self.pos..self.pos + n]);
        self.pos += n;
        Ok(n)
    }
}

/// the fixed prefix codes used by `h<k>` operations: (symbol, length) lists
pub const TREES: [&[(u16, u8)]; 4] = [
    &[(0, 1), (1, 2), (2, 3), (3, 3)],
    &[(7, 1)],
    &[(0, 4), (1, 4), (2, 4), (3, 4), (4, 4), (5, 4), (6, 4), (7, 4), (8, 4), (9, 4), (10, 4), (11, 4), (12, 4), (13, 4), (14, 5), (15, 5), (16, 5), (17, 5)],
    &[(0, 1), (1, 2), (2, 3), (3, 4), (4, 5), (5, 6), (6, 7), (7, 8), (8, 9), (9, 10), (10, 11), (11, 12), (12, 13), (13, 14), (14, 15), (15, 15)],
];

pub fn api_case<W: Write>(out: &mut W, id: &str, cap: usize, pattern: &[usize], data: &[u8], ops: &str) {
    let res = crate::quiet(AssertUnwindSafe(|| {
        let trees: Vec<CanonicalHuffmanTree<LE, u16>> = TREES.iter().map(|t| CanonicalHuffmanTree::new(&mut t.to_vec()).unwrap()).collect();
        let mut rd = BitBufReader::<_, LE>::with_capacity(Chunked { data, pos: 0, pattern, calls: 0 }, cap);
        let mut vals: Vec<String> = vec![];
        for op in ops.split(',') {
            let r: Result<u64, ()> = if let Some(n) = op.strip_prefix('r') {
                rd.read::<u32>(n.parse().unwrap()).map(|v| v as u64).map_err(|_| ())
            } else if op == "b" {
                rd.read_bit().map(|v| v as u64).map_err(|_| ())
            } else if let Some(k) = op.strip_prefix('h') {
                rd.read_huffman(&trees[k.parse::<usize>().unwrap()]).map(|v| v as u64).map_err(|_| ())
            } else {
                Err(())
            };
            match r {
                Ok(v) => vals.push(v.to_string()),
                Err(()) => {
                    vals.push("EOF".into());
                    break;
                }
            }
        }
        vals.join(",")
    }))
    .unwrap_or("panic".into());
    let pat: Vec<String> = pattern.iter().map(|p| p.to_string()).collect();
    writeln!(out, "C19 id={id} kind=api cap={cap} chunk={} bytes={} ops={ops} impl={res}", pat.join("."), hex(data)).unwrap();
}

pub const SITU_CAPS: [usize; 9] = [16, 17, 19, 23, 31, 32, 47, 64, 4096];

pub fn situ_case<W: Write>(out: &mut W, id: &str, kind: &str, data: &[u8], w: u32, h: u32) {
    let mut verdicts = vec![];
    for cap in SITU_CAPS {
        VERIF_BIT_BUF_CAPACITY.store(cap, Ordering::Relaxed);
        let v = if kind == "vp8l" { san_vp8l(data) } else { san_alph(data, w, h) };
        verdicts.push(format!("{cap}:{}", v.text()));
    }
    VERIF_BIT_BUF_CAPACITY.store(4096, Ordering::Relaxed);
    writeln!(out, "C19 id={id} kind=situ sub={kind} w={w} h={h} data={} verdicts={}", hex(data), verdicts.join(";")).unwrap();
}

pub fn replay<W: Write>(line: &str, out: &mut W) {
    let get = |k: &str| line.split(' ').find_map(|t| t.strip_prefix(&format!("{k}=")).map(|s| s.to_string()));
    let id = get("id").unwrap_or("replay".into());
    match get("kind").as_deref() {
        Some("api") => {
            let pat: Vec<usize> = get("chunk").unwrap().split('.').map(|x| x.parse().unwrap()).collect();
            api_case(out, &id, get("cap").unwrap().parse().unwrap(), &pat, &unhex(&get("bytes").unwrap()), &get("ops").unwrap());
        }
        Some("situ") => situ_case(out, &id, &get("sub").unwrap(), &unhex(&get("data").unwrap()), get("w").unwrap().parse().unwrap(), get("h").unwrap().parse().unwrap()),
        _ => panic!("bad replay line"),
    }
}

pub fn run<W: Write>(opts: &Opts, out: &mut W) {
    let mut rng = Rng::new(opts.seed ^ 0xC19);
    let n: u64 = if opts.tier_thorough { 20000 } else { 2500 };
    // the longest read-ahead of the sub-image loop, at several bit alignments (a few large streams)
    for k in 0..(if opts.tier_thorough { 16u32 } else { 4 }) {
        if opts.mine(k as u64) {
            let data = crate::synth::backref_heavy(&mut rng.fork(0xbac0 + k as u64), k * 3 + k / 4);
            situ_case(out, &format!("situ-backref-heavy-{k}"), "vp8l", &data, 2048, 2048);
            // the costliest back-reference the format allows (deep length symbol + 10 + deep distance symbol + 18 bits)
            let (gd, dd) = [(15u8, 15u8), (15, 1), (9, 15), (12, 7)][k as usize % 4];
            let data = crate::synth::backref_max(&mut rng.fork(0xbac1 + k as u64), k * 7 + k / 2, gd, dd);
            situ_case(out, &format!("situ-backref-max-{k}"), "vp8l", &data, 4096, 4096);
            // the longest literal pixel (1 + 3 x 15 bits)
            let data = crate::synth::long_literals(&mut rng.fork(0x1176 + k as u64), k * 5 + k / 3);
            situ_case(out, &format!("situ-long-literals-{k}"), "vp8l", &data, 256, 256);
        }
    }
    for i in 0..n {
        if !opts.mine(i) {
            continue;
        }
        let mut r = rng.fork(i);
        let len = match r.below(4) {
            0 => r.below(8) as usize,
            1 => 8 + r.below(40) as usize,
            _ => 40 + r.below(200) as usize,
        };
        let data = r.bytes(len);
        let nops = 1 + r.below(60) as usize;
        let ops: Vec<String> = (0..nops)
            .map(|_| match r.below(10) {
                0..=3 => format!("r{}", 1 + r.below(32)),
                4 | 5 => "b".to_string(),
                6 => format!("r{}", *r.pick(&[1u32, 7, 8, 9, 15, 16, 17, 24, 31, 32])),
                _ => format!("h{}", r.below(4)),
            })
            .collect();
        let ops = ops.join(",");
        let pattern: Vec<usize> = match r.below(5) {
            0 => vec![1],
            1 => vec![usize::MAX],
            2 => vec![1 + r.below(4) as usize, 1 + r.below(9) as usize],
            3 => vec![3, 1, 7, 2],
            _ => (0..1 + r.below(5)).map(|_| 1 + r.below(20) as usize).collect(),
        };
        // every capacity 16..=64 is visited over the run; each case also runs at 4096
        let cap = 16 + (i % 49) as usize;
        api_case(out, &format!("api-{i}"), cap, &pattern, &data, &ops);
        api_case(out, &format!("api-{i}-4096"), 4096, &pattern, &data, &ops);
    }
    // in situ
    let m: u64 = if opts.tier_thorough { 3000 } else { 300 };
    for i in 0..m {
        if !opts.mine(i) {
            continue;
        }
        let mut r = rng.fork(i ^ 0x5151);
        match i % 4 {
            0 => {
                if let Some((p, _w, _h)) = encoded_vp8l(&mut r, false) {
                    situ_case(out, &format!("situ-enc-{i}"), "vp8l", &p, 0, 0);
                }
            }
            1 => {
                if let Some((p, w, h)) = encoded_alph(&mut r, false) {
                    situ_case(out, &format!("situ-alph-{i}"), "alph", &p, w, h);
                }
            }
            _ => {
                let (w, h) = (1 + r.below(40) as u32, 1 + r.below(40) as u32);
                let want = synth::VIOLATIONS[(i % synth::VIOLATIONS.len() as u64) as usize];
                let (p, _v) = synth::synth_vp8l(&mut r, w, h, if i % 3 == 0 || want == "none" { None } else { Some(want) });
                situ_case(out, &format!("situ-synth-{i}"), "vp8l", &p, 0, 0);
                // and truncated at a random point (end-of-data must be reported only when truly exhausted)
                if !p.is_empty() {
                    let cut = r.below(p.len() as u64) as usize;
                    situ_case(out, &format!("situ-synth-{i}-cut{cut}"), "vp8l", &p[..cut], 0, 0);
                }
            }
        }
    }
}
