//! libwebp 1.3.1 (vendored in libwebp-sys): the reference header-phase decoder and the encoders.
use std::os::raw::c_int;

extern "C" {
    fn verif_vp8l_decode_header(data: *const u8, size: usize, status: *mut c_int, width: *mut c_int, height: *mut c_int) -> c_int;
    fn verif_alpha_decode_header(data: *const u8, size: usize, width: c_int, height: c_int, status: *mut c_int) -> c_int;
}

#[derive(Clone, Copy, Debug, PartialEq, Eq)]
pub enum RefVerdict {
    Ok,
    /// VP8_STATUS_BITSTREAM_ERROR
    Bitstream,
    /// ran out of data (VP8_STATUS_SUSPENDED / NOT_ENOUGH_DATA)
    Truncated,
    Other(i32),
}

fn verdict(ok: c_int, status: c_int) -> RefVerdict {
    if ok != 0 {
        return RefVerdict::Ok;
    }
    match status {
        3 => RefVerdict::Bitstream,
        5 | 7 => RefVerdict::Truncated,
        s => RefVerdict::Other(s),
    }
}

impl RefVerdict {
    pub fn name(&self) -> String {
        match self {
            RefVerdict::Ok => "ok".into(),
            RefVerdict::Bitstream => "bitstream".into(),
            RefVerdict::Truncated => "truncated".into(),
            RefVerdict::Other(s) => format!("other{s}"),
        }
    }
}

/// whole VP8L chunk payload (starting with the 0x2f signature)
pub fn vp8l_header(data: &[u8]) -> (RefVerdict, i32, i32) {
    let (mut st, mut w, mut h) = (0, 0, 0);
    let ok = unsafe { verif_vp8l_decode_header(data.as_ptr(), data.len(), &mut st, &mut w, &mut h) };
    (verdict(ok, st), w, h)
}

/// lossless ALPH payload without its one-byte header
pub fn alpha_header(data: &[u8], width: u32, height: u32) -> RefVerdict {
    let mut st = 0;
    let ok = unsafe { verif_alpha_decode_header(data.as_ptr(), data.len(), width as c_int, height as c_int, &mut st) };
    verdict(ok, st)
}

/// lossless encode of an RGBA image with the advanced API
pub fn encode_lossless(rgba: &[u8], w: u32, h: u32, method: i32, quality: f32, near_lossless: i32, exact: bool) -> Option<Vec<u8>> {
    use libwebp_sys::*;
    unsafe {
        let mut config = WebPConfig::new().ok()?;
        config.lossless = 1;
        config.method = method;
        config.quality = quality;
        config.near_lossless = near_lossless;
        config.exact = exact as c_int;
        if WebPValidateConfig(&config) == 0 {
            return None;
        }
        let mut pic = WebPPicture::new().ok()?;
        pic.use_argb = 1;
        pic.width = w as c_int;
        pic.height = h as c_int;
        if WebPPictureImportRGBA(&mut pic, rgba.as_ptr(), (w * 4) as c_int) == 0 {
            WebPPictureFree(&mut pic);
            return None;
        }
        let mut wrt: WebPMemoryWriter = std::mem::zeroed();
        WebPMemoryWriterInit(&mut wrt);
        pic.writer = Some(WebPMemoryWrite);
        pic.custom_ptr = &mut wrt as *mut _ as *mut std::ffi::c_void;
        let ok = WebPEncode(&config, &mut pic);
        WebPPictureFree(&mut pic);
        let out = if ok != 0 { Some(std::slice::from_raw_parts(wrt.mem, wrt.size).to_vec()) } else { None };
        WebPMemoryWriterClear(&mut wrt);
        out
    }
}

/// lossy encode (optionally with alpha): VP8 or VP8X+ALPH+VP8
pub fn encode_lossy(rgba: &[u8], w: u32, h: u32, quality: f32, alpha_compression: i32, alpha_filtering: i32, alpha_quality: i32) -> Option<Vec<u8>> {
    use libwebp_sys::*;
    unsafe {
        let mut config = WebPConfig::new().ok()?;
        config.lossless = 0;
        config.quality = quality;
        config.method = 0;
        config.alpha_compression = alpha_compression;
        config.alpha_filtering = alpha_filtering;
        config.alpha_quality = alpha_quality;
        if WebPValidateConfig(&config) == 0 {
            return None;
        }
        let mut pic = WebPPicture::new().ok()?;
        pic.width = w as c_int;
        pic.height = h as c_int;
        if WebPPictureImportRGBA(&mut pic, rgba.as_ptr(), (w * 4) as c_int) == 0 {
            WebPPictureFree(&mut pic);
            return None;
        }
        let mut wrt: WebPMemoryWriter = std::mem::zeroed();
        WebPMemoryWriterInit(&mut wrt);
        pic.writer = Some(WebPMemoryWrite);
        pic.custom_ptr = &mut wrt as *mut _ as *mut std::ffi::c_void;
        let ok = WebPEncode(&config, &mut pic);
        WebPPictureFree(&mut pic);
        let out = if ok != 0 { Some(std::slice::from_raw_parts(wrt.mem, wrt.size).to_vec()) } else { None };
        WebPMemoryWriterClear(&mut wrt);
        out
    }
}

/// whole-file verdict of libwebp's public decoder (features + decode of every frame): used as a sanity oracle
pub fn decode_file_ok(data: &[u8]) -> bool {
    use libwebp_sys::*;
    unsafe {
        let mut features: WebPBitstreamFeatures = std::mem::zeroed();
        if WebPGetFeatures(data.as_ptr(), data.len(), &mut features) != VP8StatusCode::VP8_STATUS_OK {
            return false;
        }
        if features.has_animation != 0 {
            return true; // frames are judged through the demuxer by the callers that need it
        }
        let (mut w, mut h) = (0, 0);
        let p = WebPDecodeRGBA(data.as_ptr(), data.len(), &mut w, &mut h);
        if p.is_null() {
            return false;
        }
        WebPFree(p as *mut std::ffi::c_void);
        true
    }
}

/// Animated WebP via libwebp's WebPAnimEncoder: frames are RGBA canvases; the encoder emits sub-canvas frames for
/// the changed rectangle.  `lossless`: per-frame codec; `metadata`: adds ICCP/EXIF/XMP through the mux API.
pub fn encode_animation(frames: &[Vec<u8>], w: u32, h: u32, lossless: bool, allow_mixed: bool, minimize: bool, metadata: bool) -> Option<Vec<u8>> {
    use libwebp_sys::*;
    unsafe {
        let mut opts: WebPAnimEncoderOptions = std::mem::zeroed();
        if WebPAnimEncoderOptionsInitInternal(&mut opts, WEBP_MUX_ABI_VERSION as c_int) == 0 {
            return None;
        }
        opts.allow_mixed = allow_mixed as c_int;
        opts.minimize_size = minimize as c_int;
        let enc = WebPAnimEncoderNewInternal(w as c_int, h as c_int, &opts, WEBP_MUX_ABI_VERSION as c_int);
        if enc.is_null() {
            return None;
        }
        let mut config = WebPConfig::new().ok()?;
        config.lossless = lossless as c_int;
        config.method = 1;
        config.quality = 60.0;
        let mut ts = 0;
        let mut ok = true;
        for f in frames {
            let mut pic = WebPPicture::new().ok()?;
            pic.use_argb = 1;
            pic.width = w as c_int;
            pic.height = h as c_int;
            if WebPPictureImportRGBA(&mut pic, f.as_ptr(), (w * 4) as c_int) == 0 {
                ok = false;
            } else if WebPAnimEncoderAdd(enc, &mut pic, ts, &config) == 0 {
                ok = false;
            }
            WebPPictureFree(&mut pic);
            ts += 40;
            if !ok {
                break;
            }
        }
        let mut out = None;
        if ok && WebPAnimEncoderAdd(enc, std::ptr::null_mut(), ts, std::ptr::null()) != 0 {
            let mut data: WebPData = std::mem::zeroed();
            if WebPAnimEncoderAssemble(enc, &mut data) != 0 {
                let mut bytes = std::slice::from_raw_parts(data.bytes, data.size).to_vec();
                if metadata {
                    bytes = add_metadata(&bytes).unwrap_or(bytes);
                }
                out = Some(bytes);
                WebPFree(data.bytes as *mut std::ffi::c_void);
            }
        }
        WebPAnimEncoderDelete(enc);
        out
    }
}

/// add ICCP / EXIF / XMP chunks to a WebP file through libwebp's mux API
pub fn add_metadata(file: &[u8]) -> Option<Vec<u8>> {
    use libwebp_sys::*;
    unsafe {
        let input = WebPData { bytes: file.as_ptr(), size: file.len() };
        let mux = WebPMuxCreateInternal(&input, 1, WEBP_MUX_ABI_VERSION as c_int);
        if mux.is_null() {
            return None;
        }
        for (fourcc, payload) in [(b"ICCP\0", &b"fake icc profile"[..]), (b"EXIF\0", &b"Exif\0\0II*\0"[..]), (b"XMP \0", &b"<x:xmpmeta/>"[..])] {
            let d = WebPData { bytes: payload.as_ptr(), size: payload.len() };
            WebPMuxSetChunk(mux, fourcc.as_ptr() as *const std::os::raw::c_char, &d, 1);
        }
        let mut outd: WebPData = std::mem::zeroed();
        let r = WebPMuxAssemble(mux, &mut outd);
        let out = if r == WebPMuxError::WEBP_MUX_OK { Some(std::slice::from_raw_parts(outd.bytes, outd.size).to_vec()) } else { None };
        if !outd.bytes.is_null() {
            WebPFree(outd.bytes as *mut std::ffi::c_void);
        }
        WebPMuxDelete(mux);
        out
    }
}

/// whole-file verdict of libwebp for an animation: demux + decode every frame
pub fn decode_animation_ok(file: &[u8]) -> bool {
    use libwebp_sys::*;
    unsafe {
        let data = WebPData { bytes: file.as_ptr(), size: file.len() };
        let dmx = WebPDemuxInternal(&data, 0, std::ptr::null_mut(), WEBP_DEMUX_ABI_VERSION as c_int);
        if dmx.is_null() {
            return false;
        }
        let mut it: WebPIterator = std::mem::zeroed();
        let mut ok = true;
        if WebPDemuxGetFrame(dmx, 1, &mut it) != 0 {
            loop {
                let (mut w, mut h) = (0, 0);
                let p = WebPDecodeRGBA(it.fragment.bytes, it.fragment.size, &mut w, &mut h);
                if p.is_null() {
                    ok = false;
                } else {
                    WebPFree(p as *mut std::ffi::c_void);
                }
                if WebPDemuxNextFrame(&mut it) == 0 {
                    break;
                }
            }
            WebPDemuxReleaseIterator(&mut it);
        } else {
            ok = false;
        }
        WebPDemuxDelete(dmx);
        ok
    }
}
