//! C07 / C08: lossless payloads (VP8L chunks and lossless ALPH) — webpsan vs the Lean model vs libwebp's
//! header-phase decoder.  One case = one payload with its dimensions.
use std::io::Write;

use crate::refdec::{self, RefVerdict};
use crate::rng::Rng;
use crate::synth;
use crate::webprun::*;
use crate::{hex, unhex, Opts};

/// webpsan's verdict on a VP8L payload (whole chunk payload incl. the 5-byte header), via a minimal container
pub fn san_vp8l(payload: &[u8]) -> WOut {
    run_webp_bytes(&riff(&[chunk(b"VP8L", payload)]), false)
}

/// webpsan's verdict on an ALPH payload (1 header byte + stream) for a w x h canvas, via VP8X + ALPH + VP8
pub fn san_alph(payload: &[u8], w: u32, h: u32) -> WOut {
    run_webp_bytes(&riff(&[chunk(b"VP8X", &vp8x_payload(0x10, w, h)), chunk(b"ALPH", payload), chunk(b"VP8 ", VP8_DATA)]), false)
}

pub fn emit_vp8l<W: Write>(out: &mut W, prop: &str, id: &str, payload: &[u8]) {
    let san = san_vp8l(payload);
    let (rv, rw, rh) = refdec::vp8l_header(payload);
    writeln!(out, "{prop} id={id} kind=vp8l data={} impl={} ref={} refdim={}x{}", hex(payload), san.text(), rv.name(), rw, rh).unwrap();
}

pub fn emit_alph<W: Write>(out: &mut W, prop: &str, id: &str, payload: &[u8], w: u32, h: u32) {
    let san = san_alph(payload, w, h);
    // reference: only the lossless method has a header phase (method bits = payload[0] & 3 == 1)
    // the ALPH header byte per the container specification (libwebp's ALPHInit): method <= 1, pre-processing <= 1,
    // reserved bits zero; only the lossless method (1) has a header phase
    let rv = if payload.is_empty() {
        RefVerdict::Truncated
    } else {
        let b = payload[0];
        if b & 3 > 1 || (b >> 4) & 3 > 1 || b >> 6 != 0 {
            RefVerdict::Bitstream
        } else if b & 3 == 1 {
            refdec::alpha_header(&payload[1..], w, h)
        } else {
            RefVerdict::Ok
        }
    };
    writeln!(out, "{prop} id={id} kind=alph w={w} h={h} data={} impl={} ref={}", hex(payload), san.text(), rv.name()).unwrap();
}

pub fn replay<W: Write>(prop: &str, line: &str, out: &mut W) {
    let get = |k: &str| line.split(' ').find_map(|t| t.strip_prefix(&format!("{k}=")).map(|s| s.to_string()));
    let data = get("data").map(|d| unhex(&d)).unwrap_or_default();
    let id = get("id").unwrap_or("replay".into());
    match get("kind").as_deref() {
        Some("vp8l") => emit_vp8l(out, prop, &id, &data),
        Some("alph") => emit_alph(out, prop, &id, &data, get("w").unwrap().parse().unwrap(), get("h").unwrap().parse().unwrap()),
        Some("file") => {
            let s = crate::sparse::Sparse::parse_line(&get("len").unwrap(), &get("ext").unwrap());
            let f = s.dense().unwrap();
            emit_file(out, prop, &id, &f, f.windows(4).any(|w| w == b"ANIM"));
        }
        Some("frame") => {
            let s = crate::sparse::Sparse::parse_line(&get("len").unwrap(), &get("ext").unwrap());
            let f = s.dense().unwrap();
            emit_frame(out, prop, &id, &f);
        }
        _ => panic!("bad replay line"),
    }
}

#[derive(Clone, Copy, Debug)]
pub enum ImgKind {
    Noise,
    Gradient,
    Flat,
    Palette(u32),
    Photo,
    Stripes,
}

pub fn image(rng: &mut Rng, kind: ImgKind, w: u32, h: u32, alpha: bool) -> Vec<u8> {
    let mut px = Vec::with_capacity((w * h * 4) as usize);
    let pal: Vec<[u8; 4]> = match kind {
        ImgKind::Palette(n) => (0..n).map(|_| { let b = rng.bytes(4); [b[0], b[1], b[2], if alpha { b[3] } else { 255 }] }).collect(),
        _ => vec![],
    };
    let flat = rng.bytes(4);
    for y in 0..h {
        for x in 0..w {
            let p: [u8; 4] = match kind {
                ImgKind::Noise => { let b = rng.bytes(4); [b[0], b[1], b[2], b[3]] }
                ImgKind::Gradient => [(x * 255 / w.max(1)) as u8, (y * 255 / h.max(1)) as u8, ((x + y) & 0xff) as u8, (255 - (x & 0xff)) as u8],
                ImgKind::Flat => [flat[0], flat[1], flat[2], flat[3]],
                ImgKind::Palette(n) => pal[(rng.below(n as u64)) as usize],
                ImgKind::Photo => {
                    let v = ((x as f32 * 0.13).sin() * 60.0 + (y as f32 * 0.07).cos() * 60.0 + 128.0) as i32 + (rng.below(9) as i32 - 4);
                    let v = v.clamp(0, 255) as u8;
                    [v, v.wrapping_add((x & 7) as u8), v / 2 + 40, 255 - v / 3]
                }
                ImgKind::Stripes => if (x / 3 + y / 5) % 2 == 0 { [255, 0, 0, 255] } else { [0, 0, 255, 128] },
            };
            px.extend_from_slice(&[p[0], p[1], p[2], if alpha { p[3] } else { 255 }]);
        }
    }
    px
}

pub const KINDS: [ImgKind; 9] = [
    ImgKind::Noise, ImgKind::Gradient, ImgKind::Flat, ImgKind::Palette(2), ImgKind::Palette(4), ImgKind::Palette(16),
    ImgKind::Palette(200), ImgKind::Photo, ImgKind::Stripes,
];

fn pick_dims(rng: &mut Rng, thorough: bool) -> (u32, u32) {
    match rng.below(if thorough { 12 } else { 10 }) {
        0 => (1, 1),
        1 => (1 + rng.below(4) as u32, 1 + rng.below(4) as u32),
        2 => (1 + rng.below(16) as u32, 1),
        3 => (1, 1 + rng.below(40) as u32),
        4 | 5 => (1 + rng.below(40) as u32, 1 + rng.below(40) as u32),
        6 | 7 => (16 + rng.below(120) as u32, 16 + rng.below(120) as u32),
        8 => (300 + rng.below(213) as u32, 2 + rng.below(30) as u32),
        9 => (17, 257),
        10 => (2000 + rng.below(2097) as u32, 1 + rng.below(6) as u32), // wide strips: streams far beyond 4 KiB
        _ => (256 + rng.below(257) as u32, 256 + rng.below(257) as u32),
    }
}

/// one encoder-produced lossless payload (VP8L chunk payload) with its dimensions
pub fn encoded_vp8l(rng: &mut Rng, thorough: bool) -> Option<(Vec<u8>, u32, u32)> {
    let (w, h) = pick_dims(rng, thorough);
    let kind = *rng.pick(&KINDS);
    let alpha = rng.chance(1, 2);
    let img = image(rng, kind, w, h, alpha);
    let method = rng.below(7) as i32;
    let quality = *rng.pick(&[0.0f32, 25.0, 50.0, 75.0, 100.0]);
    let near = *rng.pick(&[100, 100, 100, 60, 0]);
    let file = refdec::encode_lossless(&img, w, h, method, quality, near, rng.chance(1, 2))?;
    let chunks = split_chunks(&file);
    let p = chunks.iter().find(|(n, _)| n == b"VP8L")?.1.clone();
    Some((p, w, h))
}

/// one encoder-produced ALPH payload (header byte + data) with its dimensions
pub fn encoded_alph(rng: &mut Rng, thorough: bool) -> Option<(Vec<u8>, u32, u32)> {
    let (w, h) = pick_dims(rng, thorough);
    let kind = *rng.pick(&KINDS);
    let img = image(rng, kind, w, h, true);
    let file = refdec::encode_lossy(&img, w, h, 50.0, if rng.chance(4, 5) { 1 } else { 0 }, rng.below(3) as i32, *rng.pick(&[100, 100, 50, 0]))?;
    let chunks = split_chunks(&file);
    let p = chunks.iter().find(|(n, _)| n == b"ALPH")?.1.clone();
    Some((p, w, h))
}

fn mutate(rng: &mut Rng, p: &[u8]) -> Vec<u8> {
    let mut m = p.to_vec();
    if m.is_empty() {
        return m;
    }
    match rng.below(6) {
        0 | 1 => {
            // bit flip, biased to the header phase (first 64 bytes)
            let span = if rng.chance(2, 3) { m.len().min(64) } else { m.len() };
            let i = rng.below(span as u64) as usize;
            m[i] ^= 1 << rng.below(8);
        }
        2 => {
            let i = rng.below(m.len().min(96) as u64) as usize;
            m[i] = rng.next() as u8;
        }
        3 => {
            let cut = rng.below(m.len() as u64) as usize;
            m.truncate(cut);
        }
        4 => {
            // splice: overwrite a window with bytes from elsewhere in the payload
            let n = 1 + rng.below(8) as usize;
            let a = rng.below(m.len() as u64) as usize;
            let b = rng.below(m.len() as u64) as usize;
            for k in 0..n {
                if a + k < m.len() && b + k < m.len() {
                    m[a + k] = p[b + k];
                }
            }
        }
        _ => {
            let i = 5.min(m.len() - 1) + rng.below((m.len() - 5.min(m.len() - 1)).min(24) as u64) as usize;
            m[i] = m[i].wrapping_add(1);
        }
    }
    m
}

fn synth_cases<W: Write>(prop: &str, opts: &Opts, out: &mut W, rng: &mut Rng) {
    // valid streams with a LONG header phase (two or more refills of the production 4096-byte bit buffer): whatever
    // depends on how much is buffered when a symbol is decoded shows only here
    let nl: u64 = if opts.tier_thorough { 400 } else { 48 };
    for i in 0..nl {
        if !opts.mine(i) {
            continue;
        }
        let mut r = rng.fork(i ^ 0x10_0000);
        let (body, w, h) = synth::long_header_stream(&mut r, 9000);
        if i % 4 == 3 {
            let mut p = vec![1u8 | ((r.below(4) as u8) << 2)];
            p.extend(body);
            emit_alph(out, prop, &format!("synth-long-alph-{i}-valid"), &p, w, h);
        } else {
            let mut bw = synth::BitWriter::new();
            bw.bits(0x2f, 8);
            bw.bits(w - 1, 14);
            bw.bits(h - 1, 14);
            bw.bit(r.chance(1, 2));
            bw.bits(0, 3);
            let mut p = bw.bytes;
            p.extend(body);
            emit_vp8l(out, prop, &format!("synth-long-{i}-valid"), &p);
        }
    }
    // invalid streams whose explicit max_symbol only looks small after a 16-bit wrap
    for which in 0..5usize {
        for field in [0xffffu32, 0xfffe, 0xfffd, 0x8000, 0x7fff] {
            let id = which as u64 * 8 + field as u64 % 8;
            if !opts.mine(id) {
                continue;
            }
            emit_vp8l(out, prop, &format!("synth-wrap-{which}-{field:x}-max-symbol-gt-alphabet"), &synth::hidden_max_symbol(which, field));
        }
    }
    // valid streams whose sub-image literals have mixed, mostly maximal, cost over several production buffers
    for k in 0..(if opts.tier_thorough { 8u64 } else { 2 }) {
        if !opts.mine(950 + k) {
            continue;
        }
        emit_vp8l(out, prop, &format!("synth-deep-{k}-valid"), &synth::long_literals_mixed(&mut rng.fork(0xdee9 + k)));
    }
    // invalid streams whose group count hangs on a two-symbol simple code that names the larger symbol first
    for (k, &(hi, lo, in_red)) in [(1u32, 0u32, false), (3, 1, false), (2, 0, false), (255, 254, false), (7, 2, false), (1, 0, true), (2, 1, true)].iter().enumerate() {
        if !opts.mine(900 + k as u64) {
            continue;
        }
        emit_vp8l(out, prop, &format!("synth-order-{hi}-{lo}-{}-simple-code-order", if in_red { "red" } else { "green" }), &synth::hidden_simple_order(hi, lo, in_red));
    }
    // invalid streams that are complete for a reader which stops a multi-pixel sub-image after its first pixel
    for which in 0..3u32 {
        if !opts.mine(940 + which as u64) {
            continue;
        }
        emit_vp8l(out, prop, &format!("synth-first-pixel-only-{which}-invalid"), &synth::first_pixel_only(which));
    }
    // invalid streams whose violation hides behind a sub-image that a reader with a wrong idea of its size swallows whole
    let mut hi = 0u64;
    for &(w, h) in &[(16u32, 1u32), (17, 3), (33, 9), (64, 64), (100, 40), (257, 5)] {
        for ncolors in [None, Some(2u32), Some(4), Some(16)] {
            for t in [0u32, 1] {
                for k in [0u32, 1, 2] {
                    for hyp in 0..3u32 {
                        hi += 1;
                        if !opts.mine(hi) {
                            continue;
                        }
                        if ncolors.is_none() && hyp == 0 {
                            continue;
                        }
                        let mut r = rng.fork(hi ^ 0x30_0000);
                        if let Some(p) = synth::hidden_duplicate_transform(&mut r, w, h, ncolors, t, k, hyp) {
                            emit_vp8l(out, prop, &format!("synth-hidden-{w}x{h}-n{}-t{t}-k{k}-h{hyp}-duplicate-transform", ncolors.unwrap_or(0)), &p);
                        }
                    }
                }
            }
        }
    }
    // ... and valid streams with many groups of big normal prefix codes (the definitions, not pixel data, span the refills)
    let ng: u64 = if opts.tier_thorough { 300 } else { 40 };
    for i in 0..ng {
        if !opts.mine(i) {
            continue;
        }
        let mut r = rng.fork(i ^ 0x20_0000);
        let groups = 6 + r.below(40) as u32;
        let p = synth::many_normal_groups(&mut r, groups);
        emit_vp8l(out, prop, &format!("synth-groups-{i}-{groups}-valid"), &p);
    }
    let n: u64 = if opts.tier_thorough { 40000 } else { 4000 };
    for i in 0..n {
        if !opts.mine(i) {
            continue;
        }
        let mut r = rng.fork(i ^ 0x5959);
        let (w, h) = match r.below(8) {
            0 => (1, 1),
            1 => (1 + r.below(9) as u32, 1 + r.below(9) as u32),
            2 => (1 + r.below(9) as u32, 1),
            3 => (16384, 1 + r.below(3) as u32),
            4 => (1 + r.below(3) as u32, 16384),
            _ => (1 + r.below(40) as u32, 1 + r.below(40) as u32),
        };
        let want = synth::VIOLATIONS[(i % synth::VIOLATIONS.len() as u64) as usize];
        let want = if want == "none" || i % 3 == 0 { None } else { Some(want) };
        if i % 7 == 6 {
            // lossless ALPH body
            let mut bw = synth::BitWriter::new();
            let mut v = synth::Violations::default();
            synth::write_lossless_stream(&mut bw, &mut r, w, h, want, &mut v);
            let mut p = vec![1u8 | ((r.below(4) as u8) << 2)];
            p.extend(bw.bytes);
            let tag = if v.what.is_empty() { "valid".to_string() } else { v.what.join("+") };
            emit_alph(out, prop, &format!("synth-alph-{i}-{tag}"), &p, w, h);
        } else {
            let (p, v) = synth::synth_vp8l(&mut r, w, h, want);
            let tag = if v.what.is_empty() { "valid".to_string() } else { v.what.join("+") };
            emit_vp8l(out, prop, &format!("synth-{i}-{tag}"), &p);
        }
    }
}

/// C08, container side: whole files from libwebp's encoders, animation encoder and muxer must be accepted
pub fn emit_file<W: Write>(out: &mut W, prop: &str, id: &str, file: &[u8], animated: bool) {
    let san = run_webp_bytes(file, false);
    let rv = if animated { refdec::decode_animation_ok(file) } else { refdec::decode_file_ok(file) };
    let s = crate::sparse::Sparse::from_bytes(file);
    writeln!(out, "{prop} id={id} kind=file {} impl={} ref={}", s.line(), san.text(), if rv { "ok" } else { "bitstream" }).unwrap();
}

fn file_cases<W: Write>(prop: &str, opts: &Opts, out: &mut W, rng: &mut Rng) {
    let n: u64 = if opts.tier_thorough { 3000 } else { 240 };
    for i in 0..n {
        if !opts.mine(i) {
            continue;
        }
        let mut r = rng.fork(i ^ 0xF11E);
        let (w, h) = pick_dims(&mut r, false);
        let (w, h) = (w.min(96), h.min(96));
        let kind = *r.pick(&KINDS);
        let alpha = r.chance(1, 2);
        let img = image(&mut r, kind, w, h, alpha);
        match i % 6 {
            0 => {
                if let Some(f) = refdec::encode_lossless(&img, w, h, r.below(7) as i32, *r.pick(&[0.0f32, 50.0, 100.0]), *r.pick(&[100, 60, 0]), r.chance(1, 2)) {
                    emit_file(out, prop, &format!("file-lossless-{i}"), &f, false);
                    if let Some(m) = refdec::add_metadata(&f) {
                        emit_file(out, prop, &format!("file-lossless-meta-{i}"), &m, false);
                    }
                }
            }
            1 | 2 => {
                if let Some(f) = refdec::encode_lossy(&img, w, h, *r.pick(&[10.0f32, 60.0, 95.0]), r.below(2) as i32, r.below(3) as i32, *r.pick(&[100, 50, 0])) {
                    emit_file(out, prop, &format!("file-lossy-{i}"), &f, false);
                    if i % 4 == 1 {
                        if let Some(m) = refdec::add_metadata(&f) {
                            emit_file(out, prop, &format!("file-lossy-meta-{i}"), &m, false);
                        }
                    }
                }
            }
            _ => {
                let nf = 2 + r.below(4) as usize;
                let mut frames = vec![img.clone()];
                for _ in 1..nf {
                    let mut f = frames.last().unwrap().clone();
                    let (rx, ry) = (r.below(w as u64) as u32, r.below(h as u64) as u32);
                    let (rw, rh) = (1 + r.below((w - rx) as u64) as u32, 1 + r.below((h - ry) as u64) as u32);
                    for y in ry..ry + rh {
                        for x in rx..rx + rw {
                            let o = ((y * w + x) * 4) as usize;
                            let px = r.bytes(4);
                            f[o..o + 4].copy_from_slice(&[px[0], px[1], px[2], if alpha { px[3] } else { 255 }]);
                        }
                    }
                    frames.push(f);
                }
                if let Some(f) = refdec::encode_animation(&frames, w, h, r.chance(1, 2), r.chance(1, 2), r.chance(1, 2), r.chance(1, 3)) {
                    emit_file(out, prop, &format!("file-anim-{i}"), &f, true);
                }
            }
        }
    }
}

/// a lossy frame with losslessly compressed alpha (made by libwebp for fw x fh), placed as the single frame of an
/// animation on a cw x ch canvas: the frame's ALPH stream has the dimensions of the FRAME
pub fn alpha_frame_file(alph: &[u8], vp8: &[u8], cw: u32, ch: u32, fw: u32, fh: u32) -> Vec<u8> {
    let mut anmf = vec![];
    anmf.extend_from_slice(&0u32.to_le_bytes()[..3]);
    anmf.extend_from_slice(&0u32.to_le_bytes()[..3]);
    anmf.extend_from_slice(&(fw - 1).to_le_bytes()[..3]);
    anmf.extend_from_slice(&(fh - 1).to_le_bytes()[..3]);
    anmf.extend_from_slice(&[40, 0, 0]);
    anmf.push(0);
    anmf.extend(chunk(b"ALPH", alph));
    anmf.extend(chunk(b"VP8 ", vp8));
    riff(&[chunk(b"VP8X", &vp8x_payload(0x12, cw, ch)), chunk(b"ANIM", &[0, 0, 0, 0, 0, 0]), chunk(b"ANMF", &anmf)])
}

/// a single-frame animation whose frame carries a lossless ALPH: webpsan's verdict on the file, the reference's
/// header-phase verdict on the alpha stream for the dimensions of the FRAME (read back from the ANMF header)
pub fn emit_frame<W: Write>(out: &mut W, prop: &str, id: &str, file: &[u8]) {
    let san = run_webp_bytes(file, false);
    let mut rv = RefVerdict::Other(-1);
    if let Some((_, anmf)) = split_chunks(file).into_iter().find(|(n, _)| n == b"ANMF") {
        if anmf.len() >= 16 {
            let le3 = |b: &[u8]| b[0] as u32 | (b[1] as u32) << 8 | (b[2] as u32) << 16;
            let (fw, fh) = (1 + le3(&anmf[6..9]), 1 + le3(&anmf[9..12]));
            // the frame's own chunks: a RIFF-less chunk sequence
            let mut wrapped = b"RIFF\0\0\0\0WEBP".to_vec();
            wrapped.extend_from_slice(&anmf[16..]);
            if let Some((_, a)) = split_chunks(&wrapped).into_iter().find(|(n, _)| n == b"ALPH") {
                if !a.is_empty() {
                    rv = refdec::alpha_header(&a[1..], fw, fh);
                }
            }
        }
    }
    let s = crate::sparse::Sparse::from_bytes(file);
    writeln!(out, "{prop} id={id} kind=frame {} impl={} ref={}", s.line(), san.text(), if rv == RefVerdict::Ok { "ok" } else { "bitstream" }).unwrap();
}

/// experiment / generator: sub-canvas frames with lossless alpha
pub fn alpha_frames<W: Write>(prop: &str, opts: &Opts, out: &mut W, rng: &mut Rng) {
    let n: u64 = if opts.tier_thorough { 600 } else { 60 };
    for i in 0..n {
        if !opts.mine(i) {
            continue;
        }
        let mut r = rng.fork(i ^ 0xA1FA);
        let big = opts.tier_thorough && i % 3 == 0;
        let (fw, fh) = if big { (100 + r.below(300) as u32, 100 + r.below(300) as u32) } else { (1 + r.below(80) as u32, 1 + r.below(80) as u32) };
        let kind = *r.pick(&KINDS);
        let img = image(&mut r, kind, fw, fh, true);
        let Some(f) = refdec::encode_lossy(&img, fw, fh, 60.0, 1, r.below(3) as i32, *r.pick(&[100, 70])) else { continue };
        let chunks = split_chunks(&f);
        let (Some(a), Some(v)) = (chunks.iter().find(|(n, _)| n == b"ALPH"), chunks.iter().find(|(n, _)| n == b"VP8 ")) else { continue };
        // the same frame on a canvas of its own size, and on larger canvases
        let canvases = [(fw, fh), (fw + 1 + r.below(100) as u32, fh + 1 + r.below(100) as u32), (fw * 2 + 3, fh)];
        if prop == "C08" {
            for (cw, ch) in canvases {
                let file = alpha_frame_file(&a.1, &v.1, cw, ch, fw, fh);
                emit_file(out, prop, &format!("alpha-frame-{i}-{cw}x{ch}-{fw}x{fh}"), &file, true);
            }
        }
        // a synthesised lossless alpha stream, valid for the FRAME's dimensions (transforms and meta prefix images sized by
        // them), judged by the reference's header-phase decoder for those dimensions
        let mut bw = synth::BitWriter::new();
        let mut viol = synth::Violations::default();
        synth::write_lossless_stream(&mut bw, &mut r, fw, fh, None, &mut viol);
        let mut p = vec![1u8];
        p.extend(bw.bytes);
        p.extend(r.bytes(4));
        for (cw, ch) in canvases {
            let file = alpha_frame_file(&p, &v.1, cw, ch, fw, fh);
            emit_frame(out, prop, &format!("alpha-frame-synth-{i}-{cw}x{ch}-{fw}x{fh}"), &file);
        }
    }
}

pub fn run<W: Write>(prop: &str, opts: &Opts, out: &mut W) {
    let mut rng = Rng::new(opts.seed ^ 0xC07);
    let thorough = opts.tier_thorough;
    synth_cases(prop, opts, out, &mut rng.fork(99));
    alpha_frames(prop, opts, out, &mut rng.fork(55));
    if prop == "C08" {
        file_cases(prop, opts, out, &mut rng.fork(77));
    }
    let n: u64 = if thorough { 6000 } else { 500 };
    for i in 0..n {
        if !opts.mine(i) {
            continue;
        }
        let mut r = rng.fork(i);
        if i % 3 == 2 {
            if let Some((p, w, h)) = encoded_alph(&mut r, thorough) {
                emit_alph(out, prop, &format!("alph-{i}"), &p, w, h);
                if p.len() < 3000 {
                    for k in 0..3 {
                        let m = mutate(&mut r, &p);
                        emit_alph(out, prop, &format!("alph-{i}-m{k}"), &m, w, h);
                    }
                }
            }
        } else if let Some((p, _w, _h)) = encoded_vp8l(&mut r, thorough) {
            emit_vp8l(out, prop, &format!("vp8l-{i}"), &p);
            if p.len() < 3000 {
                for k in 0..4 {
                    let m = mutate(&mut r, &p);
                    emit_vp8l(out, prop, &format!("vp8l-{i}-m{k}"), &m);
                }
                if p.len() < 200 && i % 5 == 0 {
                    // truncation at every byte for small images
                    for cut in 0..p.len() {
                        emit_vp8l(out, prop, &format!("vp8l-{i}-cut{cut}"), &p[..cut]);
                    }
                }
            }
        }
    }
}
