//! Running the real mp4san on a sparse stream and canonicalising the result.
use std::io;
use std::panic::AssertUnwindSafe;

use mediasan_common::SeekSkipAdapter;
use mp4san::parse::ParseError;

use crate::sparse::{SeekReader, Sparse, StrictReader};

#[derive(Clone, Debug, PartialEq, Eq)]
pub struct Cfg {
    pub max: u64,
    pub cum: Option<u32>,
}

impl Cfg {
    pub fn default() -> Self {
        Cfg { max: 1024 * 1024 * 1024, cum: None }
    }
    pub fn build(&self) -> mp4san::Config {
        let mut b = mp4san::Config::builder();
        b.max_metadata_size(self.max);
        b.cumulative_mdat_box_size(self.cum);
        b.build()
    }
    pub fn line(&self) -> String {
        format!("max={} cum={}", self.max, self.cum.map(|c| c.to_string()).unwrap_or("none".into()))
    }
}

#[derive(Clone, Copy, Debug, PartialEq, Eq)]
pub enum Kind {
    Seekable,
    Strict,
}

impl Kind {
    pub fn name(&self) -> &'static str {
        match self {
            Kind::Seekable => "seekable",
            Kind::Strict => "strict",
        }
    }
}

#[derive(Clone, Debug, PartialEq, Eq)]
pub enum ImplOut {
    Noop(u64, u64),
    Md(Vec<u8>, u64, u64),
    Parse(&'static str),
    Io(String),
    Panic,
}

pub fn parse_kind(e: &ParseError) -> &'static str {
    match e {
        ParseError::InvalidBoxLayout => "InvalidBoxLayout",
        ParseError::InvalidInput => "InvalidInput",
        ParseError::MissingRequiredBox(_) => "MissingRequiredBox",
        ParseError::TruncatedBox => "TruncatedBox",
        ParseError::UnsupportedBox(_) => "UnsupportedBox",
        ParseError::UnsupportedBoxLayout => "UnsupportedBoxLayout",
        ParseError::UnsupportedFormat(_) => "UnsupportedFormat",
    }
}

pub fn io_kind(k: io::ErrorKind) -> String {
    match k {
        io::ErrorKind::Other => "Other".into(),
        io::ErrorKind::PermissionDenied => "PermissionDenied".into(),
        io::ErrorKind::TimedOut => "TimedOut".into(),
        io::ErrorKind::WouldBlock => "WouldBlock".into(),
        io::ErrorKind::InvalidData => "InvalidData".into(),
        io::ErrorKind::UnexpectedEof => "UnexpectedEof".into(),
        io::ErrorKind::InvalidInput => "InvalidInput".into(),
        other => format!("{:?}", other),
    }
}

pub fn canon(r: Result<mp4san::SanitizedMetadata, mp4san::Error>) -> ImplOut {
    match r {
        Ok(m) => match m.metadata {
            None => ImplOut::Noop(m.data.offset, m.data.len),
            Some(md) => ImplOut::Md(md, m.data.offset, m.data.len),
        },
        Err(mp4san::Error::Io(e)) => ImplOut::Io(io_kind(e.kind())),
        Err(mp4san::Error::Parse(e)) => ImplOut::Parse(parse_kind(e.get_ref())),
    }
}

pub fn guarded<F: FnOnce() -> ImplOut>(f: F) -> ImplOut {
    crate::quiet(AssertUnwindSafe(f)).unwrap_or(ImplOut::Panic)
}

/// The reader is handed over by value, by `&mut` or in a `Box` (the forwarding `Skip` impls), or the asynchronous
/// entry point is driven over a native `AsyncSkip` reader that suspends every operation once - rotating with the
/// input: the answer may not depend on the carrier, so every MP4 check exercises all of them.
pub fn run_mp4(s: &Sparse, cfg: &Cfg, kind: Kind) -> ImplOut {
    run_mp4_carrier(s, cfg, kind, (s.len ^ (s.len >> 7) ^ cfg.max) % 4)
}

/// the same with the carrier chosen by the caller (0 by value, 1 by `&mut`, 2 boxed, 3 async and suspended)
pub fn run_mp4_carrier(s: &Sparse, cfg: &Cfg, kind: Kind, carrier: u64) -> ImplOut {
    guarded(|| match (kind, carrier) {
        (Kind::Seekable, 3) => crate::c12::run_async_every_op_suspended(s, cfg, false),
        (Kind::Strict, 3) => crate::c12::run_async_every_op_suspended(s, cfg, true),
        (Kind::Seekable, 0) => canon(mp4san::sanitize_with_config(SeekSkipAdapter(SeekReader::new(s)), cfg.build())),
        (Kind::Seekable, 1) => {
            let mut r = SeekSkipAdapter(SeekReader::new(s));
            canon(mp4san::sanitize_with_config(&mut r, cfg.build()))
        }
        (Kind::Seekable, _) => canon(mp4san::sanitize_with_config(Box::new(SeekSkipAdapter(SeekReader::new(s))), cfg.build())),
        (Kind::Strict, 0) => canon(mp4san::sanitize_with_config(StrictReader::new(s), cfg.build())),
        (Kind::Strict, 1) => {
            let mut r = StrictReader::new(s);
            canon(mp4san::sanitize_with_config(&mut r, cfg.build()))
        }
        (Kind::Strict, _) => canon(mp4san::sanitize_with_config(Box::new(StrictReader::new(s)), cfg.build())),
    })
}

/// `hex+zN`: trailing zero bytes run-length encoded
pub fn md_text(md: &[u8]) -> String {
    let mut end = md.len();
    while end > 0 && md[end - 1] == 0 {
        end -= 1;
    }
    format!("{}+z{}", crate::hex(&md[..end]), md.len() - end)
}

impl ImplOut {
    pub fn fields(&self, pfx: &str) -> String {
        match self {
            ImplOut::Noop(o, l) => format!("{pfx}impl=ok:none {pfx}span={o},{l}"),
            ImplOut::Md(md, o, l) => format!("{pfx}impl=ok:md {pfx}span={o},{l} {pfx}md={}", md_text(md)),
            ImplOut::Parse(k) => format!("{pfx}impl=err:parse:{k}"),
            ImplOut::Io(k) => format!("{pfx}impl=err:io:{k}"),
            ImplOut::Panic => format!("{pfx}impl=panic"),
        }
    }
    pub fn brief(&self) -> String {
        match self {
            ImplOut::Md(md, o, l) => format!("ok:md[{}]:{o},{l}", md.len()),
            other => other.fields(""),
        }
    }
}

/// md ++ input[span], as a sparse stream (C02)
pub fn concat_md_media(md: &[u8], s: &Sparse, off: u64, len: u64) -> Sparse {
    let mut out = Sparse::new();
    let mut end = md.len();
    while end > 0 && md[end - 1] == 0 {
        end -= 1;
    }
    out.push(&md[..end]);
    out.push_zeros((md.len() - end) as u64);
    out.append(&s.slice(off, len));
    out
}
