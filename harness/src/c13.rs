//! C13: fault injection.  Every operation index of every run over a small corpus x six error kinds, for both
//! sanitizers, sync and (mp4) async.
use std::io::{self, Read, Write};
use std::panic::AssertUnwindSafe;
use std::pin::Pin;
use std::task::{Context, Poll};

use futures_util::io::AsyncRead;
use futures_util::FutureExt;
use mediasan_common::{AsyncSkip, SeekSkipAdapter, Skip};

use crate::c06::payloads;
use crate::mp4gen::*;
use crate::mp4run::{canon, Cfg, ImplOut};
use crate::rng::Rng;
use crate::sparse::{SeekReader, Sparse};
use crate::webprun::*;
use crate::Opts;

pub const KINDS: [(io::ErrorKind, &str); 6] = [
    (io::ErrorKind::Other, "Other"),
    (io::ErrorKind::PermissionDenied, "PermissionDenied"),
    (io::ErrorKind::TimedOut, "TimedOut"),
    (io::ErrorKind::WouldBlock, "WouldBlock"),
    (io::ErrorKind::InvalidData, "InvalidData"),
    (io::ErrorKind::UnexpectedEof, "UnexpectedEof"),
];

/// a Read + Skip that fails its `fail_at`-th operation (counting read, skip, stream_position, stream_len)
pub struct Faulty<R> {
    pub inner: R,
    pub count: u64,
    pub fail_at: Option<u64>,
    pub kind: io::ErrorKind,
}

impl<R> Faulty<R> {
    fn tick(&mut self) -> io::Result<()> {
        let idx = self.count;
        self.count += 1;
        if Some(idx) == self.fail_at {
            return Err(io::Error::new(self.kind, "injected fault"));
        }
        Ok(())
    }
}

impl<R: Read> Read for Faulty<R> {
    fn read(&mut self, buf: &mut [u8]) -> io::Result<usize> {
        self.tick()?;
        self.inner.read(buf)
    }
}

impl<R: Skip> Skip for Faulty<R> {
    fn skip(&mut self, amount: u64) -> io::Result<()> {
        self.tick()?;
        self.inner.skip(amount)
    }
    fn stream_position(&mut self) -> io::Result<u64> {
        self.tick()?;
        self.inner.stream_position()
    }
    fn stream_len(&mut self) -> io::Result<u64> {
        self.tick()?;
        self.inner.stream_len()
    }
}

/// the same reader behind the async traits (always Ready)
pub struct AsyncFaulty<R>(pub Faulty<R>);

impl<R: Read + Unpin> AsyncRead for AsyncFaulty<R> {
    fn poll_read(mut self: Pin<&mut Self>, _cx: &mut Context<'_>, buf: &mut [u8]) -> Poll<io::Result<usize>> {
        Poll::Ready(self.0.read(buf))
    }
}

impl<R: Skip + Unpin> AsyncSkip for AsyncFaulty<R> {
    fn poll_skip(mut self: Pin<&mut Self>, _cx: &mut Context<'_>, amount: u64) -> Poll<io::Result<()>> {
        Poll::Ready(self.0.skip(amount))
    }
    fn poll_stream_position(mut self: Pin<&mut Self>, _cx: &mut Context<'_>) -> Poll<io::Result<u64>> {
        Poll::Ready(self.0.stream_position())
    }
    fn poll_stream_len(mut self: Pin<&mut Self>, _cx: &mut Context<'_>) -> Poll<io::Result<u64>> {
        Poll::Ready(self.0.stream_len())
    }
}

fn mp4_text(o: &ImplOut) -> String {
    match o {
        ImplOut::Noop(a, b) => format!("ok:none:{a},{b}"),
        ImplOut::Md(md, a, b) => format!("ok:md{}:{a},{b}", md.len()),
        ImplOut::Parse(k) => format!("err:parse:{k}"),
        ImplOut::Io(k) => format!("err:io:{k}"),
        ImplOut::Panic => "panic".into(),
    }
}

/// (outcome, number of operations performed)
fn run_mp4_fault(s: &Sparse, cfg: &Cfg, asynchronous: bool, fail_at: Option<u64>, kind: io::ErrorKind) -> (String, u64) {
    let r = crate::quiet(AssertUnwindSafe(|| {
        let mut f = Faulty { inner: SeekSkipAdapter(SeekReader::new(s)), count: 0, fail_at, kind };
        let out = if asynchronous {
            let fut = mp4san::sanitize_async_with_config(AsyncFaulty(Faulty { inner: SeekSkipAdapter(SeekReader::new(s)), count: 0, fail_at, kind }), cfg.build());
            // the wrapped reader never returns Pending, so the future completes at the first poll
            let mut fut = Box::pin(fut);
            let r = (&mut fut).now_or_never();
            match r {
                Some(r) => canon(r),
                None => ImplOut::Panic,
            }
        } else {
            canon(mp4san::sanitize_with_config(&mut f, cfg.build()))
        };
        (mp4_text(&out), f.count)
    }));
    r.unwrap_or(("panic".into(), 0))
}

fn run_webp_fault(s: &Sparse, allow: bool, fail_at: Option<u64>, kind: io::ErrorKind) -> (String, u64) {
    let r = crate::quiet(AssertUnwindSafe(|| {
        let mut f = Faulty { inner: SeekSkipAdapter(SeekReader::new(s)), count: 0, fail_at, kind };
        let cfg = webpsan::Config::builder().allow_unknown_chunks(allow).build();
        let out = wcanon(webpsan::sanitize_with_config(&mut f, cfg));
        (out.text(), f.count)
    }));
    r.unwrap_or(("panic".into(), 0))
}

fn count_ops_mp4(s: &Sparse, cfg: &Cfg) -> u64 {
    // the async variant wraps its own reader; count with the sync path (same operation sequence: C11)
    run_mp4_fault(s, cfg, false, None, io::ErrorKind::Other).1
}

pub fn emit<W: Write>(out: &mut W, id: &str, san: &str, mode: &str, s: &Sparse, cfg: &Cfg, allow: bool, k: Option<u64>, kind: (io::ErrorKind, &str)) {
    let free = if san == "mp4" { run_mp4_fault(s, cfg, mode == "async", None, kind.0).0 } else { run_webp_fault(s, allow, None, kind.0).0 };
    let got = if san == "mp4" { run_mp4_fault(s, cfg, mode == "async", k, kind.0).0 } else { run_webp_fault(s, allow, k, kind.0).0 };
    let nops = if san == "mp4" { count_ops_mp4(s, cfg) } else { run_webp_fault(s, allow, None, kind.0).1 };
    writeln!(
        out,
        "C13 id={id} san={san} mode={mode} {} {} allow={} k={} e={} nops={nops} free={free} impl={got}",
        s.line(),
        cfg.line(),
        allow as u8,
        k.map(|x| x.to_string()).unwrap_or("none".into()),
        kind.1
    )
    .unwrap();
}

pub fn replay<W: Write>(line: &str, out: &mut W) {
    let get = |k: &str| line.split(' ').find_map(|t| t.strip_prefix(&format!("{k}=")).map(|s| s.to_string()));
    let s = Sparse::parse_line(&get("len").unwrap(), &get("ext").unwrap());
    let cfg = Cfg { max: get("max").unwrap().parse().unwrap(), cum: match get("cum").as_deref() { Some("none") | None => None, Some(c) => Some(c.parse().unwrap()) } };
    let k = match get("k").as_deref() { Some("none") | None => None, Some(x) => Some(x.parse().unwrap()) };
    let e = get("e").unwrap();
    let kind = *KINDS.iter().find(|(_, n)| *n == e).unwrap();
    emit(out, &get("id").unwrap_or("replay".into()), &get("san").unwrap(), &get("mode").unwrap(), &s, &cfg, get("allow").as_deref() == Some("1"), k, kind);
}

pub fn mp4_corpus(rng: &mut Rng) -> Vec<(String, Sparse, Cfg)> {
    let mut v = vec![];
    v.push(("rewrite".to_string(), simple(rng, false), Cfg::default()));
    v.push(("noop".to_string(), simple(rng, true), Cfg::default()));
    // until-EOF moov (length and position queries), free boxes, 64-bit headers
    let ftyp = bx(b"ftyp", &ftyp_payload(rng, true, 2, 0), Enc::S32);
    let t = rand_trak(rng, 2, true);
    let moovp = moov_payload(rng, &[t], true);
    v.push(("eof-moov".into(), Sparse::from_bytes(&[ftyp.clone(), bx(b"free", &[0; 9], Enc::S32), bx(b"mdat", &[1, 2, 3], Enc::S64), bx(b"moov", &moovp, Enc::Eof)].concat()), Cfg::default()));
    v.push(("eof-mdat-cum".into(), Sparse::from_bytes(&[ftyp.clone(), bx(b"moov", &moovp, Enc::S32), bx(b"mdat", &[1, 2, 3, 4], Enc::Eof)].concat()), Cfg { max: 1 << 30, cum: Some(12) }));
    v.push(("eof-mdat".into(), Sparse::from_bytes(&[ftyp.clone(), bx(b"moov", &moovp, Enc::S32), bx(b"mdat", &[1, 2, 3, 4], Enc::Eof)].concat()), Cfg::default()));
    // invalid inputs
    let mut trunc = simple(rng, false);
    trunc = trunc.truncate(trunc.len - 7);
    v.push(("truncated".into(), trunc, Cfg::default()));
    v.push(("no-moov".into(), Sparse::from_bytes(&[ftyp.clone(), bx(b"mdat", &[1, 2, 3], Enc::S32)].concat()), Cfg::default()));
    v.push(("unknown-box".into(), Sparse::from_bytes(&[ftyp.clone(), bx(b"abcd", &[1, 2, 3], Enc::S32)].concat()), Cfg::default()));
    v.push(("moov-too-large".into(), simple(rng, false), Cfg { max: 3, cum: None }));
    // a skip that would move the position past u64::MAX: the only Io error a fault-free in-memory input can produce
    for (k, size) in [u64::MAX, u64::MAX - 19, (1u64 << 63) + 4096].iter().enumerate() {
        let mut h = vec![0, 0, 0, 1];
        h.extend_from_slice(b"mdat");
        h.extend_from_slice(&size.to_be_bytes());
        h.extend_from_slice(&[7; 9]);
        v.push((format!("giant-skip-{k}"), Sparse::from_bytes(&[ftyp.clone(), h].concat()), Cfg::default()));
    }
    for i in 0..3 {
        let g = remux(&mut rng.fork(100 + i), false, true);
        if g.s.len < 4000 {
            v.push((format!("remux{i}"), g.s, g.cfg));
        }
    }
    v
}

pub fn webp_corpus(rng: &mut Rng) -> Vec<(String, Sparse, bool)> {
    let pl = payloads(rng);
    let mut v = vec![];
    v.push(("doc".to_string(), Sparse::from_bytes(b"RIFF\x14\0\0\0WEBPVP8L\x08\0\0\0\x2f\0\0\0\0\x88\x88\x08"), false));
    v.push(("lossy".into(), Sparse::from_bytes(&riff(&[chunk(b"VP8 ", VP8_DATA)])), false));
    v.push(("ext-still".into(), Sparse::from_bytes(&riff(&[chunk(b"VP8X", &vp8x_payload(0x2c, 2, 2)), chunk(b"ICCP", &[1, 2, 3]), chunk(b"VP8L", &pl.vp8l_for(2, 2)), chunk(b"EXIF", &[9]), chunk(b"XMP ", &[8, 7])])), false));
    v.push(("ext-alpha".into(), Sparse::from_bytes(&riff(&[chunk(b"VP8X", &vp8x_payload(0x10, 2, 2)), chunk(b"ALPH", &pl.alph_for(2, 2)), chunk(b"VP8 ", VP8_DATA), chunk(b"unkn", &[1])])), true));
    let anmf = |inner: &[Vec<u8>], w: u32, h: u32| {
        let mut p = vec![0u8; 6];
        p.extend_from_slice(&(w - 1).to_le_bytes()[..3]);
        p.extend_from_slice(&(h - 1).to_le_bytes()[..3]);
        p.extend_from_slice(&[1, 0, 0, 0]);
        p.extend(inner.concat());
        chunk(b"ANMF", &p)
    };
    v.push(("anim".into(), Sparse::from_bytes(&riff(&[chunk(b"VP8X", &vp8x_payload(0x12, 2, 2)), chunk(b"ANIM", &[0; 6]),
        anmf(&[chunk(b"ALPH", &pl.alph_for(2, 2)), chunk(b"VP8 ", VP8_DATA)], 2, 2), anmf(&[chunk(b"VP8L", &pl.vp8l_for(1, 1)), chunk(b"unkn", &[5, 6, 7])], 1, 1)])), true));
    // invalid
    let mut t = riff(&[chunk(b"VP8X", &vp8x_payload(0x08, 1, 1)), chunk(b"VP8L", &pl.vp8l_for(1, 1)), chunk(b"EXIF", &[1, 2, 3, 4])]);
    t.truncate(t.len() - 3);
    v.push(("truncated".into(), Sparse::from_bytes(&t), false));
    v.push(("bad-order".into(), Sparse::from_bytes(&riff(&[chunk(b"VP8X", &vp8x_payload(0x08, 1, 1)), chunk(b"EXIF", &[1]), chunk(b"VP8 ", VP8_DATA)])), false));
    v.push(("unknown-denied".into(), Sparse::from_bytes(&riff(&[chunk(b"VP8 ", VP8_DATA), chunk(b"unkn", &[1, 2])])), false));
    v
}

pub fn run<W: Write>(opts: &Opts, out: &mut W) {
    let mut rng = Rng::new(opts.seed ^ 0xC13);
    let mut idx = 0u64;
    for (name, s, cfg) in mp4_corpus(&mut rng.fork(1)) {
        let n = count_ops_mp4(&s, &cfg);
        for mode in ["sync", "async"] {
            for k in 0..n {
                for kind in KINDS {
                    idx += 1;
                    if !opts.mine(idx) {
                        continue;
                    }
                    emit(out, &format!("mp4-{name}-{mode}-{k}-{}", kind.1), "mp4", mode, &s, &cfg, false, Some(k), kind);
                }
            }
            // a fault scheduled after the last operation is never consumed
            idx += 1;
            if opts.mine(idx) {
                emit(out, &format!("mp4-{name}-{mode}-past"), "mp4", mode, &s, &cfg, false, Some(n + 3), KINDS[0]);
            }
        }
    }
    for (name, s, allow) in webp_corpus(&mut rng.fork(2)) {
        let n = run_webp_fault(&s, allow, None, io::ErrorKind::Other).1;
        for k in 0..n {
            for kind in KINDS {
                idx += 1;
                if !opts.mine(idx) {
                    continue;
                }
                emit(out, &format!("webp-{name}-{k}-{}", kind.1), "webp", "sync", &s, &Cfg::default(), allow, Some(k), kind);
            }
        }
        idx += 1;
        if opts.mine(idx) {
            emit(out, &format!("webp-{name}-past"), "webp", "sync", &s, &Cfg::default(), allow, Some(n + 3), KINDS[0]);
        }
        // every proper prefix, fault-free: a short file is a parse error, never an I/O error (truncation inside
        // lossless image data reaches the bit reader's refill, inside a skipped chunk the seek past the end)
        for cut in 0..s.len {
            idx += 1;
            if opts.mine(idx) {
                emit(out, &format!("webp-{name}-cut{cut}"), "webp", "sync", &s.truncate(cut), &Cfg::default(), allow, None, KINDS[0]);
            }
        }
    }
}
