//! Case streams for the MP4 properties C01–C05 (shared case format; the Lean driver evaluates the
//! property-specific Spec on the implementation's output and compares the model's output).
use std::io::Write;

use crate::mp4gen::*;
use crate::mp4run::*;
use crate::rng::Rng;
use crate::sparse::Sparse;
use crate::Opts;

pub fn emit<W: Write>(out: &mut W, prop: &str, id: &str, s: &Sparse, cfg: &Cfg, kind: Kind) {
    let r = run_mp4(s, cfg, kind);
    let mut line = format!("{prop} id={id} {} {} kind={} {}", s.line(), cfg.line(), kind.name(), r.fields(""));
    if prop == "C02" {
        if let ImplOut::Md(md, off, len) = &r {
            let cat = concat_md_media(md, s, *off, *len);
            let re = run_mp4(&cat, cfg, kind);
            line.push(' ');
            line.push_str(&re.fields("re."));
        }
    }
    writeln!(out, "{line}").unwrap();
}

/// like `emit`, with the carrier fixed (recorded in the line so that a replay uses it again)
pub fn emit_carrier<W: Write>(out: &mut W, prop: &str, id: &str, s: &Sparse, cfg: &Cfg, kind: Kind, carrier: u64) {
    let r = run_mp4_carrier(s, cfg, kind, carrier);
    writeln!(out, "{prop} id={id} {} {} kind={} carrier={carrier} {}", s.line(), cfg.line(), kind.name(), r.fields("")).unwrap();
}

pub fn replay<W: Write>(prop: &str, line: &str, out: &mut W) {
    let get = |k: &str| line.split(' ').find_map(|t| t.strip_prefix(&format!("{k}=")).map(|s| s.to_string()));
    let s = Sparse::parse_line(&get("len").unwrap(), &get("ext").unwrap());
    let cfg = Cfg {
        max: get("max").unwrap().parse().unwrap(),
        cum: match get("cum").as_deref() {
            Some("none") | None => None,
            Some(c) => Some(c.parse().unwrap()),
        },
    };
    let kind = if get("kind").as_deref() == Some("strict") { Kind::Strict } else { Kind::Seekable };
    if let Some(c) = get("carrier") {
        return emit_carrier(out, prop, &get("id").unwrap_or("replay".into()), &s, &cfg, kind, c.parse().unwrap());
    }
    emit(out, prop, &get("id").unwrap_or("replay".into()), &s, &cfg, kind);
}

fn kind_of(i: u64) -> Kind {
    if i % 2 == 0 {
        Kind::Seekable
    } else {
        Kind::Strict
    }
}

fn valid_moov(rng: &mut Rng) -> Vec<u8> {
    let t = TrakSpec { co64: rng.chance(1, 2), entries: vec![rng.below(1000), rng.below(1000)], junk: 0, enc: [Enc::S32; 5], dup: 0 };
    bx(b"moov", &moov_payload(rng, &[t], false), Enc::S32)
}

/// the top-level alphabet for exhaustive layouts
fn alphabet(rng: &mut Rng) -> Vec<(&'static str, Vec<u8>)> {
    let mut u = header(b"uuid", Some(b"thisisatestuuid!"), 3, Enc::S32);
    u.extend_from_slice(&[1, 2, 3]);
    vec![
        ("F", bx(b"ftyp", &ftyp_payload(rng, true, 2, 0), Enc::S32)),
        ("M", valid_moov(rng)),
        ("D", bx(b"mdat", &[1, 2, 3, 4, 5], Enc::S32)),
        ("f", bx(b"free", &[0; 5], Enc::S32)),
        ("s", bx(b"skip", &[], Enc::S32)),
        ("m", bx(b"meta", &[0, 0, 0, 0], Enc::S32)),
        ("c", bx(b"meco", &[9], Enc::S32)),
        ("x", bx(b"abcd", &[7, 7], Enc::S32)),
        ("u", u),
    ]
}

fn layouts<W: Write>(out: &mut W, prop: &str, opts: &Opts, rng: &mut Rng, max_len: usize) {
    let alpha = alphabet(rng);
    let n = alpha.len();
    let cfg = Cfg::default();
    let mut idx = 0u64;
    for len in 0..=max_len {
        let total = n.pow(len as u32);
        for code in 0..total {
            idx += 1;
            if !opts.mine(idx) {
                continue;
            }
            let mut c = code;
            let mut bytes = Vec::new();
            let mut name = String::new();
            for _ in 0..len {
                let (nm, b) = &alpha[c % n];
                name.push_str(nm);
                bytes.extend_from_slice(b);
                c /= n;
            }
            let s = Sparse::from_bytes(&bytes);
            emit(out, prop, &format!("lay-{name}"), &s, &cfg, kind_of(idx));
        }
    }
}

/// one rule of the moov tree broken at a time
pub fn moov_mutants(rng: &mut Rng) -> Vec<(String, Vec<u8>)> {
    let co = |co64: bool, e: &[u64]| bx(if co64 { b"co64" } else { b"stco" }, &co_payload(co64, e), Enc::S32);
    let stbl = |kids: &[Vec<u8>]| bx(b"stbl", &kids.concat(), Enc::S32);
    let minf = |kids: &[Vec<u8>]| bx(b"minf", &kids.concat(), Enc::S32);
    let mdia = |kids: &[Vec<u8>]| bx(b"mdia", &kids.concat(), Enc::S32);
    let trak = |kids: &[Vec<u8>]| bx(b"trak", &kids.concat(), Enc::S32);
    let good_co = co(false, &[100, 200]);
    let good_stbl = stbl(&[good_co.clone()]);
    let good_minf = minf(&[good_stbl.clone()]);
    let good_mdia = mdia(&[good_minf.clone()]);
    let good_trak = trak(&[good_mdia.clone()]);
    let j = junk_box(rng);
    let mut v: Vec<(String, Vec<u8>)> = vec![
        ("ok".into(), good_trak.clone()),
        ("ok-two-traks".into(), [good_trak.clone(), trak(&[mdia(&[minf(&[stbl(&[co(true, &[5])])])])])].concat()),
        ("ok-junk".into(), [j.clone(), trak(&[j.clone(), mdia(&[minf(&[j.clone(), stbl(&[j.clone(), good_co.clone(), j.clone()])]), j.clone()])])].concat()),
        ("no-trak".into(), j.clone()),
        ("empty".into(), vec![]),
        ("trak-empty".into(), trak(&[])),
        ("no-mdia".into(), trak(&[j.clone()])),
        ("two-mdia".into(), trak(&[good_mdia.clone(), good_mdia.clone()])),
        ("no-minf".into(), trak(&[mdia(&[j.clone()])])),
        ("two-minf".into(), trak(&[mdia(&[good_minf.clone(), good_minf.clone()])])),
        ("no-stbl".into(), trak(&[mdia(&[minf(&[])])])),
        ("two-stbl".into(), trak(&[mdia(&[minf(&[good_stbl.clone(), good_stbl.clone()])])])),
        ("no-co".into(), trak(&[mdia(&[minf(&[stbl(&[j.clone()])])])])),
        ("stco-and-co64".into(), trak(&[mdia(&[minf(&[stbl(&[good_co.clone(), co(true, &[1])])])])])),
        ("two-stco".into(), trak(&[mdia(&[minf(&[stbl(&[good_co.clone(), good_co.clone()])])])])),
        ("two-co64".into(), trak(&[mdia(&[minf(&[stbl(&[co(true, &[1]), co(true, &[2])])])])])),
        ("second-trak-broken".into(), [good_trak.clone(), trak(&[mdia(&[minf(&[])])])].concat()),
        ("first-trak-broken".into(), [trak(&[mdia(&[])]), good_trak.clone()].concat()),
    ];
    // malformed tables
    let table = |payload: Vec<u8>| trak(&[mdia(&[minf(&[stbl(&[bx(b"stco", &payload, Enc::S32)])])])]);
    let mut p = co_payload(false, &[1, 2, 3]);
    p[0] = 1;
    v.push(("stco-version1".into(), table(p)));
    let mut p = co_payload(false, &[1, 2, 3]);
    p[3] = 1;
    v.push(("stco-flags1".into(), table(p)));
    let mut p = co_payload(false, &[1, 2, 3]);
    p[7] = 2;
    v.push(("stco-count-small".into(), table(p)));
    let mut p = co_payload(false, &[1, 2, 3]);
    p[7] = 4;
    v.push(("stco-count-large".into(), table(p)));
    let mut p = co_payload(false, &[1, 2, 3]);
    p[4] = 0x40;
    v.push(("stco-count-overflow".into(), table(p)));
    v.push(("stco-short3".into(), table(vec![0, 0, 0])));
    v.push(("stco-short7".into(), table(vec![0, 0, 0, 0, 0, 0, 0])));
    v.push(("stco-empty-table".into(), table(co_payload(false, &[]))));
    let mut p = co_payload(false, &[1, 2]);
    p.push(0);
    v.push(("stco-extra-byte".into(), table(p)));
    // a child whose declared size overruns its parent / is below its header / header cut short
    let mut t = good_trak.clone();
    let l = t.len();
    t[l - 13] = t[l - 13].wrapping_add(1); // not a size field: flip an entry byte (still ok)
    v.push(("ok-entry-flip".into(), t));
    let mut overr = bx(b"trak", &good_mdia, Enc::S32);
    overr[8 + 3] = overr[8 + 3].wrapping_add(1); // mdia size + 1
    v.push(("child-overruns".into(), overr));
    let mut small = bx(b"trak", &good_mdia, Enc::S32);
    small[8..12].copy_from_slice(&4u32.to_be_bytes());
    v.push(("child-size-4".into(), small));
    v.push(("child-header-cut".into(), bx(b"trak", &good_mdia[..5], Enc::S32)));
    let mut ext = bx(b"trak", &bx(b"mdia", &good_minf, Enc::S64), Enc::S32);
    v.push(("child-64bit".into(), ext.clone()));
    ext.truncate(8 + 12);
    ext[0..4].copy_from_slice(&20u32.to_be_bytes());
    v.push(("child-ext-cut".into(), ext));
    v.push(("child-until-end".into(), bx(b"trak", &bx(b"mdia", &good_minf, Enc::Eof), Enc::S32)));
    v
}

pub fn file_with_moov(rng: &mut Rng, moov_payload: &[u8], noop: bool) -> Sparse {
    let ftyp = bx(b"ftyp", &ftyp_payload(rng, true, 2, 0), Enc::S32);
    let mdat = bx(b"mdat", &[1, 2, 3, 4, 5], Enc::S32);
    let moov = bx(b"moov", moov_payload, Enc::S32);
    let v = if noop { [ftyp, moov, mdat].concat() } else { [ftyp, mdat, moov].concat() };
    Sparse::from_bytes(&v)
}

/// header pathologies and boundary values at top level
fn top_pathologies<W: Write>(out: &mut W, prop: &str, rng: &mut Rng) {
    let ftyp = bx(b"ftyp", &ftyp_payload(rng, true, 2, 0), Enc::S32);
    let moov = valid_moov(rng);
    let mdat = bx(b"mdat", &[1, 2, 3, 4, 5], Enc::S32);
    let cfg = Cfg::default();
    let mut cases: Vec<(String, Vec<u8>)> = vec![];
    // ftyp payload sizes around the limits, isom placement
    for n in [0usize, 4, 7, 8, 9, 11, 12, 1020, 1023, 1024, 1025, 2000] {
        let mut p = vec![b'x'; n];
        if n >= 12 {
            p[8..12].copy_from_slice(b"isom");
        }
        cases.push((format!("ftyp-len{n}"), [bx(b"ftyp", &p, Enc::S32), mdat.clone(), moov.clone()].concat()));
        let mut p = vec![b'x'; n];
        if n >= 13 {
            p[9..13].copy_from_slice(b"isom"); // unaligned: not a brand
            cases.push((format!("ftyp-unaligned-isom{n}"), [bx(b"ftyp", &p, Enc::S32), mdat.clone(), moov.clone()].concat()));
        }
        if n >= 12 && n % 4 != 0 {
            let mut p = vec![b'x'; n];
            let at = n - 4;
            p[at..].copy_from_slice(b"isom"); // in the unaligned tail
            cases.push((format!("ftyp-tail-isom{n}"), [bx(b"ftyp", &p, Enc::S32), mdat.clone(), moov.clone()].concat()));
        }
    }
    // major brand isom but not among compatible brands
    let mut p = b"isom\0\0\0\0mp42".to_vec();
    cases.push(("ftyp-major-only".into(), [bx(b"ftyp", &p, Enc::S32), mdat.clone(), moov.clone()].concat()));
    p.extend_from_slice(b"isom");
    cases.push(("ftyp-both".into(), [bx(b"ftyp", &p, Enc::S32), mdat.clone(), moov.clone()].concat()));
    // size-field pathologies on each box kind
    for (nm, b) in [("ftyp", &ftyp), ("mdat", &mdat), ("moov", &moov)] {
        for sz in [0u32, 1, 2, 7, 8, 9] {
            let mut x = b.clone();
            x[0..4].copy_from_slice(&sz.to_be_bytes());
            let rest: Vec<Vec<u8>> = match nm {
                "ftyp" => vec![x.clone(), mdat.clone(), moov.clone()],
                "mdat" => vec![ftyp.clone(), x.clone(), moov.clone()],
                _ => vec![ftyp.clone(), mdat.clone(), x.clone()],
            };
            cases.push((format!("{nm}-size{sz}"), rest.concat()));
            // and as the last box
            let rest: Vec<Vec<u8>> = match nm {
                "ftyp" => vec![mdat.clone(), moov.clone(), x.clone()],
                "mdat" => vec![ftyp.clone(), moov.clone(), x.clone()],
                _ => vec![ftyp.clone(), mdat.clone(), x.clone()],
            };
            cases.push((format!("{nm}-size{sz}-last"), rest.concat()));
        }
        // 64-bit sizes: exact, one short, one long, below header, huge
        let plen = (b.len() - 8) as u64;
        for (tag, sz) in [("exact", plen + 16), ("minus1", plen + 15), ("plus1", plen + 17), ("15", 15), ("16", 16), ("max", u64::MAX), ("zero", 0)] {
            let mut x = 1u32.to_be_bytes().to_vec();
            x.extend_from_slice(&b[4..8]);
            x.extend_from_slice(&sz.to_be_bytes());
            x.extend_from_slice(&b[8..]);
            let rest: Vec<Vec<u8>> = match nm {
                "ftyp" => vec![x.clone(), mdat.clone(), moov.clone()],
                "mdat" => vec![ftyp.clone(), x.clone(), moov.clone()],
                _ => vec![ftyp.clone(), mdat.clone(), x.clone()],
            };
            cases.push((format!("{nm}-ext-{tag}"), rest.concat()));
        }
    }
    // uuid-typed boxes that spell a known name inside the uuid, and a `uuid` fourcc cut short
    let mut u = header(b"uuid", Some(b"moovmoovmoovmoov"), 0, Enc::S32);
    cases.push(("uuid-named-moov".into(), [ftyp.clone(), mdat.clone(), moov.clone(), u.clone()].concat()));
    u.truncate(20);
    cases.push(("uuid-cut".into(), [ftyp.clone(), mdat.clone(), moov.clone(), u].concat()));
    // several moov / mdat arrangements
    cases.push(("moov-mdat-moov".into(), [ftyp.clone(), moov.clone(), mdat.clone(), moov.clone()].concat()));
    cases.push(("mdat-moov-mdat".into(), [ftyp.clone(), mdat.clone(), moov.clone(), mdat.clone()].concat()));
    cases.push(("mdat-free-mdat".into(), [ftyp.clone(), mdat.clone(), bx(b"free", &[0; 3], Enc::S32), mdat.clone(), moov.clone()].concat()));
    cases.push(("mdat-free-moov-free-mdat".into(), [ftyp.clone(), mdat.clone(), bx(b"free", &[], Enc::S32), moov.clone(), bx(b"free", &[], Enc::S32), mdat.clone()].concat()));
    cases.push(("moov-free-mdat".into(), [ftyp.clone(), moov.clone(), bx(b"free", &[0; 9], Enc::S32), mdat.clone()].concat()));
    cases.push(("two-ftyp".into(), [ftyp.clone(), mdat.clone(), moov.clone(), ftyp.clone()].concat()));
    cases.push(("free-ftyp".into(), [bx(b"free", &[], Enc::S32), bx(b"skip", &[1], Enc::S32), ftyp.clone(), mdat.clone(), moov.clone()].concat()));
    cases.push(("meta-ftyp".into(), [bx(b"meta", &[], Enc::S32), ftyp.clone(), mdat.clone(), moov.clone()].concat()));
    for (i, (name, bytes)) in cases.iter().enumerate() {
        let s = Sparse::from_bytes(bytes);
        emit(out, prop, &format!("top-{name}"), &s, &cfg, Kind::Seekable);
        emit(out, prop, &format!("top-{name}-strict"), &s, &cfg, Kind::Strict);
        // every truncation point of a few of them
        if i % 9 == 0 {
            for cut in 0..bytes.len() {
                let t = Sparse::from_bytes(&bytes[..cut]);
                emit(out, prop, &format!("top-{name}-cut{cut}"), &t, &cfg, kind_of(cut as u64));
            }
        }
    }
}

fn config_lattice(moov_payload_len: u64, rng: &mut Rng) -> Cfg {
    let max = match rng.below(8) {
        0 => 0,
        1 => moov_payload_len.saturating_sub(1),
        2 => moov_payload_len,
        3 => moov_payload_len + 1,
        4 => u64::MAX,
        _ => 1 << 30,
    };
    Cfg { max, cum: None }
}

/// until-EOF mdat, with and without cumulative_mdat_box_size
fn eof_mdat_cases<W: Write>(out: &mut W, prop: &str, rng: &mut Rng) {
    let ftyp = bx(b"ftyp", &ftyp_payload(rng, true, 2, 0), Enc::S32);
    let moov = valid_moov(rng);
    let payload = [9u8; 11];
    let tail = bx(b"free", &[0; 4], Enc::S32);
    // moov first, mdat (size 0) last; and mdat (size 0) followed by moov, which only makes sense with cum
    for (nm, bytes, mdat_off) in [
        ("eof-last", [ftyp.clone(), moov.clone(), bx(b"mdat", &payload, Enc::Eof)].concat(), ftyp.len() + moov.len()),
        ("eof-mid", [ftyp.clone(), bx(b"mdat", &payload, Enc::Eof), moov.clone()].concat(), ftyp.len()),
        ("eof-mid-tail", [ftyp.clone(), bx(b"mdat", &payload, Enc::Eof), tail.clone(), moov.clone()].concat(), ftyp.len()),
    ] {
        let _ = mdat_off;
        let s = Sparse::from_bytes(&bytes);
        let exact = 8 + payload.len() as u32;
        for cum in [None, Some(0u32), Some(1), Some(7), Some(8), Some(9), Some(exact - 1), Some(exact), Some(exact + 1), Some(exact + 12), Some(10_000), Some(u32::MAX)] {
            for kind in [Kind::Seekable, Kind::Strict] {
                let cfg = Cfg { max: 1 << 30, cum };
                emit(out, prop, &format!("{nm}-cum{:?}-{}", cum, kind.name()).replace(['(', ')'], ""), &s, &cfg, kind);
            }
        }
    }
}

/// declared sizes beyond the end of the input, on every box kind, for both reader kinds
fn overrun_cases<W: Write>(out: &mut W, prop: &str, rng: &mut Rng) {
    let ftyp = bx(b"ftyp", &ftyp_payload(rng, true, 2, 0), Enc::S32);
    let moov = valid_moov(rng);
    let cfg = Cfg::default();
    for extra in [1u64, 2, 8, 900, 1 << 20, (1 << 32) + 3, (1u64 << 62), u64::MAX - 40] {
        for (nm, name) in [("mdat", b"mdat"), ("free", b"free"), ("skip", b"skip"), ("meta", b"meta"), ("meco", b"meco")] {
            // noop layout: ftyp moov X(overrunning)   and rewrite layout: ftyp X moov is impossible (X overruns) -> ftyp mdat... moov X
            let mut a = [ftyp.clone(), moov.clone()].concat();
            if nm != "mdat" {
                a.extend(bx(b"mdat", &[1, 2, 3], Enc::S32));
            }
            let payload = 4u64;
            let declared = payload + extra;
            let enc = if declared > u32::MAX as u64 - 16 { Enc::S64 } else { Enc::S32 };
            a.extend(header(name, None, declared.min(u64::MAX - 16), enc));
            a.extend_from_slice(&[5, 6, 7, 8]);
            let s = Sparse::from_bytes(&a);
            for kind in [Kind::Seekable, Kind::Strict] {
                emit(out, prop, &format!("overrun-{nm}-{extra}-{}", kind.name()), &s, &cfg, kind);
            }
            // rewrite layout with the overrunning box last, after moov
            let mut b = [ftyp.clone(), bx(b"mdat", &[1, 2, 3], Enc::S32), moov.clone()].concat();
            b.extend(header(name, None, declared.min(u64::MAX - 16), enc));
            b.extend_from_slice(&[5, 6, 7, 8]);
            let s = Sparse::from_bytes(&b);
            for kind in [Kind::Seekable, Kind::Strict] {
                emit(out, prop, &format!("overrun-tail-{nm}-{extra}-{}", kind.name()), &s, &cfg, kind);
            }
        }
    }
}

/// media-run boxes written with the 16-byte 64-bit header although their size fits 32 bits, followed by boxes of exactly
/// 8 bytes (or by an mdat whose payload begins with a complete `free` header): a scan that takes the header of such a
/// box to be 8 bytes long lands exactly on a later box boundary, so the file is still accepted - with a wrong span
fn header_form_cases<W: Write>(out: &mut W, prop: &str, rng: &mut Rng) {
    let ftyp = bx(b"ftyp", &ftyp_payload(rng, true, 2, 0), Enc::S32);
    let moov = valid_moov(rng);
    let cfg = Cfg::default();
    let empty = |n: &[u8; 4]| bx(n, &[], Enc::S32);
    for (nm, name) in [("mdat", b"mdat"), ("free", b"free"), ("skip", b"skip"), ("meta", b"meta"), ("meco", b"meco")] {
        for k in 1..=3usize {
            for filler in [b"free", b"skip"] {
                let mut run: Vec<u8> = vec![];
                if nm != "mdat" {
                    run.extend(bx(b"mdat", &[1, 2, 3, 4], Enc::S32));
                }
                run.extend(bx(name, &[5, 6, 7, 8], Enc::S64));
                for _ in 0..k {
                    run.extend(empty(filler));
                }
                // a second mdat whose payload starts with a complete empty `free` box and one that covers the rest
                let mut tail2 = bx(b"free", &[], Enc::S32);
                tail2.extend(bx(b"free", &[0; 4], Enc::S32));
                let with_mdat = [run.clone(), bx(b"mdat", &tail2, Enc::S32)].concat();
                for (lay, bytes) in [
                    ("noop", [ftyp.clone(), moov.clone(), run.clone()].concat()),
                    ("rw", [ftyp.clone(), run.clone(), moov.clone()].concat()),
                    ("noop2", [ftyp.clone(), moov.clone(), with_mdat.clone()].concat()),
                    ("rw2", [ftyp.clone(), with_mdat.clone(), moov.clone()].concat()),
                ] {
                    let s = Sparse::from_bytes(&bytes);
                    for kind in [Kind::Seekable, Kind::Strict] {
                        emit(out, prop, &format!("hdrform-{nm}-{k}{}-{lay}-{}", filler[0] as char, kind.name()), &s, &cfg, kind);
                    }
                }
            }
        }
    }
}

/// a skipped media box with a payload longer than the 32-byte look-ahead, followed by boxes that add up to exactly
/// 8, 16 or 24 bytes (what can be buffered behind an 8- or 16-byte header) and possibly a second mdat, through every
/// carrier: a skip that overshoots by what was buffered (a suspended inner skip polled twice, say) lands on a later box
/// boundary and the file is still accepted - with a span that misses part of the media run
fn overshoot_cases<W: Write>(out: &mut W, prop: &str, rng: &mut Rng) {
    let ftyp = bx(b"ftyp", &ftyp_payload(rng, true, 2, 0), Enc::S32);
    let moov = valid_moov(rng);
    let cfg = Cfg::default();
    for (nm, name) in [("mdat", b"mdat"), ("free", b"free"), ("meta", b"meta")] {
        for enc in [Enc::S32, Enc::S64] {
            for slack in 1..=3usize {
                for second in [false, true] {
                    let mut run: Vec<u8> = vec![];
                    if nm != "mdat" {
                        run.extend(bx(b"mdat", &[1, 2, 3, 4], Enc::S32));
                    }
                    run.extend(bx(name, &[7u8; 40], enc));
                    if second {
                        // one mdat of exactly 8 * slack bytes
                        run.extend(bx(b"mdat", &vec![9u8; 8 * slack - 8], Enc::S32));
                    } else {
                        for _ in 0..slack {
                            run.extend(bx(b"free", &[], Enc::S32));
                        }
                    }
                    for (lay, bytes) in [
                        ("noop", [ftyp.clone(), moov.clone(), run.clone()].concat()),
                        ("rw", [ftyp.clone(), run.clone(), moov.clone()].concat()),
                    ] {
                        let s = Sparse::from_bytes(&bytes);
                        for kind in [Kind::Seekable, Kind::Strict] {
                            for carrier in 0..4u64 {
                                emit_carrier(out, prop, &format!("overshoot-{nm}-{}-{slack}{}-{lay}-{}-c{carrier}", if enc == Enc::S64 { 64 } else { 32 },
                                    if second { "m" } else { "f" }, kind.name()), &s, &cfg, kind, carrier);
                            }
                        }
                    }
                }
            }
        }
    }
}

/// a media box whose 64-bit size is 2^64 - j: its end wraps to j bytes BEFORE its own header.  The bytes from there on
/// are laid out so that they parse as a movie box that swallows the media header (in a `free` child) and ends exactly
/// at the end of the input: a skip that lets the sum wrap, or that turns the amount into a negative relative seek,
/// resumes on a box boundary and accepts the file - with a media span of almost 2^64 bytes in a 100-byte input.
/// Variants land elsewhere (inside the header, at the start of the file, before it) or do not wrap at all.
fn wrapback_cases<W: Write>(out: &mut W, prop: &str, rng: &mut Rng) {
    let ftyp = bx(b"ftyp", &ftyp_payload(rng, true, 2, 0), Enc::S32);
    let cfg = Cfg::default();
    for (mi, media) in [b"mdat", b"free", b"skip"].iter().enumerate() {
        let t = TrakSpec { co64: mi % 2 == 1, entries: vec![rng.below(90), rng.below(90)], junk: 0, enc: [Enc::S32; 5], dup: 0 };
        let trak = bx(b"trak", &trak_payload(rng, &t), Enc::S32);
        // X = movie header + header of a free child whose payload is the 16-byte media header that follows
        let moov_size = (8 + 8 + 16 + trak.len()) as u32;
        let mut x = Vec::new();
        x.extend(moov_size.to_be_bytes());
        x.extend(b"moov");
        x.extend(24u32.to_be_bytes());
        x.extend(b"free");
        let pre = bx(b"free", &x, Enc::S32);
        let o = (ftyp.len() + pre.len()) as u64; // offset of the media header
        let lead = if **media == *b"mdat" { vec![] } else { bx(b"mdat", &[1, 2, 3], Enc::S32) };
        for (jn, j) in [("hit", 16u64), ("in", 8), ("odd", 17), ("pre", 24), ("start", o + lead.len() as u64), ("before", o + lead.len() as u64 + 1), ("one", 1)] {
            for (sn, size) in [("wrap", 0u64.wrapping_sub(j)), ("half", (1u64 << 63) + j), ("max63", (1u64 << 63) - j)] {
                let mut bytes = Vec::new();
                if jn == "hit" || jn == "in" || jn == "odd" || jn == "pre" {
                    // the lead-in media box goes in front of the prepared free box, so that X stays adjacent to the header
                    bytes.extend(&ftyp);
                    bytes.extend(&lead);
                    bytes.extend(&pre);
                } else {
                    bytes.extend(&ftyp);
                    bytes.extend(&pre);
                    bytes.extend(&lead);
                }
                bytes.extend(1u32.to_be_bytes());
                bytes.extend(**media);
                bytes.extend(size.to_be_bytes());
                bytes.extend(&trak);
                let s = Sparse::from_bytes(&bytes);
                for kind in [Kind::Seekable, Kind::Strict] {
                    for carrier in 0..4u64 {
                        emit_carrier(out, prop, &format!("wrapback-{}-{jn}-{sn}-{}-c{carrier}", std::str::from_utf8(*media).unwrap(), kind.name()), &s, &cfg, kind, carrier);
                    }
                }
            }
        }
    }
}

/// chunk-offset tables whose entry count crosses the 8- and 16-bit boundaries (a table of 65536 32-bit entries is
/// 256 KiB: an hour of video at one chunk per 50 ms), next to a small table in a second track; media before the
/// movie box, so every entry is relocated
fn many_entries<W: Write>(out: &mut W, prop: &str, rng: &mut Rng) {
    for (k, &n) in [255usize, 256, 257, 65535, 65536, 65537].iter().enumerate() {
        for co64 in [false, true] {
            if prop != "C01" && (n != 65536 || co64) && n != 257 {
                continue;
            }
            let ftyp = Item::Payload(b"ftyp", Enc::S32, ftyp_payload(rng, true, 1, 0));
            let base = 28 + rng.below(40);
            let big = TrakSpec { co64, entries: (0..n as u64).map(|i| base + i * 3 + rng.below(3)).collect(), junk: 0, enc: [Enc::S32; 5], dup: 0 };
            let small = TrakSpec { co64: !co64, entries: vec![base, base + 7, base + 1000], junk: 0, enc: [Enc::S32; 5], dup: 0 };
            let traks = if k % 2 == 0 { vec![big, small] } else { vec![small, big] };
            let moov = Item::Payload(b"moov", Enc::S32, moov_payload(rng, &traks, false));
            let mdat = Item::Sized(b"mdat", Enc::S32, 200 + 3 * n as u64);
            let s = build(&[ftyp, mdat, moov]);
            emit(out, prop, &format!("manyentries-{n}-{}", if co64 { "co64" } else { "stco" }), &s, &Cfg::default(), if k % 2 == 0 { Kind::Seekable } else { Kind::Strict });
        }
    }
}

pub fn run<W: Write>(prop: &str, opts: &Opts, out: &mut W) {
    let mut rng = Rng::new(opts.seed ^ 0x4d50_3400 ^ (prop.as_bytes()[2] as u64) << 8 ^ prop.as_bytes()[1] as u64);
    let thorough = opts.tier_thorough;
    // deterministic families (only shard 0 emits them)
    if opts.shard.0 == 0 {
        match prop {
            "C05" => {
                top_pathologies(out, prop, &mut rng);
                for noop in [false, true] {
                    for (name, mp) in moov_mutants(&mut rng) {
                        let s = file_with_moov(&mut rng, &mp, noop);
                        let cfg = Cfg::default();
                        emit(out, prop, &format!("moov-{name}-{}", if noop { "noop" } else { "rw" }), &s, &cfg, Kind::Seekable);
                        // limits around the moov payload size
                        for max in [0u64, (mp.len() as u64).saturating_sub(1), mp.len() as u64, mp.len() as u64 + 1, u64::MAX] {
                            emit(out, prop, &format!("moov-{name}-max{max}"), &s, &Cfg { max, cum: None }, Kind::Strict);
                        }
                    }
                }
                eof_mdat_cases(out, prop, &mut rng);
                overrun_cases(out, prop, &mut rng);
                header_form_cases(out, prop, &mut rng);
                overshoot_cases(out, prop, &mut rng);
                wrapback_cases(out, prop, &mut rng);
            }
            "C03" => {
                eof_mdat_cases(out, prop, &mut rng);
                overrun_cases(out, prop, &mut rng);
                top_pathologies(out, prop, &mut rng);
                header_form_cases(out, prop, &mut rng);
                overshoot_cases(out, prop, &mut rng);
                wrapback_cases(out, prop, &mut rng);
            }
            "C01" | "C02" | "C04" => {
                many_entries(out, prop, &mut rng);
                // several movie boxes around a gap: only the last one is returned, and only it may count for the padding /
                // displacement decision (gaps from 'too small for a free box' to 'larger than the metadata')
                {
                    let ftyp = bx(b"ftyp", &ftyp_payload(&mut rng, true, 2, 0), Enc::S32);
                    let last = valid_moov(&mut rng);
                    let early = valid_moov(&mut rng);
                    let meta = (ftyp.len() + last.len()) as u64;
                    for gap in [0u64, 7, 8, 9, 16, meta / 2, meta - 1, meta, meta + 1, meta + 8 + early.len() as u64, 2 * meta + 24, 100_000] {
                        let gapbox = if gap >= 8 { bx(b"free", &vec![0; (gap - 8) as usize], Enc::S32) } else { vec![] };
                        for (lname, parts) in [
                            ("early-gap", vec![ftyp.clone(), early.clone(), gapbox.clone(), bx(b"mdat", &[1, 2, 3, 4, 5], Enc::S32), last.clone()]),
                            ("gap-mid", vec![ftyp.clone(), gapbox.clone(), bx(b"mdat", &[1, 2, 3, 4, 5], Enc::S32), early.clone(), last.clone()]),
                            ("early-early-gap", vec![ftyp.clone(), early.clone(), early.clone(), gapbox.clone(), bx(b"mdat", &[9, 8, 7], Enc::S32), last.clone()]),
                        ] {
                            let s = Sparse::from_bytes(&parts.concat());
                            for kind in [Kind::Seekable, Kind::Strict] {
                                emit(out, prop, &format!("multi-moov-{lname}-gap{gap}-{}", kind.name()), &s, &Cfg::default(), kind);
                            }
                        }
                    }
                }
                // every malformed-moov family in the REWRITE layout: the unchanged code refuses them; a change that lets one
                // through rewrites (or fails to rewrite) bytes the walker cannot attribute to a table
                for (name, mp) in moov_mutants(&mut rng) {
                    let s = file_with_moov(&mut rng, &mp, false);
                    for kind in [Kind::Seekable, Kind::Strict] {
                        emit(out, prop, &format!("moov-{name}-rw-{}", kind.name()), &s, &Cfg::default(), kind);
                    }
                }
            }
            _ => {}
        }
    }
    if prop == "C05" {
        layouts(out, prop, opts, &mut rng.fork(7), if thorough { 5 } else { 4 });
    }
    if prop == "C03" {
        layouts(out, prop, opts, &mut rng.fork(7), if thorough { 4 } else { 3 });
    }
    // random structured cases
    let n: u64 = match (prop, thorough) {
        ("C05", false) => 1500,
        ("C05", true) => 20000,
        (_, false) => 3000,
        (_, true) => 40000,
    };
    let rich = prop == "C04" || prop == "C02";
    for i in 0..n {
        if !opts.mine(i) {
            continue;
        }
        let mut r = rng.fork(i);
        // gaps of 16 MiB .. 4 GiB between the rewritten metadata and the media: never padded since the repair of F6 (the
        // padding is bounded by the metadata), so they cost nothing on the current tree; a change that pads them again
        // allocates the gap, hence only a share of them is run
        let big = i % 8 == 7 || thorough && i % 2 == 1;
        let g = remux(&mut r, true, rich || i % 3 == 0);
        let padded_huge = {
            // avoid multi-GiB zero padding outside the dedicated cases: gap between 2^24 and 2^32-9
            g.desc.split(' ').find_map(|t| t.strip_prefix("gap=")).and_then(|x| x.parse::<u64>().ok()).map(|gap| gap > (1 << 24) && gap <= (1u64 << 32) - 9).unwrap_or(false)
        };
        if padded_huge && !big {
            continue;
        }
        let mut s = g.s;
        let mut cfg = g.cfg;
        let kind = kind_of(i / 2);
        let mut tag = "remux";
        // mutations: one rule broken / one byte changed / truncated, a fifth of the time
        match r.below(10) {
            0 => {
                let pos = r.below(s.len.min(400).max(1));
                let v = r.next() as u8;
                s.set_byte(pos, v);
                tag = "byteflip";
            }
            1 => {
                let cut = r.below(s.len.min(600) + 1);
                s = s.truncate(s.len - cut.min(s.len));
                tag = "cuttail";
            }
            2 if prop == "C05" || prop == "C03" => {
                cfg = config_lattice(r.below(200), &mut r);
                tag = "cfg";
            }
            _ => {}
        }
        emit(out, prop, &format!("{tag}-{i}"), &s, &cfg, kind);
        if i % 5 == 0 {
            // the same layout with moov first: the "nothing to do" path
            let sm = simple(&mut r, true);
            emit(out, prop, &format!("noop-{i}"), &sm, &Cfg::default(), kind);
        }
    }
}
