//! C17: WebP chunk / primitive codecs through the public `webpsan::parse` API.
use std::io::Write;
use std::panic::AssertUnwindSafe;

use bytes::{Buf, BytesMut};
use webpsan::parse::{
    AlphChunk, AnimChunk, AnmfChunk, ChunkHeader, OneBasedU24, ParseChunk, ParseError, ParsedChunk, Reserved, Vp8xChunk, WebmPrim, U24,
};

use crate::rng::Rng;
use crate::{hex, Opts};

fn kind(e: &ParseError) -> &'static str {
    match e {
        ParseError::InvalidChunkLayout => "InvalidChunkLayout",
        ParseError::InvalidInput => "InvalidInput",
        ParseError::InvalidVp8lPrefixCode => "InvalidVp8lPrefixCode",
        ParseError::MissingRequiredChunk(_) => "MissingRequiredChunk",
        ParseError::TruncatedChunk => "TruncatedChunk",
        ParseError::UnsupportedChunk(_) => "UnsupportedChunk",
        ParseError::UnsupportedVp8lVersion(_) => "UnsupportedVp8lVersion",
    }
}

/// numbers appearing in a `{:?}` rendering, in order (used for AnimChunk, whose fields are private)
fn debug_numbers(s: &str) -> Vec<u64> {
    let mut out = vec![];
    let mut cur = String::new();
    for ch in s.chars().chain(std::iter::once(' ')) {
        if ch.is_ascii_digit() {
            cur.push(ch);
        } else {
            if !cur.is_empty() {
                out.push(cur.parse().unwrap());
                cur.clear();
            }
        }
    }
    out
}

trait Vals {
    fn vals(&self) -> Vec<u64>;
}
impl Vals for Vp8xChunk {
    fn vals(&self) -> Vec<u64> {
        vec![self.flags.bits() as u64, self.canvas_width().get() as u64, self.canvas_height().get() as u64]
    }
}
impl Vals for AnimChunk {
    fn vals(&self) -> Vec<u64> {
        debug_numbers(&format!("{:?}", self))
    }
}
impl Vals for AnmfChunk {
    fn vals(&self) -> Vec<u64> {
        vec![
            self.x() as u64,
            self.y() as u64,
            self.width().get() as u64,
            self.height().get() as u64,
            self.duration() as u64,
            self.flags.bits() as u64,
        ]
    }
}
impl Vals for AlphChunk {
    fn vals(&self) -> Vec<u64> {
        vec![self.flags.bits() as u64]
    }
}

fn chunk_case<T: ParseChunk + ParsedChunk + Vals + PartialEq, W: Write>(out: &mut W, name: &str, bytes: &[u8]) {
    let r = crate::quiet(AssertUnwindSafe(|| {
        let mut buf = BytesMut::from(bytes);
        match T::parse(&mut buf) {
            Ok(v) => {
                let mut put = Vec::new();
                v.put_buf(&mut put);
                let mut again = BytesMut::from(&put[..]);
                let re = match T::parse(&mut again) {
                    Ok(v2) if v2 == v => "eq",
                    _ => "ne",
                };
                let vals: Vec<String> = v.vals().iter().map(|x| x.to_string()).collect();
                (format!("ok:{}", vals.join(",")), hex(&put), re)
            }
            Err(e) => (format!("err:{}", kind(e.get_ref())), "-".to_string(), "eq"),
        }
    }));
    let (res, put, re) = r.unwrap_or(("panic".to_string(), "-".to_string(), "eq"));
    writeln!(out, "C17 kind=chunk name={name} bytes={} res={res} put={put} reparse={re}", hex(bytes)).unwrap();
}

fn header_case<W: Write>(out: &mut W, bytes: &[u8]) {
    let r = crate::quiet(AssertUnwindSafe(|| match ChunkHeader::parse(bytes) {
        Ok(h) => {
            let mut put = Vec::new();
            h.put_buf(&mut put);
            let re = match ChunkHeader::parse(&put[..]) {
                Ok(h2) if h2 == h => "eq",
                _ => "ne",
            };
            (format!("ok:{},{}", u32::from_be_bytes(h.name.value), h.len), hex(&put), re)
        }
        Err(e) => (format!("err:{}", kind(e.get_ref())), "-".to_string(), "eq"),
    }));
    let (res, put, re) = r.unwrap_or(("panic".to_string(), "-".to_string(), "eq"));
    writeln!(out, "C17 kind=chunk name=ChunkHeader bytes={} res={res} put={put} reparse={re}", hex(bytes)).unwrap();
}

fn dispatch<W: Write>(out: &mut W, name: &str, bytes: &[u8]) {
    match name {
        "Vp8xChunk" => chunk_case::<Vp8xChunk, W>(out, name, bytes),
        "AnimChunk" => chunk_case::<AnimChunk, W>(out, name, bytes),
        "AnmfChunk" => chunk_case::<AnmfChunk, W>(out, name, bytes),
        "AlphChunk" => chunk_case::<AlphChunk, W>(out, name, bytes),
        "ChunkHeader" => header_case(out, bytes),
        _ => panic!("unknown chunk {name}"),
    }
}

macro_rules! prim_case {
    ($out:expr, $ty:ty, $uty:ty, $name:expr, $v:expr) => {{
        let v: $ty = $v;
        let mut put = Vec::new();
        WebmPrim::put_buf(&v, &mut put);
        let parsed: $ty = <$ty as WebmPrim>::parse(&put[..]).unwrap();
        writeln!($out, "C17 kind=prim ty={} v={} put={} parsed={}", $name, v as $uty, hex(&put), parsed as $uty).unwrap();
    }};
}
macro_rules! primb_case {
    ($out:expr, $ty:ty, $uty:ty, $name:expr, $bytes:expr) => {{
        let bytes: &[u8] = $bytes;
        let parsed: $ty = <$ty as WebmPrim>::parse(bytes).unwrap();
        let mut put = Vec::new();
        WebmPrim::put_buf(&parsed, &mut put);
        writeln!($out, "C17 kind=primb ty={} bytes={} parsed={} put={}", $name, hex(bytes), parsed as $uty, hex(&put)).unwrap();
    }};
}
macro_rules! prim_sweep {
    ($out:expr, $rng:expr, $ty:ty, $uty:ty, $name:expr, $n:expr) => {{
        let edge: [$uty; 9] = [0, 1, 2, <$uty>::MAX / 2, <$uty>::MAX / 2 + 1, <$uty>::MAX - 1, <$uty>::MAX, 0x12, 0x80];
        for &e in &edge {
            prim_case!($out, $ty, $uty, $name, e as $ty);
        }
        // a value whose bytes are all distinct: byte-order mistakes cannot hide
        let mut distinct: $uty = 0;
        for i in 0..std::mem::size_of::<$uty>() {
            distinct |= ((0x11 * (i as $uty + 1)) & 0xff) << (8 * i);
        }
        prim_case!($out, $ty, $uty, $name, distinct as $ty);
        for _ in 0..$n {
            let v = $rng.u128() as $uty;
            prim_case!($out, $ty, $uty, $name, v as $ty);
            let extra = $rng.below(3) as usize;
            let b = $rng.bytes(std::mem::size_of::<$uty>() + extra);
            primb_case!($out, $ty, $uty, $name, &b);
        }
    }};
}

fn u24_cases<W: Write>(out: &mut W, bytes: &[u8]) {
    let p = U24::parse(bytes).unwrap();
    let mut put = Vec::new();
    p.put_buf(&mut put);
    writeln!(out, "C17 kind=primb ty=U24 bytes={} parsed={} put={}", hex(bytes), p.get(), hex(&put)).unwrap();
    let p = OneBasedU24::parse(bytes).unwrap();
    let mut put = Vec::new();
    p.put_buf(&mut put);
    writeln!(out, "C17 kind=primb ty=OneBasedU24 bytes={} parsed={} put={}", hex(bytes), p.get().get(), hex(&put)).unwrap();
}

const CHUNKS: [(&str, usize); 5] = [("Vp8xChunk", 10), ("AnimChunk", 6), ("AnmfChunk", 16), ("AlphChunk", 1), ("ChunkHeader", 8)];

/// a primitive parsed from a segmented buffer (`Buf::chain` of two slices split at `k`) must give what the contiguous
/// buffer gives: value (as re-serialised bytes) or error kind
fn seg_res<T: WebmPrim, E>(r: Result<T, E>, kind_of: impl Fn(&E) -> &'static str) -> String {
    match r {
        Ok(v) => {
            let mut put = Vec::new();
            v.put_buf(&mut put);
            format!("ok:{}", hex(&put))
        }
        Err(e) => format!("err:{}", kind_of(&e)),
    }
}

fn seg_case<T: WebmPrim, W: Write>(out: &mut W, name: &str, bytes: &[u8]) {
    let whole = crate::quiet(AssertUnwindSafe(|| seg_res(T::parse(bytes), |e| kind(e.get_ref())))).unwrap_or("panic".into());
    let mut segs = vec![];
    for k in 0..=bytes.len() {
        let (a, b) = bytes.split_at(k);
        let r = crate::quiet(AssertUnwindSafe(|| seg_res(T::parse(a.chain(b)), |e| kind(e.get_ref())))).unwrap_or("panic".into());
        segs.push(format!("{k}:{r}"));
    }
    writeln!(out, "C17 kind=primseg ty={name} bytes={} whole={whole} segs={}", hex(bytes), segs.join(";")).unwrap();
}

fn seg_cases<W: Write>(out: &mut W, rng: &mut Rng, n: usize) {
    for i in 0..n {
        // reserved fields: all zero, one non-zero byte at each position, random
        let mut b3 = vec![0u8; 3];
        let x = 1 + rng.below(255) as u8;
        let y = 1 + rng.below(255) as u8;
        match i % 12 {
            0 => {}
            1 | 2 | 3 => b3[i % 12 - 1] = x,
            // several non-zero bytes that cancel under a folding operator: equal pairs and x, y, x^y (xor), x and its
            // two's complement (wrapping sum), disjoint bit sets (and), 0xff pairs
            4 => b3 = vec![x, x, 0],
            5 => b3 = vec![0, x, x],
            6 => b3 = vec![x, 0, x],
            7 => b3 = vec![x, y, x ^ y],
            8 => b3 = vec![x, x.wrapping_neg(), 0],
            9 => b3 = vec![x, y, (x.wrapping_add(y)).wrapping_neg()],
            10 => b3 = vec![0x0f, 0xf0, 0],
            _ => b3 = rng.bytes(3),
        }
        seg_case::<Reserved<3>, W>(out, "reserved3", &b3);
        seg_case::<Reserved<1>, W>(out, "reserved1", &b3[..1]);
        seg_case::<U24, W>(out, "u24", &rng.bytes(3));
        seg_case::<OneBasedU24, W>(out, "u24p1", &rng.bytes(3));
        seg_case::<u16, W>(out, "u16", &rng.bytes(2));
        seg_case::<u32, W>(out, "u32", &rng.bytes(4));
        seg_case::<u8, W>(out, "u8", &rng.bytes(1));
    }
}

pub fn replay<W: Write>(line: &str, out: &mut W) {
    let get = |k: &str| line.split(' ').find_map(|t| t.strip_prefix(&format!("{k}=")).map(|s| s.to_string()));
    let unhex = |s: &str| -> Vec<u8> {
        if s == "-" {
            vec![]
        } else {
            (0..s.len() / 2).map(|i| u8::from_str_radix(&s[2 * i..2 * i + 2], 16).unwrap()).collect()
        }
    };
    match get("kind").as_deref() {
        Some("chunk") => dispatch(out, &get("name").unwrap(), &unhex(&get("bytes").unwrap())),
        Some("prim") => {
            let v: u128 = get("v").unwrap().parse().unwrap();
            match get("ty").unwrap().as_str() {
                "u8" => prim_case!(out, u8, u8, "u8", v as u8),
                "u16" => prim_case!(out, u16, u16, "u16", v as u16),
                "u32" => prim_case!(out, u32, u32, "u32", v as u32),
                "u64" => prim_case!(out, u64, u64, "u64", v as u64),
                "i8" => prim_case!(out, i8, u8, "i8", v as i8),
                "i16" => prim_case!(out, i16, u16, "i16", v as i16),
                "i32" => prim_case!(out, i32, u32, "i32", v as i32),
                "i64" => prim_case!(out, i64, u64, "i64", v as i64),
                t => panic!("unknown prim {t}"),
            }
        }
        Some("primb") => {
            let b = unhex(&get("bytes").unwrap());
            match get("ty").unwrap().as_str() {
                "u8" => primb_case!(out, u8, u8, "u8", &b),
                "u16" => primb_case!(out, u16, u16, "u16", &b),
                "u32" => primb_case!(out, u32, u32, "u32", &b),
                "u64" => primb_case!(out, u64, u64, "u64", &b),
                "i8" => primb_case!(out, i8, u8, "i8", &b),
                "i16" => primb_case!(out, i16, u16, "i16", &b),
                "i32" => primb_case!(out, i32, u32, "i32", &b),
                "i64" => primb_case!(out, i64, u64, "i64", &b),
                "U24" | "OneBasedU24" => u24_cases(out, &b),
                t => panic!("unknown prim {t}"),
            }
        }
        _ => panic!("bad replay line"),
    }
}

pub fn run<W: Write>(opts: &Opts, out: &mut W) {
    let mut rng = Rng::new(opts.seed);
    let n = if opts.tier_thorough { 20000 } else { 1500 };
    if opts.shard.0 == 0 {
        seg_cases(out, &mut rng.fork(0x5e6), if opts.tier_thorough { 400 } else { 60 });
    }
    // exhaustive 8- and 16-bit primitives
    for v in 0..=u8::MAX {
        prim_case!(out, u8, u8, "u8", v);
        prim_case!(out, i8, u8, "i8", v as i8);
        primb_case!(out, u8, u8, "u8", &[v]);
    }
    for v in 0..=u16::MAX {
        prim_case!(out, u16, u16, "u16", v);
        prim_case!(out, i16, u16, "i16", v as i16);
    }
    prim_sweep!(out, rng, u16, u16, "u16", 64);
    prim_sweep!(out, rng, i16, u16, "i16", 64);
    prim_sweep!(out, rng, u32, u32, "u32", n);
    prim_sweep!(out, rng, i32, u32, "i32", n);
    prim_sweep!(out, rng, u64, u64, "u64", n);
    prim_sweep!(out, rng, i64, u64, "i64", n);
    // 24-bit integers: boundaries, every single-byte-set value, random
    for b in [[0u8, 0, 0], [1, 0, 0], [0, 1, 0], [0, 0, 1], [0xff, 0xff, 0xff], [0xfe, 0xff, 0xff], [0x11, 0x22, 0x33], [0, 0, 0x80]] {
        u24_cases(out, &b);
    }
    for _ in 0..n {
        let extra = rng.below(2) as usize;
        let b = rng.bytes(3 + extra);
        u24_cases(out, &b);
    }
    // chunks: every first byte (flags) on otherwise valid payloads; every single non-zero byte; random
    for (name, len) in CHUNKS {
        for b0 in 0..=255u8 {
            let mut bytes = vec![0u8; len];
            bytes[0] = b0;
            dispatch(out, name, &bytes);
            let mut bytes = vec![0u8; len];
            bytes[len - 1] = b0;
            dispatch(out, name, &bytes);
        }
        for i in 0..len {
            for v in [1u8, 0x7f, 0x80, 0xff] {
                let mut bytes = vec![0u8; len];
                bytes[i] = v;
                dispatch(out, name, &bytes);
            }
        }
        // VP8X: reserved bytes that are not zero but cancel under a folding operator, everything else valid
        if name == "Vp8xChunk" && len == 10 {
            for r in [[1u8, 1, 0], [0, 0x80, 0x80], [5, 3, 6], [0xff, 0x0f, 0xf0], [1, 0xff, 0], [0x0f, 0xf0, 0], [7, 7, 7], [2, 0xfe, 0]] {
                let mut bytes = vec![0u8; len];
                bytes[1..4].copy_from_slice(&r);
                dispatch(out, name, &bytes);
                bytes[0] = 0x10;
                bytes[4] = 9;
                dispatch(out, name, &bytes);
            }
        }
        // every combination of extreme values of the integer fields (all zeros, one, all ones, all ones minus one) with
        // valid flag / reserved bytes: carries and borrows between neighbouring fields show
        let layout: &[(usize, u8)] = match name {
            "Vp8xChunk" => &[(1, 0x3e), (3, 0), (3, 1), (3, 1)],
            "AnimChunk" => &[(4, 1), (2, 1)],
            "AnmfChunk" => &[(3, 1), (3, 1), (3, 1), (3, 1), (3, 1), (1, 0x03)],
            "AlphChunk" => &[(1, 0x1d)],
            _ => &[],
        };
        let ints = layout.iter().filter(|(l, k)| *k == 1 && *l > 1).count() as u32;
        if layout.iter().map(|(l, _)| *l).sum::<usize>() == len {
            for combo in 0..4u32.pow(ints) {
                let mut c = combo;
                let mut bytes = Vec::with_capacity(len);
                for &(l, k) in layout {
                    if k == 1 && l > 1 {
                        let pick = c % 4;
                        c /= 4;
                        let mut f = match pick {
                            0 => vec![0u8; l],
                            1 => { let mut f = vec![0u8; l]; f[0] = 1; f }
                            2 => vec![0xffu8; l],
                            _ => { let mut f = vec![0xffu8; l]; f[0] = 0xfe; f }
                        };
                        bytes.append(&mut f);
                    } else if k == 0 {
                        bytes.extend(std::iter::repeat(0u8).take(l));
                    } else {
                        bytes.push(k & (combo as u8 | 1));
                    }
                }
                dispatch(out, name, &bytes);
            }
        }
        // all-distinct bytes with valid flag/reserved bytes: byte-order and field-order mistakes show
        let mut bytes: Vec<u8> = (0..len).map(|i| 0x10 + i as u8 * 7).collect();
        match name {
            "Vp8xChunk" => {
                bytes[0] = 0x3e;
                bytes[1] = 0;
                bytes[2] = 0;
                bytes[3] = 0;
                bytes[6] = 0;
                bytes[9] = 0;
            }
            "AnmfChunk" => bytes[15] = 3,
            "AlphChunk" => bytes[0] = 0x1d,
            _ => {}
        }
        dispatch(out, name, &bytes);
        for k in 0..n {
            let extra = if k % 7 == 0 { rng.below(4) as usize } else { 0 };
            let mut bytes = rng.bytes(len + extra);
            // mostly valid: clear the bits that make the payload invalid, three times out of four
            if k % 4 != 0 {
                match name {
                    "Vp8xChunk" => {
                        bytes[0] &= 0x3e;
                        bytes[1] = 0;
                        bytes[2] = 0;
                        bytes[3] = 0;
                        if k % 3 != 0 {
                            bytes[6] = 0;
                            bytes[9] = 0;
                        }
                    }
                    "AnmfChunk" => bytes[15] &= 3,
                    "AlphChunk" => bytes[0] &= 0x1d,
                    _ => {}
                }
            }
            dispatch(out, name, &bytes);
        }
        // VP8X canvas-area boundary: w*h around 2^32
        if name == "Vp8xChunk" {
            for (w, h) in [(65536u32, 65536u32), (65535, 65537), (65536, 65535), (1 << 24, 256), (1 << 24, 255), (1 << 24, 1 << 24), (1, 1)] {
                let mut bytes = vec![0u8; 10];
                bytes[4..7].copy_from_slice(&(w - 1).to_le_bytes()[..3]);
                bytes[7..10].copy_from_slice(&(h - 1).to_le_bytes()[..3]);
                dispatch(out, name, &bytes);
            }
        }
        // short buffers (outside the callers' guarantee; model and code must still agree, incl. panics)
        for l in 0..len {
            dispatch(out, name, &vec![0u8; l]);
        }
    }
}
