//! Structure-aware MP4 generators: box headers in every encoding, moov trees with unknown siblings at
//! every level, top-level layouts with sparse media / padding, boundary lattices, mutations.
use crate::mp4run::Cfg;
use crate::rng::Rng;
use crate::sparse::Sparse;

#[derive(Clone, Copy, Debug, PartialEq, Eq)]
pub enum Enc {
    S32,
    S64,
    Eof,
}

pub fn header(name: &[u8; 4], uuid: Option<&[u8; 16]>, payload_len: u64, enc: Enc) -> Vec<u8> {
    let mut h = Vec::new();
    let extra = if uuid.is_some() { 16 } else { 0 };
    match enc {
        Enc::S32 => h.extend_from_slice(&((payload_len + 8 + extra) as u32).to_be_bytes()),
        Enc::S64 => h.extend_from_slice(&1u32.to_be_bytes()),
        Enc::Eof => h.extend_from_slice(&0u32.to_be_bytes()),
    }
    h.extend_from_slice(if uuid.is_some() { b"uuid" } else { name });
    if enc == Enc::S64 {
        h.extend_from_slice(&(payload_len + 16 + extra).to_be_bytes());
    }
    if let Some(u) = uuid {
        h.extend_from_slice(u);
    }
    h
}

pub fn bx(name: &[u8; 4], payload: &[u8], enc: Enc) -> Vec<u8> {
    let mut b = header(name, None, payload.len() as u64, enc);
    b.extend_from_slice(payload);
    b
}

pub fn pick_enc(rng: &mut Rng, allow_eof: bool) -> Enc {
    match rng.below(10) {
        0 | 1 => Enc::S64,
        2 if allow_eof => Enc::Eof,
        _ => Enc::S32,
    }
}

const JUNK_NAMES: [&[u8; 4]; 10] = [b"mvhd", b"tkhd", b"mdhd", b"hdlr", b"dinf", b"stsd", b"stts", b"stsc", b"stsz", b"udta"];

/// an unknown sibling box: random known-irrelevant type or uuid, any header encoding, small payload
pub fn junk_box(rng: &mut Rng) -> Vec<u8> {
    let n = rng.below(24) as usize;
    let payload = rng.bytes(n);
    if rng.chance(1, 6) {
        let mut u = [0u8; 16];
        u.copy_from_slice(&rng.bytes(16));
        let mut b = header(b"uuid", Some(&u), n as u64, if rng.chance(1, 4) { Enc::S64 } else { Enc::S32 });
        b.extend_from_slice(&payload);
        b
    } else {
        let name = *rng.pick(&JUNK_NAMES);
        bx(name, &payload, if rng.chance(1, 5) { Enc::S64 } else { Enc::S32 })
    }
}

#[derive(Clone, Debug)]
pub struct TrakSpec {
    pub co64: bool,
    pub entries: Vec<u64>,
    pub junk: u32, // bitmask: which levels get unknown siblings (before/after)
    pub enc: [Enc; 5], // header encodings of trak, mdia, minf, stbl, co
    /// a rule of the track structure broken by duplication: 0 none, 1 a second table of the same kind (other entries),
    /// 2 a second stbl, 3 a second minf, 4 a second mdia, 5 both an stco and a co64
    pub dup: u8,
}

pub fn co_payload(co64: bool, entries: &[u64]) -> Vec<u8> {
    let mut p = vec![0u8; 4];
    p.extend_from_slice(&(entries.len() as u32).to_be_bytes());
    for &e in entries {
        if co64 {
            p.extend_from_slice(&e.to_be_bytes());
        } else {
            p.extend_from_slice(&(e as u32).to_be_bytes());
        }
    }
    p
}

fn wrap(rng: &mut Rng, name: &[u8; 4], inner: Vec<u8>, junk_before: bool, junk_after: bool, enc: Enc, last_eof: bool) -> (Vec<u8>, bool) {
    // returns the payload of the parent: [junk] inner-box [junk]; `last_eof`: whether the inner box may use size 0
    let mut out = Vec::new();
    if junk_before {
        out.extend(junk_box(rng));
    }
    let use_eof = enc == Enc::Eof && !junk_after && last_eof;
    let enc = if enc == Enc::Eof && !use_eof { Enc::S32 } else { enc };
    out.extend(bx(name, &inner, enc));
    if junk_after {
        out.extend(junk_box(rng));
    }
    (out, use_eof)
}

/// payload of a trak box
pub fn trak_payload(rng: &mut Rng, t: &TrakSpec) -> Vec<u8> {
    let co = co_payload(t.co64, &t.entries);
    let no_eof = |e: Enc, dup: bool| if dup && e == Enc::Eof { Enc::S32 } else { e };
    let (mut stbl, _) = wrap(rng, if t.co64 { b"co64" } else { b"stco" }, co, t.junk & 1 != 0, t.junk & 2 != 0, no_eof(t.enc[4], t.dup == 1 || t.dup == 5), true);
    if t.dup == 1 || t.dup == 5 {
        // the extra table holds other values, so a rewrite that reaches only one of the two is visible
        let other: Vec<u64> = t.entries.iter().rev().map(|e| e ^ 4).collect();
        let co64 = if t.dup == 5 { !t.co64 } else { t.co64 };
        stbl.extend(bx(if co64 { b"co64" } else { b"stco" }, &co_payload(co64, &other), Enc::S32));
    }
    let (mut minf, _) = wrap(rng, b"stbl", stbl.clone(), t.junk & 4 != 0, t.junk & 8 != 0, no_eof(t.enc[3], t.dup == 2), true);
    if t.dup == 2 {
        minf.extend(bx(b"stbl", &stbl, Enc::S32));
    }
    let (mut mdia, _) = wrap(rng, b"minf", minf.clone(), t.junk & 16 != 0, t.junk & 32 != 0, no_eof(t.enc[2], t.dup == 3), true);
    if t.dup == 3 {
        mdia.extend(bx(b"minf", &minf, Enc::S32));
    }
    let (mut trak, _) = wrap(rng, b"mdia", mdia.clone(), t.junk & 64 != 0, t.junk & 128 != 0, no_eof(t.enc[1], t.dup == 4), true);
    if t.dup == 4 {
        trak.extend(bx(b"mdia", &mdia, Enc::S32));
    }
    trak
}

pub fn moov_payload(rng: &mut Rng, traks: &[TrakSpec], junk: bool) -> Vec<u8> {
    let mut p = Vec::new();
    if junk {
        p.extend(junk_box(rng));
    }
    for (i, t) in traks.iter().enumerate() {
        let tp = trak_payload(rng, t);
        let last = i + 1 == traks.len();
        let enc = if t.enc[0] == Enc::Eof && !last { Enc::S32 } else { t.enc[0] };
        p.extend(bx(b"trak", &tp, enc));
        if junk && rng.chance(1, 3) && !(last && enc == Enc::Eof) {
            p.extend(junk_box(rng));
        }
    }
    p
}

pub fn rand_trak(rng: &mut Rng, n_entries: usize, rich: bool) -> TrakSpec {
    let co64 = rng.chance(1, 3);
    let entries = (0..n_entries).map(|_| rng.below(1 << 20)).collect();
    let mut enc = [Enc::S32; 5];
    if rich {
        for e in enc.iter_mut() {
            *e = match rng.below(12) {
                0 | 1 => Enc::S64,
                2 => Enc::Eof,
                _ => Enc::S32,
            };
        }
    }
    let junk = if rich { rng.next() as u32 & 0xff } else { 0 };
    let dup = if rng.chance(1, 24) { 1 + rng.below(5) as u8 } else { 0 };
    TrakSpec { co64, entries, junk, enc, dup }
}

pub fn ftyp_payload(rng: &mut Rng, isom: bool, n_brands: usize, tail: usize) -> Vec<u8> {
    let mut p = Vec::new();
    p.extend_from_slice(b"mp42");
    p.extend_from_slice(&(rng.next() as u32).to_be_bytes());
    let pos = if n_brands > 0 { rng.below(n_brands as u64) as usize } else { 0 };
    for i in 0..n_brands {
        if isom && i == pos {
            p.extend_from_slice(b"isom");
        } else {
            p.extend_from_slice(rng.pick(&[b"mp41", b"mp42", b"avc1", b"iso2", b"qt  "]).as_slice());
        }
    }
    p.extend(rng.bytes(tail));
    p
}

/// a top-level item
#[derive(Clone, Debug)]
pub enum Item {
    Bytes(Vec<u8>),                    // raw bytes (a fully built box, or garbage)
    Sized(&'static [u8; 4], Enc, u64), // box of that name with a zero payload of that length (sparse)
    Payload(&'static [u8; 4], Enc, Vec<u8>),
}

pub fn build(items: &[Item]) -> Sparse {
    let mut s = Sparse::new();
    for it in items {
        match it {
            Item::Bytes(b) => s.push(b),
            Item::Sized(name, enc, n) => {
                s.push(&header(name, None, *n, *enc));
                s.push_zeros(*n);
            }
            Item::Payload(name, enc, p) => {
                s.push(&header(name, None, p.len() as u64, *enc));
                s.push(p);
            }
        }
    }
    s
}

pub const GAPS: [u64; 22] = [
    0, 1, 2, 7, 8, 9, 13, 16, 64, 1000, 65536,
    (1 << 31) - 9, (1 << 31) - 1, 1 << 31, (1 << 31) + 1,
    (1u64 << 32) - 17, (1u64 << 32) - 16, (1u64 << 32) - 9, (1u64 << 32) - 8, (1u64 << 32) - 7, 1u64 << 32, (1u64 << 33) + 5,
];

/// a boundary value for a chunk-offset entry of the given width, relative to the expected shift
pub fn lattice_entry(rng: &mut Rng, co64: bool, shift: i64) -> u64 {
    let max: u128 = if co64 { u64::MAX as u128 } else { u32::MAX as u128 };
    let base: [i128; 8] = [0, 1, (1 << 31) - 1, 1 << 31, (1 << 32) - 2, (1 << 32) - 1, 1 << 63, u64::MAX as i128];
    let b = *rng.pick(&base);
    let v = match rng.below(4) {
        0 => b,
        1 => b - shift as i128,                           // lands exactly on a boundary after shifting
        2 => b - shift as i128 + (rng.below(3) as i128 - 1), // one off
        _ => rng.below(1 << 24) as i128,
    };
    v.clamp(0, max as i128) as u64
}

pub struct Remux {
    pub s: Sparse,
    pub cfg: Cfg,
    pub desc: String,
}

/// "remux" generator: ftyp [lead] <gap boxes> mdat... [tail] moov — moov after the media so a rewrite is needed.
pub fn remux(rng: &mut Rng, big_gaps: bool, rich: bool) -> Remux {
    let n_traks = 1 + rng.below(if rich { 4 } else { 3 }) as usize;
    let gap_pool: &[u64] = if big_gaps { &GAPS } else { &GAPS[..11] };
    let gap = if rng.chance(1, 4) { rng.below(40) } else { *rng.pick(gap_pool) };
    let ftyp_tail = if rng.chance(1, 4) { rng.below(4) as usize } else { 0 };
    let n_brands = 1 + rng.below(4) as usize;
    let ftyp_p = ftyp_payload(rng, true, n_brands, ftyp_tail);
    let ftyp_enc = if rng.chance(1, 8) { Enc::S64 } else { Enc::S32 };
    let mut items = vec![];
    if rng.chance(1, 6) {
        items.push(Item::Sized(if rng.chance(1, 2) { b"free" } else { b"skip" }, Enc::S32, rng.below(20)));
    }
    items.push(Item::Payload(b"ftyp", ftyp_enc, ftyp_p));
    // the gap between ftyp and mdat is realised by free/skip/meta/meco boxes (when >= 8) — or cannot exist (< 8)
    // so instead the gap relative to the *rewritten* metadata length is steered by the padding box size.
    let mut traks: Vec<TrakSpec> = (0..n_traks).map(|_| { let n = rng.below(5) as usize; rand_trak(rng, n, rich) }).collect();
    let junk_rng = rng.fork(1);
    let moov_p0 = moov_payload(&mut junk_rng.clone(), &traks, rich);
    let moov_len = moov_p0.len() as u64;
    // metadata length after rewrite = (8|16)+ftyp + (8|16)+moov
    let md_len = 8 + items.iter().map(|_| 0).sum::<u64>();
    let _ = md_len;
    let lead_len: u64 = build(&items).len;
    let ftyp_box_len = match &items[items.len() - 1] { Item::Payload(_, _, p) => p.len() as u64 + 8, _ => 0 };
    let meta_len = ftyp_box_len + 8 + moov_len;
    // we want data.offset - meta_len == gap  (or a forward displacement when negative is impossible)
    let want_mdat_off = meta_len + gap;
    let cur = lead_len;
    // a third of the files have the media directly after ftyp (the common camera/phone layout): the media then moves
    // FORWARD by the size of the moov, and entries near the top of their field overflow
    let forward = rng.chance(1, 3);
    let mut desc = format!("traks={n_traks} gap={}", if forward { "fwd".to_string() } else { gap.to_string() });
    if forward {
        desc.push_str(" fwd");
    } else if want_mdat_off >= cur + 8 {
        // fill with 1..3 skippable boxes totalling want_mdat_off - cur
        let mut room = want_mdat_off - cur;
        let parts = 1 + rng.below(3);
        for k in 0..parts {
            let take = if k + 1 == parts { room } else { 8 + rng.below((room - 8).min(64) + 1).min(room - 8) };
            if take < 8 || room - take != 0 && room - take < 8 {
                let name: &'static [u8; 4] = *rng.pick(&[b"free", b"skip"]);
                items.push(Item::Sized(name, Enc::S32, room - 8));
                room = 0;
                break;
            }
            let name: &'static [u8; 4] = *rng.pick(&[b"free", b"skip", b"free"]);
            if take - 8 > u32::MAX as u64 - 8 {
                items.push(Item::Sized(name, Enc::S64, take - 16));
            } else {
                items.push(Item::Sized(name, Enc::S32, take - 8));
            }
            room -= take;
            if room == 0 {
                break;
            }
        }
        let _ = room;
    } else {
        desc.push_str(" fwd");
    }
    // media: 1-3 mdat boxes with interleaved free/skip/meta/meco, sparse payloads
    let n_mdat = 1 + rng.below(3);
    for k in 0..n_mdat {
        let len = if rng.chance(1, 10) { rng.below(1 << 34) } else { rng.below(200) };
        let enc = if len > 1 << 31 || rng.chance(1, 6) { Enc::S64 } else { Enc::S32 };
        items.push(Item::Sized(b"mdat", enc, len));
        if k + 1 < n_mdat && rng.chance(1, 2) {
            let name: &'static [u8; 4] = *rng.pick(&[b"free", b"skip", b"meta", b"meco"]);
            items.push(Item::Sized(name, Enc::S32, rng.below(30)));
        }
    }
    if rng.chance(1, 4) {
        let name: &'static [u8; 4] = *rng.pick(&[b"free", b"skip", b"meta", b"meco"]);
        items.push(Item::Sized(name, Enc::S32, rng.below(30)));
    }
    if rich && rng.chance(1, 6) {
        // an earlier moov (only the last one counts) — placed before the media would make it a no-op, so after
        let t = rand_trak(rng, 2, false);
        items.push(Item::Payload(b"moov", Enc::S32, moov_payload(rng, &[t], false)));
    }
    // entries: boundary lattice relative to the shift that will be applied
    let pre_mdat_off: u64 = {
        let mut o = 0u64;
        for it in &items {
            if let Item::Sized(n, _, _) = it {
                if *n == b"mdat" {
                    break;
                }
            }
            o += build(std::slice::from_ref(it)).len;
        }
        o
    };
    let shift: i64 = (meta_len as i128 - pre_mdat_off as i128).clamp(i64::MIN as i128, i64::MAX as i128) as i64;
    let shift = if (8..=(u32::MAX as i128 - 8)).contains(&(-(shift as i128))) { 0 } else { shift };
    for t in traks.iter_mut() {
        for e in t.entries.iter_mut() {
            if rng.chance(1, 3) {
                *e = lattice_entry(rng, t.co64, shift);
            } else {
                // a plausible offset: inside the media, shifted back
                *e = (pre_mdat_off + rng.below(100)).min(if t.co64 { u64::MAX } else { u32::MAX as u64 });
            }
        }
    }
    let moov_p = moov_payload(&mut junk_rng.clone(), &traks, rich);
    assert_eq!(moov_p.len() as u64, moov_len);
    let moov_enc = match rng.below(8) {
        0 => Enc::S64,
        1 | 2 => Enc::Eof,
        _ => Enc::S32,
    };
    items.push(Item::Payload(b"moov", moov_enc, moov_p));
    if moov_enc != Enc::Eof && rng.chance(1, 5) {
        let name: &'static [u8; 4] = *rng.pick(&[b"free", b"skip", b"meta", b"meco"]);
        items.push(Item::Sized(name, Enc::S32, rng.below(30)));
    }
    let cfg = Cfg { max: if rng.chance(1, 10) { moov_len + rng.below(3) - 1 } else { 1 << 30 }, cum: None };
    desc.push_str(&format!(" shift={shift} moov={moov_enc:?}"));
    Remux { s: build(&items), cfg, desc }
}

/// moov first, then media that is only ever skipped: ftyp, moov, mdat(`len` bytes) [free] - cut short by `cut` bytes, so
/// the input ends inside a box whose payload no one reads (what tells a short file from a complete one is then only the
/// position after the skip)
pub fn cut_in_skipped_tail(rng: &mut Rng, len: u64, cut: u64) -> Sparse {
    let ftyp = Item::Payload(b"ftyp", Enc::S32, ftyp_payload(rng, true, 1, 0));
    let t = rand_trak(rng, 2, false);
    let t = TrakSpec { dup: 0, ..t };
    let moov = Item::Payload(b"moov", Enc::S32, moov_payload(rng, &[t], false));
    let mut items = vec![ftyp, moov, Item::Sized(b"mdat", if rng.chance(1, 4) { Enc::S64 } else { Enc::S32 }, len)];
    if rng.chance(1, 3) {
        items.push(Item::Sized(if rng.chance(1, 2) { b"free" } else { b"skip" }, Enc::S32, rng.below(90)));
    }
    let s = build(&items);
    let c = cut.min(s.len);
    s.truncate(s.len - c)
}

/// simple valid file used as a base for mutation: ftyp, mdat, moov (or moov first when `noop`)
pub fn simple(rng: &mut Rng, noop: bool) -> Sparse {
    let n = 1 + rng.below(3) as usize;
    let ftyp = Item::Payload(b"ftyp", Enc::S32, ftyp_payload(rng, true, n, 0));
    let traks: Vec<TrakSpec> = (0..1 + rng.below(2)).map(|_| { let n = 1 + rng.below(3) as usize; rand_trak(rng, n, false) }).collect();
    let moov = Item::Payload(b"moov", Enc::S32, moov_payload(rng, &traks, false));
    let mdat = Item::Payload(b"mdat", Enc::S32, rng.bytes(5));
    if noop {
        build(&[ftyp, moov, mdat])
    } else {
        build(&[ftyp, mdat, moov])
    }
}
