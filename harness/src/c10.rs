//! C10: work and memory are bounded by the metadata size; media is never inspected.  A metering `Read + Skip`
//! records every byte range delivered by `read`; a counting global allocator (main.rs) records the peak heap growth
//! during the call.
use std::io::{self, Read, Write};
use std::panic::AssertUnwindSafe;

use mediasan_common::{SeekSkipAdapter, Skip};

use crate::c06::payloads;
use crate::mp4gen::*;
use crate::mp4run::{canon, Cfg, ImplOut, Kind};
use crate::rng::Rng;
use crate::sparse::{SeekReader, Sparse, StrictReader};
use crate::synth::BitWriter;
use crate::webprun::*;
use crate::{measure_heap, Opts};

pub struct Meter<R> {
    pub inner: R,
    pub bytes: u64,
    pub calls: u64,
    pub skips: u64,
    /// merged (offset, length) ranges delivered by `read`, in order of first touch
    pub ranges: Vec<(u64, u64)>,
}

impl<R> Meter<R> {
    pub fn new(inner: R) -> Self {
        Self { inner, bytes: 0, calls: 0, skips: 0, ranges: vec![] }
    }
    fn note(&mut self, pos: u64, n: u64) {
        if n == 0 {
            return;
        }
        self.bytes += n;
        if let Some(last) = self.ranges.last_mut() {
            if last.0 + last.1 == pos {
                last.1 += n;
                return;
            }
        }
        self.ranges.push((pos, n));
    }
    pub fn ranges_text(&self) -> String {
        if self.ranges.is_empty() {
            return "-".into();
        }
        self.ranges.iter().map(|(a, b)| format!("{a}+{b}")).collect::<Vec<_>>().join(";")
    }
}

impl<R: Read + Skip> Read for Meter<R> {
    fn read(&mut self, buf: &mut [u8]) -> io::Result<usize> {
        let pos = self.inner.stream_position()?;
        let n = self.inner.read(buf)?;
        self.calls += 1;
        self.note(pos, n as u64);
        Ok(n)
    }
}

impl<R: Skip> Skip for Meter<R> {
    fn skip(&mut self, amount: u64) -> io::Result<()> {
        self.skips += 1;
        self.inner.skip(amount)
    }
    fn stream_position(&mut self) -> io::Result<u64> {
        self.inner.stream_position()
    }
    fn stream_len(&mut self) -> io::Result<u64> {
        self.inner.stream_len()
    }
}

fn mp4_text(o: &ImplOut) -> (String, u64) {
    match o {
        ImplOut::Noop(a, b) => (format!("ok:none:{a},{b}"), 0),
        ImplOut::Md(md, a, b) => (format!("ok:md{}:{a},{b}", md.len()), md.len() as u64),
        ImplOut::Parse(k) => (format!("err:parse:{k}"), 0),
        ImplOut::Io(k) => (format!("err:io:{k}"), 0),
        ImplOut::Panic => ("panic".into(), 0),
    }
}

struct Mp4Run {
    res: String,
    mdlen: u64,
    bytes: u64,
    calls: u64,
    ranges: String,
    peak: usize,
}

fn run_mp4_metered(s: &Sparse, cfg: &Cfg, kind: Kind) -> Mp4Run {
    let r = crate::quiet(AssertUnwindSafe(|| match kind {
        Kind::Seekable => {
            let mut m = Meter::new(SeekSkipAdapter(SeekReader::new(s)));
            let c = cfg.build();
            let (out, peak) = measure_heap(|| mp4_text(&canon(mp4san::sanitize_with_config(&mut m, c))));
            Mp4Run { res: out.0, mdlen: out.1, bytes: m.bytes, calls: m.calls, ranges: m.ranges_text(), peak }
        }
        Kind::Strict => {
            let mut m = Meter::new(StrictReader::new(s));
            let c = cfg.build();
            let (out, peak) = measure_heap(|| mp4_text(&canon(mp4san::sanitize_with_config(&mut m, c))));
            Mp4Run { res: out.0, mdlen: out.1, bytes: m.bytes, calls: m.calls, ranges: m.ranges_text(), peak }
        }
    }));
    r.unwrap_or(Mp4Run { res: "panic".into(), mdlen: 0, bytes: 0, calls: 0, ranges: "-".into(), peak: 0 })
}

/// `media`: (offset, length) of payload regions of mdat/free/skip/meta/meco boxes as the generator laid them out;
/// the second run randomises bytes inside them
pub fn emit_mp4<W: Write>(out: &mut W, id: &str, s: &Sparse, cfg: &Cfg, kind: Kind, media: &[(u64, u64)], rng: &mut Rng) {
    let a = run_mp4_metered(s, cfg, kind);
    let mut s2 = s.clone();
    for &(off, len) in media {
        if len == 0 {
            continue;
        }
        let n = if len <= 64 { len } else { 24 };
        for i in 0..n {
            let p = if len <= 64 { off + i } else if i < 8 { off + i } else if i < 16 { off + len - 1 - (i - 8) } else { off + rng.below(len) };
            s2.set_byte(p, rng.next() as u8);
        }
    }
    let b = run_mp4_metered(&s2, cfg, kind);
    // a third run: every media / gap payload BEGINS (and ends) with bytes that look like structure - two empty `free`
    // boxes - so that a scan that ever takes payload bytes for a box header continues instead of failing
    let mut s3 = s.clone();
    let fake: [u8; 16] = [0, 0, 0, 8, b'f', b'r', b'e', b'e', 0, 0, 0, 8, b'f', b'r', b'e', b'e'];
    for &(off, len) in media {
        if len >= 16 {
            for (i, v) in fake.iter().enumerate() {
                s3.set_byte(off + i as u64, *v);
                if len >= 32 {
                    s3.set_byte(off + len - 16 + i as u64, *v);
                }
            }
        }
    }
    let b3 = run_mp4_metered(&s3, cfg, kind);
    // the async entry point over a native AsyncSkip reader whose every operation is suspended once: the same answer and
    // the same bytes obtained from the input (media is not inspected under any schedule either)
    let (pres, pranges) = crate::quiet(AssertUnwindSafe(|| {
        let (o, r) = crate::c12::run_async_metered_every_op_suspended(s, cfg, kind == Kind::Strict);
        (mp4_text(&o).0, r)
    }))
    .unwrap_or(("panic".into(), "-".into()));
    writeln!(
        out,
        "C10 id={id} san=mp4 {} {} kind={} res={} mdlen={} read={} calls={} ranges={} peak={} alt={} altread={} pend={pres} pendranges={pranges} alt2={}",
        s.line(),
        cfg.line(),
        kind.name(),
        a.res,
        a.mdlen,
        a.bytes,
        a.calls,
        a.ranges,
        a.peak,
        b.res,
        b.bytes,
        b3.res
    )
    .unwrap();
}

pub fn emit_webp<W: Write>(out: &mut W, id: &str, s: &Sparse, allow: bool, dims: (u32, u32)) {
    let r = crate::quiet(AssertUnwindSafe(|| {
        let mut m = Meter::new(SeekSkipAdapter(SeekReader::new(s)));
        let cfg = webpsan::Config::builder().allow_unknown_chunks(allow).build();
        let (o, peak) = measure_heap(|| wcanon(webpsan::sanitize_with_config(&mut m, cfg)).text());
        (o, m.bytes, peak)
    }))
    .unwrap_or(("panic".into(), 0, 0));
    writeln!(out, "C10 id={id} san=webp {} allow={} dims={}x{} res={} read={} peak={}", s.line(), allow as u8, dims.0, dims.1, r.0, r.1, r.2).unwrap();
}

/// a valid stream declaring w x h whose meta prefix image (block 4) costs one bit per pixel: the validator consumes
/// (w/4)*(h/4)/8 bytes through its fixed bit buffer
pub fn one_bit_per_pixel_vp8l(rng: &mut Rng, w: u32, h: u32) -> Vec<u8> {
    let mut bw = BitWriter::new();
    bw.bits(0x2f, 8);
    bw.bits(w - 1, 14);
    bw.bits(h - 1, 14);
    bw.bit(false);
    bw.bits(0, 3);
    bw.bit(false); // no transform
    bw.bit(false); // no colour cache
    bw.bit(true); // meta prefix codes
    bw.bits(0, 3); // block size 4
    bw.bit(false); // entropy image: no colour cache
    // green: simple code with the two symbols 0 and 1 (one bit per pixel); red, blue, alpha, distance: one symbol
    bw.bit(true);
    bw.bit(true);
    bw.bit(false);
    bw.bits(0, 1);
    bw.bits(1, 8);
    for _ in 0..4 {
        bw.bit(true);
        bw.bit(false);
        bw.bit(false);
        bw.bit(false);
    }
    let px = ((w + 3) / 4) as u64 * ((h + 3) / 4) as u64;
    let mut left = px;
    while left >= 32 {
        bw.bits(rng.next() as u32, 32);
        left -= 32;
    }
    for _ in 0..left {
        bw.bit(rng.chance(1, 2));
    }
    // two prefix-code groups for the main image
    for _ in 0..10 {
        bw.bit(true);
        bw.bit(false);
        bw.bit(false);
        bw.bit(false);
    }
    let mut b = bw.bytes;
    b.extend_from_slice(&[0; 4]);
    b
}

/// a valid 1x1 stream whose entropy image (one pixel) names prefix-code group `groups - 1`: the validator has to read
/// `groups` groups of five one-symbol codes (20 bits per group) before the single pixel
pub fn many_groups_vp8l(groups: u32) -> Vec<u8> {
    assert!((1..=65536).contains(&groups));
    let idx = groups - 1;
    let mut bw = BitWriter::new();
    bw.bits(0x2f, 8);
    bw.bits(0, 14);
    bw.bits(0, 14);
    bw.bit(false);
    bw.bits(0, 3);
    bw.bit(false); // no transform
    bw.bit(false); // no colour cache
    bw.bit(true); // meta prefix codes
    bw.bits(0, 3); // block size 4: a 1x1 entropy image
    bw.bit(false); // entropy image: no colour cache
    for sym in [idx & 0xff, idx >> 8] {
        // green, red: one 8-bit symbol
        bw.bit(true);
        bw.bit(false);
        bw.bit(true);
        bw.bits(sym, 8);
    }
    for _ in 0..3 {
        bw.bit(true);
        bw.bit(false);
        bw.bit(false);
        bw.bit(false);
    }
    for _ in 0..(5 * groups) {
        bw.bit(true);
        bw.bit(false);
        bw.bit(false);
        bw.bit(false);
    }
    let mut b = bw.bytes;
    b.extend_from_slice(&[0; 4]);
    b
}

/// peak heap of webpsan over streams of the same shape and growing size (one line for the whole family)
pub fn emit_webp_scale<W: Write>(out: &mut W, id: &str, rng: &mut Rng, dims: &[(u32, u32)]) {
    let files: Vec<(String, Vec<u8>)> = dims.iter().map(|&(w, h)| (format!("{w}x{h}"), riff(&[chunk(b"VP8L", &one_bit_per_pixel_vp8l(rng, w, h))]))).collect();
    emit_webp_scale_files(out, id, &files)
}

pub fn groups_files(alph: bool, groups: &[u32]) -> Vec<(String, Vec<u8>)> {
    groups
        .iter()
        .map(|&g| {
            let p = many_groups_vp8l(g);
            let f = if alph {
                let mut a = vec![1u8];
                a.extend_from_slice(&p[5..]);
                riff(&[chunk(b"VP8X", &vp8x_payload(0x10, 1, 1)), chunk(b"ALPH", &a), chunk(b"VP8 ", VP8_DATA)])
            } else {
                riff(&[chunk(b"VP8L", &p)])
            };
            (format!("{g}groups"), f)
        })
        .collect()
}

/// animations of `n` one-pixel frames (the first and every fourth one lossless, so that every file pays the constant
/// cost of one bit buffer; the others lossy): what webpsan holds must not follow `n`
pub fn frames_files(ns: &[u32]) -> Vec<(String, Vec<u8>)> {
    let lossless: Vec<u8> = vec![0x2f, 0, 0, 0, 0, 0x88, 0x88, 0x08];
    ns.iter()
        .map(|&n| {
            let mut chunks = vec![chunk(b"VP8X", &vp8x_payload(0x02, 1, 1)), chunk(b"ANIM", &[0; 6])];
            for i in 0..n {
                let mut p = vec![0u8; 12];
                p.extend_from_slice(&[1, 0, 0, 0]);
                if i % 4 == 0 {
                    p.extend(chunk(b"VP8L", &lossless));
                } else {
                    p.extend(chunk(b"VP8 ", VP8_DATA));
                }
                chunks.push(chunk(b"ANMF", &p));
            }
            (format!("{n}frames"), riff(&chunks))
        })
        .collect()
}

pub fn emit_webp_scale_files<W: Write>(out: &mut W, id: &str, files: &[(String, Vec<u8>)]) {
    let mut rs = vec![];
    for (label, f) in files {
        let r = crate::quiet(AssertUnwindSafe(|| {
            let cfg = webpsan::Config::default();
            let mut c = std::io::Cursor::new(&f);
            let (o, peak) = measure_heap(|| wcanon(webpsan::sanitize_with_config(&mut c, cfg)).text());
            (o, peak)
        }))
        .unwrap_or(("panic".into(), 0));
        rs.push(format!("{label}:{}:{}:{}", f.len(), r.0, r.1));
    }
    writeln!(out, "C10 id={id} san=webpscale len=0 ext=- runs={}", rs.join(";")).unwrap();
}

pub fn replay<W: Write>(line: &str, out: &mut W) {
    let get = |k: &str| line.split(' ').find_map(|t| t.strip_prefix(&format!("{k}=")).map(|s| s.to_string()));
    let s = Sparse::parse_line(&get("len").unwrap(), &get("ext").unwrap());
    let id = get("id").unwrap_or("replay".into());
    if get("san").as_deref() == Some("webpscale") && get("runs").unwrap_or_default().contains("frames:") {
        let ns: Vec<u32> = get("runs").unwrap_or_default().split(';').filter_map(|t| t.split(':').next()?.strip_suffix("frames")?.parse().ok()).collect();
        emit_webp_scale_files(out, &id, &frames_files(&ns));
    } else if get("san").as_deref() == Some("webpscale") && get("runs").unwrap_or_default().contains("groups:") {
        let groups: Vec<u32> = get("runs").unwrap_or_default().split(';').filter_map(|t| t.split(':').next()?.strip_suffix("groups")?.parse().ok()).collect();
        emit_webp_scale_files(out, &id, &groups_files(id.contains("alph"), &groups));
    } else if get("san").as_deref() == Some("webpscale") {
        let dims: Vec<(u32, u32)> = get("runs").unwrap_or_default().split(';').filter_map(|t| {
            let d = t.split(':').next()?;
            let mut it = d.split('x').map(|x| x.parse().unwrap_or(1));
            Some((it.next()?, it.next()?))
        }).collect();
        emit_webp_scale(out, &id, &mut Rng::new(1), &dims);
    } else if get("san").as_deref() == Some("webp") {
        let d = get("dims").unwrap_or("0x0".into());
        let mut it = d.split('x').map(|x| x.parse().unwrap_or(0));
        emit_webp(out, &id, &s, get("allow").as_deref() == Some("1"), (it.next().unwrap_or(0), it.next().unwrap_or(0)));
    } else {
        let cfg = Cfg { max: get("max").and_then(|x| x.parse().ok()).unwrap_or(1 << 30), cum: get("cum").and_then(|x| x.parse().ok()) };
        let kind = if get("kind").as_deref() == Some("strict") { Kind::Strict } else { Kind::Seekable };
        // the replay re-randomises nothing: the stored input is run twice
        emit_mp4(out, &id, &s, &cfg, kind, &[], &mut Rng::new(0));
    }
}

/// a box with a virtual (all-zero, sparse) payload of `len` bytes; returns the payload region
fn push_sized(s: &mut Sparse, name: &[u8; 4], len: u64, media: &mut Vec<(u64, u64)>) {
    let enc = if len + 8 > u32::MAX as u64 { Enc::S64 } else { Enc::S32 };
    s.push(&header(name, None, len, enc));
    media.push((s.len, len));
    s.push_zeros(len);
}

/// a lossless stream that declares a w x h image whose only sub-image (the entropy image, `bits` = prefix bits)
/// uses single-symbol (zero-bit) codes throughout: tiny on the wire, (w >> bits) * (h >> bits) pixels to validate
pub fn zero_bit_vp8l(w: u32, h: u32, bits: u32) -> Vec<u8> {
    let mut bw = BitWriter::new();
    bw.bits(0x2f, 8);
    bw.bits(w - 1, 14);
    bw.bits(h - 1, 14);
    bw.bit(false);
    bw.bits(0, 3);
    bw.bit(false); // no transform
    bw.bit(false); // no colour cache
    bw.bit(true); // meta prefix codes present
    bw.bits(bits - 2, 3);
    // the entropy image: no colour cache, five simple one-symbol codes (symbol 0)
    bw.bit(false);
    for _ in 0..5 {
        bw.bit(true); // simple
        bw.bit(false); // one symbol
        bw.bit(false); // 1-bit symbol
        bw.bit(false); // symbol 0
    }
    // one prefix-code group for the main image
    for _ in 0..5 {
        bw.bit(true);
        bw.bit(false);
        bw.bit(false);
        bw.bit(false);
    }
    let mut b = bw.bytes;
    b.extend_from_slice(&[0; 4]);
    b
}

pub fn run<W: Write>(opts: &Opts, out: &mut W) {
    let mut rng = Rng::new(opts.seed ^ 0xC10);
    let n = if opts.tier_thorough { 1500 } else { 240 };
    let limits: [u64; 6] = [4096, 8192, 65536, 1 << 20, 1 << 24, 1 << 30];
    for i in 0..n {
        if !opts.mine(i) {
            continue;
        }
        let mut r = rng.fork(i);
        let kind = if i % 3 == 2 { Kind::Strict } else { Kind::Seekable };
        let max = *r.pick(&limits);
        let mut media = vec![];
        let mut s = Sparse::new();
        let ftyp_tail = r.below(4) as usize;
        let nb_max = if r.chance(1, 8) { 250 } else { 6 };
        let nb = 1 + r.below(nb_max) as usize;
        s.push(&bx(b"ftyp", &ftyp_payload(&mut r, true, nb, ftyp_tail), Enc::S32));
        // moov sizes: small, around the limit (junk children make it as large as wanted)
        let moov_target: u64 = match r.below(6) {
            0 => max.saturating_sub(r.below(3)).min(1 << 17),
            1 => (max + 1 + r.below(3)).min(1 << 17),
            2 => r.below(4096),
            _ => 0,
        };
        let nt = 1 + r.below(3) as usize;
        let traks: Vec<TrakSpec> = (0..nt).map(|_| { let ne = r.below(6) as usize; rand_trak(&mut r, ne, true) }).collect();
        let junk = r.chance(1, 2);
        let mut moov_p = moov_payload(&mut r, &traks, junk);
        if moov_target > moov_p.len() as u64 + 8 {
            let fill = moov_target - moov_p.len() as u64 - 8;
            moov_p.extend(bx(b"udta", &vec![0x5a; fill as usize], Enc::S32));
        }
        let moov_enc = match r.below(6) { 0 => Enc::S64, 1 => Enc::Eof, _ => Enc::S32 };
        // virtual sizes: multi-gigabyte media and gaps
        let big = |r: &mut Rng| -> u64 {
            match r.below(8) {
                0 => r.below(64),
                1 => 1 << 20,
                2 => (1 << 26) + r.below(1000),
                3 => (1u64 << 31) + r.below(1000),
                4 => (1u64 << 32) + r.below(1000),
                5 => (1u64 << 36) + r.below(1000),
                _ => r.below(100_000),
            }
        };
        let layout = r.below(6);
        let gap_name: &[u8; 4] = *r.pick(&[b"free", b"skip", b"meta", b"meco"]);
        match layout {
            0 => {
                // moov first: nothing to rewrite
                s.push(&bx(b"moov", &moov_p, Enc::S32));
                let l = big(&mut r);
                push_sized(&mut s, b"mdat", l, &mut media);
            }
            1 | 2 => {
                // gap boxes, media, moov last (rewrite; padding or displacement)
                let g = if layout == 1 { big(&mut r) } else { r.below(40) };
                // (since the repair of F6 a gap larger than the metadata is never padded, so multi-gigabyte gaps cost
                // nothing on the current tree and are run at every tier)
                push_sized(&mut s, gap_name, g, &mut media);
                let l = big(&mut r);
                push_sized(&mut s, b"mdat", l, &mut media);
                if r.chance(1, 3) {
                    let l = big(&mut r);
                    push_sized(&mut s, b"mdat", l, &mut media);
                }
                s.push(&header(b"moov", None, moov_p.len() as u64, moov_enc));
                s.push(&moov_p);
            }
            3 => {
                // interleaved skippable boxes after the media started, two moovs
                let l = big(&mut r);
                push_sized(&mut s, b"mdat", l, &mut media);
                let l = big(&mut r);
                push_sized(&mut s, gap_name, l, &mut media);
                let t = rand_trak(&mut r, 1, false);
                s.push(&bx(b"moov", &moov_payload(&mut r, &[t], false), Enc::S32));
                s.push(&header(b"moov", None, moov_p.len() as u64, moov_enc));
                s.push(&moov_p);
            }
            4 => {
                // adversarial size fields: a moov that declares far more than the limit (and than the input holds)
                let l = big(&mut r);
                push_sized(&mut s, b"mdat", l, &mut media);
                let declared = match r.below(5) {
                    0 => max + 1,
                    1 => 1u64 << 40,
                    2 => u64::MAX - 16,
                    3 => 0,
                    _ => (1u64 << 32) - 9,
                };
                if declared == 0 {
                    // an until-EOF moov whose extent (the rest of the input) is above the limit
                    s.push(&header(b"moov", None, 0, Enc::Eof));
                    s.push(&moov_p);
                    let rest = if opts.tier_thorough { 1u64 << (20 + r.below(10)) } else { 1u64 << (20 + r.below(6)) };
                    s.push_zeros(max + rest);
                } else {
                    s.push(&header(b"moov", None, declared, if declared + 8 > u32::MAX as u64 { Enc::S64 } else { Enc::S32 }));
                    s.push(&moov_p);
                }
            }
            _ => {
                // until-EOF media after the moov, or an unknown box (rejected) after huge media
                s.push(&bx(b"moov", &moov_p, Enc::S32));
                if r.chance(1, 2) {
                    s.push(&header(b"mdat", None, 0, Enc::Eof));
                    let l = big(&mut r);
                    media.push((s.len, l));
                    s.push_zeros(l);
                } else {
                    let l = big(&mut r);
                    push_sized(&mut s, b"mdat", l, &mut media);
                    let l = big(&mut r);
                    push_sized(&mut s, b"abcd", l, &mut vec![]);
                }
            }
        }
        emit_mp4(out, &format!("mp4-{i}-l{layout}"), &s, &Cfg { max, cum: None }, kind, &media, &mut r);
    }
    // gaps between the rewritten metadata and the media that neither a displacement (beyond 2^31) nor - being larger than
    // the metadata - a padding box may close: refused, and nothing of their size is ever allocated
    for (k, gap) in [(7u64, 3u64 << 30), (8, (1u64 << 31) + 64), (9, (1u64 << 32) - 60)] {
        if !opts.mine(k) {
            continue;
        }
        let mut media = vec![];
        let mut s = Sparse::new();
        let mut r = rng.fork(424242 + k);
        s.push(&bx(b"ftyp", &ftyp_payload(&mut r, true, 2, 0), Enc::S32));
        push_sized(&mut s, b"free", gap, &mut media);
        push_sized(&mut s, b"mdat", 1 << 33, &mut media);
        let t = rand_trak(&mut r, 2, false);
        s.push(&bx(b"moov", &moov_payload(&mut r, &[t], false), Enc::S32));
        emit_mp4(out, &format!("mp4-gap-{gap}"), &s, &Cfg { max: 4096, cum: None }, Kind::Seekable, &media, &mut r);
    }

    // very many top-level boxes (empty free / skip boxes, 8 bytes each) around the media: the peak heap must not follow
    // their number (a sanitizer that remembers something per box holds n x something)
    for (k, n) in [(0u64, 30000u64), (1, 12000)] {
        if !opts.mine(30 + k) {
            continue;
        }
        let mut media = vec![];
        let mut s = Sparse::new();
        let mut r = rng.fork(616161 + k);
        s.push(&bx(b"ftyp", &ftyp_payload(&mut r, true, 2, 0), Enc::S32));
        for i in 0..n {
            if i == n / 2 {
                push_sized(&mut s, b"mdat", 1 << 16, &mut media);
            }
            s.push(&bx(if i % 2 == 0 { b"free" } else { b"skip" }, &[], Enc::S32));
        }
        let t = rand_trak(&mut r, 2, false);
        s.push(&bx(b"moov", &moov_payload(&mut r, &[t], false), Enc::S32));
        emit_mp4(out, &format!("mp4-many-boxes-{n}"), &s, &Cfg { max: 4096, cum: None }, if k == 0 { Kind::Seekable } else { Kind::Strict }, &media, &mut r);
    }
    // several movie boxes, each close to the limit: only the last one counts, and the peak heap must not follow their
    // number (a sanitizer that keeps the earlier ones alive holds n x limit)
    for (k, (n, max)) in [(12u64, 1u64 << 16), (40, 1 << 14), (6, 1 << 20), (24, 1 << 16)].into_iter().enumerate() {
        if !opts.mine(20 + k as u64) {
            continue;
        }
        let mut media = vec![];
        let mut s = Sparse::new();
        let mut r = rng.fork(515151 + k as u64);
        s.push(&bx(b"ftyp", &ftyp_payload(&mut r, true, 2, 0), Enc::S32));
        push_sized(&mut s, b"mdat", 1 << 20, &mut media);
        for _ in 0..n {
            let t = rand_trak(&mut r, 2, false);
            let mut mp = moov_payload(&mut r, &[t], false);
            let target = max - 64 - r.below(64);
            if target > mp.len() as u64 + 8 {
                mp.extend(bx(b"udta", &vec![0x5a; (target - mp.len() as u64 - 8) as usize], Enc::S32));
            }
            s.push(&bx(b"moov", &mp, Enc::S32));
        }
        emit_mp4(out, &format!("mp4-many-moov-{n}x{max}"), &s, &Cfg { max, cum: None }, if k % 2 == 0 { Kind::Seekable } else { Kind::Strict }, &media, &mut r);
    }

    // webpsan: declared dimensions and chunk sizes must not matter
    let pl = payloads(&mut rng.fork(9));
    let mut wcases: Vec<(String, Vec<u8>, (u32, u32))> = vec![];
    for (bits, name) in [(2u32, "b2"), (5, "b5"), (9, "b9")] {
        for (w, h) in [(1u32, 1u32), (64, 64), (1024, 1024), (16384, 16384), (16384, 1), (1, 16384)] {
            if !opts.tier_thorough && bits == 2 && w as u64 * h as u64 > 1 << 24 {
                continue;
            }
            let p = zero_bit_vp8l(w, h, bits);
            wcases.push((format!("zero-{name}-{w}x{h}"), riff(&[chunk(b"VP8L", &p)]), (w, h)));
            // the same stream as an ALPH chunk of an extended file
            let mut a = vec![1u8];
            a.extend_from_slice(&p[5..]);
            wcases.push((format!("zero-alph-{name}-{w}x{h}"), riff(&[chunk(b"VP8X", &vp8x_payload(0x10, w, h)), chunk(b"ALPH", &a), chunk(b"VP8 ", VP8_DATA)]), (w, h)));
        }
    }
    // real encoder streams with the declared size patched to 16384 x 16384 (sub-image sizes no longer match)
    for (k, ((w, h), p)) in pl.vp8l.iter().enumerate() {
        let mut q = p.clone();
        if q.len() > 5 {
            let v: u32 = (16383) | (16383 << 14) | ((q[4] as u32 >> 4) << 28);
            q[1..5].copy_from_slice(&v.to_le_bytes());
            wcases.push((format!("patched-{k}"), riff(&[chunk(b"VP8L", &q)]), (16384, 16384)));
        }
        wcases.push((format!("orig-{k}"), riff(&[chunk(b"VP8L", p)]), (*w, *h)));
    }
    // synthesised streams, large alphabets (colour cache 11 bits) and many prefix-code groups
    for k in 0..(if opts.tier_thorough { 200 } else { 40 }) {
        let mut r = rng.fork(5000 + k);
        let (w, h) = *r.pick(&[(1u32, 1u32), (7, 5), (64, 64), (300, 200), (4096, 4096), (16384, 16384)]);
        let want = if r.chance(1, 3) { Some(*r.pick(&crate::synth::VIOLATIONS)) } else { None };
        if w as u64 * h as u64 > 1 << 16 {
            // large declared sizes only with streams that end early (a valid stream would be megabytes long)
            let (p, _) = crate::synth::synth_vp8l(&mut r, 16, 16, want);
            let mut q = p.clone();
            let v: u32 = (w - 1) | ((h - 1) << 14) | ((q[4] as u32 >> 4) << 28);
            q[1..5].copy_from_slice(&v.to_le_bytes());
            wcases.push((format!("synth-patched-{k}"), riff(&[chunk(b"VP8L", &q)]), (w, h)));
        } else {
            let (p, _) = crate::synth::synth_vp8l(&mut r, w, h, want);
            wcases.push((format!("synth-{k}"), riff(&[chunk(b"VP8L", &p)]), (w, h)));
        }
    }
    for (k, (name, f, dims)) in wcases.iter().enumerate() {
        if !opts.mine(k as u64) {
            continue;
        }
        emit_webp(out, name, &Sparse::from_bytes(f), false, *dims);
    }
    // the same stream shape at growing sizes: the peak heap must not follow the number of bytes validated
    if opts.mine(3) {
        let dims: &[(u32, u32)] = if opts.tier_thorough { &[(64, 64), (256, 256), (1024, 1024), (4096, 4096), (8192, 8192), (16384, 16384)] } else { &[(64, 64), (256, 256), (1024, 1024), (4096, 4096), (8192, 4096)] };
        emit_webp_scale(out, "webp-scale", &mut rng.fork(77), dims);
    }
    // the number of prefix-code groups is chosen by the input (2.5 bytes of input per group): the peak must not follow it
    let groups: &[u32] = if opts.tier_thorough { &[1, 16, 256, 4096, 65536] } else { &[1, 16, 256, 4096] };
    if opts.mine(4) {
        emit_webp_scale_files(out, "webp-groups-scale", &groups_files(false, groups));
    }
    if opts.mine(5) {
        emit_webp_scale_files(out, "webp-groups-alph-scale", &groups_files(true, groups));
    }
    // the number of animation frames is chosen by the input as well
    if opts.mine(9) {
        let ns: &[u32] = if opts.tier_thorough { &[1, 16, 256, 4096, 20000] } else { &[1, 16, 256, 3000] };
        emit_webp_scale_files(out, "webp-frames-scale", &frames_files(ns));
    }
    for (k, g) in [2u32, 64, 1000].iter().enumerate() {
        if opts.mine(6 + k as u64) {
            let fs = groups_files(k == 1, &[*g]);
            emit_webp(out, &format!("groups-{g}"), &Sparse::from_bytes(&fs[0].1), false, (1, 1));
        }
    }
    // chunk sizes: huge declared (virtual) chunks that are skipped, never read
    for (k, sz) in [(0u64, 1u64 << 20), (1, 1 << 28), (2, (1u64 << 32) - 30)].iter() {
        if !opts.mine(*k) {
            continue;
        }
        let mut s = Sparse::new();
        let vp8x = chunk(b"VP8X", &vp8x_payload(0x20 | 0x08, 4, 3));
        let vp8 = chunk(b"VP8 ", VP8_DATA);
        let riff_len = 4 + vp8x.len() as u64 + 8 + sz + vp8.len() as u64 + 8 + 10;
        s.push(b"RIFF");
        s.push(&(riff_len as u32).to_le_bytes());
        s.push(b"WEBP");
        s.push(&vp8x);
        s.push(b"ICCP");
        s.push(&(*sz as u32).to_le_bytes());
        s.push_zeros(*sz);
        s.push(&vp8);
        s.push(&chunk(b"EXIF", &[0; 10]));
        emit_webp(out, &format!("bigchunk-{k}"), &s, false, (4, 3));
    }
}
