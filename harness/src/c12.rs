//! C12: the async result is independent of the Pending schedule.  A schedule says, for each successive poll call on
//! the underlying reader, whether it returns `Poll::Pending` first (making no progress and waking the task).  The
//! future returned by `sanitize_async_with_config` is driven by a deterministic executor; every schedule with up to
//! k suspensions over every poll index is enumerated, plus periodic and random ones.
use std::cell::RefCell;
use std::future::Future;
use std::io::{self, Read, Seek, SeekFrom, Write};
use std::panic::AssertUnwindSafe;
use std::pin::Pin;
use std::rc::Rc;
use std::task::{Context, Poll};

use futures_util::io::{AsyncRead, AsyncSeek};
use futures_util::task::noop_waker;
use mediasan_common::{AsyncSkip, SeekSkipAdapter, Skip};

use crate::mp4gen::*;
use crate::mp4run::{canon, run_mp4, Cfg, ImplOut, Kind};
use crate::rng::Rng;
use crate::sparse::{SeekReader, Sparse, StrictReader};
use crate::Opts;

#[derive(Default)]
pub struct Ctl {
    /// schedule: entry i decides poll call i; exhausted = ready
    pub sched: Vec<bool>,
    pub polls: usize,
    pub pendings: usize,
    /// a `SeekFrom::Start` directly after a completed `SeekFrom::End(0)` was suspended (the restoring seek of
    /// `poll_stream_len`) - informational; the verdict uses the model's own flag
    pub restore_suspended: bool,
    last_seek_end: bool,
    /// instead of `sched`: every even-numbered poll is suspended (each operation once)
    pub alternate: bool,
}

impl Ctl {
    fn pend(&mut self) -> bool {
        let p = if self.alternate { self.polls % 2 == 0 } else { self.sched.get(self.polls).copied().unwrap_or(false) };
        self.polls += 1;
        if p {
            self.pendings += 1;
        }
        p
    }
}

type Shared = Rc<RefCell<Ctl>>;

fn pending<T>(cx: &mut Context<'_>) -> Poll<T> {
    cx.waker().wake_by_ref();
    Poll::Pending
}

/// `AsyncRead + AsyncSkip` implemented natively (not through `AsyncSeek`)
pub struct PendNative<R> {
    inner: R,
    ctl: Shared,
}

impl<R: Read + Unpin> AsyncRead for PendNative<R> {
    fn poll_read(mut self: Pin<&mut Self>, cx: &mut Context<'_>, buf: &mut [u8]) -> Poll<io::Result<usize>> {
        if self.ctl.borrow_mut().pend() {
            return pending(cx);
        }
        Poll::Ready(self.inner.read(buf))
    }
}

impl<R: Skip + Unpin> AsyncSkip for PendNative<R> {
    fn poll_skip(mut self: Pin<&mut Self>, cx: &mut Context<'_>, amount: u64) -> Poll<io::Result<()>> {
        if self.ctl.borrow_mut().pend() {
            return pending(cx);
        }
        Poll::Ready(self.inner.skip(amount))
    }
    fn poll_stream_position(mut self: Pin<&mut Self>, cx: &mut Context<'_>) -> Poll<io::Result<u64>> {
        if self.ctl.borrow_mut().pend() {
            return pending(cx);
        }
        Poll::Ready(self.inner.stream_position())
    }
    fn poll_stream_len(mut self: Pin<&mut Self>, cx: &mut Context<'_>) -> Poll<io::Result<u64>> {
        if self.ctl.borrow_mut().pend() {
            return pending(cx);
        }
        Poll::Ready(self.inner.stream_len())
    }
}

/// a native AsyncSkip reader over `s` suspended according to `sched` (used by C15's adapter histories)
pub fn pend_native(s: &Sparse, sched: Vec<bool>) -> PendNative<SeekSkipAdapter<SeekReader<'_>>> {
    PendNative { inner: SeekSkipAdapter(SeekReader::new(s)), ctl: Rc::new(RefCell::new(Ctl { sched, ..Default::default() })) }
}

/// `AsyncRead + AsyncSeek` (to be wrapped in `SeekSkipAdapter`)
pub struct PendSeek<'a> {
    inner: SeekReader<'a>,
    ctl: Shared,
}

impl AsyncRead for PendSeek<'_> {
    fn poll_read(mut self: Pin<&mut Self>, cx: &mut Context<'_>, buf: &mut [u8]) -> Poll<io::Result<usize>> {
        if self.ctl.borrow_mut().pend() {
            return pending(cx);
        }
        self.ctl.borrow_mut().last_seek_end = false;
        Poll::Ready(self.inner.read(buf))
    }
}

impl AsyncSeek for PendSeek<'_> {
    fn poll_seek(mut self: Pin<&mut Self>, cx: &mut Context<'_>, pos: SeekFrom) -> Poll<io::Result<u64>> {
        let pend = self.ctl.borrow_mut().pend();
        if pend {
            let mut c = self.ctl.borrow_mut();
            if c.last_seek_end && matches!(pos, SeekFrom::Start(_)) {
                c.restore_suspended = true;
            }
            drop(c);
            return pending(cx);
        }
        self.ctl.borrow_mut().last_seek_end = matches!(pos, SeekFrom::End(0));
        Poll::Ready(self.inner.seek(pos))
    }
}

/// poll a future to completion with a no-op waker; `None` if it is still pending after `max` polls
fn drive<F: Future>(fut: F, max: usize) -> Option<F::Output> {
    let waker = noop_waker();
    let mut cx = Context::from_waker(&waker);
    let mut fut = Box::pin(fut);
    for _ in 0..max {
        if let Poll::Ready(x) = fut.as_mut().poll(&mut cx) {
            return Some(x);
        }
    }
    None
}

fn txt(o: &ImplOut) -> String {
    match o {
        ImplOut::Noop(a, b) => format!("ok:none:{a},{b}"),
        ImplOut::Md(md, a, b) => format!("ok:md{}:{a},{b}", md.len()),
        ImplOut::Parse(k) => format!("err:parse:{k}"),
        ImplOut::Io(k) => format!("err:io:{k}"),
        ImplOut::Panic => "panic".into(),
    }
}

#[derive(Clone, Copy, PartialEq)]
pub enum Rd {
    Native,
    NativeStrict,
    Seek,
}

impl Rd {
    fn name(self) -> &'static str {
        match self {
            Rd::Native => "native",
            Rd::NativeStrict => "nstrict",
            Rd::Seek => "seek",
        }
    }
}

/// (result, polls, pendings, restore_suspended, final position of the underlying reader)
pub fn run_async(s: &Sparse, cfg: &Cfg, rd: Rd, sched: &[bool]) -> (String, usize, usize, bool) {
    let ctl: Shared = Rc::new(RefCell::new(Ctl { sched: sched.to_vec(), ..Default::default() }));
    let c2 = ctl.clone();
    let r = crate::quiet(AssertUnwindSafe(move || {
        let max = sched.len() + 100_000;
        let out = match rd {
            Rd::Native => drive(mp4san::sanitize_async_with_config(PendNative { inner: SeekSkipAdapter(SeekReader::new(s)), ctl: c2 }, cfg.build()), max),
            Rd::NativeStrict => drive(mp4san::sanitize_async_with_config(PendNative { inner: StrictReader::new(s), ctl: c2 }, cfg.build()), max),
            Rd::Seek => drive(mp4san::sanitize_async_with_config(SeekSkipAdapter(PendSeek { inner: SeekReader::new(s), ctl: c2 }), cfg.build()), max),
        };
        match out {
            Some(r) => txt(&canon(r)),
            None => "hang".into(),
        }
    }))
    .unwrap_or("panic".into());
    let c = ctl.borrow();
    (r, c.polls, c.pendings, c.restore_suspended)
}

/// `sanitize_async` over a NATIVE AsyncSkip reader whose every operation is suspended once (first poll Pending, second
/// ready) - used as one more carrier by every MP4 check: the answer may not depend on it (native readers are
/// restartable, so this is independent of the known finding F5, which concerns `SeekSkipAdapter` over `AsyncSeek`)
pub fn run_async_every_op_suspended(s: &Sparse, cfg: &Cfg, strict: bool) -> ImplOut {
    let ctl: Shared = Rc::new(RefCell::new(Ctl { alternate: true, ..Default::default() }));
    let max = 4_000_000;
    let out = if strict {
        drive(mp4san::sanitize_async_with_config(PendNative { inner: StrictReader::new(s), ctl }, cfg.build()), max)
    } else {
        drive(mp4san::sanitize_async_with_config(PendNative { inner: SeekSkipAdapter(SeekReader::new(s)), ctl }, cfg.build()), max)
    };
    match out {
        Some(r) => canon(r),
        None => ImplOut::Panic,
    }
}

/// the same carrier with the input METERED (C10): (result, merged ranges of the bytes the underlying reader delivered)
pub fn run_async_metered_every_op_suspended(s: &Sparse, cfg: &Cfg, strict: bool) -> (ImplOut, String) {
    use crate::c10::Meter;
    let ctl: Shared = Rc::new(RefCell::new(Ctl { alternate: true, ..Default::default() }));
    let max = 4_000_000;
    if strict {
        let mut pn = PendNative { inner: Meter::new(StrictReader::new(s)), ctl };
        let out = drive(mp4san::sanitize_async_with_config(&mut pn, cfg.build()), max);
        (out.map(canon).unwrap_or(ImplOut::Panic), pn.inner.ranges_text())
    } else {
        let mut pn = PendNative { inner: Meter::new(SeekSkipAdapter(SeekReader::new(s))), ctl };
        let out = drive(mp4san::sanitize_async_with_config(&mut pn, cfg.build()), max);
        (out.map(canon).unwrap_or(ImplOut::Panic), pn.inner.ranges_text())
    }
}

fn sched_text(s: &[bool]) -> String {
    if s.is_empty() {
        "-".into()
    } else {
        s.iter().map(|&b| if b { '1' } else { '0' }).collect()
    }
}

pub fn emit<W: Write>(out: &mut W, id: &str, s: &Sparse, cfg: &Cfg, rd: Rd, sched: &[bool]) {
    let kind = if rd == Rd::NativeStrict { Kind::Strict } else { Kind::Seekable };
    let sync = txt(&run_mp4(s, cfg, kind));
    let (a, polls, pendings, rs) = run_async(s, cfg, rd, sched);
    writeln!(
        out,
        "C12 id={id} reader={} {} {} sched={} sync={sync} async={a} polls={polls} pendings={pendings} rs={}",
        rd.name(),
        s.line(),
        cfg.line(),
        sched_text(sched),
        rs as u8
    )
    .unwrap();
}

pub fn replay<W: Write>(line: &str, out: &mut W) {
    let get = |k: &str| line.split(' ').find_map(|t| t.strip_prefix(&format!("{k}=")).map(|s| s.to_string()));
    let s = Sparse::parse_line(&get("len").unwrap(), &get("ext").unwrap());
    let cfg = Cfg { max: get("max").and_then(|x| x.parse().ok()).unwrap_or(1 << 30), cum: get("cum").and_then(|x| x.parse().ok()) };
    let rd = match get("reader").as_deref() {
        Some("native") => Rd::Native,
        Some("nstrict") => Rd::NativeStrict,
        _ => Rd::Seek,
    };
    let sched: Vec<bool> = get("sched").unwrap_or("-".into()).chars().filter(|c| *c == '0' || *c == '1').map(|c| c == '1').collect();
    emit(out, &get("id").unwrap_or("replay".into()), &s, &cfg, rd, &sched);
}

/// inputs that drive every await point: header reads (32/64-bit), payload reads (ftyp, moov), skips (mdat/free,
/// small and > i64::MAX), position and length queries (until-EOF moov / mdat, the end-of-scan check)
pub fn corpus(rng: &mut Rng) -> Vec<(String, Sparse, Cfg)> {
    let mut v = crate::c13::mp4_corpus(rng);
    let ftyp = bx(b"ftyp", &ftyp_payload(rng, true, 1, 0), Enc::S32);
    let t = rand_trak(rng, 1, false);
    let moovp = moov_payload(rng, &[t], false);
    // a skip amount above i64::MAX (the two-step branch of SeekSkipAdapter::poll_skip)
    let mut huge = vec![0, 0, 0, 1];
    huge.extend_from_slice(b"mdat");
    huge.extend_from_slice(&(u64::MAX - 40).to_be_bytes());
    v.push(("huge-skip".into(), Sparse::from_bytes(&[ftyp.clone(), bx(b"moov", &moovp, Enc::S32), huge].concat()), Cfg::default()));
    // mdat first, moov until EOF, nothing else
    v.push(("mdat-eof-moov".into(), Sparse::from_bytes(&[ftyp.clone(), bx(b"mdat", &[9; 40], Enc::S32), bx(b"moov", &moovp, Enc::Eof)].concat()), Cfg::default()));
    // an until-EOF mdat in the middle (swallows the moov: MissingRequiredBox) and a free until EOF
    v.push(("eof-mdat-mid".into(), Sparse::from_bytes(&[ftyp.clone(), bx(b"mdat", &[1; 5], Enc::Eof), bx(b"moov", &moovp, Enc::S32)].concat()), Cfg::default()));
    v.push(("eof-free".into(), Sparse::from_bytes(&[ftyp.clone(), bx(b"moov", &moovp, Enc::S32), bx(b"mdat", &[1; 5], Enc::S32), bx(b"free", &[0; 50], Enc::Eof)].concat()), Cfg::default()));
    // a box running past the end (seek-based: caught by the end-of-scan length check; strict: by the skip)
    let mut past = bx(b"mdat", &[3; 20], Enc::S32);
    past[3] += 9;
    v.push(("past-end".into(), Sparse::from_bytes(&[ftyp.clone(), bx(b"moov", &moovp, Enc::S32), past].concat()), Cfg::default()));
    // header fields that straddle a refill of the sanitizer's 32-byte buffer: a `free` box of 8 + k bytes moves the next
    // header (64-bit form: size, name and extended size are three separate reads) through every alignment, so that for
    // some k each field is split between buffered bytes and a suspended read of the rest
    for k in 0..8usize {
        let free = bx(b"free", &vec![0u8; k], Enc::S32);
        v.push((format!("straddle-a{k}"), Sparse::from_bytes(&[ftyp.clone(), free.clone(), bx(b"mdat", &[7; 5], Enc::S64), bx(b"moov", &moovp, Enc::S32)].concat()), Cfg::default()));
        if k % 2 == 1 {
            v.push((format!("straddle-b{k}"), Sparse::from_bytes(&[ftyp.clone(), bx(b"moov", &moovp, Enc::S64), free, bx(b"mdat", &[7; 9], Enc::S32), bx(b"skip", &[0; 3], Enc::S64)].concat()), Cfg::default()));
        }
    }
    v
}

pub fn run<W: Write>(opts: &Opts, out: &mut W) {
    let mut rng = Rng::new(opts.seed ^ 0xC12);
    let corpus = corpus(&mut rng);
    let mut case = 0u64;
    for (name, s, cfg) in &corpus {
        for rd in [Rd::Native, Rd::NativeStrict, Rd::Seek] {
            let (_, n, _, _) = run_async(s, cfg, rd, &[]);
            let mut scheds: Vec<Vec<bool>> = vec![vec![]];
            // every single suspension (one past the end too: must be inert)
            for k in 0..=n {
                let mut v = vec![false; k + 1];
                v[k] = true;
                scheds.push(v);
            }
            // every pair (suspending shifts later indices by one, so run to n + 2)
            let pair_limit = if opts.tier_thorough { 400 } else { 48 };
            let m = (n + 2).min(pair_limit);
            for a in 0..m {
                for b in a + 1..m {
                    let mut v = vec![false; b + 1];
                    v[a] = true;
                    v[b] = true;
                    scheds.push(v);
                }
            }
            if opts.tier_thorough {
                // every triple over the first polls
                let m = (n + 3).min(40);
                for a in 0..m {
                    for b in a + 1..m {
                        for c in b + 1..m {
                            let mut v = vec![false; c + 1];
                            v[a] = true;
                            v[b] = true;
                            v[c] = true;
                            scheds.push(v);
                        }
                    }
                }
            }
            // periodic: every poll suspended once / twice / every third poll; everything suspended for a while
            scheds.push((0..4 * n + 8).map(|i| i % 2 == 0).collect());
            scheds.push((0..6 * n + 12).map(|i| i % 3 != 2).collect());
            scheds.push((0..3 * n).map(|i| i % 3 == 1).collect());
            scheds.push(vec![true; 50]);
            // random densities
            let nr = if opts.tier_thorough { 400 } else { 40 };
            let mut r = rng.fork(case);
            for _ in 0..nr {
                let den = 1 + r.below(6);
                let len = r.below(3 * n as u64 + 10) as usize;
                scheds.push((0..len).map(|_| r.below(8) < den).collect());
            }
            for (i, sc) in scheds.iter().enumerate() {
                case += 1;
                if !opts.mine(case) {
                    continue;
                }
                emit(out, &format!("{name}-{}-{i}", rd.name()), s, cfg, rd, sc);
            }
        }
    }
}
