//! C14: configuration options change exactly what they document.  Each case carries the results of the same (or a
//! minimally rewritten) input under a lattice of configurations.
use std::io::Write;

use crate::c06::{payloads, run_webp};
use crate::mp4gen::*;
use crate::mp4run::{run_mp4, Cfg, ImplOut, Kind};
use crate::rng::Rng;
use crate::sparse::Sparse;
use crate::webprun::*;
use crate::Opts;

fn txt(o: &ImplOut) -> String {
    match o {
        ImplOut::Noop(a, b) => format!("ok:none:{a},{b}"),
        ImplOut::Md(md, a, b) => format!("ok:md:{a},{b}:{}", crate::mp4run::md_text(md)),
        ImplOut::Parse(k) => format!("err:parse:{k}"),
        ImplOut::Io(k) => format!("err:io:{k}"),
        ImplOut::Panic => "panic".into(),
    }
}

/// max_metadata_size lattice around the moov payload sizes of the input
pub fn emit_limit<W: Write>(out: &mut W, id: &str, s: &Sparse, moov_sizes: &[u64], kind: Kind) {
    let mut limits: Vec<u64> = vec![0, 1, 1 << 30, u64::MAX];
    for &m in moov_sizes {
        limits.extend_from_slice(&[m.saturating_sub(1), m, m + 1]);
    }
    // a corrupted size field may declare a gigantic moov: with a limit above it the sanitizer would really allocate it
    // (allocation failure aborts are outside the model), so such inputs only get the small limits
    let mut max_decl = 0u64;
    let mut pos = 0u64;
    while pos + 8 <= s.len {
        let mut h = [0u8; 16];
        s.read_at(pos, &mut h);
        let sz32 = u32::from_be_bytes([h[0], h[1], h[2], h[3]]) as u64;
        let size = if sz32 == 1 { u64::from_be_bytes([h[8], h[9], h[10], h[11], h[12], h[13], h[14], h[15]]) } else if sz32 == 0 { s.len - pos } else { sz32 };
        if &h[4..8] == b"moov" {
            max_decl = max_decl.max(size);
        }
        if size < 8 {
            break;
        }
        pos = pos.saturating_add(size);
    }
    if max_decl > 1 << 24 {
        limits.retain(|&l| l <= 1 << 24);
    }
    limits.sort();
    limits.dedup();
    let rs: Vec<String> = limits.iter().map(|&l| format!("{l}={}", txt(&run_mp4(s, &Cfg { max: l, cum: None }, kind)))).collect();
    writeln!(out, "C14 id={id} opt=limit {} kind={} results={}", s.line(), kind.name(), rs.join(";")).unwrap();
}

/// cumulative_mdat_box_size lattice; `eof_mdat` = offset of the until-EOF mdat header, if the input has one
pub fn emit_cum<W: Write>(out: &mut W, id: &str, s: &Sparse, eof_mdats: &[u64], exact: u32, kind: Kind) {
    let eof_mdat = eof_mdats.first().copied();
    let mut ts: Vec<Option<u32>> = vec![None];
    for t in [0u32, 1, 2, 7, 8, 9, exact.saturating_sub(1), exact, exact + 1, exact + 40, 100_000, u32::MAX] {
        ts.push(Some(t));
    }
    let mut rs = vec![];
    for t in &ts {
        let with_cfg = run_mp4(s, &Cfg { max: 1 << 30, cum: *t }, kind);
        // the same input with the size field of the until-EOF mdat rewritten to t, cumulative size unset
        // (every until-EOF mdat: the option applies to each one the scan meets)
        // With several such boxes the comparison is only meaningful for the size that keeps the scan aligned (`exact`):
        // for any other size the later headers are reached off by some bytes, as payload, and what was rewritten there
        // is no longer a size field - those settings are compared with the model only.
        let rewritten = match (t, eof_mdat) {
            (Some(t), Some(_)) if eof_mdats.len() > 1 && *t != exact => None,
            (Some(t), Some(_)) => {
                let mut s2 = s.clone();
                for off in eof_mdats {
                    for (i, b) in t.to_be_bytes().iter().enumerate() {
                        s2.set_byte(off + i as u64, *b);
                    }
                }
                Some(run_mp4(&s2, &Cfg { max: 1 << 30, cum: None }, kind))
            }
            _ => None,
        };
        rs.push(format!(
            "{}={}|{}",
            t.map(|x| x.to_string()).unwrap_or("none".into()),
            txt(&with_cfg),
            rewritten.map(|r| txt(&r)).unwrap_or("-".into())
        ));
    }
    writeln!(
        out,
        "C14 id={id} opt=cum {} kind={} eofmdat={} eofall={} results={}",
        s.line(),
        kind.name(),
        eof_mdat.map(|x| x.to_string()).unwrap_or("none".into()),
        if eof_mdats.is_empty() { "none".to_string() } else { eof_mdats.iter().map(|x| x.to_string()).collect::<Vec<_>>().join(".") },
        rs.join(";")
    )
    .unwrap();
}

pub fn emit_unknown<W: Write>(out: &mut W, id: &str, s: &Sparse, kind: Kind) {
    let a = run_webp(s, false, kind);
    let b = run_webp(s, true, kind);
    writeln!(out, "C14 id={id} opt=unknown {} kind={} deny={} allow={}", s.line(), kind.name(), a.text(), b.text()).unwrap();
}

pub fn replay<W: Write>(line: &str, out: &mut W) {
    let get = |k: &str| line.split(' ').find_map(|t| t.strip_prefix(&format!("{k}=")).map(|s| s.to_string()));
    let s = Sparse::parse_line(&get("len").unwrap(), &get("ext").unwrap());
    let kind = if get("kind").as_deref() == Some("strict") { Kind::Strict } else { Kind::Seekable };
    let id = get("id").unwrap_or("replay".into());
    match get("opt").as_deref() {
        Some("limit") => {
            // recover the lattice from the stored results
            let sizes: Vec<u64> = get("results").map(|r| r.split(';').filter_map(|t| t.split('=').next().and_then(|x| x.parse().ok())).collect()).unwrap_or_default();
            emit_limit(out, &id, &s, &sizes, kind)
        }
        Some("cum") => {
            let eof: Vec<u64> = match get("eofall").as_deref() {
                Some("none") => vec![],
                Some(x) => x.split('.').filter_map(|t| t.parse().ok()).collect(),
                None => match get("eofmdat").as_deref() { Some("none") | None => vec![], Some(x) => x.parse().ok().into_iter().collect() },
            };
            emit_cum(out, &id, &s, &eof, 20, kind)
        }
        Some("unknown") => emit_unknown(out, &id, &s, kind),
        _ => panic!("bad replay line"),
    }
}

pub fn run<W: Write>(opts: &Opts, out: &mut W) {
    let mut rng = Rng::new(opts.seed ^ 0xC14);
    let n = if opts.tier_thorough { 6000 } else { 600 };
    for i in 0..n {
        if !opts.mine(i) {
            continue;
        }
        let mut r = rng.fork(i);
        let kind = if i % 2 == 0 { Kind::Seekable } else { Kind::Strict };
        match i % 3 {
            0 => {
                // limit: files with one or two moov boxes (sizes known), valid and broken
                // the limit is about moov payloads only: a seventh of the files carry an ftyp LARGER than their moov boxes
                // (many compatible brands), and its size joins the lattice
                let big_ftyp = i % 21 == 0;
                let ftyp_p = ftyp_payload(&mut r, true, if big_ftyp { 120 } else { 2 }, 0);
                let ftyp_len = ftyp_p.len() as u64;
                let ftyp = bx(b"ftyp", &ftyp_p, Enc::S32);
                let nm = 1 + r.below(2) as usize;
                let mut moovs = vec![];
                for _ in 0..nm {
                    let nt = 1 + r.below(2) as usize;
                    let traks: Vec<TrakSpec> = (0..nt).map(|_| { let ne = r.below(4) as usize; rand_trak(&mut r, ne, true) }).collect();
                    let junk = r.chance(1, 2);
                    moovs.push(moov_payload(&mut r, &traks, junk));
                }
                let mdat = bx(b"mdat", &r.bytes(5), Enc::S32);
                let mut parts = vec![ftyp];
                let order = r.below(6);
                let mut gap_sizes: Vec<u64> = vec![];
                match order {
                    4 | 5 => {
                        // skippable boxes before the media: the rewritten metadata is padded or the offsets displaced; the
                        // limit must not influence that decision (sizes around the gap join the lattice below)
                        let g = if order == 4 { r.below(40) } else { r.below(3 * moovs[0].len() as u64 + 40) };
                        parts.push(bx(if r.chance(1, 2) { b"free" } else { b"skip" }, &vec![0; g as usize], Enc::S32));
                        parts.push(mdat);
                        for m in &moovs { parts.push(bx(b"moov", m, Enc::S32)); }
                        gap_sizes.extend_from_slice(&[g, g + 8, g.saturating_sub(8)]);
                    }
                    0 => { parts.push(mdat); for m in &moovs { parts.push(bx(b"moov", m, Enc::S32)); } }
                    1 => { for m in &moovs { parts.push(bx(b"moov", m, Enc::S32)); } parts.push(mdat); }
                    2 => { parts.push(bx(b"moov", &moovs[0], Enc::S32)); parts.push(mdat); for m in &moovs[1..] { parts.push(bx(b"moov", m, Enc::S64)); } }
                    _ => { parts.push(mdat); parts.push(bx(b"moov", &moovs[0], Enc::Eof)); }
                }
                let mut bytes = parts.concat();
                match r.below(6) {
                    0 => { let p = r.below(bytes.len() as u64) as usize; bytes[p] ^= 1 << r.below(8); }
                    1 => { let cut = r.below(20) as usize; let l = bytes.len(); bytes.truncate(l - cut.min(l)); }
                    2 => bytes.extend(bx(b"abcd", &[1], Enc::S32)),
                    _ => {}
                }
                if i % 30 == 3 {
                    // no moov at all: whatever the limit, the answer is the same error
                    bytes = [bx(b"ftyp", &ftyp_p, Enc::S32), bx(b"mdat", &r.bytes(5), Enc::S32)].concat();
                }
                let mut sizes: Vec<u64> = moovs.iter().map(|m| m.len() as u64).collect();
                sizes.extend(gap_sizes);
                sizes.extend_from_slice(&[ftyp_len, 8, 12]);
                emit_limit(out, &format!("limit-{i}"), &Sparse::from_bytes(&bytes), &sizes, kind);
            }
            1 => {
                // cumulative size: until-EOF mdat in various positions (or absent)
                let ftyp = bx(b"ftyp", &ftyp_payload(&mut r, true, 2, 0), Enc::S32);
                let t = rand_trak(&mut r, 2, false);
                let moov = bx(b"moov", &moov_payload(&mut r, &[t], false), Enc::S32);
                let plen = r.below(30) as usize;
                let payload = r.bytes(plen);
                let exact = 8 + plen as u32;
                let tail = bx(b"free", &[0; 3], Enc::S32);
                let m1 = bx(b"mdat", &payload, Enc::Eof);
                let (bytes, eof): (Vec<u8>, Vec<u64>) = match r.below(8) {
                    0 => ([ftyp.clone(), moov.clone(), m1.clone()].concat(), vec![(ftyp.len() + moov.len()) as u64]),
                    1 => ([ftyp.clone(), m1.clone(), moov.clone()].concat(), vec![ftyp.len() as u64]),
                    2 => ([ftyp.clone(), m1.clone(), tail.clone(), moov.clone()].concat(), vec![ftyp.len() as u64]),
                    3 => ([ftyp.clone(), bx(b"mdat", &payload, Enc::S32), moov.clone()].concat(), vec![]),
                    4 => ([ftyp.clone(), moov.clone(), bx(b"mdat", &payload, Enc::S64)].concat(), vec![]),
                    // several until-EOF mdat boxes (each is as long as the option says): the option applies to every one
                    5 => ([ftyp.clone(), m1.clone(), m1.clone(), moov.clone()].concat(), vec![ftyp.len() as u64, (ftyp.len() + m1.len()) as u64]),
                    6 => ([ftyp.clone(), m1.clone(), tail.clone(), m1.clone(), m1.clone(), moov.clone()].concat(),
                          vec![ftyp.len() as u64, (ftyp.len() + m1.len() + tail.len()) as u64, (ftyp.len() + 2 * m1.len() + tail.len()) as u64]),
                    // an until-EOF box that is not an mdat: the option must not touch it
                    _ => ([ftyp.clone(), bx(b"mdat", &payload, Enc::S32), bx(b"moov", &moov[8..], Enc::Eof)].concat(), vec![]),
                };
                emit_cum(out, &format!("cum-{i}"), &Sparse::from_bytes(&bytes), &eof, exact, kind);
            }
            _ => {}
        }
    }
    // allow_unknown_chunks
    let pl = payloads(&mut rng.fork(9));
    for i in 0..n {
        if !opts.mine(i) {
            continue;
        }
        let mut r = rng.fork(70000 + i);
        let flags = if r.chance(1, 2) { 0 } else { (r.below(32) as u8) << 1 };
        let mut chunks = vec![];
        let simple = r.chance(1, 3);
        if simple {
            chunks.push(if r.chance(1, 2) { chunk(b"VP8 ", VP8_DATA) } else { chunk(b"VP8L", &pl.vp8l_for(2, 2)) });
        } else {
            chunks.push(chunk(b"VP8X", &vp8x_payload(flags, 2, 2)));
            if flags & 0x20 != 0 { chunks.push(chunk(b"ICCP", &r.bytes(2))); }
            if flags & 0x02 != 0 {
                chunks.push(chunk(b"ANIM", &[0; 6]));
                let mut p = vec![0u8; 6];
                p.extend_from_slice(&[1, 0, 0, 1, 0, 0, 9, 0, 0, 0]);
                p.extend(chunk(b"VP8 ", VP8_DATA));
                if r.chance(1, 2) { p.extend(chunk(b"unkn", &r.bytes(3))); }
                if r.chance(1, 2) {
                    // a KNOWN chunk after the frame data: never admitted, whatever the option says
                    let name: &[u8; 4] = *r.pick(&[b"ALPH", b"ANMF", b"ANIM", b"EXIF", b"ICCP", b"VP8 ", b"VP8L", b"VP8X", b"XMP "]);
                    p.extend(chunk(name, &r.bytes(3)));
                }
                chunks.push(chunk(b"ANMF", &p));
            } else {
                if flags & 0x10 != 0 { chunks.push(chunk(b"ALPH", &pl.alph_for(2, 2))); }
                chunks.push(chunk(b"VP8 ", VP8_DATA));
            }
            if flags & 0x08 != 0 { chunks.push(chunk(b"EXIF", &r.bytes(2))); }
            if flags & 0x04 != 0 { chunks.push(chunk(b"XMP ", &r.bytes(4))); }
        }
        // trailing chunks: unknown ones, and sometimes a known one out of place
        for _ in 0..r.below(4) {
            chunks.push(match r.below(8) {
                0 | 1 => {
                    let name: &[u8; 4] = *r.pick(&[b"ALPH", b"ANMF", b"ANIM", b"EXIF", b"ICCP", b"VP8 ", b"VP8L", b"VP8X", b"XMP "]);
                    let n = r.below(20) as usize;
                    chunk(name, &r.bytes(n))
                }
                2 => chunk(b"ANMF", &[0; 16]),
                3 => chunk(b"RIFF", &r.bytes(2)),
                _ => {
                    let nlen = r.below(5) as usize;
                    let c0 = b'a' + r.below(26) as u8;
                    chunk(&[c0, b'b', b'c', b'd'], &r.bytes(nlen))
                }
            });
        }
        // an unknown chunk in the middle of the known sequence
        if r.chance(1, 8) && chunks.len() > 1 {
            let at = 1 + r.below(chunks.len() as u64 - 1) as usize;
            chunks.insert(at, chunk(b"unkn", &[1, 2]));
        }
        let f = riff(&chunks);
        emit_unknown(out, &format!("unk-{i}"), &Sparse::from_bytes(&f), if i % 2 == 0 { Kind::Seekable } else { Kind::Strict });
    }
}
