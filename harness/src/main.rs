//! Correspondence harness: generates cases, runs the real crates (built from /repo's working
//! tree) in-process and prints one protocol line per case (input + the implementation's
//! canonicalised output) for the Lean driver.  See /verif/DESIGN.md section 5.
mod c17;
mod c20;
mod rng;

use std::io::Write;

pub struct Opts {
    pub tier_thorough: bool,
    pub seed: u64,
    pub replay: Option<String>,
}

pub fn hex(b: &[u8]) -> String {
    if b.is_empty() {
        return "-".into();
    }
    let mut s = String::with_capacity(b.len() * 2);
    for x in b {
        s.push_str(&format!("{:02x}", x));
    }
    s
}

fn main() {
    let args: Vec<String> = std::env::args().collect();
    if args.len() < 2 {
        eprintln!("usage: verif-harness <Cxx> [--tier quick|thorough] [--seed N] [--replay LINE]");
        std::process::exit(2);
    }
    let prop = args[1].clone();
    let mut opts = Opts { tier_thorough: false, seed: 0, replay: None };
    let mut i = 2;
    while i < args.len() {
        match args[i].as_str() {
            "--tier" => {
                opts.tier_thorough = args[i + 1] == "thorough";
                i += 2;
            }
            "--seed" => {
                opts.seed = args[i + 1].parse().unwrap_or(0);
                i += 2;
            }
            "--replay" => {
                opts.replay = Some(args[i + 1].clone());
                i += 2;
            }
            other => {
                eprintln!("unknown argument {other}");
                std::process::exit(2);
            }
        }
    }
    let stdout = std::io::stdout();
    let mut out = std::io::BufWriter::with_capacity(1 << 20, stdout.lock());
    if let Some(line) = opts.replay.clone() {
        match prop.as_str() {
            "C17" => c17::replay(&line, &mut out),
            "C20" => c20::replay(&line, &mut out),
            _ => {
                eprintln!("no replay for {prop}");
                std::process::exit(2);
            }
        }
        out.flush().unwrap();
        return;
    }
    match prop.as_str() {
        "C17" => c17::run(&opts, &mut out),
        "C20" => c20::run(&opts, &mut out),
        _ => {
            eprintln!("unknown property {prop}");
            std::process::exit(2);
        }
    }
    out.flush().unwrap();
}
