//! Correspondence harness: generates cases, runs the real crates (built from /repo's working
//! tree) in-process and prints one protocol line per case (input + the implementation's
//! canonicalised output) for the Lean driver.  See /verif/DESIGN.md section 5.
mod c06;
mod c07;
mod c09;
mod c10;
mod c11;
mod c12;
mod c13;
mod c14;
mod c15;
mod c16;
mod c17;
mod c18;
mod c19;
mod c20;
mod mp4gen;
mod mp4props;
mod mp4run;
mod refdec;
mod rng;
mod sparse;
mod synth;
mod webprun;

use std::alloc::{GlobalAlloc, Layout, System};
use std::io::Write;
use std::sync::atomic::{AtomicBool, AtomicUsize, Ordering};

/// counting global allocator (C10): current and peak live heap bytes
pub struct Counting;
pub static HEAP_CUR: AtomicUsize = AtomicUsize::new(0);
pub static HEAP_PEAK: AtomicUsize = AtomicUsize::new(0);

fn heap_add(n: usize) {
    let c = HEAP_CUR.fetch_add(n, Ordering::Relaxed) + n;
    HEAP_PEAK.fetch_max(c, Ordering::Relaxed);
}

unsafe impl GlobalAlloc for Counting {
    unsafe fn alloc(&self, l: Layout) -> *mut u8 {
        let p = System.alloc(l);
        if !p.is_null() {
            heap_add(l.size());
        }
        p
    }
    unsafe fn alloc_zeroed(&self, l: Layout) -> *mut u8 {
        let p = System.alloc_zeroed(l);
        if !p.is_null() {
            heap_add(l.size());
        }
        p
    }
    unsafe fn dealloc(&self, p: *mut u8, l: Layout) {
        System.dealloc(p, l);
        HEAP_CUR.fetch_sub(l.size(), Ordering::Relaxed);
    }
    unsafe fn realloc(&self, p: *mut u8, l: Layout, new_size: usize) -> *mut u8 {
        let q = System.realloc(p, l, new_size);
        if !q.is_null() {
            if new_size >= l.size() {
                heap_add(new_size - l.size());
            } else {
                HEAP_CUR.fetch_sub(l.size() - new_size, Ordering::Relaxed);
            }
        }
        q
    }
}

#[global_allocator]
static ALLOC: Counting = Counting;

/// run `f` and return the peak growth of the live heap while it ran (single-threaded harness)
pub fn measure_heap<T, F: FnOnce() -> T>(f: F) -> (T, usize) {
    let base = HEAP_CUR.load(Ordering::Relaxed);
    HEAP_PEAK.store(base, Ordering::Relaxed);
    let r = f();
    let peak = HEAP_PEAK.load(Ordering::Relaxed);
    (r, peak.saturating_sub(base))
}

/// set while the code under test runs inside catch_unwind: its panics are results, not harness bugs
pub static QUIET: AtomicBool = AtomicBool::new(false);

pub fn install_panic_hook() {
    let default = std::panic::take_hook();
    std::panic::set_hook(Box::new(move |info| {
        if !QUIET.load(Ordering::SeqCst) {
            default(info);
        }
    }));
}

pub fn quiet<T, F: FnOnce() -> T + std::panic::UnwindSafe>(f: F) -> std::thread::Result<T> {
    QUIET.store(std::env::var_os("VERIF_DEBUG").is_none(), Ordering::SeqCst);
    let r = std::panic::catch_unwind(f);
    QUIET.store(false, Ordering::SeqCst);
    r
}

pub struct Opts {
    pub tier_thorough: bool,
    pub seed: u64,
    pub replay: Option<String>,
    /// (index, count): this process handles the cases whose index is congruent to `index`
    pub shard: (u64, u64),
}

impl Opts {
    pub fn mine(&self, idx: u64) -> bool {
        idx % self.shard.1 == self.shard.0
    }
}

pub fn unhex(s: &str) -> Vec<u8> {
    if s == "-" {
        return vec![];
    }
    (0..s.len() / 2).map(|i| u8::from_str_radix(&s[2 * i..2 * i + 2], 16).unwrap()).collect()
}

pub fn hex(b: &[u8]) -> String {
    if b.is_empty() {
        return "-".into();
    }
    let mut s = String::with_capacity(b.len() * 2);
    for x in b {
        s.push_str(&format!("{:02x}", x));
    }
    s
}

fn main() {
    let args: Vec<String> = std::env::args().collect();
    if args.len() < 2 {
        eprintln!("usage: verif-harness <Cxx> [--tier quick|thorough] [--seed N] [--replay LINE]");
        std::process::exit(2);
    }
    let prop = args[1].clone();
    let mut opts = Opts { tier_thorough: false, seed: 0, replay: None, shard: (0, 1) };
    let mut i = 2;
    while i < args.len() {
        match args[i].as_str() {
            "--tier" => {
                opts.tier_thorough = args[i + 1] == "thorough";
                i += 2;
            }
            "--seed" => {
                opts.seed = args[i + 1].parse().unwrap_or(0);
                i += 2;
            }
            "--shard" => {
                let (a, b) = args[i + 1].split_once('/').unwrap();
                opts.shard = (a.parse().unwrap(), b.parse().unwrap());
                i += 2;
            }
            "--replay" => {
                opts.replay = Some(args[i + 1].clone());
                i += 2;
            }
            other => {
                eprintln!("unknown argument {other}");
                std::process::exit(2);
            }
        }
    }
    install_panic_hook();
    let stdout = std::io::stdout();
    let mut out = std::io::BufWriter::with_capacity(1 << 20, stdout.lock());
    let replay_lines: Vec<String> = match &opts.replay {
        Some(l) if l.starts_with('@') => std::fs::read_to_string(&l[1..])
            .expect("replay file")
            .lines()
            .filter(|x| !x.trim().is_empty() && !x.starts_with("//"))
            .map(|x| x.to_string())
            .collect(),
        Some(l) => vec![l.clone()],
        None => vec![],
    };
    for line in replay_lines.iter() {
        let line = line.clone();
        match prop.as_str() {
            "C06" => c06::replay(&prop, &line, &mut out),
            "C07" | "C08" => c07::replay(&prop, &line, &mut out),
            "C11" => c11::replay(&line, &mut out),
            "C09" => c09::replay(&line, &mut out),
            "C10" => c10::replay(&line, &mut out),
            "C12" => c12::replay(&line, &mut out),
            "C13" => c13::replay(&line, &mut out),
            "C14" => c14::replay(&line, &mut out),
            "C15" => c15::replay(&line, &mut out),
            "C16" => c16::replay(&line, &mut out),
            "C17" => c17::replay(&line, &mut out),
            "C18" => c18::replay(&line, &mut out),
            "C19" => c19::replay(&line, &mut out),
            "C20" => c20::replay(&line, &mut out),
            "C01" | "C02" | "C03" | "C04" | "C05" => mp4props::replay(&prop, &line, &mut out),
            _ => {
                eprintln!("no replay for {prop}");
                std::process::exit(2);
            }
        }
    }
    if opts.replay.is_some() {
        out.flush().unwrap();
        return;
    }
    match prop.as_str() {
        "C06" => c06::run(&prop, &opts, &mut out),
        "C07" | "C08" => c07::run(&prop, &opts, &mut out),
        "exp-alpha-frames" => c07::alpha_frames("C08", &opts, &mut out, &mut rng::Rng::new(opts.seed)),
        "C11" => c11::run(&opts, &mut out),
        "C09" => c09::run(&opts, &mut out),
        "C10" => c10::run(&opts, &mut out),
        "C12" => c12::run(&opts, &mut out),
        "C13" => c13::run(&opts, &mut out),
        "C14" => c14::run(&opts, &mut out),
        "C15" => c15::run(&opts, &mut out),
        "C16" => c16::run(&opts, &mut out),
        "C17" => c17::run(&opts, &mut out),
        "C18" => c18::run(&opts, &mut out),
        "C19" => c19::run(&opts, &mut out),
        "C20" => c20::run(&opts, &mut out),
        "C01" | "C02" | "C03" | "C04" | "C05" => mp4props::run(&prop, &opts, &mut out),
        _ => {
            eprintln!("unknown property {prop}");
            std::process::exit(2);
        }
    }
    out.flush().unwrap();
}
