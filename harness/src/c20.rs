//! C20: checked_add_signed for every instance, against i128/wide arithmetic (the oracle lives in
//! the Lean driver as integer arithmetic; the u16 exhaustive sweep of the thorough tier is judged
//! here against i64 arithmetic and only summarised, 2^32 lines being too many to ship).
use std::io::Write;

use mediasan_common::util::checked_add_signed;

use crate::mp4gen::{bx, ftyp_payload, moov_payload, Enc, TrakSpec};
use crate::mp4run::{run_mp4, Cfg, ImplOut, Kind};
use crate::rng::Rng;
use crate::sparse::Sparse;
use crate::Opts;

fn line<W: Write>(out: &mut W, w: u32, l: u128, r: i128, res: Option<u128>) {
    let s = match res {
        None => "none".to_string(),
        Some(v) => v.to_string(),
    };
    writeln!(out, "C20 w={w} l={l} r={r} impl={s}").unwrap();
}

macro_rules! one {
    ($out:expr, $w:expr, $u:ty, $i:ty, $l:expr, $r:expr) => {{
        let l: $u = $l;
        let r: $i = $r;
        line($out, $w, l as u128, r as i128, checked_add_signed(l, r).map(|x| x as u128));
    }};
}

macro_rules! lattice {
    ($out:expr, $rng:expr, $w:expr, $u:ty, $i:ty, $n_random:expr) => {{
        let ls: [$u; 7] = [0, 1, <$u>::MAX / 2, <$u>::MAX / 2 + 1, <$u>::MAX - 1, <$u>::MAX, 2];
        let rs: [$i; 9] = [<$i>::MIN, <$i>::MIN + 1, -2, -1, 0, 1, 2, <$i>::MAX - 1, <$i>::MAX];
        for &l in &ls {
            for &r in &rs {
                one!($out, $w, $u, $i, l, r);
            }
        }
        for k in 0..$n_random {
            // random pairs, half of them steered to the representability boundary
            let l = $rng.u128() as $u;
            let r = if k % 2 == 0 {
                $rng.u128() as $i
            } else {
                // choose r so that l + r lands within +-2 of 0 or of MAX
                let target: i128 = if $rng.chance(1, 2) { 0 } else { <$u>::MAX as i128 };
                let want = target.wrapping_sub(l as i128).wrapping_add($rng.range(0, 4) as i128 - 2);
                want as $i
            };
            one!($out, $w, $u, $i, l, r);
        }
    }};
}


/// The two CALL SITES of the helper in the chunk-offset rewrite, observed through `mp4san::sanitize`: a file with one
/// track whose single stco (u32) or co64 (u64) entry is `l`, laid out so that the media moves by a known `r` - forward by
/// the length of the movie box (`ftyp mdat moov`), or backward by `k` = 1..7 bytes (`ftyp free mdat moov` with a gap too
/// small to pad).  The rewritten entry, or the refusal, must be what checked addition at the ENTRY's width gives: the
/// line goes to the same driver function as the direct calls.  `back` = 0 for the forward layout, else `k`.
fn site_file(co64: bool, back: u64, l: u64) -> (Vec<u8>, usize) {
    let mut rng = Rng::new(20);
    let ftyp = bx(b"ftyp", &ftyp_payload(&mut rng, true, 1, 0), Enc::S32);
    let t = TrakSpec { co64, entries: vec![l], junk: 0, enc: [Enc::S32; 5], dup: 0 };
    let moov = bx(b"moov", &moov_payload(&mut rng, &[t], false), Enc::S32);
    let mdat = bx(b"mdat", &[0xaa; 24], Enc::S32);
    let mut f = ftyp;
    if back != 0 {
        f.extend(bx(b"free", &vec![0u8; moov.len() + back as usize - 8], Enc::S32));
    }
    f.extend(mdat);
    f.extend(&moov);
    (f, moov.len())
}

fn site_run(co64: bool, back: u64, l: u64) -> Result<(i128, Option<u128>), String> {
    let (f, _) = site_file(co64, back, l);
    let s = Sparse::from_bytes(&f);
    let kind = if l % 2 == 0 { Kind::Seekable } else { Kind::Strict };
    match run_mp4(&s, &Cfg::default(), kind) {
        ImplOut::Md(md, off, _) => {
            let n = if co64 { 8 } else { 4 };
            let tail = &md[md.len() - n..];
            let v = tail.iter().fold(0u128, |a, &b| a << 8 | b as u128);
            Ok((md.len() as i128 - off as i128, Some(v)))
        }
        ImplOut::Parse("InvalidInput") => Ok((0, None)),
        ImplOut::Parse(k) => Err(format!("err-parse-{k}")),
        ImplOut::Io(k) => Err(format!("err-io-{k}")),
        ImplOut::Noop(..) => Err("err-noop".into()),
        ImplOut::Panic => Err("err-panic".into()),
    }
}

fn site_case<W: Write>(out: &mut W, co64: bool, back: u64, l: u64) {
    let w = if co64 { 64 } else { 32 };
    // the displacement of this layout, from a run whose entry is far from both ends
    let r = match site_run(co64, back, 1 << 20) {
        Ok((r, Some(_))) => r,
        other => {
            writeln!(out, "C20 w={w} l={l} r=0 impl=err-baseline-{other:?} site={}:{back}", if co64 { "co64" } else { "stco" }).unwrap();
            return;
        }
    };
    let imp = match site_run(co64, back, l) {
        Ok((_, Some(v))) => v.to_string(),
        Ok((_, None)) => "none".to_string(),
        Err(e) => e,
    };
    writeln!(out, "C20 w={w} l={l} r={r} impl={imp} site={}:{back}", if co64 { "co64" } else { "stco" }).unwrap();
}

fn site_cases<W: Write>(out: &mut W, rng: &mut Rng, n_random: u64) {
    for co64 in [false, true] {
        let max: u64 = if co64 { u64::MAX } else { u32::MAX as u64 };
        let (_, moov_len) = site_file(co64, 0, 0);
        let fwd = moov_len as u64;
        for back in [0u64, 1, 2, 7] {
            let mut ls: Vec<u64> = vec![0, 1, 2, 6, 7, 8, max / 2, max / 2 + 1, max - 1, max];
            if back == 0 {
                ls.extend([max - fwd - 1, max - fwd, max - fwd + 1, max - fwd + 2]);
            } else {
                ls.extend([back - 1, back, back + 1]);
            }
            for _ in 0..n_random {
                ls.push(if rng.chance(1, 2) { rng.below(16) } else { max - rng.below(2 * fwd) });
            }
            for l in ls {
                site_case(out, co64, back, l);
            }
        }
    }
}

pub fn run<W: Write>(opts: &Opts, out: &mut W) {
    let mut rng = Rng::new(opts.seed);
    // exhaustive u8 x i8 (65 536 pairs), shipped to the driver: model, spec and impl all compared
    for l in 0..=u8::MAX {
        for r in i8::MIN..=i8::MAX {
            one!(out, 8, u8, i8, l, r);
        }
    }
    let n = if opts.tier_thorough { 20000 } else { 2000 };
    lattice!(out, rng, 16, u16, i16, n);
    lattice!(out, rng, 32, u32, i32, n);
    lattice!(out, rng, 64, u64, i64, n);
    lattice!(out, rng, 128, u128, i128, n);
    // usize = 64 on this target; tagged width 64
    {
        let ls: [usize; 5] = [0, 1, usize::MAX / 2, usize::MAX - 1, usize::MAX];
        let rs: [isize; 7] = [isize::MIN, isize::MIN + 1, -1, 0, 1, isize::MAX - 1, isize::MAX];
        for &l in &ls {
            for &r in &rs {
                line(out, usize::BITS, l as u128, r as i128, checked_add_signed(l, r).map(|x| x as u128));
            }
        }
    }
    site_cases(out, &mut rng, if opts.tier_thorough { 400 } else { 40 });
    if opts.tier_thorough {
        // exhaustive u16 x i16 against i64 arithmetic, summarised
        let mut bad: u64 = 0;
        let mut pairs: u64 = 0;
        for l in 0..=u16::MAX {
            for r in i16::MIN..=i16::MAX {
                pairs += 1;
                let s = l as i64 + r as i64;
                let want = if (0..=u16::MAX as i64).contains(&s) { Some(s as u16) } else { None };
                let got = checked_add_signed(l, r);
                if got != want {
                    bad += 1;
                    if bad <= 16 {
                        line(out, 16, l as u128, r as i128, got.map(|x| x as u128));
                    }
                }
            }
        }
        writeln!(out, "# sweep=u16xi16 pairs={pairs} bad={bad}").unwrap();
    }
}

pub fn replay<W: Write>(l: &str, out: &mut W) {
    let get = |k: &str| l.split(' ').find_map(|t| t.strip_prefix(&format!("{k}=")).map(|s| s.to_string())).unwrap();
    let w: u32 = get("w").parse().unwrap();
    let lv: u128 = get("l").parse().unwrap();
    let rv: i128 = get("r").parse().unwrap();
    if let Some(site) = l.split(' ').find_map(|t| t.strip_prefix("site=")) {
        let (kind, back) = site.split_once(':').unwrap();
        site_case(out, kind == "co64", back.parse().unwrap(), lv as u64);
        return;
    }
    match w {
        8 => one!(out, 8, u8, i8, lv as u8, rv as i8),
        16 => one!(out, 16, u16, i16, lv as u16, rv as i16),
        32 => one!(out, 32, u32, i32, lv as u32, rv as i32),
        64 => one!(out, 64, u64, i64, lv as u64, rv as i64),
        128 => one!(out, 128, u128, i128, lv, rv),
        _ => panic!("bad width"),
    }
}
