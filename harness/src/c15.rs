//! C15: every provided Skip/AsyncSkip adapter against histories of read / skip / stream_position / stream_len.
use std::io::{self, BufReader, Cursor, Read, Write};
use std::panic::AssertUnwindSafe;

use futures_util::io::{AsyncReadExt, BufReader as ABufReader, Cursor as ACursor};
use futures_util::FutureExt;
use mediasan_common::{AsyncSkipExt, SeekSkipAdapter, Skip};

use crate::rng::Rng;
use crate::sparse::{SeekReader, Sparse};
use crate::{hex, Opts};

#[derive(Clone, Copy, Debug)]
pub enum Op {
    Read(u64),
    Skip(u64),
    Pos,
    Len,
    /// `read_exact` of the total length carried out through VECTORED reads into slices of these lengths (0 = an empty
    /// slice, which a vectored read must step over); `k` slices
    Readv { lens: [u8; 4], k: u8 },
}

impl Op {
    fn readv(lens: &[u8]) -> Op {
        let mut a = [0u8; 4];
        a[..lens.len()].copy_from_slice(lens);
        Op::Readv { lens: a, k: lens.len() as u8 }
    }
    fn total(&self) -> u64 {
        match self {
            Op::Readv { lens, k } => lens[..*k as usize].iter().map(|&l| l as u64).sum(),
            Op::Read(n) => *n,
            _ => 0,
        }
    }
}

/// account `n` freshly read bytes to the slices in order; false if `n` exceeds what was offered
fn account(filled: &mut [usize], lens: &[u8], mut n: usize) -> bool {
    for (f, l) in filled.iter_mut().zip(lens) {
        let take = n.min(*l as usize - *f);
        *f += take;
        n -= take;
    }
    n == 0
}

pub fn ops_text(ops: &[Op]) -> String {
    ops.iter()
        .map(|o| match o {
            Op::Read(n) => format!("r{n}"),
            Op::Skip(n) => format!("s{n}"),
            Op::Pos => "p".into(),
            Op::Len => "l".into(),
            Op::Readv { lens, k } => format!("v{}", lens[..*k as usize].iter().map(|l| l.to_string()).collect::<Vec<_>>().join("+")),
        })
        .collect::<Vec<_>>()
        .join(",")
}

pub fn parse_ops(s: &str) -> Vec<Op> {
    s.split(',')
        .filter(|t| !t.is_empty())
        .map(|t| match &t[..1] {
            "r" => Op::Read(t[1..].parse().unwrap()),
            "s" => Op::Skip(t[1..].parse().unwrap()),
            "p" => Op::Pos,
            "v" => Op::readv(&t[1..].split('+').map(|x| x.parse().unwrap()).collect::<Vec<u8>>()),
            _ => Op::Len,
        })
        .collect()
}

fn res_text<T: std::fmt::Display>(r: io::Result<T>) -> String {
    match r {
        Ok(v) => v.to_string(),
        Err(e) => format!("E{}", crate::mp4run::io_kind(e.kind())),
    }
}

fn run_sync<R: Read + Skip>(mut r: R, ops: &[Op]) -> String {
    let mut out = vec![];
    for op in ops {
        out.push(match op {
            Op::Read(n) => {
                let mut buf = vec![0u8; *n as usize];
                match r.read_exact(&mut buf) {
                    Ok(()) => hex(&buf),
                    Err(e) => format!("E{}", crate::mp4run::io_kind(e.kind())),
                }
            }
            Op::Skip(n) => res_text(r.skip(*n).map(|_| "ok")),
            Op::Pos => res_text(r.stream_position()),
            Op::Len => res_text(r.stream_len()),
            Op::Readv { lens, k } => {
                let lens = &lens[..*k as usize];
                let total: usize = lens.iter().map(|&l| l as usize).sum();
                let mut storage: Vec<Vec<u8>> = lens.iter().map(|&l| vec![0u8; l as usize]).collect();
                let mut filled = vec![0usize; lens.len()];
                let mut err = None;
                while filled.iter().sum::<usize>() < total {
                    let res = {
                        let mut slices: Vec<io::IoSliceMut<'_>> =
                            storage.iter_mut().zip(&filled).map(|(b, f)| io::IoSliceMut::new(&mut b[*f..])).collect();
                        r.read_vectored(&mut slices)
                    };
                    match res {
                        Ok(0) => { err = Some("EUnexpectedEof".to_string()); break }
                        Ok(n) => if !account(&mut filled, lens, n) { err = Some("Eoverlong".to_string()); break },
                        Err(e) => { err = Some(format!("E{}", crate::mp4run::io_kind(e.kind()))); break }
                    }
                }
                err.unwrap_or_else(|| hex(&storage.concat()))
            }
        });
    }
    out.join(",")
}

macro_rules! readv_async {
    ($r:expr, $lens:expr, $k:expr, $wait:expr) => {{
        let lens = &$lens[..*$k as usize];
        let total: usize = lens.iter().map(|&l| l as usize).sum();
        let mut storage: Vec<Vec<u8>> = lens.iter().map(|&l| vec![0u8; l as usize]).collect();
        let mut filled = vec![0usize; lens.len()];
        let mut err = None;
        while filled.iter().sum::<usize>() < total {
            let res = {
                let mut slices: Vec<io::IoSliceMut<'_>> =
                    storage.iter_mut().zip(&filled).map(|(b, f)| io::IoSliceMut::new(&mut b[*f..])).collect();
                $wait($r.read_vectored(&mut slices))
            };
            match res {
                Ok(0) => { err = Some("EUnexpectedEof".to_string()); break }
                Ok(n) => if !account(&mut filled, lens, n) { err = Some("Eoverlong".to_string()); break },
                Err(e) => { err = Some(format!("E{}", crate::mp4run::io_kind(e.kind()))); break }
            }
        }
        err.unwrap_or_else(|| hex(&storage.concat()))
    }};
}

fn run_async<R: futures_util::io::AsyncRead + mediasan_common::AsyncSkip + Unpin>(mut r: R, ops: &[Op]) -> String {
    let mut out = vec![];
    for op in ops {
        out.push(match op {
            Op::Read(n) => {
                let mut buf = vec![0u8; *n as usize];
                match r.read_exact(&mut buf).now_or_never().expect("in-memory futures are always ready") {
                    Ok(()) => hex(&buf),
                    Err(e) => format!("E{}", crate::mp4run::io_kind(e.kind())),
                }
            }
            Op::Skip(n) => res_text(r.skip(*n).now_or_never().expect("ready").map(|_| "ok")),
            Op::Pos => res_text(r.stream_position().now_or_never().expect("ready")),
            Op::Len => res_text(r.stream_len().now_or_never().expect("ready")),
            Op::Readv { lens, k } => readv_async!(r, lens, k, |f: futures_util::io::ReadVectored<'_, R>| f.now_or_never().expect("ready")),
        });
    }
    out.join(",")
}

/// like `run_async`, but every future is polled to completion by a loop: the inner reader suspends according to a
/// schedule (here: every poll of the underlying reader returns Pending once)
fn run_async_driven<R: futures_util::io::AsyncRead + mediasan_common::AsyncSkip + Unpin>(mut r: R, ops: &[Op]) -> String {
    use std::future::Future;
    use std::task::{Context, Poll};
    fn drive<F: Future + Unpin>(mut f: F) -> F::Output {
        let w = futures_util::task::noop_waker();
        let mut cx = Context::from_waker(&w);
        for _ in 0..100_000 {
            if let Poll::Ready(x) = std::pin::Pin::new(&mut f).poll(&mut cx) {
                return x;
            }
        }
        panic!("future never completed");
    }
    let mut out = vec![];
    for op in ops {
        out.push(match op {
            Op::Read(n) => {
                let mut buf = vec![0u8; *n as usize];
                match drive(r.read_exact(&mut buf)) {
                    Ok(()) => hex(&buf),
                    Err(e) => format!("E{}", crate::mp4run::io_kind(e.kind())),
                }
            }
            Op::Skip(n) => res_text(drive(r.skip(*n)).map(|_| "ok")),
            Op::Pos => res_text(drive(r.stream_position())),
            Op::Len => res_text(drive(r.stream_len())),
            Op::Readv { lens, k } => readv_async!(r, lens, k, drive),
        });
    }
    out.join(",")
}

/// webpsan's `ChunkDataReader` over a `Cursor`: the header of the chunk at offset 0 is read first (depth 2: also the
/// header of the chunk inside it, through `child_reader`), then the history runs on `data_reader()`
fn run_chunk_data(d: Vec<u8>, depth: u8, ops: &[Op]) -> String {
    use webpsan::verif_reader::ChunkReader;
    let mut outer = ChunkReader::new(Cursor::new(d), mediasan_common::parse::FourCC { value: *b"RIFF" });
    if outer.read_any_header().is_err() {
        return "no-header".into();
    }
    if depth == 1 {
        run_sync(outer.data_reader(), ops)
    } else {
        let mut child = outer.child_reader();
        if child.read_any_header().is_err() {
            return "no-header".into();
        }
        let r = run_sync(child.data_reader(), ops);
        r
    }
}

/// a `Read + Skip` that returns at most `.1` bytes per `read` call
pub struct Trickle<R>(pub R, pub usize);

impl<R: Read> Read for Trickle<R> {
    fn read(&mut self, buf: &mut [u8]) -> io::Result<usize> {
        let n = buf.len().min(self.1);
        self.0.read(&mut buf[..n])
    }
}

impl<R: mediasan_common::Skip> mediasan_common::Skip for Trickle<R> {
    fn skip(&mut self, amount: u64) -> io::Result<()> {
        self.0.skip(amount)
    }
    fn stream_position(&mut self) -> io::Result<u64> {
        self.0.stream_position()
    }
    fn stream_len(&mut self) -> io::Result<u64> {
        self.0.stream_len()
    }
}

pub const ADAPTERS: [&str; 20] = [
    "syncadapter", "abufreader-syncadapter", "abufreader-pend", "apinbox-pend", "arefmut", "abox",
    "cursor", "seekskip", "bufreader", "bufreader-seekskip", "refmut", "box", "bufreader-box-bufreader", "bufreader-trickle", "file",
    "acursor", "aseekskip", "abufreader", "apinbox", "abufreader-abufreader",
];

pub fn run_adapter(adapter: &str, cap: usize, s: &Sparse, ops: &[Op]) -> String {
    let dense = s.dense();
    crate::quiet(AssertUnwindSafe(|| {
        match adapter {
            "sparse-seekskip" => run_sync(SeekSkipAdapter(SeekReader::new(s)), ops),
            "sparse-bufreader" => run_sync(BufReader::with_capacity(cap, SeekSkipAdapter(SeekReader::new(s))), ops),
            _ => {
                let d = dense.clone().expect("dense stream");
                match adapter {
                    "chunkdata1" => run_chunk_data(d, 1, ops),
                    "chunkdata2" => run_chunk_data(d, 2, ops),
                    "cursor" => run_sync(Cursor::new(d), ops),
                    "seekskip" => run_sync(SeekSkipAdapter(Cursor::new(d)), ops),
                    "bufreader" => run_sync(BufReader::with_capacity(cap, Cursor::new(d)), ops),
                    "bufreader-seekskip" => run_sync(BufReader::with_capacity(cap, SeekSkipAdapter(Cursor::new(d))), ops),
                    "refmut" => {
                        let mut c = BufReader::with_capacity(cap, Cursor::new(d));
                        run_sync(&mut c, ops)
                    }
                    "box" => run_sync(Box::new(BufReader::with_capacity(cap, Cursor::new(d))), ops),
                    // an inner reader that hands out at most 3 bytes per read (a pipe, a socket): a refill may be short
                    "bufreader-trickle" => run_sync(BufReader::with_capacity(cap, Trickle(SeekSkipAdapter(Cursor::new(d)), 3)), ops),
                    "bufreader-box-bufreader" => run_sync(BufReader::with_capacity(cap, Box::new(BufReader::with_capacity(3, Cursor::new(d)))), ops),
                    "file" => {
                        let path = std::env::temp_dir().join(format!("verif-c15-{}.bin", std::process::id()));
                        std::fs::write(&path, &d).unwrap();
                        let f = std::fs::File::open(&path).unwrap();
                        let r = run_sync(BufReader::with_capacity(cap, f), ops);
                        let _ = std::fs::remove_file(&path);
                        r
                    }
                    // the forwarding adapter every blocking `sanitize` call wraps its input in (common/src/sync.rs), bare and
                    // under the futures BufReader the sanitizers stack on it
                    "syncadapter" => mediasan_common::sync::sanitize(Cursor::new(d), |a| std::future::ready(run_async(a, ops))),
                    "abufreader-syncadapter" => mediasan_common::sync::sanitize(Cursor::new(d), |a| {
                        std::future::ready(run_async(ABufReader::with_capacity(cap, a), ops))
                    }),
                    "acursor" => run_async(ACursor::new(d), ops),
                    "aseekskip" => run_async(SeekSkipAdapter(ACursor::new(d)), ops),
                    "abufreader" => run_async(ABufReader::with_capacity(cap, ACursor::new(d)), ops),
                    "apinbox" => run_async(Box::pin(ABufReader::with_capacity(cap, ACursor::new(d))), ops),
                    "abufreader-pend" => {
                        let sp = Sparse::from_bytes(&d);
                        let sched: Vec<bool> = (0..100_000).map(|i| i % 2 == 0).collect();
                        run_async_driven(ABufReader::with_capacity(cap, crate::c12::pend_native(&sp, sched)), ops)
                    }
                    "apinbox-pend" => {
                        let sp = Sparse::from_bytes(&d);
                        let sched: Vec<bool> = (0..100_000).map(|i| i % 3 != 2).collect();
                        run_async_driven(Box::pin(ABufReader::with_capacity(cap, crate::c12::pend_native(&sp, sched))), ops)
                    }
                    "arefmut" => {
                        let mut c = ABufReader::with_capacity(cap, ACursor::new(d));
                        run_async(&mut c, ops)
                    }
                    "abox" => run_async(Box::new(ABufReader::with_capacity(cap, ACursor::new(d))), ops),
                    "abufreader-abufreader" => run_async(ABufReader::with_capacity(cap, ABufReader::with_capacity(3, ACursor::new(d))), ops),
                    other => panic!("unknown adapter {other}"),
                }
            }
        }
    }))
    .unwrap_or("panic".into())
}

pub fn emit<W: Write>(out: &mut W, id: &str, adapter: &str, cap: usize, s: &Sparse, ops: &[Op]) {
    let r = run_adapter(adapter, cap, s, ops);
    writeln!(out, "C15 id={id} adapter={adapter} cap={cap} {} ops={} impl={r}", s.line(), ops_text(ops)).unwrap();
}

pub fn replay<W: Write>(line: &str, out: &mut W) {
    let get = |k: &str| line.split(' ').find_map(|t| t.strip_prefix(&format!("{k}=")).map(|s| s.to_string()));
    let s = Sparse::parse_line(&get("len").unwrap(), &get("ext").unwrap());
    emit(out, &get("id").unwrap_or("replay".into()), &get("adapter").unwrap(), get("cap").unwrap().parse().unwrap(), &s, &parse_ops(&get("ops").unwrap()));
}

/// cut a history at the first operation that would leave the stream (the property speaks of histories that stay inside)
fn within(ops: &[Op], len: u64) -> Vec<Op> {
    let mut pos = 0u128;
    let mut out = vec![];
    for op in ops {
        match op {
            Op::Read(n) | Op::Skip(n) => {
                if pos + *n as u128 > len as u128 {
                    break;
                }
                pos += *n as u128;
            }
            Op::Readv { .. } => {
                if pos + op.total() as u128 > len as u128 {
                    break;
                }
                pos += op.total() as u128;
            }
            _ => {}
        }
        out.push(*op);
    }
    out
}

/// a RIFF-style chunk: name, little-endian length, body, pad byte when the length is odd
fn chunk(name: &[u8; 4], body: &[u8]) -> Vec<u8> {
    let mut c = name.to_vec();
    c.extend_from_slice(&(body.len() as u32).to_le_bytes());
    c.extend_from_slice(body);
    if body.len() % 2 == 1 {
        c.push(0);
    }
    c
}

/// histories on the data reader of a chunk (depth 1) and of a chunk nested in it (depth 2): exhaustively short ones on
/// bodies of 0..5 bytes - every amount from 0 to one past the body, queries at every point, also after the body is
/// exhausted - and long random ones; a history stays inside the body except, possibly, for its last operation
fn chunk_data_cases<W: Write>(opts: &Opts, out: &mut W, rng: &mut Rng) {
    let alphabet = [Op::Read(0), Op::Read(1), Op::Read(2), Op::Skip(0), Op::Skip(1), Op::Skip(2), Op::Skip(3), Op::Pos, Op::Len];
    let n = alphabet.len();
    let l = if opts.tier_thorough { 5 } else { 4 };
    let mut idx = 0u64;
    for depth in [1u8, 2] {
        for blen in 0..=5usize {
            let body: Vec<u8> = (0..blen as u8).map(|i| 0xa0 + i).collect();
            let inner = chunk(b"VP8 ", &body);
            let mut d = if depth == 1 { inner.clone() } else {
                // the enclosing chunk ends with the nested one, or two bytes after it
                let mut b = inner.clone();
                if blen % 2 == 0 {
                    b.extend_from_slice(&[0xee, 0xef]);
                }
                chunk(b"ANMF", &b)
            };
            d.extend_from_slice(&[0xf0, 0xf1, 0xf2]); // bytes after the chunk: never handed out
            let s = Sparse::from_bytes(&d);
            for len in 1..=l {
                for code in 0..n.pow(len as u32) {
                    let mut c = code;
                    let mut ops = vec![];
                    for _ in 0..len {
                        ops.push(alphabet[c % n]);
                        c /= n;
                    }
                    // inside the body, except for the last operation
                    let inside = within(&ops[..len - 1], blen as u64);
                    if inside.len() != len - 1 {
                        continue;
                    }
                    idx += 1;
                    if !opts.mine(idx) {
                        continue;
                    }
                    emit(out, &format!("cd{depth}-{blen}-{len}-{code}"), if depth == 1 { "chunkdata1" } else { "chunkdata2" }, 0, &s, &ops);
                }
            }
        }
    }
    let m = if opts.tier_thorough { 6000 } else { 600 };
    for i in 0..m {
        if !opts.mine(i) {
            continue;
        }
        let mut r = rng.fork(i);
        let depth = 1 + (i % 2) as u8;
        let blen = r.below(70) as usize;
        let body = r.bytes(blen);
        let inner = chunk(b"ALPH", &body);
        let mut d = if depth == 1 { inner } else {
            let mut b = inner;
            let extra = r.below(4) as usize;
            b.extend(r.bytes(extra));
            chunk(b"ANMF", &b)
        };
        let tail = r.below(12) as usize;
        d.extend(r.bytes(tail));
        if r.chance(1, 8) {
            // a file that ends inside the body
            let cut = r.below(d.len() as u64 + 1) as usize;
            d.truncate(cut.max(if depth == 1 { 8 } else { 16 }));
        }
        let nops = 1 + r.below(30) as usize;
        let mut ops: Vec<Op> = (0..nops)
            .map(|_| match r.below(8) {
                0 | 1 => Op::Read(r.below(12)),
                2 => Op::Read(0),
                3 => Op::Skip(0),
                4 | 5 => Op::Skip(r.below(12)),
                6 => Op::Pos,
                _ => Op::Len,
            })
            .collect();
        let avail = (d.len().saturating_sub(if depth == 1 { 8 } else { 16 })).min(blen) as u64;
        let inside = within(&ops, avail);
        if inside.len() < ops.len() && r.chance(1, 2) {
            ops.truncate(inside.len() + 1); // one operation that leaves the body, last
        } else {
            ops = inside;
        }
        emit(out, &format!("cdrnd-{i}"), if depth == 1 { "chunkdata1" } else { "chunkdata2" }, 0, &Sparse::from_bytes(&d), &ops);
    }
}

pub fn run<W: Write>(opts: &Opts, out: &mut W) {
    let mut rng = Rng::new(opts.seed ^ 0xC15);
    // exhaustive: all histories up to length L over a 9-operation alphabet on an 8-byte stream, capacities 1..=9
    let alphabet = [Op::Read(1), Op::Read(2), Op::Read(3), Op::Skip(0), Op::Skip(1), Op::Skip(2), Op::Skip(3), Op::Pos, Op::Len];
    let l = if opts.tier_thorough { 5 } else { 4 };
    let s8 = Sparse::from_bytes(&[0x11, 0x22, 0x33, 0x44, 0x55, 0x66, 0x77, 0x88]);
    let mut idx = 0u64;
    let n = alphabet.len();
    for len in 1..=l {
        for code in 0..n.pow(len as u32) {
            let mut c = code;
            let mut ops = vec![];
            for _ in 0..len {
                ops.push(alphabet[c % n]);
                c /= n;
            }
            let ops = within(&ops, 8);
            if ops.len() != len {
                continue; // a prefix: already enumerated at its own length
            }
            for cap in 1..=9usize {
                idx += 1;
                if !opts.mine(idx) {
                    continue;
                }
                // rotate through the buffered adapters; the unbuffered ones only need one capacity
                let adapter = ["bufreader", "bufreader-seekskip", "abufreader", "refmut", "box", "apinbox", "bufreader-box-bufreader", "abufreader-abufreader", "abufreader-pend", "apinbox-pend", "arefmut", "abox", "bufreader-trickle"][(idx % 13) as usize];
                emit(out, &format!("ex{len}-{code}-{cap}"), adapter, cap, &s8, &ops);
                if cap == 1 {
                    for a in ["cursor", "seekskip", "acursor", "aseekskip"] {
                        emit(out, &format!("ex{len}-{code}-{a}"), a, 0, &s8, &ops);
                    }
                }
            }
        }
    }
    chunk_data_cases(opts, out, &mut rng.fork(0xCD));
    // vectored reads: every shape of 1..3 slices with lengths from {0, 1, 2, 5} (0 = an empty slice to be stepped over),
    // after a read and a skip, followed by position / length / a plain read; every adapter; capacities below, at and
    // above the total
    let s24 = Sparse::from_bytes(&(0u8..24).collect::<Vec<_>>());
    let sizes = [0u8, 1, 2, 5];
    let mut vi = 0u64;
    for k in 1..=3usize {
        for code in 0..sizes.len().pow(k as u32) {
            let mut c = code;
            let lens: Vec<u8> = (0..k).map(|_| { let l = sizes[c % sizes.len()]; c /= sizes.len(); l }).collect();
            let ops = within(&[Op::Read(3), Op::Skip(2), Op::readv(&lens), Op::Pos, Op::Len, Op::Read(2), Op::readv(&lens), Op::Pos], 24);
            for adapter in ADAPTERS {
                for cap in [1usize, 4, 8192] {
                    vi += 1;
                    if !opts.mine(vi) {
                        continue;
                    }
                    if cap != 1 && ["cursor", "seekskip", "acursor", "aseekskip", "syncadapter"].contains(&adapter) {
                        continue;
                    }
                    emit(out, &format!("vec-{k}-{code}-{adapter}-{cap}"), adapter, cap, &s24, &ops);
                }
            }
        }
    }
    // long random histories on dense streams, every adapter, capacities 1..64 and the default 8192
    let m = if opts.tier_thorough { 20000 } else { 2000 };
    for i in 0..m {
        if !opts.mine(i) {
            continue;
        }
        let mut r = rng.fork(i);
        let len = 1 + r.below(300);
        let data = r.bytes(len as usize);
        let s = Sparse::from_bytes(&data);
        let nops = 1 + r.below(40) as usize;
        let cap = match r.below(6) {
            0 => 8192,
            1 => 32,
            2 => 8,
            _ => 1 + r.below(64) as usize,
        };
        let ops: Vec<Op> = (0..nops)
            .map(|_| match r.below(10) {
                8 | 9 => {
                    // vectored: 1-4 slices, every other one possibly empty (a leading empty slice must be stepped over)
                    let k = 1 + r.below(4) as usize;
                    let lens: Vec<u8> = (0..k).map(|_| if r.below(3) == 0 { 0 } else { r.below(cap as u64 + 3).min(20) as u8 }).collect();
                    Op::readv(&lens)
                }
                0 | 1 => Op::Read(r.below(cap as u64 * 2 + 2).min(40)),
                2 => Op::Read(r.below(5)),
                3 => Op::Skip(0),
                4 => Op::Skip(r.below(cap as u64 + 3)),
                5 => Op::Skip(r.below(70)),
                6 => Op::Pos,
                _ => Op::Len,
            })
            .collect();
        let ops = within(&ops, len);
        let adapter = ADAPTERS[(i % ADAPTERS.len() as u64) as usize];
        emit(out, &format!("rnd-{i}"), adapter, cap, &s, &ops);
    }
    // sparse streams up to 2^64-1 bytes: amounts across the i64 boundary
    for i in 0..(m / 4) {
        if !opts.mine(i) {
            continue;
        }
        let mut r = rng.fork(0x5000 + i);
        let len = *r.pick(&[u64::MAX, u64::MAX - 1, (1u64 << 63) + 100, 1u64 << 63, (1u64 << 63) - 1, 1u64 << 40]);
        let mut s = Sparse::new();
        s.push(&r.bytes(64));
        s.push_zeros(len - 64);
        let cap = 1 + r.below(40) as usize;
        let mut ops = vec![];
        for _ in 0..(2 + r.below(8)) {
            ops.push(match r.below(7) {
                0 => Op::Read(r.below(20)),
                1 => Op::Skip(*r.pick(&[i64::MAX as u64, i64::MAX as u64 + 1, i64::MAX as u64 - 1, 1u64 << 62, u64::MAX / 2 + 7])),
                2 => Op::Skip(r.below(50)),
                3 => Op::Skip(0),
                4 => Op::Pos,
                5 => Op::Len,
                _ => Op::Read(r.below(3)),
            });
        }
        let ops = within(&ops, len);
        emit(out, &format!("sparse-{i}"), if i % 2 == 0 { "sparse-seekskip" } else { "sparse-bufreader" }, cap, &s, &ops);
    }
}
