//! C18: canonical prefix codes through the public `CanonicalHuffmanTree` / `BitBufReader` API.
use std::io::Write;
use std::panic::AssertUnwindSafe;

use bitstream_io::LE;
use webpsan::parse::{BitBufReader, CanonicalHuffmanTree};

use crate::rng::Rng;
use crate::synth::complete_lengths;
use crate::{hex, unhex, Opts};

pub fn case<W: Write>(out: &mut W, id: &str, lens: &[(u16, u8)], bits: &[u8], n: usize) {
    case_cap(out, id, lens, bits, n, 4096)
}

/// `cap`: capacity of the bit buffer the symbols are decoded through - the decoded symbols may not depend on it
pub fn case_cap<W: Write>(out: &mut W, id: &str, lens: &[(u16, u8)], bits: &[u8], n: usize, cap: usize) {
    let impl_txt = crate::quiet(AssertUnwindSafe(|| {
        let mut v: Vec<(u16, u8)> = lens.to_vec();
        match CanonicalHuffmanTree::<LE, u16>::new(&mut v) {
            Err(_) => "err".to_string(),
            Ok(tree) => {
                let mut rd = BitBufReader::<_, LE>::with_capacity(bits, cap);
                let mut syms = vec![];
                for _ in 0..n {
                    match rd.read_huffman(&tree) {
                        Ok(s) => syms.push(s.to_string()),
                        Err(_) => break,
                    }
                }
                format!("ok:{}:{}", tree.longest_code_len(), if syms.is_empty() { "-".to_string() } else { syms.join(",") })
            }
        }
    }))
    .unwrap_or("panic".into());
    let l: Vec<String> = lens.iter().map(|(s, l)| format!("{s}:{l}")).collect();
    writeln!(out, "C18 id={id} lens={} bits={} n={n} cap={cap} impl={impl_txt}", if l.is_empty() { "-".to_string() } else { l.join(",") }, hex(bits)).unwrap();
}

pub fn replay<W: Write>(line: &str, out: &mut W) {
    let get = |k: &str| line.split(' ').find_map(|t| t.strip_prefix(&format!("{k}=")).map(|s| s.to_string()));
    let lens: Vec<(u16, u8)> = match get("lens").as_deref() {
        Some("-") | None => vec![],
        Some(s) => s.split(',').map(|t| { let (a, b) = t.split_once(':').unwrap(); (a.parse().unwrap(), b.parse().unwrap()) }).collect(),
    };
    let cap = get("cap").and_then(|c| c.parse().ok()).unwrap_or(4096);
    case_cap(out, &get("id").unwrap_or("replay".into()), &lens, &unhex(&get("bits").unwrap()), get("n").unwrap().parse().unwrap(), cap);
}

pub fn run<W: Write>(opts: &Opts, out: &mut W) {
    let mut rng = Rng::new(opts.seed ^ 0xC18);
    // exhaustive: every length vector over k = 1..=6 symbols with lengths 0..=5
    let kmax = if opts.tier_thorough { 6 } else { 5 };
    let mut idx = 0u64;
    for k in 1..=kmax {
        let total = 6u64.pow(k as u32);
        for code in 0..total {
            idx += 1;
            if !opts.mine(idx) {
                continue;
            }
            let mut c = code;
            let mut lens = vec![];
            for s in 0..k {
                lens.push((s as u16, (c % 6) as u8));
                c /= 6;
            }
            let bits = [rng.next() as u8, rng.next() as u8, rng.next() as u8];
            case(out, &format!("ex{k}-{code}"), &lens, &bits, 12);
        }
    }
    // all bit strings of 12 bits for a few fixed complete codes
    if opts.shard.0 == 0 {
        let codes: [&[(u16, u8)]; 4] = [&[(0, 1), (1, 2), (2, 3), (3, 3)], &[(5, 2), (1, 2), (9, 2), (3, 2)], &[(7, 1)], &[(2, 1), (300, 1)]];
        for (ci, lens) in codes.iter().enumerate() {
            for v in 0..4096u32 {
                case(out, &format!("bits{ci}-{v}"), lens, &[(v & 0xff) as u8, (v >> 8) as u8], 12);
            }
        }
    }
    // streams longer than the bit buffer: code words straddle every kind of refill boundary (the decoder reads through
    // a buffer of `cap` bytes; what it decodes is defined by the code alone)
    let nref = if opts.tier_thorough { 3000 } else { 240 };
    for i in 0..nref {
        if !opts.mine(i) {
            continue;
        }
        let mut r = rng.fork(700_000 + i);
        let alphabet = *r.pick(&[19usize, 40, 256, 280]);
        let nsyms = 2 + r.below(22) as usize;
        let lens_v = complete_lengths(&mut r, alphabet, nsyms, 15, &mut |rr| rr.below(alphabet as u64) as usize);
        let lens: Vec<(u16, u8)> = lens_v.iter().enumerate().filter(|(_, &l)| l > 0).map(|(s, &l)| (s as u16, l)).collect();
        if i % 12 == 11 {
            // the production capacity: a stream a little over one buffer
            let nb = 4096 + 1 + r.below(300) as usize;
            let mut bits = r.bytes(nb);
            // mostly ones: long code words, few symbols per byte
            for b in bits.iter_mut() {
                if r.chance(3, 4) {
                    *b |= 0xee;
                }
            }
            case_cap(out, &format!("refill4096-{i}"), &lens, &bits, 8 * nb, 4096);
        } else {
            let cap = *r.pick(&[16usize, 17, 19, 24, 32, 33, 64]);
            let nb = cap + 1 + r.below(3 * cap as u64) as usize;
            let bits = r.bytes(nb);
            case_cap(out, &format!("refill{cap}-{i}"), &lens, &bits, 8 * nb, cap);
        }
    }
    // random vectors over the real alphabets: complete, under- and over-subscribed by one leaf
    let n = if opts.tier_thorough { 30000 } else { 3000 };
    let alphabets = [19usize, 40, 256, 280, 282, 344, 1304, 2328];
    for i in 0..n {
        if !opts.mine(i) {
            continue;
        }
        let mut r = rng.fork(i);
        let alphabet = *r.pick(&alphabets);
        let nsyms = 1 + r.below(alphabet.min(if i % 10 == 0 { alphabet } else { 24 }) as u64) as usize;
        let lens_v = complete_lengths(&mut r, alphabet, nsyms, 15, &mut |rr| rr.below(alphabet as u64) as usize);
        let mut lens: Vec<(u16, u8)> = lens_v.iter().enumerate().filter(|(_, &l)| l > 0).map(|(s, &l)| (s as u16, l)).collect();
        // sprinkle explicit zero lengths
        if r.chance(1, 2) {
            for _ in 0..r.below(4) {
                let s = r.below(alphabet as u64) as u16;
                if !lens.iter().any(|(x, _)| *x == s) {
                    lens.push((s, 0));
                }
            }
            lens.sort();
        }
        let tag = match r.below(4) {
            0 if lens.len() > 1 => {
                // under-subscribed: lengthen one code
                let j = r.below(lens.len() as u64) as usize;
                if lens[j].1 > 0 && lens[j].1 < 15 {
                    lens[j].1 += 1;
                }
                "under"
            }
            1 => {
                // over-subscribed: one more leaf
                let s = (0..alphabet as u16).find(|s| !lens.iter().any(|(x, _)| x == s));
                if let Some(s) = s {
                    lens.push((s, 1 + r.below(15) as u8));
                }
                "over"
            }
            _ => "complete",
        };
        let nb = 8 + r.below(56) as usize;
        let bits = r.bytes(nb);
        case(out, &format!("rnd-{tag}-{i}"), &lens, &bits, 64);
    }
}
