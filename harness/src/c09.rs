//! C09: totality.  Every generated, truncated, flipped and spliced input runs through both sanitizers (mp4: sync on
//! seek-based and strict readers and async via the sync wrapper) under `catch_unwind`, built with overflow checks
//! and debug assertions, with a watchdog thread that reports a hang (and ends the process) after `HANG_SECS`.
use std::io::Write;
use std::panic::AssertUnwindSafe;
use std::sync::atomic::{AtomicU64, Ordering};
use std::sync::Mutex;
use std::time::{Duration, Instant};

use futures_util::FutureExt;
use mediasan_common::SeekSkipAdapter;

use crate::c06::payloads;
use crate::mp4gen::*;
use crate::mp4run::{canon, run_mp4, Cfg, ImplOut, Kind};
use crate::rng::Rng;
use crate::sparse::{SeekReader, Sparse};
use crate::webprun::*;
use crate::Opts;

const HANG_SECS: u64 = 20;

static CASE_START_MS: AtomicU64 = AtomicU64::new(0);
static CURRENT: Mutex<String> = Mutex::new(String::new());

fn now_ms(t0: Instant) -> u64 {
    t0.elapsed().as_millis() as u64 + 1
}

fn start_watchdog(t0: Instant) {
    std::thread::spawn(move || loop {
        std::thread::sleep(Duration::from_millis(200));
        let s = CASE_START_MS.load(Ordering::SeqCst);
        if s != 0 && now_ms(t0) > s + HANG_SECS * 1000 {
            let line = CURRENT.lock().map(|g| g.clone()).unwrap_or_default();
            // the case is reported as a hang; the process cannot continue past a stuck call
            println!("{line} impl=hang async=hang ms={}", now_ms(t0) - s);
            std::process::exit(0);
        }
    });
}

fn class(o: &ImplOut) -> String {
    match o {
        ImplOut::Noop(a, b) => format!("ok:none:{a},{b}"),
        ImplOut::Md(md, a, b) => format!("ok:md{}:{a},{b}", md.len()),
        ImplOut::Parse(k) => format!("err:parse:{k}"),
        ImplOut::Io(k) => format!("err:io:{k}"),
        ImplOut::Panic => "panic".into(),
    }
}

fn run_mp4_async(s: &Sparse, cfg: &Cfg) -> String {
    crate::quiet(AssertUnwindSafe(|| {
        let fut = mp4san::sanitize_async_with_config(SeekSkipAdapter(futures_util::io::AllowStdIo::new(SeekReader::new(s))), cfg.build());
        let mut fut = Box::pin(fut);
        match (&mut fut).now_or_never() {
            Some(r) => class(&canon(r)),
            None => "pending".into(),
        }
    }))
    .unwrap_or("panic".into())
}

struct Ctx<'a, W: Write> {
    out: &'a mut W,
    t0: Instant,
    opts: &'a Opts,
    idx: u64,
}

impl<W: Write> Ctx<'_, W> {
    fn mp4(&mut self, id: &str, fam: &str, s: &Sparse, cfg: &Cfg) {
        self.idx += 1;
        if !self.opts.mine(self.idx) {
            return;
        }
        let kind = if self.idx % 3 == 0 { Kind::Strict } else { Kind::Seekable };
        let head = format!("C09 id={id} san=mp4 fam={fam} {} {} kind={}", s.line(), cfg.line(), kind.name());
        *CURRENT.lock().unwrap() = head.clone();
        let st = now_ms(self.t0);
        CASE_START_MS.store(st, Ordering::SeqCst);
        let r = class(&run_mp4(s, cfg, kind));
        let a = if kind == Kind::Seekable { run_mp4_async(s, cfg) } else { "-".into() };
        CASE_START_MS.store(0, Ordering::SeqCst);
        writeln!(self.out, "{head} impl={r} async={a} ms={}", now_ms(self.t0) - st).unwrap();
    }
    fn webp(&mut self, id: &str, fam: &str, s: &Sparse, allow: bool) {
        self.idx += 1;
        if !self.opts.mine(self.idx) {
            return;
        }
        let kind = if self.idx % 3 == 0 { Kind::Strict } else { Kind::Seekable };
        let head = format!("C09 id={id} san=webp fam={fam} {} allow={} kind={}", s.line(), allow as u8, kind.name());
        *CURRENT.lock().unwrap() = head.clone();
        let st = now_ms(self.t0);
        CASE_START_MS.store(st, Ordering::SeqCst);
        let r = crate::c06::run_webp(s, allow, kind).text();
        CASE_START_MS.store(0, Ordering::SeqCst);
        writeln!(self.out, "{head} impl={r} async=- ms={}", now_ms(self.t0) - st).unwrap();
    }
}

/// mutation families over one base input: every truncation, bit flips, size-field attacks
fn mutate(rng: &mut Rng, base: &[u8], thorough: bool, f: &mut dyn FnMut(&str, String, Vec<u8>)) {
    // every truncation point
    for cut in 0..base.len() {
        f("trunc", format!("t{cut}"), base[..cut].to_vec());
    }
    // bytes: one flipped bit each / set to 0x00 / 0xff
    let stride = if thorough || base.len() <= 200 { 1 } else { 1 + base.len() / 200 };
    let mut p = 0;
    while p < base.len() {
        let mut b = base.to_vec();
        b[p] ^= 1 << rng.below(8);
        f("flip", format!("b{p}"), b);
        if thorough || p % 3 == 0 {
            for v in [0u8, 0xff] {
                if base[p] != v {
                    let mut b = base.to_vec();
                    b[p] = v;
                    f("set", format!("s{p}-{v}"), b);
                }
            }
        }
        p += stride;
    }
    // 32-bit fields: extreme values at every 4-byte-aligned offset (size and count fields live there)
    let mut p = 0;
    while p + 4 <= base.len() {
        for v in [0u32, 1, 7, 0x7fff_ffff, 0x8000_0000, 0xffff_fff7, 0xffff_ffff] {
            let mut b = base.to_vec();
            b[p..p + 4].copy_from_slice(&v.to_be_bytes());
            f("field", format!("f{p}-{v:x}"), b.clone());
            b[p..p + 4].copy_from_slice(&v.to_le_bytes());
            f("field", format!("l{p}-{v:x}"), b);
        }
        p += if thorough { 1 } else { 4 };
    }
}

fn splice(rng: &mut Rng, a: &[u8], b: &[u8]) -> Vec<u8> {
    if a.is_empty() || b.is_empty() {
        return a.to_vec();
    }
    let i = rng.below(a.len() as u64 + 1) as usize;
    let j = rng.below(b.len() as u64) as usize;
    let k = j + rng.below((b.len() - j) as u64 + 1) as usize;
    let mut v = a[..i].to_vec();
    v.extend_from_slice(&b[j..k]);
    if rng.chance(1, 2) {
        v.extend_from_slice(&a[i..]);
    } else {
        let skip = (i + (k - j)).min(a.len());
        v.extend_from_slice(&a[skip..]);
    }
    v
}

fn rand_cfg(rng: &mut Rng) -> Cfg {
    let max = match rng.below(6) {
        0 => rng.below(64),
        1 => rng.below(4096),
        2 => 1 << 30,
        3 => rng.below(1 << 30),
        _ => 1 << 30,
    };
    let cum = match rng.below(6) {
        0 => Some(rng.below(40) as u32),
        1 => Some(rng.next() as u32),
        _ => None,
    };
    Cfg { max, cum }
}

pub fn replay<W: Write>(line: &str, out: &mut W) {
    let get = |k: &str| line.split(' ').find_map(|t| t.strip_prefix(&format!("{k}=")).map(|s| s.to_string()));
    let s = Sparse::parse_line(&get("len").unwrap(), &get("ext").unwrap());
    let t0 = Instant::now();
    start_watchdog(t0);
    let opts = Opts { tier_thorough: false, seed: 0, replay: None, shard: (0, 1) };
    let mut c = Ctx { out, t0, opts: &opts, idx: 0 };
    let id = get("id").unwrap_or("replay".into());
    let fam = get("fam").unwrap_or("replay".into());
    // replay on the reader kind of the stored case
    let strict = get("kind").as_deref() == Some("strict");
    c.idx = if strict { 2 } else { 0 };
    if get("san").as_deref() == Some("webp") {
        c.webp(&id, &fam, &s, get("allow").as_deref() == Some("1"));
    } else {
        let cfg = Cfg { max: get("max").and_then(|x| x.parse().ok()).unwrap_or(1 << 30), cum: get("cum").and_then(|x| x.parse().ok()) };
        c.mp4(&id, &fam, &s, &cfg);
    }
}

pub fn run<W: Write>(opts: &Opts, out: &mut W) {
    let t0 = Instant::now();
    start_watchdog(t0);
    let mut rng = Rng::new(opts.seed ^ 0xC09);
    let thorough = opts.tier_thorough;
    let mut c = Ctx { out, t0, opts, idx: 0 };

    // ---- mp4 bases: the C13/C12 corpora, remux files, every malformed-moov family
    let mut bases: Vec<(String, Vec<u8>, Cfg)> = vec![];
    for (name, s, cfg) in crate::c12::corpus(&mut rng.fork(1)) {
        if let Some(d) = s.dense() {
            if d.len() <= 1500 {
                bases.push((name, d, cfg));
            }
        }
    }
    for i in 0..(if thorough { 40 } else { 6 }) {
        let g = remux(&mut rng.fork(100 + i), false, true);
        if let Some(d) = g.s.dense() {
            if d.len() <= 1200 {
                bases.push((format!("remux{i}"), d, g.cfg));
            }
        }
    }
    for (name, mp) in crate::mp4props::moov_mutants(&mut rng.fork(2)) {
        let s = crate::mp4props::file_with_moov(&mut rng.fork(3), &mp, false);
        if let Some(d) = s.dense() {
            bases.push((format!("mm-{name}"), d, Cfg::default()));
        }
    }
    let nb = bases.len();
    for (bi, (name, base, cfg)) in bases.iter().enumerate() {
        c.mp4(&format!("{name}-base"), "base", &Sparse::from_bytes(base), cfg);
        // full mutation sweep on the first bases (all of them in thorough), truncations + sampled flips on the rest
        let full = thorough || bi < 8 || name.starts_with("mm-") && bi % 4 == 0;
        let mut muts: Vec<(String, String, Vec<u8>)> = vec![];
        mutate(&mut rng.fork(1000 + bi as u64), base, thorough, &mut |fam, id, b| {
            if full || fam == "trunc" {
                muts.push((fam.to_string(), id, b));
            }
        });
        for (k, (fam, id, b)) in muts.iter().enumerate() {
            let cfg2 = if k % 5 == 0 { rand_cfg(&mut rng.fork(77 + k as u64)) } else { cfg.clone() };
            c.mp4(&format!("{name}-{id}"), fam, &Sparse::from_bytes(b), &cfg2);
        }
        // splices with other bases
        for k in 0..(if thorough { 60 } else { 12 }) {
            let mut r = rng.fork(5000 + (bi * 100 + k) as u64);
            let other = &bases[r.below(nb as u64) as usize].1;
            let v = splice(&mut r, base, other);
            let cfg2 = rand_cfg(&mut r);
            c.mp4(&format!("{name}-x{k}"), "splice", &Sparse::from_bytes(&v), &cfg2);
        }
    }
    // sparse giants: sizes near u64::MAX, until-EOF boxes, huge skips
    for k in 0..(if thorough { 400 } else { 60 }) {
        let mut r = rng.fork(9000 + k);
        let mut s = Sparse::new();
        s.push(&bx(b"ftyp", &ftyp_payload(&mut r, true, 2, 0), Enc::S32));
        let n = 1 + r.below(4);
        for _ in 0..n {
            let name: &[u8; 4] = *r.pick(&[b"mdat", b"free", b"skip", b"meta", b"meco", b"moov", b"abcd", b"uuid", b"ftyp"]);
            let size: u64 = match r.below(8) {
                0 => u64::MAX,
                1 => u64::MAX - r.below(40),
                2 => (1u64 << 63) + r.below(3) - 1,
                3 => (1u64 << 32) + r.below(20),
                4 => 16 + r.below(30),
                5 => r.below(16),
                _ => 1u64 << (20 + r.below(40)),
            };
            let mut h = vec![0, 0, 0, 1];
            h.extend_from_slice(name);
            h.extend_from_slice(&size.to_be_bytes());
            s.push(&h);
            let present = match r.below(4) {
                0 => 0,
                1 => r.below(100),
                _ => size.saturating_sub(16).min(1 << (10 + r.below(30))),
            };
            s.push_zeros(present);
        }
        let mut cfg = rand_cfg(&mut r);
        // a giant `moov` that is really present would be read in full (and by the interpreted model, byte by byte):
        // keep the limit at 1 MiB here; what large reads cost is C10's subject
        cfg.max = cfg.max.min(1 << 20);
        c.mp4(&format!("giant-{k}"), "giant", &s, &cfg);
    }

    // ---- webp bases: container corpus, encoder streams, synthesised lossless streams (valid and each rule broken)
    let mut wbases: Vec<(String, Vec<u8>, bool)> = vec![];
    for (name, s, allow) in crate::c13::webp_corpus(&mut rng.fork(4)) {
        if let Some(d) = s.dense() {
            wbases.push((name, d, allow));
        }
    }
    let pl = payloads(&mut rng.fork(5));
    for (k, ((w, h), p)) in pl.alph.iter().enumerate() {
        wbases.push((format!("alph{k}"), riff(&[chunk(b"VP8X", &vp8x_payload(0x10, *w, *h)), chunk(b"ALPH", p), chunk(b"VP8 ", VP8_DATA)]), false));
    }
    for k in 0..(if thorough { 60 } else { 10 }) {
        let mut r = rng.fork(6000 + k);
        let (w, h) = *r.pick(&[(1u32, 1u32), (3, 2), (9, 7), (40, 30)]);
        let want = if k % 2 == 0 { None } else { Some(*r.pick(&crate::synth::VIOLATIONS)) };
        let (p, _) = crate::synth::synth_vp8l(&mut r, w, h, want);
        if p.len() <= 1500 {
            wbases.push((format!("synth{k}"), riff(&[chunk(b"VP8L", &p)]), false));
        }
    }
    // every rule of the lossless format broken in turn (each family several times: the planted values are random,
    // e.g. the explicit max_symbol field at the top of its 16-bit range)
    for (vi, want) in crate::synth::VIOLATIONS.iter().enumerate() {
        for rep in 0..(if thorough { 12 } else { 4 }) {
            let mut r = rng.fork(6500 + (vi * 100 + rep) as u64);
            let (w, h) = *r.pick(&[(1u32, 1u32), (4, 3), (9, 1), (17, 5)]);
            let (p, _) = crate::synth::synth_vp8l(&mut r, w, h, Some(*want));
            if p.len() <= 800 {
                wbases.push((format!("rule-{want}-{rep}"), riff(&[chunk(b"VP8L", &p)]), false));
            }
        }
    }
    let nwb = wbases.len();
    for (bi, (name, base, allow)) in wbases.iter().enumerate() {
        c.webp(&format!("{name}-base"), "base", &Sparse::from_bytes(base), *allow);
        let full = thorough || bi < 10;
        let mut muts: Vec<(String, String, Vec<u8>)> = vec![];
        mutate(&mut rng.fork(2000 + bi as u64), base, thorough, &mut |fam, id, b| {
            if full || fam == "trunc" {
                muts.push((fam.to_string(), id, b));
            }
        });
        for (k, (fam, id, b)) in muts.iter().enumerate() {
            c.webp(&format!("{name}-{id}"), fam, &Sparse::from_bytes(b), if k % 4 == 0 { !*allow } else { *allow });
        }
        for k in 0..(if thorough { 60 } else { 12 }) {
            let mut r = rng.fork(7000 + (bi * 100 + k) as u64);
            let other = &wbases[r.below(nwb as u64) as usize].1;
            let v = splice(&mut r, base, other);
            c.webp(&format!("{name}-x{k}"), "splice", &Sparse::from_bytes(&v), r.chance(1, 2));
        }
    }
    // very many items: 100000 empty top-level boxes, 30000 animation frames - time must follow their number linearly
    // (anything quadratic in the number of boxes or frames exceeds the time allowance here)
    {
        let mut r = rng.fork(8700);
        let mut s = Sparse::new();
        s.push(&bx(b"ftyp", &ftyp_payload(&mut r, true, 2, 0), Enc::S32));
        let mut many = Vec::with_capacity(800_000);
        for i in 0..100_000u32 {
            many.extend_from_slice(&[0, 0, 0, 8]);
            many.extend_from_slice(if i % 2 == 0 { b"free" } else { b"skip" });
        }
        s.push(&many);
        s.push(&bx(b"mdat", &[1, 2, 3, 4], Enc::S32));
        let t = rand_trak(&mut r, 2, false);
        s.push(&bx(b"moov", &moov_payload(&mut r, &[t], false), Enc::S32));
        c.mp4("many-boxes-100000", "many-items", &s, &Cfg::default());
        let lossless: Vec<u8> = vec![0x2f, 0, 0, 0, 0, 0x88, 0x88, 0x08];
        let mut chunks = vec![chunk(b"VP8X", &vp8x_payload(0x02, 1, 1)), chunk(b"ANIM", &[0; 6])];
        for i in 0..30_000u32 {
            let mut p = vec![0u8; 12];
            p.extend_from_slice(&[1, 0, 0, 0]);
            if i % 4 == 0 {
                p.extend(chunk(b"VP8L", &lossless));
            } else {
                p.extend(chunk(b"VP8 ", VP8_DATA));
            }
            chunks.push(chunk(b"ANMF", &p));
        }
        c.webp("many-frames-30000", "many-items", &Sparse::from_bytes(&riff(&chunks)), false);
    }
    // sub-images that cost no input per pixel, on the largest declarable dimensions (an animation frame of 2^24 x 2^24
    // with a lossless ALPH: the pixel count saturates at u32::MAX; a 16384 x 16384 VP8L): the validator must return
    // in bounded time - whichever of the five codes is the zero-bit one
    for green in 0..3u32 {
        for two in 0..5u32 {
            let mut r = rng.fork(8800 + (green * 8 + two) as u64);
            let stream = crate::synth::zero_bit_subimage(&mut r, green, two);
            let mut alph = vec![1u8];
            alph.extend_from_slice(&stream);
            let dim = 1u32 << 24;
            let mut p = vec![0u8; 6];
            p.extend_from_slice(&(dim - 1).to_le_bytes()[..3]);
            p.extend_from_slice(&(dim - 1).to_le_bytes()[..3]);
            p.extend_from_slice(&[1, 0, 0, 0]);
            p.extend(chunk(b"ALPH", &alph));
            p.extend(chunk(b"VP8 ", VP8_DATA));
            let file = riff(&[chunk(b"VP8X", &vp8x_payload(0x12, dim, 1)), chunk(b"ANIM", &[0; 6]), chunk(b"ANMF", &p)]);
            c.webp(&format!("zero-bit-anmf-g{green}-t{two}"), "zero-bit-giant", &Sparse::from_bytes(&file), false);
            let mut bw = crate::synth::BitWriter::new();
            bw.bits(0x2f, 8);
            bw.bits(16383, 14);
            bw.bits(16383, 14);
            bw.bit(false);
            bw.bits(0, 3);
            let mut v = bw.bytes;
            v.extend_from_slice(&stream);
            c.webp(&format!("zero-bit-vp8l-g{green}-t{two}"), "zero-bit-giant", &Sparse::from_bytes(&riff(&[chunk(b"VP8L", &v)])), false);
        }
    }
    // bit-level sweep of lossless streams: every bit of short synthesised streams flipped (reaches the prefix-code
    // and sub-image paths far more often than byte-level mutation of whole files)
    for k in 0..(if thorough { 40 } else { 6 }) {
        let mut r = rng.fork(8000 + k);
        let (p, _) = crate::synth::synth_vp8l(&mut r, 5, 4, None);
        if p.len() > 400 {
            continue;
        }
        for bit in 0..p.len() * 8 {
            let mut q = p.clone();
            q[bit / 8] ^= 1 << (bit % 8);
            c.webp(&format!("bits{k}-{bit}"), "bitflip", &Sparse::from_bytes(&riff(&[chunk(b"VP8L", &q)])), false);
        }
    }
    // the largest image the format can declare, with zero-bit codes: 4096 x 4096 sub-image pixels to validate
    for (w, h, bits) in [(16384u32, 16384u32, 2u32), (16384, 16384, 9), (1, 16384, 2)] {
        let p = crate::c10::zero_bit_vp8l(w, h, bits);
        c.webp(&format!("zero-{w}x{h}-b{bits}"), "big-declared", &Sparse::from_bytes(&riff(&[chunk(b"VP8L", &p)])), false);
    }
}
