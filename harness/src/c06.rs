//! C06: WebP container grammar.  Cases are sparse streams (a multi-GiB `VP8 ` payload costs nothing) run through
//! the real webpsan on a seek-based and on a strict reader.
use std::io::Write;
use std::panic::AssertUnwindSafe;

use mediasan_common::SeekSkipAdapter;

use crate::c07::{image, ImgKind};
use crate::mp4run::Kind;
use crate::refdec;
use crate::rng::Rng;
use crate::sparse::{SeekReader, Sparse, StrictReader};
use crate::webprun::*;
use crate::Opts;

pub fn run_webp(s: &Sparse, allow: bool, kind: Kind) -> WOut {
    crate::quiet(AssertUnwindSafe(|| {
        let cfg = webpsan::Config::builder().allow_unknown_chunks(allow).build();
        match kind {
            Kind::Seekable => wcanon(webpsan::sanitize_with_config(SeekSkipAdapter(SeekReader::new(s)), cfg)),
            Kind::Strict => wcanon(webpsan::sanitize_with_config(StrictReader::new(s), cfg)),
        }
    }))
    .unwrap_or(WOut::Panic)
}

pub fn emit<W: Write>(out: &mut W, prop: &str, id: &str, s: &Sparse, allow: bool, kind: Kind) {
    let r = run_webp(s, allow, kind);
    writeln!(out, "{prop} id={id} {} allow={} kind={} impl={}", s.line(), allow as u8, kind.name(), r.text()).unwrap();
}

pub fn replay<W: Write>(prop: &str, line: &str, out: &mut W) {
    let get = |k: &str| line.split(' ').find_map(|t| t.strip_prefix(&format!("{k}=")).map(|s| s.to_string()));
    let s = Sparse::parse_line(&get("len").unwrap(), &get("ext").unwrap());
    let kind = if get("kind").as_deref() == Some("strict") { Kind::Strict } else { Kind::Seekable };
    emit(out, prop, &get("id").unwrap_or("replay".into()), &s, get("allow").as_deref() == Some("1"), kind);
}

/// valid lossless payloads (VP8L chunk payloads / lossless ALPH payloads) for a few dimensions, made by libwebp
pub struct Payloads {
    pub vp8l: Vec<((u32, u32), Vec<u8>)>,
    pub alph: Vec<((u32, u32), Vec<u8>)>,
}

pub fn payloads(rng: &mut Rng) -> Payloads {
    let mut vp8l = vec![];
    let mut alph = vec![];
    for (w, h) in [(1u32, 1u32), (2, 2), (3, 1), (1, 2), (4, 3)] {
        let img = image(rng, ImgKind::Photo, w, h, true);
        if let Some(f) = refdec::encode_lossless(&img, w, h, 4, 75.0, 100, false) {
            if let Some((_, p)) = split_chunks(&f).into_iter().find(|(n, _)| n == b"VP8L") {
                vp8l.push(((w, h), p));
            }
        }
        let img = image(rng, ImgKind::Palette(16), w.max(2), h.max(2), true);
        if let Some(f) = refdec::encode_lossy(&img, w.max(2), h.max(2), 50.0, 1, 0, 100) {
            if let Some((_, p)) = split_chunks(&f).into_iter().find(|(n, _)| n == b"ALPH") {
                alph.push(((w.max(2), h.max(2)), p));
            }
        }
    }
    Payloads { vp8l, alph }
}

impl Payloads {
    pub fn vp8l_for(&self, w: u32, h: u32) -> Vec<u8> {
        self.vp8l.iter().find(|(d, _)| *d == (w, h)).map(|(_, p)| p.clone()).unwrap_or_else(|| self.vp8l[0].1.clone())
    }
    pub fn alph_for(&self, w: u32, h: u32) -> Vec<u8> {
        self.alph.iter().find(|(d, _)| *d == (w, h)).map(|(_, p)| p.clone()).unwrap_or_else(|| vec![0, 1, 2, 3, 4])
    }
}

fn anmf_payload(x: u32, y: u32, w: u32, h: u32, flags: u8, inner: &[Vec<u8>]) -> Vec<u8> {
    let mut p = vec![];
    p.extend_from_slice(&x.to_le_bytes()[..3]);
    p.extend_from_slice(&y.to_le_bytes()[..3]);
    p.extend_from_slice(&(w - 1).to_le_bytes()[..3]);
    p.extend_from_slice(&(h - 1).to_le_bytes()[..3]);
    p.extend_from_slice(&[40, 0, 0]);
    p.push(flags);
    p.extend(inner.concat());
    p
}

/// one chunk of the alphabet, built for a canvas of cw x ch (frames use fw x fh)
fn alpha_chunk(code: u8, pl: &Payloads, cw: u32, ch: u32, rng: &mut Rng) -> Vec<u8> {
    match code {
        b'v' => chunk(b"VP8 ", VP8_DATA),
        b'l' => chunk(b"VP8L", &pl.vp8l_for(cw, ch)),
        b'x' => chunk(b"VP8X", &vp8x_payload(0, cw, ch)),
        b'a' => chunk(b"ALPH", &pl.alph_for(cw, ch)),
        b'n' => chunk(b"ANIM", &[1, 2, 3, 4, 5, 0]),
        b'f' => chunk(b"ANMF", &anmf_payload(0, 0, cw, ch, 0, &[chunk(b"VP8 ", VP8_DATA)])),
        b'F' => chunk(b"ANMF", &anmf_payload(0, 0, cw, ch, 2, &[chunk(b"VP8L", &pl.vp8l_for(cw, ch))])),
        b'i' => chunk(b"ICCP", &rng.bytes(3)),
        b'e' => chunk(b"EXIF", &rng.bytes(4)),
        b'm' => chunk(b"XMP ", &rng.bytes(5)),
        _ => chunk(b"unkn", &rng.bytes(2)),
    }
}

const ALPHABET: [u8; 11] = *b"vlxanfFiemu";

fn exhaustive<W: Write>(out: &mut W, prop: &str, opts: &Opts, pl: &Payloads, rng: &mut Rng, maxlen: usize) {
    let (cw, ch) = (2u32, 2u32);
    let n = ALPHABET.len();
    let mut idx = 0u64;
    // VP8X first, with every flag set, followed by every sequence up to maxlen
    for len in 0..=maxlen {
        for code in 0..n.pow(len as u32) {
            let mut c = code;
            let mut names = String::new();
            let mut body: Vec<Vec<u8>> = vec![];
            for _ in 0..len {
                let a = ALPHABET[c % n];
                names.push(a as char);
                body.push(alpha_chunk(a, pl, cw, ch, rng));
                c /= n;
            }
            for flags in 0..32u8 {
                idx += 1;
                if !opts.mine(idx) {
                    continue;
                }
                let mut chunks = vec![chunk(b"VP8X", &vp8x_payload(flags << 1, cw, ch))];
                chunks.extend(body.iter().cloned());
                let s = Sparse::from_bytes(&riff(&chunks));
                let allow = (idx / 3) % 2 == 0;
                let kind = if idx % 2 == 0 { Kind::Seekable } else { Kind::Strict };
                emit(out, prop, &format!("x{flags:02x}-{names}"), &s, allow, kind);
            }
            // simple (non-VP8X) files: the same sequences at top level
            if len >= 1 {
                idx += 1;
                if opts.mine(idx) {
                    let s = Sparse::from_bytes(&riff(&body));
                    emit(out, prop, &format!("top-{names}"), &s, idx % 2 == 0, Kind::Seekable);
                    emit(out, prop, &format!("top-{names}-allow"), &s, true, Kind::Strict);
                }
            }
        }
    }
}

fn frame_sequences<W: Write>(out: &mut W, prop: &str, pl: &Payloads, rng: &mut Rng, maxlen: usize) {
    // inside ANMF: every sequence up to maxlen over {ALPH, VP8, VP8L, unknown, EXIF, ANMF, ANIM}, alpha flag on/off,
    // frame = canvas and frame < canvas
    let inner_alpha: [u8; 7] = *b"avluefn";
    let n = inner_alpha.len();
    for (cw, ch, fw, fh) in [(2u32, 2u32, 2u32, 2u32), (2, 2, 1, 1), (4, 3, 3, 1)] {
        for len in 0..=maxlen {
            for code in 0..n.pow(len as u32) {
                let mut c = code;
                let mut names = String::new();
                let mut inner: Vec<Vec<u8>> = vec![];
                for _ in 0..len {
                    let a = inner_alpha[c % n];
                    names.push(a as char);
                    // chunks inside a frame are built for the frame's dimensions
                    inner.push(alpha_chunk(a, pl, fw, fh, rng));
                    c /= n;
                }
                for alpha in [false, true] {
                    let flags = 0x02 | if alpha { 0x10 } else { 0 };
                    let file = riff(&[
                        chunk(b"VP8X", &vp8x_payload(flags, cw, ch)),
                        chunk(b"ANIM", &[0, 0, 0, 0, 0, 0]),
                        chunk(b"ANMF", &anmf_payload(0, 0, fw, fh, 0, &inner)),
                    ]);
                    let s = Sparse::from_bytes(&file);
                    for allow in [false, true] {
                        emit(out, prop, &format!("fr{cw}x{ch}-{fw}x{fh}-{}-{names}", alpha as u8), &s, allow, Kind::Seekable);
                    }
                }
            }
        }
    }
}

fn framing<W: Write>(out: &mut W, prop: &str, pl: &Payloads, rng: &mut Rng) {
    let good: Vec<Vec<u8>> = vec![
        riff(&[chunk(b"VP8 ", VP8_DATA)]),
        riff(&[chunk(b"VP8L", &pl.vp8l_for(1, 1))]),
        riff(&[chunk(b"VP8X", &vp8x_payload(0x2c, 2, 2)), chunk(b"ICCP", &[1, 2, 3]), chunk(b"VP8L", &pl.vp8l_for(2, 2)), chunk(b"EXIF", &[9]), chunk(b"XMP ", &[8, 7])]),
        riff(&[chunk(b"VP8X", &vp8x_payload(0x12, 2, 2)), chunk(b"ANIM", &[0; 6]),
               chunk(b"ANMF", &anmf_payload(0, 0, 2, 2, 0, &[chunk(b"ALPH", &pl.alph_for(2, 2)), chunk(b"VP8 ", VP8_DATA)])),
               chunk(b"ANMF", &anmf_payload(0, 0, 1, 1, 3, &[chunk(b"VP8L", &pl.vp8l_for(1, 1))]))]),
        // unknown chunks after the image (accepted only when they are allowed): they are skipped, never read, so a file
        // that ends inside one is told from a complete one only by the position after the skip
        riff(&[chunk(b"VP8X", &vp8x_payload(0x00, 1, 1)), chunk(b"VP8L", &pl.vp8l_for(1, 1)), chunk(b"unkn", &[1, 2, 3, 4, 5, 6]), chunk(b"junk", &[7; 5]), chunk(b"more", &[8; 12])]),
    ];
    for (gi, file) in good.iter().enumerate() {
        let true_size = (file.len() - 8) as i64;
        // RIFF size field relative to the true size
        for d in [-9i64, -8, -2, -1, 0, 1, 2, 3, 8, 1000] {
            let mut f = file.clone();
            let v = (true_size + d).max(0) as u32;
            f[4..8].copy_from_slice(&v.to_le_bytes());
            let s = Sparse::from_bytes(&f);
            for kind in [Kind::Seekable, Kind::Strict] {
                emit(out, prop, &format!("size{gi}-{d}-{}", kind.name()), &s, false, kind);
            }
            // and with extra bytes present after the declared end
            let mut g = f.clone();
            g.extend_from_slice(&[0, 0]);
            emit(out, prop, &format!("size{gi}-{d}-trail"), &Sparse::from_bytes(&g), false, Kind::Seekable);
        }
        // every truncation point, both reader kinds
        for cut in 0..file.len() {
            let s = Sparse::from_bytes(&file[..cut]);
            emit(out, prop, &format!("cut{gi}-{cut}-s"), &s, false, Kind::Seekable);
            emit(out, prop, &format!("cut{gi}-{cut}-t"), &s, true, Kind::Strict);
            if gi == 4 || cut % 3 == 0 {
                emit(out, prop, &format!("cut{gi}-{cut}-sa"), &s, true, Kind::Seekable);
                emit(out, prop, &format!("cut{gi}-{cut}-td"), &s, false, Kind::Strict);
            }
        }
        // every chunk size field +1 / -1 / huge (a chunk overrunning its parent or the file)
        let mut pos = 12;
        while pos + 8 <= file.len() {
            let len = u32::from_le_bytes([file[pos + 4], file[pos + 5], file[pos + 6], file[pos + 7]]);
            for (tag, v) in [("p1", len.wrapping_add(1)), ("m1", len.wrapping_sub(1)), ("p2", len.wrapping_add(2)), ("big", len.wrapping_add(100_000)), ("max", u32::MAX)] {
                let mut f = file.clone();
                f[pos + 4..pos + 8].copy_from_slice(&v.to_le_bytes());
                let s = Sparse::from_bytes(&f);
                for kind in [Kind::Seekable, Kind::Strict] {
                    emit(out, prop, &format!("len{gi}-{pos}-{tag}-{}", kind.name()), &s, false, kind);
                }
            }
            if &file[pos..pos + 4] == b"ANMF" {
                pos += 8 + 16; // descend into the frame
            } else {
                pos += 8 + len as usize + (len & 1) as usize;
            }
        }
    }
    // odd sizes and pad bytes: each skippable chunk kind with payload lengths 0..3, pad byte 0 / non-zero / missing
    for plen in 0..4usize {
        for pad in [0u8, 1, 0xff] {
            let payload = vec![7u8; plen];
            let mut c = b"EXIF".to_vec();
            c.extend_from_slice(&(plen as u32).to_le_bytes());
            c.extend_from_slice(&payload);
            if plen % 2 == 1 {
                c.push(pad);
            }
            let file = riff(&[chunk(b"VP8X", &vp8x_payload(0x08, 1, 1)), chunk(b"VP8L", &pl.vp8l_for(1, 1)), c]);
            emit(out, prop, &format!("pad-exif{plen}-{pad}"), &Sparse::from_bytes(&file), false, Kind::Seekable);
            // pad byte missing: drop the last byte and fix the RIFF size
            if plen % 2 == 1 {
                let mut f = file.clone();
                f.pop();
                let v = (f.len() - 8) as u32;
                f[4..8].copy_from_slice(&v.to_le_bytes());
                emit(out, prop, &format!("pad-exif{plen}-missing"), &Sparse::from_bytes(&f), false, Kind::Strict);
            }
        }
    }
    // odd RIFF size with its own pad byte
    for pad in [0u8, 5] {
        let mut f = b"RIFF".to_vec();
        let body = [b"WEBP".to_vec(), chunk(b"VP8 ", &[1, 2, 3])].concat(); // even
        let mut body_odd = body.clone();
        body_odd.pop(); // drop the chunk's pad byte: RIFF size odd, chunk pad missing inside -> invalid either way
        f.extend_from_slice(&(body.len() as u32).to_le_bytes());
        f.extend_from_slice(&body);
        emit(out, prop, &format!("riff-even-{pad}"), &Sparse::from_bytes(&f), false, Kind::Seekable);
        let mut g = b"RIFF".to_vec();
        g.extend_from_slice(&(body_odd.len() as u32).to_le_bytes());
        g.extend_from_slice(&body_odd);
        g.push(pad);
        emit(out, prop, &format!("riff-odd-{pad}"), &Sparse::from_bytes(&g), false, Kind::Seekable);
    }
    // near 2^32: a sparse lossy payload fills the file up to the format's limit
    for riff_size in [(1u64 << 32) - 12, (1u64 << 32) - 11, (1u64 << 32) - 10, (1u64 << 32) - 9, (1u64 << 32) - 8, (1u64 << 32) - 2, (1u64 << 32) - 1] {
        // RIFF size = 4 + 8 + payload (+pad)
        let payload = riff_size - 12;
        let mut s = Sparse::new();
        s.push(b"RIFF");
        s.push(&(riff_size as u32).to_le_bytes());
        s.push(b"WEBP");
        s.push(b"VP8 ");
        s.push(&(payload as u32).to_le_bytes());
        s.push(&rng.bytes(8));
        s.push_zeros(payload - 8 + (payload & 1));
        for kind in [Kind::Seekable, Kind::Strict] {
            emit(out, prop, &format!("huge-{riff_size}-{}", kind.name()), &s, false, kind);
        }
    }
    // reserved bits / exact sizes
    for flags in [0x01u8, 0x40, 0x80, 0xc1, 0xff] {
        let file = riff(&[chunk(b"VP8X", &vp8x_payload(flags, 1, 1)), chunk(b"VP8 ", VP8_DATA)]);
        emit(out, prop, &format!("vp8x-flags{flags:02x}"), &Sparse::from_bytes(&file), false, Kind::Seekable);
    }
    for (tag, p) in [("short", vec![0u8; 9]), ("long", vec![0u8; 11]), ("long12", vec![0u8; 12]), ("resv", { let mut p = vp8x_payload(0, 1, 1); p[2] = 1; p })] {
        let file = riff(&[chunk(b"VP8X", &p), chunk(b"VP8 ", VP8_DATA)]);
        emit(out, prop, &format!("vp8x-{tag}"), &Sparse::from_bytes(&file), false, Kind::Seekable);
    }
    for n in [0usize, 5, 6, 7, 8] {
        let file = riff(&[chunk(b"VP8X", &vp8x_payload(0x02, 1, 1)), chunk(b"ANIM", &vec![0u8; n]), chunk(b"ANMF", &anmf_payload(0, 0, 1, 1, 0, &[chunk(b"VP8 ", VP8_DATA)]))]);
        emit(out, prop, &format!("anim-len{n}"), &Sparse::from_bytes(&file), false, Kind::Seekable);
    }
    for fl in [0u8, 1, 2, 3, 4, 0x80] {
        let file = riff(&[chunk(b"VP8X", &vp8x_payload(0x02, 1, 1)), chunk(b"ANIM", &[0; 6]), chunk(b"ANMF", &anmf_payload(0, 0, 1, 1, fl, &[chunk(b"VP8 ", VP8_DATA)]))]);
        emit(out, prop, &format!("anmf-flags{fl:02x}"), &Sparse::from_bytes(&file), false, Kind::Seekable);
    }
    for n in [0usize, 15, 16] {
        let mut p = anmf_payload(0, 0, 1, 1, 0, &[]);
        p.truncate(n);
        let file = riff(&[chunk(b"VP8X", &vp8x_payload(0x02, 1, 1)), chunk(b"ANIM", &[0; 6]), chunk(b"ANMF", &p)]);
        emit(out, prop, &format!("anmf-len{n}"), &Sparse::from_bytes(&file), false, Kind::Seekable);
    }
    // canvas / frame dimension relations for lossless images
    for (cw, ch, iw, ih) in [(1u32, 1u32, 1u32, 1u32), (2, 2, 1, 1), (1, 1, 2, 2), (4, 3, 4, 3), (4, 3, 3, 1)] {
        let file = riff(&[chunk(b"VP8X", &vp8x_payload(0, cw, ch)), chunk(b"VP8L", &pl.vp8l_for(iw, ih))]);
        emit(out, prop, &format!("still-dims-{cw}x{ch}-{iw}x{ih}"), &Sparse::from_bytes(&file), false, Kind::Seekable);
        // animated: frame header says iw x ih and holds a lossless image of iw x ih, on a cw x ch canvas
        let file = riff(&[chunk(b"VP8X", &vp8x_payload(0x02, cw, ch)), chunk(b"ANIM", &[0; 6]), chunk(b"ANMF", &anmf_payload(0, 0, iw, ih, 0, &[chunk(b"VP8L", &pl.vp8l_for(iw, ih))]))]);
        emit(out, prop, &format!("frame-dims-{cw}x{ch}-{iw}x{ih}"), &Sparse::from_bytes(&file), false, Kind::Seekable);
        // frame header says canvas-sized but the image inside is iw x ih
        let file = riff(&[chunk(b"VP8X", &vp8x_payload(0x02, cw, ch)), chunk(b"ANIM", &[0; 6]), chunk(b"ANMF", &anmf_payload(0, 0, cw, ch, 0, &[chunk(b"VP8L", &pl.vp8l_for(iw, ih))]))]);
        emit(out, prop, &format!("frame-hdr-canvas-{cw}x{ch}-{iw}x{ih}"), &Sparse::from_bytes(&file), false, Kind::Seekable);
        // lossless alpha in a sub-canvas frame
        let file = riff(&[chunk(b"VP8X", &vp8x_payload(0x12, cw.max(2), ch.max(2))), chunk(b"ANIM", &[0; 6]),
            chunk(b"ANMF", &anmf_payload(0, 0, iw.max(2), ih.max(2), 0, &[chunk(b"ALPH", &pl.alph_for(iw.max(2), ih.max(2))), chunk(b"VP8 ", VP8_DATA)]))]);
        emit(out, prop, &format!("frame-alph-{cw}x{ch}-{iw}x{ih}"), &Sparse::from_bytes(&file), false, Kind::Seekable);
    }
}

pub fn run<W: Write>(prop: &str, opts: &Opts, out: &mut W) {
    let mut rng = Rng::new(opts.seed ^ 0xC06);
    let pl = payloads(&mut rng.fork(1));
    if opts.shard.0 == 0 {
        framing(out, prop, &pl, &mut rng.fork(2));
        frame_sequences(out, prop, &pl, &mut rng.fork(3), if opts.tier_thorough { 3 } else { 2 });
    }
    exhaustive(out, prop, opts, &pl, &mut rng.fork(4), if opts.tier_thorough { 3 } else { 2 });
    // real encoder files (container completeness): lossless, lossy, lossy+alpha, with metadata chunks added
    let n = if opts.tier_thorough { 2000 } else { 200 };
    for i in 0..n {
        if !opts.mine(i) {
            continue;
        }
        let mut r = rng.fork(1000 + i);
        let (w, h) = (1 + r.below(24) as u32, 1 + r.below(24) as u32);
        let kind = *r.pick(&crate::c07::KINDS);
        let alpha = r.chance(1, 2);
        let img = image(&mut r, kind, w, h, alpha);
        let file = if r.chance(1, 2) {
            refdec::encode_lossless(&img, w, h, r.below(7) as i32, 50.0, 100, false)
        } else {
            refdec::encode_lossy(&img, w, h, 60.0, r.below(2) as i32, r.below(3) as i32, 90)
        };
        let file = if i % 4 == 3 {
            // an animation: the encoder emits sub-canvas frames for the changed rectangles
            let nf = 2 + r.below(3) as usize;
            let mut frames = vec![img.clone()];
            for _ in 1..nf {
                let mut f = frames.last().unwrap().clone();
                // change a small rectangle
                let (rx, ry) = (r.below(w as u64) as u32, r.below(h as u64) as u32);
                let (rw, rh) = (1 + r.below((w - rx) as u64) as u32, 1 + r.below((h - ry) as u64) as u32);
                for y in ry..ry + rh {
                    for x in rx..rx + rw {
                        let o = ((y * w + x) * 4) as usize;
                        let px = r.bytes(4);
                        f[o..o + 4].copy_from_slice(&[px[0], px[1], px[2], if alpha { px[3] } else { 255 }]);
                    }
                }
                frames.push(f);
            }
            refdec::encode_animation(&frames, w, h, r.chance(1, 2), r.chance(1, 2), r.chance(1, 2), r.chance(1, 2))
        } else if i % 8 == 5 {
            file.and_then(|f| refdec::add_metadata(&f))
        } else {
            file
        };
        if let Some(f) = file {
            let s = Sparse::from_bytes(&f);
            emit(out, prop, &format!("enc-{i}"), &s, false, if i % 2 == 0 { Kind::Seekable } else { Kind::Strict });
            // a byte changed in the container part
            let mut g = f.clone();
            let pos = r.below(g.len().min(40) as u64) as usize;
            g[pos] = r.next() as u8;
            emit(out, prop, &format!("enc-{i}-flip{pos}"), &Sparse::from_bytes(&g), r.chance(1, 2), Kind::Seekable);
        }
    }
}
