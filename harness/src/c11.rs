//! C11: same bytes, same answer — entry points, adapter stacks, read chunkings.
use std::io::{self, BufReader, Cursor, Read, Write};
use std::panic::AssertUnwindSafe;

use futures_util::io::{BufReader as ABufReader, Cursor as ACursor};
use futures_util::FutureExt;
use mediasan_common::{SeekSkipAdapter, Skip};

use crate::c13::{mp4_corpus, webp_corpus};
use crate::mp4gen::{cut_in_skipped_tail, remux};
use crate::mp4run::{canon, Cfg, ImplOut};
use crate::rng::Rng;
use crate::sparse::Sparse;
use crate::webprun::{wcanon, WOut};
use crate::Opts;

/// a Read + Skip over bytes whose `read` returns at most `pattern[i]` bytes (cycling); skip is seek-like or strict
struct Chunky {
    data: Vec<u8>,
    pos: u64,
    pattern: Vec<usize>,
    calls: usize,
    strict: bool,
}

impl Read for Chunky {
    fn read(&mut self, buf: &mut [u8]) -> io::Result<usize> {
        let lim = self.pattern[self.calls % self.pattern.len()].max(1);
        self.calls += 1;
        let avail = (self.data.len() as u64).saturating_sub(self.pos) as usize;
        let n = buf.len().min(lim).min(avail);
        if n == 0 {
            return Ok(0);
        }
        let p = self.pos as usize;
        buf[..n].copy_from_slice(&self.data[p..p + n]);
        self.pos += n as u64;
        Ok(n)
    }
}

impl Skip for Chunky {
    fn skip(&mut self, amount: u64) -> io::Result<()> {
        match self.pos.checked_add(amount) {
            Some(p) if !self.strict || p <= self.data.len() as u64 => {
                self.pos = p;
                Ok(())
            }
            Some(_) => Err(io::ErrorKind::UnexpectedEof.into()),
            None => Err(io::Error::new(io::ErrorKind::InvalidData, "overflow")),
        }
    }
    fn stream_position(&mut self) -> io::Result<u64> {
        Ok(self.pos)
    }
    fn stream_len(&mut self) -> io::Result<u64> {
        Ok(self.data.len() as u64)
    }
}

fn mp4_txt(o: ImplOut) -> String {
    match o {
        ImplOut::Noop(a, b) => format!("ok:none:{a},{b}"),
        ImplOut::Md(md, a, b) => format!("ok:md:{a},{b}:{}", crate::mp4run::md_text(&md)),
        ImplOut::Parse(k) => format!("err:parse:{k}"),
        ImplOut::Io(k) => format!("err:io:{k}"),
        ImplOut::Panic => "panic".into(),
    }
}

fn g<F: FnOnce() -> String>(f: F) -> String {
    crate::quiet(AssertUnwindSafe(f)).unwrap_or("panic".into())
}

/// every way of feeding the same bytes to mp4san
pub fn mp4_variants(d: &[u8], cfg: &Cfg, rng: &mut Rng, default_cfg: bool) -> Vec<(String, String)> {
    let mut v: Vec<(String, String)> = vec![];
    let c = || cfg.build();
    if default_cfg {
        v.push(("sanitize".into(), g(|| mp4_txt(canon(mp4san::sanitize(Cursor::new(d.to_vec())))))));
        v.push(("sanitize_async".into(), g(|| mp4_txt(canon(mp4san::sanitize_async(ACursor::new(d.to_vec())).now_or_never().expect("ready"))))));
    }
    v.push(("with_config-cursor".into(), g(|| mp4_txt(canon(mp4san::sanitize_with_config(Cursor::new(d.to_vec()), c()))))));
    v.push(("with_config-cursor-slice".into(), g(|| mp4_txt(canon(mp4san::sanitize_with_config(Cursor::new(d), c()))))));
    v.push(("async-acursor".into(), g(|| mp4_txt(canon(mp4san::sanitize_async_with_config(ACursor::new(d.to_vec()), c()).now_or_never().expect("ready"))))));
    v.push(("seekskip".into(), g(|| mp4_txt(canon(mp4san::sanitize_with_config(SeekSkipAdapter(Cursor::new(d.to_vec())), c()))))));
    v.push(("async-seekskip".into(), g(|| mp4_txt(canon(mp4san::sanitize_async_with_config(SeekSkipAdapter(ACursor::new(d.to_vec())), c()).now_or_never().expect("ready"))))));
    for cap in [1usize, 2, 3, 7, 8, 31, 32, 33, 64, 8192, 1 + rng.below(64) as usize, 1 + rng.below(64) as usize] {
        v.push((format!("bufreader{cap}"), g(|| mp4_txt(canon(mp4san::sanitize_with_config(BufReader::with_capacity(cap, Cursor::new(d.to_vec())), c()))))));
        v.push((format!("async-abufreader{cap}"), g(|| mp4_txt(canon(mp4san::sanitize_async_with_config(ABufReader::with_capacity(cap, ACursor::new(d.to_vec())), c()).now_or_never().expect("ready"))))));
    }
    // depth-3 stacks
    v.push(("box-bufreader-seekskip".into(), g(|| mp4_txt(canon(mp4san::sanitize_with_config(Box::new(BufReader::with_capacity(5, SeekSkipAdapter(Cursor::new(d.to_vec())))), c()))))));
    v.push(("bufreader-box-bufreader".into(), g(|| mp4_txt(canon(mp4san::sanitize_with_config(BufReader::with_capacity(9, Box::new(BufReader::with_capacity(4, Cursor::new(d.to_vec())))), c()))))));
    v.push(("refmut-bufreader".into(), g(|| {
        let mut r = BufReader::with_capacity(13, Cursor::new(d.to_vec()));
        mp4_txt(canon(mp4san::sanitize_with_config(&mut r, c())))
    })));
    // the async entry point over a NATIVE AsyncSkip reader whose every operation is suspended once (first poll Pending):
    // the same bytes through a reader that is merely slow
    {
        let sp = Sparse::from_bytes(d);
        v.push(("async-native-suspended".into(), g(|| mp4_txt(crate::c12::run_async_every_op_suspended(&sp, cfg, false)))));
    }
    v.push(("async-pin-box-abufreader".into(), g(|| mp4_txt(canon(mp4san::sanitize_async_with_config(Box::pin(ABufReader::with_capacity(6, ACursor::new(d.to_vec()))), c()).now_or_never().expect("ready"))))));
    v.push(("async-abufreader-abufreader".into(), g(|| mp4_txt(canon(mp4san::sanitize_async_with_config(ABufReader::with_capacity(11, ABufReader::with_capacity(2, ACursor::new(d.to_vec()))), c()).now_or_never().expect("ready"))))));
    // a real file
    v.push(("file".into(), g(|| {
        let path = std::env::temp_dir().join(format!("verif-c11-{}.bin", std::process::id()));
        std::fs::write(&path, d).unwrap();
        let r = mp4_txt(canon(mp4san::sanitize_with_config(std::fs::File::open(&path).unwrap(), c())));
        let _ = std::fs::remove_file(&path);
        r
    })));
    // read chunkings (seek-like custom Skip), alone and under a BufReader
    for pat in [vec![1usize], vec![2], vec![3, 1], vec![7, 1, 2], (0..4).map(|_| 1 + rng.below(40) as usize).collect::<Vec<_>>()] {
        let name: Vec<String> = pat.iter().map(|x| x.to_string()).collect();
        let mk = |pat: &Vec<usize>| Chunky { data: d.to_vec(), pos: 0, pattern: pat.clone(), calls: 0, strict: false };
        v.push((format!("chunk{}", name.join(".")), g(|| mp4_txt(canon(mp4san::sanitize_with_config(mk(&pat), c()))))));
        v.push((format!("bufreader17-chunk{}", name.join(".")), g(|| mp4_txt(canon(mp4san::sanitize_with_config(BufReader::with_capacity(17, mk(&pat)), c()))))));
    }
    v
}

fn w_txt(o: WOut) -> String {
    o.text()
}

pub fn webp_variants(d: &[u8], allow: bool, rng: &mut Rng) -> Vec<(String, String)> {
    let mut v: Vec<(String, String)> = vec![];
    let c = || webpsan::Config::builder().allow_unknown_chunks(allow).build();
    if !allow {
        v.push(("sanitize".into(), g(|| w_txt(wcanon(webpsan::sanitize(Cursor::new(d.to_vec())))))));
    }
    v.push(("with_config-cursor".into(), g(|| w_txt(wcanon(webpsan::sanitize_with_config(Cursor::new(d.to_vec()), c()))))));
    v.push(("seekskip".into(), g(|| w_txt(wcanon(webpsan::sanitize_with_config(SeekSkipAdapter(Cursor::new(d.to_vec())), c()))))));
    for cap in [1usize, 2, 7, 8, 9, 64, 8192, 1 + rng.below(64) as usize] {
        v.push((format!("bufreader{cap}"), g(|| w_txt(wcanon(webpsan::sanitize_with_config(BufReader::with_capacity(cap, Cursor::new(d.to_vec())), c()))))));
    }
    v.push(("box-bufreader-seekskip".into(), g(|| w_txt(wcanon(webpsan::sanitize_with_config(Box::new(BufReader::with_capacity(5, SeekSkipAdapter(Cursor::new(d.to_vec())))), c()))))));
    v.push(("refmut-bufreader".into(), g(|| {
        let mut r = BufReader::with_capacity(13, Cursor::new(d.to_vec()));
        w_txt(wcanon(webpsan::sanitize_with_config(&mut r, c())))
    })));
    v.push(("file".into(), g(|| {
        let path = std::env::temp_dir().join(format!("verif-c11w-{}.bin", std::process::id()));
        std::fs::write(&path, d).unwrap();
        let r = w_txt(wcanon(webpsan::sanitize_with_config(std::fs::File::open(&path).unwrap(), c())));
        let _ = std::fs::remove_file(&path);
        r
    })));
    for pat in [vec![1usize], vec![3, 1], (0..3).map(|_| 1 + rng.below(30) as usize).collect::<Vec<_>>()] {
        let name: Vec<String> = pat.iter().map(|x| x.to_string()).collect();
        let mk = |pat: &Vec<usize>| Chunky { data: d.to_vec(), pos: 0, pattern: pat.clone(), calls: 0, strict: false };
        v.push((format!("chunk{}", name.join(".")), g(|| w_txt(wcanon(webpsan::sanitize_with_config(mk(&pat), c()))))));
        v.push((format!("bufreader5-chunk{}", name.join(".")), g(|| w_txt(wcanon(webpsan::sanitize_with_config(BufReader::with_capacity(5, mk(&pat)), c()))))));
    }
    v
}

pub fn emit<W: Write>(out: &mut W, id: &str, san: &str, s: &Sparse, cfg: &Cfg, allow: bool, rng: &mut Rng, default_cfg: bool) {
    let d = s.dense().expect("dense input");
    let vs = if san == "mp4" { mp4_variants(&d, cfg, rng, default_cfg) } else { webp_variants(&d, allow, rng) };
    let txt: Vec<String> = vs.iter().map(|(n, r)| format!("{n}={r}")).collect();
    writeln!(out, "C11 id={id} san={san} {} {} allow={} default={} results={}", s.line(), cfg.line(), allow as u8, default_cfg as u8, txt.join(";")).unwrap();
}

pub fn replay<W: Write>(line: &str, out: &mut W) {
    let get = |k: &str| line.split(' ').find_map(|t| t.strip_prefix(&format!("{k}=")).map(|s| s.to_string()));
    let s = Sparse::parse_line(&get("len").unwrap(), &get("ext").unwrap());
    let cfg = Cfg { max: get("max").unwrap().parse().unwrap(), cum: match get("cum").as_deref() { Some("none") | None => None, Some(c) => Some(c.parse().unwrap()) } };
    let mut rng = Rng::new(7);
    emit(out, &get("id").unwrap_or("replay".into()), &get("san").unwrap(), &s, &cfg, get("allow").as_deref() == Some("1"), &mut rng, get("default").as_deref() == Some("1"));
}

pub fn run<W: Write>(opts: &Opts, out: &mut W) {
    let mut rng = Rng::new(opts.seed ^ 0xC11);
    let mut idx = 0u64;
    for (name, s, cfg) in mp4_corpus(&mut rng.fork(1)) {
        idx += 1;
        if opts.mine(idx) {
            let def = cfg == Cfg::default();
            emit(out, &format!("mp4-{name}"), "mp4", &s, &cfg, false, &mut rng.fork(idx), def);
        }
    }
    for (name, s, allow) in webp_corpus(&mut rng.fork(2)) {
        idx += 1;
        if opts.mine(idx) {
            emit(out, &format!("webp-{name}"), "webp", &s, &Cfg::default(), allow, &mut rng.fork(idx), false);
        }
    }
    let n = if opts.tier_thorough { 3000 } else { 250 };
    for i in 0..n {
        idx += 1;
        if !opts.mine(idx) {
            continue;
        }
        let mut r = rng.fork(1000 + i);
        if i % 5 == 4 {
            // the input ends a few bytes short, inside media that is only skipped: every way of feeding it must say so
            let len = 1 + r.below(200);
            let cut = if r.chance(1, 6) { 0 } else { 1 + r.below(len.min(100)) };
            let s = cut_in_skipped_tail(&mut r, len, cut);
            emit(out, &format!("mp4-cut-{i}"), "mp4", &s, &Cfg::default(), false, &mut r, true);
            continue;
        }
        let mut gm = remux(&mut r, false, true);
        if gm.s.len > 100_000 {
            continue;
        }
        // valid and invalid: a tenth truncated, a tenth with a flipped byte
        match r.below(10) {
            0 => {
                let cut = r.below(gm.s.len.min(200) + 1);
                gm.s = gm.s.truncate(gm.s.len - cut);
            }
            1 => {
                let pos = r.below(gm.s.len.min(300).max(1));
                let v = r.next() as u8;
                gm.s.set_byte(pos, v);
            }
            _ => {}
        }
        let def = gm.cfg == Cfg::default();
        emit(out, &format!("mp4-rnd-{i}"), "mp4", &gm.s, &gm.cfg, false, &mut r, def);
    }
    // webp: C06-style files
    let pl = crate::c06::payloads(&mut rng.fork(3));
    use crate::webprun::*;
    for i in 0..n / 2 {
        idx += 1;
        if !opts.mine(idx) {
            continue;
        }
        let mut r = rng.fork(5000 + i);
        let flags = (r.below(32) as u8) << 1;
        let mut chunks = vec![chunk(b"VP8X", &vp8x_payload(flags, 2, 2))];
        for _ in 0..r.below(5) {
            let c = match r.below(9) {
                0 => chunk(b"ICCP", &r.bytes(3)),
                1 => chunk(b"ALPH", &pl.alph_for(2, 2)),
                2 => chunk(b"VP8 ", VP8_DATA),
                3 => chunk(b"VP8L", &pl.vp8l_for(2, 2)),
                4 => chunk(b"EXIF", &r.bytes(2)),
                5 => chunk(b"XMP ", &r.bytes(5)),
                6 => chunk(b"ANIM", &[0; 6]),
                7 => chunk(b"unkn", &r.bytes(1)),
                _ => chunk(b"VP8L", &pl.vp8l_for(1, 1)),
            };
            chunks.push(c);
        }
        let mut f = riff(&chunks);
        if r.chance(1, 8) {
            let cut = r.below(f.len() as u64) as usize;
            f.truncate(cut);
        }
        emit(out, &format!("webp-rnd-{i}"), "webp", &Sparse::from_bytes(&f), &Cfg::default(), r.chance(1, 2), &mut r, false);
    }
    // webp: the input ends inside trailing chunks that are only skipped (allowed unknown chunks, EXIF / XMP): every way
    // of feeding it must say so
    for i in 0..(if opts.tier_thorough { 200 } else { 30 }) {
        idx += 1;
        if !opts.mine(idx) {
            continue;
        }
        let mut r = rng.fork(9000 + i);
        let meta = i % 2 == 1;
        let mut chunks = vec![chunk(b"VP8X", &vp8x_payload(if meta { 0x0c } else { 0 }, 1, 1)), chunk(b"VP8L", &pl.vp8l_for(1, 1))];
        let first_tail = riff(&chunks).len();
        let mut names: Vec<&[u8; 4]> = if meta { vec![b"EXIF", b"XMP "] } else { vec![] };
        for _ in 0..1 + r.below(2) {
            names.push(*r.pick(&[b"unkn", b"junk"]));
        }
        for name in names {
            let n = 2 * r.below(12) as usize + if r.chance(1, 3) { 1 } else { 0 };
            chunks.push(chunk(name, &r.bytes(n)));
        }
        let mut f = riff(&chunks);
        let cut = first_tail + r.below((f.len() - first_tail) as u64 + 1) as usize;
        f.truncate(cut);
        emit(out, &format!("webp-cut-{i}"), "webp", &Sparse::from_bytes(&f), &Cfg::default(), i % 4 != 3, &mut r, false);
    }
}
