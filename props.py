"""Per-property configuration for ./check (extractors, evidence texts, non-triviality rule)."""

COMMON_ASSUME = [
    "theorems are about the Lean model; the model is tied to /repo by extraction (data, one function) and by differential execution (logic)",
    "Rust semantics of the constructs named in DESIGN.md section 3 (integer ops, `as`, Option/Result)",
]

PROPS = {
    "C20": {
        "extract": ["checked_add_signed"],
        "rule": "cases = all 65 536 (u8,i8) pairs + boundary lattice x random (half steered to the 0 / MAX boundary) for 16/32/64/128-bit and usize; "
                "non-trivial = the case exercises a decided outcome (tag some/none) — every generated pair does; distinct = distinct (width,l,r)",
        "trivial_tags": [],
        "exhaustive": {"quick": True, "thorough": True},
        "explanation": "exhaustive refers to the u8 x i8 instance (quick) and additionally u16 x i16 judged in-process against i64 arithmetic (thorough); wider instances are covered by the width-generic theorem plus lattice/random differential cases",
        "trusted_base": [
            "extract/rustexpr.py: translation of the macro body (let-tuple, overflowing_add, `as Self`, ^, <, if/else, Some/None) to Lean over BitVec n",
            "MediaSan/Rust.lean: meaning of overflowing_add / as / signed comparison",
        ],
        "assumptions": COMMON_ASSUME + ["usize is 64 bits on the target the harness runs on"],
    },
}

PROPS["C17"] = {
    "extract": ["webp_codec"],
    "rule": "cases = (value -> put -> parse) for every webm_int! type: all 256 u8/i8 and all 65 536 u16/i16 values, boundary + all-bytes-distinct + random for 32/64-bit; "
            "(bytes -> parse -> put) for ints, U24 and OneBasedU24; for each chunk (VP8X, ANIM, ANMF, ALPH, chunk header): every value of the first and last byte, every single non-zero byte, "
            "random payloads (3/4 masked to be valid), the VP8X canvas-area boundary, trailing bytes, and every shorter-than-ENCODED_LEN buffer. "
            "non-trivial = the payload parsed (tag ok) or was rejected for a payload reason (tag rejected) or is a primitive round trip; trivial = too-short buffers (tag short)",
    "trivial_tags": ["short", "Vp8xChunk", "AnimChunk", "AnmfChunk", "AlphChunk", "ChunkHeader"],
    "exhaustive": {"quick": True, "thorough": True},
    "explanation": "exhaustive refers to the 8- and 16-bit integer primitives and to the first/last byte of every chunk; wider fields are covered by the schema-generic theorems plus boundary/random cases",
    "trusted_base": [
        "extract.py `webp_codec`: anchors on webm_int!, U24/OneBasedU24/WebmFlags/Reserved impls, bitflags! blocks, the four chunk structs' parse/put_buf bodies and ENCODED_LEN, ChunkHeader",
        "bytes::Buf getters/putters: `get_uN_le`/`put_uN_le` little-endian, `get_uN`/`put_uN` big-endian, get_uint(_le)/put_uint(_le); bitflags::from_bits rejects unknown bits",
        "MediaSan/Spec/WebpLayout.lean: hand-written byte layouts from the WebP container specification (the little-endian oracle)",
    ],
    "assumptions": COMMON_ASSUME + [
        "signed integers are compared through their two's-complement bit patterns",
        "buffers handed to chunk parsers hold at least ENCODED_LEN bytes (what ChunkReader::parse_data guarantees); shorter buffers are only compared model-vs-code, not judged",
    ],
}

MP4_TRUSTED = [
    "hand-written model lean/MediaSan/Mp4/{Header,Tree,Sanitize}.lean of mp4san/src/lib.rs and parse/*.rs, tied by differential execution on every run",
    "MediaSan/Spec/{Mp4Walk,Mp4Rules}.lean: independent box walker and the declarative reading of the property (evaluated on the real output)",
    "ideal-cursor model of std::io::Cursor / futures BufReader / SeekSkipAdapter (seekable) and of a strict custom Skip (strict); sparse-stream readers of the harness",
    "bytes::BytesMut split/advance, derive(ParseBox/ParsedBox) expansion, Vec/BytesMut lengths below isize::MAX",
]
MP4_RULE = ("cases = `remux` generator (1-4 traks, stco/co64 mix, unknown/uuid siblings at all five levels, 32/64-bit/until-end headers, "
            "entries from the boundary lattice {0,1,2^31-1,2^31,2^32-2,2^32-1,2^63,2^64-1} +- shift, gaps {0..40, 64, 1000, 65536, 2^32-8.., 2^33+5} realised as sparse free/skip boxes, "
            "1-3 sparse mdat boxes with interleaved free/skip/meta/meco, earlier moov boxes, config limits around the moov size) x {seekable, strict} readers, "
            "one tenth byte-flipped and one tenth truncated; plus moov-first (no-op) files. non-trivial = the scan got past the ftyp box (any tag other than E-InvalidBoxLayout/E-UnsupportedFormat on a 0-1 box file); distinct = distinct case lines")

PROPS["C01"] = {
    "extract": ["checked_add_signed"],
    "rule": MP4_RULE,
    "trivial_if_any": ["boxes0", "boxes1"],
    "shards": {"quick": 4, "thorough": 16},
    "trusted_base": MP4_TRUSTED,
    "assumptions": COMMON_ASSUME + ["that the rewrite traversal visits exactly the tables an independent walker finds is checked per case (Spec_C01 on the real output), not yet proved"],
}

NOT_APPLICABLE = {}

MANIFEST_TEXT = {
    "C01": {
        "text": "Lean theorems about the model of the MP4 rewrite: planRewrite arithmetic (shift = |metadata| - span.offset, fits i32, padding only when it zeroes the shift, refusal iff neither fits), exactness of the table rewrite for every width/count/displacement (each entry = old + shift, field never wraps, refusal iff an entry leaves its field, no panic), and the per-entry test equals the extracted checked_add_signed. The model is compared with the real crate on the remux generator (sparse gaps up to > 2^33, boundary entries, both reader kinds) and Spec_C01 (independent walker: same tables, every entry shifted by |md| - span.offset) is evaluated on the real output of every case.",
        "note": "Partial: the theorems cover the decision arithmetic and the table rewrite; that the traversal reaches exactly the tables of every trak is established per generated case by the walker-based Spec, not by a theorem. Trusted: Lean kernel; propext, Quot.sound, Classical.choice; the hand-written model (validated differentially); the walker; harness + driver.",
        "technique": "Lean 4 proof (induction over the entry array; case analysis of the rewrite plan) + differential correspondence with spec evaluation on the implementation's output",
    },
    "C17": {
        "text": "Schema-generic Lean theorems (parse∘put = id on well-formed values, put∘parse = id on the success domain, no panic with >= ENCODED_LEN bytes, reserved-byte violations are InvalidInput) instantiated at chunk schemas regenerated from webpsan/src/parse/*.rs on every run; table obligations (by decide) that every integer getter/putter pair agrees and is little-endian, that put_buf writes fields in parse order, and that declared ENCODED_LEN is the field sum. Correspondence through the public webpsan::parse API, exhaustive for 8/16-bit primitives, judged against a hand-written little-endian layout oracle.",
        "note": "Trusted: Lean kernel; propext, Quot.sound (Classical.choice where simp uses it); the extraction anchors; semantics of bytes::Buf/BufMut method names and bitflags::from_bits; the hand-written layout oracle; harness + driver.",
        "technique": "Lean 4 proof over extracted codec schemas (generic round-trip lemmas + decide on the tables); differential check via public parse API",
    },
    "C20": {
        "text": "Width-generic Lean theorem (C20_exact / C20_some_iff / C20_none_iff) about the function body regenerated from common/src/util.rs on every run: the result is the mathematical sum when representable in n bits and None otherwise, for every n; the six macro instances are checked to pair same-width unsigned/signed types. Correspondence: all 65 536 (u8,i8) pairs plus lattice/random pairs for every wider instance run on the real crate and are compared with the model and with integer arithmetic.",
        "note": "Trusted: Lean kernel; propext, Quot.sound; the mini Rust-expression translator in extract/rustexpr.py and the meaning given to overflowing_add/as/</^ in MediaSan/Rust.lean; harness + driver for the differential part.",
        "technique": "Lean 4 proof over BitVec n of the extracted function; exhaustive u8 (and u16 in thorough) differential check",
    },
}
