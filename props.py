"""Per-property configuration for ./check (extractors, evidence texts, non-triviality rule)."""

COMMON_ASSUME = [
    "theorems are about the Lean model; the model is tied to /repo by extraction (data, one function) and by differential execution (logic)",
    "Rust semantics of the constructs named in DESIGN.md section 3 (integer ops, `as`, Option/Result)",
]

PROPS = {
    "C20": {
        "extract": ["checked_add_signed"],
        "rule": "cases = all 65 536 (u8,i8) pairs + boundary lattice x random (half steered to the 0 / MAX boundary) for 16/32/64/128-bit and usize; "
                "non-trivial = the case exercises a decided outcome (tag some/none) — every generated pair does; distinct = distinct (width,l,r)",
        "trivial_tags": [],
        "exhaustive": {"quick": True, "thorough": True},
        "explanation": "exhaustive refers to the u8 x i8 instance (quick) and additionally u16 x i16 judged in-process against i64 arithmetic (thorough); wider instances are covered by the width-generic theorem plus lattice/random differential cases",
        "trusted_base": [
            "extract/rustexpr.py: translation of the macro body (let-tuple, overflowing_add, `as Self`, ^, <, if/else, Some/None) to Lean over BitVec n",
            "MediaSan/Rust.lean: meaning of overflowing_add / as / signed comparison",
        ],
        "assumptions": COMMON_ASSUME + ["usize is 64 bits on the target the harness runs on"],
    },
}

PROPS["C17"] = {
    "extract": ["webp_codec"],
    "rule": "cases = (value -> put -> parse) for every webm_int! type: all 256 u8/i8 and all 65 536 u16/i16 values, boundary + all-bytes-distinct + random for 32/64-bit; "
            "(bytes -> parse -> put) for ints, U24 and OneBasedU24; for each chunk (VP8X, ANIM, ANMF, ALPH, chunk header): every value of the first and last byte, every single non-zero byte, "
            "random payloads (3/4 masked to be valid), the VP8X canvas-area boundary, trailing bytes, and every shorter-than-ENCODED_LEN buffer. "
            "non-trivial = the payload parsed (tag ok) or was rejected for a payload reason (tag rejected) or is a primitive round trip; trivial = too-short buffers (tag short)",
    "trivial_tags": ["short", "Vp8xChunk", "AnimChunk", "AnmfChunk", "AlphChunk", "ChunkHeader"],
    "exhaustive": {"quick": True, "thorough": True},
    "explanation": "exhaustive refers to the 8- and 16-bit integer primitives and to the first/last byte of every chunk; wider fields are covered by the schema-generic theorems plus boundary/random cases",
    "trusted_base": [
        "extract.py `webp_codec`: anchors on webm_int!, U24/OneBasedU24/WebmFlags/Reserved impls, bitflags! blocks, the four chunk structs' parse/put_buf bodies and ENCODED_LEN, ChunkHeader",
        "bytes::Buf getters/putters: `get_uN_le`/`put_uN_le` little-endian, `get_uN`/`put_uN` big-endian, get_uint(_le)/put_uint(_le); bitflags::from_bits rejects unknown bits",
        "MediaSan/Spec/WebpLayout.lean: hand-written byte layouts from the WebP container specification (the little-endian oracle)",
    ],
    "assumptions": COMMON_ASSUME + [
        "signed integers are compared through their two's-complement bit patterns",
        "buffers handed to chunk parsers hold at least ENCODED_LEN bytes (what ChunkReader::parse_data guarantees); shorter buffers are only compared model-vs-code, not judged",
    ],
}

NOT_APPLICABLE = {}

MANIFEST_TEXT = {
    "C17": {
        "text": "Schema-generic Lean theorems (parse∘put = id on well-formed values, put∘parse = id on the success domain, no panic with >= ENCODED_LEN bytes, reserved-byte violations are InvalidInput) instantiated at chunk schemas regenerated from webpsan/src/parse/*.rs on every run; table obligations (by decide) that every integer getter/putter pair agrees and is little-endian, that put_buf writes fields in parse order, and that declared ENCODED_LEN is the field sum. Correspondence through the public webpsan::parse API, exhaustive for 8/16-bit primitives, judged against a hand-written little-endian layout oracle.",
        "note": "Trusted: Lean kernel; propext, Quot.sound (Classical.choice where simp uses it); the extraction anchors; semantics of bytes::Buf/BufMut method names and bitflags::from_bits; the hand-written layout oracle; harness + driver.",
        "technique": "Lean 4 proof over extracted codec schemas (generic round-trip lemmas + decide on the tables); differential check via public parse API",
    },
    "C20": {
        "text": "Width-generic Lean theorem (C20_exact / C20_some_iff / C20_none_iff) about the function body regenerated from common/src/util.rs on every run: the result is the mathematical sum when representable in n bits and None otherwise, for every n; the six macro instances are checked to pair same-width unsigned/signed types. Correspondence: all 65 536 (u8,i8) pairs plus lattice/random pairs for every wider instance run on the real crate and are compared with the model and with integer arithmetic.",
        "note": "Trusted: Lean kernel; propext, Quot.sound; the mini Rust-expression translator in extract/rustexpr.py and the meaning given to overflowing_add/as/</^ in MediaSan/Rust.lean; harness + driver for the differential part.",
        "technique": "Lean 4 proof over BitVec n of the extracted function; exhaustive u8 (and u16 in thorough) differential check",
    },
}
