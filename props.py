"""Per-property configuration for ./check (extractors, evidence texts, non-triviality rule)."""

COMMON_ASSUME = [
    "theorems are about the Lean model; the model is tied to /repo by extraction (data, one function) and by differential execution (logic)",
    "Rust semantics of the constructs named in DESIGN.md section 3 (integer ops, `as`, Option/Result)",
]

PROPS = {
    "C20": {
        "extract": ["checked_add_signed"],
        "rule": "cases = all 65 536 (u8,i8) pairs + boundary lattice x random (half steered to the 0 / MAX boundary) for 16/32/64/128-bit and usize; "
                "non-trivial = the case exercises a decided outcome (tag some/none) — every generated pair does; distinct = distinct (width,l,r)",
        "trivial_tags": [],
        "exhaustive": {"quick": True, "thorough": True},
        "explanation": "exhaustive refers to the u8 x i8 instance (quick) and additionally u16 x i16 judged in-process against i64 arithmetic (thorough); wider instances are covered by the width-generic theorem plus lattice/random differential cases",
        "trusted_base": [
            "extract/rustexpr.py: translation of the macro body (let-tuple, overflowing_add, `as Self`, ^, <, if/else, Some/None) to Lean over BitVec n",
            "MediaSan/Rust.lean: meaning of overflowing_add / as / signed comparison",
        ],
        "assumptions": COMMON_ASSUME + ["usize is 64 bits on the target the harness runs on"],
    },
}

NOT_APPLICABLE = {}

MANIFEST_TEXT = {
    "C20": {
        "text": "Width-generic Lean theorem (C20_exact / C20_some_iff / C20_none_iff) about the function body regenerated from common/src/util.rs on every run: the result is the mathematical sum when representable in n bits and None otherwise, for every n; the six macro instances are checked to pair same-width unsigned/signed types. Correspondence: all 65 536 (u8,i8) pairs plus lattice/random pairs for every wider instance run on the real crate and are compared with the model and with integer arithmetic.",
        "note": "Trusted: Lean kernel; propext, Quot.sound; the mini Rust-expression translator in extract/rustexpr.py and the meaning given to overflowing_add/as/</^ in MediaSan/Rust.lean; harness + driver for the differential part.",
        "technique": "Lean 4 proof over BitVec n of the extracted function; exhaustive u8 (and u16 in thorough) differential check",
    },
}
